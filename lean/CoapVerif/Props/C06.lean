import CoapVerif.Lemmas.SendQueue
import CoapVerif.Lemmas.TimerSim
import CoapVerif.Lemmas.SchedInv
import CoapVerif.Lemmas.TimerSimFull
import CoapVerif.Lemmas.Conserve
import CoapVerif.Lemmas.PduFixed
import CoapVerif.Lemmas.MsgHold
import CoapVerif.Lemmas.MsgLayerW
import CoapVerif.Lemmas.MsgLayerWRefuse
import CoapVerif.Lemmas.ObserveWait
import CoapVerif.Lemmas.ObserveWaitInv
import CoapVerif.Lemmas.MsgLayerI
/-
C06 — the retransmission queue: every pending message is (re)transmitted on the RFC 7252 §4.2 schedule and
ends in exactly one outcome.

  S = Coap.Spec.SQ / Coap.Timer  (absolute deadlines, ordered; timer system; CoapVerif/Spec/SendQueue.lean, Timer.lean)
  M = Coap.SQ / Coap.Msg         (delta-time queue of src/coap_net.c, message layer; CoapVerif/Model/*.lean)

Sections: (1) queue abstraction, (2) coap_calc_timeout, (3) returned wait, (4) steps of coap_retransmit and the due
loop, one message end to end, (5) S-level schedule / outcomes, (6) exact simulation M ⊑ S for any number of messages
and sessions, (7) schedule, single outcome, never-sent-again, fixed PDU/timeout, due-fires on M for the whole C06
alphabet including the NSTART gate, (8) PDU fields / timeout never modified, (9) a message waiting for an NSTART slot is
never stranded, (10) socket-write failures (`Model/MsgLayerW.lean`): a retransmission that cannot be written is a lost
datagram.

Property theorems only; helper lemmas live in CoapVerif/Lemmas/SendQueue.lean (queue, S), TimerSim.lean (simulation),
SchedInv.lean (schedule invariant on M), Conserve.lean (conservation on M).
-/
namespace Coap.C06
open Coap Coap.SQ
open Coap.Spec.SQ (Entry sched)

/-! ## (1) the delta list represents the ordered multiset of absolute deadlines -/

/-- the operations the code performs on `context->sendqueue` -/
inductive QOp where
  | enqueue (now delay : Nat) (n : Node)
  | insertRaw (n : Node)
  | pop
  | remove (s mid : Nat)
  | removeTok (s tok : Nat)
  | cancelSession (s : Nat)
  | adjust (now : Nat)
  deriving Repr, DecidableEq

/-- M: what the operation does to the delta-time queue -/
def applyM (q : Queue) : QOp → Queue
  | .enqueue now delay n => SQ.enqueue q now delay n
  | .insertRaw n => { q with nodes := insertNode q.nodes n }
  | .pop => match popNext q.nodes with
    | none => q
    | some (_, r) => { q with nodes := r }
  | .remove s mid => { q with nodes := (removeNode q.nodes s mid).2 }
  | .removeTok s tok => { q with nodes := (SQ.removeTok q.nodes s tok).2 }
  | .cancelSession s => { q with nodes := (SQ.cancelSession q.nodes s).2 }
  | .adjust now => (adjustBasetime q now).2

/-- S state: the reference time (needed to read a raw relative insert) and the absolute deadlines -/
abbrev SState := Nat × List Entry

/-- S: what the operation means on absolute deadlines -/
def applyS (st : SState) : QOp → SState
  | .enqueue now delay n =>
    (if st.2 = [] then now else st.1, Spec.SQ.insert st.2 ⟨now + delay, n.sess, n.mid, n.tok⟩)
  | .insertRaw n => (st.1, Spec.SQ.insert st.2 ⟨st.1 + n.t, n.sess, n.mid, n.tok⟩)
  | .pop => match Spec.SQ.pop st.2 with
    | none => st
    | some (_, r) => (st.1, r)
  | .remove s mid => (st.1, (Spec.SQ.remove st.2 s mid).2)
  | .removeTok s tok => (st.1, (Spec.SQ.removeTok st.2 s tok).2)
  | .cancelSession s => (st.1, (Spec.SQ.cancelSession st.2 s).2)
  | .adjust now => (now, Spec.SQ.adjust st.2 now)

/-- the abstraction on states: base time and absolute deadlines -/
def absState (q : Queue) : SState := (q.base, abs q)

/-- when the code's time arithmetic is exact: `coap_wait_ack`/`coap_retransmit` are called with `now` not before
the base time (or on an empty queue); the base time moves backward (or the queue is empty). -/
def OpOk (q : Queue) : QOp → Prop
  | .enqueue now _ _ => q.nodes = [] ∨ q.base ≤ now
  | .adjust now => now ≤ q.base ∨ q.nodes = []
  | _ => True

/-- `OpOk` threaded along the run of the code -/
def OpsOk (q : Queue) : List QOp → Prop
  | [] => True
  | op :: ops => OpOk q op ∧ OpsOk (applyM q op) ops

instance (q : Queue) (op : QOp) : Decidable (OpOk q op) := by
  cases op <;> simp only [OpOk] <;> infer_instance

instance decOpsOk : (ops : List QOp) → (q : Queue) → Decidable (OpsOk q ops)
  | [], _ => isTrue trivial
  | op :: ops, q => by
    unfold OpsOk
    exact @instDecidableAnd _ _ _ (decOpsOk ops _)

/-- one operation commutes with the abstraction -/
theorem step_commutes (q : Queue) (op : QOp) (h : OpOk q op) :
    absState (applyM q op) = applyS (absState q) op := by
  cases op with
  | enqueue now delay n =>
    simp only [applyM, applyS, absState]
    rw [abs_enqueue q now delay n h, enqueue_base]
    simp [abs, absFrom_eq_nil]
  | insertRaw n => simp [applyM, applyS, absState, abs, absFrom_insertNode]
  | pop =>
    have := absPop_popNext q.base q.nodes
    simp only [applyM, applyS, absState, abs]
    cases hp : popNext q.nodes with
    | none => rw [hp] at this; simp [absPop] at this; simp [← this]
    | some p => rw [hp] at this; simp [absPop] at this; simp [← this]
  | remove s mid => simp [applyM, applyS, absState, abs, removeNode_rest]
  | removeTok s tok => simp [applyM, applyS, absState, abs, removeTok_rest]
  | cancelSession s => simp [applyM, applyS, absState, abs, cancelSession_rest]
  | adjust now =>
    have := abs_adjust_backward q now h
    simp [applyM, applyS, absState, this.1, this.2]

/-- **queue_abs_invariant**: for every sequence of queue operations (each within the range where the code's
time arithmetic is exact, `OpsOk`), running the code on the delta list and then reading off the absolute
deadlines is the same as running the specification on the absolute deadlines; and what the delta list
represents is always ordered by deadline. -/
theorem queue_abs_invariant : ∀ (ops : List QOp) (q : Queue), OpsOk q ops →
    (absState (ops.foldl applyM q) = ops.foldl applyS (absState q)) ∧ Sorted (abs (ops.foldl applyM q)) := by
  intro ops
  induction ops with
  | nil => intro q _; exact ⟨rfl, abs_sorted q⟩
  | cons op ops ih =>
    intro q h
    have := ih (applyM q op) h.2
    simp only [List.foldl_cons]
    rw [← step_commutes q op h.1]
    exact this

/-- `coap_insert_node` = ordered insert of the absolute deadline `base + t` -/
theorem insert_commutes (q : Queue) (n : Node) :
    abs { q with nodes := insertNode q.nodes n } =
      Spec.SQ.insert (abs q) ⟨q.base + n.t, n.sess, n.mid, n.tok⟩ :=
  absFrom_insertNode _ _ _

/-- the time arithmetic of `coap_wait_ack` / `coap_retransmit` followed by `coap_insert_node` = ordered insert
of the absolute deadline `now + delay`, provided `now` is not before the base time (or the queue is empty) -/
theorem enqueue_commutes (q : Queue) (now delay : Nat) (n : Node) (h : q.nodes = [] ∨ q.base ≤ now) :
    abs (enqueue q now delay n) = Spec.SQ.insert (abs q) ⟨now + delay, n.sess, n.mid, n.tok⟩ :=
  abs_enqueue q now delay n h

/-- `coap_pop_next` = the entry due first leaves, with its absolute deadline; nobody else's deadline changes -/
theorem pop_commutes (q : Queue) :
    (popNext q.nodes = none → Spec.SQ.pop (abs q) = none) ∧
    (∀ n r, popNext q.nodes = some (n, r) →
      Spec.SQ.pop (abs q) = some (⟨q.base + n.t, n.sess, n.mid, n.tok⟩, abs { q with nodes := r })) := by
  have := absPop_popNext q.base q.nodes
  constructor
  · intro h; rw [h] at this; exact this.symm
  · intro n r h; rw [h] at this; exact this.symm

/-- `coap_remove_from_queue` = the first entry of (session, message id) leaves — the same message is reported
(or none), and nobody else's deadline changes -/
theorem remove_commutes (q : Queue) (s mid : Nat) :
    abs { q with nodes := (removeNode q.nodes s mid).2 } = (Spec.SQ.remove (abs q) s mid).2 ∧
    (removeNode q.nodes s mid).1.map nodeId = (Spec.SQ.remove (abs q) s mid).1.map entryId :=
  ⟨removeNode_rest _ _ _ _, removeNode_found _ _ _ _⟩

/-- one step of `coap_cancel_all_messages` = the first entry of (session, token) leaves -/
theorem removeTok_commutes (q : Queue) (s tok : Nat) :
    abs { q with nodes := (SQ.removeTok q.nodes s tok).2 } = (Spec.SQ.removeTok (abs q) s tok).2 ∧
    (SQ.removeTok q.nodes s tok).1.map nodeId = (Spec.SQ.removeTok (abs q) s tok).1.map entryId :=
  ⟨removeTok_rest _ _ _ _, removeTok_found _ _ _ _⟩

/-- `coap_cancel_session_messages` = exactly the entries of the session leave (reported in queue order), the
deadline of every other entry is unchanged -/
theorem cancel_commutes (q : Queue) (s : Nat) :
    abs { q with nodes := (SQ.cancelSession q.nodes s).2 } = (Spec.SQ.cancelSession (abs q) s).2 ∧
    (SQ.cancelSession q.nodes s).1.map nodeId = (Spec.SQ.cancelSession (abs q) s).1.map entryId :=
  ⟨cancelSession_rest _ _ _, cancelSession_gone _ _ _⟩

/-- `coap_adjust_basetime` moving the base time backward (or on an empty queue) changes no deadline and agrees
with D13.
Full intended statement (FALSE for the code as it is, see `adjust_forward_witness`):
  `∀ q now, abs (adjustBasetime q now).2 = Spec.SQ.adjust (abs q) now`. -/
theorem adjust_commutes_partial (q : Queue) (now : Nat) (h : now ≤ q.base ∨ q.nodes = []) :
    abs (adjustBasetime q now).2 = Spec.SQ.adjust (abs q) now ∧
    abs (adjustBasetime q now).2 = abs q ∧ (adjustBasetime q now).2.base = now :=
  ⟨(abs_adjust_backward q now h).1, abs_adjust_backward_same q now h, (abs_adjust_backward q now h).2⟩

/-- witness node: session 0, mid 1, due 10 ticks after its predecessor -/
def wn : Node := { sess := 0, mid := 1, t := 10, timeout := 0, cnt := 0, tok := 1, con := true }

/-- witness queue: base 1000, deadlines 1010 and 1030 -/
def wq : Queue :=
  { base := 1000, nodes := [{ sess := 0, mid := 1, t := 10, timeout := 0, cnt := 0, tok := 1, con := true },
                            { sess := 0, mid := 2, t := 20, timeout := 0, cnt := 0, tok := 2, con := true }] }

/-- moving the base time FORWARD past a pending deadline pulls later deadlines forward: base 1000, deadlines
1010 and 1030, new base 1015 — the code leaves deadlines 1015 and 1020, D13 says 1015 and 1030. -/
theorem adjust_forward_witness : ∃ q now, abs (adjustBasetime q now).2 ≠ Spec.SQ.adjust (abs q) now :=
  ⟨wq, 1015, by decide⟩

example : (abs (adjustBasetime wq 1015).2).map (·.deadline) = [1015, 1020] ∧
    (Spec.SQ.adjust (abs wq) 1015).map (·.deadline) = [1015, 1030] := by decide

/-- even without any node expiring: base 1000, one node due at 1100, new base 1010 — the code re-arms the
node for 1020 (`q->t = delta - t` instead of `q->t -= delta - t`), D13 keeps 1100. -/
example : (abs (adjustBasetime { base := 1000, nodes := [{ wn with t := 100 }] } 1010).2).map (·.deadline) = [1020] ∧
    (Spec.SQ.adjust (abs { base := 1000, nodes := [{ wn with t := 100 }] }) 1010).map (·.deadline) = [1100] := by
  decide

/-- non-vacuity: a run that uses every operation satisfies `OpsOk` -/
example : OpsOk wq [.enqueue 1005 7 wn, .insertRaw wn, .pop, .remove 0 2,
    .removeTok 0 1, .adjust 900, .cancelSession 0, .adjust 5000, .enqueue 1 1 wn] := by decide

/-! ## (2) coap_calc_timeout -/

/-- the Q6 fixed-point value of a transmission parameter is within 1/128 of the configured decimal
`ip.fp` (in units of 1/1000), as long as the `uint16_t` cast does not wrap -/
theorem qfix_approx (ip fp : Nat) (hfp : fp < 1000) (h : 64 * ip + (64 * fp + 500) / 1000 < 65536) :
    1000 * qfix ip fp ≤ 64 * (1000 * ip + fp) + 500 ∧ 64 * (1000 * ip + fp) ≤ 1000 * qfix ip fp + 500 := by
  have _ := hfp
  rw [qfix_eq ip fp h]
  omega

/-- **calc_timeout_bounds**: with `A = Q(ACK_TIMEOUT)`, `F = Q(ACK_RANDOM_FACTOR)` (Q6 fixed point, not
wrapping, factor ≥ 1.0) and any random byte `r`, the initial timeout `T` (ms ticks) satisfies
`A/64 s − 1/2 tick ≤ T ≤ (A/64)·(F/64) s + 8.3125 ticks`: explicit ε = 32/64 tick below and
34048/4096 ticks above (32000/4096 from the rounding `+32 >> 6` of the product in Q6 seconds, 2048/4096 from
the rounding of the conversion to ticks). -/
theorem calc_timeout_bounds (atI atF arfI arfF r : Nat) (hr : r < 256)
    (hA : 64 * atI + (64 * atF + 500) / 1000 < 65536) (hF : 64 * arfI + (64 * arfF + 500) / 1000 < 65536)
    (h1 : 1 ≤ arfI) :
    1000 * qfix atI atF ≤ 64 * calcTimeout atI atF arfI arfF r + 32 ∧
    4096 * calcTimeout atI atF arfI arfF r ≤ 1000 * (qfix atI atF * qfix arfI arfF) + 34048 :=
  calcTimeout_bounds_aux atI atF arfI arfF r hr hA hF h1

/-- ACK_TIMEOUT = 1024 s: `Q()`'s `uint16_t` cast wraps to 0 and the initial timeout is 0 ticks whatever the
random byte — every retransmission is due immediately. -/
theorem calc_timeout_wraps : qfix 1024 0 = 0 ∧ (∀ r, r < 256 → calcTimeout 1024 0 1 500 r = 0) := by
  have h0 : qfix 1024 0 = 0 := by decide
  refine ⟨h0, ?_⟩
  intro r _
  simp [calcTimeout, h0]

/-- the defaults (ACK_TIMEOUT 2 s, ACK_RANDOM_FACTOR 1.5): T ranges over 2000 … 3000 ticks, and they satisfy
the hypotheses of `calc_timeout_bounds` -/
example : calcTimeout 2 0 1 500 0 = 2000 ∧ calcTimeout 2 0 1 500 255 = 3000 ∧ calcTimeout 2 0 1 500 128 = 2500 := by
  decide
example : (255 < 256) ∧ 64 * 2 + (64 * 0 + 500) / 1000 < 65536 ∧ 64 * 1 + (64 * 500 + 500) / 1000 < 65536 ∧ 1 ≤ 1 := by
  decide

/-! ## (3) the wait returned by coap_io_prepare_io -/
open Coap.Msg in
/-- **wait_le_earliest**: after the due retransmissions have run, the wait (ms) `coap_io_prepare_io` returns
never exceeds the time to the earliest pending deadline; when that time fits the `unsigned int` result it is
exactly that time, and positive (no busy loop, no oversleeping). -/
theorem wait_le_earliest (l : L) : let r := prepareCore l
    ∀ d, Spec.SQ.earliest (abs r.1.q) = some d → r.1.now < d →
      (r.2 ≤ d - r.1.now) ∧ (d - r.1.now < 4294967296 → r.2 = d - r.1.now ∧ 0 < r.2) :=
  prepareCore_wait l

open Coap.Msg in
/-- `coap_io_prepare_io` does not move the clock: `r.1.now` above is the caller's `now` -/
theorem prepare_keeps_now (l : L) : (prepareCore l).1.now = l.now := prepareCore_now l

open Coap.Msg in
/-- non-vacuity of `wait_le_earliest`: one message due at 1010, now = 1003, wait = 7 -/
example : let r := prepareCore { now := 1003, q := { base := 1000, nodes := [wn] }, sess := [{}], out := [] }
    Spec.SQ.earliest (abs r.1.q) = some 1010 ∧ r.1.now < 1010 ∧ r.2 = 7 := by decide

/-! ## (4) one step of coap_retransmit -/
open Coap.Msg in
/-- **retransmit_step**: a due node with retransmissions left, on an established session with NSTART room,
inside the no-wrap range: exactly one more transmission of the same message id with counter `cnt+1` goes out
now, and the same (session, mid, token) is pending again with deadline `now + T·2^(cnt+1)`; nobody else's
deadline changes (the queue is the old one with that one ordered insert). -/
theorem retransmit_step (l : L) (n : Node)
    (hc : n.cnt < (l.getS n.sess).maxRtx) (hest : (l.getS n.sess).est = true)
    (hroom : (l.getS n.sess).conActive - 1 < (l.getS n.sess).nstart)
    (h8 : n.cnt + 1 < 256) (h64 : n.timeout * 2 ^ (n.cnt + 1) < 2 ^ 64)
    (hq : l.q.nodes = [] ∨ l.q.base ≤ l.now) :
    (retransmit l n).out = Out.tx l.now n.sess n.mid (n.cnt + 1) n.con :: l.out ∧
    abs (retransmit l n).q =
      Spec.SQ.insert (abs l.q) ⟨l.now + n.timeout * 2 ^ (n.cnt + 1), n.sess, n.mid, n.tok⟩ ∧
    (retransmit l n).q = enqueue l.q l.now (n.timeout * 2 ^ (n.cnt + 1)) { n with cnt := n.cnt + 1 } :=
  retransmit_resend l n hc hest hroom h8 h64 hq

open Coap.Msg in
/-- **giveup_step**: a due CON node whose counter has reached MAX_RETRANSMIT is not sent again: the newest
output is the NACK (reason: too many retries) carrying its message id, and nothing is put back on the queue
(the queue is whatever releasing the session's `con_active` slot leaves). -/
theorem giveup_step (l : L) (n : Node) (hc : (l.getS n.sess).maxRtx ≤ n.cnt) (hcon : n.con = true) :
    (retransmit l n).out = Out.nack l.now n.sess .retries n.mid true :: (release l n.sess).out ∧
    (retransmit l n).q = (release l n.sess).q :=
  retransmit_giveup l n hc hcon

open Coap.Msg in
/-- non-vacuity of `retransmit_step` / `giveup_step` hypotheses (default session, con_active = 1) -/
example : let l : L := { now := 1010, q := { base := 1000, nodes := [] }, sess := [{ conActive := 1 }], out := [] }
    let n : Node := { wn with timeout := 2000, cnt := 1 }
    n.cnt < (l.getS n.sess).maxRtx ∧ (l.getS n.sess).est = true ∧
    (l.getS n.sess).conActive - 1 < (l.getS n.sess).nstart ∧ n.cnt + 1 < 256 ∧
    n.timeout * 2 ^ (n.cnt + 1) < 2 ^ 64 ∧ (l.q.nodes = [] ∨ l.q.base ≤ l.now) ∧
    (abs (retransmit l n).q).map (·.deadline) = [9010] ∧
    (l.getS n.sess).maxRtx ≤ ({ n with cnt := 4 } : Node).cnt := by decide

/-! ## the due-node loop of coap_io_prepare_io -/
open Coap.Msg in
/-- **no_early_retransmit**: while the earliest pending deadline lies in the future, `coap_io_prepare_io`
changes nothing — no transmission, no NACK, no queue change. -/
theorem no_early_retransmit (l : L) (h : ∀ d, Spec.SQ.earliest (abs l.q) = some d → l.now < d) :
    (prepareCore l).1 = l := by
  rw [prepareCore_fst]; exact dueLoop_not_due _ l h

open Coap.Msg in
/-- **due_head_retransmitted**: when the earliest pending deadline has come (and `basetime ≤ now`, see
`base_le_now_invariant`), `coap_io_prepare_io` pops exactly that node — everybody else keeps their deadline —
and hands it to `coap_retransmit` (then goes on with the rest of the loop); `retransmit_step` / `giveup_step`
say what happens to it. -/
theorem due_head_retransmitted (l : L) (hd : Node) (r : List Node) (hn : l.q.nodes = hd :: r)
    (hb : l.q.base ≤ l.now) (hdue : l.q.base + hd.t ≤ l.now) :
    ∃ rest, popNext l.q.nodes = some (hd, rest) ∧
      abs { l.q with nodes := rest } = (abs l.q).tail ∧
      (prepareCore l).1 = dueLoop (dueFuel l - 1) (retransmit { l with q := { l.q with nodes := rest } } hd) := by
  obtain ⟨f, hf⟩ : ∃ f, dueFuel l = f + 1 := ⟨dueFuel l - 1, by unfold dueFuel; omega⟩
  obtain ⟨rest, h1, h2, h3⟩ := dueLoop_due f l hd r hn hb hdue
  refine ⟨rest, h1, ?_, ?_⟩
  · simp only [abs, hn, absFrom, List.tail_cons]; exact h2
  · rw [prepareCore_fst, hf, Nat.add_sub_cancel]; exact h3

/-! ## M level: one confirmable message on an idle endpoint runs the whole schedule

Closed forms (exact output lists) for ONE message on an otherwise idle endpoint.  `m_retransmit_schedule_partial` was
the stand-in for the general M-level statement while that was open (hence its name, kept for reference):

  for every `Msg.run` from `init` whose clock is monotone and punctual, sessions established throughout and
  parameters in the no-wrap range, every `Out.tx t s mid k _` in the outputs satisfies `t = sched t0 T k` with `t0` the
  time of `Out.tx t0 s mid 0 _` and `T` the `coap_calc_timeout` value drawn at submission, `k ≤ MAX_RETRANSMIT`; and
  every accepted CON has exactly one of {ACK removal, NACK rst, NACK retries}.

That general statement is now PROVED, for any number of messages and sessions sharing the queue, NSTART-delayed messages
included: `m_schedule_all`, `m_pending_on_schedule`, `m_single_outcome`, `m_never_sent_again`, `m_due_fires`,
`m_pdu_and_timeout_fixed` in section (7) (directly on M), and `m_refines_timer_partial` in section (6) (exact simulation
M ⊑ S). -/
open Coap.Msg in
/-- **m_retransmit_schedule_partial** (the code model, not the S-level timer): on an idle endpoint (nothing queued, session
established and open, no CON in flight, NSTART ≥ 1) a CON message is submitted at `t0`; `T` is what
`coap_calc_timeout` yields for the PRNG byte `r`.  If `T > 0`, MAX_RETRANSMIT < 256 and `T << MAX_RETRANSMIT`
fits 64 bits, and the clock is moved exactly to each deadline before `coap_io_prepare_io` runs (`soloEvs`), then
for every `k ≤ MAX_RETRANSMIT` the outputs are exactly `soloOut`: the submission, then for j = 1 … k the
transmission numbered `j` at `t0 + (2^j − 1)·T` followed by the wait `T·2^j` to the next deadline; the message
(same mid, same token) is pending again for `t0 + (2^(k+1) − 1)·T`, and nothing else is pending. -/
theorem m_retransmit_schedule_partial (se : Sess) (t0 B mid r : Nat)
    (hopen : se.sockOpen = true) (hest : se.est = true) (hca : se.conActive = 0) (hns : 1 ≤ se.nstart)
    (h8 : se.maxRtx < 256) :
    let T := calcTimeout se.atI se.atF se.arfI se.arfF r
    0 < T → T * 2 ^ se.maxRtx < 2 ^ 64 → ∀ k, k ≤ se.maxRtx →
      let l := Msg.run (soloInit se t0 B) (.submit 0 true mid r :: soloEvs t0 T k)
      l.out = soloOut t0 T mid k ∧ abs l.q = [⟨sched t0 T (k + 1), 0, mid, mid⟩] ∧ l.now = sched t0 T k ∧
      ∀ j, j ≤ k → Out.tx (sched t0 T j) 0 mid j true ∈ l.out := by
  intro T hT h64 k hk l
  have h1 : l = soloState se t0 T mid k := by
    simp only [l, Msg.run, List.foldl_cons, Msg.step]
    rw [submit_solo se t0 B mid r hopen hest hca hns]
    exact solo_run se t0 T mid hest hns hT h8 h64 k hk
  rw [h1]
  exact ⟨rfl, abs_soloState se t0 T mid k, rfl, fun j hj => soloOut_mem t0 T mid k j hj⟩

open Coap.Msg in
/-- **m_solo_giveup**: … and when the deadline after the last retransmission comes, the message is not sent
again: the one outcome is the NACK (too many retries) at `t0 + (2^(MAX_RETRANSMIT+1) − 1)·T`, the queue is
empty and `coap_io_prepare_io` returns 0 (nothing to wait for). -/
theorem m_solo_giveup (se : Sess) (t0 B mid r : Nat)
    (hopen : se.sockOpen = true) (hest : se.est = true) (hca : se.conActive = 0) (hns : 1 ≤ se.nstart)
    (h8 : se.maxRtx < 256) (hdq : se.delayq = []) :
    let T := calcTimeout se.atI se.atF se.arfI se.arfF r
    0 < T → T * 2 ^ se.maxRtx < 2 ^ 64 →
      let l := Msg.run (soloInit se t0 B) (.submit 0 true mid r :: (soloEvs t0 T se.maxRtx ++
        [.setNow (sched t0 T (se.maxRtx + 1)), .prepare]))
      l.out = .wait (sched t0 T (se.maxRtx + 1)) 0 ::
        .nack (sched t0 T (se.maxRtx + 1)) 0 .retries mid true :: soloOut t0 T mid se.maxRtx ∧
      l.q.nodes = [] := by
  intro T hT h64 l
  have h1 : l = Msg.step (Msg.step (soloState se t0 T mid se.maxRtx) (.setNow (sched t0 T (se.maxRtx + 1)))) .prepare := by
    simp only [l, Msg.run, List.foldl_cons, List.foldl_append, List.foldl_nil]
    have h2 := solo_run se t0 T mid hest hns hT h8 h64 se.maxRtx (Nat.le_refl _)
    simp only [Msg.run] at h2
    have h3 : Msg.step (soloInit se t0 B) (.submit 0 true mid r) = soloState se t0 T mid 0 :=
      submit_solo se t0 B mid r hopen hest hca hns
    rw [h3, h2]
  rw [h1]
  exact solo_giveup se t0 T mid hest hdq

open Coap.Msg in
/-- **m_solo_acked**: an ACK arriving after the `k`-th retransmission (any `k`) concludes the message
silently: no NACK, nothing more transmitted, the queue is empty and the session's `con_active` slot is free. -/
theorem m_solo_acked (se : Sess) (t0 T mid k : Nat) (hopen : se.sockOpen = true) (hest : se.est = true)
    (hdq : se.delayq = []) :
    Msg.step (soloState se t0 T mid k) (.rxAck 0 mid) =
      soloDone se (sched t0 T k) (sched t0 T k) (soloOut t0 T mid k) :=
  solo_rxAck se t0 T mid k hopen hest hdq

open Coap.Msg in
/-- **m_solo_rst**: a RST concludes the message with exactly one NACK (reason RST) carrying its mid -/
theorem m_solo_rst (se : Sess) (t0 T mid k : Nat) (hopen : se.sockOpen = true) (hest : se.est = true)
    (hdq : se.delayq = []) :
    Msg.step (soloState se t0 T mid k) (.rxRst 0 mid) =
      soloDone se (sched t0 T k) (sched t0 T k) (.nack (sched t0 T k) 0 .rst mid true :: soloOut t0 T mid k) :=
  solo_rxRst se t0 T mid k hopen hest hdq

open Coap.Msg in
/-- … and a concluded message stays concluded: whatever the time, `coap_io_prepare_io` transmits nothing,
reports nothing, and returns 0. -/
theorem m_solo_quiet_after (se : Sess) (N B : Nat) (o : List Out) (t : Nat) :
    Msg.step (Msg.step (soloDone se N B o) (.setNow t)) .prepare = soloDone se t B (.wait t 0 :: o) :=
  soloDone_quiet se N B o t

open Coap.Msg in
/-- non-vacuity: the default session (ACK_TIMEOUT 2 s, factor 1.5, MAX_RETRANSMIT 4, NSTART 1) satisfies the
hypotheses; with r = 0: T = 2000, transmissions at 0, 2000, 6000, 14000, 30000, NACK at 62000 -/
example : let se : Sess := {}
    se.sockOpen = true ∧ se.est = true ∧ se.conActive = 0 ∧ 1 ≤ se.nstart ∧ se.maxRtx < 256 ∧ se.delayq = [] ∧
    calcTimeout se.atI se.atF se.arfI se.arfF 0 = 2000 ∧ (0 < 2000) ∧ 2000 * 2 ^ se.maxRtx < 2 ^ 64 ∧
    (List.range 6).map (sched 0 2000) = [0, 2000, 6000, 14000, 30000, 62000] := by decide

/-! ## the message layer stays inside the exact range of the queue arithmetic -/
open Coap.Msg in
/-- **base_le_now_invariant**: in every run of the message layer in which time does not run backward
(`Mono`), `sendqueue_basetime ≤ now` holds throughout — so every `coap_wait_ack` / `coap_retransmit` insertion
the message layer performs satisfies the hypothesis of `enqueue_commutes` / `retransmit_step` (the `OpOk` of
`queue_abs_invariant`), and the message layer never calls `coap_adjust_basetime`. -/
theorem base_le_now_invariant (now0 : Nat) (sess : List Sess) (evs : List Ev)
    (hm : Mono (Msg.init now0 sess) evs) :
    (Msg.run (Msg.init now0 sess) evs).q.base ≤ (Msg.run (Msg.init now0 sess) evs).now :=
  baseOk_run evs (Msg.init now0 sess) (Nat.zero_le _) hm

open Coap.Msg in
/-- general form: from any state with `basetime ≤ now` -/
theorem base_le_now_from (l : L) (evs : List Ev) (h : l.q.base ≤ l.now) (hm : Mono l evs) :
    (Msg.run l evs).q.base ≤ (Msg.run l evs).now :=
  baseOk_run evs l h hm

open Coap.Msg in
/-- non-vacuity of `Mono`: submit at 0, retransmissions at 2000 and 6000, ACK -/
example : Mono (Msg.init 0 [{}]) [.submit 0 true 1 0, .setNow 2000, .prepare, .setNow 6000, .prepare, .rxAck 0 1] ∧
    (Msg.run (Msg.init 0 [{}]) [.submit 0 true 1 0, .setNow 2000, .prepare, .setNow 6000, .prepare, .rxAck 0 1]).out
      = [.wait 6000 8000, .tx 6000 0 1 2 true, .wait 2000 4000, .tx 2000 0 1 1 true, .sub (some 1), .tx 0 0 1 0 true] := by
  simp only [Mono]; decide

/-! ## (5) schedule and outcomes (S level)

`Coap.Timer` (CoapVerif/Lemmas/SendQueue.lean) is the property's own reading of RFC 7252 §4.2 on top of the
ordered deadline list: `send` transmits and arms `now + T`; a `tick` fires whatever is due, earliest first —
retransmit and re-arm `now + T·2^(cnt+1)` while `cnt < MAX_RETRANSMIT`, else NACK (too many retries); `ack` /
`rst` take the first pending entry of (session, mid).  Outputs are newest first. -/
open Coap.Timer

/-- consecutive transmissions of the schedule are `T·2^k` apart (binary exponential back-off) -/
theorem sched_succ (t0 T k : Nat) : sched t0 T (k + 1) = sched t0 T k + T * 2 ^ k :=
  Coap.Timer.sched_succ t0 T k

instance (ts : TS) (ev : TEv) : Decidable (EvOk ts ev) := by
  cases ev <;> simp only [EvOk] <;> infer_instance

instance decRunOk : (evs : List TEv) → (ts : TS) → Decidable (RunOk ts evs)
  | [], _ => isTrue trivial
  | ev :: evs, ts => by
    unfold RunOk
    exact @instDecidableAnd _ _ _ (decRunOk evs _)

/-- general form of `retransmit_schedule`: from any state that satisfies the schedule invariant -/
theorem retransmit_schedule_from (ts0 : TS) (evs : List TEv) (h0 : TInv ts0) (hok : RunOk ts0 evs) :
    ∀ t s mid k t0 T mx, TOut.tx t s mid k t0 T mx ∈ (run ts0 evs).outs → t = sched t0 T k ∧ k ≤ mx :=
  (run_inv evs ts0 h0 hok).2

/-- **retransmit_schedule**: for every event list whose ticks are punctual (no tick jumps past a pending
deadline) and whose sends have a positive timeout: every transmission `tx t s mid k t0 T mx` ever emitted — the
`k`-th retransmission of the message first sent at `t0` with initial timeout `T` and limit `mx` — happens exactly at
`t = t0 + (2^k − 1)·T`, and `k ≤ MAX_RETRANSMIT`. -/
theorem retransmit_schedule (now0 : Nat) (evs : List TEv) (hok : RunOk (init now0) evs) :
    ∀ t s mid k t0 T mx, TOut.tx t s mid k t0 T mx ∈ (run (init now0) evs).outs → t = sched t0 T k ∧ k ≤ mx :=
  retransmit_schedule_from (init now0) evs ⟨by simp [init], by simp [init]⟩ hok

/-- and everything still pending is armed for its next slot of the same schedule -/
theorem pending_on_schedule (now0 : Nat) (evs : List TEv) (hok : RunOk (init now0) evs) :
    ∀ p ∈ (run (init now0) evs).pend, p.1 = sched p.2.t0 p.2.T (p.2.cnt + 1) ∧ p.2.cnt ≤ p.2.maxRtx :=
  fun p hp => ⟨((run_inv evs (init now0) ⟨by simp [init], by simp [init]⟩ hok).1 p hp).1,
    ((run_inv evs (init now0) ⟨by simp [init], by simp [init]⟩ hok).1 p hp).2.1⟩

/-- **single_outcome** (conservation law, every event list, punctual or not): for every (session, mid) the
number of sends equals the number of outcomes (acked + NACK rst + NACK too-many-retries) plus the number of
entries still pending — no message is lost, none is concluded twice. -/
theorem single_outcome (s mid : Nat) (evs : List TEv) (ts : TS) :
    sc s mid evs + (oc s mid ts.outs + pc s mid ts.pend) =
      oc s mid (run ts evs).outs + pc s mid (run ts evs).pend :=
  (run_conserve s mid evs ts).symm

/-- `single_outcome` from the empty initial state: sends = outcomes + pending -/
theorem single_outcome_init (s mid now0 : Nat) (evs : List TEv) :
    sc s mid evs = oc s mid (run (init now0) evs).outs + pc s mid (run (init now0) evs).pend := by
  have := single_outcome s mid evs (init now0)
  simpa [init, oc, pc] using this

/-- **no_tx_without_pending**: what a step other than `send` adds to the outputs contains only retransmissions
(`k ≥ 1`) of messages that were pending before the step. -/
theorem no_tx_without_pending (ts : TS) (ev : TEv) (hns : ∀ s mid T mx, ev ≠ .send s mid T mx) :
    ∃ new, (step ts ev).outs = new ++ ts.outs ∧
      ∀ t s mid k t0 T mx, TOut.tx t s mid k t0 T mx ∈ new →
        1 ≤ k ∧ ∃ p ∈ ts.pend, p.2.sess = s ∧ p.2.mid = mid :=
  step_tx_pending ts ev hns

/-- **queue_empty_all_concluded**: when nothing is pending, every send has had exactly one outcome -/
theorem queue_empty_all_concluded (s mid now0 : Nat) (evs : List TEv) (h : (run (init now0) evs).pend = []) :
    sc s mid evs = oc s mid (run (init now0) evs).outs := by
  have := single_outcome_init s mid now0 evs
  rw [h] at this
  simpa [pc] using this

/-- **due_fires** (the schedule is met, not just respected): after any run whose sends have a positive
timeout, a tick at `now'` leaves nothing pending that is due at `now'` — every message whose deadline has come
has been retransmitted (and re-armed strictly later) or concluded with a NACK.  Together with
`retransmit_schedule`: under punctual ticks the `k`-th retransmission happens, and at `t0 + (2^k − 1)·T`. -/
theorem due_fires (now0 : Nat) (evs : List TEv) (hpos : ∀ ev ∈ evs, SendPos ev) (now' : Nat)
    (h : (run (init now0) evs).now ≤ now') :
    (step (run (init now0) evs) (.tick now')).now = now' ∧
    ∀ p ∈ (step (run (init now0) evs) (.tick now')).pend, now' < p.1 :=
  tick_complete _ now' (run_good evs (init now0) ⟨by simp [init, SortedP], by simp [init]⟩ hpos) h

/-- punctual runs are runs whose sends have a positive timeout -/
theorem runOk_sends_positive (ts : TS) (evs : List TEv) (h : RunOk ts evs) : ∀ ev ∈ evs, SendPos ev :=
  runOk_sendPos evs ts h

/-- witness run of the timer system -/
def wevs : List TEv := [.send 0 1 2000 2, .tick 2000, .send 0 2 3000 4, .tick 3000, .ack 0 2, .tick 6000,
  .send 1 1 100 0, .rst 1 1, .tick 14000]

/-- non-vacuity: a punctual run with two retransmissions, an ACK, a RST and a give-up; it ends with nothing
pending and one outcome per send -/
example : RunOk (init 0) wevs ∧ (run (init 0) wevs).pend = [] ∧
    (run (init 0) wevs).outs =
      [.nackRetries 14000 0 1, .nackRst 6000 1 1, .tx 6000 1 1 0 6000 100 0, .tx 6000 0 1 2 0 2000 2,
       .acked 3000 0 2, .tx 2000 0 2 0 2000 3000 4, .tx 2000 0 1 1 0 2000 2, .tx 0 0 1 0 0 2000 2] := by decide

/-! ## (6) the code model M is simulated by the timer specification S — any number of messages and sessions

`Coap.Sim` (CoapVerif/Lemmas/TimerSim.lean): `absP` reads the delta list + base time as S's pending list (absolute
deadline, session, mid, stored timeout `T`, retransmission counter, MAX_RETRANSMIT of the session); `Rel` relates an M
state to an S state (S's ghost label `t0` erased; S's clock is the time of the last I/O step); `tr` gives the S events an
M event stands for (`prepare` ↦ `tick now`; `submit` ↦ `tick now, send s mid T mx` with `T` the value
`coap_calc_timeout` draws; `rxAck` ↦ `ack, tick now`; `rxRst` ↦ `tick now, rst, tick now`; `setNow` ↦ nothing);
`obsM` / `obsS` project both output logs to what can be observed (transmissions with their retransmission count,
outcome NACKs).

Scope (`RunIn`, threaded along the run, decidable): events `setNow` (monotone), `prepare`, `submit` of a CON, `rxAck`,
`rxRst`; every session established, socket open, delay queue empty, 1 ≤ NSTART, MAX_RETRANSMIT < 256 (`SessOk`); a CON
is submitted while the session has NSTART room, with `T > 0` and `T << MAX_RETRANSMIT` < 2^64 (D7); a submission / an
RST does not happen at an instant at which a retransmission is due and `coap_io_prepare_io` has not run yet.

Why `_partial`: the FULL intended statement is the same without the two conjuncts `con_active < NSTART` and
`NothingDue` in `EvIn` (and with NON submissions, `rxNon`, `rxBad`): (a) a CON submitted without NSTART room goes to
the delay queue and is first transmitted when an outcome of another message releases the slot — possibly in the
middle of the due loop (give-up → `coap_session_connected` → transmit), which S's `tick` (fire everything due, then
return) cannot interleave with a `send`: the observable ORDER within one instant differs, so exact output equality
does not hold for S as written; (b) S fires what is due before anything else happens at an instant, M only when
`coap_io_prepare_io` runs.  Both are what T2 compares on every run (delay queue lengths, `con_active`). -/
open Coap.Sim in
/-- **m_refines_timer_from_partial** (general form): from any M state `l` satisfying the scope invariant `Inv` and any S
state `ts` related to it, for EVERY in-scope event list: the M run and the S run of the translated events end in
related states (same pending deadlines / messages / counters, same observable outputs), and `Inv` still holds. -/
theorem m_refines_timer_from_partial (par : Nat → Msg.Sess) (P : Nat → Nat → Nat → Prop) (hp : ParOk par)
    (evs : List Msg.Ev) (l : Msg.L) (ts : Timer.TS) (hi : Inv par P l) (hr : Rel (mxOf par) l ts) (hin : RunIn l evs)
    (hP : ∀ s mid r, Msg.Ev.submit s true mid r ∈ evs →
      P s mid (calcTimeout (par s).atI (par s).atF (par s).arfI (par s).arfF r)) :
    Inv par P (Msg.run l evs) ∧ Rel (mxOf par) (Msg.run l evs) (Timer.run ts (trRun l evs)) :=
  ⟨(run_sim hp evs l ts hi hr hin hP).1, (run_sim hp evs l ts hi hr hin hP).2.1⟩

open Coap.Sim in
/-- **m_refines_timer_partial**: from the initial state, any number of sessions sharing the send queue, EVERY in-scope
event list (any interleaving of submissions, clock moves, I/O steps, ACKs and RSTs — punctual or late):
* S's clock is the time of M's last I/O step;
* S's pending list (ghost `t0` erased) is exactly what M's delta list stands for: absolute deadline, session,
  message id, initial timeout `T`, retransmission counter, MAX_RETRANSMIT — in the same order;
* both have shown the same transmissions (time, session, mid, retransmission number) and the same outcome NACKs
  (time, session, mid, reason), in the same order. -/
theorem m_refines_timer_partial (now0 : Nat) (sess : List Msg.Sess) (evs : List Msg.Ev)
    (hs : ∀ se ∈ sess, SessOk se) (hin : RunIn (Msg.init now0 sess) evs) :
    let l := Msg.run (Msg.init now0 sess) evs
    let ts := Timer.run (Timer.init now0) (trRun (Msg.init now0 sess) evs)
    ts.now ≤ l.now ∧
    ts.pend.map er = absP (fun s => (parOf sess s).maxRtx) l.q.base l.q.nodes ∧
    ts.outs.filterMap obsS = l.out.filterMap obsM := by
  intro l ts
  have := (run_sim (P := fun _ _ _ => True) (parOk_of sess hs) evs _ (Timer.init now0)
    (inv_init _ now0 sess hs) (rel_init _ now0 sess) hin (fun _ _ _ _ => trivial)).2.1
  exact ⟨this.now, this.pend, this.outs⟩

open Coap.Sim in
/-- **m_schedule_via_timer_partial** (`retransmit_schedule` lifted from S to M THROUGH the simulation; the same
conclusion is proved without the two extra scope conditions as `m_schedule_all` in section (7)): in every in-scope run that is punctual
(`Punctual`: no I/O step, submission or arrival happens after the clock was moved past a pending deadline), for any
number of messages and sessions sharing the queue: EVERY transmission `tx t s mid k con` M ever emits is a Confirmable,
belongs to a `coap_send` of (s, mid) in the run with PRNG byte `r`, its first transmission `tx t0 s mid 0` is in the
outputs, and `t = t0 + (2^k − 1)·T` where `T = coap_calc_timeout(session parameters, r)` is the value drawn at that
submission — drawn ONCE: all retransmissions of the message use the same `T` —, and `k ≤ MAX_RETRANSMIT`. -/
theorem m_schedule_via_timer_partial (now0 : Nat) (sess : List Msg.Sess) (evs : List Msg.Ev)
    (hs : ∀ se ∈ sess, SessOk se) (hin : RunIn (Msg.init now0 sess) evs) (hpu : Punctual (Msg.init now0 sess) evs) :
    ∀ t s mid k con, Msg.Out.tx t s mid k con ∈ (Msg.run (Msg.init now0 sess) evs).out →
      con = true ∧ ∃ t0 r, Msg.Ev.submit s true mid r ∈ evs ∧
        Msg.Out.tx t0 s mid 0 true ∈ (Msg.run (Msg.init now0 sess) evs).out ∧
        t = sched t0 (calcTimeout (parOf sess s).atI (parOf sess s).atF (parOf sess s).arfI (parOf sess s).arfF r) k ∧
        k ≤ (parOf sess s).maxRtx := by
  intro t s mid k con hmem
  have hp := parOk_of sess hs
  obtain ⟨_, hr, hsend⟩ := run_sim (P := fun _ _ _ => True) hp evs _ (Timer.init now0)
    (inv_init _ now0 sess hs) (rel_init _ now0 sess) hin (fun _ _ _ _ => trivial)
  have hok := run_runOk (P := fun _ _ _ => True) hp evs _ (Timer.init now0)
    (inv_init _ now0 sess hs) (rel_init _ now0 sess) hin hpu (fun _ _ _ _ => trivial)
  have hor := Timer.run_orig (Q := fun s mid T mx => ∃ r, Msg.Ev.submit s true mid r ∈ evs ∧
      T = calcTimeout (parOf sess s).atI (parOf sess s).atF (parOf sess s).arfI (parOf sess s).arfF r ∧
      mx = (parOf sess s).maxRtx) _ (Timer.init now0) (Timer.orig_init _ now0) hsend
  obtain ⟨hc, t0, T, mx, hS⟩ := obs_tx_M_to_S hr.outs hmem
  obtain ⟨hsch, hk⟩ := retransmit_schedule now0 _ hok t s mid k t0 T mx hS
  obtain ⟨⟨r, hsub, hT, hmx⟩, h0⟩ := hor.2 t s mid k t0 T mx hS
  exact ⟨hc, t0, r, hsub, obs_tx_S_to_M hr.outs h0, by rw [← hT]; exact hsch, by rw [← hmx]; exact hk⟩

/-- witness run: two sessions sharing the send queue (NSTART 1 each), T = 2000 and T = 3000 ticks -/
def mevs : List Msg.Ev :=
  [.submit 0 true 1 0, .setNow 500, .submit 1 true 7 255, .setNow 2000, .prepare, .setNow 3500, .prepare,
   .rxAck 1 7, .setNow 6000, .prepare, .setNow 7000, .submit 1 true 8 128, .rxRst 0 1, .setNow 9500, .prepare]

open Coap.Sim in
/-- **m_single_outcome_via_timer_partial** (`single_outcome` lifted from S to M THROUGH the simulation; the full
version, delay queue included, is `m_single_outcome` in section (7) — conservation law, every in-scope event list,
punctual or not, any number of messages and sessions): for every (session, mid), the number of `coap_send` calls equals
the number of outcome NACK-handler calls (TOO_MANY_RETRIES or RST, carrying the sent PDU) plus the number of silent
completions (an arriving ACK that found the message in the send queue) plus the number of nodes still in the send
queue.  So a message id submitted once is — at every moment — exactly one of: pending, completed by the ACK, or
reported by ONE NACK; it is never concluded twice and never lost. -/
theorem m_single_outcome_via_timer_partial (now0 : Nat) (sess : List Msg.Sess) (evs : List Msg.Ev)
    (hs : ∀ se ∈ sess, SessOk se) (hin : RunIn (Msg.init now0 sess) evs) (s mid : Nat) :
    subC s mid evs =
      nackC s mid (Msg.run (Msg.init now0 sess) evs).out + ackC s mid (Msg.init now0 sess) evs +
        pendC s mid (Msg.run (Msg.init now0 sess) evs).q.nodes := by
  have hp := parOk_of sess hs
  obtain ⟨_, hr, _⟩ := run_sim (P := fun _ _ _ => True) hp evs _ (Timer.init now0)
    (inv_init _ now0 sess hs) (rel_init _ now0 sess) hin (fun _ _ _ _ => trivial)
  have hack := ackS_run (P := fun _ _ _ => True) hp s mid evs _ (Timer.init now0)
    (inv_init _ now0 sess hs) (rel_init _ now0 sess) hin (fun _ _ _ _ => trivial)
  have hso := single_outcome_init s mid now0 (trRun (Msg.init now0 sess) evs)
  rw [sc_trRun, oc_split, nackS_obs, hr.outs, ← nackC_obs, hack, ← pc_er, hr.pend, pc_absP] at hso
  simp only [Timer.init, ackS, Nat.zero_add] at hso
  exact hso

open Coap.Sim in
/-- non-vacuity / reading of `m_single_outcome_via_timer_partial` on the witness run: message (0,1) — one send, one RST NACK;
message (1,7) — one send, silently completed by its ACK; message (1,8) — one send, still pending -/
example : subC 0 1 mevs = 1 ∧ nackC 0 1 (Msg.run (Msg.init 0 [{}, {}]) mevs).out = 1 ∧
    ackC 0 1 (Msg.init 0 [{}, {}]) mevs = 0 ∧ pendC 0 1 (Msg.run (Msg.init 0 [{}, {}]) mevs).q.nodes = 0 ∧
    subC 1 7 mevs = 1 ∧ ackC 1 7 (Msg.init 0 [{}, {}]) mevs = 1 ∧
    nackC 1 7 (Msg.run (Msg.init 0 [{}, {}]) mevs).out = 0 ∧
    subC 1 8 mevs = 1 ∧ pendC 1 8 (Msg.run (Msg.init 0 [{}, {}]) mevs).q.nodes = 1 := by decide

open Coap.Sim in
/-- non-vacuity of `m_refines_timer_from_partial`: the initial state with two default sessions satisfies `ParOk`,
`Inv` and `Rel` -/
example : ParOk (parOf [{}, {}]) ∧ Inv (parOf [{}, {}]) (fun _ _ _ => True) (Msg.init 0 [{}, {}]) ∧
    Rel (mxOf (parOf [{}, {}])) (Msg.init 0 [{}, {}]) (Timer.init 0) :=
  ⟨parOk_of _ (by decide), inv_init _ 0 _ (by decide), rel_init _ 0 _⟩

/-! ### (3') the returned wait against every pending deadline of every session -/
open Coap.Msg in
/-- **wait_le_every_deadline** (every state, any number of messages and sessions, no scope restriction): the wait
`coap_io_prepare_io` returns never exceeds the time to ANY pending deadline of ANY session (`0` when one is already
due); it is exactly the time to the earliest one reduced to the `unsigned int` result (mod 2^32), and `0` on an empty
queue. -/
theorem wait_le_every_deadline (l : L) : let r := prepareCore l
    (∀ e ∈ abs r.1.q, r.2 ≤ e.deadline - r.1.now) ∧
    (∀ d, Spec.SQ.earliest (abs r.1.q) = some d → r.2 = (d - r.1.now) % 4294967296) ∧
    (r.1.q.nodes = [] → r.2 = 0) :=
  Coap.Sim.prepareCore_wait_all l

open Coap.Sim in
/-- non-vacuity of the hypotheses of `m_refines_timer_partial`, `m_schedule_via_timer_partial`,
`m_single_outcome_via_timer_partial`: the witness run is in scope and punctual; two messages of
two sessions interleave in the queue, one is ACKed, one is RST; a third is retransmitted -/
example : (∀ se ∈ [({} : Msg.Sess), {}], SessOk se) ∧ RunIn (Msg.init 0 [{}, {}]) mevs ∧
    Punctual (Msg.init 0 [{}, {}]) mevs ∧
    (Msg.run (Msg.init 0 [{}, {}]) mevs).out.filterMap obsM =
      [.tx 9500 1 8 1 true, .nackRst 7000 0 1, .tx 7000 1 8 0 true, .tx 6000 0 1 2 true, .tx 3500 1 7 1 true,
       .tx 2000 0 1 1 true, .tx 500 1 7 0 true, .tx 0 0 1 0 true] ∧
    (Timer.run (Timer.init 0) (trRun (Msg.init 0 [{}, {}]) mevs)).outs.filterMap obsS =
      (Msg.run (Msg.init 0 [{}, {}]) mevs).out.filterMap obsM := by decide

open Coap.Msg in
/-- non-vacuity of `wait_le_every_deadline`: two sessions, deadlines 1010 and 1030, now = 1003: wait 7 -/
example : let r := prepareCore { now := 1003, q := wq, sess := [{}, {}], out := [] }
    (abs r.1.q).map (·.deadline) = [1010, 1030] ∧ r.2 = 7 := by decide

/-! ## (7) the schedule and the fixed PDU / timeout on M for the whole C06 alphabet, INCLUDING the NSTART gate

Proved directly on the code model M as an invariant (`Coap.Sched`, CoapVerif/Lemmas/SchedInv.lean), not through the
exact simulation of section (6), so the two cases excluded there are covered: a Confirmable submitted without NSTART
room waits in the session's delay queue and is first transmitted when an outcome of another message releases the slot
(`coap_session_connected` drains the delay queue — from the ACK / RST branch of `coap_dispatch` or from the give-up
branch of `coap_retransmit` in the middle of the due loop); and submissions / RSTs may come at any instant.

Scope `RunG` (threaded along the run, decidable): EVERY event of the model except the two that take a session out of
the established state: `setNow` (monotone), `prepare`, `submit` of a NON or of a CON — with or without NSTART room —
whose timeout `T = coap_calc_timeout(…, r)` is positive and inside the no-wrap range D7 (`T << MAX_RETRANSMIT` < 2^64),
`rxAck`, `rxRst`, `rxNon` (a response: `coap_cancel_all_messages` by token), `rxBad` (invalid code), `connect`; any
number of sessions (`SessOk`: established, socket open, 1 ≤ NSTART, MAX_RETRANSMIT < 256, nothing delayed initially)
sharing the one send queue.  Not in `RunG`: `hold` (session not established — retransmissions are then parked in the
delay queue, off schedule by design) and `disconnect` (session failure, C08).  "The C06 alphabet" below = `RunG`. -/
/-- witness run with the NSTART gate: ONE session with NSTART 1; message 2 is submitted while message 1 is in flight
(delayed), message 1 runs out of retransmissions (MAX_RETRANSMIT 1), the give-up inside the due loop releases the
slot and message 2 is transmitted at that instant; it is retransmitted on its own schedule and then ACKed -/
def gevs : List Msg.Ev :=
  [.submit 0 true 1 0, .setNow 100, .submit 0 true 2 255, .setNow 2000, .prepare, .setNow 6000, .prepare,
   .setNow 9000, .prepare, .rxAck 0 2]

open Coap.Sim Coap.Sched in
/-- **m_schedule_all** (`retransmit_schedule` on M, full): in EVERY punctual run over the C06 alphabet, any number of
messages and sessions sharing the send queue, NSTART-delayed messages included: every transmission `tx t s mid k true`
of a Confirmable M ever emits belongs to a `coap_send` of (s, mid) in the run with PRNG byte `r`, the first
transmission `tx t0 s mid 0` of that message is in the outputs, `t = t0 + (2^k − 1)·T` with
`T = coap_calc_timeout(parameters of s, r)` — the one value drawn at that submission, used for all its
retransmissions —, and `k ≤ MAX_RETRANSMIT`. -/
theorem m_schedule_all (now0 : Nat) (sess : List Msg.Sess) (evs : List Msg.Ev)
    (hs : ∀ se ∈ sess, SessOk se) (hin : RunG (Msg.init now0 sess) evs) (hpu : Punctual (Msg.init now0 sess) evs) :
    ∀ t s mid k, Msg.Out.tx t s mid k true ∈ (Msg.run (Msg.init now0 sess) evs).out →
      ∃ t0 r, Msg.Ev.submit s true mid r ∈ evs ∧
        Msg.Out.tx t0 s mid 0 true ∈ (Msg.run (Msg.init now0 sess) evs).out ∧
        t = sched t0 (calcTimeout (parOf sess s).atI (parOf sess s).atF (parOf sess s).arfI (parOf sess s).arfF r) k ∧
        k ≤ (parOf sess s).maxRtx := by
  intro t s mid k hmem
  have hi := run_finv (pu := True) (P := fun s mid T => ∃ r, Msg.Ev.submit s true mid r ∈ evs ∧
      T = calcTimeout (parOf sess s).atI (parOf sess s).atF (parOf sess s).arfI (parOf sess s).arfF r)
    (gpar_of sess hs) evs _ (finv_init _ _ now0 sess hs) hin (fun _ => hpu) (fun s mid r h => ⟨r, h, rfl⟩)
  obtain ⟨t0, T, h0, hsch, hk, r, hsub, hT⟩ := (hi.outs trivial).1 t s mid k hmem
  exact ⟨t0, r, hsub, h0, by rw [← hT]; exact hsch, hk⟩

open Coap.Sim Coap.Sched in
/-- **m_pending_on_schedule** (`pending_on_schedule` on M, full): … and every node in the send queue is armed for
the next slot of the schedule of its message, with ALL its transmissions so far made at their slots: for some `t0`,
transmission number `j` at `t0 + (2^j − 1)·T` is in the outputs for every `j ≤ cnt` (no slot skipped), and its absolute
deadline is `t0 + (2^(cnt+1) − 1)·T`, `T` its stored timeout. -/
theorem m_pending_on_schedule (now0 : Nat) (sess : List Msg.Sess) (evs : List Msg.Ev)
    (hs : ∀ se ∈ sess, SessOk se) (hin : RunG (Msg.init now0 sess) evs) (hpu : Punctual (Msg.init now0 sess) evs) :
    let l := Msg.run (Msg.init now0 sess) evs
    ∀ p ∈ absP (fun s => (parOf sess s).maxRtx) l.q.base l.q.nodes,
      ∃ t0, (∀ j, j ≤ p.2.cnt → Msg.Out.tx (sched t0 p.2.T j) p.2.sess p.2.mid j true ∈ l.out) ∧
        p.1 = sched t0 p.2.T (p.2.cnt + 1) := by
  intro l p hp
  have hi := run_finv (pu := True) (P := fun _ _ _ => True)
    (gpar_of sess hs) evs _ (finv_init _ _ now0 sess hs) hin (fun _ => hpu) (fun _ _ _ _ => trivial)
  exact hi.pend p hp trivial

open Coap.Sim Coap.Sched in
/-- **m_giveup_after_all_retransmissions** (full): in every punctual run over the C06 alphabet, a TOO_MANY_RETRIES NACK
for (s, mid) is only ever reported after ALL `MAX_RETRANSMIT + 1` transmissions of that message have been made, each at
its slot `t0 + (2^j − 1)·T` (j = 0 … MAX_RETRANSMIT), and exactly at the next slot `t0 + (2^(MAX_RETRANSMIT+1) − 1)·T`;
`T` is the `coap_calc_timeout` value of a `coap_send` of (s, mid) in the run. -/
theorem m_giveup_after_all_retransmissions (now0 : Nat) (sess : List Msg.Sess) (evs : List Msg.Ev)
    (hs : ∀ se ∈ sess, SessOk se) (hin : RunG (Msg.init now0 sess) evs) (hpu : Punctual (Msg.init now0 sess) evs) :
    ∀ t s mid, Msg.Out.nack t s .retries mid true ∈ (Msg.run (Msg.init now0 sess) evs).out →
      ∃ t0 r, Msg.Ev.submit s true mid r ∈ evs ∧
        (∀ j, j ≤ (parOf sess s).maxRtx →
          Msg.Out.tx (sched t0 (calcTimeout (parOf sess s).atI (parOf sess s).atF (parOf sess s).arfI
            (parOf sess s).arfF r) j) s mid j true ∈ (Msg.run (Msg.init now0 sess) evs).out) ∧
        t = sched t0 (calcTimeout (parOf sess s).atI (parOf sess s).atF (parOf sess s).arfI (parOf sess s).arfF r)
          ((parOf sess s).maxRtx + 1) := by
  intro t s mid hmem
  have hi := run_finv (pu := True) (P := fun s mid T => ∃ r, Msg.Ev.submit s true mid r ∈ evs ∧
      T = calcTimeout (parOf sess s).atI (parOf sess s).atF (parOf sess s).arfI (parOf sess s).arfF r)
    (gpar_of sess hs) evs _ (finv_init _ _ now0 sess hs) hin (fun _ => hpu) (fun s mid r h => ⟨r, h, rfl⟩)
  obtain ⟨t0, T, hall, ht, r, hsub, hT⟩ := (hi.outs trivial).2 t s mid hmem
  subst hT
  exact ⟨t0, r, hsub, hall, ht⟩

open Coap.Sim Coap.Sched in
/-- non-vacuity of `m_giveup_after_all_retransmissions`: in the gated witness run message 1 (MAX_RETRANSMIT 1,
T = 2000) is given up at 6000 = 0 + (2^2 − 1)·2000 after transmissions 0 and 1 at 0 and 2000 -/
example : Msg.Out.nack 6000 0 .retries 1 true ∈ (Msg.run (Msg.init 0 [{ maxRtx := 1 }]) gevs).out ∧
    sched 0 2000 2 = 6000 ∧ Msg.Out.tx (sched 0 2000 0) 0 1 0 true ∈ (Msg.run (Msg.init 0 [{ maxRtx := 1 }]) gevs).out ∧
    Msg.Out.tx (sched 0 2000 1) 0 1 1 true ∈ (Msg.run (Msg.init 0 [{ maxRtx := 1 }]) gevs).out := by decide

open Coap.Sim Coap.Sched in
/-- **m_pdu_and_timeout_fixed** (byte identity of retransmissions and `T` drawn ONCE, as an invariant, full): in EVERY
run over the C06 alphabet (punctual or late, NSTART-delayed messages included), every node in the send queue and every
node in any session's delay queue — whatever has happened to it: delayed by the NSTART gate, drained, any number of
re-insertions by `coap_retransmit`, pops, removals and insertions of other messages around it — still carries
exactly what its `coap_send` put there: the fields standing for the PDU (message id, token, type CON) are unchanged,
and the stored `timeout` is the value `coap_calc_timeout` drew at that submission.  Only the relative time `t` and
`retransmit_cnt` ever change (`cnt = 0` while delayed, `cnt ≤ MAX_RETRANSMIT` always), so every retransmission delay
is `timeout << cnt` of that one `T`; and `con_active` never exceeds NSTART. -/
theorem m_pdu_and_timeout_fixed (now0 : Nat) (sess : List Msg.Sess) (evs : List Msg.Ev)
    (hs : ∀ se ∈ sess, SessOk se) (hin : RunG (Msg.init now0 sess) evs) :
    let l := Msg.run (Msg.init now0 sess) evs
    (∀ n ∈ l.q.nodes,
      n.con = true ∧ n.tok = n.mid ∧ n.cnt ≤ (parOf sess n.sess).maxRtx ∧
      ∃ r, Msg.Ev.submit n.sess true n.mid r ∈ evs ∧
        n.timeout = calcTimeout (parOf sess n.sess).atI (parOf sess n.sess).atF (parOf sess n.sess).arfI
          (parOf sess n.sess).arfF r) ∧
    (∀ s, ∀ n ∈ (l.getS s).delayq,
      n.con = true ∧ n.tok = n.mid ∧ n.cnt = 0 ∧
      ∃ r, Msg.Ev.submit s true n.mid r ∈ evs ∧
        n.timeout = calcTimeout (parOf sess s).atI (parOf sess s).atF (parOf sess s).arfI (parOf sess s).arfF r) ∧
    (∀ s, (l.getS s).conActive ≤ (l.getS s).nstart) := by
  intro l
  have hi := run_finv (pu := False) (P := fun s mid T => ∃ r, Msg.Ev.submit s true mid r ∈ evs ∧
      T = calcTimeout (parOf sess s).atI (parOf sess s).atF (parOf sess s).arfI (parOf sess s).arfF r)
    (gpar_of sess hs) evs _ (finv_init _ _ now0 sess hs) hin (fun h => h.elim) (fun s mid r h => ⟨r, h, rfl⟩)
  refine ⟨?_, ?_, ?_⟩
  · intro n hn
    obtain ⟨hcon, htok, _, hcnt, _, hP⟩ := hi.nodes n hn
    exact ⟨hcon, htok, hcnt, hP⟩
  · intro s n hn
    obtain ⟨ca, dq, hg, _, hdq⟩ := hi.sess s
    have hn' : n ∈ dq := by
      have : (l.getS s).delayq = dq := by rw [hg]
      rw [← this]; exact hn
    obtain ⟨hcon, htok, _, _, hcnt, _, hP⟩ := hdq n hn'
    exact ⟨hcon, htok, hcnt, hP⟩
  · intro s
    obtain ⟨ca, dq, hg, hle, _⟩ := hi.sess s
    rw [hg]; exact hle

open Coap.Sim Coap.Sched in
/-- non-vacuity of `m_schedule_all` / `m_pending_on_schedule` / `m_pdu_and_timeout_fixed`: the gated witness run is in
scope and punctual (it is NOT in the scope `RunIn` of the exact simulation); message 2 (T = 3000) is first transmitted
at 6000 — the instant message 1 is given up — and again at 9000 -/
example : (∀ se ∈ [({ maxRtx := 1 } : Msg.Sess)], SessOk se) ∧ RunG (Msg.init 0 [{ maxRtx := 1 }]) gevs ∧
    Punctual (Msg.init 0 [{ maxRtx := 1 }]) gevs ∧ ¬ RunIn (Msg.init 0 [{ maxRtx := 1 }]) gevs ∧
    (Msg.run (Msg.init 0 [{ maxRtx := 1 }]) gevs).out.filterMap obsM =
      [.tx 9000 0 2 1 true, .nackRetries 6000 0 1, .tx 6000 0 2 0 true, .tx 2000 0 1 1 true, .tx 0 0 1 0 true] := by
  decide

open Coap.Sim Coap.Sched in
/-- **sim_gate_order_witness** (why the exact simulation of section (6) must exclude the NSTART gate): on the gated
witness run M lets the delayed message 2 in from INSIDE the give-up of message 1 (`coap_retransmit` →
`coap_session_connected` → transmit, then the NACK is reported): `tx 6000 (0,2) 0` comes BEFORE `nack 6000 (0,1)`.
S's clock only moves with a `tick`, which fires everything due first, so the `send` of message 2 at 6000 can only follow
the `tick 6000` that reports the NACK: the natural translation gives the same observations as a multiset, in a different
order within the instant 6000. -/
theorem sim_gate_order_witness :
    let obsS' := (Timer.run (Timer.init 0) [.tick 0, .send 0 1 2000 1, .tick 2000, .tick 6000, .send 0 2 3000 1,
      .tick 9000, .ack 0 2, .tick 9000]).outs.filterMap obsS
    let obsM' := (Msg.run (Msg.init 0 [{ maxRtx := 1 }]) gevs).out.filterMap obsM
    obsS'.isPerm obsM' = true ∧ obsS' ≠ obsM' ∧
    obsM' = [.tx 9000 0 2 1 true, .nackRetries 6000 0 1, .tx 6000 0 2 0 true, .tx 2000 0 1 1 true, .tx 0 0 1 0 true] ∧
    obsS' = [.tx 9000 0 2 1 true, .tx 6000 0 2 0 true, .nackRetries 6000 0 1, .tx 2000 0 1 1 true, .tx 0 0 1 0 true] := by
  decide

open Coap.Sim Coap.Sched in
/-- **m_single_outcome** (`single_outcome` on M, full — conservation law for EVERY run over the C06 alphabet, punctual
or late, NSTART-delayed messages included, any number of messages and sessions): for every (session, mid)

  accepted `coap_send` calls of a CON  =  outcome NACK-handler calls (TOO_MANY_RETRIES or RST, carrying the sent PDU)
                               + completions without such a NACK (`remC`: an arriving ACK that finds the message in the
                                 send queue — the silent completion —; in the wider alphabet also an invalid-code ACK
                                 that finds it, and a response carrying its token: `coap_cancel_all_messages`)
                               + nodes still in the send queue + nodes still in the session's delay queue.

(`coap_send` refuses a Confirmable only when the same message id is already waiting in the delay queue.)  So a
message id accepted once is — at every moment — exactly one of: waiting for NSTART room, pending, completed by its
ACK (or cancelled by the response / invalid code), or reported by exactly ONE NACK; it is never concluded twice and
never lost.  In runs with only ACK / RST arrivals `remC` counts exactly the ACKs that found the message. -/
theorem m_single_outcome (now0 : Nat) (sess : List Msg.Sess) (evs : List Msg.Ev)
    (hs : ∀ se ∈ sess, SessOk se) (hin : RunG (Msg.init now0 sess) evs) (s mid : Nat) :
    let l := Msg.run (Msg.init now0 sess) evs
    accC s mid (Msg.init now0 sess) evs =
      nackC s mid l.out + remC s mid (Msg.init now0 sess) evs + pendC s mid l.q.nodes +
        midC mid (l.getS s).delayq := by
  intro l
  have h := run_conserve_M (P := fun _ _ _ => True) (gpar_of sess hs) s mid evs _
    (finv_init False _ now0 sess hs) hin (fun _ _ _ _ => trivial)
  rw [phi_init s mid now0 sess hs] at h
  simp only [Phi] at h
  simp only [l]
  omega

open Coap.Sim Coap.Sched in
/-- **m_never_sent_again** (full): split any run over the C06 alphabet at any point at which (session, mid) is neither
in the send queue nor in the delay queue — by `m_single_outcome` every accepted `coap_send` of it so far has had its ONE
outcome (ACK, NACK RST, NACK TOO_MANY_RETRIES).  If the rest of the run does not submit (session, mid) again, the
number of transmissions of (session, mid) never grows — it is never sent again, whatever else happens on this or any
other session — and it never re-enters a queue. -/
theorem m_never_sent_again (now0 : Nat) (sess : List Msg.Sess) (evs1 evs2 : List Msg.Ev)
    (hs : ∀ se ∈ sess, SessOk se) (hin : RunG (Msg.init now0 sess) (evs1 ++ evs2)) (s mid : Nat)
    (hq : pendC s mid (Msg.run (Msg.init now0 sess) evs1).q.nodes = 0)
    (hd : midC mid ((Msg.run (Msg.init now0 sess) evs1).getS s).delayq = 0)
    (h2 : accC s mid (Msg.run (Msg.init now0 sess) evs1) evs2 = 0) :
    txC s mid (Msg.run (Msg.init now0 sess) (evs1 ++ evs2)).out = txC s mid (Msg.run (Msg.init now0 sess) evs1).out ∧
    pendC s mid (Msg.run (Msg.init now0 sess) (evs1 ++ evs2)).q.nodes = 0 ∧
    midC mid ((Msg.run (Msg.init now0 sess) (evs1 ++ evs2)).getS s).delayq = 0 := by
  have hp := gpar_of sess hs
  rw [runG_append] at hin
  have hi := run_finv (pu := False) (P := fun _ _ _ => True) hp evs1 _ (finv_init False _ now0 sess hs) hin.1
    (fun h => h.elim) (fun _ _ _ _ => trivial)
  have := run_quiet_M hp s mid evs2 _ hi hin.2 (fun _ _ _ _ => trivial) (by simp only [Psi]; omega) h2
  have e : Msg.run (Msg.init now0 sess) (evs1 ++ evs2) = Msg.run (Msg.run (Msg.init now0 sess) evs1) evs2 := by
    simp [Msg.run, List.foldl_append]
  rw [e]
  have h3 := this.2
  simp only [Psi] at h3
  exact ⟨this.1, by omega, by omega⟩

open Coap.Sim Coap.Sched in
/-- non-vacuity / reading of `m_single_outcome` and `m_never_sent_again` on the gated witness run: message (0,1) — one
accepted send, one TOO_MANY_RETRIES NACK; message (0,2) — one accepted send, delayed after 3 events (counted in the
delay queue), silently completed by its ACK at the end; after its give-up (7 events) message (0,1) has been sent
twice and is still sent twice at the end -/
example : accC 0 1 (Msg.init 0 [{ maxRtx := 1 }]) gevs = 1 ∧
    nackC 0 1 (Msg.run (Msg.init 0 [{ maxRtx := 1 }]) gevs).out = 1 ∧
    accC 0 2 (Msg.init 0 [{ maxRtx := 1 }]) gevs = 1 ∧ remC 0 2 (Msg.init 0 [{ maxRtx := 1 }]) gevs = 1 ∧
    midC 2 ((Msg.run (Msg.init 0 [{ maxRtx := 1 }]) (gevs.take 3)).getS 0).delayq = 1 ∧
    RunG (Msg.init 0 [{ maxRtx := 1 }]) (gevs.take 7 ++ gevs.drop 7) ∧
    pendC 0 1 (Msg.run (Msg.init 0 [{ maxRtx := 1 }]) (gevs.take 7)).q.nodes = 0 ∧
    midC 1 ((Msg.run (Msg.init 0 [{ maxRtx := 1 }]) (gevs.take 7)).getS 0).delayq = 0 ∧
    accC 0 1 (Msg.run (Msg.init 0 [{ maxRtx := 1 }]) (gevs.take 7)) (gevs.drop 7) = 0 ∧
    txC 0 1 (Msg.run (Msg.init 0 [{ maxRtx := 1 }]) (gevs.take 7)).out = 2 ∧
    txC 0 1 (Msg.run (Msg.init 0 [{ maxRtx := 1 }]) gevs).out = 2 := by decide

open Coap.Sim Coap.Sched in
/-- **m_due_fires** (`due_fires` on M, full — the schedule is met, not just respected): after EVERY run over the C06
alphabet (NSTART-delayed messages included), when `coap_io_prepare_io` has run no pending message of any session is
due: each one whose deadline had come has been retransmitted (and re-armed strictly later) or concluded with its NACK
— the due loop has fuel for all of them, including the delayed messages a give-up lets in.  With
`m_pending_on_schedule` / `m_schedule_all`: in a punctual run the `k`-th retransmission happens, and at
`t0 + (2^k − 1)·T`; and by `wait_le_every_deadline` the wait then returned is positive and never beyond the next
deadline. -/
theorem m_due_fires (now0 : Nat) (sess : List Msg.Sess) (evs : List Msg.Ev)
    (hs : ∀ se ∈ sess, SessOk se) (hin : RunG (Msg.init now0 sess) evs) :
    let l := Msg.run (Msg.init now0 sess) evs
    ∀ e ∈ abs (Msg.prepareCore l).1.q, (Msg.prepareCore l).1.now < e.deadline := by
  intro l e he
  have hi := run_finv (pu := False) (P := fun _ _ _ => True) (gpar_of sess hs) evs _
    (finv_init False _ now0 sess hs) hin (fun h => h.elim) (fun _ _ _ _ => trivial)
  have hnd := prepareCore_nothingDue (gpar_of sess hs) _ hi
  rw [nothingDue_iff] at hnd
  generalize (Msg.prepareCore l).1 = l' at *
  rcases l' with ⟨now, ⟨base, nodes⟩, ss, out⟩
  rcases nodes with _ | ⟨h, rest⟩
  · simp [abs, absFrom] at he
  · have h1 := hnd h rest rfl
    simp only [abs, absFrom, List.mem_cons] at he
    simp only [] at h1 ⊢
    rcases he with rfl | he
    · exact h1
    · have := absFrom_ge _ _ e he; omega

open Coap.Sim Coap.Sched in
/-- non-vacuity of `m_due_fires` on the gated witness: at 6000 message 1 is due (give-up) and message 2 is let in;
afterwards the only pending deadline is 9000 and the wait is 3000 -/
example : let l := Msg.run (Msg.init 0 [{ maxRtx := 1 }]) (gevs.take 6)
    (abs l.q).map (·.deadline) = [6000] ∧ l.now = 6000 ∧
    (abs (Msg.prepareCore l).1.q).map (·.deadline) = [9000] ∧ (Msg.prepareCore l).2 = 3000 := by decide

open Coap.Sim Coap.Sched in
/-- **m_at_most_max_retransmissions** (full — every run over the C06 alphabet, punctual or late, NSTART-delayed messages
included): the number of transmissions of (session, mid) never exceeds `MAX_RETRANSMIT + 1` per accepted `coap_send` of
it — one first transmission and at most MAX_RETRANSMIT retransmissions; what is still queued keeps a budget of
`MAX_RETRANSMIT − retransmit_cnt` each, what is still delayed `MAX_RETRANSMIT + 1` each.  With `m_schedule_all` (every
transmission number `k` at its slot) and `m_pending_on_schedule` (numbers 0 … cnt all made): each slot is used, and
used once. -/
theorem m_at_most_max_retransmissions (now0 : Nat) (sess : List Msg.Sess) (evs : List Msg.Ev)
    (hs : ∀ se ∈ sess, SessOk se) (hin : RunG (Msg.init now0 sess) evs) (s mid : Nat) :
    let l := Msg.run (Msg.init now0 sess) evs
    txC s mid l.out + budC s mid (parOf sess s).maxRtx l.q.nodes +
        ((parOf sess s).maxRtx + 1) * midC mid (l.getS s).delayq ≤
      ((parOf sess s).maxRtx + 1) * accC s mid (Msg.init now0 sess) evs := by
  intro l
  have h := run_W (P := fun _ _ _ => True) (gpar_of sess hs) s mid evs _
    (finv_init False _ now0 sess hs) hin (fun _ _ _ _ => trivial)
  rw [W_init s mid _ now0 sess hs, Nat.zero_add] at h
  exact h

open Coap.Sim Coap.Sched in
/-- non-vacuity / reading of `m_at_most_max_retransmissions` on the gated witness (MAX_RETRANSMIT 1): message (0,1) was
transmitted 2 = (1+1)·1 times; message (0,2) 2 times -/
example : txC 0 1 (Msg.run (Msg.init 0 [{ maxRtx := 1 }]) gevs).out = 2 ∧
    txC 0 2 (Msg.run (Msg.init 0 [{ maxRtx := 1 }]) gevs).out = 2 ∧
    accC 0 1 (Msg.init 0 [{ maxRtx := 1 }]) gevs = 1 := by decide

open Coap.Sim Coap.Sched in
/-- **m_transmissions_exactly** (full — "retransmitted after T, 2T, 4T, …", exactly): in every punctual run, for every
node in the send queue whose (session, mid) was accepted by `coap_send` exactly once: the number of transmissions of
that message so far is exactly `retransmit_cnt + 1` — numbers 0 … cnt, each made once, at `t0 + (2^j − 1)·T`
(`m_pending_on_schedule`), nothing else (`m_at_most_max_retransmissions`) — and it is the only node of that message. -/
theorem m_transmissions_exactly (now0 : Nat) (sess : List Msg.Sess) (evs : List Msg.Ev)
    (hs : ∀ se ∈ sess, SessOk se) (hin : RunG (Msg.init now0 sess) evs) (hpu : Punctual (Msg.init now0 sess) evs) :
    let l := Msg.run (Msg.init now0 sess) evs
    ∀ n ∈ l.q.nodes, accC n.sess n.mid (Msg.init now0 sess) evs = 1 →
      txC n.sess n.mid l.out = n.cnt + 1 ∧ pendC n.sess n.mid l.q.nodes = 1 := by
  intro l n hn hacc
  obtain ⟨d, hd⟩ := mem_absP_of_mem (fun s => (parOf sess s).maxRtx) l.q.base l.q.nodes n hn
  obtain ⟨t0, hall, _⟩ := m_pending_on_schedule now0 sess evs hs hin hpu (d, toP _ n) hd
  have hge := txC_ge n.sess n.mid n.cnt l.out (fun j => sched t0 n.timeout j) hall
  have hbud := m_at_most_max_retransmissions now0 sess evs hs hin n.sess n.mid
  have hb := budC_ge_mem n.sess n.mid (parOf sess n.sess).maxRtx l.q.nodes n hn rfl rfl
  have hcnt := ((m_pdu_and_timeout_fixed now0 sess evs hs hin).1 n hn).2.2.1
  have hso := m_single_outcome now0 sess evs hs hin n.sess n.mid
  have hpos := pendC_pos_mem n.sess n.mid l.q.nodes n hn rfl rfl
  rw [hacc, Nat.mul_one] at hbud
  simp only [l] at hge hb hcnt hso hpos ⊢
  rw [hacc] at hso
  constructor
  · omega
  · omega

open Coap.Sim Coap.Sched in
/-- **m_giveup_exactly_max** (full — "… or MAX_RETRANSMIT retransmissions have been made"): in every punctual run, when a
TOO_MANY_RETRIES NACK has been reported for a (session, mid) accepted by `coap_send` exactly once, that message has been
transmitted exactly `MAX_RETRANSMIT + 1` times: once, and MAX_RETRANSMIT retransmissions — no fewer
(`m_giveup_after_all_retransmissions`), no more (`m_at_most_max_retransmissions`). -/
theorem m_giveup_exactly_max (now0 : Nat) (sess : List Msg.Sess) (evs : List Msg.Ev)
    (hs : ∀ se ∈ sess, SessOk se) (hin : RunG (Msg.init now0 sess) evs) (hpu : Punctual (Msg.init now0 sess) evs) :
    ∀ t s mid, Msg.Out.nack t s .retries mid true ∈ (Msg.run (Msg.init now0 sess) evs).out →
      accC s mid (Msg.init now0 sess) evs = 1 →
      txC s mid (Msg.run (Msg.init now0 sess) evs).out = (parOf sess s).maxRtx + 1 := by
  intro t s mid hmem hacc
  obtain ⟨t0, r, _, hall, _⟩ := m_giveup_after_all_retransmissions now0 sess evs hs hin hpu t s mid hmem
  have hge := txC_ge s mid (parOf sess s).maxRtx _ _ hall
  have hbud := m_at_most_max_retransmissions now0 sess evs hs hin s mid
  rw [hacc, Nat.mul_one] at hbud
  simp only [] at hbud
  omega

open Coap.Sim Coap.Sched in
/-- non-vacuity of `m_transmissions_exactly` / `m_giveup_exactly_max` on the gated witness (MAX_RETRANSMIT 1): after 9
events message 2 is pending with `retransmit_cnt = 1` and has been transmitted twice; message 1 was given up after
exactly 2 transmissions -/
example : (Msg.run (Msg.init 0 [{ maxRtx := 1 }]) (gevs.take 9)).q.nodes.map (fun n => (n.mid, n.cnt)) = [(2, 1)] ∧
    accC 0 2 (Msg.init 0 [{ maxRtx := 1 }]) (gevs.take 9) = 1 ∧
    txC 0 2 (Msg.run (Msg.init 0 [{ maxRtx := 1 }]) (gevs.take 9)).out = 2 ∧
    RunG (Msg.init 0 [{ maxRtx := 1 }]) (gevs.take 9) ∧ Punctual (Msg.init 0 [{ maxRtx := 1 }]) (gevs.take 9) ∧
    Msg.Out.nack 6000 0 .retries 1 true ∈ (Msg.run (Msg.init 0 [{ maxRtx := 1 }]) gevs).out ∧
    txC 0 1 (Msg.run (Msg.init 0 [{ maxRtx := 1 }]) gevs).out = 2 := by decide

/-- witness run over the wider alphabet: a NON in between, message 2 delayed by the NSTART gate, a response carrying
token 1 cancels message 1 (which lets message 2 in at 500), message 2 is retransmitted at 3500 = 500 + 3000, a
`coap_session_connected`, then an invalid-code ACK ends message 2 (NACK "bad response") -/
def xevs : List Msg.Ev :=
  [.submit 0 true 1 0, .submit 0 false 5 0, .submit 0 true 2 255, .setNow 500, .rxNon 0 77 1, .setNow 3500, .prepare,
   .connect 0, .rxBad 0 2, .setNow 9000, .prepare]

open Coap.Sim Coap.Sched in
/-- non-vacuity of the section (7) theorems on the wider alphabet: the run is in `RunG` and punctual; both Confirmables
are accepted once and concluded once without a TOO_MANY_RETRIES / RST NACK; the NON is not counted -/
example : RunG (Msg.init 0 [{}]) xevs ∧ Punctual (Msg.init 0 [{}]) xevs ∧ ClockOk (Msg.init 0 [{}]) xevs ∧
    accC 0 1 (Msg.init 0 [{}]) xevs = 1 ∧ remC 0 1 (Msg.init 0 [{}]) xevs = 1 ∧
    accC 0 2 (Msg.init 0 [{}]) xevs = 1 ∧ remC 0 2 (Msg.init 0 [{}]) xevs = 1 ∧
    accC 0 5 (Msg.init 0 [{}]) xevs = 0 ∧ txC 0 2 (Msg.run (Msg.init 0 [{}]) xevs).out = 2 ∧
    Msg.Out.tx 3500 0 2 1 true ∈ (Msg.run (Msg.init 0 [{}]) xevs).out ∧ sched 500 3000 1 = 3500 := by decide

/-! ### where punctuality comes from: sleeping no longer than the returned wait -/
open Coap.Sim Coap.Sched in
/-- **sleep_returned_wait_ok** (full): after every run over the C06 alphabet, let `coap_io_prepare_io` run and return the
wait `w`; moving the clock to any `t ≤ now + w` does not move it past a pending deadline of any session (`m_due_fires`:
nothing is due after the I/O step; `wait_le_every_deadline`: `w` does not exceed the time to any deadline — the
32-bit reduction only makes it smaller).  This is `EvClock` for the `setNow` that follows. -/
theorem sleep_returned_wait_ok (now0 : Nat) (sess : List Msg.Sess) (evs : List Msg.Ev)
    (hs : ∀ se ∈ sess, SessOk se) (hin : RunG (Msg.init now0 sess) evs) :
    let r := Msg.prepareCore (Msg.run (Msg.init now0 sess) evs)
    ∀ t, t ≤ r.1.now + r.2 → ∀ e ∈ abs r.1.q, t ≤ e.deadline := by
  intro r t ht e he
  have h1 := m_due_fires now0 sess evs hs hin e he
  have h2 := (wait_le_every_deadline (Msg.run (Msg.init now0 sess) evs)).1 e he
  simp only [r] at ht
  omega

open Coap.Sim Coap.Sched in
/-- **m_wait_exact_and_positive** (full — no busy loop, no oversleeping, in runs): after every run over the C06 alphabet,
the wait `coap_io_prepare_io` returns while something is pending is exactly the time to the earliest pending deadline
of all sessions whenever that fits the `unsigned int` result, and it is positive (the hypothesis `now < d` of
`wait_le_earliest` is discharged by `m_due_fires`). -/
theorem m_wait_exact_and_positive (now0 : Nat) (sess : List Msg.Sess) (evs : List Msg.Ev)
    (hs : ∀ se ∈ sess, SessOk se) (hin : RunG (Msg.init now0 sess) evs) :
    let r := Msg.prepareCore (Msg.run (Msg.init now0 sess) evs)
    ∀ d, Spec.SQ.earliest (abs r.1.q) = some d → d - r.1.now < 4294967296 → r.2 = d - r.1.now ∧ 0 < r.2 := by
  intro r d hd h32
  have hlt : r.1.now < d := by
    have hdf := m_due_fires now0 sess evs hs hin
    simp only [] at hdf
    generalize (Msg.prepareCore (Msg.run (Msg.init now0 sess) evs)).1 = l' at *
    rcases l' with ⟨now, ⟨base, nodes⟩, ss, out⟩
    rcases nodes with _ | ⟨h, rest⟩
    · simp [abs, absFrom, Spec.SQ.earliest] at hd
    · simp only [abs, absFrom, Spec.SQ.earliest, Option.some.injEq] at hd
      have := hdf ⟨base + h.t, h.sess, h.mid, h.tok⟩ (by simp [abs, absFrom])
      simp only [] at this ⊢
      omega
  exact (wait_le_earliest (Msg.run (Msg.init now0 sess) evs) d hd hlt).2 h32

open Coap.Sim Coap.Sched in
/-- non-vacuity of `m_wait_exact_and_positive`: after the first 6 events of the gated witness the earliest deadline
after the I/O step is 9000, now = 6000, wait = 3000 -/
example : let r := Msg.prepareCore (Msg.run (Msg.init 0 [{ maxRtx := 1 }]) (gevs.take 6))
    Spec.SQ.earliest (abs r.1.q) = some 9000 ∧ 9000 - r.1.now < 4294967296 ∧ r.2 = 3000 := by decide

open Coap.Sim Coap.Sched in
/-- **punctual_of_clock** (full): a run over the C06 alphabet in which the clock is never moved past a pending
deadline (`ClockOk` — by `sleep_returned_wait_ok` what an application gets that sleeps no longer than the wait the
library returned and calls `coap_io_prepare_io` after each `coap_send`) is punctual: submissions, arrivals, I/O steps,
the NSTART gate and the due loop themselves never leave an overdue node behind.  So `m_schedule_all`,
`m_pending_on_schedule`, `m_giveup_after_all_retransmissions` hold for every such run. -/
theorem punctual_of_clock (now0 : Nat) (sess : List Msg.Sess) (evs : List Msg.Ev)
    (hs : ∀ se ∈ sess, SessOk se) (hin : RunG (Msg.init now0 sess) evs) (hck : ClockOk (Msg.init now0 sess) evs) :
    Punctual (Msg.init now0 sess) evs :=
  punctual_of_clockOk (P := fun _ _ _ => True) (gpar_of sess hs) evs _ (finv_init True _ now0 sess hs)
    (fun _ e he => by simp [Msg.init, abs, absFrom] at he) hin hck (fun _ _ _ _ => trivial)

open Coap.Sim Coap.Sched in
/-- non-vacuity of `punctual_of_clock` / `sleep_returned_wait_ok`: the gated witness run never moves the clock past a
pending deadline; after its first 5 events (I/O step at 2000) the wait is 4000 and the next deadline 6000 -/
example : ClockOk (Msg.init 0 [{ maxRtx := 1 }]) gevs ∧
    (let r := Msg.prepareCore (Msg.run (Msg.init 0 [{ maxRtx := 1 }]) (gevs.take 5))
     r.1.now = 2000 ∧ r.2 = 4000 ∧ (abs r.1.q).map (·.deadline) = [6000]) := by decide

/-! ### (6') the simulation M ⊑ S for EVERY event sequence: NSTART gate and coincident instants included

`Coap.SimF` (CoapVerif/Lemmas/TimerSimFull.lean).  The two scope conditions of `m_refines_timer_partial` are gone:

* the invariant is `Coap.Sched.FInv` — sessions established, `con_active ≤ NSTART`, and DELAY QUEUES of never-transmitted
  Confirmables: a message held by NSTART is part of the invariant; its S `send` (and so its schedule) happens when the code
  really transmits it — from the ACK / RST branch of `coap_dispatch` or from the give-up branch of `coap_retransmit` in the
  MIDDLE of the due loop;
* the S events an M event stands for (`SimF.tr`) are computed along the code path, in the order the code processes things:
  one `tickN now 1` (S fires its earliest due entry) per iteration of the due loop, the `send`s of a drain where the drain
  happens, `tickN now 0` (the clock has come to `now`, nothing has fired yet) before a `coap_send` / ACK / RST — so what is due
  at that instant fires when `coap_io_prepare_io` gets to it, as in the code (`tickN` is the one addition to S: a `tick`
  observed part-way; every S-level theorem of section (5) holds for it);
* relation `SimF.RelF`: S's clock ≤ M's; S's pending list (ghost `t0` erased) = what M's delta list stands for AS LISTS; the
  transmissions shown (time, session, mid, retransmission number) are equal AS LISTS; the outcome NACKs shown (time, session,
  mid, reason) are equal AS LISTS.  Not represented: the interleaving of ONE outcome with the first transmissions it unblocks
  at the same instant — the code transmits the delayed message and THEN calls the NACK handler (`coap_retransmit`: release,
  then NACK; RST branch likewise); S reports the outcome and then sends.  `sim_order_witness`: with a message id re-used while
  the first use is still in flight no translation at all can give the full observation lists in the same order.

Scope: `RunG`, THE WHOLE C06 ALPHABET of section (7) (`SimF.RunInF` is the same predicate): `setNow` (monotone), `prepare`,
`submit` of a Confirmable with `T > 0` inside the no-wrap range D7 — with or without NSTART room, at any instant — or of a NON
(transmitted at once, never queued: nothing for S, and not among the Confirmable transmissions compared), `rxAck`, `rxRst`,
`rxBad` (an ACK with an invalid / request code — for S an `ack`: the BAD_RESPONSE NACK is not an outcome of S), `rxNon` (a
response: `coap_cancel_all_messages` — for S one `ack` per removed node, each followed by the `send`s its released slot lets out)
and `connect` at any instant; sessions `SessOk`.  Not in the scope: `hold` / `disconnect` (as in section (7)). -/
open Coap.Sim Coap.Sched in
/-- **m_refines_timer_from** (general form): from any M state satisfying the invariant (delay queues allowed) and any S
state related to it, for EVERY event list: the runs end in related states, the invariant still holds, and every `send` of
the S run carries the `coap_calc_timeout` value `P` vouches for and the session's MAX_RETRANSMIT. -/
theorem m_refines_timer_from (par : Nat → Msg.Sess) (P : Nat → Nat → Nat → Prop) (hp : GPar par)
    (evs : List Msg.Ev) (l : Msg.L) (ts : Timer.TS) (hi : FInv False par P l) (hr : SimF.RelF (mxOf par) l ts)
    (hin : RunG l evs)
    (hP : ∀ s mid r, Msg.Ev.submit s true mid r ∈ evs →
      P s mid (calcTimeout (par s).atI (par s).atF (par s).arfI (par s).arfF r)) :
    FInv False par P (Msg.run l evs) ∧ SimF.RelF (mxOf par) (Msg.run l evs) (Timer.run ts (SimF.trRun l evs)) ∧
    SimF.SendsOk par P (SimF.trRun l evs) :=
  let h := SimF.run_simF hp evs l ts hi hr (SimF.runG_runInF evs l hin) (fun h => h.elim) hP
  ⟨h.1, h.2.1, h.2.2.2⟩

open Coap.Sim Coap.Sched in
/-- **m_refines_timer** (FULL): from the initial state, any number of sessions sharing the send queue, EVERY event list of
the alphabet — Confirmables submitted with or without NSTART room, submissions / ACKs / RSTs at instants at which
retransmissions are due, punctual or late:
* S's clock is at most M's;
* S's pending list (ghost `t0` erased) is exactly what M's delta list stands for: absolute deadline, session, message id,
  initial timeout `T`, retransmission counter, MAX_RETRANSMIT — in the same order;
* both have shown the same transmissions (time, session, mid, retransmission number), in the same order;
* both have shown the same outcome NACKs (time, session, mid, reason), in the same order. -/
theorem m_refines_timer (now0 : Nat) (sess : List Msg.Sess) (evs : List Msg.Ev)
    (hs : ∀ se ∈ sess, SessOk se) (hin : RunG (Msg.init now0 sess) evs) :
    let l := Msg.run (Msg.init now0 sess) evs
    let ts := Timer.run (Timer.init now0) (SimF.trRun (Msg.init now0 sess) evs)
    ts.now ≤ l.now ∧
    ts.pend.map er = absP (fun s => (parOf sess s).maxRtx) l.q.base l.q.nodes ∧
    SimF.txsS ts.outs = SimF.txsM l.out ∧ SimF.nksS ts.outs = SimF.nksM l.out := by
  intro l ts
  have := (SimF.run_simF (pu := False) (P := fun _ _ _ => True) (gpar_of sess hs) evs _ (Timer.init now0)
    (finv_init False _ now0 sess hs) (SimF.relF_init _ now0 sess) (SimF.runG_runInF _ _ hin) (fun h => h.elim)
    (fun _ _ _ _ => trivial)).2.1
  exact ⟨this.now, this.pend, this.txs, this.nacks⟩

open Coap.Sim Coap.Sched in
/-- **m_schedule_via_timer** (FULL — `retransmit_schedule` lifted from S to M THROUGH the simulation, NSTART-delayed messages
included): in every punctual run over the C06 alphabet, EVERY transmission `tx t s mid k true` of a Confirmable M ever emits
belongs to a `coap_send` of (s, mid) in the run with PRNG byte `r`, its first transmission `tx t0 s mid 0` is in the outputs
— for a message that waited for an NSTART slot, `t0` is the instant it left the delay queue —, `t = t0 + (2^k − 1)·T` with
`T = coap_calc_timeout(session parameters, r)` drawn ONCE at that submission, and `k ≤ MAX_RETRANSMIT`. -/
theorem m_schedule_via_timer (now0 : Nat) (sess : List Msg.Sess) (evs : List Msg.Ev)
    (hs : ∀ se ∈ sess, SessOk se) (hin : RunG (Msg.init now0 sess) evs) (hpu : Punctual (Msg.init now0 sess) evs) :
    ∀ t s mid k, Msg.Out.tx t s mid k true ∈ (Msg.run (Msg.init now0 sess) evs).out →
      ∃ t0 r, Msg.Ev.submit s true mid r ∈ evs ∧
        Msg.Out.tx t0 s mid 0 true ∈ (Msg.run (Msg.init now0 sess) evs).out ∧
        t = sched t0 (calcTimeout (parOf sess s).atI (parOf sess s).atF (parOf sess s).arfI (parOf sess s).arfF r) k ∧
        k ≤ (parOf sess s).maxRtx := by
  intro t s mid k hmem
  obtain ⟨_, hr, hok, hsend⟩ := SimF.run_simF (pu := True) (P := fun s mid T => ∃ r, Msg.Ev.submit s true mid r ∈ evs ∧
      T = calcTimeout (parOf sess s).atI (parOf sess s).atF (parOf sess s).arfI (parOf sess s).arfF r)
    (gpar_of sess hs) evs _ (Timer.init now0) (finv_init True _ now0 sess hs) (SimF.relF_init _ now0 sess)
    (SimF.runG_runInF _ _ hin)
    (fun _ => hpu) (fun s mid r h => ⟨r, h, rfl⟩)
  have hor := Timer.run_orig (Q := fun s mid T mx => (∃ r, Msg.Ev.submit s true mid r ∈ evs ∧
      T = calcTimeout (parOf sess s).atI (parOf sess s).atF (parOf sess s).arfI (parOf sess s).arfF r) ∧
      mx = (parOf sess s).maxRtx) _ (Timer.init now0) (Timer.orig_init _ now0) hsend
  obtain ⟨t0, T, mx, hS⟩ := SimF.tx_M_to_S hr.txs hmem
  obtain ⟨hsch, hk⟩ := retransmit_schedule now0 _ (hok trivial) t s mid k t0 T mx hS
  obtain ⟨⟨⟨r, hsub, hT⟩, hmx⟩, h0⟩ := hor.2 t s mid k t0 T mx hS
  exact ⟨t0, r, hsub, SimF.tx_S_to_M hr.txs h0, by rw [← hT]; exact hsch, by rw [← hmx]; exact hk⟩

open Coap.Sim Coap.Sched in
/-- **m_single_outcome_via_timer** (FULL — `single_outcome` lifted from S to M THROUGH the simulation; every event list,
punctual or late, any number of messages and sessions, NSTART-delayed messages included): for every (session, mid), the
number of FIRST transmissions of the Confirmable — `coap_send`s that passed the NSTART gate at once plus messages that left
the delay queue — equals the number of outcome NACK-handler calls (TOO_MANY_RETRIES or RST, carrying the sent PDU) plus the
number of completions without such a NACK (`remC`: an arriving ACK — empty, or with an invalid / request code — that found the
message in the send queue) plus the number of nodes still in the send queue.  So a message that has been transmitted is — at
every moment — exactly one of: pending, completed by its ACK, or reported by ONE NACK.  (`m_single_outcome` adds: accepted = first
transmissions + still delayed.) -/
theorem m_single_outcome_via_timer (now0 : Nat) (sess : List Msg.Sess) (evs : List Msg.Ev)
    (hs : ∀ se ∈ sess, SessOk se) (hin : RunG (Msg.init now0 sess) evs) (s mid : Nat) :
    SimF.tx0C s mid (Msg.run (Msg.init now0 sess) evs).out =
      nackC s mid (Msg.run (Msg.init now0 sess) evs).out + remC s mid (Msg.init now0 sess) evs +
        pendC s mid (Msg.run (Msg.init now0 sess) evs).q.nodes :=
  SimF.conserve_simF (gpar_of sess hs) s mid now0 evs _ (finv_init False _ now0 sess hs)
    (SimF.relF_init _ now0 sess) (SimF.runG_runInF _ _ hin)

/-- witness run with coincident instants: two sessions; at 2000 the retransmission of message (0,1) is due, and BEFORE the I/O
loop runs a `coap_send` on session 1 and an RST for (0,1) arrive; then the I/O step -/
def cevs : List Msg.Ev :=
  [.submit 0 true 1 0, .submit 0 true 2 255, .setNow 2000, .submit 1 true 7 255, .rxRst 0 1, .prepare, .setNow 5000, .prepare]

open Coap.Sim Coap.Sched in
/-- non-vacuity of section (6'): the gated witness `gevs` (give-up in the due loop lets the delayed message in) and the
coincident-instants witness `cevs` (message 2 of session 0 waits for NSTART; RST for message 1 at the instant its
retransmission is due lets message 2 in) are in scope `RunInF`, punctual, and NOT in the scope `RunIn` of the partial
theorems; pending lists, transmission lists and NACK lists of S and M agree -/
example : (∀ se ∈ [({ maxRtx := 1 } : Msg.Sess)], SessOk se) ∧ RunG (Msg.init 0 [{ maxRtx := 1 }]) gevs ∧
    Punctual (Msg.init 0 [{ maxRtx := 1 }]) gevs ∧ ¬ RunIn (Msg.init 0 [{ maxRtx := 1 }]) gevs ∧
    RunG (Msg.init 0 [{}, {}]) cevs ∧ Punctual (Msg.init 0 [{}, {}]) cevs ∧ ¬ RunIn (Msg.init 0 [{}, {}]) cevs ∧
    SimF.txsM (Msg.run (Msg.init 0 [{}, {}]) cevs).out =
      [.tx 5000 0 2 1 true, .tx 5000 1 7 1 true, .tx 2000 0 2 0 true, .tx 2000 1 7 0 true, .tx 0 0 1 0 true] ∧
    SimF.nksM (Msg.run (Msg.init 0 [{}, {}]) cevs).out = [.nackRst 2000 0 1] ∧
    SimF.txsS (Timer.run (Timer.init 0) (SimF.trRun (Msg.init 0 [{}, {}]) cevs)).outs =
      SimF.txsM (Msg.run (Msg.init 0 [{}, {}]) cevs).out ∧
    SimF.tx0C 0 2 (Msg.run (Msg.init 0 [{}, {}]) cevs).out = 1 ∧
    pendC 0 2 (Msg.run (Msg.init 0 [{}, {}]) cevs).q.nodes = 1 ∧
    RunG (Msg.init 0 [{}, {}]) (cevs ++ [.connect 1, .rxBad 0 2, .setNow 9000, .prepare]) ∧
    remC 0 2 (Msg.init 0 [{}, {}]) (cevs ++ [.connect 1, .rxBad 0 2, .setNow 9000, .prepare]) = 1 ∧
    pendC 0 2 (Msg.run (Msg.init 0 [{}, {}]) (cevs ++ [.connect 1, .rxBad 0 2, .setNow 9000, .prepare])).q.nodes = 0 ∧
    -- the wider-alphabet witness `xevs` (a NON, the NSTART gate, a response cancelling by token, connect, an invalid-code ACK)
    SimF.txsS (Timer.run (Timer.init 0) (SimF.trRun (Msg.init 0 [{}]) xevs)).outs =
      SimF.txsM (Msg.run (Msg.init 0 [{}]) xevs).out ∧
    SimF.txsM (Msg.run (Msg.init 0 [{}]) xevs).out = [.tx 3500 0 2 1 true, .tx 500 0 2 0 true, .tx 0 0 1 0 true] ∧
    (Timer.run (Timer.init 0) (SimF.trRun (Msg.init 0 [{}]) xevs)).pend = [] := by
  decide

open Coap.Sim Coap.Sched in
/-- non-vacuity of `m_refines_timer_from`: the initial state with two sessions satisfies `GPar`, `FInv` and `RelF`; so does the
state in the MIDDLE of the gated witness (message 2 waiting in the delay queue) with the S state reached so far -/
example : GPar (parOf [{ maxRtx := 1 }]) ∧
    FInv False (parOf [{ maxRtx := 1 }]) (fun _ _ _ => True) (Msg.run (Msg.init 0 [{ maxRtx := 1 }]) (gevs.take 3)) ∧
    SimF.RelF (mxOf (parOf [{ maxRtx := 1 }])) (Msg.run (Msg.init 0 [{ maxRtx := 1 }]) (gevs.take 3))
      (Timer.run (Timer.init 0) (SimF.trRun (Msg.init 0 [{ maxRtx := 1 }]) (gevs.take 3))) ∧
    ((Msg.run (Msg.init 0 [{ maxRtx := 1 }]) (gevs.take 3)).getS 0).delayq.map (·.mid) = [2] ∧
    RunG (Msg.run (Msg.init 0 [{ maxRtx := 1 }]) (gevs.take 3)) (gevs.drop 3) := by
  have hs : ∀ se ∈ [({ maxRtx := 1 } : Msg.Sess)], SessOk se := by decide
  have hin : RunG (Msg.init 0 [{ maxRtx := 1 }]) (gevs.take 3) := by decide
  have h := m_refines_timer_from (parOf [{ maxRtx := 1 }]) (fun _ _ _ => True) (gpar_of _ hs) (gevs.take 3) _ (Timer.init 0)
    (finv_init False _ 0 _ hs) (SimF.relF_init _ 0 _) hin (fun _ _ _ _ => trivial)
  exact ⟨gpar_of _ hs, h.1, h.2.1, by decide, by decide⟩

/-- witness for the order remark: ONE session, NSTART 1; message id 5 is submitted, retransmitted at 2000 (next deadline 6000),
submitted AGAIN while the first use is in flight (held by NSTART), and an RST for id 5 arrives at 2500 -/
def oevs : List Msg.Ev :=
  [.submit 0 true 5 0, .setNow 2000, .prepare, .submit 0 true 5 0, .setNow 2500, .rxRst 0 5]

open Coap.Sim Coap.Sched in
/-- **sim_order_witness** (why the relation compares the transmission list and the NACK list, not their interleaving): the code
removes the first use of id 5 from the send queue, transmits the second use (`coap_session_connected`), THEN calls the NACK
handler: `tx 2500 (0,5) 0` before `nack RST 2500 (0,5)`.  S's `rst` takes the first pending entry of (0,5) in deadline order:
had the `send` of the second use (deadline 4500) come first, `rst` would remove IT and leave the first use (deadline 6000)
pending; with `rst` first, the NACK precedes the transmission.  The transmission lists and the NACK lists agree, the pending
lists agree, the full observation lists do not. -/
theorem sim_order_witness :
    let l := Msg.run (Msg.init 0 [{}]) oevs
    let ts := Timer.run (Timer.init 0) (SimF.trRun (Msg.init 0 [{}]) oevs)
    RunG (Msg.init 0 [{}]) oevs ∧
    l.out.filterMap obsM = [.nackRst 2500 0 5, .tx 2500 0 5 0 true, .tx 2000 0 5 1 true, .tx 0 0 5 0 true] ∧
    ts.outs.filterMap obsS = [.tx 2500 0 5 0 true, .nackRst 2500 0 5, .tx 2000 0 5 1 true, .tx 0 0 5 0 true] ∧
    SimF.txsS ts.outs = SimF.txsM l.out ∧ SimF.nksS ts.outs = SimF.nksM l.out ∧
    ts.pend.map er = absP (fun _ => 4) l.q.base l.q.nodes ∧ ts.pend.map (·.1) = [4500] := by decide

/-! ## (8) no function of the model ever modifies a node's PDU fields or its stored timeout — whole alphabet, no scope -/
open Coap.Pdu in
/-- **pdu_and_timeout_never_modified_step** (byte identity / `T` drawn once, at full generality): for EVERY state of the
message layer and EVERY event of the model — the whole alphabet of `Msg.Ev`: clock moves, `coap_send` of CON or NON,
I/O steps, ACK, RST, NON response (cancel by token), invalid code, hold, connect, disconnect; no scope condition at all
— every node that is in the send queue or in any session's delay queue after the step carries the fields standing for
its PDU (message id, token, type) and the stored `timeout` of a node that was in the send queue or a delay queue before
the step, or (for a `coap_send`) of the node that call builds (`timeout = coap_calc_timeout(…, r)` for a CON, 0 for a
NON).  `coap_insert_node`, `coap_pop_next`, the removals, `coap_wait_ack`, `coap_retransmit` (re-queue AND the move to
the delay queue), the delay-queue drain, cancel and disconnect only ever change `t`, `retransmit_cnt` and the session
index. -/
theorem pdu_and_timeout_never_modified_step (l : Msg.L) (ev : Msg.Ev) : ∀ n, InL (Msg.step l ev) n →
    (∃ n', InL l n' ∧ pduOf n = pduOf n') ∨
    (∃ s con mid r, ev = .submit s con mid r ∧ pduOf n = pduOf (fresh l s con mid r)) :=
  step_pdu l ev

open Coap.Pdu in
/-- **pdu_and_timeout_never_modified** (whole runs): from ANY state, after ANY event list, every node in the send queue
or in a delay queue has the PDU fields and the stored timeout of a node of the initial state or of the node built by a
`coap_send` of the run (`Created`: with the session parameters at that moment and that call's PRNG byte) — `T` is
drawn ONCE per message and what is retransmitted is what was submitted. -/
theorem pdu_and_timeout_never_modified (l : Msg.L) (evs : List Msg.Ev) : ∀ n, InL (Msg.run l evs) n →
    (∃ n0, InL l n0 ∧ pduOf n = pduOf n0) ∨ Created l evs n :=
  run_pdu evs l

/-- witness run outside every scope of sections (6)/(7): NSTART gate, hold (the retransmission of message 1 moves its node
to the delay queue), connect (the drain lets message 2 in), a NON, a disconnect of another session -/
def pevs : List Msg.Ev :=
  [.submit 0 true 1 0, .submit 0 true 2 255, .submit 1 false 9 0, .hold 0, .setNow 2000, .prepare, .connect 0,
   .disconnect 1, .setNow 5000, .prepare]

open Coap.Pdu in
/-- … at the end message 2 (retransmitted once) is in the send queue and message 1 (`retransmit_cnt = 1`) waits in the
delay queue; both still have the PDU fields and the timeout (T = 3000, T = 2000) of their `coap_send` -/
example : (Msg.run (Msg.init 0 [{}, {}]) pevs).q.nodes.map pduOf = [(2, 2, true, 3000)] ∧
    ((Msg.run (Msg.init 0 [{}, {}]) pevs).getS 0).delayq.map pduOf = [(1, 1, true, 2000)] ∧
    ((Msg.run (Msg.init 0 [{}, {}]) pevs).getS 0).delayq.map (·.cnt) = [1] := by decide

/-! ## (9) a Confirmable waiting for an NSTART slot is never stranded — whole alphabet -/
open Coap.Msg Coap.MsgX in
/-- **m_delayed_has_pending** ("every Confirmable accepted for sending is transmitted", for the messages the NSTART gate
holds back): after EVERY event list of the model (the whole alphabet, give-ups inside the due loop, hold / connect /
disconnect included), if an established session with NSTART ≥ 1 still holds a message in its delay queue, then a
Confirmable of that session is pending in the send queue.  So the send queue is not empty — `coap_io_prepare_io` does
not report "nothing to wait for" (`wait_le_every_deadline`, `m_wait_exact_and_positive`) — and whatever ends that pending
message (ACK, RST, TOO_MANY_RETRIES: `m_single_outcome`) releases its slot in the same step (`no_idle_hold` is kept by
every event), which transmits the held message.  A give-up that does not let the next held message in leaves a state this
theorem excludes. -/
theorem m_delayed_has_pending (now0 : Nat) (sess : List Sess) (evs : List Ev) (s : Nat)
    (hss : ∀ se ∈ sess, se.conActive = 0 ∧ se.delayq = [] ∧ se.nstart ≤ 255) (hs : s < sess.length)
    (he : ((run (init now0 sess) evs).getS s).est = true) (hn : 1 ≤ ((run (init now0 sess) evs).getS s).nstart)
    (hd : ((run (init now0 sess) evs).getS s).delayq ≠ []) :
    ∃ n ∈ (run (init now0 sess) evs).q.nodes, n.sess = s ∧ n.con = true := by
  have hw := wf_run evs _ (wf_init now0 sess hss)
  have hnih := nih_run evs _ (wf_init now0 sess hss) (nih_init now0 sess hss)
  have hlt : s < (run (init now0 sess) evs).sess.length := by rw [run_len]; exact hs
  generalize run (init now0 sess) evs = l at *
  cases hq : (l.getS s).delayq with
  | nil => exact absurd hq hd
  | cons x rest =>
    have h1 := hnih s hlt he x (by simp [hq])
    have h2 := hw.2 s hlt
    have hpos : 0 < inflight l s := by omega
    unfold inflight at hpos
    obtain ⟨n, hn'⟩ := List.exists_mem_of_length_pos hpos
    have hm := List.mem_filter.mp hn'
    exact ⟨n, hm.1, by simpa using hm.2, hw.1.mem hm.1⟩

open Coap.Msg in
/-- non-vacuity of `m_delayed_has_pending`: in the gated witness, after message 2 was submitted (3 events), session 0 holds
message 2 and message 1 is pending; after the give-up of message 1 (7 events) nothing is held any more -/
example : (((run (init 0 [{ maxRtx := 1 }]) (gevs.take 3)).getS 0).delayq.map (·.mid) = [2]) ∧
    ((run (init 0 [{ maxRtx := 1 }]) (gevs.take 3)).q.nodes.map (·.mid) = [1]) ∧
    (((run (init 0 [{ maxRtx := 1 }]) (gevs.take 7)).getS 0).delayq = []) ∧
    ((run (init 0 [{ maxRtx := 1 }]) (gevs.take 7)).q.nodes.map (·.mid) = [2]) := by decide

/-! ## (10) socket-write failures: a retransmission that cannot be written is a datagram lost on the wire

`Model/MsgLayerW.lean` gives the model one more input — what `coap_socket_send()` returns for each datagram (ECONNREFUSED
after an ICMP error, ENOBUFS, …).  An `Out.tx` there is a write ATTEMPT; the ghost list `failed` marks the attempts that
failed.  `dev` (ghost) is set exactly when the write of a FIRST transmission fails: `coap_send` then refuses the message
(it was never accepted) and the drain loop of `coap_session_connected` stops (`break`) — the state then differs from
the base model's by design.  Every other failure (any number of failed RETRANSMISSIONS of any messages) is invisible to
the message layer. -/
open Coap.Msg Coap.MsgW in
/-- **w_failed_retransmission_is_lost_datagram** (every state, every oracle): while retransmissions are left,
`coap_retransmit` with a write that fails does to the send queue, to the sessions (`con_active`, delay queues) and to
the output list exactly what it does with a write that succeeds: the node is back in the send queue with
`retransmit_cnt + 1` and the deadline `now + (T << cnt)` (`retransmit_step`), the message keeps its NSTART slot, and
the attempt is in the outputs.  (A `coap_retransmit` that drops the node when the write fails, or forgets the slot,
contradicts this.) -/
theorem w_failed_retransmission_is_lost_datagram (lw : LW) (n : Node) (hc : n.cnt < (lw.l.getS n.sess).maxRtx) :
    (retransmitW lw n).l = retransmit lw.l n ∧ (retransmitW lw n).dev = lw.dev :=
  retransmitW_resend lw n hc

open Coap.Msg Coap.MsgW in
/-- **w_run_tracks_m_partial**: for EVERY event list and EVERY write oracle, from any state: unless the write of a first
transmission failed (`dev`), the run of the write-failure model ends in exactly the state — send queue with all
deadlines and counters, `con_active`, delay queues, clock, output list — of the base model's run over the same events.
Failed retransmissions, however many and wherever, change nothing but the ghost marks.

`_partial`: the statement without the `dev` hypothesis is false by design (a `coap_send` whose first write fails is
refused; a failed write stops the drain loop).  Full statement:
  `∀ lw evs, (runW lw evs).l = Msg.run lw.l evs`. -/
theorem w_run_tracks_m_partial (lw : LW) (evs : List Ev) (h : (runW lw evs).dev = false) :
    (runW lw evs).l = run lw.l evs :=
  (runW_tracks evs lw h).2

open Coap.Msg Coap.MsgW in
/-- **w_no_failure_is_m** (the write-failure model is a conservative extension, full): with an oracle that never says
"fails" (in particular the empty one), for EVERY event list from any state, the write-failure model does exactly what
the base model does — so every theorem of sections (3)–(9) is a theorem about it, and the comparison of the compiled code
with `Coap.MsgW.stepW` on lines with failing writes ties the same transcription as the comparison with `Coap.Msg.step`. -/
theorem w_no_failure_is_m (lw : LW) (evs : List Ev) (hnf : ∀ b ∈ lw.wf, b = false) (hd : lw.dev = false) :
    (runW lw evs).l = run lw.l evs ∧ (runW lw evs).dev = false := by
  have hq := runW_quiet evs lw hnf
  have hdev : (runW lw evs).dev = false := by rw [hq.2]; exact hd
  exact ⟨(runW_tracks evs lw hdev).2, hdev⟩

open Coap.Msg Coap.MsgW Coap.Sim Coap.Sched in
/-- **w_single_outcome_partial** (`m_single_outcome` with write failures): in every run over the C06 alphabet in which
any writes of RETRANSMISSIONS fail, for every (session, mid): accepted `coap_send`s = outcome NACKs (TOO_MANY_RETRIES /
RST) + completions by ACK / response / invalid code + nodes in the send queue + nodes in the delay queue.  A message
whose retransmission could not be written is still exactly one of: pending, waiting, concluded once — never lost.
(`_partial`: as `w_run_tracks_m_partial`.) -/
theorem w_single_outcome_partial (now0 : Nat) (sess : List Sess) (wf : List Bool) (evs : List Ev)
    (hs : ∀ se ∈ sess, SessOk se) (hin : RunG (init now0 sess) evs)
    (hdev : (runW (initW now0 sess wf) evs).dev = false) (s mid : Nat) :
    let lw := runW (initW now0 sess wf) evs
    accC s mid (init now0 sess) evs =
      nackC s mid lw.l.out + remC s mid (init now0 sess) evs + pendC s mid lw.l.q.nodes +
        midC mid (lw.l.getS s).delayq := by
  intro lw
  have h := w_run_tracks_m_partial (initW now0 sess wf) evs hdev
  simp only [lw, h]
  exact m_single_outcome now0 sess evs hs hin s mid

open Coap.Msg Coap.MsgW Coap.Sim Coap.Sched in
/-- **w_attempts_on_schedule_partial** (`m_schedule_all` + `m_giveup_after_all_retransmissions` with write failures): in
every punctual run over the C06 alphabet in which any writes of retransmissions fail, every write ATTEMPT of a
Confirmable — written or not — is at its slot `t0 + (2^k − 1)·T` of the ONE `T` drawn at its `coap_send`, `k ≤
MAX_RETRANSMIT`; and TOO_MANY_RETRIES is only reported after all `MAX_RETRANSMIT + 1` attempts were made, each at its
slot, exactly at the slot after the last.  A failed write neither shifts the schedule nor costs or adds a retransmission.
(`_partial`: as `w_run_tracks_m_partial`.) -/
theorem w_attempts_on_schedule_partial (now0 : Nat) (sess : List Sess) (wf : List Bool) (evs : List Ev)
    (hs : ∀ se ∈ sess, SessOk se) (hin : RunG (init now0 sess) evs) (hpu : Punctual (init now0 sess) evs)
    (hdev : (runW (initW now0 sess wf) evs).dev = false) :
    let out := (runW (initW now0 sess wf) evs).l.out
    (∀ t s mid k, Out.tx t s mid k true ∈ out →
      ∃ t0 r, Ev.submit s true mid r ∈ evs ∧ Out.tx t0 s mid 0 true ∈ out ∧
        t = sched t0 (calcTimeout (parOf sess s).atI (parOf sess s).atF (parOf sess s).arfI (parOf sess s).arfF r) k ∧
        k ≤ (parOf sess s).maxRtx) ∧
    (∀ t s mid, Out.nack t s .retries mid true ∈ out →
      ∃ t0 r, Ev.submit s true mid r ∈ evs ∧
        (∀ j, j ≤ (parOf sess s).maxRtx →
          Out.tx (sched t0 (calcTimeout (parOf sess s).atI (parOf sess s).atF (parOf sess s).arfI
            (parOf sess s).arfF r) j) s mid j true ∈ out) ∧
        t = sched t0 (calcTimeout (parOf sess s).atI (parOf sess s).atF (parOf sess s).arfI (parOf sess s).arfF r)
          ((parOf sess s).maxRtx + 1)) := by
  intro out
  have h := w_run_tracks_m_partial (initW now0 sess wf) evs hdev
  simp only [out, h]
  exact ⟨m_schedule_all now0 sess evs hs hin hpu, m_giveup_after_all_retransmissions now0 sess evs hs hin hpu⟩

/-- witness run with write failures: MAX_RETRANSMIT 2, NSTART 1; message 2 waits behind message 1; the writes number 1 and 2
(both retransmissions of message 1) fail; message 1 is given up at 14000 and message 2 goes out at that instant -/
def wfevs : List Msg.Ev :=
  [.submit 0 true 1 0, .submit 0 true 2 0, .setNow 2000, .prepare, .setNow 6000, .prepare, .setNow 14000, .prepare]

open Coap.Msg Coap.MsgW Coap.Sim Coap.Sched in
/-- non-vacuity of section (10): the witness is in scope and punctual, no first transmission fails (`dev = false`), the two
failed attempts are marked (output positions 3 and 5, counted from the oldest: the attempts at 2000 and 6000), message 1 still gets its ONE
TOO_MANY_RETRIES after 3 attempts and message 2 is transmitted; with a failing FIRST write `coap_send` refuses
(`dev = true`, nothing queued) -/
example : (∀ se ∈ [({ maxRtx := 2 } : Sess)], SessOk se) ∧ RunG (init 0 [{ maxRtx := 2 }]) wfevs ∧
    Punctual (init 0 [{ maxRtx := 2 }]) wfevs ∧
    (runW (initW 0 [{ maxRtx := 2 }] [false, true, true]) wfevs).dev = false ∧
    (runW (initW 0 [{ maxRtx := 2 }] [false, true, true]) wfevs).failed = [5, 3] ∧
    (runW (initW 0 [{ maxRtx := 2 }] [false, true, true]) wfevs).l.out.filterMap obsM =
      [.nackRetries 14000 0 1, .tx 14000 0 2 0 true, .tx 6000 0 1 2 true, .tx 2000 0 1 1 true, .tx 0 0 1 0 true] ∧
    (runW (initW 0 [{ maxRtx := 2 }] [false, true, true]) wfevs).l.q.nodes.map (·.mid) = [2] ∧
    (runW (initW 0 [{}] [true]) [.submit 0 true 1 0]).dev = true ∧
    (runW (initW 0 [{}] [true]) [.submit 0 true 1 0]).l.q.nodes = [] ∧
    (runW (initW 0 [{}] [true]) [.submit 0 true 1 0]).l.out = [.sub none, .tx 0 0 1 0 true] := by decide

open Coap.Msg Coap.MsgW in
/-- **w_drain_break_strands_witness** (open finding `drain_break_strands_delayed`, the domain the `_partial` theorems of this
section exclude through `dev`): a session that is not established holds a NON (101) and a Confirmable (102);
`coap_session_connected` takes the NON out of the delay queue, its write fails, the NON is deleted and the loop stops
(`if (bytes_written < 0) break;`).  No Confirmable of the session is in flight, so nothing will call
`coap_session_connected` again: the session is established, `con_active = 0`, the send queue is empty,
`coap_io_prepare_io` returns 0 — and the accepted Confirmable 102 is still in the delay queue. -/
theorem w_drain_break_strands_witness :
    let lw := runW (initW 0 [{}] [true]) [.hold 0, .submit 0 false 101 0, .submit 0 true 102 0, .connect 0, .prepare]
    lw.dev = true ∧ (lw.l.getS 0).est = true ∧ (lw.l.getS 0).conActive = 0 ∧
    (lw.l.getS 0).delayq.map (·.mid) = [102] ∧ lw.l.q.nodes = [] ∧ lw.l.out.head? = some (.wait 0 0) := by decide

/-! ### (10') the branch the `_partial` theorems above exclude: `coap_send` refuses a message whose first write fails

`dev` is set in two places.  (i) `coap_send_internal`: `bytes_written < 0` → `goto error` — covered HERE by full theorems: the
caller is told (COAP_INVALID_MID), nothing is queued, and the whole later run is the run without that call.  (ii) the `break`
in the drain loop of `coap_session_connected` — the open finding `drain_break_strands_delayed` (`w_drain_break_strands_witness`),
where the property itself fails; that is why `w_run_tracks_m_partial` & co. keep their suffix. -/
open Coap.Msg Coap.MsgW in
/-- **w_send_refused_nothing_queued** (every state, every oracle): a `coap_send` that reaches the socket (socket open, the
gate of `coap_send_pdu` lets it through) and whose write FAILS returns COAP_INVALID_MID to the caller (`.sub none`), leaves the
attempt on record (marked failed) — and changes nothing else: the send queue, every session record (`con_active`, delay
queues) and the clock are what they were.  Nothing is queued, no NSTART slot is taken. -/
theorem w_send_refused_nothing_queued (lw : LW) (s : Nat) (con : Bool) (mid r : Nat)
    (hopen : (lw.l.getS s).sockOpen = true) (hgate : gate (lw.l.getS s) con = false)
    (hfail : lw.wf.headD false = true) :
    let lw' := submitW lw s con mid r
    lw'.l.out = .sub none :: .tx lw.l.now s mid 0 con :: lw.l.out ∧
    lw'.l.q = lw.l.q ∧ lw'.l.sess = lw.l.sess ∧ lw'.l.now = lw.l.now ∧
    lw'.dev = true ∧ lw'.wf = lw.wf.tail ∧ lw'.failed = lw.l.out.length :: lw.failed := by
  intro lw'
  have h := submitW_refused lw s con mid r hopen hgate hfail
  simp only [lw', h]
  trivial

open Coap.Msg Coap.MsgW in
/-- **w_refused_send_leaves_no_trace** (every state, every oracle, EVERY later event list): after a refused `coap_send` the
whole later run — retransmissions, arrivals, give-ups, further sends, further write failures — is, event for event, the run
that happens WITHOUT that call (the oracle one answer further): same clock, same send queue with the same deadlines and
counters, same sessions, same remaining oracle, and the same NEW outputs in the same order on top of the two outputs of the
refused call.  So the refused message gets no NACK and is never transmitted later: nothing that happens later depends on the
call having been made. -/
theorem w_refused_send_leaves_no_trace (lw : LW) (s : Nat) (con : Bool) (mid r : Nat) (evs : List Ev)
    (hopen : (lw.l.getS s).sockOpen = true) (hgate : gate (lw.l.getS s) con = false)
    (hfail : lw.wf.headD false = true) :
    let a := runW (submitW lw s con mid r) evs
    let b := runW { lw with wf := lw.wf.tail } evs
    a.l.now = b.l.now ∧ a.l.q = b.l.q ∧ a.l.sess = b.l.sess ∧ a.wf = b.wf ∧
    ∃ new, a.l.out = new ++ .sub none :: .tx lw.l.now s mid 0 con :: lw.l.out ∧ b.l.out = new ++ lw.l.out := by
  intro a b
  obtain ⟨h1, h2⟩ := runW_after_refused lw s con mid r evs hopen hgate hfail
  simp only [a, b, h1, h2]
  exact ⟨rfl, rfl, rfl, rfl, _, rfl, rfl⟩

open Coap.Msg Coap.MsgW in
/-- **w_run_with_refused_send_is_m_without_it** (complement of `w_run_tracks_m_partial`): a run `evs1`, a `coap_send` that is
refused because its first write fails, then `evs2` — any event lists, any oracle, any pattern of failing RETRANSMISSION writes
— with no other first-write failure (`dev = false` for the run without the call): the write-failure model ends in exactly
the state of the BASE model's run over `evs1 ++ evs2`, the event list WITHOUT the refused `coap_send`; its outputs are the
base model's with the failed attempt and COAP_INVALID_MID inserted where the call was made.  So every theorem of sections
(3)–(9) about `evs1 ++ evs2` is a theorem about the run with the refused call. -/
theorem w_run_with_refused_send_is_m_without_it (lw0 : LW) (evs1 evs2 : List Ev) (s : Nat) (con : Bool) (mid r : Nat)
    (hopen : ((runW lw0 evs1).l.getS s).sockOpen = true) (hgate : gate ((runW lw0 evs1).l.getS s) con = false)
    (hfail : (runW lw0 evs1).wf.headD false = true)
    (hdev : (runW { runW lw0 evs1 with wf := (runW lw0 evs1).wf.tail } evs2).dev = false) :
    let a := runW lw0 (evs1 ++ .submit s con mid r :: evs2)
    let m1 := run lw0.l evs1
    let m := run lw0.l (evs1 ++ evs2)
    a.l.now = m.now ∧ a.l.q = m.q ∧ a.l.sess = m.sess ∧
    ∃ new, m.out = new ++ m1.out ∧ a.l.out = new ++ .sub none :: .tx m1.now s mid 0 con :: m1.out := by
  intro a m1 m
  have hb := runW_tracks evs2 _ hdev
  have h1 := runW_tracks evs1 lw0 hb.1
  have ha : a = runW (submitW (runW lw0 evs1) s con mid r) evs2 := by
    simp only [a, runW, List.foldl_append, List.foldl_cons, stepW]
  have hm : m = Msg.run (runW lw0 evs1).l evs2 := by
    rw [h1.2]
    simp only [m, Msg.run, List.foldl_append]
  obtain ⟨e1, e2, e3, _, new, e5, e6⟩ := w_refused_send_leaves_no_trace (runW lw0 evs1) s con mid r evs2 hopen hgate hfail
  rw [hb.2] at e1 e2 e3 e6
  rw [ha, hm]
  refine ⟨e1, e2, e3, new, ?_, ?_⟩
  · rw [e6, h1.2]
  · rw [e5, h1.2]

open Coap.Msg Coap.MsgW Coap.Sim Coap.Sched in
/-- **w_single_outcome_refused** (complement of `w_single_outcome_partial`): in a run over the C06 alphabet with one refused
`coap_send` (and any failing retransmission writes), conservation holds with the refused call NOT counted as accepted: for
every (session, mid) — the refused one included — accepted sends of `evs1 ++ evs2` = outcome NACKs + completions + nodes in the
send queue + nodes in the delay queue.  The refused call adds no NACK, no queued node, no delayed node. -/
theorem w_single_outcome_refused (now0 : Nat) (sess : List Sess) (wf : List Bool) (evs1 evs2 : List Ev)
    (s : Nat) (con : Bool) (mid r : Nat)
    (hs : ∀ se ∈ sess, SessOk se) (hin : RunG (init now0 sess) (evs1 ++ evs2))
    (hopen : ((runW (initW now0 sess wf) evs1).l.getS s).sockOpen = true)
    (hgate : gate ((runW (initW now0 sess wf) evs1).l.getS s) con = false)
    (hfail : (runW (initW now0 sess wf) evs1).wf.headD false = true)
    (hdev : (runW { runW (initW now0 sess wf) evs1 with wf := (runW (initW now0 sess wf) evs1).wf.tail } evs2).dev = false)
    (s' mid' : Nat) :
    let a := runW (initW now0 sess wf) (evs1 ++ .submit s con mid r :: evs2)
    accC s' mid' (init now0 sess) (evs1 ++ evs2) =
      nackC s' mid' a.l.out + remC s' mid' (init now0 sess) (evs1 ++ evs2) + pendC s' mid' a.l.q.nodes +
        midC mid' (a.l.getS s').delayq := by
  intro a
  obtain ⟨_, e2, e3, new, e4, e5⟩ :=
    w_run_with_refused_send_is_m_without_it (initW now0 sess wf) evs1 evs2 s con mid r hopen hgate hfail hdev
  have hso := m_single_outcome now0 sess (evs1 ++ evs2) hs hin s' mid'
  simp only [] at e2 e3 e4 e5 hso
  have hg : a.l.getS s' = (run (init now0 sess) (evs1 ++ evs2)).getS s' := by
    simp only [L.getS, a]; rw [e3]; rfl
  have hn : nackC s' mid' a.l.out = nackC s' mid' (run (init now0 sess) (evs1 ++ evs2)).out := by
    have happ : ∀ (x y : List Out), nackC s' mid' (x ++ y) = nackC s' mid' x + nackC s' mid' y := by
      intro x y
      induction x with
      | nil => simp [nackC]
      | cons o x ih => simp only [List.cons_append, nackC, ih]; omega
    simp only [a]
    rw [e5]
    show _ = nackC s' mid' (run (initW now0 sess wf).l (evs1 ++ evs2)).out
    rw [e4, happ, happ]
    simp [nackC, nackW, obsM]
  rw [hn, hg]
  simp only [a]
  rw [e2]
  exact hso

open Coap.Msg Coap.MsgW Coap.Sim Coap.Sched in
/-- **w_attempts_on_schedule_refused** (complement of `w_attempts_on_schedule_partial`): in a punctual run over the C06
alphabet with one refused `coap_send` (and any failing retransmission writes), every write attempt of a Confirmable is
either THE attempt of the refused call (at the time of the call, number 0 — it has no retransmission: nothing else in the
outputs stems from it) or an attempt of a message accepted in `evs1 ++ evs2`, at its slot `t0 + (2^k − 1)·T` of the one `T`
drawn at its `coap_send`, `k ≤ MAX_RETRANSMIT`; and every TOO_MANY_RETRIES NACK comes after all `MAX_RETRANSMIT + 1` attempts
of an ACCEPTED message, one slot after the last — never for the refused one. -/
theorem w_attempts_on_schedule_refused (now0 : Nat) (sess : List Sess) (wf : List Bool) (evs1 evs2 : List Ev)
    (s : Nat) (con : Bool) (mid r : Nat)
    (hs : ∀ se ∈ sess, SessOk se) (hin : RunG (init now0 sess) (evs1 ++ evs2))
    (hpu : Punctual (init now0 sess) (evs1 ++ evs2))
    (hopen : ((runW (initW now0 sess wf) evs1).l.getS s).sockOpen = true)
    (hgate : gate ((runW (initW now0 sess wf) evs1).l.getS s) con = false)
    (hfail : (runW (initW now0 sess wf) evs1).wf.headD false = true)
    (hdev : (runW { runW (initW now0 sess wf) evs1 with wf := (runW (initW now0 sess wf) evs1).wf.tail } evs2).dev = false) :
    let out := (runW (initW now0 sess wf) (evs1 ++ .submit s con mid r :: evs2)).l.out
    (∀ t s' mid' k, Out.tx t s' mid' k true ∈ out →
      (t = (Msg.run (init now0 sess) evs1).now ∧ s' = s ∧ mid' = mid ∧ k = 0 ∧ con = true) ∨
      ∃ t0 r', Ev.submit s' true mid' r' ∈ evs1 ++ evs2 ∧ Out.tx t0 s' mid' 0 true ∈ out ∧
        t = sched t0 (calcTimeout (parOf sess s').atI (parOf sess s').atF (parOf sess s').arfI (parOf sess s').arfF r') k ∧
        k ≤ (parOf sess s').maxRtx) ∧
    (∀ t s' mid', Out.nack t s' .retries mid' true ∈ out →
      ∃ t0 r', Ev.submit s' true mid' r' ∈ evs1 ++ evs2 ∧
        (∀ j, j ≤ (parOf sess s').maxRtx →
          Out.tx (sched t0 (calcTimeout (parOf sess s').atI (parOf sess s').atF (parOf sess s').arfI
            (parOf sess s').arfF r') j) s' mid' j true ∈ out) ∧
        t = sched t0 (calcTimeout (parOf sess s').atI (parOf sess s').atF (parOf sess s').arfI (parOf sess s').arfF r')
          ((parOf sess s').maxRtx + 1)) := by
  intro out
  obtain ⟨_, _, _, new, e4, e5⟩ :=
    w_run_with_refused_send_is_m_without_it (initW now0 sess wf) evs1 evs2 s con mid r hopen hgate hfail hdev
  have e4' : (Msg.run (init now0 sess) (evs1 ++ evs2)).out = new ++ (Msg.run (init now0 sess) evs1).out := e4
  have e5' : out = new ++ .sub none :: .tx (Msg.run (init now0 sess) evs1).now s mid 0 con ::
      (Msg.run (init now0 sess) evs1).out := e5
  have hsub : ∀ o, o ∈ (Msg.run (init now0 sess) (evs1 ++ evs2)).out → o ∈ out := by
    intro o ho
    rw [e4'] at ho
    rw [e5']
    simp only [List.mem_append, List.mem_cons] at ho ⊢
    rcases ho with h | h
    · exact Or.inl h
    · exact Or.inr (Or.inr (Or.inr h))
  have hback : ∀ o, o ∈ out → o = .sub none ∨ o = .tx (Msg.run (init now0 sess) evs1).now s mid 0 con ∨
      o ∈ (Msg.run (init now0 sess) (evs1 ++ evs2)).out := by
    intro o ho
    rw [e5'] at ho
    rw [e4']
    simp only [List.mem_append, List.mem_cons] at ho ⊢
    rcases ho with h | h | h | h
    · exact Or.inr (Or.inr (Or.inl h))
    · exact Or.inl h
    · exact Or.inr (Or.inl h)
    · exact Or.inr (Or.inr (Or.inr h))
  refine ⟨?_, ?_⟩
  · intro t s' mid' k hmem
    rcases hback _ hmem with h | h | h
    · cases h
    · simp only [Out.tx.injEq] at h
      exact Or.inl ⟨h.1, h.2.1, h.2.2.1, h.2.2.2.1, h.2.2.2.2.symm⟩
    · obtain ⟨t0, r', h1, h2, h3, h4⟩ := m_schedule_all now0 sess (evs1 ++ evs2) hs hin hpu t s' mid' k h
      exact Or.inr ⟨t0, r', h1, hsub _ h2, h3, h4⟩
  · intro t s' mid' hmem
    rcases hback _ hmem with h | h | h
    · cases h
    · cases h
    · obtain ⟨t0, r', h1, h2, h3⟩ := m_giveup_after_all_retransmissions now0 sess (evs1 ++ evs2) hs hin hpu t s' mid' h
      exact ⟨t0, r', h1, fun j hj => hsub _ (h2 j hj), h3⟩

open Coap.Msg Coap.MsgW in
/-- non-vacuity of section (10'): MAX_RETRANSMIT 2; message 1 is sent at 0; at 2000 its retransmission is written; at 2500 a
`coap_send` of message 7 on session 1 is refused (its write fails); the run goes on: the hypotheses hold, message 7 is nowhere,
message 1 is retransmitted at 6000 as if nothing had happened -/
example : let lw0 := initW 0 [{ maxRtx := 2 }, { maxRtx := 2 }] [false, false, true]
    let evs1 : List Ev := [.submit 0 true 1 0, .setNow 2000, .prepare, .setNow 2500]
    let evs2 : List Ev := [.setNow 6000, .prepare]
    ((runW lw0 evs1).l.getS 1).sockOpen = true ∧ gate ((runW lw0 evs1).l.getS 1) true = false ∧
    (runW lw0 evs1).wf.headD false = true ∧
    (runW { runW lw0 evs1 with wf := (runW lw0 evs1).wf.tail } evs2).dev = false ∧
    (runW lw0 (evs1 ++ .submit 1 true 7 0 :: evs2)).dev = true ∧
    (runW lw0 (evs1 ++ .submit 1 true 7 0 :: evs2)).l.q.nodes.map (·.mid) = [1] ∧
    (runW lw0 (evs1 ++ .submit 1 true 7 0 :: evs2)).l.out =
      [.wait 6000 8000, .tx 6000 0 1 2 true, .sub none, .tx 2500 1 7 0 true, .wait 2000 4000, .tx 2000 0 1 1 true,
       .sub (some 1), .tx 0 0 1 0 true] ∧
    Coap.Sched.RunG (init 0 [{ maxRtx := 2 }, { maxRtx := 2 }]) (evs1 ++ evs2) ∧
    Coap.Sim.Punctual (init 0 [{ maxRtx := 2 }, { maxRtx := 2 }]) (evs1 ++ evs2) := by decide

/-! ## (11) an ACK that carries the message id ends the Confirmable whatever code it carries (round X06, seed C06-11)

"… until an ACK or RST carrying its message id arrives from that peer": the ACK branch of `coap_dispatch` removes the
node by (session, message id) BEFORE it looks at the code.  `Msg.rxAckReq` transcribes the branch for an ACK whose code
is a request method (0.01 … 0.31): it is the same function as `Msg.rxBad` (the invalid-class check at the top of
`coap_dispatch`), so `Ev.rxBad` stands for both and every whole-run theorem of section (7) — `m_single_outcome`
(`remC` counts it), `m_never_sent_again`, `m_schedule_all`, `m_due_fires` — ranges over such ACKs at any time. -/
open Coap.Msg in
/-- **ack_request_code_is_bad_ack** (every state): an ACK with a request code is handled exactly like an ACK with an
invalid code class: node removed by (session, mid), NSTART slot released (delay queue drained), ONE NACK BAD_RESPONSE
with the sent PDU iff a node was found. -/
theorem ack_request_code_is_bad_ack (l : L) (s mid : Nat) : rxAckReq l s mid = rxBad l s mid := by
  unfold rxAckReq rxBad
  cases h : removeNode l.q.nodes s mid with
  | mk sent rest => cases sent <;> rfl

open Coap.Msg in
/-- **m_solo_ack_request_code**: ONE Confirmable on an idle endpoint, an ACK with its message id and a request code
arriving after the `k`-th retransmission (any `k`): the queue is empty, the slot is free, exactly one NACK
(BAD_RESPONSE) — and by `m_solo_quiet_after` nothing is ever transmitted again. -/
theorem m_solo_ack_request_code (se : Sess) (t0 T mid k : Nat) (hopen : se.sockOpen = true) (hest : se.est = true)
    (hdq : se.delayq = []) :
    afterRx (rxAckReq (soloState se t0 T mid k) 0 mid) =
      soloDone se (sched t0 T k) (sched t0 T k) (.nack (sched t0 T k) 0 .bad mid true :: soloOut t0 T mid k) ∧
    Msg.step (soloState se t0 T mid k) (.rxBad 0 mid) =
      soloDone se (sched t0 T k) (sched t0 T k) (.nack (sched t0 T k) 0 .bad mid true :: soloOut t0 T mid k) := by
  have h1 : rxBad (soloState se t0 T mid k) 0 mid =
      soloDone se (sched t0 T k) (sched t0 T k)
        (.nack (sched t0 T k) 0 .bad mid true :: soloOut t0 T mid k) := by
    simp [rxBad, soloState, soloL, soloNode, removeNode, release, connected, drain, L.getS, L.setS, L.emit,
      soloDone, hest, hdq]
  have h0 : ((soloState se t0 T mid k).getS 0).sockOpen = true := by
    simp [soloState, soloL, L.getS, hopen]
  refine ⟨?_, ?_⟩
  · rw [ack_request_code_is_bad_ack, h1]
    exact afterRx_empty _ rfl
  · simp only [Msg.step, h0, if_true]
    rw [h1]
    exact afterRx_empty _ rfl

open Coap.Msg in
/-- non-vacuity / witness (the driver's replay of `msg 2.0.1.500.4.1 - s:0:c:1:0 t:100 q:0:1:1 t:3000`): CON 1 at 0, an ACK
with code 0.01 for it at 100: one NACK BAD_RESPONSE, queue empty, at 3100 (past the former deadline 2000) nothing is
sent and the wait is 0 -/
example : (Msg.run (Msg.init 0 [{}]) [.submit 0 true 1 0, .setNow 100, .rxBad 0 1, .setNow 3100, .prepare]).out =
      [.wait 3100 0, .nack 100 0 .bad 1 true, .sub (some 1), .tx 0 0 1 0 true] ∧
    rxAckReq (Msg.run (Msg.init 0 [{}]) [.submit 0 true 1 0, .setNow 100]) 0 1 =
      rxBad (Msg.run (Msg.init 0 [{}]) [.submit 0 true 1 0, .setNow 100]) 0 1 ∧
    (rxAckReq (Msg.run (Msg.init 0 [{}]) [.submit 0 true 1 0, .setNow 100]) 0 1).q.nodes = [] := by decide

/-! ## (12) a Confirmable transmitted from inside `coap_io_prepare_io` counts for the wait it returns (round X06, seed C06-12)

`coap_io_prepare_io_lkd` of a context with observable resources calls `coap_check_notify_lkd` FIRST; a Confirmable Observe
notification sent there goes through `coap_send_internal` / `coap_wait_ack` like any `coap_send` (`Msg.notifyAll` =
`submit` per notification), then the due loop runs, then the wait is computed (`Msg.prepareNotify`).  The server side of
the exchange (observer list, dirty flags, which notifications are due) is C11's model `Coap.Observe`; `Model/ObserveWait.lean`
adds the returned wait to it and is what the compiled code is compared with (op `obsw`). -/
open Coap.Msg in
/-- **notify_wait_le_every_deadline** (every state, every list of notifications sent from inside the call, any number of
sessions, with or without NSTART room): the wait `coap_io_prepare_io` returns is the one computed AFTER the notifications
were queued: it never exceeds the time to any pending deadline — those of the notifications just transmitted included —,
is exactly the time to the earliest one (mod 2^32), and is the value reported to the caller. -/
theorem notify_wait_le_every_deadline (l : L) (ns : List Notif) :
    let r := prepareCore (notifyAll l ns)
    (prepareNotify l ns).out.head? = some (.wait r.1.now r.2) ∧
    (prepareNotify l ns).q = r.1.q ∧
    (∀ e ∈ abs r.1.q, r.2 ≤ e.deadline - r.1.now) ∧
    (∀ d, Spec.SQ.earliest (abs r.1.q) = some d → r.2 = (d - r.1.now) % 4294967296) := by
  intro r
  have h := wait_le_every_deadline (notifyAll l ns)
  refine ⟨?_, ?_, h.1, h.2.1⟩
  · simp only [prepareNotify, prepare, L.emit, List.head?_cons]; rfl
  · simp only [prepareNotify, prepare, L.emit]; rfl

open Coap.Msg in
/-- non-vacuity / witness: an idle endpoint (empty send queue), one Confirmable notification (PRNG byte 0: T = 2000) sent
from inside `coap_io_prepare_io` at 5000: it is pending for 7000 and the wait reported is 2000 — not 0 ("nothing
pending"), which is what computing the wait BEFORE `coap_check_notify` (seed C06-12) reports: second conjunct. -/
example : (prepareNotify (Msg.init 5000 [{}]) [⟨0, true, 7, 0⟩]).out =
      [.wait 5000 2000, .sub (some 7), .tx 5000 0 7 0 true] ∧
    (abs (prepareNotify (Msg.init 5000 [{}]) [⟨0, true, 7, 0⟩]).q).map (·.deadline) = [7000] ∧
    (notifyAll (prepare (Msg.init 5000 [{}])) [⟨0, true, 7, 0⟩]).out =
      [.sub (some 7), .tx 5000 0 7 0 true, .wait 5000 0] := by decide

open Coap.Observe Coap.ObsWait in
/-- **obs_wait_le_every_deadline_partial** — the same clause on C11's SERVER model (`Coap.Observe`: observers, dirty flags,
`checkNotify` inside `io`), which is what the compiled code is compared with on `obsw` lines.  For every state in which the
send queue is in deadline order, nothing in it is due and no unreferenced session is past its idle timeout (`NoExpired` — what
the session loop leaves, `io_noExpired`): the wait in ticks is positive ("something is pending" is never reported as 0), and
neither it nor the `unsigned int` milliseconds returned exceed the time to ANY queued deadline; they are equal below 2^32.
`_partial`: the FULL statement is the same conclusion for the state after `io` of EVERY state reached by `Coap.Observe.run`
from `init` without the two queue hypotheses — that the queue of a run is sorted and that `retransmitDue` has fuel for every
due node are invariants of `Coap.Observe` that are not proved here (on the C06 model they are: `queue_abs_invariant`,
`m_due_fires`); on the compiled code both are checked on every `obsw` line (oracle `oracle_obsw` + exact tie of `Q[…]`). -/
theorem obs_wait_le_every_deadline_partial (st : State) (ncli : Nat)
    (hsorted : st.sendq.Pairwise (fun a b => a.due ≤ b.due))
    (hnd : ∀ q ∈ st.sendq, st.now < q.due) (hid : NoExpired st) :
    ∀ q ∈ st.sendq, 0 < tickWait st ncli ∧ tickWait st ncli ≤ q.due - st.now ∧
      waitOf st ncli ≤ q.due - st.now ∧ (tickWait st ncli < 4294967296 → waitOf st ncli = tickWait st ncli) :=
  wait_le_every_deadline_of st ncli hsorted hnd hid

open Coap.Observe Coap.ObsWait in
/-- **obs_io_wait_le_every_deadline_partial**: `coap_io_prepare_io_lkd` itself (`ioWait` = `checkNotify`, due loop, session
loop, wait) from EVERY state: the value returned is computed from the state the call LEAVES — after the notifications of this
call were queued — and, when that queue is in deadline order with nothing due, it is positive and not beyond any deadline in
it, the notification just transmitted included.  (`_partial` for the same two hypotheses.) -/
theorem obs_io_wait_le_every_deadline_partial (st : State) (ncli : Nat)
    (hsorted : (io st).1.sendq.Pairwise (fun a b => a.due ≤ b.due))
    (hnd : ∀ q ∈ (io st).1.sendq, (io st).1.now < q.due) :
    (ioWait st ncli).2.2 = waitOf (io st).1 ncli ∧
    ∀ q ∈ (io st).1.sendq, 0 < tickWait (io st).1 ncli ∧ waitOf (io st).1 ncli ≤ q.due - (io st).1.now ∧
      (tickWait (io st).1 ncli < 4294967296 → waitOf (io st).1 ncli = tickWait (io st).1 ncli) := by
  refine ⟨?_, ?_⟩
  · rcases h : io st with ⟨st1, o⟩
    simp only [ioWait, h]
  · intro q hq
    have h := wait_le_every_deadline_of (io st).1 ncli hsorted hnd (io_noExpired st) q hq
    exact ⟨h.1, h.2.2.1, h.2.2.2⟩

open Coap.Observe in
/-- non-vacuity / witness (`obsw st=30 R=c0 C=1 reg:0:0:… chg:0 adv:500`): a NOTIFY_CON resource, one observer, a change,
then the I/O step at 1500 with an EMPTY send queue: the notification goes out from inside the call, is queued for 3500, the
hypotheses hold and the wait returned is 2000 -/
example : let st := (Coap.Observe.run (init [mkRes 0 true false 0] 30000) [.reg 0 0 1 0 true 1, .chg 0, .adv 500]).1
    st.sendq.map (·.due) = [3500] ∧ st.now = 1500 ∧ waitOf st 1 = 2000 ∧
    st.sendq.Pairwise (fun a b => a.due ≤ b.due) ∧ (∀ q ∈ st.sendq, st.now < q.due) := by decide

/-! ### (12') the two queue invariants of `Coap.Observe` runs, proved: the hypotheses of the `_partial` theorems are gone

`Lemmas/ObserveWaitInv.lean`: every function of C11's server model either leaves the send queue alone, removes nodes (ACK, RST,
cancel by token, session loss, give-up), or inserts in deadline order a node armed strictly after `now` (`coap_wait_ack` of a
Confirmable notification: `now + 2000`; `coap_retransmit`: `now + 2000·2^(cnt+1)`); the due loop `retransmitDue` — fuel
`length + 1` only — pops each due node once and never runs dry (`retransmitDue_spec`: the number of due nodes never grows). -/
open Coap.Observe Coap.ObsWait in
/-- **obs_queue_sorted_nothing_due** (every run of the Observe model — every resource list, idle timeout, event list): the send
queue is in deadline order and nothing in it is due (every event that moves the clock or queues a notification ends with the
I/O step); `obs_queue_sorted_step`: deadline order is kept by every event from EVERY state. -/
theorem obs_queue_sorted_nothing_due (res : List Res) (stTicks : Nat) (evs : List Event) :
    let st := (Coap.Observe.run (init res stTicks) evs).1
    st.sendq.Pairwise (fun a b => a.due ≤ b.due) ∧ ∀ q ∈ st.sendq, st.now < q.due :=
  let h := run_qinv evs _ (qinv_init res stTicks)
  ⟨h.sorted, h.fresh⟩

open Coap.Observe Coap.ObsWait in
theorem obs_queue_sorted_step (st : State) (e : Event) (h : st.sendq.Pairwise (fun a b => a.due ≤ b.due)) :
    (Coap.Observe.step st e).1.sendq.Pairwise (fun a b => a.due ≤ b.due) :=
  step_sorted st e h

open Coap.Observe Coap.ObsWait in
/-- **obs_io_nothing_due** (every state whose queue is in deadline order, whatever is due, however late the call): after
`coap_io_prepare_io_lkd` the queue is in deadline order and NOTHING in it is due — `retransmitDue`'s fuel `length + 1` is enough
for every due node, the ones `coap_check_notify` queued in this very call included. -/
theorem obs_io_nothing_due (st : State) (h : st.sendq.Pairwise (fun a b => a.due ≤ b.due)) :
    (io st).1.sendq.Pairwise (fun a b => a.due ≤ b.due) ∧ (io st).1.now = st.now ∧
    ∀ q ∈ (io st).1.sendq, (io st).1.now < q.due :=
  ⟨((io_spec st).2 h).1, (io_spec st).1.now, ((io_spec st).2 h).2⟩

open Coap.Observe Coap.ObsWait in
/-- **obs_io_wait_le_every_deadline_sorted** (every state whose queue is in deadline order — nothing else assumed: whatever
is due, however late the call): `obs_io_wait_le_every_deadline_partial` with its "nothing due" hypothesis discharged and the
"sorted" one moved from the state the call LEAVES to the state it STARTS from. -/
theorem obs_io_wait_le_every_deadline_sorted (st : State) (ncli : Nat)
    (hsorted : st.sendq.Pairwise (fun a b => a.due ≤ b.due)) :
    (ioWait st ncli).2.2 = waitOf (io st).1 ncli ∧
    ∀ q ∈ (io st).1.sendq, 0 < tickWait (io st).1 ncli ∧ waitOf (io st).1 ncli ≤ q.due - (io st).1.now ∧
      (tickWait (io st).1 ncli < 4294967296 → waitOf (io st).1 ncli = tickWait (io st).1 ncli) :=
  let hio := obs_io_nothing_due st hsorted
  obs_io_wait_le_every_deadline_partial st ncli hio.1 hio.2.2

open Coap.Observe in
/-- non-vacuity of `obs_io_wait_le_every_deadline_sorted` / `obs_io_nothing_due` / `obs_queue_sorted_step`: a state whose queue
is in deadline order but LATE — both entries overdue by 1000 ticks: the call retransmits both (fuel 3 for 2 due nodes), leaves
[8500, 8500] and returns 4000 -/
example : let st0 := (Coap.Observe.run (init [mkRes 0 true false 0, mkRes 1 true false 0] 30000)
      [.reg 0 0 1 0 true 1, .reg 1 1 2 0 true 1, .chg 0, .chg 1, .adv 500]).1
    let st : State := { st0 with now := 4500 }
    st.sendq.map (·.due) = [3500, 3500] ∧ st.sendq.Pairwise (fun a b => a.due ≤ b.due) ∧
    (io st).1.sendq.map (·.due) = [8500, 8500] ∧ waitOf (io st).1 2 = 4000 := by decide

open Coap.Observe Coap.ObsWait in
/-- **obs_io_wait_le_every_deadline** (FULL — `obs_io_wait_le_every_deadline_partial` without its two hypotheses): after EVERY
run of the Observe model (every resource list, idle timeout, event list), let any time `ms` pass and call
`coap_io_prepare_io_lkd` (this is the event `adv ms`; `ms = 0`: the event `io`): the value returned is computed from the state
the call LEAVES; while anything is queued — a notification transmitted from inside this very call included — the wait is
positive ("something is pending" is never reported as 0), never exceeds the time to ANY queued deadline, and the `unsigned int`
milliseconds equal the tick value below 2^32. -/
theorem obs_io_wait_le_every_deadline (res : List Res) (stTicks : Nat) (evs : List Event) (ms ncli : Nat) :
    let st0 := (Coap.Observe.run (init res stTicks) evs).1
    let st : State := { st0 with now := st0.now + ms }
    (Coap.Observe.step st0 (.adv ms)).1 = (io st).1 ∧
    (ioWait st ncli).2.2 = waitOf (io st).1 ncli ∧
    ∀ q ∈ (io st).1.sendq, 0 < tickWait (io st).1 ncli ∧ waitOf (io st).1 ncli ≤ q.due - (io st).1.now ∧
      (tickWait (io st).1 ncli < 4294967296 → waitOf (io st).1 ncli = tickWait (io st).1 ncli) := by
  intro st0 st
  have hs : st.sendq.Pairwise (fun a b => a.due ≤ b.due) := (run_qinv evs _ (qinv_init res stTicks)).sorted
  exact ⟨rfl, obs_io_wait_le_every_deadline_sorted st ncli hs⟩

open Coap.Observe Coap.ObsWait in
/-- **obs_wait_le_every_deadline** (FULL — `obs_wait_le_every_deadline_partial` without hypotheses): the state ANY I/O step
leaves at the end of ANY run satisfies all three hypotheses of the partial theorem (deadline order, nothing due, no idle
session past its timeout): the wait in ticks is positive, neither it nor the `unsigned int` milliseconds exceed the time to
ANY queued deadline, and they are equal below 2^32. -/
theorem obs_wait_le_every_deadline (res : List Res) (stTicks : Nat) (evs : List Event) (ms ncli : Nat) :
    let st0 := (Coap.Observe.run (init res stTicks) evs).1
    let st := (io { st0 with now := st0.now + ms }).1
    ∀ q ∈ st.sendq, 0 < tickWait st ncli ∧ tickWait st ncli ≤ q.due - st.now ∧
      waitOf st ncli ≤ q.due - st.now ∧ (tickWait st ncli < 4294967296 → waitOf st ncli = tickWait st ncli) := by
  intro st0 st
  have hs : ({ st0 with now := st0.now + ms } : State).sendq.Pairwise (fun a b => a.due ≤ b.due) :=
    (run_qinv evs _ (qinv_init res stTicks)).sorted
  have hio := obs_io_nothing_due _ hs
  exact obs_wait_le_every_deadline_partial st ncli hio.1 hio.2.2 (io_noExpired _)

open Coap.Observe in
/-- non-vacuity / reading: two NOTIFY_CON resources, two observers; changes; the I/O step at 1500 queues two notifications
(deadline 3500); at 3500 both are due and retransmitted from inside the call (re-armed for 3500 + 4000 = 7500; the notification for
the later change is held back by NSTART): the queue the call leaves is [7500, 7500] (deadline order, nothing due), the wait 4000 -/
example : let evs : List Event := [.reg 0 0 1 0 true 1, .reg 1 1 2 0 true 1, .chg 0, .chg 1, .adv 500, .chg 0]
    let st0 := (Coap.Observe.run (init [mkRes 0 true false 0, mkRes 1 true false 0] 30000) evs).1
    st0.sendq.map (·.due) = [3500, 3500] ∧ st0.now = 1500 ∧
    (io { st0 with now := st0.now + 2000 }).1.sendq.map (·.due) = [7500, 7500] ∧
    waitOf (io { st0 with now := st0.now + 2000 }).1 2 = 4000 := by decide

/-! ## (13) ICMP events (round R06c; `Model/MsgLayerI.lean`, `Lemmas/MsgLayerI.lean`, `Coap.MsgI`)

An ICMP error read from the socket of a client session (`recv()` → ECONNREFUSED → `coap_session_disconnected_lkd(session,
COAP_NACK_ICMP_ISSUE)`) is REPORTED to the NACK handler and is not an outcome: the message stays queued, keeps its
schedule and later ends with its real outcome. -/

open Coap.Msg Coap.MsgI in
/-- **icmp_report_changes_nothing_but_the_report**: for EVERY state, session and block-layer record, the
COAP_NACK_ICMP_ISSUE path of `coap_session_disconnected_lkd` leaves clock, send queue (nodes, deadlines, retransmission
counters), every session (`con_active`, state, delay queue) exactly as they were; the output list grows by ONE entry, the
report — about the first node of the session in the send queue if there is one (the delay queue is not looked at), else
about the `lg_crcv` record, else with `sent = NULL` and id 0. -/
theorem icmp_report_changes_nothing_but_the_report (l : L) (s : Nat) (lg : Option Nat) :
    (icmpReport l s lg).now = l.now ∧ (icmpReport l s lg).q = l.q ∧ (icmpReport l s lg).sess = l.sess ∧
    ∃ mid known, (icmpReport l s lg).out = Out.nack l.now s .icmp mid known :: l.out ∧
      (∀ n, l.q.nodes.find? (fun n => n.sess = s) = some n → mid = n.mid ∧ known = true) ∧
      (l.q.nodes.find? (fun n => n.sess = s) = none → ∀ m, lg = some m → mid = m ∧ known = true) ∧
      (l.q.nodes.find? (fun n => n.sess = s) = none → lg = none → mid = 0 ∧ known = false) := by
  unfold icmpReport
  cases hf : l.q.nodes.find? (fun n => n.sess = s) with
  | some n => exact ⟨rfl, rfl, rfl, n.mid, true, rfl, by simp, by simp, by simp⟩
  | none =>
    cases lg with
    | some m => exact ⟨rfl, rfl, rfl, m, true, rfl, by simp, by simp, by simp⟩
    | none => exact ⟨rfl, rfl, rfl, 0, false, rfl, by simp, by simp, by simp⟩

open Coap.Msg Coap.MsgI in
/-- the report C08's extended model produces (`Coap.MsgX.icmp`) is this function with no `lg_crcv` record -/
theorem icmp_report_is_x_icmp (l : L) (s : Nat) : icmpReport l s none = Coap.MsgX.icmp l s := by
  unfold icmpReport Coap.MsgX.icmp
  cases l.q.nodes.find? (fun n => n.sess = s) <;> rfl

open Coap.Msg Coap.MsgI in
/-- an ICMP report is not an outcome: the number of outcome NACKs (TOO_MANY_RETRIES / RST about a sent PDU) and of
transmissions of every message is what it was -/
theorem icmp_report_is_not_an_outcome (l : L) (s : Nat) (lg : Option Nat) (s' mid : Nat) :
    Coap.Sim.nackC s' mid (icmpReport l s lg).out = Coap.Sim.nackC s' mid l.out ∧
    Coap.Sim.txC s' mid (icmpReport l s lg).out = Coap.Sim.txC s' mid l.out := by
  have h : (icmpReport l s lg).out.filter keep = l.out.filter keep := congrArg L.out (strip_icmpReport l s lg)
  exact ⟨nackC_congr h s' mid, txC_congr h s' mid⟩

open Coap.Msg Coap.MsgI in
/-- **icmp_run_is_base_run**: for EVERY state and EVERY event list with ICMP events anywhere (whole base alphabet, hold /
disconnect included): the run ends with the clock, the send queue (deadlines, counters), the sessions (`con_active`,
delay queues) of the base model's run over `projI` — the same events with each ICMP event on an open socket replaced by the
I/O step that ends `coap_io_do_epoll` (on a closed socket: by nothing) — and, ICMP reports and logged waits aside, with the
same output list in the same order. -/
theorem icmp_run_is_base_run (l : L) (evs : List EvI) :
    (runI l evs).now = (run l (projI l evs)).now ∧ (runI l evs).q = (run l (projI l evs)).q ∧
    (runI l evs).sess = (run l (projI l evs)).sess ∧
    (runI l evs).out.filter keep = (run l (projI l evs)).out.filter keep :=
  strip_parts (runI_strip evs l l rfl)

/-- scope of the run theorems with ICMP events: the base events are in the C06 alphabet `RunG` (everything but hold /
disconnect), ICMP events may come at any point on any session -/
def RunGI (l : Msg.L) (evs : List Coap.MsgI.EvI) : Prop := Coap.Sched.RunG l (Coap.MsgI.projI l evs)
/-- punctuality (no I/O step / submission / arrival after the clock was moved past a pending deadline), the I/O step of
an ICMP event counted as one -/
def PunctualI (l : Msg.L) (evs : List Coap.MsgI.EvI) : Prop := Coap.Sim.Punctual l (Coap.MsgI.projI l evs)

instance (l : Msg.L) (evs : List Coap.MsgI.EvI) : Decidable (RunGI l evs) := by unfold RunGI; infer_instance
instance (l : Msg.L) (evs : List Coap.MsgI.EvI) : Decidable (PunctualI l evs) := by unfold PunctualI; infer_instance

open Coap.Msg Coap.MsgI Coap.Sim Coap.Sched in
/-- **retransmit_schedule_icmp** (`m_schedule_all` for the alphabet with ICMP events): in every punctual run, every
transmission `tx t s mid k true` belongs to a `coap_send` of (s, mid) with PRNG byte `r`, its first transmission is in the
outputs at `t0`, `t = t0 + (2^k − 1)·T`, `T = coap_calc_timeout(parameters of s, r)`, `k ≤ MAX_RETRANSMIT` — ICMP reports
about the message, however many and whenever, neither shift nor cost nor add a retransmission. -/
theorem retransmit_schedule_icmp (now0 : Nat) (sess : List Sess) (evs : List EvI)
    (hs : ∀ se ∈ sess, SessOk se) (hin : RunGI (init now0 sess) evs) (hpu : PunctualI (init now0 sess) evs) :
    ∀ t s mid k, Out.tx t s mid k true ∈ (runI (init now0 sess) evs).out →
      ∃ t0 r, EvI.base (.submit s true mid r) ∈ evs ∧
        Out.tx t0 s mid 0 true ∈ (runI (init now0 sess) evs).out ∧
        t = sched t0 (calcTimeout (parOf sess s).atI (parOf sess s).atF (parOf sess s).arfI (parOf sess s).arfF r) k ∧
        k ≤ (parOf sess s).maxRtx := by
  intro t s mid k hmem
  have he := (icmp_run_is_base_run (init now0 sess) evs).2.2.2
  obtain ⟨t0, r, hsub, h0, ht, hk⟩ := m_schedule_all now0 sess _ hs hin hpu t s mid k
    ((mem_keep_iff he _ rfl).1 hmem)
  exact ⟨t0, r, projI_mem_base _ _ _ (by intro h; cases h) hsub, (mem_keep_iff he _ rfl).2 h0, ht, hk⟩

open Coap.Msg Coap.MsgI Coap.Sim Coap.Sched in
/-- **giveup_after_all_retransmissions_icmp**: with ICMP events too, TOO_MANY_RETRIES for (s, mid) is only reported after
all `MAX_RETRANSMIT + 1` transmissions were made at their slots, and exactly one slot later. -/
theorem giveup_after_all_retransmissions_icmp (now0 : Nat) (sess : List Sess) (evs : List EvI)
    (hs : ∀ se ∈ sess, SessOk se) (hin : RunGI (init now0 sess) evs) (hpu : PunctualI (init now0 sess) evs) :
    ∀ t s mid, Out.nack t s .retries mid true ∈ (runI (init now0 sess) evs).out →
      ∃ t0 r, EvI.base (.submit s true mid r) ∈ evs ∧
        (∀ j, j ≤ (parOf sess s).maxRtx →
          Out.tx (sched t0 (calcTimeout (parOf sess s).atI (parOf sess s).atF (parOf sess s).arfI
            (parOf sess s).arfF r) j) s mid j true ∈ (runI (init now0 sess) evs).out) ∧
        t = sched t0 (calcTimeout (parOf sess s).atI (parOf sess s).atF (parOf sess s).arfI (parOf sess s).arfF r)
          ((parOf sess s).maxRtx + 1) := by
  intro t s mid hmem
  have he := (icmp_run_is_base_run (init now0 sess) evs).2.2.2
  obtain ⟨t0, r, hsub, hall, ht⟩ := m_giveup_after_all_retransmissions now0 sess _ hs hin hpu t s mid
    ((mem_keep_iff he _ rfl).1 hmem)
  exact ⟨t0, r, projI_mem_base _ _ _ (by intro h; cases h) hsub, fun j hj => (mem_keep_iff he _ rfl).2 (hall j hj), ht⟩

open Coap.Msg Coap.MsgI Coap.Sim Coap.Sched in
/-- **single_outcome_icmp** (`m_single_outcome` for the alphabet with ICMP events, every run, punctual or late; only
TERMINAL reasons are counted — `nackC` counts TOO_MANY_RETRIES / RST about a sent PDU, an ICMP_ISSUE report is none):
accepted `coap_send`s of the CON (s, mid) = outcome NACKs + silent completions (`remC`: ACK, invalid-code ACK, response
with its token) + nodes in the send queue + nodes in the delay queue.  A message reported by any number of ICMP errors is
still exactly one of: pending, waiting for NSTART, concluded ONCE. -/
theorem single_outcome_icmp (now0 : Nat) (sess : List Sess) (evs : List EvI)
    (hs : ∀ se ∈ sess, SessOk se) (hin : RunGI (init now0 sess) evs) (s mid : Nat) :
    let l := runI (init now0 sess) evs
    accC s mid (init now0 sess) (projI (init now0 sess) evs) =
      nackC s mid l.out + remC s mid (init now0 sess) (projI (init now0 sess) evs) + pendC s mid l.q.nodes +
        midC mid (l.getS s).delayq := by
  intro l
  obtain ⟨_, hq, hse, ho⟩ := icmp_run_is_base_run (init now0 sess) evs
  have h := m_single_outcome now0 sess _ hs hin s mid
  simp only [l, L.getS, hq, hse, nackC_congr ho s mid]
  simpa only [L.getS] using h

open Coap.Msg Coap.MsgI Coap.Sim Coap.Sched in
/-- **at_most_max_retransmissions_icmp**: with ICMP events too, transmissions of (s, mid) + remaining budget of its queued /
delayed nodes ≤ `(MAX_RETRANSMIT + 1)` · accepted sends. -/
theorem at_most_max_retransmissions_icmp (now0 : Nat) (sess : List Sess) (evs : List EvI)
    (hs : ∀ se ∈ sess, SessOk se) (hin : RunGI (init now0 sess) evs) (s mid : Nat) :
    let l := runI (init now0 sess) evs
    txC s mid l.out + budC s mid (parOf sess s).maxRtx l.q.nodes +
        ((parOf sess s).maxRtx + 1) * midC mid (l.getS s).delayq ≤
      ((parOf sess s).maxRtx + 1) * accC s mid (init now0 sess) (projI (init now0 sess) evs) := by
  intro l
  obtain ⟨_, hq, hse, ho⟩ := icmp_run_is_base_run (init now0 sess) evs
  have h := m_at_most_max_retransmissions now0 sess _ hs hin s mid
  simp only [l, L.getS, hq, hse, txC_congr ho s mid]
  simpa only [L.getS] using h

open Coap.Msg Coap.MsgI Coap.Sim Coap.Sched in
/-- **refines_timer_icmp** (S's `retransmit_schedule` / `single_outcome` reach runs with ICMP events through the
simulation of (6')): the run with ICMP events and the S run over the translation of its projection agree on the pending
list (deadline, session, mid, T, counter) AS LISTS, on the Confirmable transmissions AS LISTS and on the outcome NACKs AS
LISTS — an ICMP report is invisible to S. -/
theorem refines_timer_icmp (now0 : Nat) (sess : List Sess) (evs : List EvI)
    (hs : ∀ se ∈ sess, SessOk se) (hin : RunGI (init now0 sess) evs) :
    let l := runI (init now0 sess) evs
    let ts := Timer.run (Timer.init now0) (SimF.trRun (init now0 sess) (projI (init now0 sess) evs))
    ts.now ≤ l.now ∧
    ts.pend.map er = absP (fun s => (parOf sess s).maxRtx) l.q.base l.q.nodes ∧
    SimF.txsS ts.outs = SimF.txsM l.out ∧ SimF.nksS ts.outs = SimF.nksM l.out := by
  intro l ts
  obtain ⟨hn, hq, _, ho⟩ := icmp_run_is_base_run (init now0 sess) evs
  have h := m_refines_timer now0 sess _ hs hin
  simp only [l, ts, hn, hq, txsM_congr ho, nksM_congr ho]
  exact h

open Coap.Msg Coap.MsgI in
/-- **con_active_eq_inflight_icmp** (C08 (1)/(2) for the alphabet with ICMP events, whole base alphabet incl. hold /
disconnect): after every event list `con_active` of every session is exactly the number of its nodes in the send queue,
and at most NSTART — an ICMP report neither frees nor takes a slot. -/
theorem con_active_eq_inflight_icmp (ss : List Sess) (t0 : Nat) (evs : List EvI) (s : Nat)
    (hss : ∀ se ∈ ss, se.conActive = 0 ∧ se.delayq = [] ∧ se.nstart ≤ 255) (hs : s < ss.length) :
    ((runI (init t0 ss) evs).getS s).conActive = inflight (runI (init t0 ss) evs) s ∧
    inflight (runI (init t0 ss) evs) s ≤ ((runI (init t0 ss) evs).getS s).nstart := by
  have h := wf_runI evs _ (wf_init t0 ss hss)
  have h2 := h.2 s (by rw [runI_len]; exact hs)
  exact ⟨h2.1, h2.2.1⟩

open Coap.Msg Coap.MsgI in
/-- **held_fifo_exactly_once_icmp** (C08 (4) for the alphabet with ICMP events): along every run the delay queue of every
session changes only by `DqStep`s (append at the end when held; the head leaves at the moment it is transmitted, once; cleared
with one NACK per held Confirmable by a session failure) — an ICMP event itself never touches it: held messages stay held,
in order. -/
theorem held_fifo_exactly_once_icmp (l : L) (evs : List EvI) (s : Nat) (hs : s < l.sess.length) :
    Star (DqStep s) l (runI l evs) ∧
    ∀ s' lg, ((icmpReport l s' lg).getS s).delayq = (l.getS s).delayq := by
  refine ⟨runI_star evs l s hs, fun s' lg => ?_⟩
  rw [icmpReport_eq]; rfl

/-- witness run with ICMP events: message 1 (T = 2000, MAX_RETRANSMIT 1), message 2 held by NSTART; ICMP errors while 1 is
queued (at 500, and at 2000 where the I/O step of the event itself retransmits it), the give-up at 6000 lets 2 in; an ICMP
error about 2; ACK for 2; an ICMP error with nothing queued -/
def ievs : List Coap.MsgI.EvI :=
  [.base (.submit 0 true 1 0), .base (.submit 0 true 2 0), .base (.setNow 500), .icmp 0, .base (.setNow 2000), .icmp 0,
   .base (.setNow 6000), .base .prepare, .icmp 0, .base (.rxAck 0 2), .icmp 0]

open Coap.Msg Coap.MsgI Coap.Sim Coap.Sched in
/-- non-vacuity of section (13): `ievs` is in scope and punctual; the reports name message 1 twice, then 2, then nothing
(`sent = NULL`); message 1 is transmitted at 0 and 2000 and given up at 6000 — its schedule — and message 2 is let in then;
one accepted send = one outcome NACK for message 1, one silent completion for message 2 -/
example : (∀ se ∈ [({ maxRtx := 1 } : Sess)], SessOk se) ∧ RunGI (init 0 [{ maxRtx := 1 }]) ievs ∧
    PunctualI (init 0 [{ maxRtx := 1 }]) ievs ∧
    (runI (init 0 [{ maxRtx := 1 }]) ievs).out.filter (fun o => match o with | .tx .. => true | .nack .. => true | _ => false) =
      [.nack 6000 0 .icmp 0 false, .nack 6000 0 .icmp 2 true, .nack 6000 0 .retries 1 true, .tx 6000 0 2 0 true,
       .tx 2000 0 1 1 true, .nack 2000 0 .icmp 1 true, .nack 500 0 .icmp 1 true, .tx 0 0 1 0 true] ∧
    accC 0 1 (init 0 [{ maxRtx := 1 }]) (projI (init 0 [{ maxRtx := 1 }]) ievs) = 1 ∧
    nackC 0 1 (runI (init 0 [{ maxRtx := 1 }]) ievs).out = 1 ∧
    remC 0 2 (init 0 [{ maxRtx := 1 }]) (projI (init 0 [{ maxRtx := 1 }]) ievs) = 1 ∧
    (icmpReport (init 0 [{}]) 0 (some 7)).out = [.nack 0 0 .icmp 7 true] := by decide

end Coap.C06
