import CoapVerif.Model.AllocOracle
import CoapVerif.Generated.Consts2
/-
C18 / T1 (workstream T1X) — constants of the allocation-oracle model that come from the current tree.
-/
namespace Coap.C18
open Coap Coap.Generated

/-- `coap_session_max_pdu_size_lkd` of a UDP session: COAP_DEFAULT_MTU - COAP_PDU_MAX_UDP_HEADER_SIZE -/
theorem sessMaxPdu_matches_code :
    AllocOracle.SESS_MAX_PDU = C2.COAP_DEFAULT_MTU - C2.COAP_PDU_MAX_UDP_HEADER_SIZE := by decide
/-- the observer list is unbounded in this build -/
theorem maxSubscriber_matches_code : C2.COAP_RESOURCE_MAX_SUBSCRIBER = 0 := by decide

end Coap.C18
