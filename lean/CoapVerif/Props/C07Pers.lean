import CoapVerif.Props.C07
/-
C07 — why `exactly_once_closed_loop_partial` excludes the personalities `dn` and `da`: for them its conclusion
`nRsp + nNack ≤ 1` is FALSE in M under its own hypotheses (`RunOk`, `SysNoLate`, `SQuiet` with de-duplication), by
concrete runs of the closed loop.  So the theorem cannot be extended to them verbatim; what does hold for them is
stated per datagram / per run (`non_delivered_once_per_datagram`, `run_duplicates_not_redelivered`,
`response_never_delivered_twice_in_a_row`), see design/C07.md.
-/
namespace Coap.C07
open Coap.Exch

def wDn : Server := { pers := .dn, dedup := true, D := 300, T := 2500, txMid := 5000 }
def wDa : Server := { pers := .da, dedup := true, D := 300, T := 2500, txMid := 5000 }

/-- `dn+` (separate Non-confirmable response): the network duplicates the response, both copies arrive within
    ACK_TIMEOUT, no NACK anywhere — every hypothesis of `exactly_once_closed_loop_partial` except `pers ≠ dn` holds,
    and the handler is called TWICE: a NON response is delivered once per datagram received (D3, the property's last
    clause), so "at most one conclusion" is not a theorem for this personality -/
theorem dn_duplicate_delivered_twice_witness :
    let r := respFor wDn wReq
    let es : List SysEv := [.toS 1000 1100 wReq, .toC 1100 1200 (emptyAck 1001) true, .sApp 1400,
                            .toC 1400 1500 r true, .toC 1400 1600 r true]
    SReq wReq ∧ SQuiet wDn wReq ∧ fresh {} r ∧
    (Sys.start {} wDn 1000 wReq 2000).RunOk ackTimeout es ∧ SysNoLate r (Sys.start {} wDn 1000 wReq 2000) es ∧
    nRsp ((Sys.start {} wDn 1000 wReq 2000).run es).2 = 2 ∧ nNack ((Sys.start {} wDn 1000 wReq 2000).run es).2 = 0 := by
  refine ⟨⟨by decide, by decide⟩, ⟨by decide, by decide, by decide, by decide, by decide⟩,
    ⟨fun _ => by decide, fun _ => by decide⟩, by decide, by decide, by decide, by decide⟩

/-- `da+` (the application answers with an ACK-typed message carrying a message id of its own — not a response style of
    RFC 7252, observation O5): the Empty ACK is lost, the ACK-typed response is delivered by token but, being an ACK
    with another message id, neither matches the request on the send queue nor cancels it by token; every
    retransmission is lost: response handler AND NACK handler, with no copy of the response after the NACK
    (`SysNoLate` holds) — "never both" is not a theorem for this personality -/
theorem da_response_then_nack_witness :
    let r := respFor wDa wReq
    let es : List SysEv := [.toS 1000 1100 wReq, .sApp 1400, .toC 1400 1500 r true,
                            .cTick 3000, .cTick 7000, .cTick 15000, .cTick 31000, .cTick 63000]
    SReq wReq ∧ SQuiet wDa wReq ∧ fresh {} r ∧
    (Sys.start {} wDa 1000 wReq 2000).RunOk ackTimeout es ∧ SysNoLate r (Sys.start {} wDa 1000 wReq 2000) es ∧
    nRsp ((Sys.start {} wDa 1000 wReq 2000).run es).2 = 1 ∧ nNack ((Sys.start {} wDa 1000 wReq 2000).run es).2 = 1 := by
  refine ⟨⟨by decide, by decide⟩, ⟨by decide, by decide, by decide, by decide, by decide⟩,
    ⟨fun _ => by decide, fun _ => by decide⟩, by decide, by decide, by decide, by decide⟩

end Coap.C07
