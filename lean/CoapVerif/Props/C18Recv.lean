import CoapVerif.Lemmas.AllocRecvSim
import CoapVerif.Props.C05
import CoapVerif.Props.C18
/-
C18 — the receive path of a reliable session (coap_read_session, stream branch; Model/AllocRecv.lean): ownership of the receive
PDU under EVERY allocation oracle, EVERY dispatch oracle (which coap_dispatch calls disconnect the session), EVERY byte stream
and EVERY cut of it into read events.  `Own o L h` (Lemmas/AllocBlock.lean): the heap has seen no invalid free, and its live
objects are exactly the pairwise distinct objects `o` plus the objects `L` that were live before.
-/
namespace Coap.C18
open Coap Coap.AllocOracle Coap.AllocBlock Coap.AllocRecv Coap.M.Stream

/-- AT MOST ONE PARTIAL PDU PER SESSION, at any time of any script: what is live beyond `L` is exactly the current session's
partial PDU — no object (`ppdu = none`) or the two objects (buffer, header) of ONE PDU — and no release so far was invalid. -/
theorem recv_at_most_one_partial (maxRcv : Nat) (L : List Nat) (evs : List REv) (st : RState) (hI : SInv L st) :
    match (recvRun maxRcv st evs).2.sess with
    | some s => Own (owned s) L (recvRun maxRcv st evs).2.w.h ∧ (owned s).length ≤ 2 ∧ (s.ppdu = none → owned s = [])
    | none => Own [] L (recvRun maxRcv st evs).2.w.h := by
  have h := recvRun_inv maxRcv evs st hI
  unfold SInv at h
  cases hs : (recvRun maxRcv st evs).2.sess with
  | none => rw [hs] at h; exact h
  | some s => rw [hs] at h; exact ⟨h, owned_length_le s, owned_none⟩

/-- EVERY PDU ALLOCATED IS RELEASED EXACTLY ONCE: after ANY script (any streams, any cuts, peers going away, sessions replaced)
under ANY oracle and ANY dispatch oracle, once the last session is freed NOTHING the reader allocated is live (`live` is
exactly what was live before) and no release was a second release or a release of something not allocated (`ok`) — so every
object allocated on the way (serials are fresh: never one of `L`) was released once and only once: dispatched-and-deleted,
deleted by coap_session_disconnected_lkd (failed growth, failed allocation of the next PDU, peer gone, oversized message),
or deleted with the session. -/
theorem recv_pdu_released_once (maxRcv : Nat) (L : List Nat) (evs : List REv) (st : RState) (hI : SInv L st) :
    let fin := recvCleanup (recvRun maxRcv st evs).2
    fin.h.ok = true ∧ fin.h.live.Nodup ∧ (∀ i, i ∈ fin.h.live ↔ i ∈ L) := by
  have h := recvCleanup_own (recvRun_inv maxRcv evs st hI)
  exact ⟨h.ok, h.nodup, fun i => by rw [h.mem i]; simp⟩

/-- the same from a fresh context: nothing at all is live at the end, whatever the oracle -/
theorem recv_script_clean (maxRcv : Nat) (orc : Oracle) (dcs : List Bool) (evs : List REv) :
    let fin := recvCleanup (recvRun maxRcv { w := { h := { orc := orc }, dcs := dcs } } evs).2
    fin.h.ok = true ∧ fin.h.live = [] := by
  have hI : SInv [] ({ w := { h := { orc := orc }, dcs := dcs } } : RState) := by
    unfold SInv; simp only
    exact fresh_inv (Own.init_empty orc)
  have h := recv_pdu_released_once maxRcv [] evs _ hI
  refine ⟨h.1, ?_⟩
  apply List.eq_nil_iff_forall_not_mem.mpr
  intro i hi
  have := (h.2.2 i).mp hi
  cases this

/-- A FAILED ALLOCATION CLOSES THE SESSION AND LEAVES NOTHING OWNED: a coap_read_session call that takes the failure exit — the
receive PDU or its buffer cannot be allocated, the buffer cannot be grown to the announced size (oracle or size limit), the
message announces more than COAP_DEFAULT_MAX_PDU_RX_SIZE — ends with the session closed, without partial PDU, and the live
objects exactly those that were live before the session allocated anything (the PDU whose growth failed was ALREADY the
session's and is released by coap_session_disconnected_lkd: seeded C18-17 falsifies exactly this). -/
theorem recv_no_leak_on_failure (maxRcv : Nat) (L : List Nat) (fuel : Nat) (s : RSess) (w : RW) (avail : Bytes)
    (hI : RInv L s w) (hf : (call maxRcv fuel s w avail).1 = .fail) :
    (call maxRcv fuel s w avail).2.1.up = false ∧ (call maxRcv fuel s w avail).2.1.ppdu = none ∧
    (call maxRcv fuel s w avail).2.2.h.ok = true ∧ (∀ i, i ∈ (call maxRcv fuel s w avail).2.2.h.live ↔ i ∈ L) := by
  obtain ⟨h1, h2, h3⟩ := (call_inv maxRcv L fuel s w avail hI).2 hf
  exact ⟨h1, h2, h3.ok, fun i => by rw [h3.mem i]; simp⟩

/-- … and an allocation that fails once the header is complete IS that exit: coap_pdu_init NULL, or the growth refused -/
theorem recv_alloc_failure_is_failure_exit (maxRcv : Nat) (s : RSess) (w : RW) (rh : Bytes) (hdrSize hl size : Nat)
    (hsz : M.parseSizeTcp rh = R.ok size) (hm : ¬ size > M.Stream.maxRx)
    (hfail : (AllocOracle.pduInit maxRcv w.h).1 = none ∨
             ∃ p0 h1, AllocOracle.pduInit maxRcv w.h = (some p0, h1) ∧ (growTo p0 size h1).1 = 0) :
    (headerDone maxRcv s w rh hdrSize hl).1 = .fail := by
  unfold headerDone
  rw [hsz]; simp only
  rw [if_neg hm]
  rcases hfail with hn | ⟨p0, h1, hq, hg⟩
  · rcases hq : AllocOracle.pduInit maxRcv w.h with ⟨_ | p0, h1⟩
    · rfl
    · rw [hq] at hn; cases hn
  · rw [hq]; simp only
    rw [if_pos hg]

/-- AFTER THE FAILURE A NEW SESSION ON THE SAME ENDPOINT STARTS CLEAN: whatever happened before (any script, any oracle), the
session accepted next is in the state a session of a fresh endpoint is in (up, no header bytes, no partial PDU), the old
session's objects are gone and the ledger is sound — its behaviour depends on the past only through the allocator. -/
theorem recv_new_session_starts_clean (maxRcv : Nat) (L : List Nat) (evs : List REv) (st : RState) (hI : SInv L st) :
    let st' := (recvStep maxRcv (recvRun maxRcv st evs).2 .newSess).2
    st'.sess = some {} ∧ Own [] L st'.w.h := by
  have h := recvStep_inv maxRcv .newSess (recvRun_inv maxRcv evs st hI)
  have hs : (recvStep maxRcv (recvRun maxRcv st evs).2 .newSess).2.sess = some {} := by
    unfold recvStep
    cases (recvRun maxRcv st evs).2.sess <;> rfl
  refine ⟨hs, ?_⟩
  unfold SInv at h
  rw [hs] at h
  unfold RInv owned at h
  exact h


/-! ## served: with memory available the skeleton IS C05's reader (simulation, Lemmas/AllocRecvSim.lean) -/

/-- WHAT REACHES coap_dispatch IS WHAT THE READER DELIVERS: a session fed ANY byte stream in ANY cut into read events, with
memory available (`Avail`: the oracle is exhausted, every request is granted; no coap_dispatch disconnects the session),
hands to coap_dispatch (ghost `msgs`, one `dsp` record per call) exactly the messages C05's reader `Stream.feed` delivers,
in the same order, each exactly once; the session is closed exactly when the reader closes it. -/
theorem recv_dispatches_what_reader_delivers (m : Nat) (hc : Cap m) (chunks : List Bytes) (w : RW) (ha : Avail w) :
    let r := (recvRun m { sess := some {}, w := w } (chunks.map .chunk)).2
    r.w.msgs = w.msgs ++ (M.Stream.feed m M.Stream.St.init chunks).1 ∧
    r.w.dsp.length = w.dsp.length + (M.Stream.feed m M.Stream.St.init chunks).1.length ∧
    Avail r.w ∧
    ∃ s', r.sess = some s' ∧ (s'.up = false ↔ (M.Stream.feed m M.Stream.St.init chunks).2 = .closed) := by
  have h := run_sim m chunks {} w ha rfl (C05.reader_no_oob m hc chunks)
  have hno := C05.reader_no_oob m hc chunks
  have e : toSt {} = M.Stream.St.init := rfl
  rw [e] at h
  obtain ⟨h1, h2, h3, s', h4, h5⟩ := h
  refine ⟨h2, h3, h1, s', h4, ?_⟩
  generalize (M.Stream.feed m M.Stream.St.init chunks).2 = o at h5 hno
  cases o with
  | cont st => simp only at h5; simp [h5.1]
  | closed => simp only at h5; simp [h5]
  | oob => exact absurd rfl hno

/-- … and these are the messages the SPECIFICATION finds in the concatenated bytes (C05 `reader_eq_spec`): the cut plays no
role, every well-formed frame completely received is dispatched (C05 `spec_delivers_complete_frame`) once, in order. -/
theorem recv_dispatches_spec_frames (m : Nat) (hc : Cap m) (chunks : List Bytes) (w : RW) (ha : Avail w) :
    (recvRun m { sess := some {}, w := w } (chunks.map .chunk)).2.w.msgs =
      w.msgs ++ (Spec.Stream.framesOf m chunks.flatten).1 := by
  have h := (recv_dispatches_what_reader_delivers m hc chunks w ha).1
  rw [C05.reader_eq_spec m hc] at h
  rw [h]
  generalize Spec.Stream.framesOf m chunks.flatten = q
  rfl

theorem sessionFree_avail (s : RSess) (w : RW) (ha : Avail w) :
    Avail (sessionFree s w) ∧ (sessionFree s w).msgs = w.msgs ∧ (sessionFree s w).dsp = w.dsp := by
  unfold sessionFree Avail
  cases s.ppdu <;> exact ⟨⟨by simp only [pduDelete_orc]; exact ha.1, ha.2⟩, rfl, rfl⟩

theorem newSess_spec (m : Nat) (st0 : RState) (ha : Avail st0.w) :
    ∃ w', (recvStep m st0 .newSess).2 = { sess := some {}, w := w' } ∧ Avail w' ∧ w'.msgs = st0.w.msgs ∧ w'.dsp = st0.w.dsp := by
  cases st0 with
  | mk sess w =>
    cases sess with
    | none => exact ⟨w, rfl, ha, rfl, rfl⟩
    | some s => exact ⟨sessionFree s w, rfl, sessionFree_avail s w ha⟩

/-- AFTER A FAILURE THE NEXT SESSION IS SERVED: whatever happened before — ANY script under ANY oracle and dispatch oracle:
allocations that failed, sessions closed by them, peers gone — once memory is available again (the oracle has no refusal
left) a NEW session accepted on the endpoint and fed ANY byte stream in ANY cut gets every message of the stream dispatched:
the messages dispatched from then on are exactly those the specification finds in the bytes, in order, each once. -/
theorem recv_served_after_failure (m : Nat) (hc : Cap m) (evs : List REv) (st : RState) (chunks : List Bytes)
    (hmem : Avail (recvRun m st evs).2.w) :
    let st1 := (recvStep m (recvRun m st evs).2 .newSess).2
    let r := (recvRun m st1 (chunks.map .chunk)).2
    r.w.msgs = (recvRun m st evs).2.w.msgs ++ (Spec.Stream.framesOf m chunks.flatten).1 ∧
    r.w.dsp.length = (recvRun m st evs).2.w.dsp.length + (Spec.Stream.framesOf m chunks.flatten).1.length := by
  obtain ⟨w', e, hav, hm, hd⟩ := newSess_spec m (recvRun m st evs).2 hmem
  simp only
  rw [e]
  have h1 := recv_dispatches_spec_frames m hc chunks w' hav
  have h2 := (recv_dispatches_what_reader_delivers m hc chunks w' hav).2.1
  rw [C05.reader_eq_spec m hc] at h2
  refine ⟨by rw [h1, hm], ?_⟩
  rw [h2, hd]
  generalize Spec.Stream.framesOf m chunks.flatten = q
  rfl

/-! ## the ledger of a receive script is the monitor's replay of its trace -/

theorem replays_disconnected (s : RSess) (w : RW) (hr : w.h.Replays) : (disconnected s w).2.h.Replays := by
  unfold disconnected
  cases s.ppdu with
  | none => exact hr
  | some p => exact replays_pduDelete p.pdu _ hr

theorem replays_sessionFree (s : RSess) (w : RW) (hr : w.h.Replays) : (sessionFree s w).h.Replays := by
  unfold sessionFree
  cases s.ppdu with
  | none => exact hr
  | some p => exact replays_pduDelete p.pdu _ hr

theorem replays_dispatchDelete (parsed : Option Msg) (p : OPdu) (s : RSess) (w : RW) (hr : w.h.Replays) :
    (dispatchDelete parsed p s w).2.h.Replays := by
  unfold dispatchDelete
  cases parsed with
  | none => exact replays_pduDelete p _ hr
  | some m =>
    simp only
    by_cases hd : dcHead w.dcs = true
    · rw [if_pos hd]
      exact replays_pduDelete p _ (replays_disconnected s _ hr)
    · rw [if_neg hd]
      exact replays_pduDelete p _ hr

theorem replays_headerDone (maxRcv : Nat) (s : RSess) (w : RW) (rh : Bytes) (hdrSize hl : Nat) (hr : w.h.Replays) :
    (headerDone maxRcv s w rh hdrSize hl).2.2.h.Replays := by
  unfold headerDone
  cases M.parseSizeTcp rh with
  | rej => exact hr
  | oob => exact hr
  | ok size =>
    simp only
    split
    · exact hr
    · have hP := replays_pduInit maxRcv w.h hr
      rcases hq : AllocOracle.pduInit maxRcv w.h with ⟨_ | p0, h1⟩
      · rw [hq] at hP; exact hP
      · rw [hq] at hP
        simp only at hP ⊢
        have hG : (growTo p0 size h1).2.2.Replays := by
          unfold growTo
          split
          · exact replays_resize p0 size h1 hP
          · exact hP
        split
        · exact hG
        · split
          · exact replays_dispatchDelete _ _ _ _ hG
          · exact hG

theorem replays_loop (maxRcv : Nat) : ∀ (fuel : Nat) (s : RSess) (w : RW) (bs : Bytes), w.h.Replays →
    (AllocRecv.loop maxRcv fuel s w bs).2.2.h.Replays := by
  intro fuel
  induction fuel with
  | zero => intro s w bs hr; exact hr
  | succ fuel ih =>
    intro s w bs hr
    unfold AllocRecv.loop
    split
    · exact hr
    · cases s.ppdu with
      | some p =>
        simp only
        split
        · exact ih _ _ _ (replays_dispatchDelete _ _ _ _ hr)
        · exact ih _ _ _ hr
      | none =>
        simp only
        split
        · cases M.rd s.rh 0 with
          | rej => exact hr
          | oob => exact hr
          | ok b0 =>
            simp only
            split
            · exact hr
            · split
              · have hH := replays_headerDone maxRcv s w
                    (List.take s.partialRead s.rh ++ List.take (min (M.headerSize Proto.tcp b0 + tokExtOf b0 - s.partialRead) bs.length) bs)
                    (M.headerSize Proto.tcp b0) (M.headerSize Proto.tcp b0 + tokExtOf b0) hr
                split
                · exact ih _ _ _ hH
                · exact hH
              · exact ih _ _ _ hr
        · cases bs with
          | nil => exact hr
          | cons b r =>
            simp only
            split
            · exact hr
            · exact ih _ _ _ hr

theorem replays_call (maxRcv : Nat) : ∀ (fuel : Nat) (s : RSess) (w : RW) (avail : Bytes), w.h.Replays →
    (AllocRecv.call maxRcv fuel s w avail).2.2.h.Replays := by
  intro fuel
  induction fuel with
  | zero => intro s w avail hr; exact hr
  | succ fuel ih =>
    intro s w avail hr
    unfold AllocRecv.call
    have hL := replays_loop maxRcv ((List.take M.Stream.rxBuf avail).length + 1) s w (List.take M.Stream.rxBuf avail) hr
    simp only
    cases (AllocRecv.loop maxRcv ((List.take M.Stream.rxBuf avail).length + 1) s w (List.take M.Stream.rxBuf avail)).1 with
    | ok =>
      simp only
      split
      · exact ih _ _ _ hL
      · exact hL
    | fail => exact replays_disconnected _ _ hL
    | oob => exact hL

/-- THE LEDGER OF EVERY RECEIVE SCRIPT IS THE MONITOR'S REPLAY OF ITS TRACE (the driver's `ledger=ok` per run, as a theorem):
after any script — any oracle, any dispatch oracle, any streams and cuts — and after the tear-down, the model's `live` / `ok`
bookkeeping is what the verified monitor `Sessions.runLedger` computes from the model's alloc/free trace. -/
theorem recv_ledger_replays (maxRcv : Nat) : ∀ (evs : List REv) (st : RState), st.w.h.Replays →
    (recvRun maxRcv st evs).2.w.h.Replays ∧ (recvCleanup (recvRun maxRcv st evs).2).h.Replays := by
  have hclean : ∀ st : RState, st.w.h.Replays → (recvCleanup st).h.Replays := by
    intro st hr
    unfold recvCleanup
    cases st.sess with
    | none => exact hr
    | some s => exact replays_sessionFree s _ hr
  have hstep : ∀ (st : RState) (e : REv), st.w.h.Replays → (recvStep maxRcv st e).2.w.h.Replays := by
    intro st e hr
    unfold recvStep
    cases e with
    | chunk bs =>
      cases st.sess with
      | none => exact hr
      | some s =>
        simp only
        split
        · exact replays_call maxRcv _ s st.w bs hr
        · exact hr
    | eof =>
      cases st.sess with
      | none => exact hr
      | some s =>
        simp only
        split
        · exact replays_disconnected s _ hr
        · exact hr
    | newSess =>
      cases st.sess with
      | none => exact hr
      | some s => exact replays_sessionFree s _ hr
  have hrun : ∀ (evs : List REv) (st : RState), st.w.h.Replays → (recvRun maxRcv st evs).2.w.h.Replays := by
    intro evs
    induction evs with
    | nil => intro st hr; exact hr
    | cons e es ih => intro st hr; exact ih _ (hstep st e hr)
  intro evs st hr
  exact ⟨hrun evs st hr, hclean _ (hrun evs st hr)⟩

/-! ## witnesses (`decide`): hypotheses are satisfiable, and the new session IS served -/

/-- PUT-like message of 300 bytes after the header (Len nibble 14, extended length 31): needs the growth (request 3) -/
def bigMsg : Bytes := [0xE2, 0x00, 0x1F, 0x01, 0xAA, 0xBB, 0xFF] ++ List.replicate 297 0x55
/-- a small message: Len 2, no token, payload marker + 1 byte -/
def smallMsg : Bytes := [0x20, 0x01, 0xFF, 0x07]

-- the invariant's hypothesis on a non-trivial state: a session in the middle of a message, other objects live
example : SInv [7] { sess := some { partialRead := 4, ppdu := some ⟨⟨9, 8, 1152, 256, [], 0, 0, none⟩, 2, 6, []⟩ },
                     w := { h := { orc := [false], next := 10, live := [8, 9, 7] } } } := by
  unfold SInv RInv owned; simp only
  exact { ok := rfl, nodup := by decide, fresh := by decide, onodup := by decide, mem := by intro i; simp [or_assoc], disj := by decide }

-- request 3 (the growth of the receive PDU) fails: the call takes the failure exit, session closed, nothing live;
-- the NEW session then receives a small message in two reads: dispatched (PDU 3) and released
example :
    let w0 : RW := { h := { orc := oracleFailing 3 0 3 } }
    let r := recvRun 8388858 { w := w0 } [.chunk bigMsg, .newSess, .chunk (smallMsg.take 1), .chunk (smallMsg.drop 1)]
    r.1 = ["c", "o", "o", "o"] ∧ r.2.w.h.live = [] ∧ r.2.w.h.ok = true ∧ r.2.w.h.reqs = 5 ∧ r.2.w.dsp = [(3, 6)] ∧
    r.2.sess = some {} := by decide +kernel

-- the hypotheses of recv_alloc_failure_is_failure_exit / recv_no_leak_on_failure on that instance
example : M.parseSizeTcp (bigMsg.take 3) = R.ok 302 := by decide
example : (call 8388858 400 {} { h := { orc := oracleFailing 3 0 3 } } bigMsg).1 = .fail := by decide +kernel

-- coap_dispatch disconnects the session (dispatch oracle [true]) in the middle of a read: the loop goes on, the PDU of the
-- next message belongs to the closed session and is released with it
example :
    let w0 : RW := { h := { orc := [] }, dcs := [true] }
    let r := recvRun 8388858 { w := w0 } [.chunk (smallMsg ++ smallMsg.take 3)]
    r.1 = ["c"] ∧ r.2.w.h.live = [4, 3] ∧ (recvCleanup r.2).h.live = [] ∧ (recvCleanup r.2).h.ok = true := by decide

-- recv_served_after_failure on a concrete past: request 3 (the growth) fails and closes the first session; the oracle is
-- then exhausted (`Avail`), and the new session, fed two messages cut in the middle of the first, gets both dispatched
example : Cap 8388858 := by unfold Cap M.Stream.maxHdr M.Stream.maxRx; omega
example : Avail (recvRun 8388858 { w := { h := { orc := oracleFailing 3 0 3 } } } [.chunk bigMsg]).2.w := by
  unfold Avail; decide +kernel
example :
    let st := (recvRun 8388858 { w := { h := { orc := oracleFailing 3 0 3 } } } [.chunk bigMsg, .newSess]).2
    let r := (recvRun 8388858 st ([smallMsg.take 1, smallMsg.drop 1 ++ smallMsg].map .chunk)).2
    r.w.msgs.length = 2 ∧ r.w.dsp.length = 2 ∧ (Spec.Stream.framesOf 8388858 (smallMsg ++ smallMsg)).1.length = 2 ∧
    r.w.h.live = [] := by decide +kernel
-- the hypothesis of recv_ledger_replays: a fresh context
example : ({ w := { h := { orc := oracleFailing 3 0 3 } } } : RState).w.h.Replays := replays_init _

end Coap.C18
