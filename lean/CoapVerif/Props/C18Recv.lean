import CoapVerif.Lemmas.AllocRecv
/-
C18 — the receive path of a reliable session (coap_read_session, stream branch; Model/AllocRecv.lean): ownership of the receive
PDU under EVERY allocation oracle, EVERY dispatch oracle (which coap_dispatch calls disconnect the session), EVERY byte stream
and EVERY cut of it into read events.  `Own o L h` (Lemmas/AllocBlock.lean): the heap has seen no invalid free, and its live
objects are exactly the pairwise distinct objects `o` plus the objects `L` that were live before.
-/
namespace Coap.C18
open Coap Coap.AllocOracle Coap.AllocBlock Coap.AllocRecv

/-- AT MOST ONE PARTIAL PDU PER SESSION, at any time of any script: what is live beyond `L` is exactly the current session's
partial PDU — no object (`ppdu = none`) or the two objects (buffer, header) of ONE PDU — and no release so far was invalid. -/
theorem recv_at_most_one_partial (maxRcv : Nat) (L : List Nat) (evs : List REv) (st : RState) (hI : SInv L st) :
    match (recvRun maxRcv st evs).2.sess with
    | some s => Own (owned s) L (recvRun maxRcv st evs).2.w.h ∧ (owned s).length ≤ 2 ∧ (s.ppdu = none → owned s = [])
    | none => Own [] L (recvRun maxRcv st evs).2.w.h := by
  have h := recvRun_inv maxRcv evs st hI
  unfold SInv at h
  cases hs : (recvRun maxRcv st evs).2.sess with
  | none => rw [hs] at h; exact h
  | some s => rw [hs] at h; exact ⟨h, owned_length_le s, owned_none⟩

/-- EVERY PDU ALLOCATED IS RELEASED EXACTLY ONCE: after ANY script (any streams, any cuts, peers going away, sessions replaced)
under ANY oracle and ANY dispatch oracle, once the last session is freed NOTHING the reader allocated is live (`live` is
exactly what was live before) and no release was a second release or a release of something not allocated (`ok`) — so every
object allocated on the way (serials are fresh: never one of `L`) was released once and only once: dispatched-and-deleted,
deleted by coap_session_disconnected_lkd (failed growth, failed allocation of the next PDU, peer gone, oversized message),
or deleted with the session. -/
theorem recv_pdu_released_once (maxRcv : Nat) (L : List Nat) (evs : List REv) (st : RState) (hI : SInv L st) :
    let fin := recvCleanup (recvRun maxRcv st evs).2
    fin.h.ok = true ∧ fin.h.live.Nodup ∧ (∀ i, i ∈ fin.h.live ↔ i ∈ L) := by
  have h := recvCleanup_own (recvRun_inv maxRcv evs st hI)
  exact ⟨h.ok, h.nodup, fun i => by rw [h.mem i]; simp⟩

/-- the same from a fresh context: nothing at all is live at the end, whatever the oracle -/
theorem recv_script_clean (maxRcv : Nat) (orc : Oracle) (dcs : List Bool) (evs : List REv) :
    let fin := recvCleanup (recvRun maxRcv { w := { h := { orc := orc }, dcs := dcs } } evs).2
    fin.h.ok = true ∧ fin.h.live = [] := by
  have hI : SInv [] ({ w := { h := { orc := orc }, dcs := dcs } } : RState) := by
    unfold SInv; simp only
    exact fresh_inv (Own.init_empty orc)
  have h := recv_pdu_released_once maxRcv [] evs _ hI
  refine ⟨h.1, ?_⟩
  apply List.eq_nil_iff_forall_not_mem.mpr
  intro i hi
  have := (h.2.2 i).mp hi
  cases this

/-- A FAILED ALLOCATION CLOSES THE SESSION AND LEAVES NOTHING OWNED: a coap_read_session call that takes the failure exit — the
receive PDU or its buffer cannot be allocated, the buffer cannot be grown to the announced size (oracle or size limit), the
message announces more than COAP_DEFAULT_MAX_PDU_RX_SIZE — ends with the session closed, without partial PDU, and the live
objects exactly those that were live before the session allocated anything (the PDU whose growth failed was ALREADY the
session's and is released by coap_session_disconnected_lkd: seeded C18-17 falsifies exactly this). -/
theorem recv_no_leak_on_failure (maxRcv : Nat) (L : List Nat) (fuel : Nat) (s : RSess) (w : RW) (avail : Bytes)
    (hI : RInv L s w) (hf : (call maxRcv fuel s w avail).1 = .fail) :
    (call maxRcv fuel s w avail).2.1.up = false ∧ (call maxRcv fuel s w avail).2.1.ppdu = none ∧
    (call maxRcv fuel s w avail).2.2.h.ok = true ∧ (∀ i, i ∈ (call maxRcv fuel s w avail).2.2.h.live ↔ i ∈ L) := by
  obtain ⟨h1, h2, h3⟩ := (call_inv maxRcv L fuel s w avail hI).2 hf
  exact ⟨h1, h2, h3.ok, fun i => by rw [h3.mem i]; simp⟩

/-- … and an allocation that fails once the header is complete IS that exit: coap_pdu_init NULL, or the growth refused -/
theorem recv_alloc_failure_is_failure_exit (maxRcv : Nat) (s : RSess) (w : RW) (rh : Bytes) (hdrSize hl size : Nat)
    (hsz : M.parseSizeTcp rh = R.ok size) (hm : ¬ size > M.Stream.maxRx)
    (hfail : (AllocOracle.pduInit maxRcv w.h).1 = none ∨
             ∃ p0 h1, AllocOracle.pduInit maxRcv w.h = (some p0, h1) ∧ (growTo p0 size h1).1 = 0) :
    (headerDone maxRcv s w rh hdrSize hl).1 = .fail := by
  unfold headerDone
  rw [hsz]; simp only
  rw [if_neg hm]
  rcases hfail with hn | ⟨p0, h1, hq, hg⟩
  · rcases hq : AllocOracle.pduInit maxRcv w.h with ⟨_ | p0, h1⟩
    · rfl
    · rw [hq] at hn; cases hn
  · rw [hq]; simp only
    rw [if_pos hg]

/-- AFTER THE FAILURE A NEW SESSION ON THE SAME ENDPOINT STARTS CLEAN: whatever happened before (any script, any oracle), the
session accepted next is in the state a session of a fresh endpoint is in (up, no header bytes, no partial PDU), the old
session's objects are gone and the ledger is sound — its behaviour depends on the past only through the allocator. -/
theorem recv_new_session_starts_clean (maxRcv : Nat) (L : List Nat) (evs : List REv) (st : RState) (hI : SInv L st) :
    let st' := (recvStep maxRcv (recvRun maxRcv st evs).2 .newSess).2
    st'.sess = some {} ∧ Own [] L st'.w.h := by
  have h := recvStep_inv maxRcv .newSess (recvRun_inv maxRcv evs st hI)
  have hs : (recvStep maxRcv (recvRun maxRcv st evs).2 .newSess).2.sess = some {} := by
    unfold recvStep
    cases (recvRun maxRcv st evs).2.sess <;> rfl
  refine ⟨hs, ?_⟩
  unfold SInv at h
  rw [hs] at h
  unfold RInv owned at h
  exact h

/-! ## witnesses (`decide`): hypotheses are satisfiable, and the new session IS served -/

/-- PUT-like message of 300 bytes after the header (Len nibble 14, extended length 31): needs the growth (request 3) -/
def bigMsg : Bytes := [0xE2, 0x00, 0x1F, 0x01, 0xAA, 0xBB, 0xFF] ++ List.replicate 297 0x55
/-- a small message: Len 2, no token, payload marker + 1 byte -/
def smallMsg : Bytes := [0x20, 0x01, 0xFF, 0x07]

-- the invariant's hypothesis on a non-trivial state: a session in the middle of a message, other objects live
example : SInv [7] { sess := some { partialRead := 4, ppdu := some ⟨⟨9, 8, 1152, 256, [], 0, 0, none⟩, 2, 6, []⟩ },
                     w := { h := { orc := [false], next := 10, live := [8, 9, 7] } } } := by
  unfold SInv RInv owned; simp only
  exact { ok := rfl, nodup := by decide, fresh := by decide, onodup := by decide, mem := by intro i; simp [or_assoc], disj := by decide }

-- request 3 (the growth of the receive PDU) fails: the call takes the failure exit, session closed, nothing live;
-- the NEW session then receives a small message in two reads: dispatched (PDU 3) and released
example :
    let w0 : RW := { h := { orc := oracleFailing 3 0 3 } }
    let r := recvRun 8388858 { w := w0 } [.chunk bigMsg, .newSess, .chunk (smallMsg.take 1), .chunk (smallMsg.drop 1)]
    r.1 = ["c", "o", "o", "o"] ∧ r.2.w.h.live = [] ∧ r.2.w.h.ok = true ∧ r.2.w.h.reqs = 5 ∧ r.2.w.dsp = [(3, 6)] ∧
    r.2.sess = some {} := by decide +kernel

-- the hypotheses of recv_alloc_failure_is_failure_exit / recv_no_leak_on_failure on that instance
example : M.parseSizeTcp (bigMsg.take 3) = R.ok 302 := by decide
example : (call 8388858 400 {} { h := { orc := oracleFailing 3 0 3 } } bigMsg).1 = .fail := by decide +kernel

-- coap_dispatch disconnects the session (dispatch oracle [true]) in the middle of a read: the loop goes on, the PDU of the
-- next message belongs to the closed session and is released with it
example :
    let w0 : RW := { h := { orc := [] }, dcs := [true] }
    let r := recvRun 8388858 { w := w0 } [.chunk (smallMsg ++ smallMsg.take 3)]
    r.1 = ["c"] ∧ r.2.w.h.live = [4, 3] ∧ (recvCleanup r.2).h.live = [] ∧ (recvCleanup r.2).h.ok = true := by decide

end Coap.C18
