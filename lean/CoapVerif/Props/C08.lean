import CoapVerif.Lemmas.MsgLayer
/-
C08 — NSTART: a session never has more than NSTART Confirmable messages in flight; messages beyond the limit
(and anything submitted before the session is established) are held and later transmitted exactly once each, in
submission order; on failure each held Confirmable is reported by exactly one NACK; NONs are not delayed by NSTART.

  M = Coap.Msg (CoapVerif/Model/MsgLayer.lean), the message layer of libcoap after the `fix:` commits.
  `inflight l s` = number of nodes of session `s` in the send queue (sent, not yet acknowledged / reset / given up).

Property theorems only; helper lemmas live in CoapVerif/Lemmas/MsgLayer.lean.
-/
namespace Coap.C08
open Coap Coap.SQ Coap.Msg

/-- The inductive invariant `WF` (every queued node is a CON; for every session `con_active` = number of its
nodes in the send queue ≤ NSTART ≤ 255) is kept by every event, whatever the peer sends. -/
theorem wf_step (l : L) (e : Ev) (h : WF l) : WF (step l e) := Msg.wf_step l e h

/-- (1) For every event sequence — arbitrary ACK/RST/NON/invalid-code arrivals with arbitrary ids, duplicates,
hold/connect/disconnect, retransmissions — `con_active` of every session is exactly the number of its messages
waiting for an acknowledgement in the send queue. -/
theorem con_active_eq_inflight (ss : List Sess) (t0 : Nat) (evs : List Ev) (s : Nat)
    (hss : ∀ se ∈ ss, se.conActive = 0 ∧ se.delayq = [] ∧ se.nstart ≤ 255) (hs : s < ss.length) :
    ((run (init t0 ss) evs).getS s).conActive = inflight (run (init t0 ss) evs) s := by
  have h := wf_run evs _ (wf_init t0 ss hss)
  exact (h.2 s (by rw [run_len]; exact hs)).1

/-- (2) For every event sequence the number of Confirmable messages in flight on a session never exceeds its
NSTART. -/
theorem inflight_le_nstart (ss : List Sess) (t0 : Nat) (evs : List Ev) (s : Nat)
    (hss : ∀ se ∈ ss, se.conActive = 0 ∧ se.delayq = [] ∧ se.nstart ≤ 255) (hs : s < ss.length) :
    inflight (run (init t0 ss) evs) s ≤ ((run (init t0 ss) evs).getS s).nstart := by
  have h := wf_run evs _ (wf_init t0 ss hss)
  exact (h.2 s (by rw [run_len]; exact hs)).2.1

/-- (3) A NON submitted on an open, established session goes out at once, whatever `con_active` is: nothing is
put on the delay queue or the send queue. -/
theorem non_not_delayed_by_nstart (l : L) (s mid r : Nat) (_hs : s < l.sess.length)
    (ho : (l.getS s).sockOpen = true) (he : (l.getS s).est = true) :
    (submit l s false mid r).out = Out.sub (some mid) :: Out.tx l.now s mid 0 false :: l.out ∧
    ((submit l s false mid r).getS s).delayq = (l.getS s).delayq ∧
    (submit l s false mid r).q = l.q := by
  simp [submit, gate, ho, he]

/-- (4a) The loop that empties the delay queue (`coap_session_connected`, run when the session comes up and
whenever an exchange finishes) transmits exactly the first `k` held messages — once each, in submission order,
and nothing else — and leaves the others held, in order. -/
theorem drain_fifo_exactly_once (fuel : Nat) (l : L) (s : Nat) (hs : s < l.sess.length) :
    ∃ (k : Nat) (added : List Out),
      ((drain fuel l s).getS s).delayq = (l.getS s).delayq.drop k ∧
      (drain fuel l s).out = added ++ l.out ∧
      added.reverse = ((l.getS s).delayq.take k).map (fun n => Out.tx l.now s n.mid n.cnt n.con) ∧
      (drain fuel l s).now = l.now := drain_fifo fuel l s hs

/-- (4b) A message that is held (gate closed: session not established, or CON beyond NSTART) is appended at the
END of the delay queue, is accepted, and nothing is transmitted or queued for retransmission. -/
theorem submit_held_appends (l : L) (s : Nat) (con : Bool) (mid r : Nat) (hs : s < l.sess.length)
    (hg : gate (l.getS s) con = true) (ho : (l.getS s).sockOpen = true)
    (hm : (l.getS s).delayq.any (fun x => x.mid = mid) = false) :
    ((submit l s con mid r).getS s).delayq = (l.getS s).delayq ++
      [{ sess := s, mid := mid, t := 0,
         timeout := if con then calcTimeout (l.getS s).atI (l.getS s).atF (l.getS s).arfI (l.getS s).arfF r else 0,
         cnt := 0, tok := mid, con := con }] ∧
    (submit l s con mid r).out = Out.sub (some mid) :: l.out ∧ (submit l s con mid r).q = l.q :=
  Msg.submit_held_appends l s con mid r hs hg ho hm

/-- (4) For EVERY event, the delay queue of every session evolves only by a sequence of `DqStep`s: a message
being appended at its END (`push`: held, nothing is transmitted by that step), its HEAD leaving at the very moment
it is transmitted (`popTx`: `Out.tx` for exactly that message is the one output added, once), the whole queue being
cleared by a session failure with exactly one NACK per held Confirmable, in order (`clear`), or steps that leave
the delay queue alone (`other`).  There is no other way for a message to enter, leave or move within the delay
queue; hence held messages go out exactly once each, in submission order, and none is lost.  (Within one event
several steps may happen: a retransmission that finds the gate closed pushes, a give-up in the same I/O pass
drains — so the per-event statement is the reflexive-transitive closure `Star`.) -/
theorem held_fifo_exactly_once (l : L) (e : Ev) (s : Nat) (hs : s < l.sess.length) :
    Star (DqStep s) l (step l e) := step_star l e s hs

/-- (4) lifted to event sequences: along every run the delay queue of every session changes only by `DqStep`s. -/
theorem held_fifo_exactly_once_run (l : L) (evs : List Ev) (s : Nat) (hs : s < l.sess.length) :
    Star (DqStep s) l (run l evs) := run_star evs l s hs

/-- (5) When the session fails, every held Confirmable is reported by exactly one NACK (`undeliv`), in
submission order (outputs are newest first), and the delay queue is empty afterwards.  `pre` is the (at most one)
NACK for the first message of the send queue, `post` only concerns messages that were in the send queue (or is
the single "nothing was pending" NACK `0 false`). -/
theorem failure_nacks_each_held_once (l : L) (s : Nat) (hs : s < l.sess.length) :
    ∃ pre post : List Out,
      (disconnect l s).out = post ++ (((l.getS s).delayq.filter (·.con)).reverse.map
        (fun n => Out.nack l.now s .undeliv n.mid true)) ++ pre ++ l.out ∧
      ((disconnect l s).getS s).delayq = [] ∧ pre.length ≤ 1 ∧
      (∀ o ∈ post, (∃ n ∈ l.q.nodes, n.sess = s ∧ o = Out.nack l.now s .undeliv n.mid true) ∨
        o = Out.nack l.now s .undeliv 0 false) := disconnect_out l s hs

/-! ### the hypotheses are satisfiable, the statements are not vacuous -/

/-- the hypotheses of (1)/(2) hold for the default session -/
example : ∀ se ∈ [({ nstart := 1 } : Sess)], se.conActive = 0 ∧ se.delayq = [] ∧ se.nstart ≤ 255 := by
  simp

/-- the initial state satisfies the invariant -/
example : WF (init 1000 [{ nstart := 1 }]) := wf_init _ _ (by simp)

/-- (3) is not vacuous: an open, established session exists -/
example : (0 : Nat) < (init 0 [{}]).sess.length ∧ ((init 0 [{}]).getS 0).sockOpen = true ∧
    ((init 0 [{}]).getS 0).est = true := by decide

/-- (4b) is not vacuous: a session on hold holds everything -/
example : gate ((init 0 [{ est := false }]).getS 0) true = true ∧
    ((init 0 [{ est := false }]).getS 0).sockOpen = true ∧
    ((init 0 [{ est := false }]).getS 0).delayq.any (fun x => x.mid = 7) = false := by decide

/-- what the property is about: NSTART = 1, three CONs submitted (two are held), the first is reset, a
duplicate of the RST arrives: exactly one message is in flight, `con_active` = 1, one message is still held. -/
example :
    let l := run (init 1000 [{ nstart := 1 }]) [.submit 0 true 1 0, .submit 0 true 2 0, .submit 0 true 3 0, .rxRst 0 1, .rxRst 0 1]
    (l.getS 0).conActive = 1 ∧ inflight l 0 = 1 ∧ (l.getS 0).delayq.length = 1 := by decide

/-- on failure the two held CONs (2 and 3) are NACKed once each, oldest first (outputs are newest first;
message 1, in the send queue, is reported twice — DESIGN.md §5 row 22) -/
example : ((run (init 1000 [{ nstart := 1 }])
      [.submit 0 true 1 0, .submit 0 true 2 0, .submit 0 true 3 0, .disconnect 0]).out.take 4) =
    [Out.nack 1000 0 .undeliv 1 true, Out.nack 1000 0 .undeliv 3 true, Out.nack 1000 0 .undeliv 2 true,
     Out.nack 1000 0 .undeliv 1 true] := by decide

/-- (4) on the 3-CON / RST scenario: the chain of delay-queue steps exists by the theorem … -/
example : Star (DqStep 0) (init 1000 [{ nstart := 1 }])
    (run (init 1000 [{ nstart := 1 }])
      [.submit 0 true 1 0, .submit 0 true 2 0, .submit 0 true 3 0, .rxRst 0 1, .rxRst 0 1]) :=
  held_fifo_exactly_once_run _ _ 0 (by decide)

/-- … and it is not trivial: messages 2 and 3 are pushed (held, in that order), the RST of 1 pops 2 — which is
transmitted at that moment, exactly once — and 3 stays held. -/
example :
    let l := run (init 1000 [{ nstart := 1 }]) [.submit 0 true 1 0, .submit 0 true 2 0, .submit 0 true 3 0]
    let l' := run l [.rxRst 0 1, .rxRst 0 1]
    ((l.getS 0).delayq.map (·.mid)) = [2, 3] ∧ ((l'.getS 0).delayq.map (·.mid)) = [3] ∧
    (l'.out.filter (fun o => o matches Out.tx _ _ 2 _ _)) = [Out.tx 1000 0 2 0 true] := by decide

/-- each kind of step is possible: `push` … -/
example : DqStep 0 (init 0 [{ est := false }])
    ((init 0 [{ est := false }]).setS 0 { est := false, delayq := [⟨0, 7, 0, 0, 0, 7, true⟩] }) :=
  DqStep.push ⟨0, 7, 0, 0, 0, 7, true⟩ (by decide) (by decide) (by decide)

end Coap.C08
