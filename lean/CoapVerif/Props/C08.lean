import CoapVerif.Lemmas.MsgLayer
import CoapVerif.Lemmas.MsgLayerX
import CoapVerif.Lemmas.MsgHold
import CoapVerif.Lemmas.MsgLedger
import CoapVerif.Lemmas.MsgLayerW08
/-
C08 — NSTART: a session never has more than NSTART Confirmable messages in flight; messages beyond the limit
(and anything submitted before the session is established) are held and later transmitted exactly once each, in
submission order; on failure each held Confirmable is reported by exactly one NACK; NONs are not delayed by NSTART.

  M = Coap.Msg (CoapVerif/Model/MsgLayer.lean), the message layer of libcoap after the `fix:` commits.
  `inflight l s` = number of nodes of session `s` in the send queue (sent, not yet acknowledged / reset / given up).

Property theorems only; helper lemmas live in CoapVerif/Lemmas/MsgLayer.lean.
-/
namespace Coap.C08
open Coap Coap.SQ Coap.Msg Coap.MsgX

/-- The inductive invariant `WF` (every queued node is a CON; for every session `con_active` = number of its
nodes in the send queue ≤ NSTART ≤ 255) is kept by every event, whatever the peer sends. -/
theorem wf_step (l : L) (e : Ev) (h : WF l) : WF (step l e) := Msg.wf_step l e h

/-- (1) For every event sequence — arbitrary ACK/RST/NON/invalid-code arrivals with arbitrary ids, duplicates,
hold/connect/disconnect, retransmissions — `con_active` of every session is exactly the number of its messages
waiting for an acknowledgement in the send queue. -/
theorem con_active_eq_inflight (ss : List Sess) (t0 : Nat) (evs : List Ev) (s : Nat)
    (hss : ∀ se ∈ ss, se.conActive = 0 ∧ se.delayq = [] ∧ se.nstart ≤ 255) (hs : s < ss.length) :
    ((run (init t0 ss) evs).getS s).conActive = inflight (run (init t0 ss) evs) s := by
  have h := wf_run evs _ (wf_init t0 ss hss)
  exact (h.2 s (by rw [run_len]; exact hs)).1

/-- (2) For every event sequence the number of Confirmable messages in flight on a session never exceeds its
NSTART. -/
theorem inflight_le_nstart (ss : List Sess) (t0 : Nat) (evs : List Ev) (s : Nat)
    (hss : ∀ se ∈ ss, se.conActive = 0 ∧ se.delayq = [] ∧ se.nstart ≤ 255) (hs : s < ss.length) :
    inflight (run (init t0 ss) evs) s ≤ ((run (init t0 ss) evs).getS s).nstart := by
  have h := wf_run evs _ (wf_init t0 ss hss)
  exact (h.2 s (by rw [run_len]; exact hs)).2.1

/-- (3) A NON submitted on an open, established session goes out at once, whatever `con_active` is: nothing is
put on the delay queue or the send queue. -/
theorem non_not_delayed_by_nstart (l : L) (s mid r : Nat) (_hs : s < l.sess.length)
    (ho : (l.getS s).sockOpen = true) (he : (l.getS s).est = true) :
    (submit l s false mid r).out = Out.sub (some mid) :: Out.tx l.now s mid 0 false :: l.out ∧
    ((submit l s false mid r).getS s).delayq = (l.getS s).delayq ∧
    (submit l s false mid r).q = l.q := by
  simp [submit, gate, ho, he]

/-- (4a) The loop that empties the delay queue (`coap_session_connected`, run when the session comes up and
whenever an exchange finishes) transmits exactly the first `k` held messages — once each, in submission order,
and nothing else — and leaves the others held, in order. -/
theorem drain_fifo_exactly_once (fuel : Nat) (l : L) (s : Nat) (hs : s < l.sess.length) :
    ∃ (k : Nat) (added : List Out),
      ((drain fuel l s).getS s).delayq = (l.getS s).delayq.drop k ∧
      (drain fuel l s).out = added ++ l.out ∧
      added.reverse = ((l.getS s).delayq.take k).map (fun n => Out.tx l.now s n.mid n.cnt n.con) ∧
      (drain fuel l s).now = l.now := drain_fifo fuel l s hs

/-- (4b) A message that is held (gate closed: session not established, or CON beyond NSTART) is appended at the
END of the delay queue, is accepted, and nothing is transmitted or queued for retransmission. -/
theorem submit_held_appends (l : L) (s : Nat) (con : Bool) (mid r : Nat) (hs : s < l.sess.length)
    (hg : gate (l.getS s) con = true) (ho : (l.getS s).sockOpen = true)
    (hm : (l.getS s).delayq.any (fun x => x.mid = mid) = false) :
    ((submit l s con mid r).getS s).delayq = (l.getS s).delayq ++
      [{ sess := s, mid := mid, t := 0,
         timeout := if con then calcTimeout (l.getS s).atI (l.getS s).atF (l.getS s).arfI (l.getS s).arfF r else 0,
         cnt := 0, tok := mid, con := con }] ∧
    (submit l s con mid r).out = Out.sub (some mid) :: l.out ∧ (submit l s con mid r).q = l.q :=
  Msg.submit_held_appends l s con mid r hs hg ho hm

/-- (4) For EVERY event, the delay queue of every session evolves only by a sequence of `DqStep`s: a message
being appended at its END (`push`: held, nothing is transmitted by that step), its HEAD leaving at the very moment
it is transmitted (`popTx`: `Out.tx` for exactly that message is the one output added, once), the whole queue being
cleared by a session failure with exactly one NACK per held Confirmable, in order (`clear`), or steps that leave
the delay queue alone (`other`).  There is no other way for a message to enter, leave or move within the delay
queue; hence held messages go out exactly once each, in submission order, and none is lost.  (Within one event
several steps may happen: a retransmission that finds the gate closed pushes, a give-up in the same I/O pass
drains — so the per-event statement is the reflexive-transitive closure `Star`.) -/
theorem held_fifo_exactly_once (l : L) (e : Ev) (s : Nat) (hs : s < l.sess.length) :
    Star (DqStep s) l (step l e) := step_star l e s hs

/-- (4) lifted to event sequences: along every run the delay queue of every session changes only by `DqStep`s. -/
theorem held_fifo_exactly_once_run (l : L) (evs : List Ev) (s : Nat) (hs : s < l.sess.length) :
    Star (DqStep s) l (run l evs) := run_star evs l s hs

/-- (5) When the session fails, every held Confirmable is reported by exactly one NACK (`undeliv`), in
submission order (outputs are newest first), and the delay queue is empty afterwards.  `pre` is the (at most one)
NACK for the first message of the send queue, `post` only concerns messages that were in the send queue (or is
the single "nothing was pending" NACK `0 false`). -/
theorem failure_nacks_each_held_once (l : L) (s : Nat) (hs : s < l.sess.length) :
    ∃ pre post : List Out,
      (disconnect l s).out = post ++ (((l.getS s).delayq.filter (·.con)).reverse.map
        (fun n => Out.nack l.now s .undeliv n.mid true)) ++ pre ++ l.out ∧
      ((disconnect l s).getS s).delayq = [] ∧ pre.length ≤ 1 ∧
      (∀ o ∈ post, (∃ n ∈ l.q.nodes, n.sess = s ∧ o = Out.nack l.now s .undeliv n.mid true) ∨
        o = Out.nack l.now s .undeliv 0 false) := disconnect_out l s hs

/-! ### the hypotheses are satisfiable, the statements are not vacuous -/

/-- the hypotheses of (1)/(2) hold for the default session -/
example : ∀ se ∈ [({ nstart := 1 } : Sess)], se.conActive = 0 ∧ se.delayq = [] ∧ se.nstart ≤ 255 := by
  simp

/-- the initial state satisfies the invariant -/
example : WF (init 1000 [{ nstart := 1 }]) := wf_init _ _ (by simp)

/-- (3) is not vacuous: an open, established session exists -/
example : (0 : Nat) < (init 0 [{}]).sess.length ∧ ((init 0 [{}]).getS 0).sockOpen = true ∧
    ((init 0 [{}]).getS 0).est = true := by decide

/-- (4b) is not vacuous: a session on hold holds everything -/
example : gate ((init 0 [{ est := false }]).getS 0) true = true ∧
    ((init 0 [{ est := false }]).getS 0).sockOpen = true ∧
    ((init 0 [{ est := false }]).getS 0).delayq.any (fun x => x.mid = 7) = false := by decide

/-- what the property is about: NSTART = 1, three CONs submitted (two are held), the first is reset, a
duplicate of the RST arrives: exactly one message is in flight, `con_active` = 1, one message is still held. -/
example :
    let l := run (init 1000 [{ nstart := 1 }]) [.submit 0 true 1 0, .submit 0 true 2 0, .submit 0 true 3 0, .rxRst 0 1, .rxRst 0 1]
    (l.getS 0).conActive = 1 ∧ inflight l 0 = 1 ∧ (l.getS 0).delayq.length = 1 := by decide

/-- on failure the two held CONs (2 and 3) are NACKed once each, oldest first (outputs are newest first;
message 1, in the send queue, is reported twice — DESIGN.md §5 row 22) -/
example : ((run (init 1000 [{ nstart := 1 }])
      [.submit 0 true 1 0, .submit 0 true 2 0, .submit 0 true 3 0, .disconnect 0]).out.take 4) =
    [Out.nack 1000 0 .undeliv 1 true, Out.nack 1000 0 .undeliv 3 true, Out.nack 1000 0 .undeliv 2 true,
     Out.nack 1000 0 .undeliv 1 true] := by decide

/-- (4) on the 3-CON / RST scenario: the chain of delay-queue steps exists by the theorem … -/
example : Star (DqStep 0) (init 1000 [{ nstart := 1 }])
    (run (init 1000 [{ nstart := 1 }])
      [.submit 0 true 1 0, .submit 0 true 2 0, .submit 0 true 3 0, .rxRst 0 1, .rxRst 0 1]) :=
  held_fifo_exactly_once_run _ _ 0 (by decide)

/-- … and it is not trivial: messages 2 and 3 are pushed (held, in that order), the RST of 1 pops 2 — which is
transmitted at that moment, exactly once — and 3 stays held. -/
example :
    let l := run (init 1000 [{ nstart := 1 }]) [.submit 0 true 1 0, .submit 0 true 2 0, .submit 0 true 3 0]
    let l' := run l [.rxRst 0 1, .rxRst 0 1]
    ((l.getS 0).delayq.map (·.mid)) = [2, 3] ∧ ((l'.getS 0).delayq.map (·.mid)) = [3] ∧
    (l'.out.filter (fun o => o matches Out.tx _ _ 2 _ _)) = [Out.tx 1000 0 2 0 true] := by decide

/-- each kind of step is possible: `push` … -/
example : DqStep 0 (init 0 [{ est := false }])
    ((init 0 [{ est := false }]).setS 0 { est := false, delayq := [⟨0, 7, 0, 0, 0, 7, true⟩] }) :=
  DqStep.push ⟨0, 7, 0, 0, 0, 7, true⟩ (by decide) (by decide) (by decide)

/-! ## The extended model (Model/MsgLayerX.lean): explicit tokens and `coap_cancel_all_messages` as the pointer
walk it is, ICMP errors, keepalive pings.  `runX (initX t0 ss) evs` is a run of `stepX` over ANY list of base and
extended events. -/

/-- The invariant is kept by every event of the extended model: a separate response cancelling several
Confirmables that share its token, an ICMP error, a keepalive ping being sent, acknowledged, reset ("pong") or
given up, in any interleaving with everything else. -/
theorem wf_step_x (lx : LX) (e : EvX) (h : WF lx.l) : WF (stepX lx e).l := wfX_step lx e h

/-- (1x) `con_active` = number of the session's Confirmables (the library's pings included) waiting for an
acknowledgement, after every sequence of base and extended events. -/
theorem con_active_eq_inflight_x (ss : List Sess) (t0 : Nat) (evs : List EvX) (s : Nat)
    (hss : ∀ se ∈ ss, se.conActive = 0 ∧ se.delayq = [] ∧ se.nstart ≤ 255) (hs : s < ss.length) :
    ((runX (initX t0 ss) evs).l.getS s).conActive = inflight (runX (initX t0 ss) evs).l s := by
  have h := wfX_run evs _ (show WF (initX t0 ss).l from wf_init t0 ss hss)
  have hl := (runX_star evs (initX t0 ss) s hs).len
  exact (h.2 s (by rw [hl]; exact hs)).1

/-- (2x) never more than NSTART Confirmables in flight, after every sequence of base and extended events: an ICMP
error does not make the library forget the Confirmables it keeps retransmitting, a ping counts. -/
theorem inflight_le_nstart_x (ss : List Sess) (t0 : Nat) (evs : List EvX) (s : Nat)
    (hss : ∀ se ∈ ss, se.conActive = 0 ∧ se.delayq = [] ∧ se.nstart ≤ 255) (hs : s < ss.length) :
    inflight (runX (initX t0 ss) evs).l s ≤ ((runX (initX t0 ss) evs).l.getS s).nstart := by
  have h := wfX_run evs _ (show WF (initX t0 ss).l from wf_init t0 ss hss)
  have hl := (runX_star evs (initX t0 ss) s hs).len
  exact (h.2 s (by rw [hl]; exact hs)).2.1

/-- (3x) a NON with an explicit token on an open, established session goes out at once. -/
theorem non_not_delayed_by_nstart_x (l : L) (s mid r tok : Nat)
    (ho : (l.getS s).sockOpen = true) (he : (l.getS s).est = true) :
    (submitT l s false mid r tok).out = Out.sub (some mid) :: Out.tx l.now s mid 0 false :: l.out ∧
    ((submitT l s false mid r tok).getS s).delayq = (l.getS s).delayq ∧
    (submitT l s false mid r tok).q = l.q := by
  simp [submitT, sendCore, gate, ho, he]

/-- (4x) every event of the extended model moves the delay queue of every session only by `DqStep`s (appended at
the end without transmission / head leaves exactly when transmitted / cleared by a failure with one NACK per held
CON): held messages go out exactly once each, in submission order, none is lost — also when slots are freed by a
cancel-by-token walk or by the RST of a ping, and an ICMP error does not touch the delay queue. -/
theorem held_fifo_exactly_once_x (lx : LX) (e : EvX) (s : Nat) (hs : s < lx.l.sess.length) :
    Star (DqStep s) lx.l (stepX lx e).l := stepX_star lx e s hs

theorem held_fifo_exactly_once_x_run (lx : LX) (evs : List EvX) (s : Nat) (hs : s < lx.l.sess.length) :
    Star (DqStep s) lx.l (runX lx evs).l := runX_star evs lx s hs

/-- An ICMP error (`coap_session_disconnected_lkd(COAP_NACK_ICMP_ISSUE)`) reports one NACK and changes nothing
else: the Confirmables in flight stay in the send queue AND stay counted, the held ones stay held. -/
theorem icmp_changes_only_output (l : L) (s : Nat) :
    (icmp l s).q = l.q ∧ (icmp l s).sess = l.sess ∧ (icmp l s).now = l.now ∧
    ∃ mid known, (icmp l s).out = Out.nack l.now s .icmp mid known :: l.out := by
  unfold icmp
  split
  · rename_i n _; exact ⟨rfl, rfl, rfl, n.mid, true, rfl⟩
  · exact ⟨rfl, rfl, rfl, 0, false, rfl⟩

/-- With keepalive off and UDP sessions only the extended model does to the message layer what the base model does (all base events
but the arrival of a NON response, where it follows the pointer walk of `coap_cancel_all_messages`): the
theorems above specialise to the base theorems' runs. -/
theorem x_agrees_with_base (lx : LX) (e : Ev) (h : lx.pingTimeout = 0) (hn : ∀ s mid tok, e ≠ .rxNon s mid tok)
    (hu : ∀ s, lx.proto s = .udp) :
    (stepX lx (.base e)).l = step lx.l e ∧ (stepX lx (.base e)).pingTimeout = 0 := stepX_base lx e h hn hu

/-- a submission whose token is its message id is the base model's submission -/
theorem submitT_mid_is_submit (l : L) (s : Nat) (con : Bool) (mid r : Nat) :
    submitT l s con mid r mid = submit l s con mid r := submitT_eq_submit l s con mid r

/-! ## "held … and later transmitted as earlier exchanges finish" -/

/-- (6) No idle hold.  For every event sequence: if an ESTABLISHED session holds a message at all, the message at
the head of its delay queue is a Confirmable and EXACTLY NSTART Confirmables of the session are in flight.  So a
held message waits only for a slot: whatever ends an exchange (ACK, RST, reply with an invalid code, give-up,
cancel by token) re-opens the gate in the same event, and a NON never waits on an established session. -/
theorem no_idle_hold (ss : List Sess) (t0 : Nat) (evs : List Ev) (s : Nat)
    (hss : ∀ se ∈ ss, se.conActive = 0 ∧ se.delayq = [] ∧ se.nstart ≤ 255) (hs : s < ss.length)
    (he : ((run (init t0 ss) evs).getS s).est = true) :
    ∀ n ∈ ((run (init t0 ss) evs).getS s).delayq.head?,
      n.con = true ∧ inflight (run (init t0 ss) evs) s = ((run (init t0 ss) evs).getS s).nstart := by
  have hw := wf_run evs _ (wf_init t0 ss hss)
  have hn := nih_run evs _ (wf_init t0 ss hss) (nih_init t0 ss hss)
  have hlt : s < (run (init t0 ss) evs).sess.length := by rw [run_len]; exact hs
  intro n hm
  have h1 := hn s hlt he n hm
  have h2 := hw.2 s hlt
  exact ⟨h1.1, by omega⟩

/-- (6x) the same over the extended model: also the RST of a keepalive ping ("pong"), a cancel-by-token walk
that removes several Confirmables, and an ICMP error leave no message waiting next to a free slot. -/
theorem no_idle_hold_x (ss : List Sess) (t0 : Nat) (evs : List EvX) (s : Nat)
    (hss : ∀ se ∈ ss, se.conActive = 0 ∧ se.delayq = [] ∧ se.nstart ≤ 255) (hs : s < ss.length)
    (he : ((runX (initX t0 ss) evs).l.getS s).est = true) :
    ∀ n ∈ ((runX (initX t0 ss) evs).l.getS s).delayq.head?,
      n.con = true ∧ inflight (runX (initX t0 ss) evs).l s = ((runX (initX t0 ss) evs).l.getS s).nstart := by
  have hw := wfX_run evs _ (show WF (initX t0 ss).l from wf_init t0 ss hss)
  have hn := nihX_run evs _ (show WF (initX t0 ss).l from wf_init t0 ss hss) (nih_init t0 ss hss)
  have hlt : s < (runX (initX t0 ss) evs).l.sess.length := by
    rw [(runX_star evs (initX t0 ss) s hs).len]; exact hs
  intro n hm
  have h1 := hn s hlt he n hm
  have h2 := hw.2 s hlt
  exact ⟨h1.1, by omega⟩

/-- (6) is not vacuous: NSTART = 1, two CONs submitted — the session is established, the second is held, one is in
flight -/
example :
    let l := run (init 1000 [{ nstart := 1 }]) [.submit 0 true 1 0, .submit 0 true 2 0]
    (l.getS 0).est = true ∧ ((l.getS 0).delayq.head?.map (·.mid)) = some 2 ∧ inflight l 0 = 1 := by decide

/-! ### non-vacuity of the extended statements -/

/-- NSTART = 2: two Confirmables sharing token 7 are in flight, two more are held; ONE separate response with
token 7 cancels both and frees BOTH slots: both held messages are transmitted, in order, `con_active` = 2 = the
number in flight, nothing is held. -/
example :
    let lx := runX (initX 1000 [{ nstart := 2 }])
      [.submitT 0 true 101 0 7, .submitT 0 true 102 0 7, .base (.submit 0 true 103 0), .base (.submit 0 true 104 0),
       .base (.rxNon 0 900 7)]
    (lx.l.getS 0).conActive = 2 ∧ inflight lx.l 0 = 2 ∧ (lx.l.getS 0).delayq = [] ∧
    (lx.l.out.filter (fun o => o matches Out.tx ..)).reverse.map (fun o => match o with | .tx _ _ m _ _ => m | _ => 0)
      = [101, 102, 103, 104] := by decide

/-- NSTART = 1: a Confirmable is in flight when an ICMP error arrives; the next Confirmable is HELD (one in
flight, `con_active` = 1), not transmitted. -/
example :
    let lx := runX (initX 1000 [{ nstart := 1 }]) [.base (.submit 0 true 101 0), .icmp 0, .base (.submit 0 true 102 0)]
    (lx.l.getS 0).conActive = 1 ∧ inflight lx.l 0 = 1 ∧ ((lx.l.getS 0).delayq.map (·.mid)) = [102] := by decide

/-- NSTART = 1, keepalive 1 s: after one silent second the library's ping (message id 1) takes the slot, a
Confirmable submitted now is held; the peer's RST of the ping ("pong") frees the slot: the held Confirmable is
transmitted at that moment, exactly one is in flight, and the RST was not reported as a NACK. -/
example :
    let lx := runX (initX 1000 [{ nstart := 1 }])
      [.keepalive 1, .base (.setNow 2000), .base .prepare, .base (.submit 0 true 101 0)]
    let lx' := stepX lx (.base (.rxRst 0 1))
    (lx.l.getS 0).conActive = 1 ∧ inflight lx.l 0 = 1 ∧ ((lx.l.getS 0).delayq.map (·.mid)) = [101] ∧
    (lx'.l.getS 0).conActive = 1 ∧ (lx'.l.q.nodes.map (·.mid)) = [101] ∧ (lx'.l.getS 0).delayq = [] ∧
    lx'.l.out.head? = some (Out.tx 2000 0 101 0 true) ∧
    (lx'.l.out.filter (fun o => o matches Out.nack ..)) = [] := by decide

/-- the pointer walk differs from "remove every message with that token": a held message with the SAME token that
is released during the walk and lands in FRONT of the walk's position stays in flight (NSTART = 2; message 1 has
another token and the earliest deadline, message 2 has token 7, message 3 — token 7, the shortest timeout — is held:
the walk has passed message 1 when message 2 is unlinked and message 3 is inserted in front of message 1) -/
example :
    let lx := runX (initX 1000 [{ nstart := 2 }])
      [.base (.submit 0 true 1 128), .submitT 0 true 2 255 7, .submitT 0 true 3 0 7, .base (.rxNon 0 900 7)]
    (lx.l.q.nodes.map (·.mid)) = [3, 1] ∧ (lx.l.getS 0).conActive = 2 ∧ inflight lx.l 0 = 2 := by decide

/-! ## (round 4) piggy-backed responses; DTLS sessions -/

/-- (7) A piggy-backed response - an ACK that carries a response code and a token - concludes the exchange of the
message whose ID it carries and of NO OTHER: whatever token it carries, whether or not its id matches anything,
duplicate or not, every other message waiting for its acknowledgement (any session `s'`, any id `m'` other than
the acknowledged one) is still in the send queue afterwards.  (`coap_session_connected` may add messages.) -/
theorem piggybacked_ack_concludes_only_its_own (l : L) (s mid : Nat) (dup : Bool) (s' m' : Nat)
    (h : ¬ (s' = s ∧ m' = mid)) :
    l.q.nodes.countP (fun n => decide (n.sess = s' ∧ n.mid = m')) ≤
      (rxAckP l s mid dup).q.nodes.countP (fun n => decide (n.sess = s' ∧ n.mid = m')) := by
  apply rxAckP_countP_le _ (tstable_key s' m')
  intro n hs hm
  simp only [decide_eq_false_iff_not]
  intro hk
  exact h ⟨hk.1.symm.trans hs, hk.2.symm.trans hm⟩

/-- (7') A piggy-backed response whose message id is NOT in the send queue - the network's duplicate of one
already processed, one arriving after its request was given up, a stray - changes nothing but the output (the
response handler call, unless it is recognised as a duplicate): the send queue, `con_active`, the delay queues of
all sessions are as before.  In particular it does not free a slot that belongs to another Confirmable carrying
the same token, and it releases no held message. -/
theorem unmatched_piggybacked_ack_changes_only_output (l : L) (s mid : Nat) (dup : Bool)
    (h : l.q.nodes.countP (fun n => decide (n.sess = s ∧ n.mid = mid)) = 0) :
    (rxAckP l s mid dup).q = l.q ∧ (rxAckP l s mid dup).sess = l.sess ∧ (rxAckP l s mid dup).now = l.now ∧
    ((rxAckP l s mid dup).out = l.out ∨ (rxAckP l s mid dup).out = Out.rsp l.now s mid :: l.out) := by
  have hq : rxAck l s mid = l := by
    unfold rxAck
    rcases hr : removeNode l.q.nodes s mid with ⟨res, rest⟩
    cases res with
    | none => have := (removeNode_none _ _ _ _ hr).1; subst this; rfl
    | some n =>
      have hm := removeNode_some (fun n => decide (n.sess = s ∧ n.mid = mid)) (tstable_key s mid) _ _ _ _ _ hr
      have : l.q.nodes.countP (fun n => decide (n.sess = s ∧ n.mid = mid)) ≥ 1 := by
        rw [hm.2.2.2]; simp [hm.2.1, hm.2.2.1]
      omega
  unfold rxAckP
  simp only [hq]
  cases dup
  · exact ⟨rfl, rfl, rfl, Or.inr rfl⟩
  · exact ⟨rfl, rfl, rfl, Or.inl rfl⟩

/-- (1d)/(2d) `con_active` = in flight <= NSTART on EVERY datagram transport: for every list of sessions, each a UDP
or a DTLS session (`ds`), and every sequence of base and extended events (submissions, ACK / RST / piggy-backed
and separate responses, retransmissions, failures - which leave a DTLS session in state NONE, a UDP session
ESTABLISHED -, keepalive).  The guard of every `con_active` update, `COAP_PROTO_NOT_RELIABLE(session->proto)`,
is open for both (`notReliable_datagram`). -/
theorem con_active_eq_inflight_le_nstart_dtls (ss : List Sess) (ds : List Bool) (t0 : Nat) (evs : List EvX) (s : Nat)
    (hss : ∀ se ∈ ss, se.conActive = 0 ∧ se.delayq = [] ∧ se.nstart ≤ 255) (hs : s < ss.length) :
    ((runX (initXP t0 ss ds) evs).l.getS s).conActive = inflight (runX (initXP t0 ss ds) evs).l s ∧
    inflight (runX (initXP t0 ss ds) evs).l s ≤ ((runX (initXP t0 ss ds) evs).l.getS s).nstart := by
  have h := wfX_run evs _ (show WF (initXP t0 ss ds).l from wf_init t0 ss hss)
  have hl := (runX_star evs (initXP t0 ss ds) s hs).len
  have := h.2 s (by rw [hl]; exact hs)
  exact ⟨this.1, this.2.1⟩

/-- (6d) no idle hold on every datagram transport -/
theorem no_idle_hold_dtls (ss : List Sess) (ds : List Bool) (t0 : Nat) (evs : List EvX) (s : Nat)
    (hss : ∀ se ∈ ss, se.conActive = 0 ∧ se.delayq = [] ∧ se.nstart ≤ 255) (hs : s < ss.length)
    (he : ((runX (initXP t0 ss ds) evs).l.getS s).est = true) :
    ∀ n ∈ ((runX (initXP t0 ss ds) evs).l.getS s).delayq.head?,
      n.con = true ∧ inflight (runX (initXP t0 ss ds) evs).l s = ((runX (initXP t0 ss ds) evs).l.getS s).nstart := by
  have hw := wfX_run evs _ (show WF (initXP t0 ss ds).l from wf_init t0 ss hss)
  have hn := nihX_run evs _ (show WF (initXP t0 ss ds).l from wf_init t0 ss hss) (nih_init t0 ss hss)
  have hlt : s < (runX (initXP t0 ss ds) evs).l.sess.length := by
    rw [(runX_star evs (initXP t0 ss ds) s hs).len]; exact hs
  intro n hm
  have h1 := hn s hlt he n hm
  have h2 := hw.2 s hlt
  exact ⟨h1.1, by omega⟩

/-- (5d) the failure of a DTLS session reports what the failure of a UDP session reports - every held Confirmable
by exactly one NACK, in order (`failure_nacks_each_held_once`) - and empties the delay queue; the session is then
NOT established (a UDP session is). -/
theorem failure_dtls (l : L) (s : Nat) (hs : s < l.sess.length) :
    (disconnectP .dtls l s).out = (disconnect l s).out ∧ (disconnectP .dtls l s).q = (disconnect l s).q ∧
    ((disconnectP .dtls l s).getS s).delayq = [] ∧ ((disconnectP .dtls l s).getS s).est = false ∧
    ((disconnectP .udp l s).getS s).est = true := by
  have hd := (failure_nacks_each_held_once l s hs).choose_spec.choose_spec.2.1
  have hlen : s < (disconnect l s).sess.length := by rw [(disconnect_frame l s).len]; exact hs
  refine ⟨rfl, rfl, ?_, ?_, ?_⟩
  · simp only [disconnectP]; rw [getS_setS_same hlen]; exact hd
  · simp only [disconnectP]; rw [getS_setS_same hlen]
  · exact disconnect_est l s hs

/-! ### "in flight (sent and neither acknowledged, reset nor given up)": a message leaves only when its exchange is concluded

`led s mid gT l` (Lemmas/MsgLedger.lean) = number of Confirmables of session `s` with message id `mid` in the send queue
(in flight) + in the delay queue of `s` (held; a retransmission goes back there while the session is not established) +
number of TOO_MANY_RETRIES reports for (`s`, `mid`) (given up).  `Concludes l s mid e`: the event `e` is an ACK (empty,
invalid code, piggy-backed response) or RST carrying that id, a separate response carrying the token of a message with that id,
or the failure of session `s`. -/

/-- (8) For EVERY event that does not conclude the exchange of message (`s`, `mid`) - submissions, timer runs with
retransmissions and give-ups of any message, ACK / RST / responses for OTHER messages incl. duplicated and stray piggy-backed
responses carrying the SAME token, ICMP errors, keepalive, other sessions failing - the ledger of that message does not
decrease: a Confirmable that is in flight stays in the send queue, counted by `con_active` (theorems (1), (2)), or is
reported to the NACK handler as given up; it is never dropped silently, so its slot is never handed to another message
while it is "sent and neither acknowledged, reset nor given up". -/
theorem in_flight_until_concluded (lx : LX) (e : EvX) (s mid : Nat) (hw : WF lx.l) (hs : s < lx.l.sess.length)
    (hn : ¬ Concludes lx.l s mid e) : led s mid gT lx.l ≤ led s mid gT (stepX lx e).l :=
  led_stepX s mid lx e hw hs hn

/-- (8) along runs: from any reachable state (after `evs1`, any mix of UDP and DTLS sessions), as long as no event of
`evs2` concludes the message, its ledger does not decrease. -/
theorem in_flight_until_concluded_run (ss : List Sess) (ds : List Bool) (t0 : Nat) (evs1 evs2 : List EvX) (s mid : Nat)
    (hss : ∀ se ∈ ss, se.conActive = 0 ∧ se.delayq = [] ∧ se.nstart ≤ 255) (hs : s < ss.length)
    (hn : ∀ (pre : List EvX) (e : EvX) (post : List EvX), evs2 = pre ++ e :: post →
      ¬ Concludes (runX (runX (initXP t0 ss ds) evs1) pre).l s mid e) :
    led s mid gT (runX (initXP t0 ss ds) evs1).l ≤ led s mid gT (runX (runX (initXP t0 ss ds) evs1) evs2).l := by
  have hw := wfX_run evs1 _ (show WF (initXP t0 ss ds).l from wf_init t0 ss hss)
  have hl := (runX_star evs1 (initXP t0 ss ds) s hs).len
  exact led_runX s mid evs2 _ hw (by rw [hl]; exact hs) hn

/-! ### non-vacuity of the round-4 statements -/

/-- (8) on the scenario of (7'): message 102 (token 7, in flight after A's response) has ledger 1; the duplicate of A's
response - same token 7 - does not conclude it (the hypothesis of (8) holds) and its ledger is still 1: it is still in the
send queue.  (In the seeded variant C08-12 the ledger drops to 0 here.) -/
example :
    let lx := runX (initX 1000 [{ nstart := 1 }])
      [.submitT 0 true 101 0 7, .submitT 0 true 102 0 7, .submitT 0 true 103 0 7, .rxAckP 0 101 7]
    ¬ Concludes lx.l 0 102 (.rxAckP 0 101 7) ∧ led 0 102 gT lx.l = 1 ∧ led 0 102 gT (stepX lx (.rxAckP 0 101 7)).l = 1 ∧
    (stepX lx (.rxAckP 0 101 7)).l.q.nodes.countP (pq 0 102 gT) = 1 := by
  refine ⟨fun h => absurd h.2 (by decide), by decide, by decide, by decide⟩

/-- (8) is not vacuous for a separate response either: NSTART = 2, message 1 (token 1) and message 2 (token 7) in flight;
a NON response with token 7 does not conclude message 1, whose ledger stays 1, and concludes message 2 -/
example :
    let lx := runX (initX 1000 [{ nstart := 2 }]) [.base (.submit 0 true 1 0), .submitT 0 true 2 0 7]
    ¬ Concludes lx.l 0 1 (.base (.rxNon 0 900 7)) ∧ Concludes lx.l 0 2 (.base (.rxNon 0 900 7)) ∧
    led 0 1 gT (stepX lx (.base (.rxNon 0 900 7))).l = 1 ∧ led 0 2 gT (stepX lx (.base (.rxNon 0 900 7))).l = 0 := by
  refine ⟨?_, ?_, by decide, by decide⟩
  · intro h
    rcases h.2 with ⟨n, hn, _, h2, h3⟩ | ⟨n, hn, _⟩
    · revert n; decide
    · revert n; decide
  · exact ⟨rfl, Or.inl (by decide)⟩


/-- the scenario of (7'): NSTART = 1, three Confirmables A, B, C (101, 102, 103) share token 7.  A is answered by
a piggy-backed response: B goes out.  The network's duplicate of that response arrives while B is unacknowledged:
B is still in flight, `con_active` = 1, C is still held, nothing was transmitted, the response handler is not
called a second time. -/
example :
    let lx := runX (initX 1000 [{ nstart := 1 }])
      [.submitT 0 true 101 0 7, .submitT 0 true 102 0 7, .submitT 0 true 103 0 7, .rxAckP 0 101 7]
    let lx' := stepX lx (.rxAckP 0 101 7)
    (lx.l.q.nodes.map (·.mid)) = [102] ∧ ((lx.l.getS 0).delayq.map (·.mid)) = [103] ∧
    (lx'.l.q.nodes.map (·.mid)) = [102] ∧ (lx'.l.getS 0).conActive = 1 ∧ ((lx'.l.getS 0).delayq.map (·.mid)) = [103] ∧
    lx'.l.out = lx.l.out ∧
    lx.l.q.nodes.countP (fun n => decide (n.sess = 0 ∧ n.mid = 101)) = 0 := by decide

/-- a DTLS session (NSTART = 1): a burst of three Confirmables on the established session puts ONE in flight and
holds two; the session's failure reports 101 (in flight; twice: DESIGN §5 row 22), 102 and 103 (held, once each)
and leaves the session not established with nothing counted -/
example :
    let lx := runX (initXP 1000 [{ nstart := 1 }] [true])
      [.base (.submit 0 true 101 0), .base (.submit 0 true 102 0), .base (.submit 0 true 103 0)]
    let lx' := stepX lx (.base (.disconnect 0))
    lx.proto 0 = .dtls ∧ (lx.l.getS 0).conActive = 1 ∧ inflight lx.l 0 = 1 ∧ ((lx.l.getS 0).delayq.map (·.mid)) = [102, 103] ∧
    (lx'.l.getS 0).est = false ∧ (lx'.l.getS 0).conActive = 0 ∧ inflight lx'.l 0 = 0 ∧ (lx'.l.getS 0).delayq = [] ∧
    (lx'.l.out.take 4) = [Out.nack 1000 0 .undeliv 101 true, Out.nack 1000 0 .undeliv 103 true,
      Out.nack 1000 0 .undeliv 102 true, Out.nack 1000 0 .undeliv 101 true] := by decide

/-- `x_agrees_with_base`'s new hypothesis holds for every line without DTLS sessions -/
example : ∀ s, (initX 1000 [{ nstart := 1 }]).proto s = .udp := proto_udp_of_nil _ rfl

/-! ### round 6 — failing socket writes (seed C08-13): the write-failure model `Coap.MsgW` (Model/MsgLayerW.lean)

`coap_socket_send()` may return -1 for any datagram (ECONNREFUSED after an ICMP error, ENOBUFS, EPERM, EAGAIN).  The model
takes the list `wf` of what the next writes return as ONE MORE INPUT; the theorems below hold for EVERY such list.  An
`Out.tx` of this model is a write ATTEMPT.  Three places write to the socket and each treats a failure differently:
`coap_send` refuses the message (nothing queued, nothing counted), `coap_retransmit` keeps the message, its deadline and
its slot, and `coap_session_connected` - where the message has already left the delay queue and `coap_wait_ack` queues it
for retransmission whatever the write returned - counts it whatever the write returned, then stops draining. -/

open Coap.MsgW in
/-- (1w/2w, inductive step) the invariant `WF` is kept by every event whatever the socket does. -/
theorem wf_step_w (lw : LW) (e : Ev) (h : WF lw.l) : WF (stepW lw e).l := MsgW.wf_stepW lw e h

open Coap.MsgW in
/-- (1w/2w) For every event sequence AND every pattern of failing socket writes: `con_active` of every session is
exactly the number of its Confirmables in the send queue, and that number never exceeds NSTART. -/
theorem con_active_eq_inflight_le_nstart_w (ss : List Sess) (t0 : Nat) (wf : List Bool) (evs : List Ev) (s : Nat)
    (hss : ∀ se ∈ ss, se.conActive = 0 ∧ se.delayq = [] ∧ se.nstart ≤ 255) (hs : s < ss.length) :
    ((runW (initW t0 ss wf) evs).l.getS s).conActive = inflight (runW (initW t0 ss wf) evs).l s ∧
    inflight (runW (initW t0 ss wf) evs).l s ≤ ((runW (initW t0 ss wf) evs).l.getS s).nstart := by
  have h := MsgW.wf_runW evs (initW t0 ss wf) (show WF (initW t0 ss wf).l from wf_init t0 ss hss)
  have hlt : s < (runW (initW t0 ss wf) evs).l.sess.length := by
    rw [(MsgW.runW_star evs (initW t0 ss wf) s hs).len]; exact hs
  exact ⟨(h.2 s hlt).1, (h.2 s hlt).2.1⟩

open Coap.MsgW in
/-- (8) What the slot of a released Confirmable depends on: NOT on the write.  One round of the loop of
`coap_session_connected` for a held Confirmable `n` - for every state, every oracle: `con_active` goes up by one, `n` has
left the delay queue, is in the send queue (one more node of the session) and its write was attempted exactly once.
(A transcription that counts the message only when the write succeeded cannot satisfy this, nor `wf_step_w`.) -/
theorem released_con_takes_slot_whatever_the_write_returns (lw : LW) (s : Nat) (n : Node) (rest : List Node)
    (hs : s < lw.l.sess.length) (hc : n.con = true) :
    ((drainRound lw s n rest).2.l.getS s).conActive = ((lw.l.getS s).conActive + 1) % 256 ∧
    ((drainRound lw s n rest).2.l.getS s).delayq = rest ∧
    inflight (drainRound lw s n rest).2.l s = inflight lw.l s + 1 ∧
    (drainRound lw s n rest).2.l.out = Out.tx lw.l.now s n.mid n.cnt true :: lw.l.out :=
  MsgW.drainRound_con_takes_slot lw s n rest hs hc

open Coap.MsgW in
/-- (4w-a) The drain loop with `if (bytes_written < 0) break;` is the loop of the base model stopped early: whatever
writes fail, it attempts exactly the first `k` held messages - once each, in submission order, nothing else - and leaves
the others held, in order (`drain_fifo_exactly_once` applies to `drain k`). -/
theorem drain_with_failing_writes_is_drain_stopped_early (fuel : Nat) (lw : LW) (s : Nat) :
    ∃ k, (drainW fuel lw s).l = drain k lw.l s := MsgW.drainW_is_drain fuel lw s

open Coap.MsgW in
/-- (4w) For EVERY event and every write oracle the delay queue of every session evolves only by `DqStep`s (append at
the END without transmission / the HEAD leaves exactly when its write is attempted, once / cleared by the session's
failure with one NACK per held Confirmable): a failing write lets nobody overtake, loses and duplicates nothing. -/
theorem held_fifo_exactly_once_w (lw : LW) (e : Ev) (s : Nat) (hs : s < lw.l.sess.length) :
    Star (DqStep s) lw.l (stepW lw e).l := MsgW.stepW_star lw e s hs

open Coap.MsgW in
/-- (4w) lifted to event sequences. -/
theorem held_fifo_exactly_once_w_run (lw : LW) (evs : List Ev) (s : Nat) (hs : s < lw.l.sess.length) :
    Star (DqStep s) lw.l (runW lw evs).l := MsgW.runW_star evs lw s hs

open Coap.MsgW in
/-- (6w, PARTIAL) no idle hold, as long as no FIRST transmission failed in the write (`dev = false`; failing
retransmissions are covered).  The full statement - without the hypothesis on `dev` - is FALSE for the code as it is:
`coap_session_connected` stops draining at the first failing write (`if (bytes_written < 0) break;`), so the messages
behind the failed one wait until the NEXT exchange of the session finishes although a slot may be free (NSTART ≥ 2), and
for ever when the failed write was a NON's and no Confirmable of the session is in flight (open finding
`drain_break_strands_delayed`, KNOWN_FINDINGS.txt; witness below). -/
theorem no_idle_hold_w_partial (ss : List Sess) (t0 : Nat) (wf : List Bool) (evs : List Ev) (s : Nat)
    (hss : ∀ se ∈ ss, se.conActive = 0 ∧ se.delayq = [] ∧ se.nstart ≤ 255) (hs : s < ss.length)
    (hdev : (runW (initW t0 ss wf) evs).dev = false)
    (he : ((runW (initW t0 ss wf) evs).l.getS s).est = true) :
    ∀ n ∈ ((runW (initW t0 ss wf) evs).l.getS s).delayq.head?,
      n.con = true ∧ inflight (runW (initW t0 ss wf) evs).l s = ((runW (initW t0 ss wf) evs).l.getS s).nstart := by
  have ht := (MsgW.runW_tracks evs (initW t0 ss wf) hdev).2
  have hl : (initW t0 ss wf).l = init t0 ss := rfl
  rw [ht, hl] at he ⊢
  exact no_idle_hold ss t0 evs s hss hs he

open Coap.MsgW in
/-- the scenario of seed C08-13 in M: NSTART = 1, Confirmables 1, 2, 3; the ACK for 1 arrives and the write of the
released 2 FAILS (second entry of the oracle): 2 is in the send queue AND counted (`con_active` = 1 = in flight), 3 is
still held (the failed attempt is output number 4); a fourth Confirmable submitted now is HELD behind 3 (nobody
overtakes), nothing is written for it. -/
example :
    let lw := runW (initW 1000 [{ nstart := 1 }] [false, true])
      [.submit 0 true 1 0, .submit 0 true 2 0, .submit 0 true 3 0, .rxAck 0 1]
    let lw' := stepW lw (.submit 0 true 4 0)
    (lw.l.getS 0).conActive = 1 ∧ inflight lw.l 0 = 1 ∧ (lw.l.q.nodes.map (·.mid)) = [2] ∧
    ((lw.l.getS 0).delayq.map (·.mid)) = [3] ∧ lw.failed = [4] ∧
    ((lw'.l.getS 0).delayq.map (·.mid)) = [3, 4] ∧ lw'.l.out = Out.sub (some 4) :: lw.l.out := by decide

open Coap.MsgW in
/-- the exclusion in `no_idle_hold_w_partial` is necessary (`drain_break_strands_delayed`): a NON and a Confirmable are
submitted before the session is established; it comes up, the write of the NON fails: the session is established, holds
the Confirmable, and NOTHING is in flight (NSTART = 2) - `dev` is set. -/
example :
    let lw := runW (initW 1000 [{ nstart := 2 }] [true])
      [.hold 0, .submit 0 false 101 0, .submit 0 true 102 0, .connect 0]
    (lw.l.getS 0).est = true ∧ ((lw.l.getS 0).delayq.map (·.mid)) = [102] ∧ inflight lw.l 0 = 0 ∧ lw.dev = true := by
  decide

/-- the hypotheses of `released_con_takes_slot_whatever_the_write_returns` are satisfiable (write failing) -/
example : (0 : Nat) < (MsgW.initW 0 [{}] [true]).l.sess.length ∧
    (MsgW.initW 0 [{}] [true]).wf.headD false = true := by decide

end Coap.C08
