import CoapVerif.Props.C07
/-
C07, complement of `exactly_once_partial` / `concludes_when_quiet_partial`: the case their hypothesis `NoLate` excludes,
characterised exactly.  For EVERY schedule of the exchange (no `NoLate`):

    nRsp + nNack ≤ 1 + lateArrivals         (`conclusions_bounded_by_late_responses`)

where `lateArrivals` counts the copies of the response message that arrive after the NACK handler has run
(`lateArrivals = 0 ↔ NoLate`); with a late copy the count is exactly 2 = one NACK + one handler call, and that handler
call happens at the FIRST late copy, in a state where the exchange has already concluded (NACK delivered, nothing of the
request left on the send queue) — `late_response_is_second_conclusion`.  So in M the open finding
`unsolicited_response_delivered` is the only way "exactly once" fails for a server that answers with one response message.
-/
namespace Coap.C07
open Coap.Exch

/-- number of copies of the response message `r` that arrive after the NACK handler has run (summed over the NACKs of the
    run — there is at most one: `late_response_is_the_only_failure`).  Mirrors `NoLate`: `lateArrivals = 0 ↔ NoLate`. -/
def lateArrivals (r : Dgram) : Client → List CEvent → Nat
  | _, [] => 0
  | c, e :: es => (if nNack (c.step e).2 > 0 then es.countP (fun e' => decide (isRsp r e')) else 0) +
                  lateArrivals r (c.step e).1 es

theorem countP_isRsp_zero (r : Dgram) (es : List CEvent) :
    es.countP (fun e' => decide (isRsp r e')) = 0 ↔ ∀ e' ∈ es, ¬ isRsp r e' := by
  simp [List.countP_eq_zero]

/-- `NoLate` is exactly "no late arrival" -/
theorem lateArrivals_zero_iff_noLate (r : Dgram) : ∀ (es : List CEvent) (c : Client),
    lateArrivals r c es = 0 ↔ NoLate r c es := by
  intro es
  induction es with
  | nil => intro c; simp [lateArrivals, NoLate]
  | cons e es ih =>
    intro c
    simp only [lateArrivals, NoLate, Nat.add_eq_zero_iff, ih]
    by_cases h : nNack (c.step e).2 > 0
    · simp only [h, if_true, countP_isRsp_zero, true_implies]
    · simp [h]

/-- one event on a client whose exchange is over on the wire (layer idle): the layer stays idle, no NACK; the response
    message is passed to the handler iff the duplicate filter does not hold its id yet -/
theorem step_idle {req r : Dgram} (X : Exchange req r) (c : Client) (hL : c.L = Idle) (e : CEvent) (he : ExEv req r e) :
    (c.step e).1.L = Idle ∧ nNack (c.step e).2 = 0 ∧
    (seen c r → seen (c.step e).1 r ∧ nRsp (c.step e).2 = 0) ∧
    (fresh c r → ¬ isRsp r e → c.step e = (c, [])) ∧
    (fresh c r → isRsp r e → seen (c.step e).1 r ∧ nRsp (c.step e).2 = 1 ∧
      ∃ now ok tl, e = .rx now r ok ∧ (c.step e).2 = Out.callResponse r ok :: tl) := by
  cases he with
  | tick now =>
    have h : c.step (.tick now) = (c, []) := tick_Idle_client c now hL
    rw [h]
    exact ⟨hL, rfl, fun hs => ⟨hs, rfl⟩, fun _ _ => rfl, fun _ hi => hi.elim⟩
  | emptyAck now ok =>
    have h : c.step (.rx now (emptyAck req.mid) ok) = (c, []) := rx_emptyAck_Idle c now ok req.mid hL
    rw [h]
    refine ⟨hL, rfl, fun hs => ⟨hs, rfl⟩, fun _ _ => rfl, fun _ hi => ?_⟩
    exfalso
    have hr := X.hr
    rw [← (show emptyAck req.mid = r from hi)] at hr
    simp [emptyAck, isResponse] at hr
  | response now ok =>
    have hst : c.step (.rx now r ok) = c.rx now r ok := rfl
    rw [hst]
    rcases X.htype with ht | ht
    · rw [rx_pb_Idle c now r ok hL ht X.hr]
      have hnc : r.type = .con → False := fun h => by rw [ht] at h; cases h
      by_cases hd : c.lastAck = some r.mid
      · rw [if_pos hd]
        refine ⟨hL, rfl, fun hs => ⟨hs, rfl⟩, fun hf _ => absurd hd (hf.1 ht), fun hf _ => absurd hd (hf.1 ht)⟩
      · rw [if_neg hd]
        refine ⟨hL, rfl, fun hs => absurd (hs.1 ht) hd, fun _ hn => absurd rfl hn, fun _ _ => ?_⟩
        exact ⟨⟨fun _ => rfl, fun h => (hnc h).elim⟩, by simp, now, ok, [], rfl, rfl⟩
    · rw [rx_con_Idle c now r ok hL ht X.hr]
      have hna : r.type = .ack → False := fun h => by rw [ht] at h; cases h
      by_cases hd : c.lastCon = some r.mid
      · rw [if_pos hd]
        refine ⟨rfl, ?_, fun hs => ⟨⟨fun h => (hna h).elim, fun _ => hd⟩, ?_⟩, fun hf _ => absurd hd (hf.2 ht),
          fun hf _ => absurd hd (hf.2 ht)⟩
        · cases c.lastResOk <;> simp [ackFor, rstFor, ht]
        · cases c.lastResOk <;> simp [ackFor, rstFor, ht]
      · rw [if_neg hd]
        refine ⟨rfl, ?_, fun hs => absurd (hs.2 ht) hd, fun _ hn => absurd rfl hn, fun _ _ => ?_⟩
        · cases ok <;> simp [ackFor, rstFor, ht]
        · refine ⟨⟨fun h => (hna h).elim, fun _ => rfl⟩, ?_, now, ok, _, rfl, rfl⟩
          cases ok <;> simp [ackFor, rstFor, ht]

/-- after the exchange is over and the response has been seen: nothing more is ever reported -/
theorem run_idle_seen {req r : Dgram} (X : Exchange req r) : ∀ (es : List CEvent) (c : Client), c.L = Idle → seen c r →
    (∀ e ∈ es, ExEv req r e) →
    (Client.run c es).1.L = Idle ∧ nNack (Client.run c es).2 = 0 ∧ nRsp (Client.run c es).2 = 0 ∧
    lateArrivals r c es = 0 := by
  intro es
  induction es with
  | nil => intro c hL _ _; exact ⟨hL, rfl, rfl, rfl⟩
  | cons e es ih =>
    intro c hL hs hes
    obtain ⟨a1, a2, a3, _, _⟩ := step_idle X c hL e (hes e (List.mem_cons_self ..))
    obtain ⟨b1, b2, b3, b4⟩ := ih (c.step e).1 a1 (a3 hs).1 (fun e' h => hes e' (List.mem_cons_of_mem _ h))
    rw [Client.run_cons]
    simp only [nNack_append, nRsp_append, lateArrivals]
    have := (a3 hs).2
    refine ⟨b1, by omega, by omega, ?_⟩
    have h0 : ¬ nNack (c.step e).2 > 0 := by omega
    simp [h0, b4]

/-- after the NACK (layer idle, the response not seen yet): no further NACK; the handler is called exactly once iff a
    copy of the response arrives, namely at the first copy, and everything before it is a no-op -/
theorem run_idle_fresh {req r : Dgram} (X : Exchange req r) : ∀ (es : List CEvent) (c : Client), c.L = Idle → fresh c r →
    (∀ e ∈ es, ExEv req r e) →
    (Client.run c es).1.L = Idle ∧ nNack (Client.run c es).2 = 0 ∧ lateArrivals r c es = 0 ∧
    ((∀ e ∈ es, ¬ isRsp r e) → nRsp (Client.run c es).2 = 0) ∧
    ((∃ e ∈ es, isRsp r e) → nRsp (Client.run c es).2 = 1 ∧
      ∃ pre now ok post tl, es = pre ++ .rx now r ok :: post ∧ Client.run c pre = (c, []) ∧
        (c.step (.rx now r ok)).2 = Out.callResponse r ok :: tl) := by
  intro es
  induction es with
  | nil => intro c hL _ _; exact ⟨hL, rfl, rfl, fun _ => rfl, fun ⟨e, he, _⟩ => by cases he⟩
  | cons e es ih =>
    intro c hL hf hes
    have he := hes e (List.mem_cons_self ..)
    have hes' : ∀ e' ∈ es, ExEv req r e' := fun e' h => hes e' (List.mem_cons_of_mem _ h)
    obtain ⟨a1, a2, _, a4, a5⟩ := step_idle X c hL e he
    have h0 : ¬ nNack (c.step e).2 > 0 := by omega
    rw [Client.run_cons]
    simp only [nNack_append, nRsp_append, lateArrivals, h0, if_false, Nat.zero_add]
    by_cases hi : isRsp r e
    · obtain ⟨s1, s2, now, ok, tl, s0, s3⟩ := a5 hf hi
      obtain ⟨b1, b2, b3, b4⟩ := run_idle_seen X es (c.step e).1 a1 s1 hes'
      refine ⟨b1, by omega, b4, fun hno => absurd hi (hno e (List.mem_cons_self ..)), fun _ => ⟨by omega, ?_⟩⟩
      subst s0
      exact ⟨[], now, ok, es, tl, rfl, rfl, s3⟩
    · have hst := a4 hf hi
      rw [hst]
      obtain ⟨b1, b2, b3, b4, b5⟩ := ih c hL hf hes'
      refine ⟨b1, by simpa using b2, b3, ?_, ?_⟩
      · intro hno
        simpa using b4 (fun e' h => hno e' (List.mem_cons_of_mem _ h))
      · rintro ⟨e', he', hie'⟩
        have hex : ∃ e ∈ es, isRsp r e := by
          rcases List.mem_cons.mp he' with rfl | h
          · exact absurd hie' hi
          · exact ⟨e', h, hie'⟩
        obtain ⟨c1, pre, now, ok, post, tl, d1, d2, d3⟩ := b5 hex
        refine ⟨by simpa using c1, e :: pre, now, ok, post, tl, by rw [d1]; rfl, ?_, d3⟩
        rw [Client.run_cons, hst, d2]
        rfl

/-- the duplicate-filter slots do not hold the response's id as long as no copy of the response has arrived -/
theorem fresh_step {req r : Dgram} (c : Client) (hs : CShape req c) (e : CEvent) (he : ExEv req r e)
    (hn : ¬ isRsp r e) (hf : fresh c r) : fresh (c.step e).1 r := by
  cases he with
  | tick now => exact hf
  | emptyAck now ok =>
    rcases hs with hL | ⟨n, hL, hnd⟩
    · have h : c.step (.rx now (emptyAck req.mid) ok) = (c, []) := rx_emptyAck_Idle c now ok req.mid hL
      rw [h]; exact hf
    · have h := rx_emptyAck_Wt c now ok n hL
      rw [hnd] at h
      have h' : c.step (.rx now (emptyAck req.mid) ok) = ({ c with L := Idle }, []) := h
      rw [h']; exact hf
  | response now ok => exact absurd rfl hn

/-- a schedule with a late copy of the response, from any phase before the NACK: the exchange concludes exactly twice —
    one NACK, then one handler call at the first late copy -/
theorem run_late {req r : Dgram} (X : Exchange req r) : ∀ (es : List CEvent) (ph : Ph) (c : Client),
    PhOk req r ph c → ph ≠ .nacked → (∀ e ∈ es, ExEv req r e) → 0 < lateArrivals r c es →
    scoreR ph = 0 ∧ nRsp (Client.run c es).2 = 1 ∧ nNack (Client.run c es).2 = 1 ∧ (Client.run c es).1.L = Idle ∧
    ∃ pre now ok post tl, es = pre ++ .rx now r ok :: post ∧
      nNack (Client.run c pre).2 = 1 ∧ nRsp (Client.run c pre).2 = 0 ∧ (Client.run c pre).1.L = Idle ∧
      ((Client.run c pre).1.step (.rx now r ok)).2 = Out.callResponse r ok :: tl := by
  intro es
  induction es with
  | nil => intro ph c _ _ _ h; simp [lateArrivals] at h
  | cons e es ih =>
    intro ph c hok hne hes hla
    have he := hes e (List.mem_cons_self ..)
    have hes' : ∀ e' ∈ es, ExEv req r e' := fun e' h => hes e' (List.mem_cons_of_mem _ h)
    obtain ⟨ph1, hok1, hr1, hn1, h4⟩ := step_ph X ph c hok e he (fun h => absurd h hne)
    have hN0 : scoreN ph = 0 := by cases ph <;> simp [scoreN] at hne ⊢
    rw [Client.run_cons]
    simp only [nRsp_append, nNack_append]
    by_cases hk : nNack (c.step e).2 > 0
    · have hp1 : ph1 = .nacked := by
        cases ph1 <;> simp [scoreN] at hn1 ⊢ <;> omega
      subst hp1
      have hI : (c.step e).1.L = Idle := hok1
      have hsr : scoreR Ph.nacked = 0 := rfl
      have hsn : scoreN Ph.nacked = 1 := rfl
      have hR0 : scoreR ph = 0 ∧ nRsp (c.step e).2 = 0 := by omega
      have hN1 : nNack (c.step e).2 = 1 := by omega
      have hni : ¬ isRsp r e := fun h => by have := h4 h; cases this
      have hf : fresh c r := by
        cases ph with
        | waiting => exact hok.2
        | acked => exact hok.2
        | responded => simp [scoreR] at hR0
        | nacked => exact absurd rfl hne
      have hf1 := fresh_step c (PhOk_shape hok) e he hni hf
      obtain ⟨b1, b2, b3, _, b5⟩ := run_idle_fresh X es (c.step e).1 hI hf1 hes'
      have hex : ∃ e' ∈ es, isRsp r e' := by
        simp only [lateArrivals, hk, if_true, b3, Nat.add_zero] at hla
        have hnz : ¬ (es.countP (fun e' => decide (isRsp r e')) = 0) := by omega
        rw [countP_isRsp_zero] at hnz
        exact Classical.byContradiction (fun h => hnz (fun e' he' hi => h ⟨e', he', hi⟩))
      obtain ⟨c1, pre, now, ok, post, tl, d1, d2, d3⟩ := b5 hex
      refine ⟨hR0.1, by omega, by omega, b1, e :: pre, now, ok, post, tl, by rw [d1]; rfl, ?_, ?_, ?_, ?_⟩
      · rw [Client.run_cons, d2]; simp only [nNack_append, nNack_nil]; omega
      · rw [Client.run_cons, d2]; simp only [nRsp_append, nRsp_nil]; omega
      · rw [Client.run_cons, d2]; exact hI
      · rw [Client.run_cons, d2]; exact d3
    · have hk0 : nNack (c.step e).2 = 0 := by omega
      have hne1 : ph1 ≠ .nacked := by
        intro h; subst h
        have hsn : scoreN Ph.nacked = 1 := rfl
        omega
      have hla1 : 0 < lateArrivals r (c.step e).1 es := by
        simpa only [lateArrivals, hk, if_false, Nat.zero_add] using hla
      obtain ⟨c0, c1, c2, c3, pre, now, ok, post, tl, d1, d2, d3, d4, d5⟩ := ih ph1 (c.step e).1 hok1 hne1 hes' hla1
      rw [c0] at hr1
      refine ⟨by omega, by omega, by omega, c3, e :: pre, now, ok, post, tl, by rw [d1]; rfl, ?_, ?_, ?_, ?_⟩
      · rw [Client.run_cons]; simp only [nNack_append]; omega
      · rw [Client.run_cons]; simp only [nRsp_append]; omega
      · rw [Client.run_cons]; exact d4
      · rw [Client.run_cons]; exact d5

/-- **The open finding is the ONLY way exactly-once fails in M** (complement of `exactly_once_partial`: no `NoLate`).
    A Confirmable request sent from a quiet session, EVERY schedule of timer steps and arrivals of copies of the Empty ACK
    and of the server's response message (every pattern of loss, duplication, delay, retransmission — late copies
    included): the number of conclusions is at most `1 + lateArrivals`, where `lateArrivals` counts the copies of the
    response that arrive after the NACK handler has run; never more than one NACK, never more than one handler call,
    never more than 2 in total, and exactly 2 iff there is a late copy. -/
theorem conclusions_bounded_by_late_responses {req r : Dgram} (X : Exchange req r) (c0 : Client) (hidle : c0.L = Idle)
    (hfresh : fresh c0 r) (now0 T : Nat) (es : List CEvent) (hes : ∀ e ∈ es, ExEv req r e) :
    nRsp (Client.run c0 (.appSend now0 req T :: es)).2 + nNack (Client.run c0 (.appSend now0 req T :: es)).2 ≤
      1 + lateArrivals r (c0.appSend now0 req T).1 es ∧
    nRsp (Client.run c0 (.appSend now0 req T :: es)).2 ≤ 1 ∧ nNack (Client.run c0 (.appSend now0 req T :: es)).2 ≤ 1 ∧
    (nRsp (Client.run c0 (.appSend now0 req T :: es)).2 + nNack (Client.run c0 (.appSend now0 req T :: es)).2 = 2 ↔
      0 < lateArrivals r (c0.appSend now0 req T).1 es) := by
  by_cases hz : lateArrivals r (c0.appSend now0 req T).1 es = 0
  · have hnl := (lateArrivals_zero_iff_noLate r es _).mp hz
    have := (exactly_once_partial X c0 hidle hfresh now0 T es hes hnl).1
    rw [hz]
    exact ⟨by omega, by omega, by omega, by omega⟩
  · have hs := appSend_Idle c0 now0 req T hidle X.hreq
    have hok : PhOk req r .waiting (c0.appSend now0 req T).1 := by
      rw [hs]; exact ⟨⟨_, rfl, rfl⟩, hfresh⟩
    obtain ⟨_, h1, h2, _, _⟩ := run_late X es .waiting _ hok (by intro h; cases h) hes (by omega)
    have ho : (c0.appSend now0 req T).2 = [Out.tx req] := by rw [hs]
    have hrun : Client.run c0 (.appSend now0 req T :: es) =
        ((Client.run (c0.appSend now0 req T).1 es).1, [Out.tx req] ++ (Client.run (c0.appSend now0 req T).1 es).2) := by
      rw [Client.run_cons]; simp only [Client.step, ho]
    have e1 : nRsp (Client.run c0 (.appSend now0 req T :: es)).2 = 1 := by
      rw [hrun]; simp only [nRsp_append, nRsp_cons_tx, nRsp_nil]; omega
    have e2 : nNack (Client.run c0 (.appSend now0 req T :: es)).2 = 1 := by
      rw [hrun]; simp only [nNack_append, nNack_cons_tx, nNack_nil]; omega
    rw [e1, e2]
    exact ⟨by omega, by omega, by omega, fun _ => by omega, fun _ => rfl⟩

/-- **With a late response the count is exactly 2, and the second conclusion is a handler call for an exchange that has
    already concluded**: if a copy of the response arrives after the NACK, the schedule splits at the FIRST such copy
    `es = pre ++ rx now r ok :: post`; at the end of `pre` the request has concluded by its NACK (one NACK, no handler
    call) and is off the wire (layer idle: nothing with the request's token on the send queue, NSTART slot free); the
    arrival then calls the response handler with `r`, a message carrying the token of that concluded request — the client
    keeps no record of outstanding tokens (`unsolicited_response_delivered`).  Nothing else is reported, before or after:
    the totals are one NACK and one handler call. -/
theorem late_response_is_second_conclusion {req r : Dgram} (X : Exchange req r) (c0 : Client) (hidle : c0.L = Idle)
    (hfresh : fresh c0 r) (now0 T : Nat) (es : List CEvent) (hes : ∀ e ∈ es, ExEv req r e)
    (hlate : 0 < lateArrivals r (c0.appSend now0 req T).1 es) :
    nRsp (Client.run c0 (.appSend now0 req T :: es)).2 = 1 ∧ nNack (Client.run c0 (.appSend now0 req T :: es)).2 = 1 ∧
    r.token = req.token ∧
    ∃ pre now ok post tl, es = pre ++ .rx now r ok :: post ∧
      nNack (Client.run c0 (.appSend now0 req T :: pre)).2 = 1 ∧ nRsp (Client.run c0 (.appSend now0 req T :: pre)).2 = 0 ∧
      (Client.run c0 (.appSend now0 req T :: pre)).1.L = Idle ∧
      ((Client.run c0 (.appSend now0 req T :: pre)).1.step (.rx now r ok)).2 = Out.callResponse r ok :: tl := by
  have hs := appSend_Idle c0 now0 req T hidle X.hreq
  have hok : PhOk req r .waiting (c0.appSend now0 req T).1 := by
    rw [hs]; exact ⟨⟨_, rfl, rfl⟩, hfresh⟩
  obtain ⟨_, h1, h2, _, pre, now, ok, post, tl, d1, d2, d3, d4, d5⟩ :=
    run_late X es .waiting _ hok (by intro h; cases h) hes hlate
  have ho : (c0.appSend now0 req T).2 = [Out.tx req] := by rw [hs]
  have hrun : ∀ l, Client.run c0 (.appSend now0 req T :: l) =
      ((Client.run (c0.appSend now0 req T).1 l).1, [Out.tx req] ++ (Client.run (c0.appSend now0 req T).1 l).2) := by
    intro l; rw [Client.run_cons]; simp only [Client.step, ho]
  refine ⟨?_, ?_, X.htok, pre, now, ok, post, tl, d1, ?_, ?_, ?_, ?_⟩
  · rw [hrun]; simp only [nRsp_append, nRsp_cons_tx, nRsp_nil]; omega
  · rw [hrun]; simp only [nNack_append, nNack_cons_tx, nNack_nil]; omega
  · rw [hrun]; simp only [nNack_append, nNack_cons_tx, nNack_nil]; omega
  · rw [hrun]; simp only [nRsp_append, nRsp_cons_tx, nRsp_nil]; omega
  · rw [hrun]; exact d4
  · rw [hrun]; exact d5

/-- non-vacuity and sharpness: the run of `late_response_after_nack_witness` with TWO late copies of the separate
    response — `lateArrivals = 2`, the hypotheses hold, one NACK and one handler call (the second late copy is filtered
    by `last_con_mid`): the bound `1 + lateArrivals` is not attained beyond 2; and a schedule without a late copy
    (`lateArrivals = 0`, i.e. `NoLate`) -/
example :
    let es : List CEvent := [.tick 3000, .tick 7000, .tick 15000, .tick 31000, .tick 63000, .rx 76001 (wRsp 5001) true,
                             .tick 80000, .rx 90000 (wRsp 5001) true]
    Exchange wReq (wRsp 5001) ∧ (∀ e ∈ es, ExEv wReq (wRsp 5001) e) ∧
    lateArrivals (wRsp 5001) (({} : Client).appSend 1000 wReq 2000).1 es = 2 ∧
    nRsp (Client.run {} (.appSend 1000 wReq 2000 :: es)).2 = 1 ∧ nNack (Client.run {} (.appSend 1000 wReq 2000 :: es)).2 = 1 ∧
    lateArrivals (wRsp 5001) (({} : Client).appSend 1000 wReq 2000).1 [.tick 3000, .rx 3500 (wRsp 5001) true, .tick 99000] = 0 := by
  refine ⟨⟨rfl, by decide, rfl, Or.inr rfl, fun h => by cases h⟩, ?_, by decide, by decide, by decide, by decide⟩
  intro e he
  simp only [List.mem_cons, List.mem_nil_iff, or_false] at he
  rcases he with rfl | rfl | rfl | rfl | rfl | rfl | rfl | rfl
  · exact .tick _
  · exact .tick _
  · exact .tick _
  · exact .tick _
  · exact .tick _
  · exact .response _ _
  · exact .tick _
  · exact .response _ _

end Coap.C07
