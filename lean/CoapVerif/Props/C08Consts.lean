import CoapVerif.Model.MsgLayerX
import CoapVerif.Generated.Consts2
/-
C08 / T1 (workstream T1X) — the defaults of the message-layer model's session, the message-id modulus and the tick rate
are those of the current tree (`Generated.C2.*`, rewritten from /repo's working tree on every check).
-/
namespace Coap.C08
open Coap Coap.Generated

/-- `coap_session_t` after coap_make_session: COAP_DEFAULT_ACK_TIMEOUT, COAP_DEFAULT_ACK_RANDOM_FACTOR,
COAP_DEFAULT_MAX_RETRANSMIT, COAP_DEFAULT_NSTART -/
theorem sess_defaults_matches_code :
    ({} : Msg.Sess).atI = C2.ackTimeoutInt ∧ ({} : Msg.Sess).atF = C2.ackTimeoutFrac ∧
    ({} : Msg.Sess).arfI = C2.ackRandomFactorInt ∧ ({} : Msg.Sess).arfF = C2.ackRandomFactorFrac ∧
    ({} : Msg.Sess).maxRtx = C2.COAP_DEFAULT_MAX_RETRANSMIT ∧ ({} : Msg.Sess).nstart = C2.COAP_DEFAULT_NSTART := by decide

set_option maxRecDepth 8000 in
/-- the first timeout of a default session is the compiled `coap_calc_timeout`, for every PRNG byte -/
theorem sess_calcTimeout_matches_code : ∀ r, r < 256 →
    SQ.calcTimeout ({} : Msg.Sess).atI ({} : Msg.Sess).atF ({} : Msg.Sess).arfI ({} : Msg.Sess).arfF r =
      C2.calcTimeoutDefault.getD r 0 := by decide

/-- `++session->tx_mid` on a `uint16_t`; `MsgX.noTok` is the first value that is not a message id -/
theorem mid_modulus_matches_code : MsgX.noTok = C2.midModulus ∧ (65536 : Nat) = C2.midModulus := by decide

/-- `ping_timeout * COAP_TICKS_PER_SECOND` in `MsgX.clampDelay`, for every argument -/
theorem clampDelay_matches_code (pt prng delay : Nat) :
    MsgX.clampDelay pt prng delay =
      if pt ≠ 0 ∧ pt * C2.COAP_TICKS_PER_SECOND < delay then pt * C2.COAP_TICKS_PER_SECOND - 255 + prng else delay := by
  have h : C2.COAP_TICKS_PER_SECOND = 1000 := by decide
  rw [h]; rfl

example : MsgX.clampDelay 3 7 5000 = 2752 := by decide

end Coap.C08
