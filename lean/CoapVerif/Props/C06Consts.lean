import CoapVerif.Model.SendQueue
import CoapVerif.Model.MsgLayer
import CoapVerif.Model.ObserveWait
import CoapVerif.Generated.Consts2
/-
C06 / T1 (workstream T1X) — the fixed-point arithmetic of `SQ.calcTimeout` / `SQ.qfix` is the one compiled into the
current tree: FRAC_BITS, MAX_BITS (private to src/coap_net.c), the Q6 images of the default parameters, and the value
of the compiled `coap_calc_timeout` itself for every PRNG byte (extract/consts2_net.c), plus COAP_TICKS_PER_SECOND.
-/
namespace Coap.C06
open Coap Coap.Generated

/-- `Q(FRAC_BITS, fval)`: the model's 64 is `1 << FRAC_BITS`, for every fixed-point value -/
theorem qfix_matches_code (ip fp : Nat) :
    SQ.qfix ip fp = (2 ^ C2.FRAC_BITS * ip + (2 ^ C2.FRAC_BITS * fp + 500) / 1000) % 65536 := by
  have h : C2.FRAC_BITS = 6 := by decide
  rw [h]; rfl

/-- the shifts `>> MAX_BITS`, `>> FRAC_BITS` and the rounding halves written as 256, 128, 64, 32 in `SQ.calcTimeout` -/
theorem calcTimeout_shifts_matches_code :
    2 ^ C2.MAX_BITS = 256 ∧ 2 ^ (C2.MAX_BITS - 1) = 128 ∧ 2 ^ C2.FRAC_BITS = 64 ∧ 2 ^ (C2.FRAC_BITS - 1) = 32 ∧
    C2.qOne = 64 ∧ C2.COAP_TICKS_PER_SECOND = 1000 := by decide

/-- the Q6 images of the default ACK_TIMEOUT and ACK_RANDOM_FACTOR -/
theorem qfix_defaults_matches_code :
    SQ.qfix C2.ackTimeoutInt C2.ackTimeoutFrac = C2.qAckTimeout ∧
    SQ.qfix C2.ackRandomFactorInt C2.ackRandomFactorFrac = C2.qAckRandomFactor ∧ SQ.qfix 1 0 = C2.qOne := by decide

set_option maxRecDepth 8000 in
/-- with the default parameters the model's `calcTimeout` returns what the compiled `coap_calc_timeout` returns, for
every value of the PRNG byte (the C parameter is an `unsigned char`) -/
theorem calcTimeout_matches_code : ∀ r, r < 256 →
    SQ.calcTimeout C2.ackTimeoutInt C2.ackTimeoutFrac C2.ackRandomFactorInt C2.ackRandomFactorFrac r =
      C2.calcTimeoutDefault.getD r 0 := by decide

/-- the default session of the message-layer model carries the compiled defaults -/
theorem sess_defaults_matches_code :
    ({} : Msg.Sess).atI = C2.ackTimeoutInt ∧ ({} : Msg.Sess).atF = C2.ackTimeoutFrac ∧
    ({} : Msg.Sess).arfI = C2.ackRandomFactorInt ∧ ({} : Msg.Sess).arfF = C2.ackRandomFactorFrac ∧
    ({} : Msg.Sess).maxRtx = C2.COAP_DEFAULT_MAX_RETRANSMIT ∧ ({} : Msg.Sess).nstart = C2.COAP_DEFAULT_NSTART := by decide

/-- `coap_io_prepare_io_lkd`'s conversion of ticks to milliseconds, `(timeout * 1000 + COAP_TICKS_PER_SECOND - 1) /
COAP_TICKS_PER_SECOND`, as written in `Msg.prepareCore` / `Observe.waitOf` -/
theorem ticks_to_ms_matches_code (t : Nat) :
    (t * 1000 + 999) / 1000 = (t * 1000 + C2.COAP_TICKS_PER_SECOND - 1) / C2.COAP_TICKS_PER_SECOND := by
  have h : C2.COAP_TICKS_PER_SECOND = 1000 := by decide
  rw [h]; rfl

example : SQ.calcTimeout 2 0 1 500 255 = 3000 := by decide

end Coap.C06
