import CoapVerif.Lemmas.Stream
namespace Coap.C05
end Coap.C05
