import CoapVerif.Lemmas.StreamFeed
import CoapVerif.Lemmas.StreamWs
import CoapVerif.Lemmas.StreamWsSafe
import CoapVerif.Lemmas.StreamWsClose
/-
C05 — stream transports deliver the same messages however the byte stream is cut.

  S = Coap.Spec.Stream.framesOf   (RFC 8323 §3.2 framing + RFC 8974 + Spec.decode per frame; Spec/Stream.lean)
  M = Coap.M.Stream.feed          (the TCP/TLS branch of coap_read_session, one `call` per chunk; Model/StreamReader.lean)

`m` is coap_session_max_pdu_rcv_size(session); `Cap m` : 0 < m ∧ m + 6 ≤ COAP_DEFAULT_MAX_PDU_RX_SIZE.
`conv` maps S's result to M's: the messages, and `open leftover ↦ cont (stateOf leftover)`, `closed ↦ closed`,
where `stateOf` is the reader state determined by the pending bytes (Lemmas/StreamLoop.lean).
Property theorems only; helper lemmas live in Lemmas/Stream*.lean.
-/
namespace Coap.C05
open Coap Coap.M.Stream Coap.Spec.Stream

/-- (P1) M = S for every segmentation: whatever way the stream is handed to the reader — any number of
chunks of any sizes, including empty ones and reads that fill the 1472-byte buffer exactly — the messages
that reach coap_dispatch, their order, whether the session is closed, and the reader's final state are
those the specification computes from the concatenated bytes alone. -/
theorem reader_eq_spec (m : Nat) (hc : Cap m) (chunks : List Bytes) :
    feed m St.init chunks = conv (framesOf m chunks.flatten) := by
  have := feed_eq_frames m hc chunks [] trivial
  simpa [stateOf, St.init] using this

/-- (the property) two segmentations of the same byte stream deliver the same messages in the same order
and end in the same state -/
theorem reader_segmentation_invariant (m : Nat) (hc : Cap m) (chunks₁ chunks₂ : List Bytes)
    (h : chunks₁.flatten = chunks₂.flatten) :
    feed m St.init chunks₁ = feed m St.init chunks₂ := by
  rw [reader_eq_spec m hc, reader_eq_spec m hc, h]

theorem segment_flatten : ∀ (cuts : List Nat) (stream : Bytes), (segment stream cuts).flatten = stream := by
  intro cuts
  induction cuts with
  | nil => intro s; simp [segment]
  | cons n ns ih => intro s; simp [segment, ih, List.take_append_drop]

/-- the same, stated over cut placements: for all streams and all ways `cuts₁`, `cuts₂` of cutting them -/
theorem reader_cut_invariant (m : Nat) (hc : Cap m) (stream : Bytes) (cuts₁ cuts₂ : List Nat) :
    feed m St.init (segment stream cuts₁) = feed m St.init (segment stream cuts₂) :=
  reader_segmentation_invariant m hc _ _ (by rw [segment_flatten, segment_flatten])

/-- a header whose declared length exceeds the configured maximum closes the session, under every
segmentation, as soon as the header is complete: the messages before it are delivered, nothing of the
oversize frame or after it is, and no reader state (no partial PDU, no buffered byte) survives -/
theorem oversize_closes (m : Nat) (hc : Cap m) (pre hdr rest : Bytes) (b0 : UInt8) (r : Bytes) (ms : List Msg)
    (hpre : framesOf m pre = (ms, .open [])) (hb : hdr = b0 :: r) (hl : hdr.length = hdrLen b0)
    (hbig : m < declared hdr) (chunks : List Bytes) (hs : chunks.flatten = pre ++ (hdr ++ rest)) :
    feed m St.init chunks = (ms, .closed) := by
  rw [reader_eq_spec m hc, hs, frames_append m (pre.length + 1) pre (hdr ++ rest) (Nat.lt_succ_self _)]
  have hp : frames m (pre.length + 1) pre = (ms, .open []) := hpre
  rw [hp]
  simp only [after, List.nil_append]
  have hnot : ¬ (hdr ++ rest).length < hdrLen b0 := by rw [List.length_append]; omega
  have hfo : framesOf m (hdr ++ rest) = frames m ((hdr ++ rest).length + 1) (hdr ++ rest) := rfl
  rw [hfo, frames_full' m _ (hdr ++ rest) b0 (r ++ rest) (by rw [hb]; rfl) hnot, List.take_left' hl, if_pos hbig]
  simp [conv, outOf]

/-- no message is stuck: when the session is still open after the last chunk, what the reader holds is a
proper prefix `l` of one frame (`Pend`: header incomplete, or fewer bytes than the header declares), and
everything the specification finds in the bytes received has been delivered -/
theorem no_message_stuck (m : Nat) (hc : Cap m) (chunks : List Bytes) (st : St)
    (h : (feed m St.init chunks).2 = .cont st) :
    ∃ l, st = stateOf l ∧ Pend m l ∧ framesOf m chunks.flatten = ((feed m St.init chunks).1, .open l) := by
  rw [reader_eq_spec m hc] at h ⊢
  have hp := frames_leftover_pend m (chunks.flatten.length + 1) chunks.flatten
  have hfo : framesOf m chunks.flatten = frames m (chunks.flatten.length + 1) chunks.flatten := rfl
  rw [hfo] at h ⊢
  generalize frames m (chunks.flatten.length + 1) chunks.flatten = rr at h hp ⊢
  obtain ⟨ms, e⟩ := rr
  cases e with
  | closed => simp [conv, outOf] at h
  | «open» l =>
    simp only [conv, outOf, Out.cont.injEq] at h
    exact ⟨l, h.symm, hp ms l (Nat.lt_succ_self _) rfl, rfl⟩

/-- (P2) the specification delivers every complete frame: a stream that starts with a whole frame whose
declared length is within the limit yields that frame's message (if it decodes) followed by the messages
of the rest — so, with `no_message_stuck`, every message completely contained in the bytes received has
been handed on -/
theorem spec_delivers_complete_frame (m : Nat) (frame rest : Bytes) (b0 : UInt8) (r : Bytes) (hb : frame = b0 :: r)
    (hl : hdrLen b0 ≤ frame.length) (hd : declared (frame.take (hdrLen b0)) ≤ m)
    (ht : frame.length = fixedLen b0 + declared (frame.take (hdrLen b0))) :
    framesOf m (frame ++ rest) =
      (deliver (Spec.decode .tcp frame) (framesOf m rest).1, (framesOf m rest).2) := by
  have hnot : ¬ (frame ++ rest).length < hdrLen b0 := by rw [List.length_append]; omega
  have hfo : framesOf m (frame ++ rest) = frames m ((frame ++ rest).length + 1) (frame ++ rest) := rfl
  have h2 := fixedLen_ge b0
  rw [hfo, frames_full' m _ (frame ++ rest) b0 (r ++ rest) (by rw [hb]; rfl) hnot,
    List.take_append_of_le_length hl, if_neg (Nat.not_lt.mpr hd)]
  have hno : ¬ (frame ++ rest).length < fixedLen b0 + declared (frame.take (hdrLen b0)) := by
    rw [List.length_append]; omega
  rw [if_neg hno, List.take_left' ht, List.drop_left' ht]
  have : frames m (frame ++ rest).length rest = framesOf m rest := by
    apply frames_fuel
    · rw [List.length_append]; omega
    · exact Nat.lt_succ_self _
  rw [this]

/-- the reader never indexes `read_header` at or beyond 8 and never reads a byte it has not written -/
theorem reader_no_oob (m : Nat) (hc : Cap m) (chunks : List Bytes) : (feed m St.init chunks).2 ≠ .oob := by
  rw [reader_eq_spec m hc]
  generalize framesOf m chunks.flatten = rr
  obtain ⟨ms, e⟩ := rr
  cases e <;> simp [conv, outOf]

/-! ### non-vacuity -/

/-- the default configuration satisfies the hypothesis: csm_max_message_size = COAP_DEFAULT_MAX_PDU_RX_SIZE -/
example : Cap (maxPduSizeInternal maxRx) := by unfold Cap; decide
example : Cap (maxPduSizeInternal 64) := by unfold Cap; decide
example : Cap (maxPduSizeInternal 1152) := by unfold Cap; decide

/-- two GETs, the second with Uri-Path "a", cut as 1,1,1,rest (the former defect), one byte per read, whole -/
example : feed 100 St.init [[0x20], [0x01], [0xb0], [0x00, 0x20, 0x01, 0xb1, 0x61]] =
    ([⟨0, 1, 0, [], [(11, []), (11, [])], []⟩, ⟨0, 1, 0, [], [(11, [0x61])], []⟩], .cont St.init) := by decide
example : framesOf 100 [0x20, 0x01, 0xb0, 0x00, 0x20, 0x01, 0xb1, 0x61] =
    ([⟨0, 1, 0, [], [(11, []), (11, [])], []⟩, ⟨0, 1, 0, [], [(11, [0x61])], []⟩], .open []) := by decide
/-- extended length + extended token header (hdrLen = 4): cut inside every header field -/
example : (feed 100 St.init [[0xdd], [0x00], [0x01], [0x00], [1,2,3,4,5,6,7,8,9,10,11,12,13, 0xff, 1,2,3,4,5,6,7,8,9,10,11,12]]).1 =
    [⟨0, 1, 0, [1,2,3,4,5,6,7,8,9,10,11,12,13], [], [1,2,3,4,5,6,7,8,9,10,11,12]⟩] := by decide
/-- oversize: Len form 4 declares 65805 + 2^24 bytes > max -/
example : feed 8388858 St.init [[0xf0, 0x01], [0x00], [0x00, 0x00, 0x01]] = ([], .closed) := by decide
/-- an undecodable frame (reserved TKL 15) is dropped, the stream goes on -/
example : (feed 100 St.init [[0x0f, 0x01, 0x00], [0x01]]).1 = [⟨0, 1, 0, [], [], []⟩] := by decide

/-! ## WebSocket sessions

  S_ws = Coap.Spec.Stream.Ws.run      (handshake lines + RFC 6455 frames; Spec/StreamWs.lean)
  M_ws = Coap.M.Ws.feed               (coap_ws_rd_http_header, coap_ws_read, WS branch of coap_read_session after the
                                       eight `fix:` commits; Model/WsReader.lean)

PROVED (second part of this section): M_ws = S_ws for every chunk list of every byte stream —

  * whole connection incl. the HTTP upgrade, full strength, no hypothesis on the bytes (`ws_reader_eq_spec`,
    `ws_reader_segmentation_invariant`, `ws_reader_cut_invariant`, `ws_no_message_stuck`, `ws_reader_no_oob`):
    NUL bytes inside the header block are part of S (SPEC DECISION D20: a line with a NUL in front of its LF has no
    end; libcoap's strchr sees it the same way, `lfIdx_eq`), and a header line that starts with its separator —
    which libcoap used to take for the end of the header block (`ws c <101 response> " x\r\n" <frame>` delivered
    the frame's message from a connection whose header block had not ended) — is refused since the `fix:` commit;
    the model is transcribed from the fixed code (`ws_blank_led_line_refused`);
  * frame phase (`ws_frames_eq_spec`, `ws_frames_segmentation_invariant`, `ws_frames_cut_invariant`,
    `ws_frames_no_message_stuck`, `ws_frames_no_oob`): from every reader state of the invariant `WsInv` whose
    handshake is done (in particular the state right after the handshake), for every list of chunks;
  * `ws_reader_final_state` (Lemmas/StreamWsSafe.lean): an open session holds at most an unfinished header line or
    a proper prefix of one frame.

Method (Lemmas/StreamWs{Defs,Hs,Frames,Session,Feed}.lean): the abstraction `Abs` = (phase, bytes consumed but not yet
delivered), the invariant `WsInv mode st a` tying (http_hdr, seen_*, rd_header/hdr_ofs, all_hdr_in, mask_key, data_size,
data_ofs, rx_data) to S's parser position `a`, "remaining work" step lemmas for coap_ws_rd_http_header
(`rdHttpHeader_spec`), coap_ws_read (`readFrame_spec`, `readData_post`), coap_read_session (`readSession_spec`), the
event loop on a chunk (`feedChunk_spec`) and induction over the chunk list (`feed_spec`).

First part of the section (older, kept): the one-step closing lemma of M_ws in any state and the closing clauses
of S_ws. -/
section Ws
open Coap.M.Ws Coap.Spec.Stream.Ws

/-- M_ws, any state before the handshake is complete: with 159 bytes of a line buffered and no line end, the
next call closes the session; it reads nothing more -/
theorem ws_long_line_closes (mode : Mode) (accept : Bytes) (fuel : Nat) (st : Coap.M.Ws.St) (av : Bytes)
    (hup : st.up = false) (hlen : httpCap - 1 ≤ st.httpHdr.length) :
    readSession mode accept (fuel + 1) st av = ([], .closed, av) :=
  readSession_long_line mode accept fuel st av hup hlen

/-- S_ws: a handshake line longer than the limit closes the session, whether its end never comes … -/
theorem ws_spec_long_line_closes {σ} (V : Validator σ) (mode : Mode) (bs : Bytes) (hlf : lfIndex bs = none)
    (hlen : maxLine < bs.length) : run V mode bs = ⟨[], false, true⟩ := spec_long_line V mode bs hlf hlen

/-- … or comes too late -/
theorem ws_spec_late_line_end_closes {σ} (V : Validator σ) (mode : Mode) (bs : Bytes) (i : Nat)
    (hlf : lfIndex bs = some i) (hlen : maxLine < i) : run V mode bs = ⟨[], false, true⟩ :=
  spec_late_line_end V mode bs i hlf hlen

/-- S_ws: a frame declaring more than the 1472-byte buffer closes the session; nothing of it is delivered -/
theorem ws_spec_oversize_frame_closes (mode : Mode) (fuel : Nat) (b0 b1 : UInt8) (r : Bytes)
    (hmask : ¬ (mode = .server ∧ ¬ b1.toNat / 128 = 1))
    (hhdr : ¬ r.length < (if b1.toNat % 128 = 127 then 8 else if b1.toNat % 128 = 126 then 2 else 0) +
        (if b1.toNat / 128 = 1 then 4 else 0))
    (hop : b0.toNat % 16 = 2)
    (hbig : maxFrame < (if (if b1.toNat % 128 = 127 then 8 else if b1.toNat % 128 = 126 then 2 else 0) = 0
        then b1.toNat % 128 else be (r.take (if b1.toNat % 128 = 127 then 8 else if b1.toNat % 128 = 126 then 2 else 0)))) :
    Coap.Spec.Stream.Ws.frames mode (fuel + 1) (b0 :: b1 :: r) = ([], true) :=
  spec_oversize_frame_closes mode fuel b0 b1 r hmask hhdr hop hbig

/-- non-vacuity: 16-bit length 1473, unmasked, as client -/
example : Coap.Spec.Stream.Ws.frames .client 5 [0x82, 0x7e, 0x05, 0xc1, 0, 1] = ([], true) := by decide
/-- three tiny frames in one read (the former "left in the header buffer" defect), then one byte per read -/
example : (Coap.M.Ws.feed .client [] { up := true } [[0x82, 2, 0, 1, 0x82, 2, 0, 2, 0x82, 2, 0, 3]]).1 =
    [⟨0, 1, 0, [], [], []⟩, ⟨0, 2, 0, [], [], []⟩, ⟨0, 3, 0, [], [], []⟩] := by decide
example : (Coap.M.Ws.feed .client [] { up := true } [[0x82], [3], [1], [1], [0xaa]]).1 = [⟨0, 1, 0, [0xaa], [], []⟩] := by
  decide
/-- masked frame to the server side, payload cut in two (the former "payload in the caller's stack" defect) -/
example : (Coap.M.Ws.feed .server [] { up := true } [[0x82, 0x83, 1, 2, 3, 4, 0], [3, 0xa9]]).1 =
    [⟨0, 1, 0, [0xaa], [], []⟩] := by decide


/-! ### M_ws = S_ws for every segmentation -/

/-- the reader state of a new session satisfies the invariant: handshake phase, nothing consumed -/
theorem ws_init_inv (mode : Mode) : WsInv mode {} (.hs {} []) :=
  ⟨⟨rfl, rfl, (by decide), rfl, rfl, rfl⟩, rfl, rfl⟩

/-- the reader state right after the handshake (nothing carried over) satisfies the invariant -/
theorem ws_up_inv (mode : Mode) : WsInv mode { up := true } (.fr []) := Or.inl ⟨⟨rfl, rfl, rfl, rfl⟩, trivial⟩

/-- (P1, frame phase, full strength) from every reader state `st` whose handshake is done and that satisfies the
invariant with pending bytes `p` (header bytes in `rd_header`, or complete header ++ the payload bytes in
`rx_data`): whatever way the following bytes are handed to the reader, the messages that reach coap_dispatch,
their order and whether the session is closed are what RFC 6455 framing (S) yields on `p ++` the concatenated
bytes; the reader never leaves its buffers (`oob`) and never stalls with bytes available (`stuck`). -/
theorem ws_frames_eq_spec (mode : Mode) (accept : Bytes) (st : Coap.M.Ws.St) (p : Bytes) (hinv : WsInv mode st (.fr p))
    (chunks : List Bytes) :
    wsObs (Coap.M.Ws.feed mode accept st chunks) =
      specObs ⟨(frames mode ((p ++ chunks.flatten).length + 1) (p ++ chunks.flatten)).1, true,
               (frames mode ((p ++ chunks.flatten).length + 1) (p ++ chunks.flatten)).2⟩ :=
  wsObs_of_post mode _ _ (feed_spec mode accept chunks st (.fr p) hinv)

/-- (the property, frame phase) two segmentations of the same bytes: same messages, same order, same end -/
theorem ws_frames_segmentation_invariant (mode : Mode) (accept : Bytes) (st : Coap.M.Ws.St) (p : Bytes)
    (hinv : WsInv mode st (.fr p)) (chunks₁ chunks₂ : List Bytes) (h : chunks₁.flatten = chunks₂.flatten) :
    wsObs (Coap.M.Ws.feed mode accept st chunks₁) = wsObs (Coap.M.Ws.feed mode accept st chunks₂) := by
  rw [ws_frames_eq_spec mode accept st p hinv, ws_frames_eq_spec mode accept st p hinv, h]

/-- the same over cut placements, from the state right after the handshake -/
theorem ws_frames_cut_invariant (mode : Mode) (accept : Bytes) (stream : Bytes) (cuts₁ cuts₂ : List Nat) :
    wsObs (Coap.M.Ws.feed mode accept { up := true } (segment stream cuts₁)) =
      wsObs (Coap.M.Ws.feed mode accept { up := true } (segment stream cuts₂)) :=
  ws_frames_segmentation_invariant mode accept _ [] (ws_up_inv mode) _ _ (by rw [segment_flatten, segment_flatten])

/-- no message is stuck (frame phase): when the session is open after the last chunk, the reader is not stalled,
its state satisfies the invariant for some pending bytes `p'` in which S finds no message (a proper prefix of one
frame), and everything S finds in the bytes received has been delivered -/
theorem ws_frames_no_message_stuck (mode : Mode) (accept : Bytes) (st : Coap.M.Ws.St) (p : Bytes)
    (hinv : WsInv mode st (.fr p)) (chunks : List Bytes) (st' : Coap.M.Ws.St)
    (h : (Coap.M.Ws.feed mode accept st chunks).2.1 = .open st') :
    (Coap.M.Ws.feed mode accept st chunks).2.2 = false ∧
    (∃ p', WsInv mode st' (.fr p') ∧ frames mode (p'.length + 1) p' = ([], false)) ∧
    frames mode ((p ++ chunks.flatten).length + 1) (p ++ chunks.flatten) = ((Coap.M.Ws.feed mode accept st chunks).1, false) := by
  have hp := feed_spec mode accept chunks st (.fr p) hinv
  generalize Coap.M.Ws.feed mode accept st chunks = r at hp h
  obtain ⟨ms, sess, stuck⟩ := r
  simp only at h
  subst h
  simp only [FeedPost] at hp
  obtain ⟨hst, ⟨a', hi⟩, hR⟩ := hp
  have hup : st'.up = true := by
    have := congrArg Res.up hR
    simp only [specFrom, frRes] at this
    exact this.symm
  refine ⟨hst, ?_, ?_⟩
  · cases a' with
    | hs s l => have := hi.1.1; rw [hup] at this; cases this
    | fr p' => exact ⟨p', hi, frOf_pend mode st' p' hi⟩
  · have h1 := congrArg Res.msgs hR
    have h2 := congrArg Res.closed hR
    simp only [specFrom, frRes] at h1 h2
    exact Prod.ext h1 h2

/-- the reader never indexes `rd_header` at or beyond 14 and never reads a byte it has not written (frame phase) -/
theorem ws_frames_no_oob (mode : Mode) (accept : Bytes) (st : Coap.M.Ws.St) (p : Bytes) (hinv : WsInv mode st (.fr p))
    (chunks : List Bytes) : (wsObs (Coap.M.Ws.feed mode accept st chunks)).2 ≠ .oob ∧
      (wsObs (Coap.M.Ws.feed mode accept st chunks)).2 ≠ .stuck := by
  rw [ws_frames_eq_spec mode accept st p hinv]
  simp only [specObs]
  constructor <;> split <;> simp

/-- (P1, whole connection, full strength) for EVERY byte stream and EVERY way of handing it to the reader — any
number of chunks of any sizes, cuts inside handshake lines, between CR and LF, inside frame headers, mask keys and
payloads; NUL bytes, binary bytes and blank-led lines inside the header block included — the messages that reach
coap_dispatch, their order, whether the WebSocket session came up and whether it is closed are what S_ws computes
from the concatenated bytes alone. -/
theorem ws_reader_eq_spec (mode : Mode) (accept : Bytes) (chunks : List Bytes) :
    wsObs (Coap.M.Ws.feed mode accept {} chunks) = specObs (run (validator mode accept) mode chunks.flatten) := by
  rw [run_eq_hsRes, show (validator mode accept).init = ({} : Seen) from rfl]
  have := feed_spec mode accept chunks {} (.hs {} []) (ws_init_inv mode)
  exact wsObs_of_post mode _ _ (by simpa [specFrom] using this)

/-- (the property, whole connection) equal concatenation ⇒ equal observation -/
theorem ws_reader_segmentation_invariant (mode : Mode) (accept : Bytes) (chunks₁ chunks₂ : List Bytes)
    (h : chunks₁.flatten = chunks₂.flatten) :
    wsObs (Coap.M.Ws.feed mode accept {} chunks₁) = wsObs (Coap.M.Ws.feed mode accept {} chunks₂) := by
  rw [ws_reader_eq_spec mode accept chunks₁, ws_reader_eq_spec mode accept chunks₂, h]

/-- … over cut placements: for all byte streams and all ways of cutting them -/
theorem ws_reader_cut_invariant (mode : Mode) (accept : Bytes) (stream : Bytes) (cuts₁ cuts₂ : List Nat) :
    wsObs (Coap.M.Ws.feed mode accept {} (segment stream cuts₁)) =
      wsObs (Coap.M.Ws.feed mode accept {} (segment stream cuts₂)) :=
  ws_reader_segmentation_invariant mode accept _ _ (by rw [segment_flatten, segment_flatten])

/-- no message is stuck (whole connection): open after the last chunk ⇒ not stalled, the state satisfies the
invariant for a parser position `a` at which S finds nothing further, and S's result on the bytes received is
exactly the messages delivered -/
theorem ws_no_message_stuck (mode : Mode) (accept : Bytes) (chunks : List Bytes) (st' : Coap.M.Ws.St)
    (h : (Coap.M.Ws.feed mode accept {} chunks).2.1 = .open st') :
    (Coap.M.Ws.feed mode accept {} chunks).2.2 = false ∧
    (∃ a, WsInv mode st' a ∧ specFrom mode accept a [] = ⟨[], st'.up, false⟩) ∧
    run (validator mode accept) mode chunks.flatten = ⟨(Coap.M.Ws.feed mode accept {} chunks).1, st'.up, false⟩ := by
  have hp := feed_spec mode accept chunks {} (.hs {} []) (ws_init_inv mode)
  rw [run_eq_hsRes, show (validator mode accept).init = ({} : Seen) from rfl]
  generalize Coap.M.Ws.feed mode accept {} chunks = r at hp h
  obtain ⟨ms, sess, stuck⟩ := r
  simp only at h
  subst h
  simp only [FeedPost] at hp
  obtain ⟨hst, ⟨a', hi⟩, hR⟩ := hp
  exact ⟨hst, ⟨a', hi, specFrom_pend mode accept st' a' hi⟩, by simpa [specFrom] using hR⟩

/-- (full strength, no hypothesis on the bytes) for EVERY byte stream and every segmentation the reader stays
inside its buffers — no index ≥ 160 into `http_hdr`, none ≥ 14 into `rd_header`, the bytes carried over after the
empty line fit `rd_header`, no byte read that was not written — and never stalls with bytes available (every
`coap_read_session` call consumes at least one byte or closes) -/
theorem ws_reader_no_oob (mode : Mode) (accept : Bytes) (chunks : List Bytes) :
    (wsObs (Coap.M.Ws.feed mode accept {} chunks)).2 ≠ .oob ∧ (wsObs (Coap.M.Ws.feed mode accept {} chunks)).2 ≠ .stuck := by
  have := feed_safe mode accept chunks {} (Or.inl ⟨rfl, rfl, by decide, rfl, rfl, rfl⟩)
  generalize Coap.M.Ws.feed mode accept {} chunks = r at this
  obtain ⟨ms, sess, stuck⟩ := r
  cases sess with
  | oob => exact this.elim
  | closed => simp [wsObs]
  | «open» st' =>
    obtain ⟨_, hst⟩ := this
    subst hst
    simp [wsObs]

/-- (full strength) no message is held back, for EVERY byte stream: when the session is open after the last chunk
the reader is either still in the handshake (line buffer below its capacity, `strchr` finds no LF in it) or at a
frame-parser position `p` of S — a proper prefix of one frame, in which S finds no message -/
theorem ws_reader_final_state (mode : Mode) (accept : Bytes) (chunks : List Bytes) (st' : Coap.M.Ws.St)
    (h : (Coap.M.Ws.feed mode accept {} chunks).2.1 = .open st') :
    (st'.up = false ∧ lfIdx st'.httpHdr = none ∧ st'.httpHdr.length < httpCap) ∨
    ∃ p, WsInv mode st' (.fr p) ∧ wsAbs st' = .fr p ∧ frames mode (p.length + 1) p = ([], false) := by
  have := feed_safe mode accept chunks {} (Or.inl ⟨rfl, rfl, by decide, rfl, rfl, rfl⟩)
  generalize Coap.M.Ws.feed mode accept {} chunks = r at this h
  obtain ⟨ms, sess, stuck⟩ := r
  simp only at h
  subst h
  rcases this.1 with hs | ⟨p, hfr⟩
  · exact Or.inl ⟨hs.1, hs.2.1, by have := hs.2.2.1; simp only [httpCap] at *; omega⟩
  · exact Or.inr ⟨p, hfr, wsAbs_of_inv mode st' _ hfr, frOf_pend mode st' p hfr⟩

/-! ### non-vacuity -/

/-- a server-side connection: the upgrade request, a masked GET, a frame without data, a second masked GET -/
def wsDemo : Bytes :=
  asc "GET /.well-known/coap HTTP/1.1\r\nHost: x\r\nUpgrade: websocket\r\nConnection: Upgrade\r\nSec-WebSocket-Key: AAECAwQFBgcICQoLDA0ODw==\r\nSec-WebSocket-Protocol: coap\r\nSec-WebSocket-Version: 13\r\n\r\n" ++
  [0x82, 0x82, 1, 2, 3, 4, 1, 3,  0x82, 0x80, 9, 9, 9, 9,  0x82, 0x83, 1, 2, 3, 4, 1, 3, 0xb3]

/-- S: two messages, session up and open -/
example : specObs (run (validator .server []) .server wsDemo) =
    ([⟨0, 1, 0, [], [], []⟩, ⟨0, 1, 0, [], [(11, [])], []⟩], .open true) := by decide +kernel
/-- M, two different cut lists: inside the first line (5) / the key line (105) / between CR and LF of the empty line
(185) / at the end of the block / in the mask key / in the payload / at a frame boundary / in the next mask key;
and 14-byte reads that carry frame bytes over from the line buffer -/
example : wsObs (Coap.M.Ws.feed .server [] {} (segment wsDemo [5, 100, 80, 1, 4, 3, 1, 9])) =
    ([⟨0, 1, 0, [], [], []⟩, ⟨0, 1, 0, [], [(11, [])], []⟩], .open true) := by decide +kernel
example : wsObs (Coap.M.Ws.feed .server [] {} (segment wsDemo [180, 2])) =
    ([⟨0, 1, 0, [], [], []⟩, ⟨0, 1, 0, [], [(11, [])], []⟩], .open true) := by decide +kernel
/-- the stream ends inside the payload of the last frame: one message delivered, session open, and the reader holds
exactly the bytes of the unfinished frame (`wsAbs`), under two cut lists (one byte of payload in `rd_header` / in
`rx_data` only) -/
example : wsObs (Coap.M.Ws.feed .server [] {} (segment (wsDemo.take (wsDemo.length - 1)) [5, 100, 80, 1, 4, 3, 1, 9])) =
    ([⟨0, 1, 0, [], [], []⟩], .open true) := by decide +kernel
example : (match (Coap.M.Ws.feed .server [] {} (segment (wsDemo.take (wsDemo.length - 1)) [180, 2])).2.1 with
    | .open st => wsAbs st | _ => .hs {} []) = .fr [0x82, 0x83, 1, 2, 3, 4, 1, 3] := by decide +kernel
example : (match (Coap.M.Ws.feed .server [] {} (segment (wsDemo.take (wsDemo.length - 1)) [5, 100, 80, 1, 4, 3, 1, 9, 4])).2.1 with
    | .open st => wsAbs st | _ => .hs {} []) = .fr [0x82, 0x83, 1, 2, 3, 4, 1, 3] := by decide +kernel
/-- the former `hsCleanOf` sub-domain: a header line that starts with a blank used to be taken by libcoap for the
end of the header block; since the `fix:` commit it is refused, which is what S (with the per-line acceptance of
the fixed code, D17) says — under every segmentation -/
theorem ws_blank_led_line_refused :
    wsObs (Coap.M.Ws.feed .server [] {} [asc "GET /.well-known/coap HTTP/1.1\r\n x\r\n"]) = ([], .closed) ∧
    wsObs (Coap.M.Ws.feed .server [] {} (segment (asc "GET /.well-known/coap HTTP/1.1\r\n x\r\n") [3, 29, 1, 1])) = ([], .closed) ∧
    specObs (run (validator .server []) .server (asc "GET /.well-known/coap HTTP/1.1\r\n x\r\n")) = ([], .closed) := by
  decide +kernel
/-- a NUL byte in a header line (D20): the LF behind it is not a line end — model and S wait (here: the "empty line"
and a frame behind it are not looked at), under two segmentations; and after 159 bytes of that line both close -/
def wsNulDemo : Bytes := asc "GET /.well-known/coap HTTP/1.1\r\nX: a" ++ [0] ++ asc "b\r\n\r\n" ++ [0x82, 0x80, 1, 2, 3, 4]
example : wsObs (Coap.M.Ws.feed .server [] {} [wsNulDemo]) = ([], .open false) ∧
    wsObs (Coap.M.Ws.feed .server [] {} (segment wsNulDemo [31, 5, 1, 1, 1, 1, 1])) = ([], .open false) ∧
    specObs (run (validator .server []) .server wsNulDemo) = ([], .open false) := by decide +kernel
example : wsObs (Coap.M.Ws.feed .server [] {} [wsNulDemo ++ List.replicate 150 10]) = ([], .closed) ∧
    wsObs (Coap.M.Ws.feed .server [] {} (segment (wsNulDemo ++ List.replicate 150 10) [40, 100, 50])) = ([], .closed) ∧
    specObs (run (validator .server []) .server (wsNulDemo ++ List.replicate 150 10)) = ([], .closed) := by decide +kernel
/-- frame phase, client side: 16-bit length form, three frames, cut in the extended length / after the header /
one byte per read — and 17 frames without data in front of a message (the model's former fuel bound) -/
example : wsObs (Coap.M.Ws.feed .client [] { up := true } (segment [0x82, 0x7e, 0, 3, 1, 1, 0xaa, 0x82, 0, 0x82, 2, 0, 2] [3, 1, 5])) =
    ([⟨0, 1, 0, [0xaa], [], []⟩, ⟨0, 2, 0, [], [], []⟩], .open true) := by decide
example : wsObs (Coap.M.Ws.feed .client [] { up := true } (segment [0x82, 0x7e, 0, 3, 1, 1, 0xaa, 0x82, 0, 0x82, 2, 0, 2] [1,1,1,1,1,1,1,1,1,1,1,1])) =
    ([⟨0, 1, 0, [0xaa], [], []⟩, ⟨0, 2, 0, [], [], []⟩], .open true) := by decide
example : wsObs (Coap.M.Ws.feed .client [] { up := true }
      [(List.replicate 17 [0x82, 0]).flatten ++ [0x82, 2, 0, 1]]) = ([⟨0, 1, 0, [], [], []⟩], .open true) := by decide +kernel
/-- an oversize frame closes under both segmentations; a pending frame prefix leaves the session open -/
example : wsObs (Coap.M.Ws.feed .client [] { up := true } (segment [0x82, 0x7e, 0x05, 0xc1, 0, 1] [2, 1])) = ([], .closed) := by decide
example : wsObs (Coap.M.Ws.feed .client [] { up := true } (segment [0x82, 0x7e, 0x05, 0xc1, 0, 1] [1, 1, 1])) = ([], .closed) := by decide
/-- the invariant is satisfiable in its payload clause: header `82 03` complete, one payload byte in rx_data -/
example : WsInv .client { up := true, rdHeader := [0x82, 3, 7], allHdrIn := true, dataSize := 3, dataOfs := 1, rxData := some [7] }
    (.fr [0x82, 3, 7]) :=
  Or.inr ⟨rfl, rfl, 0x82, 3, [], [7], by decide⟩

/-! ### coap_ws_close: draining the socket for the peer's Close frame

`wsClose` / `closeDrain` (Model/WsReader.lean) = the `while (!recv_close && count > 0 …)` loop: select(), then
`coap_ws_read` into a 100-byte stack buffer.  Entered by the application at any time and by the reader itself right
after it refused a frame, so the statements are for EVERY reader state (no invariant) and every pending byte string.
Tied to the code by the `wsclose` lines of the check (recv_close and the number of bytes left unread). -/

/-- the drain terminates after at most 5 `coap_ws_read` calls, whatever the reader state and whatever the peer has
sent (each call's own `goto next_frame` loop is bounded by the bytes at hand: the model's fuel) -/
theorem ws_close_drain_bounded (mode : Mode) (st : Coap.M.Ws.St) (av : Bytes) :
    (wsClose mode st av).2.2.2 ≤ 5 := closeDrain_calls_le mode drainCount st av

/-- nothing pending: nothing is read, the reader state is untouched, no Close frame seen -/
theorem ws_close_drain_idle (mode : Mode) (st : Coap.M.Ws.St) : wsClose mode st [] = (false, st, [], 0) :=
  closeDrain_idle mode drainCount st

/-- `recv_close` is only reported when a Close frame header (opcode 8) has been completed in `rd_header` -/
theorem ws_close_drain_recv (mode : Mode) (st : Coap.M.Ws.St) (av : Bytes) (h : (wsClose mode st av).1 = true) :
    ∃ b0 b1 r, (wsClose mode st av).2.1.rdHeader = b0 :: b1 :: r ∧ b0.toNat % 16 = 8 :=
  closeDrain_recv mode drainCount st av h

/-- the "Get in (remaining) data" part of `coap_ws_read`, ANY reader state and ANY caller buffer size `datalen`: a
payload handed back fits the caller's buffer and bytes are only consumed from the front of what is available — the
clause the former defect G violated (a frame in progress longer than coap_ws_close's 100-byte buffer) -/
theorem ws_read_data_fits (mode : Mode) (st : Coap.M.Ws.St) (av data : Bytes) (datalen : Nat) :
    (readData mode st av data datalen).2.2.length ≤ av.length ∧
    ∀ pl, (readData mode st av data datalen).1 = .pkt pl → pl.length ≤ datalen :=
  readData_fits mode st av data datalen

/-- four pending 14-byte frames are discarded and the Close frame behind them is found by the 5th call; with six of
them it is not reached (5 calls, 16 bytes left unread); frames that arrive together with the Close frame in ONE
14-byte header read stay in `rd_header`: the socket is not readable any more, the loop only waits (1 call, Close frame
not seen — an observation, not a safety matter); a frame of 101 bytes does not fit the 100-byte buffer: refused, no
further byte is read; after an unmasked frame to a server the drain cannot progress -/
example : (wsClose .client { up := true } ((List.replicate 4 [0x82, 12, 0, 1,2,3,4,5,6,7,8,9,10,11]).flatten ++ [0x88, 0])).1 = true ∧
    (wsClose .client { up := true } ((List.replicate 4 [0x82, 12, 0, 1,2,3,4,5,6,7,8,9,10,11]).flatten ++ [0x88, 0])).2.2.2 = 5 := by
  decide +kernel
example : (wsClose .client { up := true } ((List.replicate 6 [0x82, 12, 0, 1,2,3,4,5,6,7,8,9,10,11]).flatten ++ [0x88, 0])).1 = false ∧
    (wsClose .client { up := true } ((List.replicate 6 [0x82, 12, 0, 1,2,3,4,5,6,7,8,9,10,11]).flatten ++ [0x88, 0])).2.2.1.length = 16 := by
  decide +kernel
example : (wsClose .client { up := true } [0x82, 2, 0, 1, 0x82, 2, 0, 2, 0x88, 2, 3, 0xe8]).1 = false ∧
    (wsClose .client { up := true } [0x82, 2, 0, 1, 0x82, 2, 0, 2, 0x88, 2, 3, 0xe8]).2.2.2 = 1 := by decide +kernel
example : (wsClose .client { up := true } ([0x82, 101] ++ List.replicate 101 0 ++ [0x88, 0])).1 = false ∧
    (wsClose .client { up := true } ([0x82, 101] ++ List.replicate 101 0 ++ [0x88, 0])).2.2.1.length = 91 := by decide +kernel
example : (wsClose .server { up := true } [0x82, 2, 0, 1, 0x88, 0x80, 1, 2, 3, 4]).1 = false := by decide


/-! ### round 3: `coap_ws_read` with ANY caller buffer, from ANY reader state; the drain on every input

`readFrame_fits` (left open by round 2) is proved; on top of it: every `coap_ws_read` call the drain makes stays inside
`buf[100]`, inside `rd_header[14]` and inside the payload destination; the loop of one call (`goto next_frame`) and the
loop of `coap_ws_close` both terminate; and what the drain does when it cannot see the peer's Close frame. -/

/-- (full strength; the statement round 2 left open) the header part AND the data part of `coap_ws_read`, for EVERY
reader state, EVERY caller buffer size `datalen`, every pending byte string and every number of `goto next_frame`
rounds: bytes are only consumed from the front of what is available, and a payload handed back has at most `datalen`
bytes (header branches: `ret = size`, `size` of `ret > size`, both behind the `size > datalen` refusal; data part:
`data_size ≤ datalen` is re-checked on entry) -/
theorem ws_read_fits (mode : Mode) (datalen fuel : Nat) (st : Coap.M.Ws.St) (av : Bytes) :
    (readFrame mode datalen fuel st av).2.2.length ≤ av.length ∧
    ∀ pl, (readFrame mode datalen fuel st av).1 = .pkt pl → pl.length ≤ datalen :=
  readFrame_fits mode datalen fuel st av

/-- `RdOk datalen` = `hdr_ofs ≤ 14` and, while a frame that fits the caller's buffer is in progress, `data_ofs ≤ data_size`
(what makes `sizeof(rd_header) - hdr_ofs` and `data_size - data_ofs` not wrap).  It is kept by `coap_ws_read` for every
buffer size, pending byte string and fuel; a call from such a state never indexes outside `rd_header` (`oob`); and it is
inherited by a caller with a smaller buffer (`coap_read_session`: 1472 → `coap_ws_close`: 100), also right after a 1009
refusal, whose stale `data_ofs` is never used -/
theorem ws_read_keeps_ok (mode : Mode) (datalen fuel : Nat) (st : Coap.M.Ws.St) (av : Bytes) (h : RdOk datalen st) :
    RdOk datalen (readFrame mode datalen fuel st av).2.1 ∧ (readFrame mode datalen fuel st av).1 ≠ .oob :=
  readFrame_ok mode datalen fuel st av h

theorem ws_read_ok_smaller_buffer (d1 d2 : Nat) (st : Coap.M.Ws.St) (h : RdOk d1 st) (hd : d2 ≤ d1) : RdOk d2 st :=
  RdOk_mono h hd

/-- "Get in (remaining) data" from an `RdOk` state: the transport read goes to `[data_ofs, data_ofs + got)` of the
caller's buffer (or of `rx_data`, allocated with `data_size` bytes) and that range ends at or before `datalen` -/
theorem ws_read_data_dest_in_bounds (mode : Mode) (datalen : Nat) (st : Coap.M.Ws.St) (av data : Bytes)
    (h : RdOk datalen st) (ha : st.allHdrIn = true) (hs : st.dataSize ≤ datalen) :
    st.dataOfs + (av.take (st.dataSize - st.dataOfs)).length ≤ datalen :=
  (readData_ok mode st av data datalen h.1 (h.2 ha)).2.2 hs

/-- one `coap_ws_read` call terminates: every `goto next_frame` round takes at least the two fixed header bytes out of
`rd_header` ++ the bytes at hand; any fuel above their number gives the same result (the model's fuel never runs out) -/
theorem ws_read_next_frame_terminates (mode : Mode) (datalen f g : Nat) (st : Coap.M.Ws.St) (av : Bytes)
    (hf : st.rdHeader.length + av.length < f) (hg : st.rdHeader.length + av.length < g) :
    readFrame mode datalen f st av = readFrame mode datalen g st av :=
  readFrame_fuel mode datalen f g st av hf hg

/-- (strengthens `ws_close_drain_*`) for EVERY reader state and EVERY pending byte string: `drainCalls` lists exactly the
`coap_ws_read(session, buf, 100)` calls of the drain; each of them hands back at most 100 bytes and only consumes pending
bytes; the drain as a whole only consumes -/
theorem ws_close_drain_fits (mode : Mode) (st : Coap.M.Ws.St) (av : Bytes) :
    (drainCalls mode drainCount st av).length = (wsClose mode st av).2.2.2 ∧
    (wsClose mode st av).2.2.1.length ≤ av.length ∧
    ∀ c ∈ drainCalls mode drainCount st av,
      (readFrame mode drainBuf (c.2.length + fsCap + 2) c.1 c.2).2.2.length ≤ c.2.length ∧
      ∀ pl, (readFrame mode drainBuf (c.2.length + fsCap + 2) c.1 c.2).1 = .pkt pl → pl.length ≤ 100 :=
  ⟨drainCalls_length mode drainCount st av, (closeDrain_ok mode drainCount st av).1,
   fun c _ => readFrame_fits mode drainBuf _ c.1 c.2⟩

/-- the drain from an `RdOk` state (every state `coap_ws_read` leaves behind, see `ws_read_keeps_ok`): every call
starts from an `RdOk` state, has no more bytes pending than the drain had, never indexes outside `rd_header`, its
`goto next_frame` fuel suffices; the state left behind is `RdOk` -/
theorem ws_close_drain_in_bounds (mode : Mode) (st : Coap.M.Ws.St) (av : Bytes) (h : RdOk drainBuf st) :
    RdOk drainBuf (wsClose mode st av).2.1 ∧
    ∀ c ∈ drainCalls mode drainCount st av, RdOk drainBuf c.1 ∧ c.2.length ≤ av.length ∧
      (readFrame mode drainBuf (c.2.length + fsCap + 2) c.1 c.2).1 ≠ .oob ∧
      ∀ g, c.1.rdHeader.length + c.2.length < g →
        readFrame mode drainBuf (c.2.length + fsCap + 2) c.1 c.2 = readFrame mode drainBuf g c.1 c.2 := by
  refine ⟨(closeDrain_ok mode drainCount st av).2 h, fun c hc => ?_⟩
  have hk := drainCalls_ok mode drainCount st av h c hc
  refine ⟨hk.1, hk.2, (readFrame_ok mode drainBuf _ c.1 c.2 hk.1).2, fun g hg => ?_⟩
  have := hk.1.1
  exact readFrame_fuel mode drainBuf _ g c.1 c.2 (by simp only [fsCap] at *; omega) hg

/-- `coap_ws_close` neither aborts nor loops for ever, on every input: at most `drainCount` = 5 rounds (the loop
variable is the model's structural recursion argument, a round without readable socket is a 1 ms select() timeout), at
most 5 `coap_ws_read` calls, each of them terminating (`ws_read_next_frame_terminates`) and — from an `RdOk` state —
inside its buffers; whatever the outcome (`recv_close` or not) the function goes on to `l_close`: the model's result
is total -/
theorem ws_close_terminates (mode : Mode) (st : Coap.M.Ws.St) (av : Bytes) :
    drainRounds mode drainCount st av ≤ 5 ∧ (wsClose mode st av).2.2.2 ≤ drainRounds mode drainCount st av ∧
    (wsClose mode st av).2.2.2 ≤ drainCount ∧ (wsClose mode st av).2.2.1.length ≤ av.length ∧
    (RdOk drainBuf st → ∀ c ∈ drainCalls mode drainCount st av,
      (readFrame mode drainBuf (c.2.length + fsCap + 2) c.1 c.2).1 ≠ .oob) :=
  ⟨(drainRounds_spec mode drainCount st av).1, (drainRounds_spec mode drainCount st av).2.1,
   closeDrain_calls_le mode drainCount st av, (closeDrain_ok mode drainCount st av).1,
   fun h c hc => ((ws_close_drain_in_bounds mode st av h).2 c hc).2.2.1⟩

/-- bounded waiting, exactly: `drainRounds` = the select() calls of the loop (tied to the code by the `rounds=` field of the
`wsclose` / `wsself` lines, select() being wrapped in the harness).  If the peer's Close frame is not seen the loop runs
exactly 5 rounds — each a `coap_ws_read` call or a 1 ms timeout — and then the session is closed regardless; if it
is seen, the round that saw it is the last -/
theorem ws_close_drain_rounds (mode : Mode) (st : Coap.M.Ws.St) (av : Bytes) :
    ((wsClose mode st av).1 = false → drainRounds mode drainCount st av = 5) ∧
    ((wsClose mode st av).1 = true → 1 ≤ drainRounds mode drainCount st av ∧ drainRounds mode drainCount st av ≤ 5) :=
  ⟨(drainRounds_spec mode drainCount st av).2.2.1,
   fun h => ⟨(drainRounds_spec mode drainCount st av).2.2.2 h, (drainRounds_spec mode drainCount st av).1⟩⟩

/-- the hypothesis of `ws_close_drain_in_bounds` holds whenever the application can call `coap_ws_close`: every reader
state the event loop leaves behind in the frame phase — from the state right after the handshake (`rd_header` holding the
≤ 14 carried-over bytes) or any other `UpOk` state, after EVERY list of chunks — is `RdOk` for the 1472-byte buffer of
`coap_read_session`, hence for the drain's 100 bytes; and so is the state in which the reader itself calls
`coap_ws_close` (right after a refusal inside `coap_ws_read`: `ws_read_keeps_ok`) -/
theorem ws_frames_states_ok (mode : Mode) (accept : Bytes) (chunks : List Bytes) (st st' : Coap.M.Ws.St)
    (hup : st.up = true) (h : RdOk Coap.M.Ws.rxBuf st) (he : (Coap.M.Ws.feed mode accept st chunks).2.1 = .open st') :
    st'.up = true ∧ RdOk Coap.M.Ws.rxBuf st' ∧ RdOk drainBuf st' :=
  have := feed_upok mode accept chunks st ⟨hup, h⟩ st' he
  ⟨this.1, this.2, RdOk_mono this.2 (by decide)⟩

/-- … and on a whole connection: after EVERY byte stream in EVERY segmentation, HTTP upgrade included, the state of an
open session is `RdOk` (so `ws_close_drain_in_bounds` applies whenever the application calls `coap_ws_close`) -/
theorem ws_reader_states_ok (mode : Mode) (accept : Bytes) (chunks : List Bytes) (st' : Coap.M.Ws.St)
    (he : (Coap.M.Ws.feed mode accept {} chunks).2.1 = .open st') :
    RdOk Coap.M.Ws.rxBuf st' ∧ RdOk drainBuf st' :=
  have := feed_connOk mode accept chunks st' he
  ⟨this.1, RdOk_mono this.1 (by decide)⟩

/-- every way a `coap_ws_read` call (any state, any buffer size) closes the session by itself: Close frame header
completed, header refused with 1002/1003 and left in `rd_header`, or frame refused with 1009 -/
theorem ws_read_closed_cases (mode : Mode) (datalen fuel : Nat) (st : Coap.M.Ws.St) (av : Bytes)
    (h : (readFrame mode datalen fuel st av).1 = .closed) :
    recvCloseOf mode .closed (readFrame mode datalen fuel st av).2.1 = true ∨
    Refused mode (readFrame mode datalen fuel st av).2.1 ∨
    ((readFrame mode datalen fuel st av).2.1.allHdrIn = true ∧ (readFrame mode datalen fuel st av).2.1.dataSize > datalen) :=
  readFrame_closed_cases mode datalen fuel st av h

/-- the reader's own `coap_ws_close` (model `selfClose`, tied to the code by the `wsself` lines), for EVERY reader
state and EVERY chunk: either a Close frame was received (no drain at all), or the drain starts from a refused header
(1002/1003: `recv_close` stays 0, the header is refused again by every call, at most the free room of `rd_header` is read,
at most 5 calls) or from a refused frame (1009: `recv_close` stays 0, 5 calls returning -1 if bytes are pending, none
otherwise, NOTHING read, state untouched).  In each case the function returns and the session is closed. -/
theorem ws_self_close_classified (mode : Mode) (accept : Bytes) (st : Coap.M.Ws.St) (chunk : Bytes)
    (r : Bool × Coap.M.Ws.St × Bytes × Nat) (h : selfClose mode accept st chunk = some r) :
    ∃ st' av', refusalPoint mode accept (6 * (chunk.length + 1)) 0 st chunk = some (st', av') ∧
      ((recvCloseOf mode .closed st' = true ∧ r = (true, st', av', 0)) ∨
       (Refused mode st' ∧ r.1 = false ∧ Refused mode r.2.1 ∧
          av'.length ≤ r.2.2.1.length + (fsCap - st'.rdHeader.length) ∧ r.2.2.2 ≤ 5) ∨
       (st'.allHdrIn = true ∧ st'.dataSize > 1472 ∧ r = (false, st', av', if av'.length = 0 then 0 else 5))) :=
  selfClose_cases mode accept st chunk r h

/-- the hypothesis of `ws_read_closed_cases` in each class (the call closes the session by itself): Close frame, Ping,
1473-byte frame at a client; unmasked frame at a server — and the fuel bound of `ws_read_next_frame_terminates` on the
model's own fuel for a full `rd_header` -/
example : (readFrame .client 1472 20 { up := true } [0x88, 0]).1 = .closed ∧ (readFrame .client 1472 20 { up := true } [0x89, 0]).1 = .closed ∧
    (readFrame .client 1472 20 { up := true } [0x82, 0x7e, 5, 0xc1]).1 = .closed ∧
    (readFrame .server 1472 20 { up := true } [0x82, 0]).1 = .closed := by decide +kernel
example : ({ up := true, rdHeader := List.replicate 14 0 } : Coap.M.Ws.St).rdHeader.length + [1, 2, 3].length < [1, 2, 3].length + fsCap + 2 := by
  decide

/-- the three classes on concrete chunks (client side, handshake done): Close frame in front of an empty frame —
`recv_close`, no drain, 2 bytes never read; a Ping followed by a Close frame in the same header read — refused, the
Close frame is never looked at, nothing left on the socket, no call; a 1473-byte frame header with 20 more bytes —
refused, 5 calls, the 10 bytes behind the header read stay unread -/
example : (selfClose .client [] { up := true } [0x88, 0, 0x82, 0]).map (fun r => (r.1, r.2.2.1.length, r.2.2.2)) =
    some (true, 0, 0) := by decide +kernel
example : (selfClose .client [] { up := true } ([0x88, 0] ++ List.replicate 20 7)).map (fun r => (r.1, r.2.2.1.length, r.2.2.2)) =
    some (true, 8, 0) := by decide +kernel
example : (selfClose .client [] { up := true } [0x89, 0, 0x88, 0]).map (fun r => (r.1, r.2.1.rdHeader, r.2.2.1.length, r.2.2.2)) =
    some (false, [0x89, 0, 0x88, 0], 0, 0) := by decide +kernel
example : (selfClose .client [] { up := true } ([0x82, 0x7e, 0x05, 0xc1] ++ List.replicate 20 7)).map
    (fun r => (r.1, r.2.1.dataSize, r.2.2.1.length, r.2.2.2)) = some (false, 1473, 10, 5) := by decide +kernel
/-- a server: unmasked frame with 30 bytes behind it: refused (1002), the drain tops `rd_header` up … nothing more: all
14 bytes were already in, 18 bytes stay unread after 5 calls -/
example : (selfClose .server [] { up := true } ([0x82, 2, 0, 1] ++ List.replicate 28 7)).map
    (fun r => (r.1, r.2.1.rdHeader.length, r.2.2.1.length, r.2.2.2)) = some (false, 14, 18, 5) := by decide +kernel

/-- observation 1 of round 2 as a theorem: once a `coap_ws_read` call has emptied the socket the loop only waits (no
further call), whatever is left in `rd_header` — select() looks at the socket, not at `rd_header` -/
theorem ws_close_drain_socket_empty (mode : Mode) (c : Nat) (st st' : Coap.M.Ws.St) (av : Bytes) (ret : Ret) (hav : av ≠ [])
    (h : readFrame mode drainBuf (av.length + fsCap + 2) st av = (ret, st', [])) :
    closeDrain mode (c + 1) st av = (recvCloseOf mode ret st', st', [], 1) :=
  closeDrain_socket_empty mode c st st' av ret hav h

/-- … in particular a data frame that arrived in the same 14-byte header read as the peer's Close frame: the call
returns its payload, the Close frame stays in `rd_header`, `recv_close` stays 0, the session is closed after the
remaining (at most 4) 1 ms waits -/
theorem ws_close_drain_close_unseen (mode : Mode) (st st' : Coap.M.Ws.St) (av pl : Bytes) (hav : av ≠ [])
    (h : readFrame mode drainBuf (av.length + fsCap + 2) st av = (.pkt pl, st', [])) :
    wsClose mode st av = (false, st', [], 1) :=
  closeDrain_close_unseen mode 4 st st' av pl hav h

/-- observation 2 of round 2 as theorems: after a 1009 refusal (`all_hdr_in` set, `data_size` > 100) every call
returns -1 before reading anything — 5 calls if bytes are pending, none otherwise; reader state and pending bytes
untouched, `recv_close` stays 0 -/
theorem ws_close_drain_oversize_stuck (mode : Mode) (st : Coap.M.Ws.St) (av : Bytes) (ha : st.allHdrIn = true)
    (hs : st.dataSize > 100) :
    wsClose mode st av = (false, st, av, if av.length = 0 then 0 else 5) :=
  closeDrain_oversize mode drainCount st av ha hs

/-- … and after a 1002 (unmasked frame to a server) or 1003 (opcode neither binary nor close) refusal, `Refused`: every
call refuses the same header again; at most the free room of `rd_header` is taken from the socket; `recv_close` stays 0 -/
theorem ws_close_drain_refused_stuck (mode : Mode) (st : Coap.M.Ws.St) (av : Bytes) (h : Refused mode st) :
    (wsClose mode st av).1 = false ∧ Refused mode (wsClose mode st av).2.1 ∧
    av.length ≤ (wsClose mode st av).2.2.1.length + (fsCap - st.rdHeader.length) :=
  closeDrain_refused mode drainCount st av h

/-- non-vacuity: `RdOk` holds right after the handshake, inside a payload, and after a 1009 refusal with a stale
`data_ofs`; `Refused` states: a Ping header at a client, an unmasked header at a server -/
example : RdOk 100 { up := true } := ⟨by decide, fun h => by cases h⟩
example : RdOk 1472 { up := true, rdHeader := [0x82, 3, 7], allHdrIn := true, dataSize := 3, dataOfs := 1, rxData := some [7] } :=
  ⟨by decide, fun _ _ => by decide⟩
example : RdOk 100 { up := true, rdHeader := [0x82, 0x7e, 1, 0], allHdrIn := true, dataSize := 256, dataOfs := 300 } :=
  ⟨by decide, fun _ h => absurd h (by decide)⟩
example : Refused .client { up := true, rdHeader := [0x89, 0] } :=
  ⟨rfl, 0x89, 0, [], rfl, Or.inr ⟨by decide, by decide, by decide⟩⟩
example : Refused .server { up := true, rdHeader := [0x82, 2, 0, 1] } :=
  ⟨rfl, 0x82, 2, [0, 1], rfl, Or.inl ⟨rfl, by decide⟩⟩
/-- the hypotheses of `ws_close_drain_close_unseen` / `…_oversize_stuck` on concrete inputs: a 2-byte message, a second
one and a Close frame in one 12-byte read (the first is returned, the others stay in `rd_header`); a refused 256-byte
frame with 3 bytes pending -/
example : readFrame .client drainBuf (12 + fsCap + 2) { up := true } [0x82, 2, 0, 1, 0x82, 2, 0, 2, 0x88, 2, 3, 0xe8] =
    (.pkt [0, 1], { up := true, rdHeader := [0x82, 2, 0, 2, 0x88, 2, 3, 0xe8], maskKey := [], dataSize := 2, dataOfs := 2 }, []) := by
  decide +kernel
example : wsClose .client { up := true, rdHeader := [0x82, 0x7e, 1, 0], allHdrIn := true, dataSize := 256 } [1, 2, 3] =
    (false, { up := true, rdHeader := [0x82, 0x7e, 1, 0], allHdrIn := true, dataSize := 256 }, [1, 2, 3], 5) := by decide +kernel
/-- `drainCalls` on the four-frames-then-Close example: five calls, the first with all 58 bytes pending -/
example : ((drainCalls .client drainCount { up := true } ((List.replicate 4 [0x82, 12, 0, 1,2,3,4,5,6,7,8,9,10,11]).flatten ++ [0x88, 0])).map
    (fun c => c.2.length)) = [58, 44, 30, 16, 2] := by decide +kernel

end Ws

end Coap.C05
