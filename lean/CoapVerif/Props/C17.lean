import CoapVerif.Lemmas.PersistCodec
namespace Coap.C17
open Coap Coap.Persist

theorem record_roundtrip_dyn (r : DynRec) (rest : Bytes) (h : r.WF) :
    (dynRead (encDyn r ++ rest)).2 = some (r, rest) := by rw [dynRead_enc r rest h]

end Coap.C17
