import CoapVerif.Lemmas.PersistFs
import CoapVerif.Lemmas.PersistHist
import CoapVerif.Lemmas.PersistCnt
/-
C17 — persisted observe state survives a crash at any point and is restored on restart.

  M  = Coap.Persist (CoapVerif/Model/Persist.lean): the updaters / loaders of src/coap_subscribe.c as sequences of
       stdio operations over a file system with process-kill semantics; the call-outs of src/coap_resource.c.
  S  = "file = old ∨ file = new", "new = old with the entry added / replaced / removed",
       Coap.Persist.Abs (created − deleted, registered − cancelled), RFC 7641 §3.4 order on Observe values.

Property theorems only; helper lemmas live in CoapVerif/Lemmas/Persist*.lean.

SPEC DECISIONS
  D17.1 re-registering an observation with a new token is a cancellation followed by a registration (two updates).
  D17.2 "first Observe value sent after restart" is the first notification on a re-established observation.
  D17.3 "greater" is RFC 7641 §3.4 serial order on 24 bits; the plain-order theorem states its no-wrap hypothesis.
  D17.4 only observable dynamic resources are persisted (coap_add_resource saves nothing else).
  D17.5 deleting a resource is complete once it has left the dyn file.
-/
namespace Coap.C17
open Coap Coap.Persist Coap.Persist.Op Coap.Persist.Name

/-! ### record formats -/

/-- dyn-resource record: the reader returns exactly what the writer was given (and leaves the rest of the file) -/
theorem record_roundtrip_dyn (r : DynRec) (rest : Bytes) (h : r.WF) :
    (dynRead (encDyn r ++ rest)).2 = some (r, rest) := by rw [dynRead_enc r rest h]

/-- observe record (with or without OSCORE information) -/
theorem record_roundtrip_obs (r : ObsRec) (rest : Bytes) (h : r.WF) :
    (obsRead (encObs r ++ rest)).2 = some (r, rest) := obsRead_enc r rest h

/-- counter line `<name> <decimal>\n` through `fgets` / `strchr` / `atoi` -/
theorem record_roundtrip_cnt (r : CntRec) (rest : Bytes) (h : r.WF) :
    cntLine (encCnt r ++ rest) = some (some r, rest) := cntLine_enc r rest h

/-- whole files: decoding the concatenation of well-formed records gives the records back -/
theorem file_roundtrip_dyn (recs : List DynRec) (h : ∀ r ∈ recs, r.WF) (fuel : Nat) (hf : recs.length < fuel) :
    dynAll fuel (recs.flatMap encDyn) = recs := by
  induction recs generalizing fuel with
  | nil =>
    cases fuel with
    | zero => omega
    | succ f => simp [dynAll, dynRead, rdN, szProto]
  | cons r rs ih =>
    cases fuel with
    | zero => omega
    | succ f =>
      simp only [List.flatMap_cons, dynAll]
      rw [dynRead_enc r _ (h r (by simp))]
      simp only []
      rw [ih (fun x hx => h x (by simp [hx])) f (by simp at hf; omega)]

theorem file_roundtrip_obs (recs : List ObsRec) (h : ∀ r ∈ recs, r.WF) (fuel : Nat) (hf : recs.length < fuel) :
    obsAll fuel (recs.flatMap encObs) = recs := by
  induction recs generalizing fuel with
  | nil =>
    cases fuel with
    | zero => omega
    | succ f => simp [obsAll, obsRead, rdN, szKey]
  | cons r rs ih =>
    cases fuel with
    | zero => omega
    | succ f =>
      simp only [List.flatMap_cons, obsAll]
      rw [obsRead_enc r _ (h r (by simp))]
      simp only []
      rw [ih (fun x hx => h x (by simp [hx])) f (by simp at hf; omega)]

theorem file_roundtrip_cnt (recs : List CntRec) (h : ∀ r ∈ recs, r.WF) (fuel : Nat) (hf : recs.length < fuel) :
    cntAll fuel (recs.flatMap encCnt) = recs := by
  induction recs generalizing fuel with
  | nil =>
    cases fuel with
    | zero => omega
    | succ f => simp [cntAll, cntLine]
  | cons r rs ih =>
    cases fuel with
    | zero => omega
    | succ f =>
      simp only [List.flatMap_cons, cntAll]
      rw [cntLine_enc r _ (h r (by simp))]
      simp only []
      rw [ih (fun x hx => h x (by simp [hx])) f (by simp at hf; omega)]

/-! ### the six updaters (`Updater`, `Updater.ops`, `updater_shape`: CoapVerif/Lemmas/PersistFs.lean) -/

/-- **Never torn.**  For every updater, all arguments, every file system in which no save file is open for writing
(the state between two updates), every crash point `k` in the updater's op sequence and every amount `keep` of
unflushed stdio buffer that happened to reach the disk: after the kill EVERY save file holds what it held before the
update, or EVERY save file holds what it holds after the complete update. -/
theorem update_atomic (u : Updater) (fs : FS) (hq : NoMainWr fs) (k : Nat) (keep : Name → Nat) :
    (∀ G, (afterCrash (exec fs ((u.ops fs).take k)) keep).disk (main G) = fs.disk (main G)) ∨
    (∀ G, (afterCrash (exec fs ((u.ops fs).take k)) keep).disk (main G) = (exec fs (u.ops fs)).disk (main G)) :=
  shape_atomic u.file (u.ops fs) (updater_shape u fs) fs hq k keep

/-- an update only ever changes its own save file -/
theorem update_other_files_untouched (u : Updater) (fs : FS) (hq : NoMainWr fs) (G : FileId) (hG : G ≠ u.file) :
    (exec fs (u.ops fs)).disk (main G) = fs.disk (main G) := by
  rcases updater_shape u fs with ⟨pre, hpre, h | h⟩
  · rw [h]; exact (exec_safe _ pre fs hpre hq).2 G
  · rw [h, exec_append]
    have h1 := exec_safe _ pre fs hpre hq
    simp only [exec, List.foldl, step]
    have hne : main G ≠ main u.file := by intro hh; injection hh; contradiction
    have hne2 : main G ≠ tmp u.file := by intro hh; injection hh
    cases hd : (List.foldl step fs pre).disk (tmp u.file) with
    | none => exact h1.2 G
    | some c => simp only []; rw [upd_ne hne2, upd_ne hne]; exact h1.2 G

/-! ### new = old with the entry added / replaced / removed -/

theorem update_functional_dyn_added (fs : FS) (hq : NoMainWr fs) (r : DynRec) :
    (exec fs (Persist.dynAdded fs r)).disk (main .dyn) =
      some (((dynFile fs).filter (·.name ≠ r.name)).flatMap encDyn ++ encDyn r) := by
  rw [dynAdded_frame, frame_result _ _ _ fs (body_added_dyn fs r) hq, writesOf_append, writesOf_writes,
    dynWrites_flatten]
  cases h : exists? fs (main .dyn) with
  | true => simp only [if_true, dynCopy_writes, dynFile]
  | false =>
    have : content fs (main .dyn) = [] := by
      simp only [exists?, Option.isSome_eq_false_iff, Option.isNone_iff_eq_none] at h; simp [content, h]
    simp [dynFile, this, dynAll, dynRead, rdN, szProto, writesOf]

theorem update_functional_dyn_deleted (fs : FS) (hq : NoMainWr fs) (name : Bytes) :
    (exec fs (Persist.dynDeleted fs name)).disk (main .dyn) =
      if exists? fs (main .dyn) then some (((dynFile fs).filter (·.name ≠ name)).flatMap encDyn) else none := by
  cases h : exists? fs (main .dyn) with
  | true =>
    rw [dynDeleted_frame fs name h, frame_result _ _ _ fs (dynCopy_body _ _ _) hq, dynCopy_writes]
    simp [dynFile]
  | false =>
    have hd : fs.disk (main .dyn) = none := by
      simpa only [exists?, Option.isSome_eq_false_iff, Option.isNone_iff_eq_none] using h
    simp [Persist.dynDeleted, h, exec, step, hd]

theorem update_functional_obs_added (fs : FS) (hq : NoMainWr fs) (r : ObsRec) :
    (exec fs (Persist.obsAdded fs r)).disk (main .obs) =
      some (((obsFile fs).filter (·.key ≠ r.key)).flatMap encObs ++ encObs r) := by
  rw [obsAdded_frame, frame_result _ _ _ fs (body_added_obs fs r) hq, writesOf_append, writesOf_writes]
  cases h : exists? fs (main .obs) with
  | true => simp only [if_true, obsCopy_writes, obsFile, encObs]
  | false =>
    have : content fs (main .obs) = [] := by
      simp only [exists?, Option.isSome_eq_false_iff, Option.isNone_iff_eq_none] at h; simp [content, h]
    simp [obsFile, this, obsAll, obsRead, rdN, szKey, writesOf, encObs]

theorem update_functional_obs_deleted (fs : FS) (hq : NoMainWr fs) (key : Nat) :
    (exec fs (Persist.obsDeleted fs key)).disk (main .obs) =
      if exists? fs (main .obs) then some (((obsFile fs).filter (·.key ≠ key)).flatMap encObs) else none := by
  cases h : exists? fs (main .obs) with
  | true =>
    rw [obsDeleted_frame fs key h, frame_result _ _ _ fs (obsCopy_body _ _ _) hq, obsCopy_writes]
    simp [obsFile]
  | false =>
    have hd : fs.disk (main .obs) = none := by
      simpa only [exists?, Option.isSome_eq_false_iff, Option.isNone_iff_eq_none] using h
    simp [Persist.obsDeleted, h, exec, step, hd]

theorem update_functional_cnt_track (fs : FS) (hq : NoMainWr fs) (r : CntRec) :
    (exec fs (Persist.cntTrack fs r)).disk (main .cnt) =
      some (((cntFile fs).filter (·.name ≠ r.name)).flatMap encCnt ++ encCnt r) := by
  rw [cntTrack_frame, frame_result _ _ _ fs (body_track_cnt fs r) hq, writesOf_append]
  cases h : exists? fs (main .cnt) with
  | true => simp [cntCopy_writes, cntFile, writesOf]
  | false =>
    have : content fs (main .cnt) = [] := by
      simp only [exists?, Option.isSome_eq_false_iff, Option.isNone_iff_eq_none] at h; simp [content, h]
    simp [cntFile, this, cntAll, cntLine, writesOf]

theorem update_functional_cnt_deleted (fs : FS) (hq : NoMainWr fs) (name : Bytes) :
    (exec fs (Persist.cntDeleted fs name)).disk (main .cnt) =
      if exists? fs (main .cnt) then some (((cntFile fs).filter (·.name ≠ name)).flatMap encCnt) else none := by
  cases h : exists? fs (main .cnt) with
  | true =>
    rw [cntDeleted_frame fs name h, frame_result _ _ _ fs (cntCopy_body _ _ _) hq, cntCopy_writes]
    simp [cntFile]
  | false =>
    have hd : fs.disk (main .cnt) = none := by
      simpa only [exists?, Option.isSome_eq_false_iff, Option.isNone_iff_eq_none] using h
    simp [Persist.cntDeleted, h, exec, step, hd]

/-! ### the same on records: a file made of well-formed records stays one, and its record list changes as the
list-level model (`Files.dynAdded` … in Model/PersistList.lean) says -/

theorem length_le_flatMap {α} (enc : α → Bytes) (h : ∀ r, 0 < (enc r).length) (recs : List α) :
    recs.length ≤ (recs.flatMap enc).length := by
  induction recs with
  | nil => simp
  | cons r rs ih => simp only [List.flatMap_cons, List.length_cons, List.length_append]; have := h r; omega

theorem encDyn_pos (r : DynRec) : 0 < (encDyn r).length := by simp [encDyn, le_length, szProto]; omega
theorem encObs_pos (r : ObsRec) : 0 < (encObs r).length := by
  simp [encObs, obsWrites, le_length, szKey]; omega
theorem encCnt_pos (r : CntRec) : 0 < (encCnt r).length := by simp [encCnt]; omega

/-- a dyn file that is the concatenation of well-formed records decodes to them -/
theorem dynFile_of_records (fs : FS) (recs : List DynRec) (h : fs.disk (main .dyn) = some (recs.flatMap encDyn))
    (hw : ∀ r ∈ recs, r.WF) : dynFile fs = recs := by
  simp only [dynFile, content, h, Option.getD_some]
  exact file_roundtrip_dyn recs hw _ (by have := length_le_flatMap encDyn encDyn_pos recs; omega)

theorem obsFile_of_records (fs : FS) (recs : List ObsRec) (h : fs.disk (main .obs) = some (recs.flatMap encObs))
    (hw : ∀ r ∈ recs, r.WF) : obsFile fs = recs := by
  simp only [obsFile, content, h, Option.getD_some]
  exact file_roundtrip_obs recs hw _ (by have := length_le_flatMap encObs encObs_pos recs; omega)

theorem cntFile_of_records (fs : FS) (recs : List CntRec) (h : fs.disk (main .cnt) = some (recs.flatMap encCnt))
    (hw : ∀ r ∈ recs, r.WF) : cntFile fs = recs := by
  simp only [cntFile, content, h, Option.getD_some]
  exact file_roundtrip_cnt recs hw _ (by have := length_le_flatMap encCnt encCnt_pos recs; omega)

theorem update_records_dyn_added (fs : FS) (hq : NoMainWr fs) (recs : List DynRec)
    (h : fs.disk (main .dyn) = some (recs.flatMap encDyn)) (hw : ∀ x ∈ recs, x.WF) (r : DynRec) (hr : r.WF) :
    dynFile (exec fs (Persist.dynAdded fs r)) = recs.filter (·.name ≠ r.name) ++ [r] := by
  apply dynFile_of_records
  · rw [update_functional_dyn_added fs hq r, dynFile_of_records fs recs h hw]; simp
  · intro x hx
    simp only [List.mem_append, List.mem_filter, List.mem_singleton] at hx
    rcases hx with hx | hx
    · exact hw x hx.1
    · exact hx ▸ hr

theorem update_records_dyn_deleted (fs : FS) (hq : NoMainWr fs) (recs : List DynRec)
    (h : fs.disk (main .dyn) = some (recs.flatMap encDyn)) (hw : ∀ x ∈ recs, x.WF) (name : Bytes) :
    dynFile (exec fs (Persist.dynDeleted fs name)) = recs.filter (·.name ≠ name) := by
  apply dynFile_of_records
  · rw [update_functional_dyn_deleted fs hq name, dynFile_of_records fs recs h hw]; simp [exists?, h]
  · intro x hx; exact hw x (List.mem_filter.1 hx).1

theorem update_records_obs_added (fs : FS) (hq : NoMainWr fs) (recs : List ObsRec)
    (h : fs.disk (main .obs) = some (recs.flatMap encObs)) (hw : ∀ x ∈ recs, x.WF) (r : ObsRec) (hr : r.WF) :
    obsFile (exec fs (Persist.obsAdded fs r)) = recs.filter (·.key ≠ r.key) ++ [r] := by
  apply obsFile_of_records
  · rw [update_functional_obs_added fs hq r, obsFile_of_records fs recs h hw]; simp
  · intro x hx
    simp only [List.mem_append, List.mem_filter, List.mem_singleton] at hx
    rcases hx with hx | hx
    · exact hw x hx.1
    · exact hx ▸ hr

theorem update_records_obs_deleted (fs : FS) (hq : NoMainWr fs) (recs : List ObsRec)
    (h : fs.disk (main .obs) = some (recs.flatMap encObs)) (hw : ∀ x ∈ recs, x.WF) (key : Nat) :
    obsFile (exec fs (Persist.obsDeleted fs key)) = recs.filter (·.key ≠ key) := by
  apply obsFile_of_records
  · rw [update_functional_obs_deleted fs hq key, obsFile_of_records fs recs h hw]; simp [exists?, h]
  · intro x hx; exact hw x (List.mem_filter.1 hx).1

theorem update_records_cnt_track (fs : FS) (hq : NoMainWr fs) (recs : List CntRec)
    (h : fs.disk (main .cnt) = some (recs.flatMap encCnt)) (hw : ∀ x ∈ recs, x.WF) (r : CntRec) (hr : r.WF) :
    cntFile (exec fs (Persist.cntTrack fs r)) = recs.filter (·.name ≠ r.name) ++ [r] := by
  apply cntFile_of_records
  · rw [update_functional_cnt_track fs hq r, cntFile_of_records fs recs h hw]; simp
  · intro x hx
    simp only [List.mem_append, List.mem_filter, List.mem_singleton] at hx
    rcases hx with hx | hx
    · exact hw x hx.1
    · exact hx ▸ hr

theorem update_records_cnt_deleted (fs : FS) (hq : NoMainWr fs) (recs : List CntRec)
    (h : fs.disk (main .cnt) = some (recs.flatMap encCnt)) (hw : ∀ x ∈ recs, x.WF) (name : Bytes) :
    cntFile (exec fs (Persist.cntDeleted fs name)) = recs.filter (·.name ≠ name) := by
  apply cntFile_of_records
  · rw [update_functional_cnt_deleted fs hq name, cntFile_of_records fs recs h hw]; simp [exists?, h]
  · intro x hx; exact hw x (List.mem_filter.1 hx).1

/-- the state between two updates is re-established by every complete update -/
theorem update_keeps_quiescent (u : Updater) (fs : FS) (hq : NoMainWr fs) : NoMainWr (exec fs (u.ops fs)) := by
  rcases updater_shape u fs with ⟨pre, hpre, h | h⟩
  · rw [h]; exact (exec_safe _ pre fs hpre hq).1
  · rw [h, exec_append]
    have h1 := exec_safe _ pre fs hpre hq
    intro G
    simp only [exec, List.foldl, step]
    cases (List.foldl step fs pre).disk (tmp u.file) <;> exact h1.1 G

/-- the defect of the pinned tree (fixed by ec63050): `coap_op_dyn_resource_added` opened the save file "a" and then
read it, so the rewrite kept only the newest entry.  Witness: a file holding resource `a`, adding `b`. -/
theorem dyn_added_pinned_loses_entries :
    let ra : DynRec := ⟨1, [97], [80, 3]⟩
    let rb : DynRec := ⟨1, [98], [80, 3]⟩
    let fs : FS := ⟨upd (fun _ => none) (main .dyn) (some (encDyn ra)), fun _ => none, fun _ => none⟩
    (exec fs (dynAddedPinned fs rb)).disk (main .dyn) = some (encDyn rb) ∧
    (exec fs (Persist.dynAdded fs rb)).disk (main .dyn) = some (encDyn ra ++ encDyn rb) := by
  decide

/-! ### restart restores the state (see CoapVerif/Lemmas/PersistHist.lean for the list-level semantics `L`) -/

/-- **For every history** of resource creations / deletions and observe registrations / re-registrations /
cancellations: the resources the dyn loader re-creates are exactly those created and not deleted, and the
observations the observe loader re-establishes are exactly those registered and not cancelled (nor lost with their
resource). -/
theorem restart_restores (h : List HEv) :
    (∀ n, n ∈ (L.run h).restoredRes ↔ n ∈ (Abs.run h).res) ∧
    (∀ c n v, (c, n, v) ∈ (L.run h).restoredObs ↔ (c, n, v) ∈ (Abs.run h).obs) :=
  L.restore_run h

/-- … also after a crash at any point of the last event: the process dies after some number `j` of the event's
single-file updates are complete (by `update_atomic` an interrupted update counts as not started or as complete);
the loaders then re-create the state before the event, the state after it, or — for a re-registration with a new
token (D17.1) — the state after the cancellation half. -/
theorem restart_restores_after_crash (h : List HEv) (e : HEv) (fl : Files) (hfl : fl ∈ L.stages (L.run h) e) :
    RestoreEq fl (Abs.run h) ∨ RestoreEq fl (Abs.run (h ++ [e])) ∨
    (∃ c n v, e = .observe c n v ∧ RestoreEq fl ((Abs.run h).step (.cancel c n))) :=
  L.stages_restore h e fl hfl

/-! ### the endpoint an observation came in on (server contexts with several endpoints)

`coap_persist_observe_add_lkd` re-creates the session of a stored observation on the endpoint of the restarted context
whose protocol and `bind_addr` equal the record's (`findEp`, Model/Persist.lean); a record for which the search fails is
dropped.  `eps` = `context->endpoint` of the restarted server (any number of endpoints, any order), `via c` = the endpoint
the session of client `c` came in through. -/

/-- **Every UDP endpoint of the context is found**, whatever its position in `context->endpoint` and whatever other
endpoints exist: the search returns an endpoint of the context with exactly that protocol and bind address. -/
theorem endpoint_search_finds (eps : List Ep) (e : Ep) (he : e ∈ eps) (hp : e.proto = protoUdp) :
    ∃ e', findEp eps e.proto e.addr = some e' ∧ e' ∈ eps ∧ e'.proto = e.proto ∧ e'.addr = e.addr :=
  findEp_mem he hp

/-- … and nothing else is: a session is only ever re-created on an endpoint of the context that has the record's
protocol (UDP) and listen address. -/
theorem endpoint_search_sound (eps : List Ep) (proto : Nat) (listen : Bytes) (e : Ep)
    (h : findEp eps proto listen = some e) : e ∈ eps ∧ e.proto = proto ∧ e.addr = listen ∧ proto = protoUdp := by
  simp only [findEp] at h
  by_cases hp : proto = protoUdp
  · simp only [hp, ne_eq, not_true_eq_false, if_false] at h
    have := epWalk_some h
    exact ⟨this.1, by rw [hp]; exact this.2.1, this.2.2, hp⟩
  · simp [hp] at h

/-- **For every history, every set of endpoints and every assignment of clients to (UDP) endpoints of the context**:
restarted with the same endpoints, the observe loader re-establishes exactly the observations registered and not
cancelled — no observation is lost because of the endpoint it was registered through. -/
theorem restart_restores_endpoints (h : List HEv) (eps : List Ep) (via : Nat → Ep)
    (hvia : ∀ c, via c ∈ eps ∧ (via c).proto = protoUdp) :
    RestoreEqVia eps via (L.run h).files (Abs.run h) := by
  refine ⟨(restart_restores h).1, ?_⟩
  rw [restoredObsVia_eq eps via hvia]; exact (restart_restores h).2

/-- … also after a crash at any point of the last event (`restart_restores_after_crash` with endpoints). -/
theorem restart_restores_endpoints_after_crash (h : List HEv) (e : HEv) (fl : Files) (hfl : fl ∈ L.stages (L.run h) e)
    (eps : List Ep) (via : Nat → Ep) (hvia : ∀ c, via c ∈ eps ∧ (via c).proto = protoUdp) :
    RestoreEqVia eps via fl (Abs.run h) ∨ RestoreEqVia eps via fl (Abs.run (h ++ [e])) ∨
    (∃ c n v, e = .observe c n v ∧ RestoreEqVia eps via fl ((Abs.run h).step (.cancel c n))) := by
  have hv : ∀ a, RestoreEq fl a → RestoreEqVia eps via fl a := by
    intro a ha; refine ⟨ha.1, ?_⟩; rw [restoredObsVia_eq eps via hvia]; exact ha.2
  rcases restart_restores_after_crash h e fl hfl with h1 | h1 | ⟨c, n, v, he, h1⟩
  · exact Or.inl (hv _ h1)
  · exact Or.inr (Or.inl (hv _ h1))
  · exact Or.inr (Or.inr ⟨c, n, v, he, hv _ h1⟩)

/-! ### the Observe counter -/

/-- **No Observe value is repeated or goes backwards across a restart** (plain order; the counter does not wrap
during the history: `c0.obs + evs.length + f < 2^24`).  `c0` is any state in which the saved value covers the
counter (`Cnt.Inv`, e.g. right after a registration), `evs` any sequence of notifications and registrations;
every value put on the wire (notifications and registration responses) is smaller than the first notification after
a restart that finds the saved value in the counter file. -/
theorem observe_after_restart_greater (f : Nat) (hf : 0 < f) (c0 : Cnt) (h0 : Cnt.Inv f c0) (evs : List CntEv)
    (hw : c0.obs + evs.length + f < 2 ^ 24) :
    ∀ v ∈ (Cnt.run f c0 evs).sent, v < nextObs (roundUp (Cnt.run f c0 evs).saved f) :=
  Cnt.sent_lt_first f hf c0 h0 evs hw

/-- … and when the process is killed inside the last event, whichever of the two values (`update_atomic`) the counter
file then holds: nothing of the interrupted event was sent yet (the value is saved before it is sent). -/
theorem observe_after_restart_greater_crash (f : Nat) (hf : 0 < f) (c0 : Cnt) (h0 : Cnt.Inv f c0) (evs : List CntEv)
    (e : CntEv) (hw : c0.obs + (evs.length + 1) + f < 2 ^ 24) (s : Nat)
    (hs : s = (Cnt.run f c0 evs).saved ∨ s = (Cnt.run f c0 (evs ++ [e])).saved) :
    ∀ v ∈ (Cnt.run f c0 evs).sent, v < nextObs (roundUp s f) :=
  Cnt.sent_lt_first_crash f hf c0 h0 evs e hw s hs

/-- across the 24-bit wrap: every value sent since the counter was last saved (these are the values the rounding
`((n + f) / f) * f - 1` exists for) precedes the first value after restart in RFC 7641 §3.4 serial order
(hypothesis on wrap: `f ≤ 2^22`; the property uses 1..10). -/
theorem observe_after_restart_greater_serial (f : Nat) (hf : 0 < f) (hf2 : f ≤ 2 ^ 22) (c0 : Cnt) (h0 : Cnt.InvW f c0)
    (evs : List CntEv) :
    ∀ v ∈ (Cnt.run f c0 evs).recent, serialLt v (nextObs (roundUp (Cnt.run f c0 evs).saved f)) :=
  Cnt.recent_serial_lt f hf hf2 c0 h0 evs

/-! ### non-vacuity -/

example : NoMainWr FS.empty := fun _ => rfl
example : Cnt.Inv 10 ⟨2, 2, [], []⟩ := by decide
example : Cnt.InvW 10 ⟨16777215, 16777210, [], [16777210, 16777215]⟩ := by decide
example : (Cnt.run 10 ⟨16777215, 16777210, [], [16777215]⟩ [.notify, .notify]).recent = [0, 1] := by decide
example : (L.run [.create [97], .observe 1 [97] 0, .observe 1 [97] 1, .create [98], .delete [98]]).restoredObs = [(1, [97], 1)] := by
  decide
-- two endpoints (context order: the one created last first); client 0 came in through the one created first
example : (L.run [.create [97], .observe 0 [97] 0, .observe 3 [97] 1]).files.restoredObsVia
    [⟨1, [2, 0, 0xB2, 0x75]⟩, ⟨1, [2, 0, 0xB2, 0x73]⟩] (fun c => if c < 3 then ⟨1, [2, 0, 0xB2, 0x73]⟩ else ⟨1, [2, 0, 0xB2, 0x75]⟩) =
    [(0, [97], 0), (3, [97], 1)] := by decide
-- an endpoint that no longer exists (or a record of another protocol) is not found: the hypothesis `via c ∈ eps` matters
example : findEp [⟨1, [2, 0, 0xB2, 0x75]⟩] 1 [2, 0, 0xB2, 0x73] = none ∧ findEp [⟨2, [5]⟩] 2 [5] = none := by decide

end Coap.C17
