import CoapVerif.Lemmas.Lock
import CoapVerif.Generated.ThreadCfg
/-
C13 — advertised thread safety: concurrent API use is serialised and never deadlocks.

  M = CoapVerif/Model/Lock.lean: `global_lock`, coap_lock_lock_func / coap_lock_unlock_func (both variants, `rc`),
      the four callback macros, N threads (`Tid → …`, any number) each running a well-nested token program (`wn`),
      interleaved one token at a time (`Step`), blocking on the mutex (`tokStep … = none`).
  T1 = Generated/ThreadCfg.lean: what the build systems configure (is `#if COAP_THREAD_SAFE` taken, what does
      coap_threadsafe_is_supported() say), every COAP_API wrapper and every callback invocation site of the tree,
      the lock balance of every function that releases / takes the lock itself (`lockWindows`).

All theorems below hold for **any** number of threads, **any** well-nested programs, **any** interleaving (they are
statements about every `Reach`able state, proved from the invariant `Inv` of Lemmas/Lock.lean) and for both variants
of the lock functions.  Property theorems only; helper lemmas live in CoapVerif/Lemmas/Lock.lean.
-/
namespace Coap.C13
open Coap Coap.Lock

variable {rc : Bool} {progs : Tid → List Tok} {s : Sys}

/-! ## T1: what is configured and what the source tree brackets -/

/-- in every build configuration: when coap_threadsafe_is_supported() says yes, the locking code is compiled in -/
theorem advertised_implies_compiled_all : ∀ c ∈ Generated.buildCfgs, c.advertised = true → c.compiledIn = true := by
  decide

/-- the default (CMake) configuration -/
theorem advertised_implies_compiled : Generated.advertised = true → Generated.lockingCompiledIn = true := by
  decide

/-- every COAP_API function takes the lock, calls its worker under the lock, and unlocks on every path -/
theorem api_sites_bracketed : ∀ a ∈ Generated.apiSites, a.locks = true ∧ a.callsLkd = true ∧ a.unlocks = true := by
  decide

/- Full statement — every invocation of an application-supplied function pointer goes through one of the
   coap_lock_callback* macros:
     theorem callback_sites_wrapped : ∀ c ∈ Generated.callbackSites, c.wrapped = true
   It is FALSE on the current tree (open finding `unwrapped-aux-callback`, KNOWN_FINDINGS.txt): the observe-persistence
   tracking callbacks (coap_persist_track_funcs), the OSCORE save_seq_num_func and two GnuTLS set-up callbacks are invoked
   under the lock without `in_callback++`, so a public-API call from inside them self-deadlocks.  Witness: -/
example : ∃ c ∈ Generated.callbackSites, c.listed = false ∧ c.wrapped = false := by decide

/-- every invocation of a callback of the types the property enumerates (request, response, NACK, event, ping and pong
handlers) goes through one of the coap_lock_callback* macros -/
theorem callback_sites_wrapped_partial : ∀ c ∈ Generated.callbackSites, c.listed = true → c.wrapped = true := by
  decide

/-- **release windows inside the library are balanced.**  Every function of the compiled sources that releases or
takes the global lock itself (COAP_API wrappers, coap_new_context, the callback-release sites, and the window around
the blocking wait in coap_io_process_with_fds_lkd: `coap_lock_unlock(ctx); epoll_wait(…); coap_lock_lock(ctx, …)`)
reaches every `return` / its end / every loop back-edge at the lock level it was entered with, the failure action of
every re-lock leaves the function, and nothing inside a release window touches library state.  (T1: the facts are
recomputed from the tree by extract/lockbal.py on every run — path-sensitive over the statement tree.) -/
theorem internal_windows_balanced : ∀ f ∈ Generated.lockWindows, f.balanced = true := by
  have h : Generated.lockWindows.all LockFn.balanced = true := by decide
  exact fun f hf => List.all_eq_true.mp h f hf

/-- the scan saw the construct: a non-API function entered with the lock held that unlocks and re-locks -/
theorem internal_windows_seen :
    ∃ f ∈ Generated.lockWindows, f.api = false ∧ f.entryHeld = true ∧ 0 < f.unlocks ∧ 0 < f.locks := by
  decide

set_option maxRecDepth 100000 in
/-- **library code never calls the lock-taking public API.**  No function of the compiled sources that runs under the
global lock — the `*_lkd` workers, everything reached from them by direct calls (the timer work of
coap_io_prepare_io_lkd: keepalive pings, retransmissions, session expiry; the receive path; …), the COAP_API wrappers
between their coap_lock_lock and coap_lock_unlock — calls a function that takes the lock at its own entry level
(a COAP_API wrapper, coap_new_context).  `lib_api_call_deadlocks_or_faults` below is why: such a call cannot succeed.
(T1: extract/lockbal.py `held_functions`, recomputed from the tree on every run; calls through function pointers are
not followed, the `func` arguments of the callback macros are application code.) -/
theorem no_api_call_under_lock : ∀ f ∈ Generated.heldFns, f.apiCalls = 0 := by
  have h : Generated.heldFns.all (fun f => f.apiCalls == 0) = true := by decide
  exact fun f hf => by simpa using List.all_eq_true.mp h f hf

set_option maxRecDepth 100000 in
/-- the scan saw the construct: functions entered with the lock held that make calls under it (among them the timer
work of the I/O loop), and functions that take the lock themselves -/
theorem held_functions_seen :
    (∃ f ∈ Generated.heldFns, f.name = "coap_io_prepare_io_lkd" ∧ f.entersHeld = true ∧ 0 < f.heldCalls) ∧
    (∃ f ∈ Generated.heldFns, f.entersHeld = false ∧ 0 < f.heldCalls) := by
  decide

/-- the scan saw something -/
theorem sites_nonempty : Generated.apiSites ≠ [] ∧ Generated.callbackSites ≠ [] ∧ Generated.buildCfgs ≠ [] := by
  decide

/-! ## the lock protocol -/

/-- no `assert()` of the lock functions / macros can fail and the mutex is never unlocked by a thread that does not
hold it; `global_lock` stays consistent with its mutex -/
theorem no_assert_fails (hw : ∀ t, wn [] (progs t) = true) (hr : Reach rc progs s) : s.g.fault = false :=
  (inv_reach hw hr).cons.nofault

/-- a thread executing library code holds the mutex and is the recorded `pid` -/
theorem lib_holds_mutex (hw : ∀ t, wn [] (progs t) = true) (hr : Reach rc progs s) {t : Tid} (hl : inLib s t) :
    s.g.owner = some t ∧ s.g.pid = selfPid t := by
  have hi := inv_reach hw hr
  have ht := hi.thr t
  have hg := interp_good _ ht.ok
  have htop : isApiTop (s.thr t).stack = true := by
    unfold inLib at hl
    match hst : (s.thr t).stack, hl with
    | .api :: _, _ => rfl
    | [], h => simp at h
    | .cb _ :: _, h => simp at h
  have := (hg.1 htop).1
  rw [← ht.view] at this
  have ho := view_holds this
  exact ⟨ho, hi.cons.own t ho⟩

/-- **mutual exclusion**: library state is touched by at most one thread at a time -/
theorem mutual_exclusion (hw : ∀ t, wn [] (progs t) = true) (hr : Reach rc progs s) {t u : Tid}
    (ht : inLib s t) (hu : inLib s u) : t = u := by
  have h1 := (lib_holds_mutex hw hr ht).1
  have h2 := (lib_holds_mutex hw hr hu).1
  rw [h1] at h2
  exact Option.some.inj h2

/-- **why library code must not call the public API itself** (the hypothesis `wn` makes about library code, checked on
the tree by T1 `no_api_call_under_lock`): for a thread that is executing library code, coap_lock_lock_func() — the entry
of every COAP_API wrapper — either blocks on the mutex the thread holds itself (`in_callback = 0`: self-deadlock, and with
it every other thread's API call blocks for ever), or, nested under a lock-keeping callback, returns with
`assert(global_lock.in_callback == global_lock.lock_count)` violated.  It never simply succeeds.
(Seeded defect C13-8: the keepalive branch of coap_io_prepare_io_lkd called coap_session_send_ping().) -/
theorem lib_api_call_deadlocks_or_faults (hw : ∀ t, wn [] (progs t) = true) (hr : Reach rc progs s) {t : Tid}
    (hl : inLib s t) :
    (lockFunc rc t s.g = none ∧ s.g.owner = some t) ∨ (∃ g', lockFunc rc t s.g = some g' ∧ g'.fault = true) := by
  have hi := inv_reach hw hr
  obtain ⟨ho, hp⟩ := lib_holds_mutex hw hr hl
  have ht := hi.thr t
  have hg := interp_good _ ht.ok
  have htop : isApiTop (s.thr t).stack = true := by
    unfold inLib at hl
    match hst : (s.thr t).stack, hl with
    | .api :: _, _ => rfl
    | [], h => simp at h
    | .cb _ :: _, h => simp at h
  have gl := hg.1 htop
  rw [← ht.view] at gl
  have hrc : lockFunc rc t s.g = lockFunc false t s.g := by
    cases rc
    · rfl
    · exact lockFunc_rc_eq hi.cons t
  rw [hrc]
  generalize s.g = g at ho hp gl ⊢
  obtain ⟨owner, pid, inCb, cnt, fault⟩ := g
  simp only at ho hp
  subst ho hp
  simp only [view, if_true, goodLib] at gl
  obtain ⟨_, h0, h1⟩ := gl
  by_cases hk : inCb = 0
  · left
    simp [lockFunc, hk]
  · right
    have hc : cnt = inCb := h1 hk
    subst hc
    have hne : ¬ cnt = (cnt + 1) % 4294967296 := by omega
    simp [lockFunc, hk, G.assert, u32, hne]

/-- a thread runs under the lock: it is in library code or in a callback invoked with the lock kept -/
def underLock (s : Sys) (t : Tid) : Prop :=
  match (s.thr t).stack with
  | .api :: _ => True
  | .cb k :: _ => k.releases = false
  | [] => False

/-- the critical sections (library code *and* lock-keeping callbacks) of different threads never overlap -/
theorem critical_sections_exclusive (hw : ∀ t, wn [] (progs t) = true) (hr : Reach rc progs s) {t u : Tid}
    (ht : underLock s t) (hu : underLock s u) : t = u := by
  have hi := inv_reach hw hr
  have key : ∀ v, underLock s v → s.g.owner = some v := by
    intro v hv
    have hv' := hi.thr v
    have hg := interp_good _ hv'.ok
    apply view_holds
    rw [hv'.view]
    unfold underLock at hv
    match hst : (s.thr v).stack, hv with
    | .api :: st, _ => rw [hst] at hg; exact (hg.1 rfl).1
    | .cb k :: st, h =>
      rw [hst] at hg hv'
      simp only at h
      have ga := hg.2.1 rfl
      have : (interp (.cb k :: st)).k ≠ 0 := by simp [interp, pushA, h]
      exact (ga.2 this).1
    | [], h => simp at h
  have h1 := key t ht
  have h2 := key u hu
  rw [h1] at h2
  exact Option.some.inj h2

/-- whoever changes `global_lock` while the mutex is taken is its holder: every token of every other thread blocks —
except a repeated coap_startup(), which any thread may issue at any time and which leaves `global_lock` untouched -/
theorem only_holder_moves (hw : ∀ t, wn [] (progs t) = true) (hr : Reach rc progs s) {t : Tid}
    {tok : Tok} {rest : List Tok} {g' : G} (hp : (s.thr t).prog = tok :: rest) (hs : tokStep rc t tok s.g = some g') :
    (tok = .startup ∧ g' = s.g) ∨ s.g.owner = none ∨ s.g.owner = some t := by
  have hi := inv_reach hw hr
  have ht := hi.thr t
  rw [hp] at ht
  rcases (tok_sim hi.cons ht hs).2.2 with h | h
  · exact Or.inl h
  · exact Or.inr h.1

/-- **a repeated coap_startup() is ignored** (man page: "subsequent calls are ignored"): whoever issues it, whenever,
`global_lock` and its mutex stay as they are — in particular while another thread is inside the library.  All theorems
of this file quantify over programs that may contain such calls at every application-level point (`wn`). -/
theorem repeated_startup_ignored (t : Tid) (g : G) : tokStep rc t .startup g = some g := rfl

/-- … so it never blocks and never lets a second thread into the library -/
theorem startup_enabled {t : Tid} {rest : List Tok} (hp : (s.thr t).prog = .startup :: rest) : enabled rc s t :=
  ⟨_, _, _, hp, rfl⟩

/-- **re-entry only by the owner from inside a callback**: if coap_lock_lock() succeeds while the mutex is taken, the
caller is the holder, it is inside an application callback, and `in_callback > 0` -/
theorem reentry_only_by_owner_in_callback (hw : ∀ t, wn [] (progs t) = true) (hr : Reach rc progs s)
    {t u : Tid} {rest : List Tok} {g' : G} (hp : (s.thr t).prog = .lock :: rest)
    (hs : tokStep rc t .lock s.g = some g') (ho : s.g.owner = some u) :
    u = t ∧ 0 < s.g.inCb ∧ ∃ k st, (s.thr t).stack = .cb k :: st := by
  have hi := inv_reach hw hr
  have hut : u = t := by
    rcases only_holder_moves hw hr hp hs with h | h | h
    · cases h.1
    · rw [h] at ho; cases ho
    · rw [h] at ho; exact (Option.some.inj ho).symm
  subst hut
  have ht := hi.thr u
  rw [hp] at ht
  have ga := app_view_of_blocking ht (Or.inl rfl)
  have hv : view u s.g = ⟨true, s.g.inCb, s.g.cnt⟩ := by simp [view, ho]
  rw [hv] at ga
  have hk : s.g.inCb ≠ 0 := by
    intro h0; have := (ga.1 h0).2; simp at this
  refine ⟨rfl, Nat.pos_of_ne_zero hk, ?_⟩
  have hwn := ht.wn
  have hview := ht.view
  match hst : (s.thr u).stack with
  | .cb k :: st => exact ⟨k, st, rfl⟩
  | [] => rw [hst, hv] at hview; simp [interp, A.zero] at hview
  | .api :: st => rw [hst] at hwn; simp [Lock.wn] at hwn

/-- **balanced**: when a thread's top-level API call returns (the `unlock` that empties its call stack), the mutex is
free, `pid = 0`, `in_callback = 0`, `lock_count = 0` and no assertion has failed -/
theorem balanced (hw : ∀ t, wn [] (progs t) = true) (hr : Reach rc progs s) {t : Tid} {rest : List Tok} {g' : G}
    (hst : (s.thr t).stack = [.api]) (hp : (s.thr t).prog = .unlock :: rest)
    (hs : tokStep rc t .unlock s.g = some g') :
    g' = G.init := by
  have hi := inv_reach hw hr
  have ht := hi.thr t
  rw [hp, hst] at ht
  obtain ⟨c', ti', hoo⟩ := tok_sim hi.cons ht hs
  have o' : g'.owner = none ∨ g'.owner = some t := by
    rcases hoo with h | h
    · cases h.1
    · exact h.2
  have hv := ti'.view
  simp only [stackStep, List.tail_cons, interp] at hv
  have hno : g'.owner = none := by
    rcases o' with h | h
    · exact h
    · simp [view, h, A.zero] at hv
  obtain ⟨h1, h2, h3⟩ := c'.free hno
  have h4 := c'.nofault
  cases g'
  simp_all [G.init]

/-- balanced, state form: whenever every thread is at its top level, `global_lock` is in its initial state -/
theorem balanced_quiescent (hw : ∀ t, wn [] (progs t) = true) (hr : Reach rc progs s)
    (hq : ∀ t, (s.thr t).stack = []) : s.g = G.init := by
  have hi := inv_reach hw hr
  have hno : s.g.owner = none := by
    cases ho : s.g.owner with
    | none => rfl
    | some t =>
      have hv := (hi.thr t).view
      rw [hq t] at hv
      simp [view, ho, interp, A.zero] at hv
  obtain ⟨h1, h2, h3⟩ := hi.cons.free hno
  have h4 := hi.cons.nofault
  cases hg : s.g
  simp_all [G.init]

/-- a blocked thread is blocked by *another* thread holding the mutex — never by itself -/
theorem no_self_deadlock (hw : ∀ t, wn [] (progs t) = true) (hr : Reach rc progs s) {t : Tid}
    (hb : blocked rc s t) : ∃ u, u ≠ t ∧ s.g.owner = some u := by
  have hi := inv_reach hw hr
  obtain ⟨tok, rest, hp, hs⟩ := hb
  have ht := hi.thr t
  rw [hp] at ht
  obtain ⟨hk, hl⟩ := blocking_tok hs
  exact (lock_blocks_iff hi.cons (app_view_of_blocking ht hk)).1 hl

/-- **re-entrancy**: inside a callback invoked with the lock kept (coap_lock_callback / coap_lock_callback_ret) a call
of the public API is never refused; inside a callback invoked with the lock released it is refused only while a
*different* thread holds the mutex -/
theorem reentrancy_ok (hw : ∀ t, wn [] (progs t) = true) (hr : Reach rc progs s) {t : Tid} {k : Cb}
    {st : List Frame} {rest : List Tok} (hst : (s.thr t).stack = .cb k :: st) (hp : (s.thr t).prog = .lock :: rest) :
    (k.releases = false → ∃ g', tokStep rc t .lock s.g = some g') ∧
    (tokStep rc t .lock s.g = none → ∃ u, u ≠ t ∧ s.g.owner = some u) := by
  refine ⟨fun hk => ?_, fun hn => no_self_deadlock hw hr ⟨_, _, hp, hn⟩⟩
  cases hs : tokStep rc t .lock s.g with
  | some g' => exact ⟨g', rfl⟩
  | none =>
    obtain ⟨u, hu, ho⟩ := no_self_deadlock hw hr ⟨_, _, hp, hs⟩
    have : underLock s t := by simp [underLock, hst, hk]
    have hi := inv_reach hw hr
    -- t runs under the lock, so it is the holder
    have ht := hi.thr t
    have hg := interp_good _ ht.ok
    rw [hst] at hg ht
    have hne : (interp (.cb k :: st)).k ≠ 0 := by simp [interp, pushA, hk]
    have hh := ((hg.2.1 rfl).2 hne).1
    rw [← ht.view] at hh
    have := view_holds hh
    rw [ho] at this
    exact absurd (Option.some.inj this) hu

/-- **no deadlock**: whenever a thread is blocked, the thread holding the mutex is a different one and is able to
take its next step — so there is no reachable state in which a thread is blocked while every other thread has
terminated or is itself blocked -/
theorem no_deadlock (hw : ∀ t, wn [] (progs t) = true) (hr : Reach rc progs s) {t : Tid}
    (hb : blocked rc s t) : ∃ u, u ≠ t ∧ s.g.owner = some u ∧ enabled rc s u := by
  have hi := inv_reach hw hr
  obtain ⟨u, hu, ho⟩ := no_self_deadlock hw hr hb
  refine ⟨u, hu, ho, ?_⟩
  have htu := hi.thr u
  -- u holds the mutex, so its stack is not empty, so its program is not finished
  have hne : (s.thr u).stack ≠ [] := by
    intro he
    have hv := htu.view
    rw [he] at hv
    simp [view, ho, interp, A.zero] at hv
  obtain ⟨f, st, hst⟩ := List.exists_cons_of_ne_nil hne
  have hwn := htu.wn
  rw [hst] at hwn
  obtain ⟨tok, rest, hp⟩ := List.exists_cons_of_ne_nil (wn_nonempty hwn)
  cases hs : tokStep rc u tok s.g with
  | some g' => exact ⟨tok, rest, g', hp, hs⟩
  | none =>
    obtain ⟨v, hv, hov⟩ := no_self_deadlock hw hr ⟨tok, rest, hp, hs⟩
    rw [ho] at hov
    exact absurd (Option.some.inj hov).symm hv

/-- an enabled thread is neither blocked nor terminated -/
theorem enabled_not_blocked {t : Tid} (he : enabled rc s t) : ¬ blocked rc s t ∧ ¬ terminated s t := by
  obtain ⟨tok, rest, g', hp, hs⟩ := he
  refine ⟨fun ⟨tok', rest', hp', hs'⟩ => ?_, fun ht => ?_⟩
  · rw [hp] at hp'; cases hp'; rw [hs] at hs'; cases hs'
  · unfold terminated at ht; rw [hp] at ht; cases ht

/-- the property's wording: no thread blocks forever once the others return — if every other thread has terminated
(or is blocked) then `t` is not blocked -/
theorem not_blocked_once_others_return (hw : ∀ t, wn [] (progs t) = true) (hr : Reach rc progs s) {t : Tid}
    (ho : ∀ u, u ≠ t → terminated s u ∨ blocked rc s u) : ¬ blocked rc s t := by
  intro hb
  obtain ⟨u, hu, _, he⟩ := no_deadlock hw hr hb
  have := enabled_not_blocked he
  rcases ho u hu with h | h
  · exact this.2 h
  · exact this.1 h

/-- progress: as long as some thread has not finished, the system can take a step -/
theorem progress (hw : ∀ t, wn [] (progs t) = true) (hr : Reach rc progs s) {t : Tid}
    (hn : ¬ terminated s t) : ∃ s', Step rc s s' := by
  obtain ⟨tok, rest, hp⟩ := List.exists_cons_of_ne_nil hn
  have mk : ∀ u, enabled rc s u → ∃ s', Step rc s s' := fun u ⟨tok, rest, g', hp, hs⟩ =>
    ⟨_, Step.mk s u tok rest g' hp hs⟩
  cases hs : tokStep rc t tok s.g with
  | some g' => exact mk t ⟨tok, rest, g', hp, hs⟩
  | none =>
    obtain ⟨u, _, _, he⟩ := no_deadlock hw hr ⟨tok, rest, hp, hs⟩
    exact mk u he

/-- every call completes with the library's own bookkeeping intact: after any run in which all threads have
finished, the lock is back in its initial state -/
theorem all_done_lock_initial (hw : ∀ t, wn [] (progs t) = true) (hr : Reach rc progs s)
    (hd : ∀ t, terminated s t) : s.g = G.init := by
  apply balanced_quiescent hw hr
  intro t
  have ht := (inv_reach hw hr).thr t
  have hwn := ht.wn
  rw [hd t] at hwn
  match hst : (s.thr t).stack with
  | [] => rfl
  | f :: st => rw [hst] at hwn; simp [Lock.wn] at hwn

/-! ## release windows (`Cb.win`): the I/O thread waiting in coap_io_process()

`mutual_exclusion`, `balanced`, `no_deadlock`, … above are stated for all well-nested programs, and `wn` admits
`cbIn win … cbOut win` wherever it admits a callback macro, so they cover programs with release windows.  The two
theorems below are what the window is *for*. -/

/-- a thread inside a release window (or a `…_release` callback) directly under a top-level API call does not hold
the mutex -/
theorem window_mutex_free (hw : ∀ t, wn [] (progs t) = true) (hr : Reach rc progs s) {t : Tid} {k : Cb}
    (hk : k.releases = true) (hst : (s.thr t).stack = [.cb k, .api]) : s.g.owner ≠ some t := by
  have hv := ((inv_reach hw hr).thr t).view
  rw [hst] at hv
  intro ho
  simp [view, ho, interp, pushA, hk, lockA, unlockA, A.zero] at hv

/-- **while another thread sits in coap_io_process()** (inside the release window around its blocking wait) and all
remaining threads are at their top level, a public API call of any other thread is not refused -/
theorem api_call_enters_during_window (hw : ∀ t, wn [] (progs t) = true) (hr : Reach rc progs s) {t u : Tid} {k : Cb}
    (hk : k.releases = true) (hst : (s.thr t).stack = [.cb k, .api]) (hothers : ∀ v, v ≠ t → (s.thr v).stack = [])
    {rest : List Tok} (hp : (s.thr u).prog = .lock :: rest) : enabled rc s u := by
  have hi := inv_reach hw hr
  have hno : s.g.owner = none := by
    cases ho : s.g.owner with
    | none => rfl
    | some v =>
      by_cases hvt : v = t
      · subst hvt; exact absurd ho (window_mutex_free hw hr hk hst)
      · have hv := (hi.thr v).view
        rw [hothers v hvt] at hv
        simp [view, ho, interp, A.zero] at hv
  have htu := hi.thr u
  rw [hp] at htu
  have ga := app_view_of_blocking htu (Or.inl rfl)
  cases hs : tokStep rc u .lock s.g with
  | some g' => exact ⟨_, _, g', hp, hs⟩
  | none =>
    obtain ⟨v, _, hv⟩ := (lock_blocks_iff hi.cons ga).1 hs
    rw [hno] at hv
    cases hv

/-- thread 0: coap_io_process() = an API call with a release window; thread 1: an API call that runs an event handler -/
def ioProgs : Tid → List Tok
  | 0 => [.lock, .cbIn .win, .cbOut .win, .unlock]
  | 1 => [.lock, .cbIn .keep, .cbOut .keep, .unlock]
  | _ => []

example : ∀ t, wn [] (ioProgs t) = true := by
  intro t
  match t with
  | 0 => decide
  | 1 => decide
  | _ + 2 => rfl

/-- non-vacuity: the I/O thread is in its window, thread 1 has entered the library meanwhile; the I/O thread's re-lock
(`cbOut win`) is refused until thread 1 returns — which it can (the seeded defect "EINTR path skips the re-lock" is a
program that is *not* of this shape: T1 `internal_windows_balanced` is what excludes it) -/
example : ∃ s, Reach false ioProgs s ∧ (s.thr 0).stack = [.cb .win, .api] ∧ inLib s 1 ∧ blocked false s 0 ∧
    enabled false s 1 := by
  refine ⟨_, Reach.step (Reach.step (Reach.step Reach.init
    (Step.mk (Sys.init ioProgs) 0 .lock _ _ rfl rfl)) (Step.mk _ 0 (.cbIn .win) _ _ rfl rfl))
    (Step.mk _ 1 .lock _ _ rfl rfl), rfl, rfl, ?_, ?_⟩
  · exact ⟨.cbOut .win, _, rfl, by decide⟩
  · exact ⟨.cbIn .keep, _, _, rfl, rfl⟩

/-- one thread alone: `lock; window; unlock` runs through and leaves the lock in its initial state -/
example : runSeq (tokStep false) 0 (ioProgs 0) G.init =
    [some ⟨true, 0, 0, true, false⟩, some ⟨false, 0, 0, false, false⟩, some ⟨true, 0, 0, true, false⟩,
     some ⟨false, 0, 0, false, false⟩] := by decide

/-! ## the pinned defect, as a `decide`d witness: `[api [callback_ret []]]`

With coap_lock_callback_ret as it was in the pinned tree (no-recursive-check variant: `in_callback++` twice, `--` once)
one thread running `lock; cbIn ret; cbOut ret; unlock` ends with the mutex still held, `in_callback = 1`, the
`assert(lock_count > 0)` of coap_lock_unlock_func violated and `lock_count` wrapped to 2^32-1: `balanced` is false for
that macro.  The same run through the fixed macros (M) ends in `G.init`. -/

def witness : List Tok := [.lock, .cbIn .ret, .cbOut .ret, .unlock]

example : wn [] witness = true := by decide

example : runSeq (Pinned.tokStep false) 0 witness G.init =
    [some ⟨true, 0, 0, true, false⟩, some ⟨true, 2, 0, true, false⟩, some ⟨true, 1, 0, true, false⟩,
     some ⟨true, 1, 4294967295, true, true⟩] := by decide

example : runSeq (tokStep false) 0 witness G.init =
    [some ⟨true, 0, 0, true, false⟩, some ⟨true, 1, 0, true, false⟩, some ⟨true, 0, 0, true, false⟩,
     some ⟨false, 0, 0, false, false⟩] := by decide

/-! ## non-vacuity: concrete well-nested programs and a concrete reachable, contended state -/

/-- thread 0: an API call whose event callback re-enters the API; thread 1: an API call with a released request
handler that calls the API; all other threads: nothing -/
def exProgs : Tid → List Tok
  | 0 => [.lock, .cbIn .ret, .lock, .unlock, .cbOut .ret, .unlock]
  | 1 => [.lock, .cbIn .rel, .lock, .unlock, .cbOut .rel, .unlock]
  | _ => []

example : ∀ t, wn [] (exProgs t) = true := by
  intro t
  match t with
  | 0 => decide
  | 1 => decide
  | _ + 2 => rfl

/-- thread 0 has entered the API: thread 1 is blocked, thread 0 is enabled (hypotheses of `no_deadlock`) -/
example : ∃ s, Reach false exProgs s ∧ blocked false s 1 ∧ enabled false s 0 ∧ inLib s 0 := by
  refine ⟨_, Reach.step Reach.init (Step.mk (Sys.init exProgs) 0 .lock _ _ rfl rfl), ?_, ?_, ?_⟩
  · exact ⟨.lock, _, rfl, by decide⟩
  · exact ⟨.cbIn .ret, _, _, rfl, rfl⟩
  · rfl

/-! ## repeated coap_startup() (seeded defect C13-7) and a library → API call (C13-8): witnesses -/

/-- thread 0: an API call running an event handler that itself calls coap_startup(); thread 1: coap_startup() again, then
an API call -/
def startupProgs : Tid → List Tok
  | 0 => [.lock, .cbIn .ret, .startup, .cbOut .ret, .unlock]
  | 1 => [.startup, .lock, .unlock, .startup]
  | _ => []

example : ∀ t, wn [] (startupProgs t) = true := by
  intro t
  match t with
  | 0 => decide
  | 1 => decide
  | _ + 2 => rfl

/-- library code may not call coap_startup() through the grammar either (it is an application-level token) -/
example : wn [] [.lock, .startup, .unlock] = false := by decide

/-- non-vacuity: thread 0 is inside the library, thread 1 has issued its repeated coap_startup(): its API call is
still refused, thread 0 goes on -/
example : ∃ s, Reach false startupProgs s ∧ inLib s 0 ∧ (s.thr 1).prog = [.lock, .unlock, .startup] ∧
    blocked false s 1 ∧ enabled false s 0 := by
  refine ⟨_, Reach.step (Reach.step Reach.init (Step.mk (Sys.init startupProgs) 0 .lock _ _ rfl rfl))
    (Step.mk _ 1 .startup _ _ rfl rfl), rfl, rfl, ?_, ?_⟩
  · exact ⟨.lock, _, rfl, by decide⟩
  · exact ⟨.cbIn .ret, _, _, rfl, rfl⟩

/-- with the lock initialised in front of the `coap_started` guard (`Seeded.startupFunc`) the same schedule lets thread 1
into the library while thread 0 is in it: after `lock₀; startup₁; lock₁` the mutex belongs to thread 1 and thread 0's
unlock finds `pid` ≠ itself (`fault`) and releases a mutex it does not hold -/
example : (do
      let g ← Seeded.tokStep false 0 .lock G.init
      let g ← Seeded.tokStep false 1 .startup g
      let g ← Seeded.tokStep false 1 .lock g          -- must block; it does not
      let g' ← Seeded.tokStep false 0 .unlock g
      pure (g.owner, g'.fault)) = some (some 1, true) := by decide

/-- the fixed order: the same three tokens leave thread 1 blocked -/
example : (do
      let g ← tokStep false 0 .lock G.init
      let g ← tokStep false 1 .startup g
      tokStep false 1 .lock g) = none := by decide

/-- C13-8's shape, both variants: a thread in library code (`[api]`, in_callback = 0) calling a COAP_API function blocks
on its own mutex -/
example : (tokStep false 0 .lock G.init).bind (lockFunc false 0) = none ∧
    (tokStep true 0 .lock G.init).bind (lockFunc true 0) = none := by decide

/-- … nested under a lock-keeping callback (`[api, cb keep, api]`) the call returns, with the assertion violated -/
example : ((runSeq (tokStep false) 0 [.lock, .cbIn .keep, .lock] G.init).getLast? = some (some ⟨true, 1, 1, true, false⟩)) ∧
    (((tokStep false 0 .lock G.init).bind (tokStep false 0 (.cbIn .keep))).bind (tokStep false 0 .lock)).bind
      (lockFunc false 0) = some ⟨some 0, 1, 1, 2, true⟩ := by decide

end Coap.C13
