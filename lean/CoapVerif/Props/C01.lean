import CoapVerif.Lemmas.EditTrace
import CoapVerif.Lemmas.WsWriter
/-
C01 — wire codec round trip for every API-built message on every transport.

  S = Coap.Spec.encode / Coap.Spec.decode, abstract API semantics Spec.insertStable …   (Spec/Encode.lean, Spec/Codec.lean)
  M = Coap.M.addToken … Coap.M.encodeHeader                                              (Model/Build.lean)
  T1: Generated.nonRepeatable and the constants, regenerated from /repo on every run.

Property theorems only; helper lemmas live in Lemmas/Encode.lean (S side) and Lemmas/Build.lean (M side).

STATUS.
 * S half (P2: the property holds of the specification, for all messages, all three framings, any
   insertion order): proved in full.
 * M half (P1), proved in full: `M_encode_eq_S` (M's header + buffer = Spec.encode, every framing),
   `view_of_built`, and `build_view`: EVERY script of API calls (any insertion order, insert / update /
   remove / update_token included, any capacity) run by M on a representing PDU ends on the PDU that
   represents the abstract message reached by the specification's steps with M's return codes (through
   C04's refinement lemmas: Lemmas/EditItems, EditPatch, EditRefine, EditApi, EditTrace).
   `build_view_partial` (append path in closed form) is kept.
 * `refused_is_noop` at full strength: EVERY refused call of every kind (add_token, add_option, insert, update,
   remove, update_token, add_data) leaves the PDU — every byte, `max_opt`, the payload offset, hence the view —
   exactly as it was.  This was false until the open finding hop-limit-left-by-refused-proxy was fixed in libcoap
   (coap_add_option_internal now removes the implicit Hop-Limit again when the Proxy-Uri / Proxy-Scheme option it
   was added for is refused); the old witness is kept as a comment next to `refused_proxy_leaves_nothing`.
   `refused_when` says WHEN add_token / append / add_data are refused.
 * WebSocket WRITE side (RFC 8323 §4 over RFC 6455 §5.2; Model/WsWriter.lean = coap_ws_write / coap_ws_close after
   the partial-write fix, Spec/WsFrame.lean = the RFC 6455 frame grammar, Lemmas/WsWriter.lean), proved in full:
   `ws_frame_wellformed`, `ws_close_frame_wellformed` (one frame, FIN, opcode, MASK iff client, minimal length form,
   cyclic XOR), `ws_write_read_roundtrip` / `ws_write_sequence_roundtrip` (the written bytes cut into ANY chunks and
   read by C05's S_ws / M_ws reader of the opposite role give back the CoAP messages, in order),
   `ws_partial_writes_one_frame` / `ws_partial_writes_sequence` (ANY pattern of partial lower-layer writes: the
   caller's loop puts exactly the frames on the wire - never a frame started inside another) and the end-to-end
   `ws_send_receive`.
-/
namespace Coap.C01
open Coap Coap.M

/-! ### T1: what the code's tables and constants say now -/

/-- the constants the model is written with are the ones in the current headers -/
theorem constants_match :
    Generated.tokenExtMax = 65804 ∧ Generated.maxPduRx = 8388864 ∧ Generated.maxHdrSize = 6 ∧
    Generated.tcpOfs8 = 13 ∧ Generated.tcpOfs16 = 269 ∧ Generated.tcpOfs32 = 65805 ∧
    Generated.tokBias1 = 13 ∧ Generated.tokBias2 = 269 ∧
    Generated.optHopLimit = 16 ∧ Generated.optProxyUri = 35 ∧ Generated.optProxyScheme = 39 := by decide

/-- D14: libcoap refuses a repetition only for options the RFCs define as not repeatable -/
theorem refused_repetitions_are_illegal : ∀ n ∈ Generated.nonRepeatable, n ∈ Spec.nonRepeatable := by decide

/-! ### the 13/14 scheme is a bijection on 0..65804 -/

theorem ext_roundtrip (v : Nat) (r : Bytes) (h : v ≤ 65804) :
    Spec.ext (Spec.nib v) (Spec.extBytes v ++ r) = some (v, r) := Coap.ext_roundtrip v r h

/-- every header that decodes to `v` is the canonical header of `v`: delta/length ↔ header bytes is one-to-one -/
theorem opt_header_unique {n : Nat} {bs r : Bytes} {v : Nat} (h : Spec.ext n bs = some (v, r)) :
    n = Spec.nib v ∧ bs = Spec.extBytes v ++ r ∧ v ≤ 65804 := Coap.ext_canonical h

/-! ### the round trip, every framing, every well-formed message -/

/-- `decode (encode m) = m` (modulo D3 on reliable transports), by induction over the option list -/
theorem decode_encode (p : Proto) (m : Msg) (h : Spec.WF p m) :
    Spec.decode p (Spec.encode p m) = some (Spec.onWire p m) := Coap.decode_encode p m h

/-- the encoding is well-formed under the RFC grammar: the RFC decoder accepts it -/
theorem encode_wellformed (p : Proto) (m : Msg) (h : Spec.WF p m) : (Spec.decode p (Spec.encode p m)).isSome = true := by
  rw [Coap.decode_encode p m h]; rfl

/-- … and by C03's `parse_eq_spec` libcoap's decoding algorithm returns exactly that message -/
theorem parse_encode (p : Proto) (m : Msg) (h : Spec.WF p m) :
    (M.parse p (Spec.encode p m)).toOption = some (Spec.onWire p m) := by
  have hp : (M.parse p (Spec.encode p m)).toOption = Spec.decode p (Spec.encode p m) := by
    cases p
    · exact parse_udp_eq _
    · exact parse_tcp_eq _
    · exact parse_ws_eq _
  rw [hp, Coap.decode_encode p m h]

/-- the option area is canonical: whatever decodes to `os` is `encOpts os` (bytes ↔ options is an isomorphism) -/
theorem opts_canonical (code fuel prev : Nat) (bs : Bytes) (os : List (Nat × Bytes)) (rest : Bytes)
    (h : Spec.opts code fuel prev bs = some (os, rest)) :
    bs = Spec.encOpts prev os ++ rest ∧ Spec.optsOk code prev os = true := by
  have := Coap.opts_canonical code fuel prev bs os rest h
  exact ⟨this.1, this.2.1⟩

/-- on the datagram framing, what decodes to `m` IS `encode m` -/
theorem encode_decode_udp (bs : Bytes) (m : Msg) (h : Spec.decode .udp bs = some m) : Spec.encode .udp m = bs :=
  Coap.encode_decode_udp bs m h

/-! ### any insertion order: ascending numbers, insertion order kept among equal numbers -/

theorem build_sorted (xs : List (Nat × Bytes)) :
    (xs.foldl (fun os x => Spec.insertStable x.1 x.2 os) []).Pairwise (fun a b => a.1 ≤ b.1) := Coap.build_sorted xs

theorem build_stable (xs : List (Nat × Bytes)) (k : Nat) :
    (xs.foldl (fun os x => Spec.insertStable x.1 x.2 os) []).filter (fun o => o.1 == k) = xs.filter (fun o => o.1 == k) :=
  Coap.build_stable xs k

/-! ### M side: the PDU the builders produce -/

/-- M's bytes = S's bytes: `coap_pdu_encode_header` + the buffer of the PDU that represents `a` is `Spec.encode p a`,
for udp, tcp (all four length forms) and ws -/
theorem M_encode_eq_S (p : Proto) (ms : Nat) (a : Msg) (hty : a.type < 4) (hcode : a.code < 256) (hmid : a.mid < 65536)
    (ht : a.token.length ≤ 65804) (hlen : p = .tcp → (Spec.encRest a).length < 65805 + 4294967296) :
    serialise p (conc ms a) = some (Spec.encode p a) := serialise_conc p ms a hty hcode hmid ht hlen

/-- the decoder's view of the representing PDU is the abstract message (values within the RFC length limits) -/
theorem view_of_built (ms : Nat) (a : Msg) (hc : a.code ≠ 0) (ht : a.token.length ≤ 65804)
    (ho : Spec.optsOk a.code 0 a.opts = true) : view (conc ms a) = some a := view_conc ms a hc ht ho

/-- `coap_add_option` on the append path is `appendOption`: no payload yet, value fits the length field, not an
illegal repetition, and the call does not trigger the implicit Hop-Limit (D13) -/
theorem addOption_is_append (pdu : Pdu) (n : Nat) (v : Bytes) (hd : pdu.data = none) (hv : v.length ≤ 65804)
    (hrep : ¬ (n = pdu.maxOpt ∧ ¬ repeatable n = true)) (hn : pdu.maxOpt ≤ n)
    (hhop : ¬ ((pdu.code ≠ 0 ∧ pdu.code < 32) ∧ (n = 35 ∨ n = 39) ∧ ¬ hasOption pdu 16 = true)) :
    addOption pdu n v = appendOption pdu n v := by
  have h1 : ¬ (v.length > 65804) := by omega
  have h2 : ¬ (n < pdu.maxOpt) := by omega
  simp only [addOption, hd, Option.isSome_none, Bool.false_eq_true, if_false, addOptionInternal, addInternalK, h1, hrep, hhop,
    bind, R.bind, h2]
  cases appendOption pdu n v with
  | ok r => simp
  | rej => rfl
  | oob => rfl

/-- PARTIAL `build_view`: one accepted call on the APPEND path maps the PDU that represents `a` to the PDU that
represents the abstract result (stable insertion = append behind the highest number), and the return value is the
encoded size.  Together with `addToken_conc`, `addData_conc` (below) and `Shape_append` this gives, by induction over
the script, the view of every PDU built in ascending order.
FULL STATEMENT (not proved): for EVERY call list `cs` (any insertion order, insert/update/remove included),
  `M.run (conc ms a₀) cs = R.ok (rcs, pdu) → ∃ a, pdu = conc ms a ∧ a = fold of the abstract calls accepted in rcs`. -/
theorem build_view_partial (ms : Nat) (a : Msg) (n : Nat) (v : Bytes) (hs : Shape a) (hp : a.payload = [])
    (hn : lastNum a.opts ≤ n) (hn2 : n ≤ 65535) (hv : v.length ≤ 65804)
    (hrep : ¬ (n = lastNum a.opts ∧ ¬ repeatable n = true))
    (hhop : ¬ ((a.code ≠ 0 ∧ a.code < 32) ∧ (n = 35 ∨ n = 39)))
    (hfit : ms = 0 ∨ (conc ms a).buf.length + (Spec.encOpt (n - lastNum a.opts) v).length ≤ ms) :
    addOption (conc ms a) n v =
      R.ok ((Spec.encOpt (n - lastNum a.opts) v).length, conc ms { a with opts := Spec.insertStable n v a.opts }) := by
  have hd : (conc ms a).data = none := by simp [conc, hp]
  rw [addOption_is_append (conc ms a) n v hd hv hrep hn (fun h => hhop ⟨h.1, h.2.1⟩)]
  rw [insertStable_append n v a.opts hs.2.1 hn]
  exact appendOption_conc ms a n v hs hn hn2 hv hfit

theorem build_token (ms ty code mid : Nat) (t : Bytes) (ht : t.length ≤ 65804)
    (hfit : ms = 0 ∨ (Spec.extBytes t.length).length + t.length ≤ ms) :
    addToken (conc ms ⟨ty, code, mid, [], [], []⟩) t = R.ok (1, conc ms ⟨ty, code, mid, t, [], []⟩) :=
  addToken_conc ms ty code mid t ht hfit

theorem build_payload (ms : Nat) (a : Msg) (d : Bytes) (hp : a.payload = []) (hd : d ≠ [])
    (hfit : ms = 0 ∨ (conc ms a).buf.length + d.length + 1 ≤ ms) :
    addData (conc ms a) d = R.ok (1, conc ms { a with payload := d }) := addData_conc ms a d hp hd hfit

/-- **build_view**: for EVERY call list (token, options in any order through coap_add_option / coap_insert_option and
its six header-rewrite cases, updates, removals, token replacements, payload; any capacity, so with refusals at any
step) M never leaves the buffer and ends on the PDU that represents the abstract message `a` obtained from `a₀` by the
specification's steps with exactly M's return codes (`Trace`: accepted = the abstract operation, D13's Hop-Limit only
where allowed; refused = nothing); and the decoder's view of that PDU is `a`
whenever the caller kept the RFC length limits. -/
theorem build_view (ms : Nat) (a₀ : Msg) (cs : List Call) (hs : Shape a₀) (hc : ∀ c ∈ cs, callNumOk c) :
    ∃ rcs a, run (conc ms a₀) cs = R.ok (rcs, conc ms a) ∧ Trace a₀ cs rcs a ∧ Shape a ∧
      (a.code ≠ 0 → Spec.optsOk a.code 0 a.opts = true → view (conc ms a) = some a) := by
  obtain ⟨rcs, a, h1, h2, h3⟩ := run_refines ms a₀ cs hs hc
  exact ⟨rcs, a, h1, h2, h3, fun hcode ho => view_conc ms a hcode h3.1 ho⟩

/-- … in particular from the PDU `coap_pdu_init` returns -/
theorem build_view_fresh (ty code mid ms : Nat) (pdu : Pdu) (cs : List Call) (hi : pduInit ty code mid ms = some pdu)
    (hc : ∀ c ∈ cs, callNumOk c) :
    ∃ rcs a, run pdu cs = R.ok (rcs, conc ms a) ∧ Trace ⟨ty, code, mid, [], [], []⟩ cs rcs a ∧ Shape a := by
  have hp : pdu = conc ms ⟨ty, code, mid, [], [], []⟩ := by
    unfold pduInit at hi
    split at hi
    · cases hi
    · injection hi with hi; rw [← hi]; rfl
  rw [hp]
  have hs : Shape ⟨ty, code, mid, [], [], []⟩ := ⟨by simp, by simp, by simp⟩
  obtain ⟨rcs, a, h1, h2, h3⟩ := run_refines ms _ cs hs hc
  exact ⟨rcs, a, h1, h2, h3⟩

/-- every accepted step of a `Trace` is the specification's operation: for the option calls `Spec.applyEdit`, i.e.
stable insertion / first-match replacement / first-match removal (so `build_sorted`, `build_stable` apply to what M built) -/
theorem accepted_step_is_spec (hop : Bool) (a : Msg) (n : Nat) (v : Bytes) :
    callSem hop a (.addOption n v) = { a with opts := Spec.addSem hop n v a.opts } ∧
    callSem hop a (.insertOption n v) = { a with opts := Spec.addSem hop n v a.opts } ∧
    callSem hop a (.updateOption n v) =
      { a with opts := if Spec.hasOpt n a.opts then Spec.replaceFirst n v a.opts else Spec.addSem hop n v a.opts } ∧
    callSem hop a (.removeOption n) = { a with opts := Spec.removeFirst n a.opts } :=
  ⟨rfl, rfl, rfl, rfl⟩

/-- WHEN the builders refuse: a coap_add_token that is not first / too long / without space, an append without space
and a coap_add_data with a payload present / without space return 0 and leave the PDU exactly as it was
(formerly the first three conjuncts of `refused_is_noop_partial`) -/
theorem refused_when (ms : Nat) (a : Msg) :
    (∀ t, ((conc ms a).buf ≠ [] ∨ t.length > 65804 ∨ (ms ≠ 0 ∧ (Spec.extBytes t.length).length + t.length > ms)) →
        addToken (conc ms a) t = R.ok (0, conc ms a)) ∧
    (∀ n v, (ms ≠ 0 ∧ (conc ms a).buf.length + optEncodeSize ((n - lastNum a.opts) % 65536) v.length > ms) →
        appendOption (conc ms a) n v = R.ok (0, conc ms a)) ∧
    (∀ d, d ≠ [] → (a.payload ≠ [] ∨ (ms ≠ 0 ∧ (conc ms a).buf.length + d.length + 1 > ms)) →
        addData (conc ms a) d = R.ok (0, conc ms a)) :=
  ⟨fun t h => addToken_refused ms a t h, fun n v h => appendOption_refused ms a n v h,
   fun d hd h => addData_refused ms a d hd h⟩

/-- **refused_is_noop**, full strength: every refused call of every kind — coap_add_token, coap_add_option,
coap_insert_option, coap_update_option, coap_remove_option, coap_update_token, coap_add_data, whatever the reason (value
too long, illegal repetition, no space at any of the places where space is tested, payload present, nothing to remove)
— on the PDU representing any abstract message the API can produce leaves that PDU exactly as it was: the same bytes,
`max_opt` and payload offset, hence the same view.  In particular a refused Proxy-Uri / Proxy-Scheme takes its implicit
Hop-Limit with it (libcoap fix; before it this theorem was false and only held outside `hopDomain`). -/
theorem refused_is_noop (ms : Nat) (a : Msg) (c : Call) (pdu' : Pdu) (hs : Shape a) (hc : callNumOk c)
    (h : call (conc ms a) c = R.ok (0, pdu')) : pdu' = conc ms a ∧ view pdu' = view (conc ms a) := by
  rw [call_conc ms a c hs hc] at h
  injection h with h
  injection h with h1 h2
  have hstep := absCall_step ms a c
  rw [h1] at hstep
  have : pdu' = conc ms a := by
    rw [← h2]
    generalize (absCall ms a c).2 = a' at hstep
    cases hstep with
    | accepted rc hop hne _ => exact absurd rfl hne
    | refused => rfl
  exact ⟨this, by rw [this]⟩

/-- … and over whole scripts: the calls that return 0 can be deleted from any script without changing where it ends -/
theorem refused_calls_are_skippable (ms : Nat) (a : Msg) (c : Call) (cs : List Call) (rcs : List Nat) (pdu' : Pdu)
    (hs : Shape a) (hc : callNumOk c) (h : run (conc ms a) (c :: cs) = R.ok (0 :: rcs, pdu')) :
    run (conc ms a) cs = R.ok (rcs, pdu') := by
  simp only [run] at h
  cases hcall : call (conc ms a) c with
  | rej => simp [hcall] at h
  | oob => simp [hcall] at h
  | ok r =>
    obtain ⟨rc, p1⟩ := r
    simp only [hcall] at h
    cases hrun : run p1 cs with
    | rej => simp [hrun] at h
    | oob => simp [hrun] at h
    | ok q =>
      obtain ⟨rcs', p2⟩ := q
      simp only [hrun, R.ok.injEq, Prod.mk.injEq, List.cons.injEq] at h
      obtain ⟨⟨rfl, rfl⟩, rfl⟩ := h
      rw [(refused_is_noop ms a c p1 hs hc hcall).1] at hrun
      exact hrun

/-- the replay of the former open finding (build udp 12 0 1 1 O35:*20*1): on a GET with room for 12 bytes, adding a
20-byte Proxy-Uri returns 0 — and nothing is left behind.  Before the libcoap fix the kernel-checked WITNESS was
  theorem refused_proxy_leaves_hop_limit :
      addOption (conc 12 ⟨0, 1, 1, [], [], []⟩) 35 (List.replicate 20 0x61) =
        R.ok (0, conc 12 ⟨0, 1, 1, [], [(16, [16])], []⟩) := by decide -/
theorem refused_proxy_leaves_nothing :
    addOption (conc 12 ⟨0, 1, 1, [], [], []⟩) 35 (List.replicate 20 0x61) =
      R.ok (0, conc 12 ⟨0, 1, 1, [], [], []⟩) := by decide

/-! ### WebSocket write side: coap_ws_write / coap_ws_close (RFC 8323 §4, RFC 6455 §5.2) -/

section WsWrite
open Coap.M.WsW Coap.WsW Coap.Spec.Stream.Ws

/-- **(a)** what coap_ws_write builds for ANY payload shorter than 2^63 bytes, either role, any masking key is exactly
ONE RFC 6455 frame (whatever follows it, `rest`, is left over): FIN = 1, RSV = 0, opcode 2 (binary), MASK set iff the
writer is the client (then the key is in the header), the length in its MINIMAL form (`Spec.WsFrame.decode` refuses the
16-bit form for ≤ 125 and the 64-bit form for ≤ 65535 or ≥ 2^63), application data = the payload; and on the wire the
payload is `header ++ body` with `body[j] = payload[j] XOR key[j mod 4]` for the client, the payload itself for the server -/
theorem ws_frame_wellformed (role : Role) (key data rest : Bytes) (hk : key.length = 4) (hn : data.length < 2 ^ 63) :
    Spec.WsFrame.decode (frame role key data ++ rest) =
      some (⟨true, 0, 2, role = .client, (match role with | .client => key | .server => []), data⟩, rest) ∧
    frame role key data = header role key data.length ++ bodyBytes role key 0 data ∧
    (∀ j, (bodyBytes .client key 0 data)[j]? = data[j]?.map (· ^^^ key.getD (j % 4) 0)) ∧
    bodyBytes .server key 0 data = data := by
  refine ⟨?_, rfl, fun j => ?_, rfl⟩
  · rw [decode_frame role key data rest hk hn]; cases role <;> rfl
  · have := maskData_get key data 0 j
    rw [Nat.zero_add] at this
    exact this

/-- the Close frame coap_ws_close writes: one frame, FIN = 1, RSV = 0, opcode 8, MASK iff client, two bytes of
application data = the status code, most significant byte first (RFC 6455 §5.5.1) -/
theorem ws_close_frame_wellformed (role : Role) (key rest : Bytes) (reason : Nat) (hk : key.length = 4) :
    Spec.WsFrame.decode (closeFrame role key reason ++ rest) =
      some (⟨true, 0, 8, role = .client, (match role with | .client => key | .server => []),
             [u8 (reason / 2 ^ 8), u8 reason]⟩, rest) := by
  rw [decode_closeFrame role key rest reason hk]; cases role <;> rfl

/-- coap_ws_write itself, from a writer with no frame part way and a lower layer that takes what it is offered: it
returns `datalen`, what it hands down is exactly `frame` (so (a) is about the bytes WRITTEN), and it is idle again -/
theorem ws_write_whole (st : St) (key data : Bytes) (lw : Nat → Int) (hk : key.length = 4) (hidle : Idle st)
    (hall : lw (frame st.role key data).length = ((frame st.role key data).length : Int)) :
    (wsWrite st key data lw).1 = (data.length : Int) ∧ (wsWrite st key data lw).2.2 = frame st.role key data ∧
    Idle (wsWrite st key data lw).2.1 ∧ (wsWrite st key data lw).2.1.role = st.role := by
  have hF := fLen_eq st.role key data
  have hH := hLen_ge st.role key data
  have hfl : (frame st.role key data).length = fLen st.role key data := rfl
  rw [hfl] at hall
  have hlw : lw (fLen st.role key data - 0) ≤ ((fLen st.role key data - 0 : Nat) : Int) := by
    rw [Nat.sub_zero, hall]; exact Int.le_refl _
  obtain ⟨hw, hrep, hrole, _, hret⟩ := wsWrite_step st key data 0 lw hk (Rep_zero st key data hidle) (by omega) hlw
  simp only [Nat.zero_sub, List.drop_zero, Nat.sub_zero, Nat.zero_add, hall, Int.toNat_natCast] at hw hrep hret hrole
  refine ⟨?_, ?_, ?_, hrole⟩
  · rw [hret (Int.natCast_nonneg _)]; congr 1; omega
  · rw [hw, ← hfl]; exact List.take_length
  · rw [← hrole] at hrep; exact Idle_of_Rep_full _ key data hrep

/-- coap_ws_close on a session that is up and has not sent a Close: the lower layer is handed exactly the Close frame
with the status code (1000 when none was set), and from then on coap_ws_write writes nothing and returns 0 -/
theorem ws_close_then_silent (st : St) (key : Bytes) (hup : st.up = true) (hsc : st.sentClose = false) :
    (wsClose st key lwAll).2 = closeFrame st.role key (if st.closeReason = 0 then 1000 else st.closeReason) ∧
    ∀ key' data lw, wsWrite (wsClose st key lwAll).1 key' data lw = (0, (wsClose st key lwAll).1, []) := by
  constructor
  · simp [wsClose, hup, hsc, lwAll]
  · intro key' data lw
    apply wsWrite_down
    right
    simp only [wsClose, hup, hsc, Bool.not_false, Bool.and_self, if_true]
    cases st.role <;> rfl

/-- several frames back to back parse as that sequence of frames under the RFC 6455 grammar -/
theorem ws_frames_wellformed (role : Role) (msgs : List (Bytes × Bytes)) (hk : ∀ m ∈ msgs, m.1.length = 4)
    (hn : ∀ m ∈ msgs, m.2.length < 2 ^ 63) :
    Spec.WsFrame.decodeAll (msgs.length + 1) (writeAll role msgs) = some (msgs.map (frameOf role)) :=
  decodeAll_writeAll role msgs _ (Nat.lt_succ_self _) hk hn

/-- the receiver specification of C05 (S_ws, role opposite to the writer's) on a written frame followed by `rest`:
the payload as one data frame - one CoAP message if it decodes, nothing for an empty payload - then `rest` -/
theorem ws_spec_reads_written (role : Role) (key data rest : Bytes) (hk : key.length = 4) (hn : data.length ≤ maxFrame) :
    frames (readerMode role) ((frame role key data ++ rest).length + 1) (frame role key data ++ rest) =
      ((if data.length = 0 then (frames (readerMode role) (rest.length + 1) rest).1
        else Spec.Stream.deliver (Spec.decode .ws data) (frames (readerMode role) (rest.length + 1) rest).1),
       (frames (readerMode role) (rest.length + 1) rest).2) :=
  frOf_written role key data rest hk hn

theorem delivered_encode : ∀ (ms : List (Bytes × Msg)), (∀ m ∈ ms, Spec.WF .ws m.2) →
    delivered (ms.map fun m => (m.1, Spec.encode .ws m.2)) = ms.map fun m => Spec.onWire .ws m.2 := by
  intro ms
  induction ms with
  | nil => intro _; rfl
  | cons m rest ih =>
    intro h
    have hne : ¬ (Spec.encode .ws m.2).length = 0 := by simp [Spec.encode]
    simp only [List.map_cons, delivered, hne, if_false, Coap.decode_encode .ws m.2 (h m (List.mem_cons_self ..)),
      Spec.Stream.deliver, ih (fun x hx => h x (List.mem_cons_of_mem _ hx))]

/-- **(b)** write → read round trip: the bytes coap_ws_write produces for the encoding of a well-formed CoAP message
(`Spec.encode .ws`, = M's serialisation by `M_encode_eq_S`), cut into ANY chunks and fed to M's reader of the opposite
role (coap_ws_read / coap_read_session, handshake done; = S_ws by C05's `feed_spec`), come out as exactly that message
(`decode_encode`), and the session stays open -/
theorem ws_write_read_roundtrip (role : Role) (accept key : Bytes) (m : Msg) (chunks : List Bytes) (hk : key.length = 4)
    (hwf : Spec.WF .ws m) (hlen : (Spec.encode .ws m).length ≤ maxFrame)
    (hc : chunks.flatten = frame role key (Spec.encode .ws m)) :
    wsObs (Coap.M.Ws.feed (readerMode role) accept { up := true } chunks) = ([Spec.onWire .ws m], .open true) := by
  have h := feed_writeAll role accept [(key, Spec.encode .ws m)] chunks (by simpa using hk) (by simpa using hlen)
    (by simpa [writeAll] using hc)
  rw [h]
  have := delivered_encode [(key, m)] (by simpa using hwf)
  simp only [List.map_cons, List.map_nil] at this
  rw [this]

/-- … for arbitrary payloads (not only CoAP messages): every written payload is read back as one data frame -/
theorem ws_payload_roundtrip (role : Role) (accept : Bytes) (msgs : List (Bytes × Bytes)) (chunks : List Bytes)
    (hk : ∀ m ∈ msgs, m.1.length = 4) (hn : ∀ m ∈ msgs, m.2.length ≤ maxFrame)
    (hc : chunks.flatten = writeAll role msgs) :
    wsObs (Coap.M.Ws.feed (readerMode role) accept { up := true } chunks) = (delivered msgs, .open true) :=
  feed_writeAll role accept msgs chunks hk hn hc

/-- **(c)** several messages written back to back (each with its own masking key), the bytes cut into ANY chunks:
the reader delivers the same messages in the same order -/
theorem ws_write_sequence_roundtrip (role : Role) (accept : Bytes) (ms : List (Bytes × Msg)) (chunks : List Bytes)
    (hk : ∀ m ∈ ms, m.1.length = 4) (hwf : ∀ m ∈ ms, Spec.WF .ws m.2)
    (hlen : ∀ m ∈ ms, (Spec.encode .ws m.2).length ≤ maxFrame)
    (hc : chunks.flatten = writeAll role (ms.map fun m => (m.1, Spec.encode .ws m.2))) :
    wsObs (Coap.M.Ws.feed (readerMode role) accept { up := true } chunks) =
      (ms.map fun m => Spec.onWire .ws m.2, .open true) := by
  rw [feed_writeAll role accept _ chunks
    (by intro x hx; obtain ⟨m, hm, rfl⟩ := List.mem_map.1 hx; exact hk m hm)
    (by intro x hx; obtain ⟨m, hm, rfl⟩ := List.mem_map.1 hx; exact hlen m hm) hc, delivered_encode ms hwf]

/-- **partial writes, one message**: from a writer with no frame part way, the caller's loop (offer what was not taken
until everything is) under ANY sequence of lower-layer behaviours that never take more than offered (each may take
nothing, a part of the header, a part of the payload, or fail): the wire always holds a prefix of THE frame of the
message; when the loop reports that everything was taken it holds exactly that one frame and the writer is idle again.
(Before the libcoap fix the rest of a partly taken frame was dropped and the next frame started inside it.) -/
theorem ws_partial_writes_one_frame (st : St) (key data : Bytes) (lws : List (Nat → Int)) (hk : key.length = 4)
    (hd : 0 < data.length) (hidle : Idle st) (hs : ∀ lw ∈ lws, Sane lw) :
    (∃ m, (sendAll key lws st data).2.2 = (frame st.role key data).take m) ∧
    ((sendAll key lws st data).1 = true →
      (sendAll key lws st data).2.2 = frame st.role key data ∧ Idle (sendAll key lws st data).2.1) :=
  ⟨(sendAll_idle st key data lws hk hd hidle hs).1, (sendAll_idle st key data lws hk hd hidle hs).2.2⟩

/-- **partial writes, several messages** -/
theorem ws_partial_writes_sequence (ms : List (Bytes × Bytes × List (Nat → Int))) (st : St) (hidle : Idle st)
    (h : ∀ m ∈ ms, m.1.length = 4 ∧ 0 < m.2.1.length ∧ ∀ lw ∈ m.2.2, Sane lw) :
    (∃ k, (sendMsgs ms st).2.2 = (writeAll st.role (ms.map fun m => (m.1, m.2.1))).take k) ∧
    ((sendMsgs ms st).1 = true →
      (sendMsgs ms st).2.2 = writeAll st.role (ms.map fun m => (m.1, m.2.1)) ∧ Idle (sendMsgs ms st).2.1) :=
  sendMsgs_spec ms st hidle h

/-- **end to end**: CoAP messages sent one after the other through coap_ws_write under any partial-write pattern, all
reported sent; the bytes that reached the wire cut into any chunks and read by the peer: the peer gets exactly those
messages, in order -/
theorem ws_send_receive (accept : Bytes) (ms : List (Bytes × Msg × List (Nat → Int))) (st : St) (chunks : List Bytes)
    (hidle : Idle st) (hk : ∀ m ∈ ms, m.1.length = 4) (hs : ∀ m ∈ ms, ∀ lw ∈ m.2.2, Sane lw)
    (hwf : ∀ m ∈ ms, Spec.WF .ws m.2.1) (hlen : ∀ m ∈ ms, (Spec.encode .ws m.2.1).length ≤ maxFrame)
    (hsent : (sendMsgs (ms.map fun m => (m.1, Spec.encode .ws m.2.1, m.2.2)) st).1 = true)
    (hc : chunks.flatten = (sendMsgs (ms.map fun m => (m.1, Spec.encode .ws m.2.1, m.2.2)) st).2.2) :
    wsObs (Coap.M.Ws.feed (readerMode st.role) accept { up := true } chunks) =
      (ms.map fun m => Spec.onWire .ws m.2.1, .open true) := by
  have hall : ∀ m ∈ ms.map (fun m => (m.1, Spec.encode .ws m.2.1, m.2.2)),
      m.1.length = 4 ∧ 0 < m.2.1.length ∧ ∀ lw ∈ m.2.2, Sane lw := by
    intro x hx
    obtain ⟨m, hm, rfl⟩ := List.mem_map.1 hx
    exact ⟨hk m hm, by simp [Spec.encode], hs m hm⟩
  have hw := ((sendMsgs_spec _ st hidle hall).2 hsent).1
  rw [hw, List.map_map] at hc
  have h := ws_write_sequence_roundtrip st.role accept (ms.map fun m => (m.1, m.2.1)) chunks
    (by intro x hx; obtain ⟨m, hm, rfl⟩ := List.mem_map.1 hx; exact hk m hm)
    (by intro x hx; obtain ⟨m, hm, rfl⟩ := List.mem_map.1 hx; exact hwf m hm)
    (by intro x hx; obtain ⟨m, hm, rfl⟩ := List.mem_map.1 hx; exact hlen m hm)
    (by rw [hc, List.map_map]; rfl)
  rw [h, List.map_map]; rfl

end WsWrite

/-! ### non-vacuity -/

/-- out-of-order build: an illegal repetition of Size1 refused, 300, then 3 and 290 below it (coap_add_option →
coap_insert_option; the header of the following option is rewritten each time), payload, an insertion behind the
payload's back, a removal -/
example : run (conc 0 ⟨0, 1, 7, [], [], []⟩)
    [.addToken [1], .addOption 60 [5], .addOption 60 [6], .addOption 300 [1], .addOption 3 [0x68], .addOption 290 [0x62],
     .addData [9], .insertOption 11 [0x61], .removeOption 290] =
    R.ok ([1, 3, 0, 3, 2, 3, 1, 2, 1], conc 0 ⟨0, 1, 7, [1], [(3, [0x68]), (11, [0x61]), (60, [5]), (300, [1])], [9]⟩) := by decide
example : ∃ rcs a, run (conc 0 ⟨0, 1, 7, [], [], []⟩) [.addToken [1], .addOption 300 [1], .addOption 3 [0x68]] =
    R.ok (rcs, conc 0 a) ∧ Trace ⟨0, 1, 7, [], [], []⟩ [.addToken [1], .addOption 300 [1], .addOption 3 [0x68]] rcs a ∧
    Shape a ∧ (a.code ≠ 0 → Spec.optsOk a.code 0 a.opts = true → view (conc 0 a) = some a) :=
  build_view 0 ⟨0, 1, 7, [], [], []⟩ _ ⟨by decide, by decide, by decide⟩ (by decide)
/-- refused calls (no room for Uri-Path in 3 bytes; a 20-byte Proxy-Uri after its Hop-Limit in 12 bytes, payload present) -/
example : call (conc 3 ⟨0, 1, 7, [1], [], []⟩) (.insertOption 11 [0x61, 0x62]) = R.ok (0, conc 3 ⟨0, 1, 7, [1], [], []⟩) := by decide
example : call (conc 12 ⟨0, 1, 7, [1], [(11, [0x61])], [9]⟩) (.updateOption 39 (List.replicate 20 0x61)) =
    R.ok (0, conc 12 ⟨0, 1, 7, [1], [(11, [0x61])], [9]⟩) ∧
    hopDomain ⟨0, 1, 7, [1], [(11, [0x61])], [9]⟩ (.updateOption 39 (List.replicate 20 0x61)) = true := by decide

example : Spec.WF .udp ⟨0, 1, 0x1234, [1, 2], [(11, [0x61]), (11, [0x62]), (12, [])], [0x68, 0x69]⟩ := by decide
example : Spec.encode .udp ⟨0, 1, 0x1234, [1, 2], [(11, [0x61]), (11, [0x62]), (12, [])], [0x68, 0x69]⟩ =
    [0x42, 0x01, 0x12, 0x34, 0x01, 0x02, 0xb1, 0x61, 0x01, 0x62, 0x10, 0xff, 0x68, 0x69] := by decide
example : Spec.encode .tcp ⟨0, 1, 0, [1, 2], [(11, [0x61]), (11, [0x62]), (12, [])], [0x68, 0x69]⟩ =
    [0x82, 0x01, 0x01, 0x02, 0xb1, 0x61, 0x01, 0x62, 0x10, 0xff, 0x68, 0x69] := by decide
example : Spec.WF .ws ⟨0, 69, 0, [], [(3, [0x68]), (60, [1])], [0xff]⟩ := by decide
/-- D2: an Empty message with a token is not well-formed -/
example : ¬ Spec.WF .udp ⟨0, 0, 1, [0xaa], [], []⟩ := by decide
example : [(60, [1]), (11, [0x61]), (3, [0x68]), (11, [0x62])].foldl (fun os x => Spec.insertStable x.1 x.2 os) [] =
    [(3, [0x68]), (11, [0x61]), (11, [0x62]), (60, [1])] := by decide

section WsWriteExamples
open Coap.M.WsW Coap.WsW Coap.Spec.Stream.Ws

/-- the frames for the CoAP message `00 01` (GET, no token) + payload marker-less byte, client (key 01020304) / server -/
example : frame .client [1, 2, 3, 4] [0, 1, 0xaa] = [0x82, 0x83, 1, 2, 3, 4, 1, 3, 0xa9] := by decide
example : frame .server [1, 2, 3, 4] [0, 1, 0xaa] = [0x82, 3, 0, 1, 0xaa] := by decide
/-- the three length forms on both sides of 125/126 and 65535/65536 -/
example : header .server [] 125 = [0x82, 125] ∧ header .server [] 126 = [0x82, 126, 0, 126] ∧
    header .client [1, 2, 3, 4] 65535 = [0x82, 0xfe, 0xff, 0xff, 1, 2, 3, 4] ∧
    header .server [] 65536 = [0x82, 127, 0, 0, 0, 0, 0, 1, 0, 0] := by decide
example : closeFrame .client [1, 2, 3, 4] 1000 = [0x88, 0x82, 1, 2, 3, 4, 2, 0xea] ∧
    closeFrame .server [] 1002 = [0x88, 2, 3, 0xea] := by decide
/-- the grammar refuses a length that is not in its minimal form, and an incomplete frame -/
example : Spec.WsFrame.decode [0x82, 126, 0, 3, 0, 1, 0xaa] = none ∧ Spec.WsFrame.decode [0x82, 3, 0, 1] = none := by decide
example : Spec.WsFrame.decode [0x82, 0x83, 1, 2, 3, 4, 1, 3, 0xa9, 0x55] =
    some (⟨true, 0, 2, true, [1, 2, 3, 4], [0, 1, 0xaa]⟩, [0x55]) := by decide
/-- hypotheses are satisfiable: a key, an idle writer, lower layers that take everything / at most 7 bytes / fail -/
example : ([1, 2, 3, 4] : Bytes).length = 4 ∧ ([0, 1, 0xaa] : Bytes).length < 2 ^ 63 := by decide
example : Idle {} := ⟨rfl, rfl, Or.inl rfl⟩
example : lwAll (frame .client [1, 2, 3, 4] [0, 1, 0xaa]).length = ((frame .client [1, 2, 3, 4] [0, 1, 0xaa]).length : Int) := rfl
example : wsWrite {} [1, 2, 3, 4] [0, 1, 0xaa] lwAll =
    (3, { maskKey := [1, 2, 3, 4], txHdr := [0x82, 0x83, 1, 2, 3, 4], txHdrOfs := 6, txDataOfs := 3 },
     [0x82, 0x83, 1, 2, 3, 4, 1, 3, 0xa9]) := by decide
/-- a session that is up and has not sent a Close (the defaults of `St`); Close, then a write: nothing, 0 -/
example : ({} : St).up = true ∧ ({} : St).sentClose = false := ⟨rfl, rfl⟩
example : (wsClose { role := .server, closeReason := 1002 } [] lwAll).2 = [0x88, 2, 3, 0xea] ∧
    (wsWrite (wsClose { role := .server, closeReason := 1002 } [] lwAll).1 [] [0, 1] lwAll).1 = 0 := by decide
example : Sane lwAll ∧ Sane (fun n => ((min n 7 : Nat) : Int)) ∧ Sane (fun _ => -1) :=
  ⟨sane_lwAll, fun _ => Int.ofNat_le.2 (Nat.min_le_left _ _), fun m => by show (-1 : Int) ≤ (m : Int); omega⟩
example : Spec.WF .ws ⟨0, 1, 0, [], [], []⟩ ∧ (Spec.encode .ws ⟨0, 1, 0, [], [], []⟩).length ≤ maxFrame := by decide
/-- the replay of the fixed defect (`wsw c W01020304:0001aa:7;W05060708:0002bb:a`): the lower layer takes 7 of the 9
bytes of the first frame; the caller's second call sends the 2 bytes left (masked from key offset 1) and only then the
next frame starts.  [Before the fix coap_ws_write returned 3 on the first call, the two bytes `03 a9` were never sent
and the wire read 82 83 01 02 03 04 01 | 82 83 05 06 07 08 05 04 bc: the peer takes `82 83` for payload.] -/
example : (sendMsgs [([1, 2, 3, 4], [0, 1, 0xaa], [fun n => ((min n 7 : Nat) : Int), lwAll]),
                     ([5, 6, 7, 8], [0, 2, 0xbb], [lwAll])] {}).1 = true ∧
    (sendMsgs [([1, 2, 3, 4], [0, 1, 0xaa], [fun n => ((min n 7 : Nat) : Int), lwAll]),
               ([5, 6, 7, 8], [0, 2, 0xbb], [lwAll])] {}).2.2 =
      [0x82, 0x83, 1, 2, 3, 4, 1, 3, 0xa9, 0x82, 0x83, 5, 6, 7, 8, 5, 4, 0xbc] := by decide
/-- half of the header, nothing, the rest of the header, then the payload byte by byte -/
example : (sendAll [1, 2, 3, 4] [fun _ => 3, fun _ => 0, fun _ => 3, fun _ => 1, fun _ => 1, fun _ => 1] {} [0, 1, 0xaa]) =
    (true, { maskKey := [1, 2, 3, 4], txHdr := [0x82, 0x83, 1, 2, 3, 4], txHdrOfs := 6, txDataOfs := 3 },
     [0x82, 0x83, 1, 2, 3, 4, 1, 3, 0xa9]) := by decide
/-- a client's frame for `00 01` cut in three, read by M's server-side reader -/
example : wsObs (Coap.M.Ws.feed .server [] { up := true } [[0x82, 0x82, 1], [2, 3, 4, 1], [3]]) =
    ([⟨0, 1, 0, [], [], []⟩], .open true) := by decide
end WsWriteExamples

end Coap.C01
