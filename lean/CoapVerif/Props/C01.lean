import CoapVerif.Lemmas.Encode
import CoapVerif.Model.Build
/-
C01 — wire codec round trip for every API-built message on every transport.

  S = Coap.Spec.encode / Coap.Spec.decode, abstract API semantics Spec.insertStable …   (Spec/Encode.lean, Spec/Codec.lean)
  M = Coap.M.addToken … Coap.M.encodeHeader                                              (Model/Build.lean)
  T1: Generated.nonRepeatable and the constants, regenerated from /repo on every run.

Property theorems only; helper lemmas live in Lemmas/Encode.lean (S side) and Lemmas/Build.lean (M side).

STATUS.  The S half (P2: the property holds of the specification, for all messages, all three
framings, any insertion order) is proved in full below.  The M half (P1: `build_view`,
`refused_is_noop`, `M_encode_eq_S`) is stated in Lemmas/Build.lean as it gets proved; until then it
is absent here and the check reports the names as missing.
-/
namespace Coap.C01
open Coap

/-! ### T1: what the code's tables and constants say now -/

/-- the constants the model is written with are the ones in the current headers -/
theorem constants_match :
    Generated.tokenExtMax = 65804 ∧ Generated.maxPduRx = 8388864 ∧ Generated.maxHdrSize = 6 ∧
    Generated.tcpOfs8 = 13 ∧ Generated.tcpOfs16 = 269 ∧ Generated.tcpOfs32 = 65805 ∧
    Generated.tokBias1 = 13 ∧ Generated.tokBias2 = 269 ∧
    Generated.optHopLimit = 16 ∧ Generated.optProxyUri = 35 ∧ Generated.optProxyScheme = 39 := by decide

/-- D14: libcoap refuses a repetition only for options the RFCs define as not repeatable -/
theorem refused_repetitions_are_illegal : ∀ n ∈ Generated.nonRepeatable, n ∈ Spec.nonRepeatable := by decide

/-! ### the 13/14 scheme is a bijection on 0..65804 -/

theorem ext_roundtrip (v : Nat) (r : Bytes) (h : v ≤ 65804) :
    Spec.ext (Spec.nib v) (Spec.extBytes v ++ r) = some (v, r) := Coap.ext_roundtrip v r h

/-- every header that decodes to `v` is the canonical header of `v`: delta/length ↔ header bytes is one-to-one -/
theorem opt_header_unique {n : Nat} {bs r : Bytes} {v : Nat} (h : Spec.ext n bs = some (v, r)) :
    n = Spec.nib v ∧ bs = Spec.extBytes v ++ r ∧ v ≤ 65804 := Coap.ext_canonical h

/-! ### the round trip, every framing, every well-formed message -/

/-- `decode (encode m) = m` (modulo D3 on reliable transports), by induction over the option list -/
theorem decode_encode (p : Proto) (m : Msg) (h : Spec.WF p m) :
    Spec.decode p (Spec.encode p m) = some (Spec.onWire p m) := Coap.decode_encode p m h

/-- the encoding is well-formed under the RFC grammar: the RFC decoder accepts it -/
theorem encode_wellformed (p : Proto) (m : Msg) (h : Spec.WF p m) : (Spec.decode p (Spec.encode p m)).isSome = true := by
  rw [Coap.decode_encode p m h]; rfl

/-- … and by C03's `parse_eq_spec` libcoap's decoding algorithm returns exactly that message -/
theorem parse_encode (p : Proto) (m : Msg) (h : Spec.WF p m) :
    (M.parse p (Spec.encode p m)).toOption = some (Spec.onWire p m) := by
  have hp : (M.parse p (Spec.encode p m)).toOption = Spec.decode p (Spec.encode p m) := by
    cases p
    · exact parse_udp_eq _
    · exact parse_tcp_eq _
    · exact parse_ws_eq _
  rw [hp, Coap.decode_encode p m h]

/-- the option area is canonical: whatever decodes to `os` is `encOpts os` (bytes ↔ options is an isomorphism) -/
theorem opts_canonical (code fuel prev : Nat) (bs : Bytes) (os : List (Nat × Bytes)) (rest : Bytes)
    (h : Spec.opts code fuel prev bs = some (os, rest)) :
    bs = Spec.encOpts prev os ++ rest ∧ Spec.optsOk code prev os = true := by
  have := Coap.opts_canonical code fuel prev bs os rest h
  exact ⟨this.1, this.2.1⟩

/-- on the datagram framing, what decodes to `m` IS `encode m` -/
theorem encode_decode_udp (bs : Bytes) (m : Msg) (h : Spec.decode .udp bs = some m) : Spec.encode .udp m = bs :=
  Coap.encode_decode_udp bs m h

/-! ### any insertion order: ascending numbers, insertion order kept among equal numbers -/

theorem build_sorted (xs : List (Nat × Bytes)) :
    (xs.foldl (fun os x => Spec.insertStable x.1 x.2 os) []).Pairwise (fun a b => a.1 ≤ b.1) := Coap.build_sorted xs

theorem build_stable (xs : List (Nat × Bytes)) (k : Nat) :
    (xs.foldl (fun os x => Spec.insertStable x.1 x.2 os) []).filter (fun o => o.1 == k) = xs.filter (fun o => o.1 == k) :=
  Coap.build_stable xs k

/-! ### non-vacuity -/

example : Spec.WF .udp ⟨0, 1, 0x1234, [1, 2], [(11, [0x61]), (11, [0x62]), (12, [])], [0x68, 0x69]⟩ := by decide
example : Spec.encode .udp ⟨0, 1, 0x1234, [1, 2], [(11, [0x61]), (11, [0x62]), (12, [])], [0x68, 0x69]⟩ =
    [0x42, 0x01, 0x12, 0x34, 0x01, 0x02, 0xb1, 0x61, 0x01, 0x62, 0x10, 0xff, 0x68, 0x69] := by decide
example : Spec.encode .tcp ⟨0, 1, 0, [1, 2], [(11, [0x61]), (11, [0x62]), (12, [])], [0x68, 0x69]⟩ =
    [0x82, 0x01, 0x01, 0x02, 0xb1, 0x61, 0x01, 0x62, 0x10, 0xff, 0x68, 0x69] := by decide
example : Spec.WF .ws ⟨0, 69, 0, [], [(3, [0x68]), (60, [1])], [0xff]⟩ := by decide
/-- D2: an Empty message with a token is not well-formed -/
example : ¬ Spec.WF .udp ⟨0, 0, 1, [0xaa], [], []⟩ := by decide
example : [(60, [1]), (11, [0x61]), (3, [0x68]), (11, [0x62])].foldl (fun os x => Spec.insertStable x.1 x.2 os) [] =
    [(3, [0x68]), (11, [0x61]), (11, [0x62]), (60, [1])] := by decide

end Coap.C01
