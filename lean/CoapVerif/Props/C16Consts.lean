import CoapVerif.Model.Uri
import CoapVerif.Generated.Consts2
/-
C16 / T1 (workstream T1Y) — the character tables and the scheme table of the URI model come from Generated/UriTab.lean
(extract/uritab.c evaluates libcoap's own functions and dumps `coap_uri_scheme[]`) already; here that table is
cross-checked against the macros / enum values of extract/consts2.c, and the remaining numerals of Model/Uri.lean
(UINT16_MAX of the port loop, the default-port switch of coap_uri_into_optlist, option numbers) are tied.
-/
namespace Coap.C16
open Coap Coap.MU Coap.Generated

/-- `coap_uri_scheme[]` as dumped: scheme ids are the `coap_uri_scheme_t` enum values in order, `COAP_URI_SCHEME_LAST`
entries; the coap / coaps / +tcp entries carry COAP_DEFAULT_PORT / COAPS_DEFAULT_PORT by the secure bit -/
theorem schemeTable_matches_code :
    Uri.schemes.map (·.2.2.2) =
      [C2.COAP_URI_SCHEME_COAP, C2.COAP_URI_SCHEME_COAPS, C2.COAP_URI_SCHEME_COAP_TCP, C2.COAP_URI_SCHEME_COAPS_TCP,
       C2.COAP_URI_SCHEME_HTTP, C2.COAP_URI_SCHEME_HTTPS, C2.COAP_URI_SCHEME_COAP_WS, C2.COAP_URI_SCHEME_COAPS_WS] ∧
    Uri.schemes.length = C2.COAP_URI_SCHEME_LAST ∧ Uri.defaultPort = C2.COAP_DEFAULT_PORT ∧
    (∀ e ∈ Uri.schemes, e.2.2.2 < C2.COAP_URI_SCHEME_HTTP →
      e.2.1 = if e.2.2.2 % 2 = C2.COAP_URI_SCHEME_SECURE_MASK then C2.COAPS_DEFAULT_PORT else C2.COAP_DEFAULT_PORT) := by decide

/-- the guard `e.2.2.2 < COAP_URI_SCHEME_HTTP` above is met by table entries (coap … coaps+tcp) -/
example : ∃ e ∈ Uri.schemes, e.2.2.2 < C2.COAP_URI_SCHEME_HTTP ∧ e.2.1 = C2.COAPS_DEFAULT_PORT := by decide

/-- the "Add in UriPort if not default" switch of coap_uri_into_optlist (the `dflt` of `uriIntoOptlist`): for every scheme
of the table, the port the model compares with is the table's default port, and it is the port the C switch names
(80 / 443 literals by source scan, else COAPS_DEFAULT_PORT / COAP_DEFAULT_PORT by the secure bit) -/
theorem defaultPortSwitch_matches_code :
    ∀ e ∈ Uri.schemes,
      (if e.2.2.2 = 4 || e.2.2.2 = 6 then 80 else if e.2.2.2 = 5 || e.2.2.2 = 7 then 443
       else if e.2.2.2 % 2 = 1 then 5684 else 5683) = e.2.1 ∧
      e.2.1 =
        (if e.2.2.2 = C2.COAP_URI_SCHEME_HTTP || e.2.2.2 = C2.COAP_URI_SCHEME_COAP_WS then C2.uriHttpPort
         else if e.2.2.2 = C2.COAP_URI_SCHEME_HTTPS || e.2.2.2 = C2.COAP_URI_SCHEME_COAPS_WS then C2.uriHttpsPort
         else if e.2.2.2 % 2 = C2.COAP_URI_SCHEME_SECURE_MASK then C2.COAPS_DEFAULT_PORT else C2.COAP_DEFAULT_PORT) := by decide

/-- `while ((p < q) && (uri_port <= UINT16_MAX))`, for every digit string and accumulator -/
theorem portLoop_matches_code (ds : Bytes) (v : Nat) :
    portLoop ds v =
      match ds with
      | [] => v
      | c :: r => if v ≤ C2.UINT16_MAX then portLoop r (v * 10 + (c.toNat - 48)) else v := by
  cases ds <;> rfl

/-- `seg.length % 65536`: coap option lengths handed on as `uint16_t`-ranged values -/
theorem optVal_matches_code (seg : Bytes) : optVal seg = seg.take (seg.length % (C2.UINT16_MAX + 1)) := rfl

/-- `if (uri_port > UINT16_MAX) error`, `uri->port` is a `uint16_t`; option numbers Uri-Host 3, Uri-Port 7, Uri-Path 11,
Uri-Query 15 of `uriIntoOptlist` -/
theorem uri_numerals_match_code :
    (65535 : Nat) = C2.UINT16_MAX ∧ (65536 : Nat) = C2.uriPortModulus ∧ (3 : Nat) = C2.COAP_OPTION_URI_HOST ∧
    (7 : Nat) = C2.COAP_OPTION_URI_PORT ∧ (11 : Nat) = C2.COAP_OPTION_URI_PATH ∧ (15 : Nat) = C2.COAP_OPTION_URI_QUERY := by decide

end Coap.C16
