import CoapVerif.Props.C07Pers
import CoapVerif.Props.C07Sim
/-
C07, round 6 — the closed loop for the server personalities `dn` (separate Non-confirmable response) and `da` (ACK-typed
response with a message id of its own).  `exactly_once_closed_loop_partial` is FALSE for them (`C07Pers.lean`); this file
proves what DOES hold for EVERY run of `Sys` (client, lossy / duplicating / delaying network, de-duplicating server):

  `dn`   the response handler is called once per DELIVERED COPY of the response (`nRsp` = number of `toC … r` events: SPEC
         DECISION D3), the NACK handler at most once, never after a copy of the response was delivered; with `SysNoLate` a
         NACK excludes any handler call; a quiet client has concluded unless an Empty ACK arrived and no response did (D5).
  `da`   response message id ≠ request message id (the "foreign" id, O5): handler at most once (`= 1` iff a copy of the
         response was delivered — `last_ack_mid`), NACK at most once, NEVER after a copy of the Empty ACK was delivered; so
         "response AND NACK" happens exactly when a response copy is delivered and the request is given up, which needs
         every Empty ACK before the give-up lost.  Response message id = request message id: the message is a piggybacked
         response, `Exchange` holds and the round-2 theorem applies verbatim.

The client invariant next to `PhOk` is `CShape` (layer idle, or the request waiting) + ghost facts carried by the run
lemmas; the server side is `SInv` unchanged (it already covers all six personalities).
-/
namespace Coap.C07
open Coap.Exch

/-! ### the two response shapes -/

/-- `r` is a separate Non-confirmable response to `req` -/
structure XNon (req r : Dgram) : Prop where
  hreq : req.type = .con
  hr : isResponse r.code = true
  htok : r.token = req.token
  htype : r.type = .non

/-- `r` is an ACK-typed response to `req` that does NOT carry the request's message id -/
structure XAck (req r : Dgram) : Prop where
  hreq : req.type = .con
  hr : isResponse r.code = true
  htok : r.token = req.token
  htype : r.type = .ack
  hmid : r.mid ≠ req.mid

theorem hr_non_eq (c : Client) (now : Nat) (d : Dgram) (ok : Bool) (L1 : Layer)
    (h : Layer.cancelAll now d.token c.L = (L1, [])) (hd : d.type = .non) :
    c.handleResponse now d ok =
      ({ c with L := L1, lastResOk := ok }, Out.callResponse d ok :: (if ok then [] else rstFor d)) := by
  unfold Client.handleResponse
  rw [h]
  cases ok <;> simp [hd, ackFor]

/-- arrival of the NON response in any state of the exchange: request cancelled by token, ONE handler call -/
theorem rx_non_shape {req r : Dgram} (X : XNon req r) (c : Client) (hs : CShape req c) (now : Nat) (ok : Bool) :
    c.rx now r ok = ({ c with L := Idle, lastResOk := ok }, Out.callResponse r ok :: (if ok then [] else rstFor r)) := by
  have hcc := isResponse_codeClassOk X.hr
  have hca : Layer.cancelAll now r.token c.L = (Idle, []) := by
    rcases hs with hL | ⟨n, hL, hn⟩
    · rw [hL]; exact Layer.cancelAll_Idle now r.token
    · rw [hL]; exact Layer.cancelAll_Wt now r.token n (by rw [hn]; exact X.htok.symm) (by rw [hn]; exact X.hreq)
  unfold Client.rx
  simp only [hcc, X.htype, X.hr, Bool.not_true]
  simp only [Bool.false_eq_true, if_false, if_true]
  exact hr_non_eq c now r ok Idle hca X.htype

/-- arrival of an ACK-typed response with a foreign message id while the request waits: the request stays -/
theorem rx_ack_foreign_Wt (c : Client) (now : Nat) (r : Dgram) (ok : Bool) (n : Node) (hL : c.L = Wt n)
    (ht : r.type = .ack) (hr : isResponse r.code = true) (hm : n.d.mid ≠ r.mid) :
    c.rx now r ok = if c.lastAck = some r.mid then (c, [])
                    else ({ c with lastAck := some r.mid, lastResOk := true }, [Out.callResponse r ok]) := by
  have hcc := isResponse_codeClassOk hr
  have hne := isResponse_not_empty hr
  have hnr := isResponse_not_request hr
  cases c with
  | mk L lc la lr =>
    simp only at hL; subst hL
    unfold Client.rx
    simp only [hcc, ht, Bool.not_true, Wt, Layer.removeByMid, hm, if_false, Option.isSome_none, hne, hnr, hr]
    rw [hr_ack_eq _ now r ok ht]
    by_cases hd : la = some r.mid <;> simp [hd]

theorem rx_ack_foreign {req r : Dgram} (X : XAck req r) (c : Client) (hs : CShape req c) (now : Nat) (ok : Bool) :
    c.rx now r ok = if c.lastAck = some r.mid then (c, [])
                    else ({ c with lastAck := some r.mid, lastResOk := true }, [Out.callResponse r ok]) := by
  rcases hs with hL | ⟨n, hL, hn⟩
  · exact rx_pb_Idle c now r ok hL X.htype X.hr
  · exact rx_ack_foreign_Wt c now r ok n hL X.htype X.hr (by rw [hn]; exact fun h => X.hmid h.symm)

/-! ### one step of the client, summarised -/

/-- timer step and Empty-ACK arrival (the same for both personalities) -/
structure CStep (req : Dgram) (c : Client) (res : Client × List Out) : Prop where
  shape : CShape req res.1
  tx : ∀ d, Out.tx d ∈ res.2 → d = req ∨ d.type = .ack ∨ d.type = .rst
  nack : nNack res.2 ≤ 1
  idle : c.L = Idle → res.1.L = Idle ∧ nNack res.2 = 0
  nackIdle : 0 < nNack res.2 → res.1.L = Idle

theorem cstep_tick {req : Dgram} (hreq : req.type = .con) (c : Client) (hs : CShape req c) (now : Nat) :
    CStep req c (c.step (.tick now)) ∧ nRsp (c.step (.tick now)).2 = 0 ∧
    (c.L ≠ Idle → (c.step (.tick now)).1.L = Idle → nNack (c.step (.tick now)).2 = 1) ∧
    (c.step (.tick now)).1.lastAck = c.lastAck := by
  refine (fun (h : _ ∧ _ ∧ _) => ⟨h.1, h.2.1, h.2.2, rfl⟩) ?_
  rcases hs with hL | ⟨n, hL, hn⟩
  · have h : c.step (.tick now) = (c, []) := tick_Idle_client c now hL
    rw [h]
    exact ⟨⟨Or.inl hL, by simp, by simp, fun _ => ⟨hL, rfl⟩, by simp⟩, rfl, fun h' => absurd hL h'⟩
  · have hc : n.d.type = .con := by rw [hn]; exact hreq
    have h1 : (c.step (.tick now)).1.L = (Layer.tickAll now (Wt n)).1 := by
      show (c.tick now).1.L = _; rw [tick_fst_L, hL]
    have h2 : (c.step (.tick now)).2 = (Layer.tickAll now (Wt n)).2 := by
      show (c.tick now).2 = _; rw [tick_snd, hL]
    have hne : c.L ≠ Idle := by rw [hL]; simp [Wt, Idle]
    have htx : ∀ d, Out.tx d ∈ (c.step (.tick now)).2 → d = req ∨ d.type = .ack ∨ d.type = .rst := by
      intro d hd
      rw [h2] at hd
      rcases Layer.tick_Wt_outs now _ n hc _ hd with h | h
      · injection h with h; exact Or.inl (h.trans hn)
      · cases h
    rcases Layer.tick_Wt now (((Wt n).sendq.length + 1) * 6) n hc with ⟨n', a1, a2, a3, a4⟩ | ⟨a1, a3, a4⟩
    · have b1 : (c.step (.tick now)).1.L = Wt n' := by rw [h1]; exact a1
      have b3 : nRsp (c.step (.tick now)).2 = 0 := by rw [h2]; exact a3
      have b4 : nNack (c.step (.tick now)).2 = 0 := by rw [h2]; exact a4
      refine ⟨⟨Or.inr ⟨n', b1, a2.trans hn⟩, htx, by omega, fun h => absurd h hne, fun h => by omega⟩, b3, ?_⟩
      intro _ hI; rw [b1] at hI; simp [Wt, Idle] at hI
    · have b1 : (c.step (.tick now)).1.L = Idle := by rw [h1]; exact a1
      have b3 : nRsp (c.step (.tick now)).2 = 0 := by rw [h2]; exact a3
      have b4 : nNack (c.step (.tick now)).2 = 1 := by rw [h2]; exact a4
      exact ⟨⟨Or.inl b1, htx, by omega, fun h => absurd h hne, fun _ => b1⟩, b3, fun _ _ => b4⟩

theorem cstep_eack {req : Dgram} (c : Client) (hs : CShape req c) (now : Nat) (ok : Bool) :
    CStep req c (c.step (.rx now (emptyAck req.mid) ok)) ∧ (c.step (.rx now (emptyAck req.mid) ok)).2 = [] ∧
    (c.step (.rx now (emptyAck req.mid) ok)).1.L = Idle ∧
    (c.step (.rx now (emptyAck req.mid) ok)).1.lastAck = c.lastAck := by
  rcases hs with hL | ⟨n, hL, hn⟩
  · have h : c.step (.rx now (emptyAck req.mid) ok) = (c, []) := rx_emptyAck_Idle c now ok req.mid hL
    rw [h]
    exact ⟨⟨Or.inl hL, by simp, by simp, fun _ => ⟨hL, rfl⟩, by simp⟩, rfl, hL, rfl⟩
  · have h : c.step (.rx now (emptyAck req.mid) ok) = ({ c with L := Idle }, []) := by
      have := rx_emptyAck_Wt c now ok n hL
      rw [hn] at this; exact this
    rw [h]
    exact ⟨⟨Or.inl rfl, by simp, by simp, fun _ => ⟨rfl, rfl⟩, by simp⟩, rfl, rfl, rfl⟩

theorem eack_ne_rsp {req r : Dgram} (hr : isResponse r.code = true) : emptyAck req.mid ≠ r := by
  intro h; rw [← h] at hr; simp [emptyAck, isResponse] at hr

/-- `dn`: one step of the client -/
theorem dn_cstep {req r : Dgram} (X : XNon req r) (c : Client) (hs : CShape req c) (e : CEvent) (he : ExEv req r e) :
    CStep req c (c.step e) ∧
    (isRsp r e → nRsp (c.step e).2 = 1 ∧ (c.step e).1.L = Idle ∧ nNack (c.step e).2 = 0) ∧
    (¬ isRsp r e → nRsp (c.step e).2 = 0) ∧
    (c.L ≠ Idle → (c.step e).1.L = Idle → nNack (c.step e).2 = 1 ∨ isRsp r e ∨ isEAck req e) := by
  cases he with
  | tick now =>
    obtain ⟨a, b, d, _⟩ := cstep_tick X.hreq c hs now
    exact ⟨a, fun h => h.elim, fun _ => b, fun h1 h2 => Or.inl (d h1 h2)⟩
  | emptyAck now ok =>
    obtain ⟨a, b, d, _⟩ := cstep_eack c hs now ok
    refine ⟨a, fun h => absurd h (eack_ne_rsp X.hr), fun _ => by rw [b]; rfl, fun _ _ => Or.inr (Or.inr rfl)⟩
  | response now ok =>
    have h : c.step (.rx now r ok) = ({ c with L := Idle, lastResOk := ok },
        Out.callResponse r ok :: (if ok then [] else rstFor r)) := rx_non_shape X c hs now ok
    rw [h]
    have hn : nNack (Out.callResponse r ok :: (if ok then [] else rstFor r)) = 0 := by cases ok <;> simp [rstFor]
    have hp : nRsp (Out.callResponse r ok :: (if ok then [] else rstFor r)) = 1 := by cases ok <;> simp [rstFor]
    refine ⟨⟨Or.inl rfl, ?_, Nat.le_trans (Nat.le_of_eq hn) (Nat.zero_le 1), fun _ => ⟨rfl, hn⟩, fun _ => rfl⟩,
      fun _ => ⟨hp, rfl, hn⟩, fun h => absurd rfl h, fun _ _ => Or.inr (Or.inl rfl)⟩
    intro d hd
    cases ok
    · simp [rstFor] at hd; subst hd; exact Or.inr (Or.inr rfl)
    · simp at hd

/-- `da` (foreign message id): one step of the client -/
theorem da_cstep {req r : Dgram} (X : XAck req r) (c : Client) (hs : CShape req c) (e : CEvent) (he : ExEv req r e) :
    CStep req c (c.step e) ∧
    (isRsp r e → (c.step e).1.L = c.L ∧ nNack (c.step e).2 = 0 ∧ (c.step e).1.lastAck = some r.mid ∧
                 nRsp (c.step e).2 = if c.lastAck = some r.mid then 0 else 1) ∧
    (¬ isRsp r e → nRsp (c.step e).2 = 0 ∧ (c.step e).1.lastAck = c.lastAck) ∧
    (isEAck req e → (c.step e).1.L = Idle) ∧
    (c.L ≠ Idle → (c.step e).1.L = Idle → nNack (c.step e).2 = 1 ∨ isEAck req e) := by
  cases he with
  | tick now =>
    obtain ⟨a, b, d, l⟩ := cstep_tick X.hreq c hs now
    exact ⟨a, fun h => h.elim, fun _ => ⟨b, l⟩, fun h => h.elim, fun h1 h2 => Or.inl (d h1 h2)⟩
  | emptyAck now ok =>
    obtain ⟨a, b, d, l⟩ := cstep_eack c hs now ok
    exact ⟨a, fun h => absurd h (eack_ne_rsp X.hr), fun _ => ⟨by rw [b]; rfl, l⟩, fun _ => d, fun _ _ => Or.inr rfl⟩
  | response now ok =>
    have h : c.step (.rx now r ok) = if c.lastAck = some r.mid then (c, [])
        else ({ c with lastAck := some r.mid, lastResOk := true }, [Out.callResponse r ok]) := rx_ack_foreign X c hs now ok
    rw [h]
    by_cases hd : c.lastAck = some r.mid
    · rw [if_pos hd]
      exact ⟨⟨hs, by simp, by simp, fun h => ⟨h, rfl⟩, by simp⟩, fun _ => ⟨rfl, rfl, hd, by simp [hd]⟩, fun h => absurd rfl h,
        fun h => absurd h.symm (eack_ne_rsp X.hr), fun h1 h2 => absurd h2 h1⟩
    · rw [if_neg hd]
      exact ⟨⟨hs, by simp, by simp, fun h => ⟨h, rfl⟩, by simp⟩, fun _ => ⟨rfl, rfl, rfl, by simp [hd]⟩,
        fun h => absurd rfl h, fun h => absurd h.symm (eack_ne_rsp X.hr), fun h1 h2 => absurd h2 h1⟩

/-! ### the joint invariant of the closed loop, without a client phase -/

structure JG (req r : Dgram) (s0 : Server) (y : Sys) : Prop where
  hc : CShape req y.c
  hs : SInv s0 req y.s
  hcl : ∀ p ∈ y.cLog, p.2 = req ∨ p.2.type = .ack ∨ p.2.type = .rst
  hsl : ∀ p ∈ y.sLog, p.2 = r ∨ p.2 = emptyAck req.mid

/-- an arrival of a copy of the Empty ACK at the client -/
def isEAckS (req : Dgram) : SysEv → Prop
  | .toC _ _ d _ => d = emptyAck req.mid
  | _ => False

instance (req : Dgram) : (e : SysEv) → Decidable (isEAckS req e)
  | .toC _ _ d _ => inferInstanceAs (Decidable (d = emptyAck req.mid))
  | .toS _ _ _ => isFalse (fun h => h)
  | .cTick _ => isFalse (fun h => h)
  | .sTick _ => isFalse (fun h => h)
  | .sApp _ => isFalse (fun h => h)

/-- the client event of a `Sys` event, if it is one of the client -/
def cEvOf : SysEv → Option CEvent
  | .cTick now => some (.tick now)
  | .toC _ now d ok => some (.rx now d ok)
  | _ => none

theorem start_JG {req : Dgram} {s0 : Server} (hr : SReq req) (hq : SQuiet s0 req) (c0 : Client) (hidle : c0.L = Idle)
    (now0 T : Nat) : JG req (respFor s0 req) s0 (Sys.start c0 s0 now0 req T) := by
  have hs := appSend_Idle c0 now0 req T hidle hr.hcon
  refine ⟨?_, SInv_init hq, ?_, ?_⟩
  · simp only [Sys.start]; rw [hs]; exact Or.inr ⟨_, rfl, rfl⟩
  · intro p hp; simp only [Sys.start, List.mem_singleton] at hp; subst hp; exact Or.inl rfl
  · intro p hp; simp [Sys.start] at hp

theorem start_not_idle {req : Dgram} (hr : SReq req) (c0 : Client) (hidle : c0.L = Idle) (s0 : Server) (now0 T : Nat) :
    (Sys.start c0 s0 now0 req T).c.L ≠ Idle := by
  have hs := appSend_Idle c0 now0 req T hidle hr.hcon
  simp only [Sys.start]; rw [hs]; simp [Wt, Idle]

/-- a server event keeps `JG` and is invisible to the client -/
theorem jg_server {req r : Dgram} {s0 : Server} (hr : SReq req) (hq : SQuiet s0 req) (hrr : r = respFor s0 req)
    (y : Sys) (hj : JG req r s0 y) (now : Nat) (e : SEvent) (he : SExEv req e) : JG req r s0 (y.sStep now e).1 := by
  obtain ⟨h1, h2⟩ := SInv_step hr hq y.s hj.hs e he
  refine ⟨hj.hc, h1, hj.hcl, ?_⟩
  intro p hp
  simp only [Sys.sStep, List.mem_append] at hp
  rcases hp with hp | hp
  · exact hj.hsl p hp
  · rw [hrr]; exact h2 p.2 (mem_txAt.mp hp).2

theorem jg_client {req r : Dgram} {s0 : Server} (y : Sys) (hj : JG req r s0 y) (now : Nat) (e : CEvent)
    (h : CStep req y.c (y.c.step e)) : JG req r s0 (y.cStep now e).1 := by
  refine ⟨h.shape, hj.hs, ?_, hj.hsl⟩
  intro p hp
  simp only [Sys.cStep, List.mem_append] at hp
  rcases hp with hp | hp
  · exact hj.hcl p hp
  · exact h.tx p.2 (mem_txAt.mp hp).2

theorem jg_toS {req r : Dgram} {s0 : Server} {y : Sys} (hj : JG req r s0 y) {sent : Nat} {d : Dgram}
    (h : (sent, d) ∈ y.cLog) (now : Nat) : SExEv req (.rx now d) := by
  rcases hj.hcl _ h with h | h
  · simp only at h; subst h; exact .request now
  · exact .reply now d h

theorem jg_toC {req r : Dgram} {s0 : Server} {y : Sys} (hj : JG req r s0 y) {sent : Nat} {d : Dgram}
    (h : (sent, d) ∈ y.sLog) (now : Nat) (ok : Bool) : ExEv req r (.rx now d ok) := by
  rcases hj.hsl _ h with h | h
  · simp only at h; subst h; exact .response now ok
  · simp only at h; subst h; exact .emptyAck now ok

/-- one event of the closed loop: either a server event (client untouched, no client output) or a client event of
    the exchange -/
theorem jg_step {req r : Dgram} {s0 : Server} (hr : SReq req) (hq : SQuiet s0 req) (hrr : r = respFor s0 req)
    (Δ : Nat) (y : Sys) (hj : JG req r s0 y) (e : SysEv) (hn : y.Net Δ e) :
    (cEvOf e = none ∧ JG req r s0 (y.step e).1 ∧ (y.step e).1.c = y.c ∧ (y.step e).2 = [] ∧ ¬ isRspS r e ∧ ¬ isEAckS req e) ∨
    (∃ ce, cEvOf e = some ce ∧ ExEv req r ce ∧ (y.step e).1.c = (y.c.step ce).1 ∧ (y.step e).2 = (y.c.step ce).2 ∧
      (isRspS r e ↔ isRsp r ce) ∧ (isEAckS req e ↔ isEAck req ce) ∧
      (CStep req y.c (y.c.step ce) → JG req r s0 (y.step e).1)) := by
  cases e with
  | cTick now =>
    exact Or.inr ⟨.tick now, rfl, .tick now, rfl, rfl, Iff.rfl, Iff.rfl, fun h => jg_client y hj now _ h⟩
  | toC sent now d ok =>
    exact Or.inr ⟨.rx now d ok, rfl, jg_toC hj hn.1 now ok, rfl, rfl, Iff.rfl, Iff.rfl, fun h => jg_client y hj now _ h⟩
  | sTick now => exact Or.inl ⟨rfl, jg_server hr hq hrr y hj now _ (.tick now), rfl, rfl, fun h => h, fun h => h⟩
  | sApp now => exact Or.inl ⟨rfl, jg_server hr hq hrr y hj now _ (.app now), rfl, rfl, fun h => h, fun h => h⟩
  | toS sent now d =>
    exact Or.inl ⟨rfl, jg_server hr hq hrr y hj now _ (jg_toS hj hn.1 now), rfl, rfl, fun h => h, fun h => h⟩

/-- number of copies of the response delivered to the client in an event sequence -/
def nDelivered (r : Dgram) (es : List SysEv) : Nat := es.countP (fun e => decide (isRspS r e))

theorem nDelivered_cons (r : Dgram) (e : SysEv) (es : List SysEv) :
    nDelivered r (e :: es) = (if isRspS r e then 1 else 0) + nDelivered r es := by
  unfold nDelivered
  by_cases h : isRspS r e <;> simp [h] <;> omega

theorem nDelivered_zero {r : Dgram} {es : List SysEv} : nDelivered r es = 0 ↔ ∀ e ∈ es, ¬ isRspS r e := by
  simp [nDelivered, List.countP_eq_zero]

/-! ### `dn`: all runs -/

/-- every run of the closed loop from any state of the exchange, NON response -/
theorem dn_run {req r : Dgram} {s0 : Server} (X : XNon req r) (hr : SReq req) (hq : SQuiet s0 req)
    (hrr : r = respFor s0 req) (Δ : Nat) :
    ∀ (es : List SysEv) (y : Sys), JG req r s0 y → y.RunOk Δ es →
      JG req r s0 (y.run es).1 ∧ nRsp (y.run es).2 = nDelivered r es ∧ nNack (y.run es).2 ≤ 1 ∧
      (y.c.L = Idle → (y.run es).1.c.L = Idle ∧ nNack (y.run es).2 = 0) ∧
      ((∃ e ∈ es, isRspS r e) → (y.run es).1.c.L = Idle) ∧
      (y.c.L ≠ Idle → (y.run es).1.c.L = Idle →
        nNack (y.run es).2 = 1 ∨ 1 ≤ nRsp (y.run es).2 ∨ ∃ e ∈ es, isEAckS req e) := by
  intro es
  induction es with
  | nil =>
    intro y hj _
    exact ⟨hj, rfl, by simp [Sys.run], fun h => ⟨h, rfl⟩, (by rintro ⟨_, h, _⟩; cases h), fun h1 h2 => absurd h2 h1⟩
  | cons e es ih =>
    intro y hj hok
    rw [Sys.run_cons, nDelivered_cons]
    simp only [nRsp_append, nNack_append]
    rcases jg_step hr hq hrr Δ y hj e hok.1 with ⟨_, hj1, hc1, ho1, hnr, hne⟩ | ⟨ce, _, hce, hc1, ho1, hir, hie, hjj⟩
    · obtain ⟨i1, i2, i3, i4, i5, i6⟩ := ih (y.step e).1 hj1 hok.2
      rw [hc1] at i4 i6
      simp only [ho1, nRsp_nil, nNack_nil, hnr, if_false, Nat.zero_add]
      refine ⟨i1, i2, i3, i4, ?_, ?_⟩
      · rintro ⟨e', he', h'⟩
        rcases List.mem_cons.mp he' with rfl | hm
        · exact absurd h' hnr
        · exact i5 ⟨e', hm, h'⟩
      · intro h1 h2
        rcases i6 h1 h2 with h | h | ⟨e', he', h'⟩
        · exact Or.inl h
        · exact Or.inr (Or.inl h)
        · exact Or.inr (Or.inr ⟨e', List.mem_cons_of_mem _ he', h'⟩)
    · obtain ⟨cs, d1, d2, d3⟩ := dn_cstep X y.c hj.hc ce hce
      obtain ⟨i1, i2, i3, i4, i5, i6⟩ := ih (y.step e).1 (hjj cs) hok.2
      rw [hc1] at i4 i6
      rw [ho1]
      have hcount : nRsp (y.c.step ce).2 = if isRspS r e then 1 else 0 := by
        by_cases h : isRspS r e
        · simp only [h, if_true]; exact (d1 (hir.mp h)).1
        · simp only [h, if_false]; exact d2 (fun h' => h (hir.mpr h'))
      have hnk : nNack (y.c.step ce).2 + nNack ((y.step e).1.run es).2 ≤ 1 := by
        by_cases hI : (y.c.step ce).1.L = Idle
        · have := (i4 hI).2; have := cs.nack; omega
        · have : nNack (y.c.step ce).2 = 0 := by
            by_cases hI0 : y.c.L = Idle
            · exact (cs.idle hI0).2
            · rcases Nat.eq_zero_or_pos (nNack (y.c.step ce).2) with h | h
              · exact h
              · exfalso
                -- a NACK only comes from the timer, which then leaves the layer idle
                cases hce with
                | tick now =>
                  rcases hj.hc with hL | ⟨n, hL, hn⟩
                  · exact hI0 hL
                  · have hc : n.d.type = .con := by rw [hn]; exact X.hreq
                    have h1 : (y.c.step (.tick now)).1.L = (Layer.tickAll now (Wt n)).1 := by
                      show (y.c.tick now).1.L = _; rw [tick_fst_L, hL]
                    have h2 : (y.c.step (.tick now)).2 = (Layer.tickAll now (Wt n)).2 := by
                      show (y.c.tick now).2 = _; rw [tick_snd, hL]
                    rcases Layer.tick_Wt now (((Wt n).sendq.length + 1) * 6) n hc with ⟨n', a1, a2, a3, a4⟩ | ⟨a1, a3, a4⟩
                    · rw [h2] at h; have : nNack (Layer.tickAll now (Wt n)).2 = 0 := a4; omega
                    · exact hI (h1.trans a1)
                | emptyAck now ok => exact hI (cstep_eack y.c hj.hc now ok).2.2.1
                | response now ok => exact hI (d1 rfl).2.1
          omega
      refine ⟨i1, by rw [hcount, i2], hnk, ?_, ?_, ?_⟩
      · intro hI
        obtain ⟨k1, k2⟩ := cs.idle hI
        obtain ⟨k3, k4⟩ := i4 k1
        exact ⟨k3, by omega⟩
      · rintro ⟨e', he', h'⟩
        rcases List.mem_cons.mp he' with rfl | hm
        · exact (i4 (d1 (hir.mp h')).2.1).1
        · exact i5 ⟨e', hm, h'⟩
      · intro h1 h2
        by_cases hI : (y.c.step ce).1.L = Idle
        · rcases d3 h1 hI with h | h | h
          · left; have := (i4 hI).2; omega
          · right; left; have := (d1 h).1; omega
          · right; right; exact ⟨e, List.mem_cons_self .., hie.mpr h⟩
        · rcases i6 hI h2 with h | h | ⟨e', he', h'⟩
          · left; omega
          · right; left; omega
          · right; right; exact ⟨e', List.mem_cons_of_mem _ he', h'⟩

/-- `dn`, no copy of the response after the give-up: a NACK means that no copy of the response was delivered at all -/
theorem dn_run_nolate {req r : Dgram} {s0 : Server} (X : XNon req r) (hr : SReq req) (hq : SQuiet s0 req)
    (hrr : r = respFor s0 req) (Δ : Nat) :
    ∀ (es : List SysEv) (y : Sys), JG req r s0 y → y.RunOk Δ es → SysNoLate r y es → nNack (y.run es).2 = 1 →
      nDelivered r es = 0 := by
  intro es
  induction es with
  | nil => intro y _ _ _ _; rfl
  | cons e es ih =>
    intro y hj hok hnl hk
    rw [Sys.run_cons] at hk
    simp only [nNack_append] at hk
    rw [nDelivered_cons]
    rcases jg_step hr hq hrr Δ y hj e hok.1 with ⟨_, hj1, hc1, ho1, hnr, hne⟩ | ⟨ce, _, hce, hc1, ho1, hir, hie, hjj⟩
    · rw [ho1] at hk
      simp only [nNack_nil, Nat.zero_add] at hk
      simp only [hnr, if_false, Nat.zero_add]
      exact ih (y.step e).1 hj1 hok.2 hnl.2 hk
    · obtain ⟨cs, d1, d2, d3⟩ := dn_cstep X y.c hj.hc ce hce
      have hnot : ¬ isRspS r e := by
        intro h
        obtain ⟨_, k2, k3⟩ := d1 (hir.mp h)
        have hI : (y.step e).1.c.L = Idle := by rw [hc1]; exact k2
        have := ((dn_run X hr hq hrr Δ es (y.step e).1 (hjj cs) hok.2).2.2.2.1 hI).2
        rw [ho1] at hk; omega
      simp only [hnot, if_false, Nat.zero_add]
      by_cases hpos : nNack (y.step e).2 > 0
      · exact nDelivered_zero.mpr (hnl.1 hpos)
      · exact ih (y.step e).1 (hjj cs) hok.2 hnl.2 (by omega)

/-! ### `da` with a foreign message id: all runs -/

theorem da_run {req r : Dgram} {s0 : Server} (X : XAck req r) (hr : SReq req) (hq : SQuiet s0 req)
    (hrr : r = respFor s0 req) (Δ : Nat) :
    ∀ (es : List SysEv) (y : Sys), JG req r s0 y → y.RunOk Δ es →
      JG req r s0 (y.run es).1 ∧ nNack (y.run es).2 ≤ 1 ∧
      (y.c.L = Idle → (y.run es).1.c.L = Idle ∧ nNack (y.run es).2 = 0) ∧
      ((∃ e ∈ es, isEAckS req e) → (y.run es).1.c.L = Idle) ∧
      (y.c.lastAck = some r.mid → nRsp (y.run es).2 = 0) ∧
      (y.c.lastAck ≠ some r.mid → nRsp (y.run es).2 = min 1 (nDelivered r es)) ∧
      (y.c.L ≠ Idle → (y.run es).1.c.L = Idle → nNack (y.run es).2 = 1 ∨ ∃ e ∈ es, isEAckS req e) := by
  intro es
  induction es with
  | nil =>
    intro y hj _
    exact ⟨hj, by simp [Sys.run], fun h => ⟨h, rfl⟩, (by rintro ⟨_, h, _⟩; cases h), fun _ => rfl, fun _ => rfl,
      fun h1 h2 => absurd h2 h1⟩
  | cons e es ih =>
    intro y hj hok
    rw [Sys.run_cons, nDelivered_cons]
    simp only [nRsp_append, nNack_append]
    rcases jg_step hr hq hrr Δ y hj e hok.1 with ⟨_, hj1, hc1, ho1, hnr, hne⟩ | ⟨ce, _, hce, hc1, ho1, hir, hie, hjj⟩
    · obtain ⟨i1, i2, i3, i4, i5, i6, i7⟩ := ih (y.step e).1 hj1 hok.2
      rw [hc1] at i3 i5 i6 i7
      simp only [ho1, nRsp_nil, nNack_nil, hnr, if_false, Nat.zero_add]
      refine ⟨i1, i2, i3, ?_, i5, i6, ?_⟩
      · rintro ⟨e', he', h'⟩
        rcases List.mem_cons.mp he' with rfl | hm
        · exact absurd h' hne
        · exact i4 ⟨e', hm, h'⟩
      · intro h1 h2
        rcases i7 h1 h2 with h | ⟨e', he', h'⟩
        · exact Or.inl h
        · exact Or.inr ⟨e', List.mem_cons_of_mem _ he', h'⟩
    · obtain ⟨cs, d1, d2, d3, d4⟩ := da_cstep X y.c hj.hc ce hce
      obtain ⟨i1, i2, i3, i4, i5, i6, i7⟩ := ih (y.step e).1 (hjj cs) hok.2
      rw [hc1] at i3 i5 i6 i7
      rw [ho1]
      have hnk : nNack (y.c.step ce).2 + nNack ((y.step e).1.run es).2 ≤ 1 := by
        by_cases hI : (y.c.step ce).1.L = Idle
        · have := (i3 hI).2; have := cs.nack; omega
        · have : nNack (y.c.step ce).2 = 0 := by
            rcases Nat.eq_zero_or_pos (nNack (y.c.step ce).2) with h | h
            · exact h
            · exact absurd (cs.nackIdle h) hI
          omega
      refine ⟨i1, hnk, ?_, ?_, ?_, ?_, ?_⟩
      · intro hI
        obtain ⟨k1, k2⟩ := cs.idle hI
        obtain ⟨k3, k4⟩ := i3 k1
        exact ⟨k3, by omega⟩
      · rintro ⟨e', he', h'⟩
        rcases List.mem_cons.mp he' with rfl | hm
        · exact (i3 (d3 (hie.mp h'))).1
        · exact i4 ⟨e', hm, h'⟩
      · intro hseen
        by_cases h : isRsp r ce
        · obtain ⟨_, _, k3, k4⟩ := d1 h
          rw [k4, i5 k3]; simp [hseen]
        · obtain ⟨k1, k2⟩ := d2 h
          rw [k1, i5 (k2.trans hseen)]
      · intro hfr
        by_cases h : isRsp r ce
        · obtain ⟨_, _, k3, k4⟩ := d1 h
          rw [k4, i5 k3]
          simp only [hfr, if_false, hir.mpr h, if_true]; omega
        · obtain ⟨k1, k2⟩ := d2 h
          have h' : ¬ isRspS r e := fun h'' => h (hir.mp h'')
          rw [k1, i6 (by rw [k2]; exact hfr)]
          simp only [h', if_false]; omega
      · intro h1 h2
        by_cases hI : (y.c.step ce).1.L = Idle
        · rcases d4 h1 hI with h | h
          · left; have := (i3 hI).2; omega
          · right; exact ⟨e, List.mem_cons_self .., hie.mpr h⟩
        · rcases i7 hI h2 with h | ⟨e', he', h'⟩
          · left
            have : nNack (y.c.step ce).2 = 0 := by
              rcases Nat.eq_zero_or_pos (nNack (y.c.step ce).2) with h0 | h0
              · exact h0
              · exact absurd (cs.nackIdle h0) hI
            omega
          · right; exact ⟨e', List.mem_cons_of_mem _ he', h'⟩

/-! ### the theorems, from the state right after the request was sent -/

theorem xnon_of_server {s0 : Server} {req : Dgram} (hr : SReq req) (hp : s0.pers = .dn) : XNon req (respFor s0 req) := by
  refine ⟨hr.hcon, ?_, ?_, ?_⟩ <;> simp [respFor, hp, isResponse]

theorem xack_of_server {s0 : Server} {req : Dgram} (hr : SReq req) (hp : s0.pers = .da)
    (hm : (s0.txMid + 1) % 65536 ≠ req.mid) : XAck req (respFor s0 req) := by
  refine ⟨hr.hcon, ?_, ?_, ?_, ?_⟩ <;> simp [respFor, hp, isResponse]
  exact hm

theorem idle_of_sendq_nil {req : Dgram} {c : Client} (hs : CShape req c) (h : c.L.sendq = []) : c.L = Idle := by
  rcases hs with hL | ⟨n, hL, _⟩
  · exact hL
  · rw [hL] at h; simp [Wt] at h

/-- **closed loop, separate Non-confirmable response (`dn`), EVERY run** — client, lossy / duplicating / delaying network,
    de-duplicating server that answers with one NON message `r = respFor s0 req`; no `SysNoLate`, no freshness hypothesis:
    * the response handler is called exactly once per copy of `r` the network delivers (`nRsp = nDelivered`: one call per
      delivery event, never two for one — SPEC DECISION D3, the property's last clause, now for whole runs of the loop);
    * the NACK handler is called at most once;
    * never a NACK after a copy of the response was delivered: however the run is split `es = pre ++ post`, if a copy of
      `r` is delivered in `pre`, `post` contains no NACK (the first copy cancels the request by token);
    * never neither once the client is quiet, except D5: send queue empty ⇒ a NACK, or a handler call, or a copy of the
      Empty ACK was delivered (and then every copy of the NON response was lost: the count says so). -/
theorem closed_loop_dn {req : Dgram} (hr : SReq req) (s0 : Server) (hq : SQuiet s0 req) (hp : s0.pers = .dn)
    (c0 : Client) (hidle : c0.L = Idle) (now0 T Δ : Nat) (es : List SysEv)
    (hok : (Sys.start c0 s0 now0 req T).RunOk Δ es) :
    nRsp ((Sys.start c0 s0 now0 req T).run es).2 = nDelivered (respFor s0 req) es ∧
    nNack ((Sys.start c0 s0 now0 req T).run es).2 ≤ 1 ∧
    (∀ pre post, es = pre ++ post → (∃ e ∈ pre, isRspS (respFor s0 req) e) →
      nNack (((Sys.start c0 s0 now0 req T).run pre).1.run post).2 = 0) ∧
    (((Sys.start c0 s0 now0 req T).run es).1.c.L.sendq = [] →
      nNack ((Sys.start c0 s0 now0 req T).run es).2 = 1 ∨ 1 ≤ nRsp ((Sys.start c0 s0 now0 req T).run es).2 ∨
      ∃ e ∈ es, isEAckS req e) := by
  have X := xnon_of_server hr hp
  have hj := start_JG hr hq c0 hidle now0 T
  obtain ⟨a1, a2, a3, _, _, a6⟩ := dn_run X hr hq rfl Δ es _ hj hok
  refine ⟨a2, a3, ?_, fun h => a6 (start_not_idle hr c0 hidle s0 now0 T) (idle_of_sendq_nil a1.hc h)⟩
  intro pre post hsplit hex
  subst hsplit
  obtain ⟨k1, k2⟩ := (runOk_append Δ pre post _).mp hok
  obtain ⟨b1, _, _, _, b5, _⟩ := dn_run X hr hq rfl Δ pre _ hj k1
  exact ((dn_run X hr hq rfl Δ post _ b1 k2).2.2.2.1 (b5 hex)).2

/-- `dn`, given that no copy of the response is delivered after the give-up (`SysNoLate`, the open finding excluded): **never
    both** — a NACK means the response handler was never called; with the count of `closed_loop_dn`: the request concludes
    by its NACK alone, or by one handler call per delivered copy of the response and no NACK. -/
theorem closed_loop_dn_never_both {req : Dgram} (hr : SReq req) (s0 : Server) (hq : SQuiet s0 req) (hp : s0.pers = .dn)
    (c0 : Client) (hidle : c0.L = Idle) (now0 T Δ : Nat) (es : List SysEv)
    (hok : (Sys.start c0 s0 now0 req T).RunOk Δ es)
    (hlate : SysNoLate (respFor s0 req) (Sys.start c0 s0 now0 req T) es) :
    nNack ((Sys.start c0 s0 now0 req T).run es).2 = 1 → nRsp ((Sys.start c0 s0 now0 req T).run es).2 = 0 := by
  intro hk
  have X := xnon_of_server hr hp
  have hj := start_JG hr hq c0 hidle now0 T
  rw [(dn_run X hr hq rfl Δ es _ hj hok).2.1]
  exact dn_run_nolate X hr hq rfl Δ es _ hj hok hlate hk

/-- **closed loop, ACK-typed response with a message id of its own (`da`, observation O5), EVERY run** — response message
    id ≠ request message id, `last_ack_mid` does not hold that id at the start; no `SysNoLate`:
    * the response handler is called at most once, and exactly once iff a copy of the response is delivered
      (`nRsp = min 1 nDelivered`: `last_ack_mid` filters every later copy, however late);
    * the NACK handler is called at most once;
    * never a NACK after a copy of the Empty ACK was delivered (any split `es = pre ++ post`);
    * the client is quiet ⇒ NACK, or a copy of the Empty ACK was delivered.
    So response AND NACK (`da_response_then_nack_witness`) happens exactly when a copy of the response is delivered and
    the request is given up (`closed_loop_da_both_iff`), and the give-up requires that no copy of the Empty ACK reached the
    client before it. -/
theorem closed_loop_da {req : Dgram} (hr : SReq req) (s0 : Server) (hq : SQuiet s0 req) (hp : s0.pers = .da)
    (hm : (s0.txMid + 1) % 65536 ≠ req.mid) (c0 : Client) (hidle : c0.L = Idle) (hfresh : fresh c0 (respFor s0 req))
    (now0 T Δ : Nat) (es : List SysEv) (hok : (Sys.start c0 s0 now0 req T).RunOk Δ es) :
    nRsp ((Sys.start c0 s0 now0 req T).run es).2 = min 1 (nDelivered (respFor s0 req) es) ∧
    nNack ((Sys.start c0 s0 now0 req T).run es).2 ≤ 1 ∧
    (∀ pre post, es = pre ++ post → (∃ e ∈ pre, isEAckS req e) →
      nNack (((Sys.start c0 s0 now0 req T).run pre).1.run post).2 = 0) ∧
    (((Sys.start c0 s0 now0 req T).run es).1.c.L.sendq = [] →
      nNack ((Sys.start c0 s0 now0 req T).run es).2 = 1 ∨ ∃ e ∈ es, isEAckS req e) := by
  have X := xack_of_server hr hp hm
  have hj := start_JG hr hq c0 hidle now0 T
  have hfr : (Sys.start c0 s0 now0 req T).c.lastAck ≠ some (respFor s0 req).mid := by
    have hs := appSend_Idle c0 now0 req T hidle hr.hcon
    simp only [Sys.start]; rw [hs]
    exact hfresh.1 X.htype
  obtain ⟨a1, a2, _, _, _, a6, a7⟩ := da_run X hr hq rfl Δ es _ hj hok
  refine ⟨a6 hfr, a2, ?_, fun h => a7 (start_not_idle hr c0 hidle s0 now0 T) (idle_of_sendq_nil a1.hc h)⟩
  intro pre post hsplit hex
  subst hsplit
  obtain ⟨k1, k2⟩ := (runOk_append Δ pre post _).mp hok
  obtain ⟨b1, _, _, b4, _⟩ := da_run X hr hq rfl Δ pre _ hj k1
  exact ((da_run X hr hq rfl Δ post _ b1 k2).2.2.1 (b4 hex)).2

/-- `da`: **both** a handler call and a NACK iff a copy of the response was delivered and the request was given up -/
theorem closed_loop_da_both_iff {req : Dgram} (hr : SReq req) (s0 : Server) (hq : SQuiet s0 req) (hp : s0.pers = .da)
    (hm : (s0.txMid + 1) % 65536 ≠ req.mid) (c0 : Client) (hidle : c0.L = Idle) (hfresh : fresh c0 (respFor s0 req))
    (now0 T Δ : Nat) (es : List SysEv) (hok : (Sys.start c0 s0 now0 req T).RunOk Δ es) :
    nRsp ((Sys.start c0 s0 now0 req T).run es).2 + nNack ((Sys.start c0 s0 now0 req T).run es).2 ≤ 2 ∧
    (nRsp ((Sys.start c0 s0 now0 req T).run es).2 + nNack ((Sys.start c0 s0 now0 req T).run es).2 = 2 ↔
      (∃ e ∈ es, isRspS (respFor s0 req) e) ∧ nNack ((Sys.start c0 s0 now0 req T).run es).2 = 1) := by
  obtain ⟨a1, a2, _, _⟩ := closed_loop_da hr s0 hq hp hm c0 hidle hfresh now0 T Δ es hok
  have hz := @nDelivered_zero (respFor s0 req) es
  refine ⟨by omega, ?_, ?_⟩
  · intro h
    refine ⟨?_, by omega⟩
    apply Classical.byContradiction
    intro hne
    have : nDelivered (respFor s0 req) es = 0 := hz.mpr (fun e he hi => hne ⟨e, he, hi⟩)
    omega
  · rintro ⟨⟨e, he, hi⟩, hk⟩
    have : nDelivered (respFor s0 req) es ≠ 0 := fun h0 => hz.mp h0 e he hi
    omega

/-- `da`: **at most one conclusion** as soon as a copy of the Empty ACK reaches the client before any give-up — i.e. "both"
    needs every Empty ACK transmitted before the give-up to be lost -/
theorem closed_loop_da_at_most_once {req : Dgram} (hr : SReq req) (s0 : Server) (hq : SQuiet s0 req) (hp : s0.pers = .da)
    (hm : (s0.txMid + 1) % 65536 ≠ req.mid) (c0 : Client) (hidle : c0.L = Idle) (hfresh : fresh c0 (respFor s0 req))
    (now0 T Δ : Nat) (pre post : List SysEv) (hok : (Sys.start c0 s0 now0 req T).RunOk Δ (pre ++ post))
    (hea : ∃ e ∈ pre, isEAckS req e) (hno : nNack ((Sys.start c0 s0 now0 req T).run pre).2 = 0) :
    nRsp ((Sys.start c0 s0 now0 req T).run (pre ++ post)).2 + nNack ((Sys.start c0 s0 now0 req T).run (pre ++ post)).2 ≤ 1 := by
  obtain ⟨a1, _, a3, _⟩ := closed_loop_da hr s0 hq hp hm c0 hidle hfresh now0 T Δ (pre ++ post) hok
  have := a3 pre post rfl hea
  have hsplit : nNack ((Sys.start c0 s0 now0 req T).run (pre ++ post)).2 =
      nNack ((Sys.start c0 s0 now0 req T).run pre).2 + nNack (((Sys.start c0 s0 now0 req T).run pre).1.run post).2 := by
    rw [sys_run_append]; simp only [nNack_append]
  omega

/-- `da` whose message id COINCIDES with the request's (`txMid + 1 = req.mid`): the message is a piggybacked response
    (`Exchange` holds), so the conclusion of `exactly_once_closed_loop_partial` holds verbatim — partial for the same reason
    (`SysNoLate`). -/
theorem closed_loop_da_same_mid_partial {req : Dgram} (hr : SReq req) (s0 : Server) (hq : SQuiet s0 req) (hp : s0.pers = .da)
    (hm : (s0.txMid + 1) % 65536 = req.mid) (c0 : Client) (hidle : c0.L = Idle) (hfresh : fresh c0 (respFor s0 req))
    (now0 T Δ : Nat) (es : List SysEv) (hok : (Sys.start c0 s0 now0 req T).RunOk Δ es)
    (hlate : SysNoLate (respFor s0 req) (Sys.start c0 s0 now0 req T) es) :
    nRsp ((Sys.start c0 s0 now0 req T).run es).2 + nNack ((Sys.start c0 s0 now0 req T).run es).2 ≤ 1 ∧
    (((Sys.start c0 s0 now0 req T).run es).1.c.L.sendq = [] →
      nRsp ((Sys.start c0 s0 now0 req T).run es).2 + nNack ((Sys.start c0 s0 now0 req T).run es).2 = 1 ∨
      ∀ e ∈ es, ¬ isRspS (respFor s0 req) e) := by
  have X : Exchange req (respFor s0 req) := by
    refine ⟨hr.hcon, ?_, ?_, ?_, ?_⟩ <;> simp [respFor, hp, isResponse]
    exact hm
  obtain ⟨ph', hj, h1, h2, h3⟩ := sys_run X hr hq rfl Δ es .waiting _
    (start_J hr hq c0 hidle hfresh now0 T) hok hlate (fun h => by cases h)
  exact conclude_of_phase hj h1 h2 h3

/-! ### transferred to the harness loop `Sim.run` (through `sim_run_is_sys_run`) -/

theorem nDelivered_erase (r : Dgram) (es : List SysEv) : nDelivered r (es.map SysEv.erase) = nDelivered r es := by
  unfold nDelivered
  rw [List.countP_map]
  congr 1
  funext e
  cases e <;> rfl

theorem isEAckS_erase (req : Dgram) (e : SysEv) : isEAckS req e.erase ↔ isEAckS req e := by cases e <;> exact Iff.rfl

theorem exists_erase {p : SysEv → Prop} (hp : ∀ e, p e.erase ↔ p e) (es : List SysEv) :
    (∃ e ∈ es, p e) → ∃ e ∈ es.map SysEv.erase, p e := by
  rintro ⟨e, he, h⟩
  exact ⟨e.erase, List.mem_map.mpr ⟨e, he, rfl⟩, (hp e).mpr h⟩

/-- **`closed_loop_dn` read on `Sim.run`**: one Confirmable request to a `dn+` server, every scripted delay below `Δ`: the
    trace gains exactly one `rsp@` entry per delivery of the NON response among the events of the run, at most one `nack@`
    entry, and when the client is quiet at the end it holds a `nack@`, an `rsp@`, or a copy of the Empty ACK was delivered -/
theorem sim_closed_loop_dn {Δ : Nat} {sim : Sim} (h : SimStart Δ sim) (hp : sim.s.pers = .dn) (fuel : Nat) :
    simRsp (Sim.run (fuel + 1) sim) =
      simRsp sim + nDelivered (respFor sim.s (firstReq sim)) (simEvents fuel (firstSend sim)) ∧
    simNack (Sim.run (fuel + 1) sim) ≤ simNack sim + 1 ∧
    ((Sim.run (fuel + 1) sim).c.L.sendq = [] →
      simNack (Sim.run (fuel + 1) sim) = simNack sim + 1 ∨ simRsp sim + 1 ≤ simRsp (Sim.run (fuel + 1) sim) ∨
      ∃ e ∈ simEvents fuel (firstSend sim), isEAckS (firstReq sim) e) := by
  obtain ⟨_, es, a1, a2, a3, a4, a5⟩ := sim_run_is_sys_run h fuel
  obtain ⟨b1, b2, _, b4⟩ := closed_loop_dn h.hreq sim.s h.hq hp sim.c h.hc sim.now sim.cT Δ es a2
  rw [← a1, nDelivered_erase]
  refine ⟨by omega, by omega, fun hq => ?_⟩
  rw [← a3.hc] at hq
  rcases b4 hq with b | b | b
  · left; omega
  · right; left; omega
  · right; right; exact exists_erase (isEAckS_erase _) es b

/-- **`closed_loop_dn_never_both` read on `Sim.run`** (no response copy delivered after the NACK among the events of the run):
    a `nack@` entry excludes any `rsp@` entry -/
theorem sim_closed_loop_dn_never_both {Δ : Nat} {sim : Sim} (h : SimStart Δ sim) (hp : sim.s.pers = .dn) (fuel : Nat)
    (hlate : SysNoLate (respFor sim.s (firstReq sim)) (Sys.start sim.c sim.s sim.now (firstReq sim) sim.cT)
      (simEvents fuel (firstSend sim))) :
    simNack (Sim.run (fuel + 1) sim) = simNack sim + 1 → simRsp (Sim.run (fuel + 1) sim) = simRsp sim := by
  obtain ⟨_, es, a1, a2, a3, a4, a5⟩ := sim_run_is_sys_run h fuel
  have hl : SysNoLate (respFor sim.s (firstReq sim)) (Sys.start sim.c sim.s sim.now (firstReq sim) sim.cT) es := by
    rw [← a1] at hlate; exact (sysNoLate_erase _ es _).mp hlate
  intro hk
  have := closed_loop_dn_never_both h.hreq sim.s h.hq hp sim.c h.hc sim.now sim.cT Δ es a2 hl (by omega)
  omega

/-- **`closed_loop_da` read on `Sim.run`**: `da+` server whose response message id differs from the request's: at most one
    `rsp@` entry — exactly one iff a copy of the response is delivered among the events of the run —, at most one `nack@`
    entry, and a quiet client has a `nack@` entry or received a copy of the Empty ACK -/
theorem sim_closed_loop_da {Δ : Nat} {sim : Sim} (h : SimStart Δ sim) (hp : sim.s.pers = .da)
    (hm : (sim.s.txMid + 1) % 65536 ≠ (firstReq sim).mid) (hfresh : fresh sim.c (respFor sim.s (firstReq sim)))
    (fuel : Nat) :
    simRsp (Sim.run (fuel + 1) sim) =
      simRsp sim + min 1 (nDelivered (respFor sim.s (firstReq sim)) (simEvents fuel (firstSend sim))) ∧
    simNack (Sim.run (fuel + 1) sim) ≤ simNack sim + 1 ∧
    ((Sim.run (fuel + 1) sim).c.L.sendq = [] →
      simNack (Sim.run (fuel + 1) sim) = simNack sim + 1 ∨
      ∃ e ∈ simEvents fuel (firstSend sim), isEAckS (firstReq sim) e) := by
  obtain ⟨_, es, a1, a2, a3, a4, a5⟩ := sim_run_is_sys_run h fuel
  obtain ⟨b1, b2, _, b4⟩ := closed_loop_da h.hreq sim.s h.hq hp hm sim.c h.hc hfresh sim.now sim.cT Δ es a2
  rw [← a1, nDelivered_erase]
  refine ⟨by omega, by omega, fun hq => ?_⟩
  rw [← a3.hc] at hq
  rcases b4 hq with b | b
  · left; omega
  · right; exact exists_erase (isEAckS_erase _) es b

/-! ### the hypotheses are satisfiable (concrete non-trivial instances, by evaluation) -/

/-- `closed_loop_dn`: Empty ACK, then the NON response delivered twice ⇒ two handler calls, no NACK; splitting before the
    second copy, the prefix contains a delivery of the response -/
example :
    let r := respFor wDn wReq
    let pre : List SysEv := [.toS 1000 1100 wReq, .toC 1100 1200 (emptyAck 1001) true, .sApp 1400, .toC 1400 1500 r true]
    let post : List SysEv := [.toC 1400 1600 r true, .cTick 3000]
    SReq wReq ∧ SQuiet wDn wReq ∧ wDn.pers = .dn ∧
    (Sys.start {} wDn 1000 wReq 2000).RunOk ackTimeout (pre ++ post) ∧ (∃ e ∈ pre, isRspS r e) ∧
    nDelivered r (pre ++ post) = 2 ∧ nRsp ((Sys.start {} wDn 1000 wReq 2000).run (pre ++ post)).2 = 2 ∧
    (∃ e ∈ pre ++ post, isEAckS wReq e) := by
  refine ⟨⟨by decide, by decide⟩, ⟨by decide, by decide, by decide, by decide, by decide⟩, by decide, by decide, by decide,
    by decide, by decide, by decide⟩

/-- `closed_loop_dn_never_both`: every datagram lost ⇒ `SysNoLate` holds, one NACK, no handler call, client quiet -/
example :
    let es : List SysEv := [.cTick 3000, .cTick 7000, .cTick 15000, .cTick 31000, .cTick 63000]
    (Sys.start {} wDn 1000 wReq 2000).RunOk ackTimeout es ∧
    SysNoLate (respFor wDn wReq) (Sys.start {} wDn 1000 wReq 2000) es ∧
    nNack ((Sys.start {} wDn 1000 wReq 2000).run es).2 = 1 ∧ nRsp ((Sys.start {} wDn 1000 wReq 2000).run es).2 = 0 ∧
    ((Sys.start {} wDn 1000 wReq 2000).run es).1.c.L.sendq = [] := by
  refine ⟨by decide, by decide, by decide, by decide, by decide⟩

/-- `closed_loop_da` / `closed_loop_da_both_iff`: the run of `da_response_then_nack_witness` — foreign message id, a copy of
    the response delivered, no Empty ACK delivered, the request given up ⇒ both -/
example :
    let r := respFor wDa wReq
    let es : List SysEv := [.toS 1000 1100 wReq, .sApp 1400, .toC 1400 1500 r true,
                            .cTick 3000, .cTick 7000, .cTick 15000, .cTick 31000, .cTick 63000]
    SReq wReq ∧ SQuiet wDa wReq ∧ wDa.pers = .da ∧ (wDa.txMid + 1) % 65536 ≠ wReq.mid ∧ fresh {} r ∧
    (Sys.start {} wDa 1000 wReq 2000).RunOk ackTimeout es ∧ (∃ e ∈ es, isRspS r e) ∧ ¬ (∃ e ∈ es, isEAckS wReq e) ∧
    nRsp ((Sys.start {} wDa 1000 wReq 2000).run es).2 = 1 ∧ nNack ((Sys.start {} wDa 1000 wReq 2000).run es).2 = 1 := by
  refine ⟨⟨by decide, by decide⟩, ⟨by decide, by decide, by decide, by decide, by decide⟩, by decide, by decide,
    ⟨fun _ => by decide, fun _ => by decide⟩, by decide, by decide, by decide, by decide, by decide⟩

/-- `closed_loop_da_at_most_once`: the Empty ACK is delivered before any give-up ⇒ one conclusion (the response, delivered
    twice, handed to the application once) -/
example :
    let r := respFor wDa wReq
    let pre : List SysEv := [.toS 1000 1100 wReq, .toC 1100 1200 (emptyAck 1001) true]
    let post : List SysEv := [.sApp 1400, .toC 1400 1500 r true, .toC 1400 1600 r true, .cTick 3000, .cTick 63000]
    (Sys.start {} wDa 1000 wReq 2000).RunOk ackTimeout (pre ++ post) ∧ (∃ e ∈ pre, isEAckS wReq e) ∧
    nNack ((Sys.start {} wDa 1000 wReq 2000).run pre).2 = 0 ∧ nDelivered r (pre ++ post) = 2 ∧
    nRsp ((Sys.start {} wDa 1000 wReq 2000).run (pre ++ post)).2 = 1 ∧
    nNack ((Sys.start {} wDa 1000 wReq 2000).run (pre ++ post)).2 = 0 := by
  refine ⟨by decide, by decide, by decide, by decide, by decide, by decide⟩

/-- `closed_loop_da_same_mid_partial`: the server's next message id happens to be the request's -/
def wDaS : Server := { pers := .da, dedup := true, D := 300, T := 2500, txMid := 1000 }

example :
    let r := respFor wDaS wReq
    let es : List SysEv := [.toS 1000 1100 wReq, .sApp 1400, .toC 1400 1500 r true, .cTick 3000]
    SQuiet wDaS wReq ∧ (wDaS.txMid + 1) % 65536 = wReq.mid ∧ fresh {} r ∧
    (Sys.start {} wDaS 1000 wReq 2000).RunOk ackTimeout es ∧ SysNoLate r (Sys.start {} wDaS 1000 wReq 2000) es ∧
    nRsp ((Sys.start {} wDaS 1000 wReq 2000).run es).2 = 1 ∧ nNack ((Sys.start {} wDaS 1000 wReq 2000).run es).2 = 0 ∧
    ((Sys.start {} wDaS 1000 wReq 2000).run es).1.c.L.sendq = [] := by
  refine ⟨⟨by decide, by decide, by decide, by decide, by decide⟩, by decide, ⟨fun _ => by decide, fun _ => by decide⟩,
    by decide, by decide, by decide, by decide, by decide⟩

/-- `sim_closed_loop_dn`: `xchg dn+ 300 1000 5000 … q C1 - d100,d100,u100+300` — request and Empty ACK delivered, the NON
    response duplicated: two `rsp@` entries, two deliveries among the events of the run -/
def wSimDn : Sim :=
  { s := wDn, cT := 2000, cmid := 1000, eager := false,
    fates := [.deliver 100, .deliver 100, .dup 100 300], verdicts := [],
    reqs := [{ con := true, method := 1, token := [0xc0, 7] }] }

set_option maxRecDepth 8000 in
example :
    SimStart ackTimeout wSimDn ∧ wSimDn.s.pers = .dn ∧
    nDelivered (respFor wSimDn.s (firstReq wSimDn)) (simEvents 30 (firstSend wSimDn)) = 2 ∧
    simRsp (Sim.run 31 wSimDn) = 2 ∧ simNack (Sim.run 31 wSimDn) = 0 ∧ (Sim.run 31 wSimDn).c.L.sendq = [] := by
  refine ⟨⟨by decide, by decide, rfl, rfl, rfl, rfl, ⟨by decide, by decide⟩, ⟨by decide, by decide, by decide, by decide, by decide⟩⟩,
    by decide, by decide, by decide, by decide, by decide⟩

/-- `sim_closed_loop_da`: `xchg da+ 300 1000 5000 … q C1 - d100,x,d100,x,x,x,x` — the Empty ACK and every retransmission
    lost, the ACK-typed response delivered: one `rsp@` AND one `nack@` entry (O5) -/
def wSimDa : Sim :=
  { s := wDa, cT := 2000, cmid := 1000, eager := false,
    fates := [.deliver 100, .drop, .deliver 100, .drop, .drop, .drop, .drop], verdicts := [],
    reqs := [{ con := true, method := 1, token := [0xc0, 7] }] }

set_option maxRecDepth 8000 in
example :
    SimStart ackTimeout wSimDa ∧ wSimDa.s.pers = .da ∧ (wSimDa.s.txMid + 1) % 65536 ≠ (firstReq wSimDa).mid ∧
    fresh wSimDa.c (respFor wSimDa.s (firstReq wSimDa)) ∧
    nDelivered (respFor wSimDa.s (firstReq wSimDa)) (simEvents 40 (firstSend wSimDa)) = 1 ∧
    simRsp (Sim.run 41 wSimDa) = 1 ∧ simNack (Sim.run 41 wSimDa) = 1 ∧ (Sim.run 41 wSimDa).c.L.sendq = [] := by
  refine ⟨⟨by decide, by decide, rfl, rfl, rfl, rfl, ⟨by decide, by decide⟩, ⟨by decide, by decide, by decide, by decide, by decide⟩⟩,
    by decide, by decide, ⟨fun _ => by decide, fun _ => by decide⟩, by decide, by decide, by decide, by decide⟩

end Coap.C07
