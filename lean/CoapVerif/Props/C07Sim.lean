import CoapVerif.Props.C07Late
/-
C07 — the harness loop `Sim.run` (what the driver executes and what is compared, trace for trace, with the real client
and server on every check) IS a run of the closed loop `Sys`: refinement theorem `sim_run_refines_sys` and the `Sys`
theorems transferred to `Sim.run`.
-/
namespace Coap.C07
open Coap.Exch

/-- every delay a fate imposes is below `Δ` -/
def fateOk (Δ : Nat) : Fate → Prop
  | .deliver d => d < Δ
  | .drop => True
  | .dup d1 d2 => d1 < Δ ∧ d2 < Δ

def isRspTr : Tr → Bool | .rsp _ _ _ => true | _ => false
def isNackTr : Tr → Bool | .nack _ _ _ => true | _ => false
/-- response-handler calls / NACK-handler calls recorded in the trace of the harness loop (`rsp@…` / `nack@…` entries) -/
def simRsp (sim : Sim) : Nat := sim.trace.countP isRspTr
def simNack (sim : Sim) : Nat := sim.trace.countP isNackTr

theorem transmit_spec (Δ : Nat) (hΔ : 0 < Δ) (sim : Sim) (hf : ∀ f ∈ sim.fates, fateOk Δ f) (tc : Bool) (d : Dgram) :
    (sim.transmit tc d).c = sim.c ∧ (sim.transmit tc d).s = sim.s ∧ (sim.transmit tc d).now = sim.now ∧
    (sim.transmit tc d).cur = sim.cur ∧ (sim.transmit tc d).reqs = sim.reqs ∧ (sim.transmit tc d).trace = sim.trace ∧
    (sim.transmit tc d).verdicts = sim.verdicts ∧
    (∀ f ∈ (sim.transmit tc d).fates, f ∈ sim.fates) ∧
    (∀ f ∈ (sim.transmit tc d).fly, f ∈ sim.fly ∨ (f.toClient = tc ∧ f.d = d ∧ sim.now ≤ f.arr ∧ f.arr < sim.now + Δ)) := by
  cases h : sim.fates with
  | nil =>
    simp [Sim.transmit, Sim.fateOf, h]
    intro f hf
    rcases hf with hf | hf
    · exact Or.inl hf
    · subst hf; exact Or.inr ⟨rfl, rfl, by simp, by simpa using hΔ⟩
  | cons ft r =>
    have hft := hf ft (by rw [h]; exact List.mem_cons_self ..)
    cases ft with
    | drop => simp [Sim.transmit, Sim.fateOf, h]; exact ⟨fun f hf => Or.inr hf, fun f hf => Or.inl hf⟩
    | deliver d1 =>
      simp [Sim.transmit, Sim.fateOf, h]
      refine ⟨fun f hf => Or.inr hf, ?_⟩
      intro f hf
      rcases hf with hf | hf
      · exact Or.inl hf
      · subst hf; exact Or.inr ⟨rfl, rfl, by simp, by simpa [fateOk] using hft⟩
    | dup d1 d2 =>
      simp [Sim.transmit, Sim.fateOf, h]
      refine ⟨fun f hf => Or.inr hf, ?_⟩
      intro f hf
      simp only [fateOk] at hft
      rcases hf with hf | hf | hf
      · exact Or.inl hf
      · subst hf; exact Or.inr ⟨rfl, rfl, by simp, by simpa using hft.1⟩
      · subst hf; exact Or.inr ⟨rfl, rfl, by simp, by simpa using hft.2⟩

theorem bumpReq_length (p : Req → Bool) (g : Req → Req) : ∀ rs : List Req, (Sim.bumpReq rs p g).length = rs.length := by
  intro rs
  induction rs with
  | nil => rfl
  | cons r t ih => by_cases h : p r <;> simp [Sim.bumpReq, h, ih]

theorem bumpRsp_length (rs : List Req) (cur : Option Nat) (tok : Bytes) : (Sim.bumpRsp rs cur tok).length = rs.length := by
  unfold Sim.bumpRsp
  split
  · split
    · split <;> simp [bumpReq_length]
    · simp [bumpReq_length]
  · simp [bumpReq_length]

/-- what absorbing the outputs `o` of one call (of the client: `tc = false`; of the server: `tc = true`) does to the
    harness state: endpoints, clock and application position untouched; fates consumed in order; the new flights are
    copies of the datagrams transmitted in `o`, each arriving less than `Δ` after now -/
structure Ext (Δ : Nat) (tc : Bool) (o : List Out) (sim sim' : Sim) : Prop where
  hc : sim'.c = sim.c
  hs : sim'.s = sim.s
  hnow : sim'.now = sim.now
  hcur : sim'.cur = sim.cur
  hlen : sim'.reqs.length = sim.reqs.length
  hfates : ∀ f ∈ sim'.fates, f ∈ sim.fates
  hfly : ∀ f ∈ sim'.fly, f ∈ sim.fly ∨ (f.toClient = tc ∧ Out.tx f.d ∈ o ∧ sim.now ≤ f.arr ∧ f.arr < sim.now + Δ)

theorem Ext.refl (Δ : Nat) (tc : Bool) (o : List Out) (sim : Sim) : Ext Δ tc o sim sim :=
  ⟨rfl, rfl, rfl, rfl, rfl, fun _ h => h, fun _ h => Or.inl h⟩

theorem Ext.cons {Δ : Nat} {tc : Bool} {x : Out} {os : List Out} {sim sim1 sim2 : Sim}
    (h1 : Ext Δ tc [x] sim sim1) (h2 : Ext Δ tc os sim1 sim2) : Ext Δ tc (x :: os) sim sim2 := by
  refine ⟨h2.hc.trans h1.hc, h2.hs.trans h1.hs, h2.hnow.trans h1.hnow, h2.hcur.trans h1.hcur, h2.hlen.trans h1.hlen,
    fun f hf => h1.hfates f (h2.hfates f hf), ?_⟩
  intro f hf
  rcases h2.hfly f hf with h | ⟨a, b, c, d⟩
  · rcases h1.hfly f h with h | ⟨a, b, c, d⟩
    · exact Or.inl h
    · refine Or.inr ⟨a, ?_, c, d⟩
      simp only [List.mem_singleton] at b
      rw [b]; exact List.mem_cons_self ..
  · rw [h1.hnow] at c d
    exact Or.inr ⟨a, List.mem_cons_of_mem _ b, c, d⟩

theorem Ext.append {Δ : Nat} {tc : Bool} {o1 o2 : List Out} {sim sim1 sim2 : Sim}
    (h1 : Ext Δ tc o1 sim sim1) (h2 : Ext Δ tc o2 sim1 sim2) : Ext Δ tc (o1 ++ o2) sim sim2 := by
  refine ⟨h2.hc.trans h1.hc, h2.hs.trans h1.hs, h2.hnow.trans h1.hnow, h2.hcur.trans h1.hcur, h2.hlen.trans h1.hlen,
    fun f hf => h1.hfates f (h2.hfates f hf), ?_⟩
  intro f hf
  rcases h2.hfly f hf with h | ⟨a, b, c, d⟩
  · rcases h1.hfly f h with h | ⟨a, b, c, d⟩
    · exact Or.inl h
    · exact Or.inr ⟨a, List.mem_append_left _ b, c, d⟩
  · rw [h1.hnow] at c d
    exact Or.inr ⟨a, List.mem_append_right _ b, c, d⟩

/-- the body of `Sim.clientOuts` / `Sim.serverOuts` for one output -/
def absorbC (sim : Sim) : Out → Sim
  | .tx d => (({ sim with trace := .ctx sim.now d :: sim.trace } : Sim).transmit false d)
  | .callResponse d ok =>
    { sim with trace := .rsp sim.now d ok :: sim.trace, verdicts := sim.verdicts.tail,
               reqs := Sim.bumpRsp sim.reqs sim.cur d.token }
  | .callNack r mid =>
    { sim with trace := .nack sim.now r mid :: sim.trace,
               reqs := Sim.bumpReq sim.reqs (fun q => q.sent && q.mid == mid) (fun q => { q with nnack := q.nnack + 1 }) }
  | .callRequest _ _ => sim
  | .unmodelled => { sim with trace := .unmodelled sim.now :: sim.trace }

def absorbS (sim : Sim) : Out → Sim
  | .tx d => (({ sim with trace := .stx sim.now d :: sim.trace } : Sim).transmit true d)
  | .callRequest mid tok => { sim with trace := .req sim.now mid tok :: sim.trace }
  | .callNack r mid => { sim with trace := .snack sim.now r mid :: sim.trace }
  | .callResponse _ _ => sim
  | .unmodelled => { sim with trace := .unmodelled sim.now :: sim.trace }

theorem clientOuts_cons (sim : Sim) (x : Out) (os : List Out) :
    sim.clientOuts (x :: os) = (absorbC sim x).clientOuts os := by
  cases x <;> rfl

theorem serverOuts_cons (sim : Sim) (x : Out) (os : List Out) :
    sim.serverOuts (x :: os) = (absorbS sim x).serverOuts os := by
  cases x <;> rfl

theorem absorbC_spec (Δ : Nat) (hΔ : 0 < Δ) (sim : Sim) (hf : ∀ f ∈ sim.fates, fateOk Δ f) (x : Out) :
    Ext Δ false [x] sim (absorbC sim x) ∧ simRsp (absorbC sim x) = simRsp sim + nRsp [x] ∧
    simNack (absorbC sim x) = simNack sim + nNack [x] := by
  cases x with
  | tx d =>
    obtain ⟨a1, a2, a3, a4, a5, a6, a7, a8, a9⟩ :=
      transmit_spec Δ hΔ ({ sim with trace := .ctx sim.now d :: sim.trace } : Sim) hf false d
    refine ⟨⟨a1, a2, a3, a4, by simp only [absorbC]; rw [a5], a8, ?_⟩, ?_, ?_⟩
    · intro f hf
      rcases a9 f hf with h | ⟨b1, b2, b3, b4⟩
      · exact Or.inl h
      · exact Or.inr ⟨b1, by rw [b2]; exact List.mem_singleton.mpr rfl, b3, b4⟩
    · simp [absorbC, simRsp, a6, isRspTr]
    · simp [absorbC, simNack, a6, isNackTr]
  | callResponse d ok =>
    refine ⟨⟨rfl, rfl, rfl, rfl, bumpRsp_length .., fun _ h => h, fun _ h => Or.inl h⟩, ?_, ?_⟩
    · simp [absorbC, simRsp, List.countP_cons, isRspTr]
    · simp [absorbC, simNack, List.countP_cons, isNackTr]
  | callNack r mid =>
    refine ⟨⟨rfl, rfl, rfl, rfl, bumpReq_length .., fun _ h => h, fun _ h => Or.inl h⟩, ?_, ?_⟩
    · simp [absorbC, simRsp, List.countP_cons, isRspTr]
    · simp [absorbC, simNack, List.countP_cons, isNackTr]
  | callRequest m t => exact ⟨Ext.refl .., by simp [absorbC, nRsp], by simp [absorbC, nNack]⟩
  | unmodelled =>
    refine ⟨⟨rfl, rfl, rfl, rfl, rfl, fun _ h => h, fun _ h => Or.inl h⟩, ?_, ?_⟩
    · simp [absorbC, simRsp, isRspTr, nRsp]
    · simp [absorbC, simNack, isNackTr, nNack]

theorem absorbS_spec (Δ : Nat) (hΔ : 0 < Δ) (sim : Sim) (hf : ∀ f ∈ sim.fates, fateOk Δ f) (x : Out) :
    Ext Δ true [x] sim (absorbS sim x) ∧ simRsp (absorbS sim x) = simRsp sim ∧ simNack (absorbS sim x) = simNack sim := by
  cases x with
  | tx d =>
    obtain ⟨a1, a2, a3, a4, a5, a6, a7, a8, a9⟩ :=
      transmit_spec Δ hΔ ({ sim with trace := .stx sim.now d :: sim.trace } : Sim) hf true d
    refine ⟨⟨a1, a2, a3, a4, by simp only [absorbS]; rw [a5], a8, ?_⟩, ?_, ?_⟩
    · intro f hf
      rcases a9 f hf with h | ⟨b1, b2, b3, b4⟩
      · exact Or.inl h
      · exact Or.inr ⟨b1, by rw [b2]; exact List.mem_singleton.mpr rfl, b3, b4⟩
    · simp [absorbS, simRsp, a6, isRspTr]
    · simp [absorbS, simNack, a6, isNackTr]
  | callResponse d ok => exact ⟨Ext.refl .., rfl, rfl⟩
  | callNack r mid =>
    exact ⟨⟨rfl, rfl, rfl, rfl, rfl, fun _ h => h, fun _ h => Or.inl h⟩, by simp [absorbS, simRsp, isRspTr],
      by simp [absorbS, simNack, isNackTr]⟩
  | callRequest m t =>
    exact ⟨⟨rfl, rfl, rfl, rfl, rfl, fun _ h => h, fun _ h => Or.inl h⟩, by simp [absorbS, simRsp, isRspTr],
      by simp [absorbS, simNack, isNackTr]⟩
  | unmodelled =>
    exact ⟨⟨rfl, rfl, rfl, rfl, rfl, fun _ h => h, fun _ h => Or.inl h⟩, by simp [absorbS, simRsp, isRspTr],
      by simp [absorbS, simNack, isNackTr]⟩

theorem clientOuts_spec (Δ : Nat) (hΔ : 0 < Δ) : ∀ (o : List Out) (sim : Sim), (∀ f ∈ sim.fates, fateOk Δ f) →
    Ext Δ false o sim (sim.clientOuts o) ∧ simRsp (sim.clientOuts o) = simRsp sim + nRsp o ∧
    simNack (sim.clientOuts o) = simNack sim + nNack o := by
  intro o
  induction o with
  | nil => intro sim _; exact ⟨Ext.refl .., rfl, rfl⟩
  | cons x os ih =>
    intro sim hf
    obtain ⟨a1, a2, a3⟩ := absorbC_spec Δ hΔ sim hf x
    obtain ⟨c1, c2, c3⟩ := ih (absorbC sim x) (fun f h => hf f (a1.hfates f h))
    rw [clientOuts_cons]
    refine ⟨Ext.cons a1 c1, ?_, ?_⟩
    · rw [c2, a2, show x :: os = [x] ++ os from rfl, nRsp_append]; omega
    · rw [c3, a3, show x :: os = [x] ++ os from rfl, nNack_append]; omega

theorem serverOuts_spec (Δ : Nat) (hΔ : 0 < Δ) : ∀ (o : List Out) (sim : Sim), (∀ f ∈ sim.fates, fateOk Δ f) →
    Ext Δ true o sim (sim.serverOuts o) ∧ simRsp (sim.serverOuts o) = simRsp sim ∧
    simNack (sim.serverOuts o) = simNack sim := by
  intro o
  induction o with
  | nil => intro sim _; exact ⟨Ext.refl .., rfl, rfl⟩
  | cons x os ih =>
    intro sim hf
    obtain ⟨a1, a2, a3⟩ := absorbS_spec Δ hΔ sim hf x
    obtain ⟨c1, c2, c3⟩ := ih (absorbS sim x) (fun f h => hf f (a1.hfates f h))
    rw [serverOuts_cons]
    exact ⟨Ext.cons a1 c1, by rw [c2, a2], by rw [c3, a3]⟩

/-! ### the refinement relation -/

/-- `Sys` state `y` represents harness state `sim`: same client, same server, the clock of `y` not ahead, and every datagram
    in flight is a copy of a datagram logged as transmitted by the peer less than `Δ` before its arrival time, which is
    not in the past -/
structure Ref (Δ : Nat) (sim : Sim) (y : Sys) : Prop where
  hc : y.c = sim.c
  hs : y.s = sim.s
  hnow : y.now ≤ sim.now
  hfly : ∀ f ∈ sim.fly, sim.now ≤ f.arr ∧
    ∃ sent, (sent, f.d) ∈ (if f.toClient then y.sLog else y.cLog) ∧ f.arr < sent + Δ

/-- side conditions kept along a run of the harness loop: every remaining fate delays by less than `Δ`; the application
    has sent its last request (the closed loop `Sys` is the system of ONE exchange) -/
def Good (Δ : Nat) (sim : Sim) : Prop :=
  0 < Δ ∧ (∀ f ∈ sim.fates, fateOk Δ f) ∧ ∃ i, sim.cur = some i ∧ sim.reqs.length ≤ i + 1

/-- the harness absorbs one call of the client / of the server -/
def cAbs (sim : Sim) (e : CEvent) : Sim := ({ sim with c := (sim.c.step e).1 } : Sim).clientOuts (sim.c.step e).2
def sAbs (sim : Sim) (e : SEvent) : Sim := ({ sim with s := (sim.s.step e).1 } : Sim).serverOuts (sim.s.step e).2

theorem ref_cAbs {Δ : Nat} {sim : Sim} {y : Sys} (hr : Ref Δ sim y) (hg : Good Δ sim) (e : CEvent) :
    Ref Δ (cAbs sim e) (y.cStep sim.now e).1 ∧ Good Δ (cAbs sim e) ∧ (cAbs sim e).now = sim.now ∧
    simRsp (cAbs sim e) = simRsp sim + nRsp (y.cStep sim.now e).2 ∧
    simNack (cAbs sim e) = simNack sim + nNack (y.cStep sim.now e).2 := by
  obtain ⟨hΔ, hf, i, hi, hlen⟩ := hg
  obtain ⟨E, e1, e2⟩ := clientOuts_spec Δ hΔ (sim.c.step e).2 ({ sim with c := (sim.c.step e).1 } : Sim) hf
  have hyc : y.c.step e = sim.c.step e := by rw [hr.hc]
  refine ⟨⟨?_, ?_, ?_, ?_⟩, ⟨hΔ, fun f h => hf f (E.hfates f h), i, E.hcur.trans hi, Nat.le_trans (Nat.le_of_eq E.hlen) hlen⟩, E.hnow, ?_, ?_⟩
  · simp only [Sys.cStep, hyc]; exact E.hc.symm
  · simp only [Sys.cStep]; rw [hr.hs]; exact E.hs.symm
  · simp only [Sys.cStep]; exact Nat.le_of_eq E.hnow.symm
  · intro f hfl
    have hn : (cAbs sim e).now = sim.now := E.hnow
    rw [hn]
    rcases E.hfly f hfl with h | ⟨b1, b2, b3, b4⟩
    · obtain ⟨g1, sent, g2, g3⟩ := hr.hfly f h
      refine ⟨g1, sent, ?_, g3⟩
      simp only [Sys.cStep]
      by_cases htc : f.toClient = true
      · simpa [htc] using g2
      · simp only [htc] at g2 ⊢
        exact List.mem_append_left _ g2
    · refine ⟨b3, sim.now, ?_, b4⟩
      simp only [Sys.cStep, b1]
      refine List.mem_append_right _ (mem_txAt.mpr ⟨rfl, ?_⟩)
      rw [hyc]; exact b2
  · simp only [Sys.cStep, hyc]; exact e1
  · simp only [Sys.cStep, hyc]; exact e2

theorem ref_sAbs {Δ : Nat} {sim : Sim} {y : Sys} (hr : Ref Δ sim y) (hg : Good Δ sim) (e : SEvent) :
    Ref Δ (sAbs sim e) (y.sStep sim.now e).1 ∧ Good Δ (sAbs sim e) ∧ (sAbs sim e).now = sim.now ∧
    simRsp (sAbs sim e) = simRsp sim ∧ simNack (sAbs sim e) = simNack sim := by
  obtain ⟨hΔ, hf, i, hi, hlen⟩ := hg
  obtain ⟨E, e1, e2⟩ := serverOuts_spec Δ hΔ (sim.s.step e).2 ({ sim with s := (sim.s.step e).1 } : Sim) hf
  have hys : y.s.step e = sim.s.step e := by rw [hr.hs]
  refine ⟨⟨?_, ?_, ?_, ?_⟩, ⟨hΔ, fun f h => hf f (E.hfates f h), i, E.hcur.trans hi, Nat.le_trans (Nat.le_of_eq E.hlen) hlen⟩, E.hnow, e1, e2⟩
  · simp only [Sys.sStep]; rw [hr.hc]; exact E.hc.symm
  · simp only [Sys.sStep, hys]; exact E.hs.symm
  · simp only [Sys.sStep]; exact Nat.le_of_eq E.hnow.symm
  · intro f hfl
    have hn : (sAbs sim e).now = sim.now := E.hnow
    rw [hn]
    rcases E.hfly f hfl with h | ⟨b1, b2, b3, b4⟩
    · obtain ⟨g1, sent, g2, g3⟩ := hr.hfly f h
      refine ⟨g1, sent, ?_, g3⟩
      simp only [Sys.sStep]
      by_cases htc : f.toClient = true
      · simp only [htc, if_true] at g2 ⊢
        exact List.mem_append_left _ g2
      · simpa [htc] using g2
    · refine ⟨b3, sim.now, ?_, b4⟩
      simp only [Sys.sStep, b1, if_true]
      refine List.mem_append_right _ (mem_txAt.mpr ⟨rfl, ?_⟩)
      rw [hys]; exact b2

/-! ### the iterations of the harness loop, branch by branch -/

def rmFlight (sim : Sim) (f : Flight) : Sim :=
  { sim with fly := sim.fly.filter (fun g => !(g.seq == f.seq && g.copy == f.copy)) }

def rxSimC (sim : Sim) (f : Flight) : Sim := { rmFlight sim f with trace := .crx sim.now f.d :: sim.trace }
def rxSimS (sim : Sim) (f : Flight) : Sim := { rmFlight sim f with trace := .srx sim.now f.d :: sim.trace }

/-- iteration "deliver to the client": `rx`, then the client's timer -/
def iterC (sim : Sim) (f : Flight) : Sim :=
  let sim2 := cAbs (rxSimC sim f) (.rx sim.now f.d sim.nextVerdict)
  cAbs sim2 (.tick sim2.now)

/-- iteration "deliver to the server": `rx`, then the server's timer -/
def iterS (sim : Sim) (f : Flight) : Sim :=
  let sim2 := sAbs (rxSimS sim f) (.rx sim.now f.d)
  sAbs sim2 (.tick sim2.now)

theorem iter_toC (sim : Sim) (f : Flight) (h : sim.pickFlight = some f) (htc : f.toClient = true) :
    sim.iter = some (iterC sim f) := by
  unfold Sim.iter
  rw [h]
  simp only [htc, if_true]
  rfl

theorem iter_toS (sim : Sim) (f : Flight) (h : sim.pickFlight = some f) (htc : f.toClient = false) :
    sim.iter = some (iterS sim f) := by
  unfold Sim.iter
  rw [h]
  simp only [htc]
  rfl

def timersDue (sim : Sim) : Bool :=
  Sim.dueLe sim.c.L.nextDue sim.now || (Sim.dueLe sim.s.L.nextDue sim.now || Sim.dueLe sim.s.asyncDue sim.now) ||
    Sim.dueLe sim.s.pendDue sim.now

/-- iteration "timers due now": client, server, all due application timers -/
def iterT (sim : Sim) : Sim :=
  let sim1 := if Sim.dueLe sim.c.L.nextDue sim.now then cAbs sim (.tick sim.now) else sim
  let sim2 := if Sim.dueLe sim.s.L.nextDue sim.now || Sim.dueLe sim.s.asyncDue sim.now then sAbs sim1 (.tick sim1.now) else sim1
  if Sim.dueLe sim.s.pendDue sim.now then Sim.iter.apps (sim2.s.pend.length + 1) sim2 else sim2

theorem iter_timers (sim : Sim) (h : sim.pickFlight = none) (hd : timersDue sim = true) :
    sim.iter = some (iterT sim) := by
  unfold Sim.iter
  rw [h]
  unfold timersDue at hd
  simp only [hd, if_true]
  rfl

theorem apps_succ (fuel : Nat) (sim : Sim) :
    Sim.iter.apps (fuel + 1) sim =
      match sim.s.appTimer sim.now with
      | none => sim
      | some _ => Sim.iter.apps fuel (sAbs sim (.app sim.now)) := by
  rw [Sim.iter.apps]
  cases h : sim.s.appTimer sim.now with
  | none => rfl
  | some p => simp only [sAbs, Server.step, h, Option.getD_some]

theorem iter_clock (sim : Sim) (h : sim.pickFlight = none) (hd : timersDue sim = false)
    (i : Nat) (hi : sim.cur = some i) (hlen : sim.reqs.length ≤ i + 1) :
    sim.iter = match sim.nextTime with
      | none => none
      | some t => if t ≤ sim.now then none else some { sim with now := t } := by
  unfold Sim.iter
  rw [h]
  unfold timersDue at hd
  have hn : ¬ (i + 1 < sim.reqs.length) := by omega
  simp only [hd, hi, hn, decide_false, Bool.and_false, Bool.false_eq_true, if_false]
  rw [← hi]
  rfl

/-! ### the events of a run of the harness loop, as events of `Sys` -/

/-- forget the (ghost) transmission time carried by a delivery event; `Sys.step` does not look at it -/
def SysEv.erase : SysEv → SysEv
  | .toS _ now d => .toS 0 now d
  | .toC _ now d ok => .toC 0 now d ok
  | e => e

theorem step_erase (y : Sys) (e : SysEv) : y.step e.erase = y.step e := by cases e <;> rfl

theorem run_erase : ∀ (es : List SysEv) (y : Sys), y.run (es.map SysEv.erase) = y.run es := by
  intro es
  induction es with
  | nil => intro y; rfl
  | cons e es ih => intro y; simp only [List.map_cons, Sys.run_cons, step_erase, ih]

theorem isRspS_erase (r : Dgram) (e : SysEv) : isRspS r e.erase ↔ isRspS r e := by cases e <;> exact Iff.rfl

theorem sysNoLate_erase (r : Dgram) : ∀ (es : List SysEv) (y : Sys),
    SysNoLate r y (es.map SysEv.erase) ↔ SysNoLate r y es := by
  intro es
  induction es with
  | nil => intro y; exact Iff.rfl
  | cons e es ih =>
    intro y
    simp only [List.map_cons, SysNoLate, step_erase, ih]
    constructor
    · rintro ⟨h1, h2⟩
      exact ⟨fun hn e' he' hi => h1 hn _ (List.mem_map_of_mem he') ((isRspS_erase r e').mpr hi), h2⟩
    · rintro ⟨h1, h2⟩
      refine ⟨fun hn e' he' => ?_, h2⟩
      obtain ⟨e'', he'', rfl⟩ := List.mem_map.mp he'
      exact fun hi => h1 hn e'' he'' ((isRspS_erase r e'').mp hi)

theorem sys_run_append : ∀ (es1 es2 : List SysEv) (y : Sys),
    y.run (es1 ++ es2) = (((y.run es1).1.run es2).1, (y.run es1).2 ++ ((y.run es1).1.run es2).2) := by
  intro es1
  induction es1 with
  | nil => intro es2 y; simp [Sys.run]
  | cons e es ih => intro es2 y; simp only [List.cons_append, Sys.run_cons, ih, List.append_assoc]

theorem runOk_append (Δ : Nat) : ∀ (es1 es2 : List SysEv) (y : Sys),
    y.RunOk Δ (es1 ++ es2) ↔ y.RunOk Δ es1 ∧ (y.run es1).1.RunOk Δ es2 := by
  intro es1
  induction es1 with
  | nil => intro es2 y; simp [Sys.RunOk, Sys.run]
  | cons e es ih => intro es2 y; simp only [List.cons_append, Sys.RunOk, Sys.run_cons, ih, and_assoc]

/-- application timers run by one iteration -/
def appsEv : Nat → Sim → List SysEv
  | 0, _ => []
  | fuel + 1, sim =>
    match sim.s.appTimer sim.now with
    | none => []
    | some _ => .sApp sim.now :: appsEv fuel (sAbs sim (.app sim.now))

/-- the `Sys` events of one iteration of the harness loop (delivery events with the transmission time erased) -/
def iterEvents (sim : Sim) : List SysEv :=
  match sim.pickFlight with
  | some f =>
    if f.toClient then [.toC 0 sim.now f.d sim.nextVerdict, .cTick sim.now] else [.toS 0 sim.now f.d, .sTick sim.now]
  | none =>
    if timersDue sim then
      let sim1 := if Sim.dueLe sim.c.L.nextDue sim.now then cAbs sim (.tick sim.now) else sim
      let sim2 := if Sim.dueLe sim.s.L.nextDue sim.now || Sim.dueLe sim.s.asyncDue sim.now then sAbs sim1 (.tick sim1.now) else sim1
      (if Sim.dueLe sim.c.L.nextDue sim.now then [.cTick sim.now] else []) ++
      ((if Sim.dueLe sim.s.L.nextDue sim.now || Sim.dueLe sim.s.asyncDue sim.now then [.sTick sim.now] else []) ++
       (if Sim.dueLe sim.s.pendDue sim.now then appsEv (sim2.s.pend.length + 1) sim2 else []))
    else []

/-- the `Sys` events of a run of the harness loop -/
def simEvents : Nat → Sim → List SysEv
  | 0, _ => []
  | fuel + 1, sim =>
    match sim.iter with
    | none => []
    | some s' => iterEvents sim ++ simEvents fuel s'

/-- `sim'` is reached from `sim` by harness steps that are the `Sys` events `ev` from any `Sys` state representing `sim` -/
structure Step (Δ : Nat) (sim : Sim) (y : Sys) (sim' : Sim) (ev : List SysEv) : Prop where
  ex : ∃ es, es.map SysEv.erase = ev ∧ y.RunOk Δ es ∧ Ref Δ sim' (y.run es).1 ∧
        simRsp sim' = simRsp sim + nRsp (y.run es).2 ∧ simNack sim' = simNack sim + nNack (y.run es).2
  good : Good Δ sim'

theorem Step.refl {Δ : Nat} {sim : Sim} {y : Sys} (hr : Ref Δ sim y) (hg : Good Δ sim) : Step Δ sim y sim [] :=
  ⟨⟨[], rfl, trivial, hr, rfl, rfl⟩, hg⟩

theorem Step.trans {Δ : Nat} {sim sim1 sim2 : Sim} {y : Sys} {ev1 ev2 : List SysEv}
    (h1 : Step Δ sim y sim1 ev1) (h2 : ∀ y1, Ref Δ sim1 y1 → Step Δ sim1 y1 sim2 ev2) :
    Step Δ sim y sim2 (ev1 ++ ev2) := by
  obtain ⟨⟨es1, a1, a2, a3, a4, a5⟩, _⟩ := h1
  obtain ⟨⟨es2, b1, b2, b3, b4, b5⟩, hg2⟩ := h2 _ a3
  refine ⟨⟨es1 ++ es2, by rw [List.map_append, a1, b1], (runOk_append Δ es1 es2 y).mpr ⟨a2, b2⟩, ?_, ?_, ?_⟩, hg2⟩
  · rw [sys_run_append]; exact b3
  · rw [sys_run_append]; simp only [nRsp_append]; omega
  · rw [sys_run_append]; simp only [nNack_append]; omega

theorem Step.of_eq {Δ : Nat} {sim sim' sim'' : Sim} {y : Sys} {ev ev' : List SysEv}
    (h : Step Δ sim y sim' ev) (h1 : sim' = sim'') (h2 : ev = ev') : Step Δ sim y sim'' ev' := by
  subst h1; subst h2; exact h

/-- one call of the client is one event of `Sys` -/
theorem step_cev {Δ : Nat} {sim : Sim} {y : Sys} (hr : Ref Δ sim y) (hg : Good Δ sim) (e : CEvent) (se : SysEv)
    (hse : y.step se = y.cStep sim.now e) (hnet : y.Net Δ se) : Step Δ sim y (cAbs sim e) [se.erase] := by
  obtain ⟨a1, a2, _, a4, a5⟩ := ref_cAbs hr hg e
  refine ⟨⟨[se], rfl, ⟨hnet, trivial⟩, ?_, ?_, ?_⟩, a2⟩
  · simp only [Sys.run, hse]; exact a1
  · simp only [Sys.run, hse, List.append_nil]; exact a4
  · simp only [Sys.run, hse, List.append_nil]; exact a5

/-- one call of the server is one event of `Sys` -/
theorem step_sev {Δ : Nat} {sim : Sim} {y : Sys} (hr : Ref Δ sim y) (hg : Good Δ sim) (e : SEvent) (se : SysEv)
    (hse : y.step se = y.sStep sim.now e) (hnet : y.Net Δ se) : Step Δ sim y (sAbs sim e) [se.erase] := by
  obtain ⟨a1, a2, _, a4, a5⟩ := ref_sAbs hr hg e
  refine ⟨⟨[se], rfl, ⟨hnet, trivial⟩, ?_, ?_, ?_⟩, a2⟩
  · simp only [Sys.run, hse]; exact a1
  · simp only [Sys.run, hse, Sys.sStep, List.append_nil, nRsp_nil]; exact a4
  · simp only [Sys.run, hse, Sys.sStep, List.append_nil, nNack_nil]; exact a5

theorem cAbs_now {Δ : Nat} {sim : Sim} (hg : Good Δ sim) (e : CEvent) : (cAbs sim e).now = sim.now :=
  (clientOuts_spec Δ hg.1 _ ({ sim with c := (sim.c.step e).1 } : Sim) hg.2.1).1.hnow

theorem sAbs_now {Δ : Nat} {sim : Sim} (hg : Good Δ sim) (e : SEvent) : (sAbs sim e).now = sim.now :=
  (serverOuts_spec Δ hg.1 _ ({ sim with s := (sim.s.step e).1 } : Sim) hg.2.1).1.hnow

/-! ### which flight is delivered, and how far the clock advances -/

theorem pick_fold_mem : ∀ (l : List Flight) (b : Option Flight) (f : Flight),
    l.foldl (fun b f => match b with | none => some f | some g => if Sim.flightLt f g then some f else some g) b = some f →
    b = some f ∨ f ∈ l := by
  intro l
  induction l with
  | nil => intro b f h; exact Or.inl h
  | cons x l ih =>
    intro b f h
    simp only [List.foldl_cons] at h
    rcases ih _ f h with h1 | h1
    · cases b with
      | none => simp only [Option.some.injEq] at h1; exact Or.inr (by rw [h1]; exact List.mem_cons_self ..)
      | some g =>
        by_cases hlt : Sim.flightLt x g = true
        · simp only [hlt, if_true, Option.some.injEq] at h1; exact Or.inr (by rw [h1]; exact List.mem_cons_self ..)
        · simp only [hlt] at h1; exact Or.inl h1
    · exact Or.inr (List.mem_cons_of_mem _ h1)

theorem pickFlight_mem {sim : Sim} {f : Flight} (h : sim.pickFlight = some f) : f ∈ sim.fly ∧ f.arr ≤ sim.now := by
  unfold Sim.pickFlight at h
  rcases pick_fold_mem _ _ f h with h1 | h1
  · cases h1
  · have := List.mem_filter.mp h1
    exact ⟨this.1, by simpa using this.2⟩

theorem omin_some_left (x : Nat) (b : Option Nat) : ∃ z, Sim.omin (some x) b = some z ∧ z ≤ x := by
  cases b with
  | none => exact ⟨x, rfl, Nat.le_refl _⟩
  | some y => exact ⟨min x y, rfl, Nat.min_le_left ..⟩

theorem omin_some_right (a : Option Nat) (y : Nat) : ∃ z, Sim.omin a (some y) = some z ∧ z ≤ y := by
  cases a with
  | none => exact ⟨y, rfl, Nat.le_refl _⟩
  | some x => exact ⟨min x y, rfl, Nat.min_le_right ..⟩

theorem arr_fold_init : ∀ (l : List Flight) (x : Nat),
    ∃ m, l.foldl (fun b (g : Flight) => Sim.omin b (some g.arr)) (some x) = some m ∧ m ≤ x := by
  intro l
  induction l with
  | nil => intro x; exact ⟨x, rfl, Nat.le_refl _⟩
  | cons g l ih =>
    intro x
    obtain ⟨z, hz, hzx⟩ := omin_some_left x (some g.arr)
    obtain ⟨m, hm, hmz⟩ := ih z
    exact ⟨m, by simp only [List.foldl_cons, hz, hm], Nat.le_trans hmz hzx⟩

theorem arr_fold_mem : ∀ (l : List Flight) (b : Option Nat) (f : Flight), f ∈ l →
    ∃ m, l.foldl (fun b (g : Flight) => Sim.omin b (some g.arr)) b = some m ∧ m ≤ f.arr := by
  intro l
  induction l with
  | nil => intro b f h; cases h
  | cons g l ih =>
    intro b f h
    rcases List.mem_cons.mp h with rfl | h
    · obtain ⟨z, hz, hzx⟩ := omin_some_right b f.arr
      obtain ⟨m, hm, hmz⟩ := arr_fold_init l z
      exact ⟨m, by simp only [List.foldl_cons, hz, hm], Nat.le_trans hmz hzx⟩
    · obtain ⟨m, hm, hmf⟩ := ih (Sim.omin b (some g.arr)) f h
      exact ⟨m, by simp only [List.foldl_cons, hm], hmf⟩

theorem nextTime_le_arr {sim : Sim} {t : Nat} (h : sim.nextTime = some t) : ∀ f ∈ sim.fly, t ≤ f.arr := by
  intro f hf
  obtain ⟨m, hm, hmf⟩ := arr_fold_mem sim.fly none f hf
  unfold Sim.nextTime at h
  simp only [hm] at h
  obtain ⟨z1, h1, l1⟩ := omin_some_left m sim.c.L.nextDue
  obtain ⟨z2, h2, l2⟩ := omin_some_left z1 sim.s.L.nextDue
  obtain ⟨z3, h3, l3⟩ := omin_some_left z2 sim.s.asyncDue
  obtain ⟨z4, h4, l4⟩ := omin_some_left z3 sim.s.pendDue
  rw [h1, h2, h3, h4] at h
  injection h with h
  omega

/-! ### every iteration, and every run, of the harness loop is a run of `Sys` -/

theorem ref_sub {Δ : Nat} {sim sim' : Sim} {y : Sys} (hr : Ref Δ sim y) (hc : sim'.c = sim.c) (hs : sim'.s = sim.s)
    (hn : sim'.now = sim.now) (hf : ∀ f ∈ sim'.fly, f ∈ sim.fly) : Ref Δ sim' y :=
  ⟨hr.hc.trans hc.symm, hr.hs.trans hs.symm, by rw [hn]; exact hr.hnow, fun f h => by rw [hn]; exact hr.hfly f (hf f h)⟩

theorem Step.of_src {Δ : Nat} {sim sim1 sim' : Sim} {y : Sys} {ev : List SysEv} (h : Step Δ sim1 y sim' ev)
    (h1 : simRsp sim1 = simRsp sim) (h2 : simNack sim1 = simNack sim) : Step Δ sim y sim' ev := by
  obtain ⟨⟨es, a1, a2, a3, a4, a5⟩, hg⟩ := h
  exact ⟨⟨es, a1, a2, a3, by rw [← h1]; exact a4, by rw [← h2]; exact a5⟩, hg⟩

theorem step_toC {Δ : Nat} {sim : Sim} {y : Sys} {f : Flight} (hr : Ref Δ sim y) (hg : Good Δ sim)
    (hp : sim.pickFlight = some f) (htc : f.toClient = true) :
    Step Δ sim y (iterC sim f) [.toC 0 sim.now f.d sim.nextVerdict, .cTick sim.now] := by
  obtain ⟨hmem, harr⟩ := pickFlight_mem hp
  obtain ⟨g1, sent, g2, g3⟩ := hr.hfly f hmem
  simp only [htc, if_true] at g2
  have hr1 : Ref Δ (rxSimC sim f) y := ref_sub hr rfl rfl rfl (fun g hg => (List.mem_filter.mp hg).1)
  have hg1 : Good Δ (rxSimC sim f) := hg
  have s1 := step_cev hr1 hg1 (.rx sim.now f.d sim.nextVerdict) (.toC sent sim.now f.d sim.nextVerdict) rfl
    ⟨g2, hr.hnow, by omega⟩
  have hn2 := cAbs_now hg1 (.rx sim.now f.d sim.nextVerdict)
  have s2 := s1.trans (fun y1 h1 => step_cev h1 s1.good (.tick (cAbs (rxSimC sim f) (.rx sim.now f.d sim.nextVerdict)).now)
    (.cTick (cAbs (rxSimC sim f) (.rx sim.now f.d sim.nextVerdict)).now) rfl h1.hnow)
  refine (s2.of_src ?_ ?_).of_eq rfl ?_
  · simp [simRsp, rxSimC, rmFlight, List.countP_cons, isRspTr]
  · simp [simNack, rxSimC, rmFlight, List.countP_cons, isNackTr]
  · rw [hn2]; rfl

theorem step_toS {Δ : Nat} {sim : Sim} {y : Sys} {f : Flight} (hr : Ref Δ sim y) (hg : Good Δ sim)
    (hp : sim.pickFlight = some f) (htc : f.toClient = false) :
    Step Δ sim y (iterS sim f) [.toS 0 sim.now f.d, .sTick sim.now] := by
  obtain ⟨hmem, harr⟩ := pickFlight_mem hp
  obtain ⟨g1, sent, g2, g3⟩ := hr.hfly f hmem
  simp only [htc] at g2
  have hr1 : Ref Δ (rxSimS sim f) y := ref_sub hr rfl rfl rfl (fun g hg => (List.mem_filter.mp hg).1)
  have hg1 : Good Δ (rxSimS sim f) := hg
  have s1 := step_sev hr1 hg1 (.rx sim.now f.d) (.toS sent sim.now f.d) rfl ⟨g2, hr.hnow, by omega⟩
  have hn2 := sAbs_now hg1 (.rx sim.now f.d)
  have s2 := s1.trans (fun y1 h1 => step_sev h1 s1.good (.tick (sAbs (rxSimS sim f) (.rx sim.now f.d)).now)
    (.sTick (sAbs (rxSimS sim f) (.rx sim.now f.d)).now) rfl h1.hnow)
  refine (s2.of_src ?_ ?_).of_eq rfl ?_
  · simp [simRsp, rxSimS, rmFlight, List.countP_cons, isRspTr]
  · simp [simNack, rxSimS, rmFlight, List.countP_cons, isNackTr]
  · rw [hn2]; rfl

theorem step_apps {Δ : Nat} : ∀ (fuel : Nat) (sim : Sim) (y : Sys), Ref Δ sim y → Good Δ sim →
    Step Δ sim y (Sim.iter.apps fuel sim) (appsEv fuel sim) := by
  intro fuel
  induction fuel with
  | zero => intro sim y hr hg; rw [Sim.iter.apps]; exact Step.refl hr hg
  | succ n ih =>
    intro sim y hr hg
    rw [apps_succ]
    simp only [appsEv]
    cases h : sim.s.appTimer sim.now with
    | none => exact Step.refl hr hg
    | some p =>
      have s1 := step_sev hr hg (.app sim.now) (.sApp sim.now) rfl hr.hnow
      exact (s1.trans (fun y1 h1 => ih _ y1 h1 s1.good)).of_eq rfl rfl

theorem step_timers {Δ : Nat} {sim : Sim} {y : Sys} (hr : Ref Δ sim y) (hg : Good Δ sim) (hp : sim.pickFlight = none)
    (hd : timersDue sim = true) : Step Δ sim y (iterT sim) (iterEvents sim) := by
  obtain ⟨sim1, e1⟩ : ∃ s1, s1 = (if Sim.dueLe sim.c.L.nextDue sim.now then cAbs sim (.tick sim.now) else sim) := ⟨_, rfl⟩
  have hA : Step Δ sim y sim1 (if Sim.dueLe sim.c.L.nextDue sim.now then [.cTick sim.now] else []) := by
    rw [e1]
    by_cases hc : Sim.dueLe sim.c.L.nextDue sim.now = true
    · simp only [hc, if_true]
      exact step_cev hr hg (.tick sim.now) (.cTick sim.now) rfl hr.hnow
    · simp only [hc]
      exact Step.refl hr hg
  have hn1 : sim1.now = sim.now := by
    rw [e1]
    by_cases hc : Sim.dueLe sim.c.L.nextDue sim.now = true
    · simp only [hc, if_true]; exact cAbs_now hg _
    · simp only [hc]; rfl
  obtain ⟨sim2, e2⟩ : ∃ s2, s2 = (if Sim.dueLe sim.s.L.nextDue sim.now || Sim.dueLe sim.s.asyncDue sim.now
      then sAbs sim1 (.tick sim1.now) else sim1) := ⟨_, rfl⟩
  have hB : ∀ y1, Ref Δ sim1 y1 → Step Δ sim1 y1 sim2
      (if Sim.dueLe sim.s.L.nextDue sim.now || Sim.dueLe sim.s.asyncDue sim.now then [.sTick sim.now] else []) := by
    intro y1 h1
    rw [e2]
    by_cases hs : (Sim.dueLe sim.s.L.nextDue sim.now || Sim.dueLe sim.s.asyncDue sim.now) = true
    · simp only [hs, if_true]
      exact (step_sev h1 hA.good (.tick sim1.now) (.sTick sim1.now) rfl h1.hnow).of_eq rfl (by rw [hn1]; rfl)
    · simp only [hs]
      exact Step.refl h1 hA.good
  have hAB := hA.trans hB
  have hC : ∀ y2, Ref Δ sim2 y2 → Step Δ sim2 y2
      (if Sim.dueLe sim.s.pendDue sim.now then Sim.iter.apps (sim2.s.pend.length + 1) sim2 else sim2)
      (if Sim.dueLe sim.s.pendDue sim.now then appsEv (sim2.s.pend.length + 1) sim2 else []) := by
    intro y2 h2
    by_cases ha : Sim.dueLe sim.s.pendDue sim.now = true
    · simp only [ha, if_true]; exact step_apps _ sim2 y2 h2 hAB.good
    · simp only [ha]; exact Step.refl h2 hAB.good
  have hABC := hAB.trans hC
  subst e2
  subst e1
  refine hABC.of_eq rfl ?_
  simp only [iterEvents, hp, hd, if_true, List.append_assoc]

theorem step_clock {Δ : Nat} {sim : Sim} {y : Sys} (hr : Ref Δ sim y) (hg : Good Δ sim) {t : Nat}
    (hnt : sim.nextTime = some t) (hlt : sim.now < t) : Step Δ sim y { sim with now := t } [] :=
  ⟨⟨[], rfl, trivial, ⟨hr.hc, hr.hs, Nat.le_trans hr.hnow (Nat.le_of_lt hlt),
    fun f hf => ⟨nextTime_le_arr hnt f hf, (hr.hfly f hf).2⟩⟩, rfl, rfl⟩, hg⟩

/-- one iteration of the harness loop is a (possibly empty) sequence of events of `Sys` -/
theorem iter_step {Δ : Nat} {sim s' : Sim} {y : Sys} (hr : Ref Δ sim y) (hg : Good Δ sim) (hit : sim.iter = some s') :
    Step Δ sim y s' (iterEvents sim) := by
  cases hp : sim.pickFlight with
  | some f =>
    by_cases htc : f.toClient = true
    · rw [iter_toC sim f hp htc] at hit
      injection hit with hit
      subst hit
      exact (step_toC hr hg hp htc).of_eq rfl (by simp only [iterEvents, hp, htc, if_true])
    · have htc' : f.toClient = false := by simpa using htc
      rw [iter_toS sim f hp htc'] at hit
      injection hit with hit
      subst hit
      exact (step_toS hr hg hp htc').of_eq rfl (by simp [iterEvents, hp, htc'])
  | none =>
    by_cases hd : timersDue sim = true
    · rw [iter_timers sim hp hd] at hit
      injection hit with hit
      subst hit
      exact step_timers hr hg hp hd
    · have hd' : timersDue sim = false := by simpa using hd
      obtain ⟨i, hi, hlen⟩ := hg.2.2
      rw [iter_clock sim hp hd' i hi hlen] at hit
      cases hnt : sim.nextTime with
      | none => rw [hnt] at hit; cases hit
      | some t =>
        rw [hnt] at hit
        by_cases hle : t ≤ sim.now
        · simp only [hle, if_true] at hit; cases hit
        · simp only [hle, if_false] at hit
          injection hit with hit
          subst hit
          exact (step_clock hr hg hnt (by omega)).of_eq rfl (by simp [iterEvents, hp, hd'])

/-- **Refinement: every run of the harness loop `Sim.run` is a run of the closed loop `Sys`.**  Whenever the `Sys` state
    `y` represents the harness state `sim` (`Ref`: same client, same server, every datagram in flight is a logged
    transmission of the peer less than `Δ` old on arrival), every remaining fate delays by less than `Δ`, and the
    application has sent its last request (`Good`), then for every amount of fuel there is an event sequence `es` of
    `Sys` — the events `simEvents fuel sim` of the loop's iterations, with a transmission time for each delivery — that
    satisfies the network hypothesis `RunOk Δ`, ends in a `Sys` state representing `Sim.run fuel sim`, and during which
    the client reported exactly the handler calls and NACKs the harness recorded in its trace. -/
theorem sim_run_refines_sys {Δ : Nat} : ∀ (fuel : Nat) (sim : Sim) (y : Sys), Ref Δ sim y → Good Δ sim →
    Step Δ sim y (Sim.run fuel sim) (simEvents fuel sim) := by
  intro fuel
  induction fuel with
  | zero => intro sim y hr hg; exact Step.refl hr hg
  | succ n ih =>
    intro sim y hr hg
    simp only [Sim.run, simEvents]
    cases hit : sim.iter with
    | none => exact Step.refl hr hg
    | some s' =>
      have s1 := iter_step hr hg hit
      exact s1.trans (fun y1 h1 => ih s' y1 h1 s1.good)

/-! ### from the state the driver starts in -/

/-- the request the application sends first -/
def firstReq (sim : Sim) : Dgram :=
  let r := sim.reqs[0]?.getD { con := true, method := 1, token := [] }
  { type := if r.con then .con else .non, code := r.method, mid := (sim.cmid + 1) % 65536, token := r.token }

/-- the harness state after the iteration in which the application sends its first request -/
def firstSend (sim : Sim) : Sim :=
  cAbs ({ sim with cmid := (sim.cmid + 1) % 65536, cur := some 0,
                   reqs := sim.reqs.mapIdx (fun j (q : Req) => if j = 0 then { q with mid := (sim.cmid + 1) % 65536, sent := true } else q),
                   trace := .send sim.now 0 ((sim.cmid + 1) % 65536) :: sim.trace } : Sim)
    (.appSend sim.now (firstReq sim) sim.cT)

theorem iter_first (sim : Sim) (hfly : sim.fly = []) (hcur : sim.cur = none) (hreqs : 0 < sim.reqs.length)
    (hd : timersDue sim = false) : sim.iter = some (firstSend sim) := by
  have hp : sim.pickFlight = none := by simp [Sim.pickFlight, hfly]
  unfold Sim.iter
  rw [hp]
  unfold timersDue at hd
  simp only [hd, hcur, hreqs, decide_true, Bool.and_true, Bool.false_eq_true, if_false, if_true]
  rfl

theorem timersDue_quiet (sim : Sim) (hc : sim.c.L = Idle) (hs : sim.s.L = Idle) (ha : sim.s.asyncs = [])
    (hp : sim.s.pend = []) : timersDue sim = false := by
  simp [timersDue, hc, hs, ha, hp, Layer.nextDue, Idle, Sim.dueLe, Server.asyncDue, Server.pendDue]

/-- the harness state after the first request has been sent is represented by `Sys.start` -/
theorem firstSend_ref {Δ : Nat} (sim : Sim) (hΔ : 0 < Δ) (hf : ∀ f ∈ sim.fates, fateOk Δ f) (hfly : sim.fly = [])
    (hlen : sim.reqs.length = 1) (hc : sim.c.L = Idle) (hcon : (firstReq sim).type = .con) :
    Ref Δ (firstSend sim) (Sys.start sim.c sim.s sim.now (firstReq sim) sim.cT) ∧ Good Δ (firstSend sim) ∧
    simRsp (firstSend sim) = simRsp sim ∧ simNack (firstSend sim) = simNack sim := by
  have hs := appSend_Idle sim.c sim.now (firstReq sim) sim.cT hc hcon
  obtain ⟨E, e1, e2⟩ := clientOuts_spec Δ hΔ (sim.c.step (.appSend sim.now (firstReq sim) sim.cT)).2
    ({ sim with cmid := (sim.cmid + 1) % 65536, cur := some 0,
                reqs := sim.reqs.mapIdx (fun j (q : Req) => if j = 0 then { q with mid := (sim.cmid + 1) % 65536, sent := true } else q),
                trace := .send sim.now 0 ((sim.cmid + 1) % 65536) :: sim.trace,
                c := (sim.c.step (.appSend sim.now (firstReq sim) sim.cT)).1 } : Sim) hf
  have ho : (sim.c.step (.appSend sim.now (firstReq sim) sim.cT)).2 = [Out.tx (firstReq sim)] := by
    show (sim.c.appSend sim.now (firstReq sim) sim.cT).2 = _
    rw [hs]
  refine ⟨⟨?_, ?_, ?_, ?_⟩, ⟨hΔ, fun f h => hf f (E.hfates f h), 0, E.hcur, ?_⟩, ?_, ?_⟩
  · exact E.hc.symm
  · exact E.hs.symm
  · exact Nat.le_of_eq E.hnow.symm
  · intro f hfl
    have hn : (firstSend sim).now = sim.now := E.hnow
    rw [hn]
    rcases E.hfly f hfl with h | ⟨b1, b2, b3, b4⟩
    · simp [hfly] at h
    · rw [ho] at b2
      simp only [List.mem_singleton, Out.tx.injEq] at b2
      refine ⟨b3, sim.now, ?_, b4⟩
      simp only [b1, Sys.start, b2]
      exact List.mem_singleton.mpr rfl
  · have := E.hlen
    simp only [List.length_mapIdx] at this
    exact Nat.le_of_eq (this.trans hlen)
  · refine e1.trans ?_
    rw [ho]; simp [simRsp, List.countP_cons, isRspTr]
  · refine e2.trans ?_
    rw [ho]; simp [simNack, List.countP_cons, isNackTr]

/-- the state the driver (and the C harness) starts a schedule in: nothing in flight, the application has ONE
    (Confirmable) request to send and has not sent it yet, client and server quiet, every scripted delay below `Δ` -/
structure SimStart (Δ : Nat) (sim : Sim) : Prop where
  hΔ : 0 < Δ
  hf : ∀ f ∈ sim.fates, fateOk Δ f
  hfly : sim.fly = []
  hcur : sim.cur = none
  hlen : sim.reqs.length = 1
  hc : sim.c.L = Idle
  hreq : SReq (firstReq sim)
  hq : SQuiet sim.s (firstReq sim)

/-- **`Sim.run` from the driver's initial state is a run of `Sys.start`**: the first iteration sends the request
    (`firstSend`), and the rest of the run is an event sequence `es` of the closed loop started by that request — the
    events `simEvents` of the harness loop — admissible for the network hypothesis `RunOk Δ`, ending in a `Sys` state with
    the harness's client and server, the client having reported exactly the `rsp@` / `nack@` entries of the trace. -/
theorem sim_run_is_sys_run {Δ : Nat} {sim : Sim} (h : SimStart Δ sim) (fuel : Nat) :
    Sim.run (fuel + 1) sim = Sim.run fuel (firstSend sim) ∧
    ∃ es, es.map SysEv.erase = simEvents fuel (firstSend sim) ∧
      (Sys.start sim.c sim.s sim.now (firstReq sim) sim.cT).RunOk Δ es ∧
      Ref Δ (Sim.run (fuel + 1) sim) ((Sys.start sim.c sim.s sim.now (firstReq sim) sim.cT).run es).1 ∧
      simRsp (Sim.run (fuel + 1) sim) = simRsp sim + nRsp ((Sys.start sim.c sim.s sim.now (firstReq sim) sim.cT).run es).2 ∧
      simNack (Sim.run (fuel + 1) sim) = simNack sim + nNack ((Sys.start sim.c sim.s sim.now (firstReq sim) sim.cT).run es).2 := by
  have hit := iter_first sim h.hfly h.hcur (by rw [h.hlen]; exact Nat.one_pos)
    (timersDue_quiet sim h.hc h.hq.hL h.hq.hasync h.hq.hpend)
  have hrun : Sim.run (fuel + 1) sim = Sim.run fuel (firstSend sim) := by simp only [Sim.run, hit]
  obtain ⟨r0, g0, c1, c2⟩ := firstSend_ref sim h.hΔ h.hf h.hfly h.hlen h.hc h.hreq.hcon
  obtain ⟨⟨es, a1, a2, a3, a4, a5⟩, _⟩ := sim_run_refines_sys fuel (firstSend sim) _ r0 g0
  rw [hrun]
  exact ⟨rfl, es, a1, a2, a3, by rw [a4, c1], by rw [a5, c2]⟩

/-- **exactly once, transferred to the harness loop** (`exactly_once_closed_loop_partial` read on `Sim.run`): one
    Confirmable request, a server personality that piggybacks or de-duplicates and answers with an ACK or a CON, every
    scripted delay below `Δ`; if no copy of the response is delivered after the NACK in the event sequence of the run
    (`SysNoLate` on `simEvents` — the open finding), the trace of the run holds at most one `rsp@` / `nack@` entry more
    than at the start, and exactly one more when the client is quiet at the end, unless no copy of the response was
    ever delivered. -/
theorem sim_exactly_once_partial {Δ : Nat} {sim : Sim} (h : SimStart Δ sim) (hp : sim.s.pers ≠ .dn) (hpa : sim.s.pers ≠ .da)
    (hfresh : fresh sim.c (respFor sim.s (firstReq sim))) (fuel : Nat)
    (hlate : SysNoLate (respFor sim.s (firstReq sim)) (Sys.start sim.c sim.s sim.now (firstReq sim) sim.cT)
      (simEvents fuel (firstSend sim))) :
    simRsp (Sim.run (fuel + 1) sim) + simNack (Sim.run (fuel + 1) sim) ≤ simRsp sim + simNack sim + 1 ∧
    ((Sim.run (fuel + 1) sim).c.L.sendq = [] →
      simRsp (Sim.run (fuel + 1) sim) + simNack (Sim.run (fuel + 1) sim) = simRsp sim + simNack sim + 1 ∨
      ∀ e ∈ simEvents fuel (firstSend sim), ¬ isRspS (respFor sim.s (firstReq sim)) e) := by
  obtain ⟨_, es, a1, a2, a3, a4, a5⟩ := sim_run_is_sys_run h fuel
  have hl : SysNoLate (respFor sim.s (firstReq sim)) (Sys.start sim.c sim.s sim.now (firstReq sim) sim.cT) es := by
    rw [← a1] at hlate; exact (sysNoLate_erase _ es _).mp hlate
  obtain ⟨b1, b2⟩ := exactly_once_closed_loop_partial h.hreq sim.s h.hq hp hpa sim.c h.hc hfresh sim.now sim.cT Δ es a2 hl
  refine ⟨by omega, fun hq => ?_⟩
  rw [← a3.hc] at hq
  rcases b2 hq with b | b
  · left; omega
  · right
    intro e he
    rw [← a1] at he
    obtain ⟨e', he', rfl⟩ := List.mem_map.mp he
    exact fun hi => b e' he' ((isRspS_erase _ e').mp hi)

/-- **exactly once, piggybacked response, transferred to the harness loop** (`exactly_once_piggybacked` /
    `exactly_once_piggybacked_quiet` read on `Sim.run`; no `NoLate`): piggybacking server, every scripted delay below `Δ`
    with `2Δ ≤ cT·2^MAX_RETRANSMIT`: at most one `rsp@` / `nack@` entry, and exactly one whenever the client is quiet at
    the end of the run. -/
theorem sim_exactly_once_piggybacked {Δ : Nat} {sim : Sim} (h : SimStart Δ sim) (hp : sim.s.pers = .pb)
    (hfresh : fresh sim.c (respFor sim.s (firstReq sim))) (hT : 0 < sim.cT) (h2 : 2 * Δ ≤ sim.cT * 2 ^ maxRetransmit)
    (fuel : Nat) :
    simRsp (Sim.run (fuel + 1) sim) + simNack (Sim.run (fuel + 1) sim) ≤ simRsp sim + simNack sim + 1 ∧
    ((Sim.run (fuel + 1) sim).c.L.sendq = [] →
      simRsp (Sim.run (fuel + 1) sim) + simNack (Sim.run (fuel + 1) sim) = simRsp sim + simNack sim + 1) := by
  obtain ⟨_, es, a1, a2, a3, a4, a5⟩ := sim_run_is_sys_run h fuel
  obtain ⟨b1, _⟩ := exactly_once_piggybacked h.hreq sim.s h.hq hp sim.c h.hc hfresh sim.now sim.cT Δ hT h2 es a2
  refine ⟨by omega, fun hq => ?_⟩
  rw [← a3.hc] at hq
  have := exactly_once_piggybacked_quiet h.hreq sim.s h.hq hp sim.c h.hc hfresh sim.now sim.cT Δ hT h2 es a2 hq
  omega

/-! ### the hypotheses are satisfiable: a concrete schedule of the driver -/

instance (Δ : Nat) : (f : Fate) → Decidable (fateOk Δ f)
  | .deliver d => inferInstanceAs (Decidable (d < Δ))
  | .drop => isTrue trivial
  | .dup a b => inferInstanceAs (Decidable (a < Δ ∧ b < Δ))

/-- `xchg ac+ 300 1000 5000 … q C1 - d100,x,d100,d100,u100+300`: the first copy of the request is answered by an Empty
    ACK that is lost, the request is retransmitted … -/
def wSim : Sim :=
  { s := wAc, cT := 2000, cmid := 1000, eager := false,
    fates := [.deliver 100, .drop, .deliver 100, .deliver 100, .dup 100 300], verdicts := [],
    reqs := [{ con := true, method := 1, token := [0xc0, 7] }] }

set_option maxRecDepth 8000 in
example :
    SimStart ackTimeout wSim ∧ wSim.s.pers ≠ .dn ∧ wSim.s.pers ≠ .da ∧ fresh wSim.c (respFor wSim.s (firstReq wSim)) ∧
    SysNoLate (respFor wSim.s (firstReq wSim)) (Sys.start wSim.c wSim.s wSim.now (firstReq wSim) wSim.cT)
      (simEvents 30 (firstSend wSim)) ∧
    simRsp (Sim.run 31 wSim) = 1 ∧ simNack (Sim.run 31 wSim) = 0 ∧ (Sim.run 31 wSim).c.L.sendq = [] ∧
    (simEvents 30 (firstSend wSim)).length = 7 := by
  refine ⟨⟨by decide, by decide, rfl, rfl, rfl, rfl, ⟨by decide, by decide⟩, ⟨by decide, by decide, by decide, by decide, by decide⟩⟩,
    by decide, by decide, ⟨fun _ => by decide, fun _ => by decide⟩, by decide, by decide, by decide, by decide, by decide⟩

end Coap.C07
