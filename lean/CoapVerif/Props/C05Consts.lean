import CoapVerif.Model.StreamReader
import CoapVerif.Model.WsReader
import CoapVerif.Spec.StreamWs
import CoapVerif.Generated.Consts2
/-
C05 / T1 (workstream T1X) — the buffer sizes and limits of the stream / WebSocket reader models are those of the
current tree (`Generated.C2.*`, rewritten from /repo's working tree on every check: struct member sizes and macros as the
compiler sees them, `coap_ws_close`'s local buffer and retry count by source scan).
-/
namespace Coap.C05
open Coap Coap.Generated

/-- sizeof(session->read_header) -/
theorem stream_rhCap_matches_code : M.Stream.rhCap = C2.sizeofReadHeader := by decide
/-- COAP_DEFAULT_MAX_PDU_RX_SIZE -/
theorem stream_maxRx_matches_code : M.Stream.maxRx = C2.COAP_DEFAULT_MAX_PDU_RX_SIZE := by decide
/-- COAP_RXBUFFER_SIZE = sizeof(payload) in coap_read_session -/
theorem stream_rxBuf_matches_code : M.Stream.rxBuf = C2.COAP_RXBUFFER_SIZE := by decide
/-- COAP_PDU_MAX_TCP_HEADER_SIZE -/
theorem stream_maxHdr_matches_code : M.Stream.maxHdr = C2.COAP_PDU_MAX_TCP_HEADER_SIZE := by decide
/-- the fixed header of a stream PDU fits `read_header` (what `coap_read_session` relies on when it collects it there) -/
theorem stream_header_fits_matches_code : C2.COAP_PDU_MAX_TCP_HEADER_SIZE ≤ C2.sizeofReadHeader := by decide

/-- sizeof(ws->http_hdr) -/
theorem ws_httpCap_matches_code : M.Ws.httpCap = C2.wsHttpHdrSize := by decide
/-- COAP_MAX_FS = sizeof(ws->rd_header) -/
theorem ws_fsCap_matches_code : M.Ws.fsCap = C2.COAP_MAX_FS ∧ M.Ws.fsCap = C2.wsRdHeaderSize := by decide
/-- the WebSocket layer is read into the same COAP_RXBUFFER_SIZE stack buffer -/
theorem ws_rxBuf_matches_code : M.Ws.rxBuf = C2.COAP_RXBUFFER_SIZE := by decide
/-- `uint8_t buf[100]` and `count = 5` of coap_ws_close (source scan) -/
theorem ws_drainBuf_matches_code : M.Ws.drainBuf = C2.wsCloseDrainBuf := by decide
theorem ws_drainCount_matches_code : M.Ws.drainCount = C2.wsCloseDrainCount := by decide

/-- D18: S's longest handshake line is what fits `http_hdr` with its LF and the terminating NUL -/
theorem ws_maxLine_matches_code : Spec.Stream.Ws.maxLine + 2 = C2.wsHttpHdrSize := by decide
/-- D19: S's largest frame is the receive buffer -/
theorem ws_maxFrame_matches_code : Spec.Stream.Ws.maxFrame = C2.COAP_RXBUFFER_SIZE := by decide

end Coap.C05
