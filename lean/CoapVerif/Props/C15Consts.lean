import CoapVerif.Model.Replay
import CoapVerif.Spec.Replay
import CoapVerif.Generated.Consts2
/-
C15 / T1 (workstream T1X) — OSCORE_SEQ_MAX, the AEAD tag length and the width of the sliding window used by the replay
model / specification are those of the current tree.
-/
namespace Coap.C15
open Coap Coap.Generated

theorem seqMax_matches_code : Replay.SEQ_MAX = C2.OSCORE_SEQ_MAX := by decide
theorem seqLimit_matches_code : ReplaySpec.SEQ_LIMIT = C2.OSCORE_SEQ_MAX := by decide
/-- `cose_tag_len(COSE_ALGORITHM_AES_CCM_16_64_128)` evaluated -/
theorem tagLen_matches_code : Replay.TAG_LEN = C2.aesCcmTagLen ∧ Replay.TAG_LEN = C2.COSE_ALGORITHM_AES_CCM_16_64_128_TAG_LEN := by
  decide
/-- `sliding_window` is a `uint64_t` (the model's `shift > 63`, the specification's `min window 64`), `replay_window_size`
a `uint32_t` -/
theorem windowBits_matches_code :
    (63 : Nat) = C2.slidingWindowBits - 1 ∧ (64 : Nat) = C2.slidingWindowBits ∧ (32 : Nat) = C2.replayWindowSizeBits ∧
    C2.COAP_OSCORE_DEFAULT_REPLAY_WINDOW ≤ C2.slidingWindowBits := by decide

end Coap.C15
