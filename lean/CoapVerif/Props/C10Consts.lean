import CoapVerif.Model.Server
import CoapVerif.Model.ServerBlock
import CoapVerif.Model.Async
import CoapVerif.Generated.Consts2
/-
C10 / T1 (workstream T1Y) — the numerals of the server-dispatch models (Model/Server.lean, Model/ServerBlock.lean,
Model/Async.lean) and the flag / message-type vocabulary they take from Spec/Server.lean are the macros and enum values
of coap_pdu.h, coap_resource.h, coap_block.h as the compiler sees them.  Stage functions are re-stated with the generated
constants for ALL arguments (`rfl`: the two sides differ only in the numerals).
-/
namespace Coap.C10
open Coap Coap.Server Coap.Server.M Coap.Generated

/-- COAP_RESOURCE_FLAGS_* (the bit tested by `flag flags bit`) -/
theorem resourceFlags_match_code :
    F_HAS_MCAST = C2.COAP_RESOURCE_FLAGS_HAS_MCAST_SUPPORT ∧ F_DIS_MCAST_DELAYS = C2.COAP_RESOURCE_FLAGS_LIB_DIS_MCAST_DELAYS ∧
    F_SUPPRESS_2_05 = C2.COAP_RESOURCE_FLAGS_LIB_ENA_MCAST_SUPPRESS_2_05 ∧
    F_SUPPRESS_2_XX = C2.COAP_RESOURCE_FLAGS_LIB_ENA_MCAST_SUPPRESS_2_XX ∧
    F_DIS_SUPPRESS_4_XX = C2.COAP_RESOURCE_FLAGS_LIB_DIS_MCAST_SUPPRESS_4_XX ∧
    F_DIS_SUPPRESS_5_XX = C2.COAP_RESOURCE_FLAGS_LIB_DIS_MCAST_SUPPRESS_5_XX ∧
    F_OSCORE_ONLY = C2.COAP_RESOURCE_FLAGS_OSCORE_ONLY ∧ F_HANDLE_WKC = C2.COAP_RESOURCE_HANDLE_WELLKNOWN_CORE ∧
    MB.F_FORCE_SINGLE_BODY = C2.COAP_RESOURCE_FLAGS_FORCE_SINGLE_BODY := by decide

/-- COAP_MESSAGE_CON / NON / ACK / RST -/
theorem messageTypes_match_code :
    CON = C2.COAP_MESSAGE_CON ∧ NON = C2.COAP_MESSAGE_NON ∧ ACK = C2.COAP_MESSAGE_ACK ∧ RST = C2.COAP_MESSAGE_RST := by decide

/-- `respType`: ACK to a CON, else NON — with the enum values -/
theorem respType_matches_code (t : Nat) :
    respType t = if t = C2.COAP_MESSAGE_CON then C2.COAP_MESSAGE_ACK else C2.COAP_MESSAGE_NON := rfl

/-- the option filter of the critical-option scan: `is_long_option` threshold (evaluated over 0..65535) -/
theorem filterGet_matches_code (f : Filter) (n : Nat) :
    f.get n = if n ≥ C2.optFilterLongThreshold then f.long.contains n else f.short.contains n := by
  unfold Filter.get
  by_cases h : n > 255
  · have h' : n ≥ C2.optFilterLongThreshold := h
    simp only [h, h', if_true]
  · have h' : ¬ n ≥ C2.optFilterLongThreshold := h
    simp only [h, h', if_false]

/-- the slot counts the earlier extractor (extract/server.c) produced are the macros -/
theorem filterSlots_match_code :
    Generated.Server.filterShort = C2.COAP_OPT_FILTER_SHORT ∧ Generated.Server.filterLong = C2.COAP_OPT_FILTER_LONG := by decide

/-- the Hop-Limit block of handle_request: COAP_OPTION_HOP_LIMIT, 5.08, 4.00, for every request -/
theorem hopBlock_matches_code (rq : Request) (isProxy skipHop : Bool) (os : Opts) :
    hopBlock rq isProxy skipHop os =
      if skipHop then pathBlock rq isProxy os else
      match firstOpt os C2.COAP_OPTION_HOP_LIMIT with
      | none => pathBlock rq isProxy os
      | some v =>
        let hop := uintOf v % C2.uint32Modulus
        if hop = 1 then .fail C2.code508 none
        else if hop < 1 ∨ hop > 255 then .fail C2.code400 none
        else pathBlock rq isProxy (setHop (hop - 1) os) := rfl

/-- Proxy-Uri decides where the path comes from: COAP_OPTION_PROXY_URI -/
theorem pathBlock_matches_code (rq : Request) (isProxy : Bool) (os : Opts) :
    pathBlock rq isProxy os =
      if hasOpt os C2.COAP_OPTION_PROXY_URI then (match rq.pu with | .ok _ p => .go isProxy os p | _ => .ignore)
      else .go isProxy os (uriPath os) := rfl

/-- resource selection: 5.00 without a proxy resource, 2.02 for DELETE of an unknown resource, 4.04 otherwise -/
theorem selectStage_matches_code (tbl : Table) (code : Nat) (isProxy : Bool) (path : Bytes) :
    selectStage tbl code isProxy path =
      (let found : Option Sel := if isProxy then none else (findRes tbl.res path 0).map fun x => Sel.res x.1 x.2
       let unkFor : Option Special :=
         match tbl.unk with
         | some u => if handlerBit u.mask code then some u else none
         | none => none
       match found with
       | some s => .inr s
       | none =>
         if isProxy then (match tbl.prx with | some p => .inr (.prx p) | none => .inl C2.code500)
         else match unkFor with
           | some u => if flag u.flags C2.COAP_RESOURCE_HANDLE_WELLKNOWN_CORE then .inr (.unk u)
                       else if path = wellKnownCore then .inr .wk else .inr (.unk u)
           | none =>
             if path = wellKnownCore then .inr .wk
             else if code = C2.COAP_REQUEST_CODE_DELETE then .inl C2.code202
             else .inl C2.code404) := rfl

/-- the checks before the handler: 4.01 OSCORE-only, 4.12 If-None-Match, 4.05 no handler / no multicast support,
4.15 FETCH without Content-Format — flags, option numbers, method and response codes from the headers -/
theorem checkStage_matches_code (cfg : Cfg) (rq : Request) (os : Opts) (sel : Sel) :
    checkStage cfg rq os sel =
      (if flag sel.flags C2.COAP_RESOURCE_FLAGS_OSCORE_ONLY then some C2.code401 else
       if sel.exists_ ∧ hasOpt os C2.COAP_OPTION_IF_NONE_MATCH then some C2.code412 else
       if ¬ handlerBit sel.mask rq.msg.code then some C2.code405 else
       if rq.msg.code = C2.COAP_REQUEST_CODE_FETCH ∧ ¬ hasOpt os C2.COAP_OPTION_CONTENT_FORMAT then some C2.code415 else
       if cfg.mpr ∧ ¬ flag sel.flags C2.COAP_RESOURCE_FLAGS_HAS_MCAST_SUPPORT ∧ rq.mcast then some C2.code405 else none) := rfl

/-- Observe registration: COAP_OPTION_OBSERVE, COAP_OBSERVE_ESTABLISH, COAP_OPTION_BLOCK2; the first Observe value is the
`r->observe = 2` of coap_resource_init (source scan) -/
theorem obsStage_matches_code (os : Opts) (observe : Bool) (resp0 : Reply) :
    obsStage os observe resp0 =
      if observe then
        let action := uintOf ((firstOpt os C2.COAP_OPTION_OBSERVE).getD []) % C2.uint32Modulus
        if action = C2.COAP_OBSERVE_ESTABLISH then
          match (firstOpt os C2.COAP_OPTION_BLOCK2).bind block with
          | some (num, _, _) => if num ≠ 0 then none
                                else some { resp0 with opts := [(C2.COAP_OPTION_OBSERVE, [UInt8.ofNat C2.resourceInitialObserve])] }
          | none => some { resp0 with opts := [(C2.COAP_OPTION_OBSERVE, [UInt8.ofNat C2.resourceInitialObserve])] }
        else some resp0
      else some resp0 := rfl

/-- numerals inside the large definitions `critStep` (Q-Block1 19 / Q-Block2 31), `noResponse` (No-Response 258, 2.05 =
69, `% 2^32`), `callStage` (2.05, Content-Format 12, link-format 40), `putBlock` (Request-Tag 292, Block1 27,
Content-Format 12, Size1 60) -/
theorem dispatch_numerals_match_code :
    (19 : Nat) = C2.COAP_OPTION_Q_BLOCK1 ∧ (31 : Nat) = C2.COAP_OPTION_Q_BLOCK2 ∧ (258 : Nat) = C2.COAP_OPTION_NORESPONSE ∧
    (69 : Nat) = C2.code205 ∧ (4294967296 : Nat) = C2.uint32Modulus ∧ (12 : Nat) = C2.COAP_OPTION_CONTENT_FORMAT ∧
    (40 : Nat) = C2.COAP_MEDIATYPE_APPLICATION_LINK_FORMAT ∧ (292 : Nat) = C2.COAP_OPTION_RTAG ∧
    (27 : Nat) = C2.COAP_OPTION_BLOCK1 ∧ (60 : Nat) = C2.COAP_OPTION_SIZE1 ∧ (11 : Nat) = C2.COAP_OPTION_URI_PATH ∧
    (15 : Nat) = C2.COAP_OPTION_URI_QUERY := by decide

/-! ### block mode bits (Model/ServerBlock.lean) -/

/-- `block_mode & COAP_BLOCK_USE_LIBCOAP`, `& COAP_BLOCK_SINGLE_BODY`, `|= COAP_BLOCK_SINGLE_BODY`, for every mode -/
theorem blockMode_matches_code (mode : Nat) :
    MB.useLibcoap mode = (mode / C2.COAP_BLOCK_USE_LIBCOAP % 2 == 1) ∧
    MB.singleBody mode = (mode / C2.COAP_BLOCK_SINGLE_BODY % 2 == 1) ∧
    MB.setSingle mode = (if MB.singleBody mode then mode else mode + C2.COAP_BLOCK_SINGLE_BODY) := by
  refine ⟨?_, rfl, rfl⟩
  unfold MB.useLibcoap
  rw [show C2.COAP_BLOCK_USE_LIBCOAP = 1 from rfl, Nat.div_one]

/-! ### delayed responses (Model/Async.lean) -/

/-- `coap_tick_t` is 64 bits wide: `W` is its modulus -/
theorem tickModulus_matches_code : Async.W = 2 ^ C2.coapTickModulusBits := by decide

/-- `async->delay = now + delay` in `coap_tick_t`, for every value -/
theorem delayOf_matches_code (now d : Nat) :
    Async.delayOf now d = if d ≠ 0 then (now + d) % 2 ^ C2.coapTickModulusBits else 0 := by
  unfold Async.delayOf
  rw [show Async.W = 2 ^ C2.coapTickModulusBits by decide]

end Coap.C10
