import CoapVerif.Model.Sessions
namespace Coap.C12
open Coap.Sessions

theorem placeholder : ledgerOk [] = true := rfl

end Coap.C12
