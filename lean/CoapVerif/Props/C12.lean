import CoapVerif.Lemmas.SessionsClient
/-
C12 — sessions map 1:1 to peers, live while referenced; everything is released.

  M = Coap.Sessions (CoapVerif/Model/Sessions.lean): transcription of libcoap's server-session bookkeeping with an
      allocation ledger;  `St.step : St → Event → St × Outcome`, `St.run` = fold over a history.
  S = `Peer ⇀ session` (`St.lookup`, injective), `refs s = #holders s` (`St.holds`).
  Every theorem quantifies over ALL histories `es : List Event` from a fresh context with any endpoints / resources
  (induction over the history: `Inv.run`), none over samples.

SPEC DECISIONS D9, D13, D14: see the head of Model/Sessions.lean.
-/
namespace Coap.C12
open Coap.Sessions

/-- a state some history leads to -/
def Reachable (st : St) : Prop := ∃ eps nres es, st = (St.init eps nres).run es

theorem reachable_inv {st : St} (h : Reachable st) : Inv st := by
  obtain ⟨eps, nres, es, rfl⟩ := h; exact Inv.run eps nres es

/-! ### the verified monitor -/

/-- The ledger monitor that judges the REAL allocation trace accepts exactly the traces with no double free, no free
of something that was never allocated, and nothing left allocated at the end. -/
theorem ledgerOk_iff (tr : List AllocEvent) :
    ledgerOk tr = true ↔ (NoDoubleFree tr ∧ NoFreeOfUnallocated tr ∧ NothingLiveAtEnd tr) := ledgerOk_iff_spec tr

/-! ### references -/

/-- `session->ref` equals the number of holders (application references, observer entries, async entries, queued
messages) — in every reachable state, for every live session. -/
theorem ref_eq_holders {st : St} (h : Reachable st) : ∀ s ∈ st.sessions, s.ref = st.holds s.sid :=
  (reachable_inv h).H.ref

/-- Whatever refers to a session refers to a LIVE session: in no reachable state does an application reference, an
observation, an async entry or a queued message point at a session that has been freed … -/
theorem no_free_while_referenced {st : St} (h : Reachable st) :
    ∀ x ∈ st.holders, ∃ s ∈ st.sessions, s.sid = x.sid :=
  (reachable_inv h).H.live

/-- … because the only operation that frees a session does nothing while anything holds it. -/
theorem reclaim_noop_while_held {st : St} (h : Reachable st) (s : Sess) (hs : s ∈ st.sessions)
    (hh : 0 < st.holds s.sid) : st.reclaim s.sid = st := by
  have hI := (reachable_inv h).H
  unfold St.reclaim
  cases hg : st.getSess s.sid with
  | none => rfl
  | some t =>
    obtain ⟨ht, hsid⟩ := getSess_some hg
    have : t.ref ≠ 0 := by rw [hI.ref t ht, hsid]; omega
    simp [this]

/-! ### observer entries: token replacement and Reset -/

/-- `coap_add_observer` for a request whose token is new but whose resource and query (cache key) already have an
observation on this session — "re-registration under a new token": the old subscription is replaced by the new one
(one freed, one allocated), the set of sessions is unchanged, every session has exactly as many holders as before, and NO
session's reference count changes — in particular not the observing session's (the release of the deleted entry and the
reference of the new one cancel). -/
theorem reregistration_keeps_refcount {st : St} (h : Reachable st) (sid k q tok : Nat) (old : Holder)
    (hnew : st.findHolder sid (isObsTok k tok) = none)
    (hold : st.findHolder sid (isObsKey k q) = some old) :
    (st.addObserver sid k q tok).holders = st.holders.erase old ++ [⟨st.next, sid, .obs k q tok 0⟩] ∧
    (st.addObserver sid k q tok).sids = st.sids ∧
    (∀ y, (st.addObserver sid k q tok).holds y = st.holds y) ∧
    ∀ s ∈ st.sessions, ∀ t ∈ (st.addObserver sid k q tok).sessions, t.sid = s.sid → t.ref = s.ref := by
  have hI := reachable_inv h
  obtain ⟨hm, hsid, _⟩ := findHolder_some hold
  have hl : ∃ s ∈ st.sessions, s.sid = sid := by
    obtain ⟨s, hs, e⟩ := hI.H.live old hm; exact ⟨s, hs, by rw [e, hsid]⟩
  have hI' := Inv.closed.addObserver hI sid k q tok hl
  have heq : st.addObserver sid k q tok = (st.dropHolder old).addHolder sid (.obs k q tok 0) := by
    unfold St.addObserver; rw [hnew, hold]
  have hholds : ∀ y, (st.addObserver sid k q tok).holds y = st.holds y := by
    intro y
    rw [heq, holds_addHolder_obs, holds_dropHolder st old hm y, hsid]
  refine ⟨?_, ?_, hholds, ?_⟩
  · rw [heq, holders_addHolder_obs, holders_dropHolder_mem st old hm]
    have : (st.dropHolder old).next = st.next := by unfold St.dropHolder; simp [hm]
    rw [this]
  · rw [heq, sids_addHolder, sids_dropHolder]
  · intro s hs t ht e
    have := ref_of_holds hI hI' (fun _ => 0) (by intro y; rw [hholds y]; rfl) s hs t ht e
    omega

/-- The RST branch of `coap_dispatch` for a Reset that answers the last notification of an observation (message id not
in the send queue): `reference … coap_delete_observer … nack handler … release`.  Exactly that one observer entry
disappears, no session appears or disappears, the observing session's reference count goes down by EXACTLY one and no
other session's count changes — the temporary reference and its release cancel. -/
theorem rst_releases_exactly_one {st : St} (h : Reachable st) (sid n : Nat) (x : Holder)
    (hx : st.findHolder sid (hasNote n) = some x) :
    (st.rstNote sid n).holders = st.holders.erase x ∧ (st.rstNote sid n).sids = st.sids ∧
    ∀ s ∈ st.sessions, ∀ t ∈ (st.rstNote sid n).sessions, t.sid = s.sid →
      s.ref = t.ref + (if s.sid = sid then 1 else 0) := by
  have hI := reachable_inv h
  obtain ⟨hm, hsid, _⟩ := findHolder_some hx
  have hI' := Inv.closed.rstNote hI sid n
  have heq : st.rstNote sid n = st.dropHolder x := by
    unfold St.rstNote; rw [hx]; exact rstCancel_eq st sid x hm
  refine ⟨by rw [heq, holders_dropHolder_mem st x hm], by rw [heq, sids_dropHolder], ?_⟩
  intro s hs t ht e
  have := ref_of_holds hI hI' (fun y => if x.sid = y then 1 else 0)
    (by intro y; rw [heq]; exact holds_dropHolder st x hm y) s hs t ht e
  rw [this, hsid]
  by_cases c : s.sid = sid
  · simp [c]
  · have : ¬ sid = s.sid := fun e => c e.symm
    simp [c, this]

/-- a Reset for a notification that is no longer the last one of any observation (or of none at all) changes nothing -/
theorem rst_stale_changes_nothing (st : St) (sid n : Nat) (hx : st.findHolder sid (hasNote n) = none) :
    st.rstNote sid n = st := by
  unfold St.rstNote; rw [hx]

/-! ### peers ↔ sessions -/

theorem pairwise_mem {α : Type} {R : α → α → Prop} {l : List α} (h : l.Pairwise R) {a b : α} (ha : a ∈ l) (hb : b ∈ l) :
    a = b ∨ R a b ∨ R b a := by
  induction l with
  | nil => simp at ha
  | cons x t ih =>
    rw [List.pairwise_cons] at h
    rcases List.mem_cons.mp ha with rfl | ha' <;> rcases List.mem_cons.mp hb with rfl | hb'
    · exact Or.inl rfl
    · exact Or.inr (Or.inl (h.1 b hb'))
    · exact Or.inr (Or.inr (h.1 a ha'))
    · exact ih h.2 ha' hb'

/-- The live sessions are a partial INJECTIVE map from `(remote address+port, local port, protocol)`: the same triple
means the same session object, different triples mean different session objects (D9). -/
theorem peer_session_functional_injective {st : St} (h : Reachable st) :
    ∀ s₁ ∈ st.sessions, ∀ s₂ ∈ st.sessions,
      (s₁.peer = s₂.peer → s₁ = s₂) ∧ (s₁.peer ≠ s₂.peer → s₁.sid ≠ s₂.sid) := by
  intro s₁ h₁ s₂ h₂
  rcases pairwise_mem (reachable_inv h).S.pw h₁ h₂ with e | r | r
  · subst e; exact ⟨fun _ => rfl, fun c => absurd rfl c⟩
  · exact ⟨fun e => absurd e r.1, fun _ => r.2⟩
  · exact ⟨fun e => absurd e.symm r.1, fun _ e => r.2 e.symm⟩

/-- A datagram from a peer that has a live session is handled by THAT session, and no session is created or deleted
on the way to the handler. -/
theorem same_peer_same_session (st : St) (p : Peer) (s : Sess) (hl : st.lookup p = some s) :
    (st.getSession p).2 = s.sid ∧ (st.getSession p).1.events = st.events := by
  unfold St.getSession; simp [hl, St.updSess]

/-- The session a datagram is handled by is live afterwards and is keyed by the datagram's triple. -/
theorem handled_session_is_the_peers (st : St) (p : Peer) :
    ∃ s ∈ (st.getSession p).1.sessions, s.sid = (st.getSession p).2 ∧ s.peer = p := by
  unfold St.getSession
  split
  · rename_i s hs
    obtain ⟨hm, hp⟩ := lookup_some hs
    exact ⟨_, mem_updSess.mpr ⟨s, hm, rfl⟩, by simp, by simp [hp]⟩
  · exact ⟨_, List.mem_append.mpr (Or.inr (List.mem_singleton.mpr rfl)), rfl, rfl⟩

/-! ### events -/

/-- Exactly one session-new event per session ever created, at most one session-deleted event, never a deleted event
without (or before the only) new event; a live session has had its new event and no deleted event, a session that is
gone has had exactly as many deleted as new events — unless it ended as a CLIENT session (`handed`, M's ghost record of
`coap_session_release` freeing a session the application had taken over with coap_session_set_type_client: libcoap
raises no SERVER_SESSION_DEL for it, it is no server session any more): deleted + handed = new. -/
theorem one_new_one_del_per_session {st : St} (h : Reachable st) (x : Nat) :
    st.events.count (.new x) ≤ 1 ∧ st.events.count (.del x) ≤ st.events.count (.new x) ∧
    (x ∈ st.sids → st.events.count (.new x) = 1 ∧ st.events.count (.del x) = 0 ∧ st.events.count (.handed x) = 0) ∧
    (x ∉ st.sids → st.events.count (.del x) + st.events.count (.handed x) = st.events.count (.new x)) := by
  have hS := (reachable_inv h).S
  by_cases hx : x ∈ st.sids
  · have := hS.evLive x hx
    exact ⟨by omega, by omega, fun _ => this, fun c => absurd hx c⟩
  · have := hS.evDead x hx
    exact ⟨this.2, by omega, fun c => absurd c hx, fun _ => this.1⟩


/-! ### the idle limit -/

theorem oldestOf_spec : ∀ (l : List Sess) (acc : Option Sess), (acc.isSome ∨ l ≠ []) →
    ∃ o, oldestOf l acc = some o ∧ (o ∈ l ∨ acc = some o) ∧ (∀ s ∈ l, o.last ≤ s.last) ∧
      (∀ a, acc = some a → o.last ≤ a.last) := by
  intro l
  induction l with
  | nil =>
    intro acc h
    cases acc with
    | none => simp at h
    | some a => exact ⟨a, rfl, Or.inr rfl, by simp, by intro b hb; cases hb; exact Nat.le_refl _⟩
  | cons s t ih =>
    intro acc _
    cases acc with
    | none =>
      obtain ⟨o, h1, h2, h3, h4⟩ := ih (some s) (Or.inl rfl)
      refine ⟨o, by simpa [oldestOf] using h1, Or.inl ?_, ?_, by simp⟩
      · rcases h2 with h2 | h2
        · exact List.mem_cons_of_mem _ h2
        · cases h2; exact List.mem_cons_self
      · intro x hx
        rcases List.mem_cons.mp hx with rfl | hx
        · exact h4 _ rfl
        · exact h3 x hx
    | some a =>
      by_cases c : s.last < a.last
      · obtain ⟨o, h1, h2, h3, h4⟩ := ih (some s) (Or.inl rfl)
        refine ⟨o, by simpa [oldestOf, c] using h1, Or.inl ?_, ?_, ?_⟩
        · rcases h2 with h2 | h2
          · exact List.mem_cons_of_mem _ h2
          · cases h2; exact List.mem_cons_self
        · intro x hx
          rcases List.mem_cons.mp hx with rfl | hx
          · exact h4 _ rfl
          · exact h3 x hx
        · intro b hb; cases hb; have := h4 s rfl; omega
      · obtain ⟨o, h1, h2, h3, h4⟩ := ih (some a) (Or.inl rfl)
        refine ⟨o, by simpa [oldestOf, c] using h1, ?_, ?_, ?_⟩
        · rcases h2 with h2 | h2
          · exact Or.inl (List.mem_cons_of_mem _ h2)
          · exact Or.inr h2
        · intro x hx
          rcases List.mem_cons.mp hx with rfl | hx
          · have := h4 a rfl; omega
          · exact h3 x hx
        · exact h4

/-- what `reclaim` does when it fires: the session-deleted event, then `coap_session_free`: whatever hangs off the
session (the partly received PDU of a stream session) is released, the session is unlinked and freed -/
def freeSess (st : St) (sid : Nat) : St :=
  { (st.dropPartial sid) with
    events := st.events ++ [SEvent.del sid],
    sessions := st.sessions.filter (fun t => t.sid ≠ sid),
    ledger := (st.dropPartial sid).ledger ++ [.free sid] }

/-- When a datagram from a NEW peer arrives and the endpoint already has `max_idle_sessions` (> 0) or more idle sessions,
exactly one session is evicted before the new one is created: an idle session of that endpoint (reference count 0, no
delayed message) whose `last_rx_tx` is minimal among the idle ones; it gets its session-deleted event, then the new
session its session-new event, and the evicted session is gone. -/
theorem oldest_idle_evicted_at_limit {st : St} (h : Reachable st) (p : Peer) (hl : st.lookup p = none)
    (hm : 0 < st.maxIdle) (hn : st.maxIdle ≤ (st.idleOn p.lport p.proto).length) :
    ∃ o ∈ st.idleOn p.lport p.proto, (∀ s ∈ st.idleOn p.lport p.proto, o.last ≤ s.last) ∧
      (st.getSession p).1.events = st.events ++ [.del o.sid, .new st.next] ∧
      ∀ s ∈ (st.getSession p).1.sessions, s.sid ≠ o.sid := by
  have hI := (reachable_inv h).H
  have hne : st.idleOn p.lport p.proto ≠ [] := by
    intro e; rw [e] at hn; simp at hn; omega
  obtain ⟨o, ho, hmem, hmin, _⟩ := oldestOf_spec (st.idleOn p.lport p.proto) none (Or.inr hne)
  have hmem' : o ∈ st.idleOn p.lport p.proto := by
    rcases hmem with hmem | hmem
    · exact hmem
    · cases hmem
  have hidle : o.idle = true := (List.mem_filter.mp hmem').2
  have hoS : o ∈ st.sessions := (List.mem_filter.mp (List.mem_filter.mp hmem').1).1
  have href : o.ref = 0 := by
    unfold Sess.idle at hidle; simp at hidle; exact hidle.1
  refine ⟨o, hmem', hmin, ?_⟩
  -- the reclaim fires
  have hrec : st.reclaim o.sid = freeSess st o.sid := by
    unfold St.reclaim freeSess
    cases hg : st.getSess o.sid with
    | none =>
      unfold St.getSess at hg
      rw [List.find?_eq_none] at hg
      exact absurd (by simp) (hg o hoS)
    | some t =>
      obtain ⟨ht, hsid⟩ := getSess_some hg
      have : t.ref = 0 := by rw [hI.ref t ht, hsid, ← hI.ref o hoS]; exact href
      simp [this]
  have hcond : (decide (st.maxIdle > 0) && decide ((st.idleOn p.lport p.proto).length ≥ st.maxIdle)) = true := by
    simp; exact ⟨hm, hn⟩
  unfold St.getSession
  simp only [hl, hcond, if_true, ho, hrec]
  constructor
  · simp [St.newSession, freeSess, St.dropPartial]
  · intro s hs
    have hs' : s ∈ st.sessions.filter (fun t => t.sid ≠ o.sid) ++ [(⟨st.next, st.nsess, p, 0, st.now, 0, 0, 0, false, 0, false⟩ : Sess)] := hs
    rcases List.mem_append.mp hs' with h1 | h1
    · simpa using (List.mem_filter.mp h1).2
    · simp only [List.mem_singleton] at h1; subst h1
      have := hI.fresh o hoS
      show st.next ≠ o.sid
      omega


/-! ### teardown -/

theorem run_freed (st : St) (hf : st.freed = true) : ∀ es, st.run es = st := by
  intro es
  induction es with
  | nil => rfl
  | cons e t ih =>
    show St.run (st.step e).1 t = st
    have : (st.step e).1 = st := by unfold St.step; simp [hf]
    rw [this]; exact ih

theorem run_append (st : St) (a b : List Event) : st.run (a ++ b) = (st.run a).run b := by
  unfold St.run; rw [List.foldl_append]

def td1 (st : St) : St := st.releaseHolders (st.holders.filter fun h => isAnyObs h.kind)
def td2 (st : St) : St := (td1 st).releaseHolders ((td1 st).holders.filter fun h => isNode h.kind)
def td3 (st : St) : St := (td2 st).releaseHolders ((td2 st).holders.filter fun h => isAsync h.kind)

def td4 (st : St) : St := (td3 st).eps.foldl St.freeEndpoint (td3 st)
def tdEnd (st : St) : St :=
  { ((td4 st).freeObjs (td4 st).ctxObjs) with ctxObjs := [], resAlive := [], freed := true }

theorem step_free_eq (st : St) (hf : st.freed = false) : (st.step .freeContext).1 = tdEnd st := by
  unfold St.step
  simp only [hf, Bool.false_eq_true, if_false]
  rfl

/-- After `coap_free_context` — at ANY point of ANY history — M's allocation ledger is accepted by the verified
monitor: every object allocated since the context was created (sessions, the partly received PDUs hanging off stream
sessions, subscriptions, async entries, queue nodes, endpoints, resources, the context) has been freed exactly once,
nothing was freed twice or without having been allocated, and no session, partly received PDU, observer, async entry or
queued message is left. -/
theorem teardown_state_empty {st : St} (h : Reachable st) (hf : st.freed = false) :
    ledgerOk (st.step .freeContext).1.ledger = true ∧ (st.step .freeContext).1.sessions = [] ∧
    (st.step .freeContext).1.holders = [] ∧ (st.step .freeContext).1.freed = true ∧
    (st.step .freeContext).1.partials = [] := by
  have hI := reachable_inv h
  have h3 : Inv (td3 st) :=
    Inv.closed.releaseHolders (Inv.closed.releaseHolders (Inv.closed.releaseHolders hI _) _) _
  have h4 : Inv (td4 st) := (freeEndpoints_spec (td3 st).eps (td3 st) h3).1
  obtain ⟨hs, hh⟩ : (td4 st).sessions = [] ∧ (td4 st).holders = [] := freeEndpoints_empty h3
  have h5 : Inv (tdEnd st) := Inv.closed.teardownEnd _ h4
  have hp : (td4 st).partials = [] := by
    apply List.eq_nil_iff_forall_not_mem.mpr
    intro x hx
    obtain ⟨t, ht, _⟩ := h4.P x hx
    rw [hs] at ht; simp at ht
  rw [step_free_eq st hf]
  refine ⟨?_, hs, hh, rfl, hp⟩
  obtain ⟨live, hr, hc⟩ := h5.L
  have hnil : live = [] := by
    apply List.eq_nil_iff_forall_not_mem.mpr
    intro i hi
    have h1 : 0 < live.count i := List.count_pos_iff.mpr hi
    rw [hc i, objects_count] at h1
    have e1 : (tdEnd st).sids = [] := by show (td4 st).sessions.map _ = []; rw [hs]; rfl
    have e2 : (tdEnd st).allocHids = [] := by
      show ((td4 st).holders.filter _).map _ = []; rw [hh]; rfl
    have e3 : (tdEnd st).ctxObjs = [] := rfl
    have e4 : (tdEnd st).partialIds = [] := by show (td4 st).partials.map _ = []; rw [hp]; rfl
    rw [e1, e2, e3, e4] at h1
    simp at h1
  rw [ledgerOk_eq_true_iff, hr, hnil]

/-- the same for a history that goes on after the teardown (nothing that follows has any effect) -/
theorem teardown_ledger_empty (eps : List (Nat × Nat)) (nres : Nat) (es₁ es₂ : List Event)
    (hf : ((St.init eps nres).run es₁).freed = false) :
    ledgerOk ((St.init eps nres).run (es₁ ++ .freeContext :: es₂)).ledger = true := by
  have h := teardown_state_empty ⟨eps, nres, es₁, rfl⟩ hf
  rw [run_append]
  show ledgerOk (St.run (((St.init eps nres).run es₁).step .freeContext).1 es₂).ledger = true
  rw [run_freed _ h.2.2.2.1]
  exact h.1

/-- and at every moment before, every free in M's ledger hit a live object (no double free, no free of something
unallocated, in any prefix of any history) -/
theorem ledger_never_bad {st : St} (h : Reachable st) : NoDoubleFree st.ledger ∧ NoFreeOfUnallocated st.ledger := by
  obtain ⟨live, hr, _⟩ := (reachable_inv h).L
  have := (runLedger_isSome_iff st.ledger []).mp ⟨live, hr⟩
  obtain ⟨a, b⟩ := (goodFrom_nil_iff st.ledger).mp this
  exact ⟨b, a⟩


/-! ### the session timeout -/

/-- The reclamation test of `coap_io_prepare_io_lkd` applied to an idle session (reference count 0, no delayed
message) whose `last_rx_tx + session_timeout ≤ now` or whose connection is closed: the session gets its session-deleted
event and is gone.  This is the body of the SESSIONS_ITER_SAFE loop for one session of a reachable state. -/
theorem reclaim_step_deletes_timed_out {st : St} (h : Reachable st) (now : Nat) (s : Sess) (hs : s ∈ st.sessions)
    (hidle : s.idle = true) (ht : s.last + st.timeoutTicks ≤ now ∨ s.closed = true) :
    (st.reclaimStep now s.sid).events = st.events ++ [.del s.sid] ∧
    ∀ t ∈ (st.reclaimStep now s.sid).sessions, t.sid ≠ s.sid := by
  have hI := reachable_inv h
  have hg := getSess_of_mem hI.S hs
  have href : s.ref = 0 := by unfold Sess.idle at hidle; simp at hidle; exact hidle.1
  have hcond : (s.idle && s.expired st.timeoutTicks now) = true := by
    rw [Bool.and_eq_true]; exact ⟨hidle, (expired_iff s _ now).mpr ht⟩
  unfold St.reclaimStep
  simp only [hg, hcond, if_true]
  unfold St.reclaim
  simp only [hg, href, ne_eq, not_true_eq_false, if_false]
  refine ⟨trivial, ?_⟩
  intro u hu
  have hu' : u ∈ st.sessions.filter (fun x => x.sid ≠ s.sid) := hu
  simpa using (List.mem_filter.mp hu').2

/-- "Unreferenced idle server sessions are reclaimed after the session timeout": after a WHOLE I/O pass
`coap_io_prepare_io_lkd(ctx, …, now)` — notifications, delayed async responses, retransmissions, then the walk over
every endpoint's session table — from any reachable state and for any `now` argument, no session is left that is
unreferenced, has no delayed message, and whose `last_rx_tx + session_timeout ≤ now` — nor one whose connection is
closed (a stream session in state NONE). -/
theorem idle_reclaimed_after_timeout {st : St} (h : Reachable st) (now : Nat) :
    ∀ s ∈ (st.prepareIoAt now).sessions, ¬ (s.idle = true ∧ (s.last + st.timeoutTicks ≤ now ∨ s.closed = true)) := by
  have hI : Inv (st.preReclaim now) := Inv.closed.preReclaim (reachable_inv h) now
  intro s hs
  have := reclaimPass_deletes hI now s hs
  rw [preReclaim_timeoutTicks, expired_iff] at this
  exact this

/-- … and ONLY then: a session that is there when the reclamation loop of the pass starts and
is gone when the pass returns was UNREFERENCED, had no delayed message, and either `last_rx_tx + session_timeout ≤ now`
held for the `now` ARGUMENT of the pass — whatever the clock says, in particular also when handlers that ran earlier in
the same pass took time, so that `last_rx_tx` of some session is LATER than `now` — or its connection was closed (a stream
session the peer or the application has disconnected: `state == COAP_SESSION_STATE_NONE`).  The reference test guards
both: a closed session something still refers to is not reclaimed. -/
theorem reclaimed_only_after_timeout {st : St} (h : Reachable st) (now : Nat) (t : Sess)
    (ht : t ∈ (st.preReclaim now).sessions) (hgone : t ∉ (st.prepareIoAt now).sessions) :
    t.idle = true ∧ (t.last + st.timeoutTicks ≤ now ∨ t.closed = true) := by
  have hI : Inv (st.preReclaim now) := Inv.closed.preReclaim (reachable_inv h) now
  by_cases hc : t.idle = true ∧ (t.last + st.timeoutTicks ≤ now ∨ t.closed = true)
  · exact hc
  · exact absurd (reclaimPass_keeps hI now ht (by rw [preReclaim_timeoutTicks, expired_iff]; exact hc)) hgone

/-- for a session whose connection is open (every datagram session, every stream session that has not been
disconnected) this is the session timeout alone -/
theorem open_session_reclaimed_only_after_timeout {st : St} (h : Reachable st) (now : Nat) (t : Sess)
    (ht : t ∈ (st.preReclaim now).sessions) (hgone : t ∉ (st.prepareIoAt now).sessions) (ho : t.closed = false) :
    t.idle = true ∧ t.last + st.timeoutTicks ≤ now := by
  obtain ⟨h1, h2⟩ := reclaimed_only_after_timeout h now t ht hgone
  rcases h2 with h2 | h2
  · exact ⟨h1, h2⟩
  · rw [ho] at h2; cases h2

/-- "A session stays valid while the application, an observation, an async entry or a queued message refers to it" —
through a whole I/O pass, whatever the session's state: a session that has a holder (`ref ≠ 0`) when the reclamation loop
starts — in particular a stream session whose peer has closed the connection (`closed`, state NONE) while the application or
an async entry still holds it, and however long ago it was last used — is still in its endpoint's table when the pass
returns and has no session-deleted event. -/
theorem referenced_session_survives_pass {st : St} (h : Reachable st) (now : Nat) (t : Sess)
    (ht : t ∈ (st.preReclaim now).sessions) (hr : t.ref ≠ 0) :
    t ∈ (st.prepareIoAt now).sessions ∧ (st.prepareIoAt now).events.count (.del t.sid) = 0 := by
  have hI : Inv (st.preReclaim now) := Inv.closed.preReclaim (reachable_inv h) now
  have hk : t ∈ (st.prepareIoAt now).sessions := by
    apply reclaimPass_keeps hI now ht
    intro hc
    have := hc.1
    unfold Sess.idle at this
    simp at this
    exact hr this.1
  have hI' : Inv (st.prepareIoAt now) := Inv.closed.prepareIoAt (reachable_inv h) now
  exact ⟨hk, (hI'.S.evLive t.sid (List.mem_map.mpr ⟨t, hk, rfl⟩)).2.1⟩

/-- A session with an open connection that was used at or after the `now` of the pass (its `last_rx_tx ≥ now`: e.g. the
delayed response of a slow handler has just been sent on it and its async entry — the only reference — has been dropped)
survives the pass: it is still in the table, with the same reference count and `last_rx_tx`, and has no session-deleted
event, so the peer's next datagram is handled by the same session (`same_peer_same_session`). -/
theorem session_used_after_now_survives {st : St} (h : Reachable st) (now : Nat) (t : Sess)
    (ht : t ∈ (st.preReclaim now).sessions) (hu : now ≤ t.last) (ho : t.closed = false) :
    t ∈ (st.prepareIoAt now).sessions ∧ (st.prepareIoAt now).events.count (.del t.sid) = 0 := by
  have hI : Inv (st.preReclaim now) := Inv.closed.preReclaim (reachable_inv h) now
  have hpos := timeoutTicks_pos (st.preReclaim now)
  have hk : t ∈ (st.prepareIoAt now).sessions :=
    reclaimPass_keeps hI now ht (by
      rw [expired_iff]
      intro hc
      rcases hc.2 with h2 | h2
      · omega
      · rw [ho] at h2; cases h2)
  refine ⟨hk, ?_⟩
  have hI' : Inv (st.prepareIoAt now) := Inv.closed.prepareIoAt (reachable_inv h) now
  exact (hI'.S.evLive t.sid (List.mem_map.mpr ⟨t, hk, rfl⟩)).2.1

/-! ### what hangs off a session goes with it -/

/-- In every reachable state every partly received PDU (`session->partial_pdu` of a stream session) that M's ledger
holds live belongs to a session that is in its endpoint's table: no such PDU outlives its session — whichever way the
session went (session timeout, closed connection, context teardown), the PDU was released with it … -/
theorem partial_pdu_hangs_off_live_session {st : St} (h : Reachable st) :
    ∀ x ∈ st.partials, ∃ s ∈ st.sessions, s.sid = x.2 :=
  (reachable_inv h).P

/-- … because the operation that frees a session (`SESSION_DEL; coap_session_free` → `coap_session_mfree`) frees, when
it fires, exactly the session's partly received PDU(s) and then the session: the ledger grows by these frees and the
other sessions' PDUs stay. -/
theorem reclaim_releases_partial_pdu {st : St} (h : Reachable st) (s : Sess) (hs : s ∈ st.sessions) (hr : s.ref = 0) :
    (st.reclaim s.sid).ledger =
      st.ledger ++ ((st.partials.filter (fun x => x.2 == s.sid)).map fun x => .free x.1) ++ [.free s.sid] ∧
    (st.reclaim s.sid).partials = st.partials.filter (fun x => x.2 != s.sid) ∧
    ∀ t ∈ (st.reclaim s.sid).sessions, t.sid ≠ s.sid := by
  have hg := getSess_of_mem (reachable_inv h).S hs
  unfold St.reclaim
  simp only [hg, hr, ne_eq, not_true_eq_false, if_false]
  refine ⟨rfl, rfl, ?_⟩
  intro u hu
  have hu' : u ∈ st.sessions.filter (fun x => x.sid ≠ s.sid) := hu
  simpa using (List.mem_filter.mp hu').2

/-! ### call home: a server session the application takes over as a client session (seed C12-17) -/

/-- `coap_session_set_type_client(session)` on a SERVER datagram session takes exactly ONE reference, and the application
holds it: the holders grow by the application's call-home token, the session's reference count grows by one and its type
becomes CLIENT; every other session is untouched; nothing is allocated, freed or announced — the session stays where it
is, in its endpoint's table. -/
theorem call_home_takes_one_reference (st : St) (p : Peer) (s : Sess) (hf : st.freed = false) (hl : st.lookup p = some s)
    (hc : s.client = false) (hr : p.reliable = false) :
    (st.step (.callHome p)).1.holders = st.holders ++ [⟨0, s.sid, .home⟩] ∧
    (st.step (.callHome p)).1.sessions =
      st.sessions.map (fun t => if t.sid = s.sid then { t with client := true, ref := t.ref + 1 } else t) ∧
    (st.step (.callHome p)).1.ledger = st.ledger ∧ (st.step (.callHome p)).1.events = st.events := by
  unfold St.step
  simp only [hf, Bool.false_eq_true, if_false, hl, hc, hr, Bool.or_self]
  refine ⟨by simp [St.addHolder, HKind.isAlloc], ?_, by simp [St.addHolder, HKind.isAlloc, St.updSess],
    by simp [St.addHolder, HKind.isAlloc, St.updSess]⟩
  simp only [St.addHolder, HKind.isAlloc, Bool.false_eq_true, if_false, St.updSess, List.map_map]
  apply List.map_congr_left
  intro t _
  by_cases e : t.sid = s.sid <;> simp [e, Sess.reference]

/-- `coap_session_release_lkd` frees nothing on a SERVER session (it idles at 0 and waits for the timeout / the idle limit /
the teardown) and nothing while a reference is left: the free at its end is the identity on such a session. -/
theorem release_frees_only_unreferenced_client_sessions {st : St} (h : Reachable st) (s : Sess) (hs : s ∈ st.sessions)
    (hc : s.client = false ∨ s.ref ≠ 0) : st.clientFree s.sid = st := by
  have hg := getSess_of_mem (reachable_inv h).S hs
  unfold St.clientFree
  rcases hc with hc | hc <;> simp [hg, hc]

/-- … and on a CLIENT session whose last reference has just gone it is `coap_session_free`: what hangs off the session is
released, the session is UNLINKED FROM THE TABLE IT LIVES IN — its endpoint's, whatever `session->type` says — and
freed exactly once; no SERVER_SESSION_DEL is raised (the ghost event `handed` records the end). -/
theorem client_free_releases_and_unlinks {st : St} (hS : SInv st) (s : Sess) (hs : s ∈ st.sessions) (hr : s.ref = 0)
    (hc : s.client = true) :
    (st.clientFree s.sid).ledger =
      st.ledger ++ ((st.partials.filter (fun x => x.2 == s.sid)).map fun x => .free x.1) ++ [.free s.sid] ∧
    (st.clientFree s.sid).partials = st.partials.filter (fun x => x.2 != s.sid) ∧
    (st.clientFree s.sid).sessions = st.sessions.filter (fun t => t.sid ≠ s.sid) ∧
    (st.clientFree s.sid).events = st.events ++ [.handed s.sid] ∧
    (st.clientFree s.sid).holders = st.holders := by
  have hg := getSess_of_mem hS hs
  unfold St.clientFree
  simp only [hg, hr, hc, ne_eq, not_true_eq_false, Bool.not_true, Bool.or_self, Bool.false_eq_true, decide_false, if_false]
  refine ⟨?_, ?_, ?_, ?_, ?_⟩ <;> first | rfl | trivial

/-- The end of a call-home session (D16: the application lets go last — `ref = 1`, its own token): after
`coap_session_release(session)` the session is in NO table any more — the peer has no session, so its next datagram is
served by a fresh one (`St.getSession` with `lookup = none`) —, no holder points at it, the only holder that went is the
application's token, the ledger grew by exactly the frees of what hung off the session and ONE free of the session, and
no session-deleted event was raised.  (That the ledger of the WHOLE history is accepted by `ledgerOk` after
`coap_free_context` — nothing freed twice, nothing left — is `teardown_ledger_empty`, which holds for histories with
call-home events like for all others.) -/
theorem end_call_home_frees_and_unlinks {st : St} (h : Reachable st) (p : Peer) (s : Sess) (x : Holder)
    (hf : st.freed = false) (hl : st.lookup p = some s) (hx : st.findHolder s.sid isHome = some x) (hr : s.ref = 1)
    (hc : s.client = true) :
    (st.step (.endCallHome p)).1.lookup p = none ∧
    (∀ t, t ∈ (st.step (.endCallHome p)).1.sessions ↔ t ∈ st.sessions ∧ t.sid ≠ s.sid) ∧
    (st.step (.endCallHome p)).1.holders = st.holders.erase x ∧
    (∀ y ∈ (st.step (.endCallHome p)).1.holders, y.sid ≠ s.sid) ∧
    (st.step (.endCallHome p)).1.ledger =
      st.ledger ++ ((st.partials.filter (fun y => y.2 == s.sid)).map fun y => .free y.1) ++ [.free s.sid] ∧
    (st.step (.endCallHome p)).1.events = st.events ++ [.handed s.sid] := by
  have hI := reachable_inv h
  have hI' : Inv (st.step (.endCallHome p)).1 := Inv.closed.step hI _
  obtain ⟨hsm, hsp⟩ := lookup_some hl
  obtain ⟨hxm, hxs, _⟩ := findHolder_some hx
  have hstep : (st.step (.endCallHome p)).1 = (st.dropHolder x).clientFree s.sid := by
    unfold St.step
    simp only [hf, Bool.false_eq_true, if_false, hl, hx, hr, ne_eq, not_true_eq_false]
  rw [hstep] at hI' ⊢
  have hI1 : Inv (st.dropHolder x) := Inv.closed.dropHolder _ _ hI
  -- the session after the release
  have hd : st.dropHolder x = { (st.updSess s.sid Sess.release) with
      holders := st.holders.erase x, ledger := st.ledger } := by
    unfold St.dropHolder; simp [hxm, hxs, (show x.kind.isAlloc = false by
      cases hk : x.kind <;> simp_all [isHome, HKind.isAlloc])]
  have hs1 : Sess.release s ∈ (st.dropHolder x).sessions := by
    rw [hd]; exact mem_updSess.mpr ⟨s, hsm, by simp⟩
  have hcf := client_free_releases_and_unlinks hI1.S (Sess.release s) hs1 (by simp [Sess.release, hr])
    (by simp [Sess.release, hc])
  have hsid : (Sess.release s).sid = s.sid := rfl
  rw [hsid] at hcf
  obtain ⟨hL, _, hSs, hE, hH⟩ := hcf
  have hmem : ∀ t, t ∈ ((st.dropHolder x).clientFree s.sid).sessions ↔ t ∈ st.sessions ∧ t.sid ≠ s.sid := by
    intro t
    rw [hSs, List.mem_filter, hd]
    constructor
    · rintro ⟨ht, hne⟩
      obtain ⟨u, hu, e⟩ := mem_updSess.mp ht
      have hne' : t.sid ≠ s.sid := by simpa using hne
      by_cases c : u.sid = s.sid
      · rw [if_pos c] at e; subst e; exact absurd c hne'
      · rw [if_neg c] at e; subst e; exact ⟨hu, hne'⟩
    · rintro ⟨ht, hne⟩
      exact ⟨mem_updSess.mpr ⟨t, ht, by simp [hne]⟩, by simpa using hne⟩
  have hnone : ∀ t ∈ ((st.dropHolder x).clientFree s.sid).sessions, t.sid ≠ s.sid := fun t ht => ((hmem t).mp ht).2
  refine ⟨?_, hmem, ?_, ?_, ?_, ?_⟩
  · unfold St.lookup
    rw [List.find?_eq_none]
    intro t ht
    obtain ⟨htm, hne⟩ := (hmem t).mp ht
    rcases pairwise_mem hI.S.pw htm hsm with e | r | r
    · subst e; exact absurd rfl hne
    · simpa [hsp] using r.1
    · simpa [hsp] using fun e : t.peer = p => r.1 (e ▸ hsp)
  · rw [hH, hd]
  · intro y hy e
    obtain ⟨t, ht, e'⟩ := hI'.H.live y hy
    exact hnone t ht (e'.trans e)
  · rw [hL, hd]; rfl
  · rw [hE, hd]; rfl

/-! ### D16 lifted (round R12c): the call-home reference may be released at ANY time -/

/-- what `coap_session_release_lkd` leaves of the session when holder `x` lets go -/
theorem released_session_mem {st : St} (x : Holder) (hx : x ∈ st.holders) (s : Sess) (hs : s ∈ st.sessions)
    (hsx : s.sid = x.sid) : Sess.release s ∈ (st.dropHolder x).sessions := by
  unfold St.dropHolder
  rw [if_pos hx]
  exact mem_updSess.mpr ⟨s, hs, by simp [hsx]⟩

/-- THE LAST RELEASE, from whatever code path (`St.releaseHolder` is what every library object does when it goes: an
observation in coap_delete_observer, an async entry in coap_free_async_sub, a queued message in coap_delete_node_lkd, the
application's coap_session_release): if the holder that goes is the only one left (`ref = 1`) on a session the application
has turned into a CLIENT session, the session is in no table afterwards, the holder is gone and NO holder points at the
session (nothing dangling), the ledger grew by the holder's own free, the frees of what hung off the session and ONE
free of the session, and the only event is the ghost `handed` (no session-deleted event). -/
theorem last_release_frees_client_session {st : St} (h : Reachable st) (x : Holder) (hx : x ∈ st.holders) (s : Sess)
    (hs : s ∈ st.sessions) (hsx : s.sid = x.sid) (hr : s.ref = 1) (hc : s.client = true) :
    (∀ t ∈ (st.releaseHolder x).sessions, t.sid ≠ s.sid) ∧
    (st.releaseHolder x).holders = st.holders.erase x ∧
    (∀ y ∈ (st.releaseHolder x).holders, y.sid ≠ s.sid) ∧
    (st.releaseHolder x).ledger = (st.dropHolder x).ledger ++
      (((st.dropHolder x).partials.filter (fun y => y.2 == s.sid)).map fun y => .free y.1) ++ [.free s.sid] ∧
    (st.releaseHolder x).events = st.events ++ [.handed s.sid] := by
  have hI := reachable_inv h
  have hI1 : Inv (st.dropHolder x) := Inv.closed.dropHolder _ _ hI
  have hI' : Inv (st.releaseHolder x) := Inv.closed.releaseHolder hI x
  have hs1 := released_session_mem x hx s hs hsx
  have hcf := client_free_releases_and_unlinks hI1.S (Sess.release s) hs1 (by simp [Sess.release, hr])
    (by simp [Sess.release, hc])
  have hsid : (Sess.release s).sid = s.sid := rfl
  rw [hsid] at hcf
  have hrel : st.releaseHolder x = (st.dropHolder x).clientFree s.sid := by unfold St.releaseHolder; rw [hsx]
  rw [hrel] at hI' ⊢
  obtain ⟨hL, _, hSs, hE, hH⟩ := hcf
  have hnone : ∀ t ∈ ((st.dropHolder x).clientFree s.sid).sessions, t.sid ≠ s.sid := by
    intro t ht
    rw [hSs, List.mem_filter] at ht
    simpa using ht.2
  have hdh : (st.dropHolder x).holders = st.holders.erase x := by unfold St.dropHolder; rw [if_pos hx]
  have hde : (st.dropHolder x).events = st.events := by unfold St.dropHolder; rw [if_pos hx]; rfl
  refine ⟨hnone, by rw [hH, hdh], ?_, hL, by rw [hE, hde]⟩
  intro y hy e
  obtain ⟨t, ht, e'⟩ := hI'.H.live y hy
  exact hnone t ht (e'.trans e)

/-- … and while ANOTHER reference is left, or on a server session, the release frees nothing: it is the plain
`--ref` + unlink of the holder (`St.dropHolder`), the session stays where it is. -/
theorem release_keeps_referenced_session {st : St} (h : Reachable st) (x : Holder) (hx : x ∈ st.holders) (s : Sess)
    (hs : s ∈ st.sessions) (hsx : s.sid = x.sid) (hc : s.client = false ∨ s.ref ≠ 1) :
    st.releaseHolder x = st.dropHolder x ∧ Sess.release s ∈ (st.releaseHolder x).sessions := by
  have hI := reachable_inv h
  have hI1 : Inv (st.dropHolder x) := Inv.closed.dropHolder _ _ hI
  have hs1 := released_session_mem x hx s hs hsx
  have hg := getSess_of_mem hI1.S hs1
  have hpos : 0 < s.ref := by
    rw [hI.H.ref s hs]
    unfold St.holds
    exact List.countP_pos_iff.mpr ⟨x, hx, by simp [hsx]⟩
  have hrel : st.releaseHolder x = st.dropHolder x := by
    unfold St.releaseHolder St.clientFree
    rw [← hsx]
    have hsid : (Sess.release s).sid = s.sid := rfl
    rw [hsid] at hg
    rcases hc with hc | hc
    · simp [hg, Sess.release, hc]
    · have : s.ref - 1 ≠ 0 := by omega
      simp [hg, Sess.release, this]
  exact ⟨hrel, by rw [hrel]; exact hs1⟩

/-- `coap_session_release(session)` with the call-home reference at ANY time: the step is the release of the application's
token in full -/
theorem end_call_home_is_release (st : St) (p : Peer) (s : Sess) (x : Holder) (hf : st.freed = false)
    (hl : st.lookup p = some s) (hx : st.findHolder s.sid isHome = some x) :
    (st.step (.endCallHome p)).1 = st.releaseHolder x ∧ (st.step (.endCallHome p)).2 = .ok := by
  obtain ⟨_, hxs, _⟩ := findHolder_some hx
  have hxs' : x.sid = s.sid := by simpa using hxs
  unfold St.step St.releaseHolder
  simp only [hf, Bool.false_eq_true, if_false, hl, hx, hxs', and_self]

/-- EARLY release (D16 lifted): the application lets its call-home reference go while something else still refers to the
session (`ref ≠ 1`: an observation, an async entry, a queued message, a reference of its own).  Nothing is freed: the
session stays in its endpoint's table as a CLIENT session with one reference less, the only holder that went is the
application's token, ledger and events are unchanged — from now on the session's life ends with its LAST holder
(`last_release_frees_client_session`), wherever that one lets go. -/
theorem early_release_keeps_session {st : St} (h : Reachable st) (p : Peer) (s : Sess) (x : Holder)
    (hf : st.freed = false) (hl : st.lookup p = some s) (hx : st.findHolder s.sid isHome = some x) (hr : s.ref ≠ 1) :
    Sess.release s ∈ (st.step (.endCallHome p)).1.sessions ∧
    (st.step (.endCallHome p)).1.holders = st.holders.erase x ∧
    (st.step (.endCallHome p)).1.ledger = st.ledger ∧ (st.step (.endCallHome p)).1.events = st.events := by
  obtain ⟨hsm, _⟩ := lookup_some hl
  obtain ⟨hxm, hxs, hk⟩ := findHolder_some hx
  have hxs' : s.sid = x.sid := by simpa using hxs.symm
  rw [(end_call_home_is_release st p s x hf hl hx).1]
  obtain ⟨hrel, hmem⟩ := release_keeps_referenced_session h x hxm s hsm hxs' (Or.inr hr)
  refine ⟨hmem, ?_, ?_, ?_⟩ <;> rw [hrel] <;> unfold St.dropHolder <;> rw [if_pos hxm]
  · have : x.kind.isAlloc = false := by
      revert hk; cases x.kind <;> simp [isHome, HKind.isAlloc]
    simp [this]
  · rfl

/-- A session the application has taken over is never reclaimed by an I/O pass, however long it is idle (the reclamation
walk and the idle accounting are for `type == COAP_SESSION_TYPE_SERVER`): it is the application's to end. -/
theorem client_session_survives_pass {st : St} (h : Reachable st) (now : Nat) (t : Sess)
    (ht : t ∈ (st.preReclaim now).sessions) (hc : t.client = true) :
    t ∈ (st.prepareIoAt now).sessions ∧ (st.prepareIoAt now).events.count (.del t.sid) = 0 := by
  have hI : Inv (st.preReclaim now) := Inv.closed.preReclaim (reachable_inv h) now
  have hk : t ∈ (st.prepareIoAt now).sessions := by
    apply reclaimPass_keeps hI now ht
    intro hx
    have := hx.1
    unfold Sess.idle at this
    simp [hc] at this
  have hI' : Inv (st.prepareIoAt now) := Inv.closed.prepareIoAt (reachable_inv h) now
  exact ⟨hk, (hI'.S.evLive t.sid (List.mem_map.mpr ⟨t, hk, rfl⟩)).2.1⟩


/-! ### round R12d: "a CLIENT-type session that sits in a table is referenced" as a GLOBAL invariant -/

/-- The invariant is inductive for ANY state that satisfies it together with `Inv` (not only reachable ones), over
every event: the formulation that works is over the WHOLE `coap_session_release_lkd` (`St.releaseHolder` = `--ref` + the
free test), the release/reference pair of coap_add_observer's token replacement, releases on sessions that are not client
sessions, and coap_session_disconnected_lkd under D17 — the raw `--ref` (`St.dropHolder`) alone breaks it (example
below), which is why it does not fit `Closed`. -/
theorem client_invariant_step {st : St} (hI : Inv st) (hC : CInv st) (e : Event) :
    Inv (st.step e).1 ∧ CInv (st.step e).1 :=
  let j := J.step ⟨hI, hC⟩ e
  ⟨j.I, j.C⟩

/-- In EVERY reachable state — after any history of datagrams, stream traffic, observations, notifications, Resets, ACKs,
async entries, Confirmables, call home, releases in any order, I/O passes, disconnects, teardown — every session of
`type == COAP_SESSION_TYPE_CLIENT` that sits in an endpoint's table has `ref ≥ 1`, at least one holder object points at
it, and it is a datagram session.  (What the oracle checked after every event since round R12c.) -/
theorem client_session_in_table_is_referenced {st : St} (h : Reachable st) :
    ∀ s ∈ st.sessions, s.client = true → 1 ≤ s.ref ∧ 1 ≤ st.holds s.sid ∧ s.peer.reliable = false := by
  obtain ⟨eps, nres, es, rfl⟩ := h
  intro s hs hc
  have j := J.run eps nres es
  have h1 := j.C s hs hc
  exact ⟨h1.1, by rw [← j.I.H.ref s hs]; exact h1.1, h1.2⟩

/-- Corollary: between events an unreferenced session is a SERVER session, so the `type == COAP_SESSION_TYPE_SERVER`
conjunct of the idle test (eviction scan of coap_endpoint_get_session, reclamation test of coap_io_prepare_io_lkd) only
matters in the middle of an event: `idle` is `ref == 0 && delayqueue == NULL`. -/
theorem unreferenced_session_is_server_session {st : St} (h : Reachable st) (s : Sess) (hs : s ∈ st.sessions)
    (hr : s.ref = 0) : s.client = false ∧ s.idle = (s.ref == 0 && s.delayq == 0) := by
  have hc : s.client = false := by
    cases hc : s.client with
    | false => rfl
    | true => have := (client_session_in_table_is_referenced h s hs hc).1; omega
  exact ⟨hc, by simp [Sess.idle, hc]⟩


/-- Round R12d, client sessions PROPER (`coap_new_client_session` on the same context, lifetime slice): the call creates
ONE new session object (ledger `alloc`, owned by the context) and touches nothing of the endpoints' tables — the sessions,
the peer ⇀ session map (`lookup`, so `peer_session_functional_injective` stays a statement about the sessions born on
endpoints and the client session is OUTSIDE that map), the holders and the SERVER_SESSION_NEW/DEL event log are unchanged.
All theorems above are statements over `Reachable`, i.e. over histories that MIX these calls with everything else;
`teardown_ledger_empty` then says that `coap_free_context` with such sessions still referenced by the application frees
every one of them exactly once (after fix a610d3d). -/
theorem own_client_session_outside_peer_map (st : St) (hf : st.freed = false) (k : Nat) :
    (st.step (.ownClient k)).1.sessions = st.sessions ∧ (st.step (.ownClient k)).1.events = st.events ∧
    (st.step (.ownClient k)).1.holders = st.holders ∧ (∀ p, (st.step (.ownClient k)).1.lookup p = st.lookup p) ∧
    (st.step (.ownClient k)).1.ledger = st.ledger ++ [.alloc st.next] ∧
    (st.step (.ownClient k)).1.ctxObjs = st.ctxObjs ++ [st.next] ∧ (st.step (.ownClient k)).1.nown = st.nown + 1 := by
  simp [St.step, hf, St.newOwned, St.lookup]


/-! ### non-vacuity: concrete histories -/

def pA : Peer := ⟨1, 0, 1⟩
def pB : Peer := ⟨2, 0, 1⟩
def st0 : St := St.init [(0, 1), (1, 1)] 4

/-- a history with a request, an observation, an application reference and a queued CON reaches a state with a
session of reference count 3 -/
example : ((st0.run [.rx pA .plain, .rx pA (.obsReg 0 0 0), .appRef pA, .ping pA]).sessions.map (·.ref)) = [3] := by decide

/-- re-registration of /o0 under a new token: still ONE subscription and reference count 1; a different query is a
second observation (count 2) -/
example : let st := st0.run [.rx pA (.obsReg 0 0 0), .rx pA (.obsReg 0 0 1)]
    st.sessions.map (·.ref) = [1] ∧ st.holders.map (·.kind) = [.obs 0 0 1 0] := by decide
example : ((st0.run [.rx pA (.obsReg 0 0 0), .rx pA (.obsReg 0 1 1)]).sessions.map (·.ref)) = [2] := by decide

/-- the hypotheses of `reregistration_keeps_refcount` and `rst_releases_exactly_one` are satisfiable -/
example : let st := st0.run [.rx pA (.obsReg 0 0 0)]
    st.findHolder 8 (isObsTok 0 1) = none ∧ (st.findHolder 8 (isObsKey 0 0)).isSome = true := by decide
example : let st := st0.run [.rx pA (.obsReg 0 0 0), .rx pA (.obsReg 1 0 0), .changed 0, .io]
    (st.findHolder 8 (hasNote 1)).isSome = true ∧ st.sessions.map (·.ref) = [2] := by decide

/-- two observations, /o0 changes, the peer resets the notification: ONE reference goes, the session survives the
session timeout because /o1 still observes; with the second observation cancelled as well it is reclaimed -/
example : let st := st0.run [.rx pA (.obsReg 0 0 0), .rx pA (.obsReg 1 0 0), .changed 0, .io, .noteRst pA 0,
      .advance 300001, .io]
    st.sessions.map (·.ref) = [1] ∧ st.events = [.new 8] := by decide
example : (st0.run [.rx pA (.obsReg 0 0 0), .rx pA (.obsReg 1 0 0), .changed 0, .io, .noteRst pA 0,
      .rx pA (.obsDereg 1 0 0), .advance 300001, .io]).events = [.new 8, .del 8] := by decide

/-- a Reset for an older notification cancels nothing -/
example : ((st0.run [.rx pA (.obsReg 0 0 0), .changed 0, .io, .changed 0, .io, .noteRst pA 1]).sessions.map (·.ref)) = [1] := by
  decide

/-- teardown while the application still holds its reference: everything is released, DEL is raised (D13) -/
example : let st := st0.run [.rx pA .plain, .appRef pA, .freeContext]
    ledgerOk st.ledger = true ∧ st.events = [.new 8, .del 8] := by decide

/-- idle limit 1: the second peer evicts the first -/
example : (st0.run [.setMaxIdle 1, .rx pA .plain, .advance 5, .rx pB .plain]).events = [.new 8, .del 8, .new 9] := by decide

/-- a delayed response: the request is parked for 40 ms, the handler takes 5 ms to produce the answer when libcoap
re-invokes it from the I/O pass that started at 1040; the response leaves at 1045, the async entry is dropped; the
session (reference count 0, `last_rx_tx` = 1045 > `now` of the pass) is NOT reclaimed, the peer's next request is handled
by the same session -/
example : let st := st0.run [.rx pA (.slow 40 5), .advance 40, .io]
    st.sessions.map (fun s => (s.ref, s.last)) = [(0, 1045)] ∧ st.events = [.new 8] ∧ st.holders = [] ∧ st.now = 1045 := by
  decide
example : (st0.run [.rx pA (.slow 40 5), .advance 40, .io, .rx pA .plain, .freeContext]).events = [.new 8, .del 8] := by decide
/-- the hypotheses of `session_used_after_now_survives` are satisfiable with `now < last_rx_tx` -/
example : let st := st0.run [.rx pA (.slow 40 5), .advance 40]
    (st.preReclaim st.now).sessions.map (fun s => (s.idle, decide (st.now < s.last))) = [(true, true)] := by decide
/-- the handler takes longer than the session timeout (1 s): still not reclaimed in that pass nor in the next one at
once, but 1 s after the response -/
example : let st := st0.run [.setTimeout 1, .rx pA (.slow 40 2000), .advance 40, .io, .io]
    st.sessions.map (fun s => (s.ref, s.last)) = [(0, 3040)] ∧ st.events = [.new 8] := by decide
example : (st0.run [.setTimeout 1, .rx pA (.slow 40 2000), .advance 40, .io, .advance 1000, .io]).events = [.new 8, .del 8] := by
  decide
/-- an I/O pass with a `now` that the application read 3 ms before the session's last datagram -/
example : (st0.run [.setTimeout 1, .rx pA .plain, .advance 5, .rx pA .plain, .ioStale 3, .advance 999, .io]).events = [.new 8] := by
  decide
example : (st0.run [.setTimeout 1, .rx pA .plain, .advance 5, .rx pA .plain, .ioStale 3, .advance 1000, .ioStale 0]).events =
    [.new 8, .del 8] := by decide

/-! stream sessions (CoAP over TCP): context with two UDP endpoints and one TCP endpoint, 5 resources: ledger ids 1..9 -/
def pS : Peer := ⟨50, 2, COAP_PROTO_TCP⟩
def st1 : St := St.init [(0, COAP_PROTO_UDP), (1, COAP_PROTO_UDP), (2, COAP_PROTO_TCP)] 5

/-- a stream peer connects, the application takes a reference, the peer closes the connection: the session stays
(closed, reference count 1) through I/O passes and far beyond the session timeout, without a session-deleted event … -/
example : let st := st1.run [.connect pS, .appRef pS, .peerClose pS, .io, .advance 400000, .io]
    st.sessions.map (fun s => (s.ref, s.closed)) = [(1, true)] ∧ st.events = [.new 10] := by decide
/-- … and is reclaimed by the first pass after the release (no timeout needed: the connection is gone) -/
example : (st1.run [.connect pS, .appRef pS, .peerClose pS, .io, .appRelease pS]).events = [.new 10] := by decide
example : (st1.run [.connect pS, .appRef pS, .peerClose pS, .io, .appRelease pS, .io]).events = [.new 10, .del 10] := by
  decide
/-- the same with an async entry as the only holder, and with a delayed response that fires on the closed session
(nothing is sent: `last_rx_tx` stays; the entry is dropped and the same pass reclaims the session) -/
example : let st := st1.run [.connect pS, .rx pS .async, .peerClose pS, .io]
    st.sessions.map (fun s => (s.ref, s.closed)) = [(1, true)] ∧ st.events = [.new 10] := by decide
example : (st1.run [.connect pS, .rx pS .async, .peerClose pS, .io, .asyncFree pS, .io]).events = [.new 10, .del 10] := by
  decide
example : let st := st1.run [.connect pS, .rx pS (.slow 40 5), .peerClose pS, .advance 40, .io]
    st.events = [.new 10, .del 10] ∧ st.now = 1045 ∧ st.holders = [] := by decide
/-- an unreferenced session is reclaimed by the pass that ends the event in which the peer closes the connection -/
example : (st1.run [.connect pS, .rx pS .plain, .peerClose pS]).events = [.new 10, .del 10] := by decide
/-- the hypotheses of `referenced_session_survives_pass` are satisfiable with a CLOSED session -/
example : let st := st1.run [.connect pS, .appRef pS, .peerClose pS]
    (st.preReclaim st.now).sessions.map (fun s => (s.closed, decide (s.ref ≠ 0))) = [(true, true)] := by decide

/-- the peer stops in the middle of a message: from the 3rd byte on the partly received PDU (ledger id 11) hangs off
the session (10); the rest of the message releases it -/
example : (st1.run [.connect pS, .partialRx pS 2]).partials = [] ∧
    (st1.run [.connect pS, .partialRx pS 3]).partials = [(11, 10)] ∧
    (st1.run [.connect pS, .partialRx pS 23, .restRx pS]).partials = [] := by decide
/-- `coap_free_context` with the partial PDU still there: it is freed (before its session), the ledger is clean -/
example : let st := st1.run [.connect pS, .partialRx pS 23, .freeContext]
    ledgerOk st.ledger = true ∧ st.partials = [] ∧ st.ledger.drop 11 = [.free 11, .free 10, .free 1, .free 2, .free 3,
      .free 4, .free 5, .free 6, .free 7, .free 8, .free 9] := by decide
/-- the peer stays silent in the middle of the message until the session timeout (1 s): the pass reclaims the session and
releases the PDU with it; the peer closes the connection in the middle of the message: the same -/
example : let st := st1.run [.setTimeout 1, .connect pS, .partialRx pS 23, .advance 1000, .io]
    st.events = [.new 10, .del 10] ∧ st.partials = [] ∧ st.ledger.drop 11 = [.free 11, .free 10] := by decide
example : let st := st1.run [.connect pS, .partialRx pS 23, .appRef pS, .peerClose pS]
    st.partials = [] ∧ st.sessions.map (fun s => (s.ref, s.closed, s.pend)) = [(1, true, 0)] ∧
      st.ledger.drop 11 = [.free 11] := by decide
/-- the hypotheses of `reclaim_releases_partial_pdu` are satisfiable with a PDU to release -/
example : let st := st1.run [.connect pS, .partialRx pS 23]
    st.sessions.map (fun s => (s.sid, s.ref)) = [(10, 0)] ∧ st.partials.filter (fun x => x.2 == 10) = [(11, 10)] := by decide
/-- the idle limit is that of `coap_endpoint_get_session` (datagram endpoints): accepting a connection evicts nothing -/
example : (st1.run [.setMaxIdle 1, .connect pS, .connect ⟨51, 2, COAP_PROTO_TCP⟩]).events = [.new 10, .new 11] := by decide

/-! ### Confirmables of a session: the delay queue (NSTART) and the replies that end an exchange (seeds C12-10, C12-12) -/

/-- ANY reply that matches the Confirmable a session has outstanding ends the exchange in the same way: an empty ACK, an
ACK that coap_dispatch classifies as a bad packet (request code in an ACK, invalid code class) and a Reset leave the SAME
state — the node is unlinked, the NSTART slot is given back, a Confirmable waiting in the delay queue is sent, and the
node, its PDU and its session reference are released (`coap_delete_node_lkd(sent)` at `cleanup:` is unconditional). -/
theorem any_reply_ends_exchange (st : St) (p : Peer) (bad : Bool) :
    (st.step (.ack p bad)).1 = (st.step (.rst p)).1 := by
  unfold St.step
  split
  · rfl
  · dsimp only
    split
    · rfl
    · split <;> rfl

/-- a Confirmable that has to wait for its NSTART slot (`coap_session_delay_pdu(session, pdu, NULL)`) takes NO reference:
holders and every reference count are unchanged; the new node hangs off the session (it is in `partials`, so by
`partial_pdu_hangs_off_live_session` its session is live and by `reclaim_releases_partial_pdu` / `teardown_state_empty`
it is released with it), and the session is not idle any more (`delayqueue != NULL`). -/
theorem delayed_send_takes_no_reference (st : St) (p : Peer) (s : Sess) (hf : st.freed = false) (hl : st.lookup p = some s)
    (hr : s.peer.reliable = false) (hcl : s.client = false) (hc : s.conActive ≥ NSTART) :
    (st.step (.sendCon p)).1.holders = st.holders ∧
    (st.step (.sendCon p)).1.sessions.map (fun t => (t.sid, t.ref)) = st.sessions.map (fun t => (t.sid, t.ref)) ∧
    (st.step (.sendCon p)).1.partials = st.partials ++ [(st.next, s.sid)] := by
  unfold St.step
  simp only [hf, Bool.false_eq_true, if_false, hl, hr, hcl, Bool.or_self, hc, if_true]
  refine ⟨rfl, ?_, rfl⟩
  simp only [St.addPartial, St.updSess, List.map_map]
  apply List.map_congr_left
  intro t _
  by_cases e : t.sid = s.sid <;> simp [e]

/-- when the delayed Confirmable gets its slot (`coap_session_connected` → `coap_wait_ack`) the SAME node (no allocation,
no free) becomes a queued message and takes exactly one reference on its session: the holders grow by that node, the
session's holder count grows by one, the ledger is unchanged.  (That the reference COUNT grows with it is
`ref_eq_holders`, which holds in every reachable state of the extended alphabet.) -/
theorem flush_takes_reference (st : St) (x : Nat × Nat) (due : Nat) (hx : x ∈ st.partials) :
    (st.promote x due).holders = st.holders ++ [⟨x.1, x.2, .node 0 due⟩] ∧
    (st.promote x due).holds x.2 = st.holds x.2 + 1 ∧
    (∀ y, y ≠ x.2 → (st.promote x due).holds y = st.holds y) ∧
    (st.promote x due).ledger = st.ledger ∧ (st.promote x due).partials = st.partials.erase x := by
  unfold St.promote
  rw [if_pos hx]
  refine ⟨rfl, ?_, ?_, rfl, rfl⟩
  · unfold St.holds; simp [List.countP_append]
  · intro y hy
    unfold St.holds
    have : ¬ x.2 = y := fun e => hy e.symm
    simp [List.countP_append, this]

/-- two separate Confirmables back to back: the second waits (no reference), the ACK of the first — also a BAD one — sends
and queues it (one reference: node 10 is the same object), its own ACK releases everything; the session is then idle and
is reclaimed after the session timeout; the ledger is clean after teardown -/
example : let st := st0.run [.rx pA .plain, .sendCon pA, .sendCon pA]
    st.sessions.map (fun s => (s.ref, s.conActive, s.delayq)) = [(1, 1, 1)] ∧ st.partials = [(10, 8)] ∧
      st.holders.map (fun h => (h.hid, h.kind)) = [(9, .node 0 3000)] := by decide
example : let st := st0.run [.rx pA .plain, .sendCon pA, .sendCon pA, .ack pA true]
    st.sessions.map (fun s => (s.ref, s.conActive, s.delayq)) = [(1, 1, 0)] ∧ st.partials = [] ∧
      st.holders.map (fun h => (h.hid, h.kind)) = [(10, .node 0 3000)] ∧ st.ledger.drop 7 = [.alloc 8, .alloc 9, .alloc 10, .free 9] := by
  decide
example : let st := st0.run [.rx pA .plain, .sendCon pA, .sendCon pA, .ack pA true, .ack pA false, .advance 300000, .io]
    st.events = [.new 8, .del 8] ∧ st.holders = [] ∧ st.partials = [] := by decide
example : let st := st0.run [.rx pA .plain, .appRef pA, .sendCon pA, .sendCon pA, .ack pA false, .rst pA]
    st.sessions.map (fun s => (s.ref, s.conActive, s.delayq)) = [(1, 0, 0)] ∧ st.holders.map (·.kind) = [.app] := by decide
/-- teardown / disconnect with a Confirmable still waiting in the delay queue: released with the session -/
example : let st := st0.run [.rx pA .plain, .sendCon pA, .sendCon pA, .sendCon pA, .freeContext]
    ledgerOk st.ledger = true ∧ st.partials = [] ∧ st.events = [.new 8, .del 8] := by decide
example : let st := st0.run [.rx pA .plain, .sendCon pA, .sendCon pA, .disconnect pA]
    st.sessions.map (fun s => (s.ref, s.conActive, s.delayq)) = [(0, 0, 0)] ∧ st.partials = [] ∧ st.holders = [] := by decide
/-- a session with a delayed Confirmable is not idle: it survives the session timeout although nothing refers to it
(the first Confirmable is given up after 4 retransmissions at 1000 + 62000; that flushes the second one) -/
example : let st := st0.run [.setTimeout 1, .rx pA .plain, .sendCon pA, .sendCon pA, .advance 2000, .io, .advance 4000, .io]
    st.events = [.new 8] ∧ st.sessions.map (·.delayq) = [1] := by decide
/-- the hypotheses of `delayed_send_takes_no_reference` and `flush_takes_reference` are satisfiable -/
example : let st := st0.run [.rx pA .plain, .sendCon pA]
    (st.lookup pA).map (fun s => (s.peer.reliable, decide (s.conActive ≥ NSTART))) = some (false, true) := by decide
example : (10, 8) ∈ (st0.run [.rx pA .plain, .sendCon pA, .sendCon pA]).partials := by decide

/-! call home (seed C12-17): a request creates the session, the application takes it over and lets go again -/
example : let st := st0.run [.rx pA .plain, .callHome pA]
    st.sessions.map (fun s => (s.ref, s.client)) = [(1, true)] ∧ st.holders.map (·.kind) = [.home] ∧ st.events = [.new 8] := by
  decide
/-- the hypotheses of `end_call_home_frees_and_unlinks` are satisfiable -/
example : let st := st0.run [.rx pA .plain, .callHome pA]
    st.freed = false ∧
    (st.lookup pA).map (fun s => (s.ref, s.client, (st.findHolder s.sid isHome).isSome)) = some (1, true, true) := by decide
/-- … and its conclusion on that history: the table is empty, ONE free of the session, no session-deleted event -/
example : let st := st0.run [.rx pA .plain, .callHome pA, .endCallHome pA]
    st.sessions = [] ∧ st.holders = [] ∧ st.events = [.new 8, .handed 8] ∧ st.ledger.count (.free 8) = 1 := by decide
/-- the peer's next datagram gets a FRESH session, and the whole ledger is accepted after teardown -/
example : let st := st0.run [.rx pA .plain, .callHome pA, .endCallHome pA, .rx pA .plain, .freeContext]
    st.events = [.new 8, .handed 8, .new 9, .del 9] ∧ ledgerOk st.ledger = true := by decide
/-- D16 lifted: the application releases its call-home reference while an observation still refers to the session — the
    session lives on as a CLIENT session with the observation's reference; the peer's Observe deregistration then lets the
    LAST holder go from inside the receive path: the session is freed when the datagram has been dealt with (`handed`, no
    session-deleted event), the table is empty and no holder is left -/
example : let st := st0.run [.rx pA (.obsReg 0 0 0), .callHome pA, .endCallHome pA]
    st.sessions.map (fun s => (s.ref, s.client)) = [(1, true)] ∧ st.holders.map (·.kind) = [.obs 0 0 0 0] := by decide
example : let st := st0.run [.rx pA (.obsReg 0 0 0), .callHome pA, .endCallHome pA, .rx pA (.obsDereg 0 0 0)]
    st.sessions = [] ∧ st.holders = [] ∧ st.events = [.new 8, .handed 8] ∧ st.ledger.count (.free 8) = 1 := by decide
/-- … the same with the last holder being: the observation cancelled by a Reset of its notification, a queued ping
    answered by an ACK / given up after the last retransmission, a deferred response being sent, the application's own
    coap_free_async / coap_session_release, the deletion of the resource, the teardown -/
example : let st := st0.run [.rx pA (.obsReg 0 0 0), .callHome pA, .endCallHome pA, .changed 0, .io, .noteRst pA 0]
    st.sessions = [] ∧ st.holders = [] ∧ st.events = [.new 8, .handed 8] := by decide
example : let st := st0.run [.rx pA .plain, .ping pA, .callHome pA, .endCallHome pA, .ack pA false]
    st.sessions = [] ∧ st.holders = [] ∧ st.events = [.new 8, .handed 8] := by decide
example : let st := st0.run [.rx pA .plain, .ping pA, .callHome pA, .endCallHome pA, .advance 2000, .io, .advance 4000, .io,
      .advance 8000, .io, .advance 16000, .io, .advance 32000, .io]
    st.sessions = [] ∧ st.holders = [] ∧ st.events = [.new 8, .handed 8] := by decide
example : let st := st0.run [.rx pA (.slow 40 5), .callHome pA, .endCallHome pA, .advance 40, .io]
    st.sessions = [] ∧ st.holders = [] ∧ st.events = [.new 8, .handed 8] := by decide
example : let st := st0.run [.rx pA .async, .callHome pA, .endCallHome pA, .asyncFree pA]
    st.sessions = [] ∧ st.holders = [] ∧ st.events = [.new 8, .handed 8] := by decide
example : let st := st0.run [.rx pA .plain, .appRef pA, .callHome pA, .endCallHome pA, .appRelease pA]
    st.sessions = [] ∧ st.holders = [] ∧ st.events = [.new 8, .handed 8] := by decide
example : let st := st0.run [.rx pA (.obsReg 0 0 0), .callHome pA, .endCallHome pA, .delResource 0]
    st.sessions = [] ∧ st.holders = [] ∧ st.events = [.new 8, .handed 8] := by decide
example : let st := st0.run [.rx pA (.obsReg 0 0 0), .callHome pA, .endCallHome pA, .freeContext]
    st.sessions = [] ∧ st.events = [.new 8, .handed 8] ∧ ledgerOk st.ledger = true := by decide
/-- the hypotheses of `last_release_frees_client_session` (the observation is the only holder left of a client session) and
    of `early_release_keeps_session` / `release_keeps_referenced_session` (`ref = 2`, the application's token is there) are
    satisfiable -/
example : let st := st0.run [.rx pA (.obsReg 0 0 0), .callHome pA, .endCallHome pA]
    st.sessions.map (fun s => (s.sid, s.ref, s.client)) = [(8, 1, true)] ∧ st.holders.map (·.sid) = [8] := by decide
example : let st := st0.run [.rx pA (.obsReg 0 0 0), .callHome pA]
    st.freed = false ∧
    (st.lookup pA).map (fun s => (s.ref, s.client, (st.findHolder s.sid isHome).isSome)) = some (2, true, true) := by decide
/-- D17: coap_session_disconnected on a client session the application holds no reference on is skipped -/
example : ((st0.run [.rx pA (.obsReg 0 0 0), .callHome pA, .endCallHome pA]).step (.disconnect pA)).2 = .skip ∧
    ((st0.run [.rx pA (.obsReg 0 0 0), .callHome pA]).step (.disconnect pA)).2 = .ok := by decide
/-- a call-home session is not reclaimed by the session timeout; at teardown it is deleted like every session of the table;
    a second coap_session_set_type_client, a ping and a coap_send on it are refused -/
example : let st := st0.run [.rx pA .plain, .callHome pA, .callHome pA, .ping pA, .sendCon pA, .advance 400000, .io]
    st.sessions.map (fun s => (s.ref, s.client)) = [(1, true)] ∧ st.holders.length = 1 := by decide
example : let st := st0.run [.rx pA .plain, .callHome pA, .advance 400000, .io, .freeContext]
    st.events = [.new 8, .del 8] ∧ ledgerOk st.ledger = true := by decide
/-- the hypotheses of `release_frees_only_unreferenced_client_sessions` / `client_session_survives_pass` / `call_home_takes_one_reference` -/
example : let st := st0.run [.rx pA .plain, .appRef pA, .appRelease pA]
    st.sessions.map (fun s => (s.ref, s.client)) = [(0, false)] ∧ (st.clientFree 8).sessions = st.sessions := by decide

/-- the raw `--ref` breaks the invariant, the whole coap_session_release_lkd keeps it (why `CInv` is not `Closed`);
    the hypotheses of `client_invariant_step` / `unreferenced_session_is_server_session` are satisfiable -/
example : let st := st0.run [.rx pA (.obsReg 0 0 0), .callHome pA, .endCallHome pA]
    st.sessions.map (fun s => (s.ref, s.client)) = [(1, true)] ∧
    (st.holders.map fun x => (st.dropHolder x).sessions.map (fun s => (s.ref, s.client))) = [[(0, true)]] ∧
    (st.holders.map fun x => (st.releaseHolder x).sessions.map (fun s => (s.ref, s.client))) = [[]] := by decide
example : let st := st0.run [.rx pA .plain, .rx pB (.obsReg 0 0 0), .callHome pB]
    st.sessions.map (fun s => (s.ref, s.client)) = [(0, false), (2, true)] := by decide

/-- client sessions proper mixed with server sessions: no events, outside the tables, freed by the teardown (also when the
    application still holds them, and next to a server session it still references) -/
example : let st := st0.run [.rx pA .plain, .ownClient 1, .appRef pA, .ownClient 0, .callHome pB, .rx pB .plain, .ownClient 2]
    st.events = [.new 8, .new 11] ∧ st.sessions.map (·.sid) = [8, 11] ∧ st.nown = 3 ∧ st.freed = false ∧
    ledgerOk st.ledger = false ∧ ledgerOk (st.step .freeContext).1.ledger = true ∧
    (st.step .freeContext).1.events = [.new 8, .new 11, .del 8, .del 11] := by decide

/-- the monitor rejects a double free, a free of something unallocated and a leak -/
example : ledgerOk [.alloc 1, .free 1, .free 1] = false ∧ ledgerOk [.free 7] = false ∧ ledgerOk [.alloc 1] = false ∧
    ledgerOk [.alloc 1, .alloc 2, .free 2, .free 1] = true := by decide

end Coap.C12
