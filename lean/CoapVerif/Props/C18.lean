import CoapVerif.Model.AllocOracle
import CoapVerif.Lemmas.AllocBlock
/-
C18 — any single allocation failure is survived (property theorems about the allocation-oracle model M,
Model/AllocOracle.lean).  All statements are ∀ oracle (any pattern of failing requests, not just one), ∀ arguments.

  ledger_replay          the model's `live`/`ok` bookkeeping IS the verified monitor's replay of the model's trace
  failure_atomic         a helper that fails (for whatever reason, the oracle included) leaves the PDU exactly as it was
  no_leak_on_failure     ledger' = ledger on failure; = ledger + the owned results on success
  send_consumes_pdu      in every outcome of the modelled send path the PDU leaves the caller's hands exactly once:
                         released (both blocks freed, once) or owned by exactly one queue node
  next_op_succeeds       with memory available the same operation succeeds
  alloc_count_matches    number of allocation requests per helper (compared with the real count by T2)
  script_ledger_ok       for EVERY script and EVERY oracle: after clean-up the trace is accepted by `ledgerOk`
                         (no double free, no free of unallocated, nothing live) — see the `_partial` note below
  observer_refs_balanced for EVERY script and EVERY oracle: session->ref = other holders + number of subscriptions
  add_observer_spec      coap_add_observer: found | NULL with subscriber list, reference count and ledger exactly as before
                         | one new subscription, one more reference, exactly its four objects
  deleteObserver_spec    coap_delete_observer: nothing | one subscription, its reference and its four objects gone
  add_observer_succeeds_with_memory   all-true oracle: the registration succeeds

Block-layer containers (Model/AllocBlock.lean, lemmas in Lemmas/AllocBlock.lean), all ∀ oracle:
  obs_token_cnt_within_list   client, lg_crcv: for EVERY sequence of coap_block_new_lg_crcv / track_fetch_observe /
                         coap_block_delete_lg_crcv calls obs_token_cnt never exceeds the allocated list and a NULL list
                         has count 0: no call and no tear-down reads or writes outside the list
  track_realloc_failure_atomic   when the list cannot be grown, list and count are exactly as before
  lg_crcv_ledger_sound   for every call sequence the callers can produce: no object is released twice, and after the
                         lg_crcv is deleted nothing it allocated is live
  lg_srcv_ledger_sound   server, lg_srcv: for EVERY sequence of Block1 requests (any order, repeats, early and repeated
                         final block, drops): no object is released twice, the live objects are at any time exactly the
                         lg_srcv, its body and its last_token, and nothing is live after it is deleted
  lg_srcv_failure_drops_state   a request answered 5.00 (allocation failure) leaves no transfer state at all
  lg_srcv_restart_succeeds / lg_crcv_new_succeeds_with_memory   all-true oracle: a new transfer / a new lg_crcv is set up
-/
namespace Coap.C18
open Coap Coap.AllocOracle
open Coap.Sessions (runLedger ledgerOk AllocEvent)

/-! ## the ledger is the monitor's replay -/

theorem runLedger_append (t : List AllocEvent) (e : AllocEvent) (l : List Nat) :
    runLedger (t ++ [e]) l = (runLedger t l).bind fun l' => runLedger [e] l' := by
  induction t generalizing l with
  | nil => simp [runLedger]
  | cons a t ih =>
    cases a with
    | alloc i => simp [runLedger, ih]
    | free i =>
      simp only [List.cons_append, runLedger]
      split
      · exact ih _
      · rfl

/-- the heap invariant: replaying the trace gives `live` as long as no bad free happened, `none` afterwards -/
def _root_.Coap.AllocOracle.Heap.Replays (h : Heap) : Prop := runLedger h.trace [] = if h.ok then some h.live else none

theorem replays_alloc (h : Heap) (hr : h.Replays) : h.alloc.2.Replays := by
  unfold Heap.alloc
  split
  · unfold Heap.Replays at *
    simp only [runLedger_append, hr]
    cases h.ok <;> simp [runLedger]
  · exact hr

theorem replays_free (h : Heap) (id : Nat) (hr : h.Replays) : (h.free id).Replays := by
  unfold Heap.free Heap.Replays at *
  simp only [runLedger_append, hr]
  cases hok : h.ok <;> simp [runLedger]

theorem replays_realloc (h : Heap) (id : Nat) (hr : h.Replays) : (h.realloc id).2.Replays := by
  unfold Heap.realloc
  split
  · have h1 := replays_free h id hr
    unfold Heap.Replays Heap.free at *
    simp only at h1
    have : h.trace ++ [AllocEvent.free id, AllocEvent.alloc h.next] = (h.trace ++ [AllocEvent.free id]) ++ [AllocEvent.alloc h.next] := by simp
    simp only [this, runLedger_append (h.trace ++ [AllocEvent.free id]), h1]
    cases (h.ok && decide (id ∈ h.live)) <;> simp [runLedger]
  · exact hr

theorem ledger_replay (h : Heap) (id : Nat) (hr : h.Replays) :
    h.alloc.2.Replays ∧ (h.free id).Replays ∧ (h.realloc id).2.Replays :=
  ⟨replays_alloc h hr, replays_free h id hr, replays_realloc h id hr⟩

theorem replays_init (orc : Oracle) : ({ orc := orc } : Heap).Replays := by
  simp [Heap.Replays, runLedger]

/-! ## single helpers: failure is atomic, nothing leaks, counts -/

theorem alloc_reqs (h : Heap) : h.alloc.2.reqs = h.reqs + 1 := by
  unfold Heap.alloc; split <;> rfl
theorem realloc_reqs (h : Heap) (id : Nat) : (h.realloc id).2.reqs = h.reqs + 1 := by
  unfold Heap.realloc; split <;> rfl
theorem alloc_fail_live (h : Heap) (hf : h.alloc.1 = none) : h.alloc.2.live = h.live ∧ h.alloc.2.trace = h.trace := by
  unfold Heap.alloc at *; split at hf <;> simp_all
theorem alloc_ok_live (h : Heap) (i : Nat) (hs : h.alloc.1 = some i) :
    i = h.next ∧ h.alloc.2.live = i :: h.live := by
  unfold Heap.alloc at *; split at hs <;> simp_all
theorem alloc_ok_trace (h : Heap) (i : Nat) (hs : h.alloc.1 = some i) : h.alloc.2.trace = h.trace ++ [.alloc i] := by
  unfold Heap.alloc at *; split at hs <;> simp_all
theorem realloc_ok_live (h : Heap) (id i : Nat) (hs : (h.realloc id).1 = some i) :
    (h.realloc id).2.live = i :: h.live.erase id := by
  unfold Heap.realloc at *; split at hs <;> simp_all
theorem realloc_fail_live (h : Heap) (id : Nat) (hf : (h.realloc id).1 = none) :
    (h.realloc id).2.live = h.live ∧ (h.realloc id).2.trace = h.trace := by
  unfold Heap.realloc at *; split at hf <;> simp_all

/-- `coap_pdu_resize`: failure leaves the PDU and the ledger unchanged; success keeps the content and swaps at most the buffer -/
theorem resize_spec (p : OPdu) (n : Nat) (h : Heap) :
    ((resize p n h).1 = 0 → (resize p n h).2.1 = p ∧ (resize p n h).2.2.live = h.live ∧ (resize p n h).2.2.trace = h.trace) ∧
    ((resize p n h).1 ≠ 0 → (resize p n h).1 = 1 ∧ (resize p n h).2.1.buf = p.buf ∧ (resize p n h).2.1.id = p.id ∧
        (resize p n h).2.1.allocSize = n ∧ (resize p n h).2.1.data = p.data ∧ (resize p n h).2.1.maxOpt = p.maxOpt ∧
        (resize p n h).2.1.maxSize = p.maxSize ∧ (resize p n h).2.1.tokLen = p.tokLen ∧
        ((resize p n h).2.2.live = h.live ∧ (resize p n h).2.1.bufId = p.bufId ∨
         (resize p n h).2.2.live = (resize p n h).2.1.bufId :: h.live.erase p.bufId)) := by
  unfold resize
  split
  · split
    · simp
    · cases hr : h.realloc p.bufId with
      | mk r h1 =>
        cases r with
        | none =>
          have := realloc_fail_live h p.bufId (by rw [hr])
          simp_all
        | some b =>
          have hl := realloc_ok_live h p.bufId b (by rw [hr])
          rw [hr] at hl
          simp at hl
          simp [hl]
  · simp

theorem checkResize_spec (p : OPdu) (n : Nat) (h : Heap) :
    ((checkResize p n h).1 = 0 → (checkResize p n h).2.1 = p ∧ (checkResize p n h).2.2.live = h.live ∧
        (checkResize p n h).2.2.trace = h.trace) ∧
    ((checkResize p n h).1 ≠ 0 → (checkResize p n h).1 = 1 ∧ (checkResize p n h).2.1.buf = p.buf ∧ (checkResize p n h).2.1.id = p.id ∧
        (checkResize p n h).2.1.data = p.data ∧ (checkResize p n h).2.1.maxOpt = p.maxOpt ∧
        (checkResize p n h).2.1.maxSize = p.maxSize ∧ (checkResize p n h).2.1.tokLen = p.tokLen ∧
        ((checkResize p n h).2.2.live = h.live ∧ (checkResize p n h).2.1.bufId = p.bufId ∨
         (checkResize p n h).2.2.live = (checkResize p n h).2.1.bufId :: h.live.erase p.bufId)) := by
  unfold checkResize
  split
  · simp only
    split
    · split
      · simp
      · have := resize_spec p p.maxSize h
        exact ⟨this.1, fun hne => by have h2 := this.2 hne; exact ⟨h2.1, h2.2.1, h2.2.2.1, h2.2.2.2.2.1, h2.2.2.2.2.2.1, h2.2.2.2.2.2.2.1, h2.2.2.2.2.2.2.2.1, h2.2.2.2.2.2.2.2.2⟩⟩
    · have := resize_spec p (grow 64 n (max 256 (p.allocSize * 2))) h
      exact ⟨this.1, fun hne => by have h2 := this.2 hne; exact ⟨h2.1, h2.2.1, h2.2.2.1, h2.2.2.2.2.1, h2.2.2.2.2.2.1, h2.2.2.2.2.2.2.1, h2.2.2.2.2.2.2.2.1, h2.2.2.2.2.2.2.2.2⟩⟩
  · simp

/-- The primitive helpers of the PDU layer, as one family. -/
inductive Prim where
  | resize (n : Nat)
  | check (n : Nat)
  | token (d : Bytes)
  | option (num : Nat) (v : Bytes)
  | data (d : Bytes)

/-- result code (0 = failure), PDU and heap after the call -/
def Prim.apply (p : OPdu) (h : Heap) : Prim → Nat × OPdu × Heap
  | .resize n => AllocOracle.resize p n h
  | .check n => AllocOracle.checkResize p n h
  | .token d => addToken p d h
  | .option num v => match addOption p num v h with
    | (.val rc, p1, h1) => (rc, p1, h1)
    | (.unmodelled, p1, h1) => (0, p1, h1)
  | .data d => addData p d h

theorem addToken_fail (p : OPdu) (d : Bytes) (h : Heap) :
    (addToken p d h).1 = 0 → (addToken p d h).2.1 = p ∧ (addToken p d h).2.2.live = h.live := by
  unfold addToken
  simp only
  split
  · simp
  · split
    · simp
    · rename_i bias hb
      have hc := (checkResize_spec p (d.length + bias) h).1
      by_cases hz : (checkResize p (d.length + bias) h).1 = 0
      · simp only [hz, if_true]; intro _; exact ⟨trivial, (hc hz).2.1⟩
      · simp only [hz, if_false]; intro hf; simp at hf

theorem addOption_fail (p : OPdu) (num : Nat) (v : Bytes) (h : Heap) :
    ((addOption p num v h).1 = .val 0 ∨ (addOption p num v h).1 = .unmodelled) →
    (addOption p num v h).2.1 = p ∧ (addOption p num v h).2.2.live = h.live := by
  unfold addOption
  simp only
  split
  · simp
  · split
    · simp
    · split
      · simp
      · split
        · simp
        · have hc := (checkResize_spec p (p.buf.length + M.optEncodeSize (num - p.maxOpt) v.length) h).1
          by_cases hz : (checkResize p (p.buf.length + M.optEncodeSize (num - p.maxOpt) v.length) h).1 = 0
          · simp only [hz, if_true]; intro _; exact ⟨trivial, (hc hz).2.1⟩
          · simp only [hz, if_false]
            intro hf
            have : M.optEncodeSize (num - p.maxOpt) v.length ≠ 0 := by unfold M.optEncodeSize; omega
            simp [this] at hf

theorem addData_fail (p : OPdu) (d : Bytes) (h : Heap) :
    (addData p d h).1 = 0 → (addData p d h).2.1 = p ∧ (addData p d h).2.2.live = h.live := by
  unfold addData
  split
  · simp
  · split
    · simp
    · have hc := (resize_spec p (p.buf.length + d.length + 1) h).1
      simp only
      by_cases hz : (resize p (p.buf.length + d.length + 1) h).1 = 0
      · simp only [hz, if_true]; intro _; exact ⟨trivial, (hc hz).2.1⟩
      · simp only [hz, if_false]; intro hf; simp at hf

/-- **failure_atomic**: whichever primitive helper fails — because the oracle refused the (re)allocation or for any other
reason — the PDU is exactly what it was and the ledger's live set is unchanged (only the oracle has been consumed). -/
theorem failure_atomic (op : Prim) (p : OPdu) (h : Heap) (hf : (op.apply p h).1 = 0) :
    (op.apply p h).2.1 = p ∧ (op.apply p h).2.2.live = h.live := by
  cases op with
  | resize n => have := (resize_spec p n h).1 hf; exact ⟨this.1, this.2.1⟩
  | check n => have := (checkResize_spec p n h).1 hf; exact ⟨this.1, this.2.1⟩
  | token d => exact addToken_fail p d h hf
  | option num v =>
    have := addOption_fail p num v h
    simp only [Prim.apply] at hf ⊢
    cases hr : addOption p num v h with
    | mk rc rest =>
      cases rest with
      | mk p1 h1 =>
        rw [hr] at this hf
        cases rc with
        | val n => simp at hf ⊢; subst hf; simpa using this
        | unmodelled => simpa using this
  | data d => exact addData_fail p d h hf

/-- `coap_pdu_init`: NULL leaves the ledger as it was (the header object is released again when the buffer fails);
success adds exactly the two owned blocks. -/
theorem pduInit_ledger (size : Nat) (h : Heap) :
    ((pduInit size h).1 = none → (pduInit size h).2.live = h.live) ∧
    (∀ p, (pduInit size h).1 = some p → (pduInit size h).2.live = p.bufId :: p.id :: h.live ∧ p.buf = [] ∧ p.data = none) := by
  unfold pduInit
  cases ha : h.alloc with
  | mk r h1 =>
    cases r with
    | none => have := alloc_fail_live h (by rw [ha]); simp_all
    | some pid =>
      have h1l := (alloc_ok_live h pid (by rw [ha])).2
      rw [ha] at h1l
      simp only at h1l ⊢
      split
      · simp [Heap.free, h1l]
      · cases hb : h1.alloc with
        | mk r2 h2 =>
          cases r2 with
          | none =>
            have := alloc_fail_live h1 (by rw [hb])
            rw [hb] at this
            have t1 : h2.live = h1.live := this.1
            simp [Heap.free, t1, h1l]
          | some bid =>
            have := (alloc_ok_live h1 bid (by rw [hb])).2
            rw [hb] at this
            simp_all

/-- **no_leak_on_failure**: for every helper that creates or grows an object — on failure the ledger is what it was,
on success it is the old ledger plus exactly the owned result (a grown buffer replaces the old one). -/
theorem no_leak_on_failure (size : Nat) (op : Prim) (p : OPdu) (ol : List Opt) (num : Nat) (v : Bytes) (h : Heap) :
    -- coap_pdu_init
    ((pduInit size h).1 = none → (pduInit size h).2.live = h.live) ∧
    (∀ q, (pduInit size h).1 = some q → (pduInit size h).2.live = q.bufId :: q.id :: h.live) ∧
    -- resize / check_resize / add_token / add_option / add_data
    ((op.apply p h).1 = 0 → (op.apply p h).2.2.live = h.live) ∧
    -- coap_new_optlist + coap_insert_optlist
    ((optlistAdd ol num v h).1 = 0 → (optlistAdd ol num v h).2.1 = ol ∧ (optlistAdd ol num v h).2.2.live = h.live) ∧
    ((optlistAdd ol num v h).1 ≠ 0 → ∃ i, (optlistAdd ol num v h).2.1 = ol ++ [⟨i, num % 65536, v⟩] ∧
        (optlistAdd ol num v h).2.2.live = i :: h.live) ∧
    -- coap_new_string / coap_new_str_const / coap_new_bin_const
    ((newString h).1 = none → (newString h).2.live = h.live) ∧
    (∀ i, (newString h).1 = some i → (newString h).2.live = i :: h.live) := by
  refine ⟨(pduInit_ledger size h).1, fun q hq => ((pduInit_ledger size h).2 q hq).1, fun hf => (failure_atomic op p h hf).2, ?_, ?_,
    fun hf => (alloc_fail_live h hf).1, fun i hi => (alloc_ok_live h i hi).2⟩
  · unfold optlistAdd
    cases ha : h.alloc with
    | mk r h1 =>
      cases r with
      | none => have := alloc_fail_live h (by rw [ha]); simp_all
      | some i => simp
  · unfold optlistAdd
    cases ha : h.alloc with
    | mk r h1 =>
      cases r with
      | none => simp
      | some i =>
        have := (alloc_ok_live h i (by rw [ha])).2
        rw [ha] at this
        intro _
        exact ⟨i, rfl, this⟩

/-! ## the send path -/

/-- coap_send_pdu DELAYS the message (coap_session_delay_pdu) instead of writing it: the session is not established yet
(DTLS handshake, TCP connect, CSM pending) — whatever the type of the message —, or it is a CON and the NSTART slots are
taken -/
def MustDelay (con : Bool) (s : Sess) : Prop := s.established = false ∨ (con = true ∧ s.conActive ≥ s.nstart)

instance (con : Bool) (s : Sess) : Decidable (MustDelay con s) := by unfold MustDelay; exact inferInstance

theorem sendInternal_cond (con : Bool) (s : Sess) :
    (¬ (s.established = true) ∨ (con = true ∧ s.conActive ≥ s.nstart)) ↔ MustDelay con s := by
  unfold MustDelay
  cases s.established <;> simp

/-- **send_consumes_pdu**: whatever the oracle answers, whatever the socket does, whatever the state of the session
(established or not, NSTART slot free or not), `coap_send` ends in exactly one of two ways: the PDU has been released
(`coap_delete_pdu` ran exactly once on it: the trace grows by `free bufId, free id` and by nothing else that mentions them)
and no queue holds it; or it has NOT been released and exactly one new queue node owns it.  `COAP_INVALID_MID` is returned
only in the first way: a PDU given to coap_send is consumed even on failure — in particular when the message has to be
DELAYED and the delay-queue node cannot be allocated. -/
theorem send_consumes_pdu (con : Bool) (p : OPdu) (s : Sess) (h : Heap) :
    let r := send con p s h
    ( -- released, not queued
      (r.1 = .sentFreed ∨ r.1 = .error) ∧ r.2.1.sendq = s.sendq ∧ r.2.1.delayq = s.delayq ∧
        ∃ hm : Heap, r.2.2 = pduDelete p hm ∧ hm.trace = h.trace ∧ hm.live = h.live ) ∨
    ( -- kept: exactly one new node, which owns it; nothing freed
      (r.1 = .queued ∨ r.1 = .delayed) ∧
        ∃ n, r.2.2.live = n :: h.live ∧ r.2.2.trace = h.trace ++ [.alloc n] ∧
          ((r.1 = .queued ∧ r.2.1.sendq = s.sendq ++ [⟨n, p, con⟩] ∧ r.2.1.delayq = s.delayq) ∨
           (r.1 = .delayed ∧ r.2.1.delayq = s.delayq ++ [⟨n, p, con⟩] ∧ r.2.1.sendq = s.sendq)) ) := by
  intro r
  show _ ∨ _
  simp only [r]
  unfold send
  split
  · left; exact ⟨Or.inr rfl, rfl, rfl, h, rfl, rfl, rfl⟩
  · unfold sendInternal
    split
    · cases ha : h.alloc with
      | mk a h1 =>
        cases a with
        | none =>
          left
          have := alloc_fail_live h (by rw [ha]); rw [ha] at this
          exact ⟨Or.inr rfl, rfl, rfl, h1, rfl, this.2, this.1⟩
        | some n =>
          right
          have hl := (alloc_ok_live h n (by rw [ha])); rw [ha] at hl
          have ht := alloc_ok_trace h n (by rw [ha]); rw [ha] at ht
          exact ⟨Or.inr rfl, n, hl.2, ht, Or.inr ⟨rfl, rfl, rfl⟩⟩
    · split
      · left; exact ⟨Or.inr rfl, rfl, rfl, h, rfl, rfl, rfl⟩
      · split
        · left; exact ⟨Or.inl rfl, rfl, rfl, h, rfl, rfl, rfl⟩
        · cases ha : h.alloc with
          | mk a h1 =>
            cases a with
            | none =>
              left
              have := alloc_fail_live h (by rw [ha]); rw [ha] at this
              exact ⟨Or.inr rfl, rfl, rfl, h1, rfl, this.2, this.1⟩
            | some n =>
              right
              have hl := (alloc_ok_live h n (by rw [ha])); rw [ha] at hl
              have ht := alloc_ok_trace h n (by rw [ha]); rw [ha] at ht
              exact ⟨Or.inl rfl, n, hl.2, ht, Or.inl ⟨rfl, rfl, rfl⟩⟩

theorem pduDelete_trace (p : OPdu) (h : Heap) : (pduDelete p h).trace = h.trace ++ [.free p.bufId, .free p.id] := by
  simp [pduDelete, Heap.free]

/-- **send_pdu_consumed_exactly_once** — for EVERY allocation oracle, every session state and every PDU, the ledger events
`coap_send` adds are exactly one of: `free buffer, free header` (the PDU was SENT and released, or REFUSED — COAP_INVALID_MID —
and released: once, by coap_send_internal's own exit, and no queue refers to it), or `alloc n` with `n` the node that now
owns the PDU in the send queue (QUEUED for retransmission) or in the session's delay queue (DELAYED).  Nothing else is
allocated or released, so the PDU handed to coap_send is consumed exactly once whichever way the call goes. -/
theorem send_pdu_consumed_exactly_once (con : Bool) (p : OPdu) (s : Sess) (h : Heap) :
    let r := send con p s h
    (r.2.2.trace = h.trace ++ [.free p.bufId, .free p.id] ∧ (r.1 = .sentFreed ∨ r.1 = .error) ∧
        r.2.1.sendq = s.sendq ∧ r.2.1.delayq = s.delayq) ∨
    (∃ n, r.2.2.trace = h.trace ++ [.alloc n] ∧
        ((r.1 = .queued ∧ r.2.1.sendq = s.sendq ++ [⟨n, p, con⟩] ∧ r.2.1.delayq = s.delayq) ∨
         (r.1 = .delayed ∧ r.2.1.delayq = s.delayq ++ [⟨n, p, con⟩] ∧ r.2.1.sendq = s.sendq))) := by
  intro r
  rcases send_consumes_pdu con p s h with ⟨ho, hs, hd, hm, he, ht, _⟩ | ⟨_, n, _, ht, hq⟩
  · left
    refine ⟨?_, ho, hs, hd⟩
    show (send con p s h).2.2.trace = _
    rw [he, pduDelete_trace, ht]
  · right; exact ⟨n, ht, hq⟩

/-- **send_delayed_iff** — the DELAYED outcome: exactly when the token fits, coap_send_pdu has to delay the message and the
oracle grants the delay-queue node -/
theorem send_delayed_iff (con : Bool) (p : OPdu) (s : Sess) (h : Heap) :
    (send con p s h).1 = .delayed ↔ (p.tokLen ≤ s.maxTok ∧ MustDelay con s ∧ h.orc.head = true) := by
  unfold send
  split
  · rename_i ht; constructor
    · intro hx; cases hx
    · intro hx; omega
  · rename_i ht
    unfold sendInternal
    by_cases hd : MustDelay con s
    · rw [if_pos ((sendInternal_cond con s).mpr hd)]
      unfold Heap.alloc
      cases hh : h.orc.head <;> simp [hd]
      omega
    · rw [if_neg (fun hx => hd ((sendInternal_cond con s).mp hx))]
      constructor
      · intro hx
        exfalso
        revert hx
        split
        · intro hx; cases hx
        · split
          · intro hx; cases hx
          · cases h.alloc with
            | mk a h1 => cases a <;> (intro hx; cases hx)
      · intro hx; exact absurd hx.2.1 hd

/-- **delayed_send_node_failure_releases_once** — the case seeded C18-16 corrupts: the message has to be delayed and the
request for the delay-queue node is refused.  The call returns COAP_INVALID_MID, the session (both queues, `con_active`) is
exactly as before, ONE request was made, and the ledger grows by exactly `free buffer, free header`: the PDU is released once
(by coap_send_internal's `error:` exit; coap_session_delay_pdu itself releases nothing). -/
theorem delayed_send_node_failure_releases_once (con : Bool) (p : OPdu) (s : Sess) (h : Heap)
    (ht : p.tokLen ≤ s.maxTok) (hd : MustDelay con s) (hf : h.orc.head = false) :
    (send con p s h).1 = .error ∧ (send con p s h).2.1 = s ∧
    (send con p s h).2.2.trace = h.trace ++ [.free p.bufId, .free p.id] ∧
    (send con p s h).2.2.live = (h.live.erase p.bufId).erase p.id ∧
    (send con p s h).2.2.reqs = h.reqs + 1 := by
  unfold send
  have : ¬ p.tokLen > s.maxTok := by omega
  simp only [this, if_false]
  unfold sendInternal
  rw [if_pos ((sendInternal_cond con s).mpr hd)]
  unfold Heap.alloc
  simp [hf, pduDelete, Heap.free]

/-- … and with memory available the same delayed send is accepted: one node, appended to the delay queue, owns the PDU;
nothing is released, `con_active` and the send queue are untouched -/
theorem delayed_send_succeeds_with_memory (con : Bool) (p : OPdu) (s : Sess) (h : Heap)
    (ht : p.tokLen ≤ s.maxTok) (hd : MustDelay con s) (hf : h.orc.head = true) :
    (send con p s h).1 = .delayed ∧ (send con p s h).2.1 = { s with delayq := s.delayq ++ [⟨h.next, p, con⟩] } ∧
    (send con p s h).2.2.trace = h.trace ++ [.alloc h.next] ∧ (send con p s h).2.2.live = h.next :: h.live := by
  unfold send
  have : ¬ p.tokLen > s.maxTok := by omega
  simp only [this, if_false]
  unfold sendInternal
  rw [if_pos ((sendInternal_cond con s).mpr hd)]
  unfold Heap.alloc
  simp [hf]

-- the hypotheses are satisfiable: NSTART slot taken / session not established, oracle refusing the next request
example : MustDelay true { conActive := 1 } ∧ MustDelay false { established := false } ∧ ¬ MustDelay false { conActive := 1 } := by decide
example : (send true ⟨1, 2, 8, 8, [], 0, 0, none⟩ { conActive := 1 } { orc := [false], next := 3, live := [2, 1] }).1 = .error ∧
    (send true ⟨1, 2, 8, 8, [], 0, 0, none⟩ { conActive := 1 } { orc := [false], next := 3, live := [2, 1] }).2.2.live = [] := by decide

/-- a failed send gives the NSTART slot back (after the fix: `con_active` is what it was) -/
theorem send_error_keeps_slot (con : Bool) (p : OPdu) (s : Sess) (h : Heap) (he : (send con p s h).1 = .error) :
    (send con p s h).2.1 = s := by
  unfold send at *
  split
  · rfl
  · rename_i ht
    simp only [ht, if_false] at he
    unfold sendInternal at *
    split
    · rename_i hc
      simp only [hc] at he
      cases ha : h.alloc with
      | mk a h1 => cases a <;> simp_all
    · rename_i hc
      simp only [hc, if_false] at he
      split
      · rfl
      · rename_i hw
        simp only [hw, if_false] at he
        split
        · rename_i hn; simp [hn] at he
        · rename_i hn
          simp only [hn, if_false] at he
          cases ha : h.alloc with
          | mk a h1 => cases a <;> simp_all

/-! ### the delay queue is drained (coap_session_connected) -/

theorem replays_nodeDelete (q : Node) (h : Heap) (hr : h.Replays) : (nodeDelete q h).Replays :=
  replays_free _ _ (replays_free _ _ (replays_free _ _ hr))

theorem replays_foldNodeDelete (l : List Node) (h : Heap) (hr : h.Replays) :
    (l.foldl (fun h q => nodeDelete q h) h).Replays := by
  induction l generalizing h with
  | nil => exact hr
  | cons q r ih => exact ih _ (replays_nodeDelete q h hr)

theorem drain_cons_blocked (q : Node) (rest : List Node) (s : Sess) (h : Heap) (hb : q.con = true ∧ s.conActive ≥ s.nstart) :
    drain (q :: rest) s h = ({ s with delayq := q :: rest }, h) := by
  unfold drain; rw [if_pos hb]

theorem drain_cons_con (q : Node) (rest : List Node) (s : Sess) (h : Heap) (hc : q.con = true)
    (hb : ¬ (q.con = true ∧ s.conActive ≥ s.nstart)) :
    drain (q :: rest) s h =
      if s.writeOk = false then ({ s with conActive := s.conActive + 1, sendq := s.sendq ++ [q], delayq := rest }, h)
      else drain rest { s with conActive := s.conActive + 1, sendq := s.sendq ++ [q] } h := by
  rw [drain, if_neg hb]; simp only [hc, if_true]

theorem drain_cons_non (q : Node) (rest : List Node) (s : Sess) (h : Heap) (hc : q.con = false) :
    drain (q :: rest) s h =
      if s.writeOk = false then ({ s with delayq := rest }, nodeDelete q h) else drain rest s (nodeDelete q h) := by
  rw [drain, if_neg (by simp [hc])]; simp [hc]

/-- **connected_drain_spec** — coap_session_connected's loop over the delay queue, for every queue and every session state:
the queue splits into the nodes `taken` off its head and the nodes `kept`; the CONs among the taken ones are in the send
queue afterwards — the SAME nodes, still owning their PDUs, each counted in `con_active` —, every other taken node has been
released with its PDU exactly once (coap_delete_node_lkd, in queue order), and nothing else has happened to the ledger: no
request is made.  So a PDU that coap_send delayed is, after any number of drains, still owned by exactly one node or has
been released exactly once. -/
theorem connected_drain_spec (dq : List Node) (s : Sess) (h : Heap) :
    ∃ taken kept, dq = taken ++ kept ∧ (drain dq s h).1.delayq = kept ∧
      (drain dq s h).1.sendq = s.sendq ++ taken.filter (·.con) ∧
      (drain dq s h).1.conActive = s.conActive + (taken.filter (·.con)).length ∧
      (drain dq s h).2 = (taken.filter (fun q => !q.con)).foldl (fun h q => nodeDelete q h) h := by
  induction dq generalizing s h with
  | nil => exact ⟨[], [], rfl, rfl, by simp [drain], by simp [drain], by simp [drain]⟩
  | cons q rest ih =>
    by_cases hb : q.con = true ∧ s.conActive ≥ s.nstart
    · rw [drain_cons_blocked q rest s h hb]
      exact ⟨[], q :: rest, rfl, rfl, by simp, by simp, by simp⟩
    · cases hc : q.con with
      | true =>
        rw [drain_cons_con q rest s h hc hb]
        split
        · exact ⟨[q], rest, rfl, rfl, by simp [hc], by simp [hc], by simp [hc]⟩
        · obtain ⟨taken, kept, h1, h2, h3, h4, h5⟩ :=
            ih { s with conActive := s.conActive + 1, sendq := s.sendq ++ [q] } h
          refine ⟨q :: taken, kept, by rw [h1]; rfl, h2, ?_, ?_, ?_⟩
          · rw [h3]; simp [hc]
          · rw [h4]; simp [hc]; omega
          · rw [h5]; simp [hc]
      | false =>
        rw [drain_cons_non q rest s h hc]
        split
        · exact ⟨[q], rest, rfl, rfl, by simp [hc], by simp [hc], by simp [hc]⟩
        · obtain ⟨taken, kept, h1, h2, h3, h4, h5⟩ := ih s (nodeDelete q h)
          refine ⟨q :: taken, kept, by rw [h1]; rfl, h2, ?_, ?_, ?_⟩
          · rw [h3]; simp [hc]
          · rw [h4]; simp [hc]
          · rw [h5]; simp [hc]

theorem foldNodeDelete_reqs (l : List Node) (h : Heap) : (l.foldl (fun h q => nodeDelete q h) h).reqs = h.reqs := by
  induction l generalizing h with
  | nil => rfl
  | cons q r ih => simp only [List.foldl_cons]; rw [ih (nodeDelete q h)]; simp [nodeDelete, pduDelete, Heap.free]

/-- the drain makes no allocation request and keeps the ledger invariant -/
theorem drain_reqs_replays (dq : List Node) (s : Sess) (h : Heap) :
    (drain dq s h).2.reqs = h.reqs ∧ (h.Replays → (drain dq s h).2.Replays) := by
  obtain ⟨taken, kept, _, _, _, _, h5⟩ := connected_drain_spec dq s h
  rw [h5]
  exact ⟨foldNodeDelete_reqs _ h, replays_foldNodeDelete _ h⟩

example :
    let q1 : Node := ⟨3, ⟨1, 2, 8, 8, [], 0, 0, none⟩, false⟩
    let q2 : Node := ⟨6, ⟨4, 5, 8, 8, [], 0, 0, none⟩, true⟩
    let q3 : Node := ⟨9, ⟨7, 8, 8, 8, [], 0, 0, none⟩, true⟩
    let r := connected { established := false, delayq := [q1, q2, q3] } { orc := [], next := 10, live := [9, 8, 7, 6, 5, 4, 3, 2, 1] }
    r.1.delayq = [q3] ∧ r.1.sendq = [q2] ∧ r.1.conActive = 1 ∧ r.2.live = [9, 8, 7, 6, 5, 4] ∧ r.2.ok = true := by decide

/-! ## with memory available the same operation succeeds -/

/-- an oracle that answers `true` from now on -/
def AllTrue (o : Oracle) : Prop := ∀ b ∈ o, b = true

theorem head_allTrue (o : Oracle) (ho : AllTrue o) : o.head = true := by
  cases o with
  | nil => rfl
  | cons b r => exact ho b (by simp)
theorem tail_allTrue (o : Oracle) (ho : AllTrue o) : AllTrue o.tail := by
  cases o with
  | nil => exact ho
  | cons b r => intro x hx; exact ho x (List.mem_cons_of_mem b hx)

theorem alloc_allTrue (h : Heap) (ho : AllTrue h.orc) : h.alloc.1 = some h.next ∧ AllTrue h.alloc.2.orc := by
  unfold Heap.alloc
  simp [head_allTrue _ ho, tail_allTrue _ ho]
theorem realloc_allTrue (h : Heap) (id : Nat) (ho : AllTrue h.orc) :
    (h.realloc id).1 = some h.next ∧ AllTrue (h.realloc id).2.orc := by
  unfold Heap.realloc
  simp [head_allTrue _ ho, tail_allTrue _ ho]

theorem resize_allTrue (p : OPdu) (n : Nat) (h : Heap) (ho : AllTrue h.orc) (hfit : p.maxSize = 0 ∨ n ≤ p.maxSize) :
    (resize p n h).1 = 1 := by
  unfold resize
  split
  · split
    · omega
    · have := (realloc_allTrue h p.bufId ho).1
      cases hr : h.realloc p.bufId with
      | mk r h1 => rw [hr] at this; simp at this; subst this; rfl
  · rfl

theorem grow_ge (fuel size ns : Nat) : ns ≤ grow fuel size ns := by
  induction fuel generalizing ns with
  | zero => simp [grow]
  | succ k ih =>
    unfold grow
    split
    · exact Nat.le_trans (by omega) (ih (ns * 2))
    · exact Nat.le_refl _

/-- **next_op_succeeds**: once memory is available again (an all-true oracle — in particular the exhausted one), every
modelled operation succeeds provided it would fit at all (the `max_size` test is not an allocation failure):
coap_pdu_init returns a PDU, coap_pdu_resize returns 1, new optlist nodes / strings are created, and a send whose socket
write works is never answered COAP_INVALID_MID. -/
theorem next_op_succeeds (h : Heap) (ho : AllTrue h.orc) :
    (∀ size, size ≤ 8388864 - 6 → ((pduInit size h).1).isSome) ∧
    (∀ p n, (p.maxSize = 0 ∨ n ≤ p.maxSize) → (resize p n h).1 = 1) ∧
    (∀ ol num v, (optlistAdd ol num v h).1 = 1) ∧
    ((newString h).1).isSome ∧
    (∀ con p s, p.tokLen ≤ s.maxTok → s.writeOk = true → (send con p s h).1 ≠ .error) := by
  refine ⟨?_, fun p n hfit => resize_allTrue p n h ho hfit, ?_, ?_, ?_⟩
  · intro size hs
    unfold pduInit
    have ha := alloc_allTrue h ho
    cases hr : h.alloc with
    | mk r h1 =>
      rw [hr] at ha
      simp only at ha
      obtain ⟨ha1, ha2⟩ := ha
      subst ha1
      simp only
      have : ¬ size > 8388864 - 6 := by omega
      simp only [this, if_false]
      have hb := alloc_allTrue h1 ha2
      cases hr2 : h1.alloc with
      | mk r2 h2 => rw [hr2] at hb; simp only at hb; rw [hb.1]; rfl
  · intro ol num v
    unfold optlistAdd
    have ha := alloc_allTrue h ho
    cases hr : h.alloc with
    | mk r h1 => rw [hr] at ha; simp only at ha; rw [ha.1]
  · unfold newString; rw [(alloc_allTrue h ho).1]; rfl
  · intro con p s ht hw
    unfold send
    have : ¬ p.tokLen > s.maxTok := by omega
    simp only [this, if_false]
    unfold sendInternal
    have ha := alloc_allTrue h ho
    cases hr : h.alloc with
    | mk r h1 =>
      rw [hr] at ha; simp only at ha
      obtain ⟨ha1, _⟩ := ha
      subst ha1
      split
      · simp
      · simp only [hw]
        split <;> simp

/-! ## allocation counts -/

/-- **alloc_count_matches**: the number of allocation REQUESTS each helper makes, as a function of what happens — the
numbers the differential run compares with the real code for every script and every failing index:
coap_pdu_init 1 (first request refused, or size too large: the request is made before the size test) or 2;
coap_pdu_resize 1 iff it must grow and may (else 0); optlist node, string: 1; coap_send: 1 for a message that is delayed
(any type: the delay-queue node) or a CON that is written and reaches coap_new_node, 0 otherwise. -/
theorem alloc_count_matches (h : Heap) :
    (∀ size, (pduInit size h).2.reqs = h.reqs + (if h.orc.head = false ∨ size > 8388864 - 6 then 1 else 2)) ∧
    (∀ p n, (resize p n h).2.2.reqs = h.reqs + (if n > p.allocSize ∧ ¬ (p.maxSize ≠ 0 ∧ n > p.maxSize) then 1 else 0)) ∧
    (∀ ol num v, (optlistAdd ol num v h).2.2.reqs = h.reqs + 1) ∧
    ((newString h).2.reqs = h.reqs + 1) ∧
    (∀ con p s, (send con p s h).2.2.reqs = h.reqs +
        (if p.tokLen > s.maxTok then 0 else if MustDelay con s then 1
         else if s.writeOk = false then 0 else if con = false then 0 else 1)) := by
  refine ⟨?_, ?_, ?_, alloc_reqs h, ?_⟩
  · intro size
    unfold pduInit
    cases ha : h.alloc with
    | mk r h1 =>
      have hreq := alloc_reqs h; rw [ha] at hreq; simp only at hreq
      cases r with
      | none =>
        have : h.orc.head = false := by
          unfold Heap.alloc at ha; split at ha <;> simp_all
        simp [this, hreq]
      | some pid =>
        have hh : h.orc.head = true := by
          unfold Heap.alloc at ha; split at ha <;> simp_all
        simp only [hh, Bool.true_eq_false, false_or]
        split
        · simp [Heap.free, hreq]
        · cases hb : h1.alloc with
          | mk r2 h2 =>
            have hreq2 := alloc_reqs h1; rw [hb] at hreq2; simp only at hreq2
            cases r2 <;> simp [Heap.free, hreq2, hreq] <;> omega
  · intro p n
    unfold resize
    split
    · rename_i hgt
      split
      · rename_i hmax; simp [hgt, hmax]
      · rename_i hmax
        have hreq := realloc_reqs h p.bufId
        cases hr : h.realloc p.bufId with
        | mk r h1 =>
          rw [hr] at hreq; simp only at hreq
          cases r <;> simp [hgt, hmax, hreq]
    · rename_i hgt; simp [hgt]
  · intro ol num v
    unfold optlistAdd
    have hreq := alloc_reqs h
    cases ha : h.alloc with
    | mk r h1 => rw [ha] at hreq; cases r <;> simpa using hreq
  · intro con p s
    unfold send
    split
    · simp [pduDelete, Heap.free]
    · unfold sendInternal
      have hreq := alloc_reqs h
      cases ha : h.alloc with
      | mk r h1 =>
        rw [ha] at hreq; simp only at hreq
        unfold MustDelay
        cases con <;> cases hw : s.writeOk <;> by_cases he : s.established = true <;> by_cases hc : s.conActive ≥ s.nstart <;>
          cases r <;> simp [hc, he, hreq, pduDelete, Heap.free]

/-! ## Observe registrations (coap_add_observer / coap_delete_observer): ledger invariant -/

theorem replays_pduDelete (p : OPdu) (h : Heap) (hr : h.Replays) : (pduDelete p h).Replays :=
  replays_free _ _ (replays_free _ _ hr)

theorem replays_resize (p : OPdu) (n : Nat) (h : Heap) (hr : h.Replays) : (resize p n h).2.2.Replays := by
  unfold resize
  split
  · split
    · exact hr
    · have := replays_realloc h p.bufId hr
      cases hrr : h.realloc p.bufId with
      | mk a h1 => rw [hrr] at this; cases a <;> exact this
  · exact hr

theorem replays_checkResize (p : OPdu) (n : Nat) (h : Heap) (hr : h.Replays) : (checkResize p n h).2.2.Replays := by
  unfold checkResize
  split
  · simp only
    split
    · split
      · exact hr
      · exact replays_resize _ _ _ hr
    · exact replays_resize _ _ _ hr
  · exact hr

theorem replays_pduInit (size : Nat) (h : Heap) (hr : h.Replays) : (pduInit size h).2.Replays := by
  unfold pduInit
  have ha := replays_alloc h hr
  cases hal : h.alloc with
  | mk a h1 =>
    rw [hal] at ha
    cases a with
    | none => exact ha
    | some pid =>
      simp only
      split
      · exact replays_free _ _ ha
      · have hb := replays_alloc h1 ha
        cases hbl : h1.alloc with
        | mk b h2 =>
          rw [hbl] at hb
          cases b with
          | none => exact replays_free _ _ hb
          | some bid => exact hb

theorem replays_addToken (p : OPdu) (d : Bytes) (h : Heap) (hr : h.Replays) : (addToken p d h).2.2.Replays := by
  unfold addToken
  simp only
  split
  · exact hr
  · split
    · exact hr
    · rename_i bias _
      have := replays_checkResize p (d.length + bias) h hr
      cases hcr : checkResize p (d.length + bias) h with
      | mk rc rest =>
        cases rest with
        | mk p1 h1 => rw [hcr] at this; cases rc <;> exact this

theorem replays_addData (p : OPdu) (d : Bytes) (h : Heap) (hr : h.Replays) : (addData p d h).2.2.Replays := by
  unfold addData
  split
  · exact hr
  · split
    · exact hr
    · have := replays_resize p (p.buf.length + d.length + 1) h hr
      cases hcr : resize p (p.buf.length + d.length + 1) h with
      | mk rc rest =>
        cases rest with
        | mk p1 h1 => rw [hcr] at this; cases rc <;> exact this

theorem replays_pduDuplicate (old : OPdu) (sm : Nat) (tok : Bytes) (h : Heap) (hr : h.Replays) :
    (pduDuplicate old sm tok h).2.Replays := by
  unfold pduDuplicate
  have hi := replays_pduInit (max old.maxSize sm) h hr
  cases hpi : pduInit (max old.maxSize sm) h with
  | mk a h1 =>
    rw [hpi] at hi
    cases a with
    | none => exact hi
    | some p =>
      simp only
      have ht := replays_addToken p tok h1 hi
      split
      · exact replays_pduDelete _ _ ht
      · have hz := replays_resize (addToken p tok h1).2.1 ((optRegion old).length + etl (addToken p tok h1).2.1)
          (addToken p tok h1).2.2 ht
        split
        · exact replays_pduDelete _ _ hz
        · exact hz

theorem replays_deriveKey (p : OPdu) (h : Heap) (hr : h.Replays) : (deriveKey p h).2.Replays := by
  unfold deriveKey
  split
  · exact hr
  · have := replays_alloc h hr
    cases hal : h.alloc with
    | mk a h1 => rw [hal] at this; cases a <;> exact this

theorem replays_deleteObserver (tok : Bytes) (o : Obs) (h : Heap) (hr : h.Replays) : (deleteObserver tok o h).2.2.Replays := by
  unfold deleteObserver
  split
  · exact hr
  · simp only
    unfold deleteObserverInternal
    split
    · exact hr
    · exact replays_free _ _ (replays_free _ _ (replays_pduDelete _ _ hr))

theorem replays_replaceStep (req : OPdu) (o : Obs) (h : Heap) (hr : h.Replays) : (replaceStep req o h).2.2.Replays := by
  unfold replaceStep
  have hk := replays_deriveKey req h hr
  simp only
  split
  · split
    · exact replays_deleteObserver _ _ _ hk
    · exact hk
  · exact hk

theorem replays_freeKey (k1 : Option (Nat × KeyMat)) (h : Heap) (hr : h.Replays) : (freeKey k1 h).Replays := by
  unfold freeKey
  split
  · exact replays_free _ _ hr
  · exact hr

theorem replays_copyPayload (req p : OPdu) (h : Heap) (hr : h.Replays) : (copyPayload req p h).2.2.Replays := by
  unfold copyPayload
  split
  · exact replays_addData _ _ _ hr
  · exact hr

theorem replays_lateKey (req : OPdu) (k1 : Option (Nat × KeyMat)) (h : Heap) (hr : h.Replays) :
    (lateKey req k1 h).2.Replays := by
  unfold lateKey
  split
  · exact hr
  · exact replays_deriveKey _ _ hr

theorem replays_finishSub (req : OPdu) (tok : Bytes) (k1 : Option (Nat × KeyMat)) (o : Obs) (sid : Nat) (p : OPdu) (h : Heap)
    (hr : h.Replays) : (finishSub req tok k1 o sid p h).2.2.Replays := by
  unfold finishSub
  have ha := replays_copyPayload req p h hr
  generalize copyPayload req p h = a at ha
  simp only
  split
  · exact replays_free _ _ (replays_freeKey _ _ (replays_pduDelete _ _ ha))
  · have hk := replays_lateKey req k1 a.2.2 ha
    generalize lateKey req k1 a.2.2 = k2 at hk
    split
    · exact replays_free _ _ (replays_pduDelete _ _ hk)
    · exact hk

theorem replays_createSub (req : OPdu) (sm : Nat) (tok : Bytes) (k1 : Option (Nat × KeyMat)) (o : Obs) (h : Heap)
    (hr : h.Replays) : (createSub req sm tok k1 o h).2.2.Replays := by
  unfold createSub
  have ha := replays_alloc h hr
  cases hal : h.alloc with
  | mk a h2 =>
    rw [hal] at ha
    cases a with
    | none => exact replays_freeKey _ _ ha
    | some sid =>
      simp only
      have hd := replays_pduDuplicate req sm tok h2 ha
      cases hdu : pduDuplicate req sm tok h2 with
      | mk d h3 =>
        rw [hdu] at hd
        cases d with
        | none => exact replays_free _ _ (replays_freeKey _ _ hd)
        | some p => exact replays_finishSub _ _ _ _ _ _ _ hd

theorem replays_addObserver (req : OPdu) (sm : Nat) (tok : Bytes) (o : Obs) (h : Heap) (hr : h.Replays) :
    (addObserver req sm tok o h).2.2.Replays := by
  unfold addObserver
  split
  · exact hr
  · exact replays_createSub _ _ _ _ _ _ (replays_replaceStep _ _ _ hr)

/-! ## Observe registrations: the reference count and the ledger under ANY oracle -/

/-- `session->ref` = the other holders of the session + the number of subscriptions (each holds exactly one reference) -/
def ObsBal (base : Nat) (o : Obs) : Prop := o.ref = base + o.subs.length

/-- `coap_delete_observer`: 0 = nothing changes; 1 = one subscription fewer, its reference given back, and its four
objects (request copy: buffer + header, cache key, subscription) released, in this order, nothing else -/
theorem deleteObserver_spec (tok : Bytes) (o : Obs) (h : Heap) :
    ((deleteObserver tok o h).1 = 0 ∧ (deleteObserver tok o h).2.1 = o ∧ (deleteObserver tok o h).2.2 = h) ∨
    (∃ s ∈ o.subs, s.tok = tok ∧ (deleteObserver tok o h).1 = 1 ∧
      (deleteObserver tok o h).2.1.ref = o.ref - 1 ∧
      (deleteObserver tok o h).2.1.subs.length = o.subs.length - 1 ∧
      (deleteObserver tok o h).2.2 = ((pduDelete s.pdu h).free s.keyId).free s.id) := by
  unfold deleteObserver
  split
  · left; exact ⟨rfl, rfl, rfl⟩
  · rename_i s hs
    right
    have hm := List.mem_of_find?_eq_some hs
    have ht : s.tok = tok := by have := List.find?_some hs; simpa using this
    have hne : o.subs.isEmpty = false := by
      cases ho : o.subs with
      | nil => rw [ho] at hm; cases hm
      | cons a r => rfl
    refine ⟨s, hm, ht, rfl, ?_, ?_, ?_⟩ <;> simp only [deleteObserverInternal, hne] <;> simp
    exact List.length_eraseP_of_mem hm (by simp)

theorem deleteObserver_balanced (base : Nat) (tok : Bytes) (o : Obs) (h : Heap) (hb : ObsBal base o) :
    ObsBal base (deleteObserver tok o h).2.1 := by
  rcases deleteObserver_spec tok o h with ⟨_, ho, _⟩ | ⟨s, hm, _, _, hr, hl, _⟩
  · rw [ho]; exact hb
  · unfold ObsBal at *
    have : o.subs.length ≥ 1 := List.length_pos_of_mem hm
    omega

/-- the PDU's two blocks are the two newest live objects, on top of `L` -/
def Owns (p : OPdu) (L live : List Nat) : Prop := live = p.bufId :: p.id :: L

theorem owns_delete (p : OPdu) (L : List Nat) (h : Heap) (ho : Owns p L h.live) : (pduDelete p h).live = L := by
  unfold Owns at ho
  simp [pduDelete, Heap.free, ho]

theorem owns_resize (p : OPdu) (n : Nat) (h : Heap) (L : List Nat) (ho : Owns p L h.live) :
    Owns (resize p n h).2.1 L (resize p n h).2.2.live := by
  have hs := resize_spec p n h
  by_cases hz : (resize p n h).1 = 0
  · have := hs.1 hz
    unfold Owns at *
    rw [this.1, this.2.1]; exact ho
  · obtain ⟨_, _, hid, _, _, _, _, _, hl⟩ := hs.2 hz
    unfold Owns at *
    rcases hl with ⟨hl, hb⟩ | hl
    · rw [hl, hb, hid]; exact ho
    · rw [hl, hid, ho]; simp

theorem owns_checkResize (p : OPdu) (n : Nat) (h : Heap) (L : List Nat) (ho : Owns p L h.live) :
    Owns (checkResize p n h).2.1 L (checkResize p n h).2.2.live := by
  have hs := checkResize_spec p n h
  by_cases hz : (checkResize p n h).1 = 0
  · have := hs.1 hz
    unfold Owns at *
    rw [this.1, this.2.1]; exact ho
  · obtain ⟨_, _, hid, _, _, _, _, hl⟩ := hs.2 hz
    unfold Owns at *
    rcases hl with ⟨hl, hb⟩ | hl
    · rw [hl, hb, hid]; exact ho
    · rw [hl, hid, ho]; simp

theorem owns_addToken (p : OPdu) (d : Bytes) (h : Heap) (L : List Nat) (ho : Owns p L h.live) :
    Owns (addToken p d h).2.1 L (addToken p d h).2.2.live := by
  unfold addToken
  simp only
  split
  · exact ho
  · split
    · exact ho
    · rename_i bias _
      have hc := owns_checkResize p (d.length + bias) h L ho
      by_cases hz : (checkResize p (d.length + bias) h).1 = 0
      · simp only [hz, if_true]
        have := (checkResize_spec p (d.length + bias) h).1 hz
        unfold Owns at *
        rw [this.2.1]; exact ho
      · simp only [hz, if_false]
        exact hc

theorem owns_addData (p : OPdu) (d : Bytes) (h : Heap) (L : List Nat) (ho : Owns p L h.live) :
    Owns (addData p d h).2.1 L (addData p d h).2.2.live := by
  unfold addData
  split
  · exact ho
  · split
    · exact ho
    · have hc := owns_resize p (p.buf.length + d.length + 1) h L ho
      simp only
      by_cases hz : (resize p (p.buf.length + d.length + 1) h).1 = 0
      · simp only [hz, if_true]
        have := (resize_spec p (p.buf.length + d.length + 1) h).1 hz
        unfold Owns at *
        rw [this.2.1]; exact ho
      · simp only [hz, if_false]
        exact hc

/-- `coap_pdu_duplicate_lkd`: NULL leaves the ledger as it was (whichever of its up to four requests failed); a copy owns
exactly two new blocks -/
theorem pduDuplicate_live (old : OPdu) (sm : Nat) (tok : Bytes) (h : Heap) :
    ((pduDuplicate old sm tok h).1 = none → (pduDuplicate old sm tok h).2.live = h.live) ∧
    (∀ p, (pduDuplicate old sm tok h).1 = some p → Owns p h.live (pduDuplicate old sm tok h).2.live) := by
  unfold pduDuplicate
  have hi := pduInit_ledger (max old.maxSize sm) h
  cases hpi : pduInit (max old.maxSize sm) h with
  | mk a h1 =>
    rw [hpi] at hi
    cases a with
    | none => exact ⟨fun _ => hi.1 rfl, fun p hp => by simp at hp⟩
    | some p0 =>
      have h0 : Owns p0 h.live h1.live := (hi.2 p0 rfl).1
      simp only
      have ht := owns_addToken p0 tok h1 h.live h0
      split
      · exact ⟨fun _ => owns_delete _ _ _ ht, fun p hp => by simp at hp⟩
      · have hz := owns_resize (addToken p0 tok h1).2.1 ((optRegion old).length + etl (addToken p0 tok h1).2.1)
          (addToken p0 tok h1).2.2 h.live ht
        split
        · exact ⟨fun _ => owns_delete _ _ _ hz, fun p hp => by simp at hp⟩
        · refine ⟨fun hn => by simp at hn, fun p hp => ?_⟩
          simp only [Option.some.injEq] at hp
          subst hp
          exact hz

/-- the key derived before the subscription is created, if any, is the newest live object; serials are fresh -/
def KeyHeld (k1 : Option (Nat × KeyMat)) (L : List Nat) (h : Heap) : Prop :=
  (match k1 with
   | some (k, _) => h.live = k :: L
   | none => h.live = L) ∧ ∀ i ∈ h.live, i < h.next

theorem deriveKey_live (p : OPdu) (h : Heap) :
    ((deriveKey p h).1 = none → (deriveKey p h).2.live = h.live) ∧
    (∀ k km, (deriveKey p h).1 = some (k, km) → (deriveKey p h).2.live = k :: h.live ∧ k = h.next ∧
      (deriveKey p h).2.next = h.next + 1 ∧ keyOf p = some km) := by
  unfold deriveKey
  split
  · exact ⟨fun _ => rfl, fun k km hk => by simp at hk⟩
  · rename_i km0 hkm
    cases ha : h.alloc with
    | mk a h1 =>
      cases a with
      | none =>
        have := alloc_fail_live h (by rw [ha]); rw [ha] at this
        exact ⟨fun _ => this.1, fun k km hk => by simp at hk⟩
      | some i =>
        have hl := alloc_ok_live h i (by rw [ha]); rw [ha] at hl
        refine ⟨fun hn => by simp at hn, fun k km hk => ?_⟩
        simp only [Option.some.injEq, Prod.mk.injEq] at hk
        obtain ⟨rfl, rfl⟩ := hk
        refine ⟨hl.2, hl.1, ?_, hkm⟩
        unfold Heap.alloc at ha
        split at ha <;> simp_all
        rw [← ha]

theorem alloc_next_ge (h : Heap) : h.next ≤ h.alloc.2.next := by
  unfold Heap.alloc; split <;> simp

theorem deriveKey_next_ge (p : OPdu) (h : Heap) : h.next ≤ (deriveKey p h).2.next := by
  unfold deriveKey
  split
  · exact Nat.le_refl _
  · have := alloc_next_ge h
    cases ha : h.alloc with
    | mk a h1 => rw [ha] at this; cases a <;> exact this

/-- what the second half of `coap_add_observer` does to the subscriber list, the reference count and the ledger, for EVERY
oracle: either NULL, and then subscriber list, reference count and ledger are what they were before the call (the key
derived before, if any, has been released as well): nothing leaks, no reference is kept;
or a new subscription at the head of the list, ONE more reference, and exactly its four objects added to the ledger. -/
theorem createSub_spec (req : OPdu) (sm : Nat) (tok : Bytes) (k1 : Option (Nat × KeyMat)) (o : Obs) (h : Heap)
    (L : List Nat) (hk : KeyHeld k1 L h) :
    ((createSub req sm tok k1 o h).1 = none ∧ (createSub req sm tok k1 o h).2.1 = o ∧
      (createSub req sm tok k1 o h).2.2.live = L) ∨
    (∃ s : Sub, (createSub req sm tok k1 o h).1 = some s.id ∧ s.tok = tok ∧
      (createSub req sm tok k1 o h).2.1 = { ref := o.ref + 1, subs := s :: o.subs } ∧
      ((createSub req sm tok k1 o h).2.2.live = s.pdu.bufId :: s.pdu.id :: s.id :: s.keyId :: L ∨
       (createSub req sm tok k1 o h).2.2.live = s.keyId :: s.pdu.bufId :: s.pdu.id :: s.id :: L)) := by
  obtain ⟨hkl, hfresh⟩ := hk
  unfold createSub
  cases ha : h.alloc with
  | mk a h2 =>
    cases a with
    | none =>
      left
      have hl := (alloc_fail_live h (by rw [ha])).1; rw [ha] at hl
      simp only at hl ⊢
      refine ⟨by simp, by simp, ?_⟩
      cases k1 with
      | none => simp only [freeKey]; rw [hl]; exact hkl
      | some kk => obtain ⟨k, km⟩ := kk; simp only [freeKey, Heap.free] at hkl ⊢; rw [hl, hkl]; simp
    | some sid =>
      have hl := alloc_ok_live h sid (by rw [ha]); rw [ha] at hl
      obtain ⟨hsid, hl2⟩ := hl
      simp only at hl2 ⊢
      -- the subscription's serial is not the key's
      have hne : ∀ k km, k1 = some (k, km) → sid ≠ k := by
        intro k km hk1
        subst hk1
        simp only at hkl
        have := hfresh k (by rw [hkl]; simp)
        omega
      have hd := pduDuplicate_live req sm tok h2
      cases hdu : pduDuplicate req sm tok h2 with
      | mk d h3 =>
        rw [hdu] at hd
        cases d with
        | none =>
          left
          have hl3 : h3.live = h2.live := hd.1 rfl
          refine ⟨rfl, rfl, ?_⟩
          cases k1 with
          | none => simp only [freeKey, Heap.free]; rw [hl3, hl2]; simp only at hkl; rw [hkl]; simp
          | some kk =>
            obtain ⟨k, km⟩ := kk
            have := hne k km rfl
            simp only at hkl
            simp only [freeKey, Heap.free]; rw [hl3, hl2, hkl]
            simp [this]
        | some p =>
          have hown : Owns p h2.live h3.live := hd.2 p rfl
          simp only
          unfold finishSub
          -- payload copy
          have hcp : Owns (copyPayload req p h3).2.1 h2.live (copyPayload req p h3).2.2.live := by
            unfold copyPayload
            split
            · exact owns_addData _ _ _ _ hown
            · exact hown
          generalize copyPayload req p h3 = a at hcp
          simp only
          split
          · left
            refine ⟨rfl, rfl, ?_⟩
            have hdl := owns_delete _ _ _ hcp
            cases k1 with
            | none => simp only [freeKey, Heap.free]; rw [hdl, hl2]; simp only at hkl; rw [hkl]; simp
            | some kk =>
              obtain ⟨k, km⟩ := kk
              have := hne k km rfl
              simp only at hkl
              simp only [freeKey, Heap.free]; rw [hdl, hl2, hkl]
              simp [this]
          · cases k1 with
            | some kk =>
              obtain ⟨k, km⟩ := kk
              right
              simp only [lateKey]
              simp only at hkl
              refine ⟨⟨sid, a.2.1, k, km, tok⟩, rfl, rfl, rfl, Or.inl ?_⟩
              unfold Owns at hcp
              rw [hcp, hl2, hkl]
            | none =>
              simp only [lateKey]
              have hdk := deriveKey_live req a.2.2
              cases hdr : deriveKey req a.2.2 with
              | mk kk h5 =>
                rw [hdr] at hdk
                cases kk with
                | none =>
                  left
                  simp only
                  refine ⟨by simp, by simp, ?_⟩
                  have h5l : h5.live = a.2.2.live := hdk.1 rfl
                  have hdl := owns_delete a.2.1 h2.live h5 (by unfold Owns at *; rw [h5l]; exact hcp)
                  simp only at hkl
                  simp only [Heap.free]; rw [hdl, hl2, hkl]; simp
                | some kk2 =>
                  obtain ⟨kid, km⟩ := kk2
                  right
                  have h5l := (hdk.2 kid km rfl).1
                  simp only at hkl h5l ⊢
                  refine ⟨⟨sid, a.2.1, kid, km, tok⟩, rfl, rfl, rfl, Or.inr ?_⟩
                  unfold Owns at hcp
                  rw [h5l, hcp, hl2, hkl]

/-- the subscriber list and the reference count after the second half of `coap_add_observer`, for every heap and oracle:
unchanged with NULL, or one more subscription AND one more reference -/
theorem createSub_obs (req : OPdu) (sm : Nat) (tok : Bytes) (k1 : Option (Nat × KeyMat)) (o : Obs) (h : Heap) :
    ((createSub req sm tok k1 o h).1 = none ∧ (createSub req sm tok k1 o h).2.1 = o) ∨
    (∃ s : Sub, (createSub req sm tok k1 o h).1 = some s.id ∧ s.tok = tok ∧
      (createSub req sm tok k1 o h).2.1 = { ref := o.ref + 1, subs := s :: o.subs }) := by
  unfold createSub
  cases ha : h.alloc with
  | mk a h2 =>
    cases a with
    | none => left; exact ⟨rfl, rfl⟩
    | some sid =>
      simp only
      cases hdu : pduDuplicate req sm tok h2 with
      | mk d h3 =>
        cases d with
        | none => left; exact ⟨rfl, rfl⟩
        | some p =>
          simp only
          unfold finishSub
          generalize copyPayload req p h3 = a
          simp only
          split
          · left; exact ⟨rfl, rfl⟩
          · generalize lateKey req k1 a.2.2 = k2
            split
            · left; exact ⟨rfl, rfl⟩
            · rename_i kid km _
              right
              exact ⟨⟨sid, a.2.1, kid, km, tok⟩, rfl, rfl, rfl⟩

/-- the first half: the key is derived (or not) and at most one subscription is deleted — through `coap_delete_observer` -/
theorem replaceStep_obs (req : OPdu) (o : Obs) (h : Heap) :
    (replaceStep req o h).2.1 = o ∨ ∃ t h', (replaceStep req o h).2.1 = (deleteObserver t o h').2.1 := by
  unfold replaceStep
  simp only
  split
  · split
    · right; exact ⟨_, _, rfl⟩
    · left; rfl
  · left; rfl

theorem addObserver_balanced (base : Nat) (req : OPdu) (sm : Nat) (tok : Bytes) (o : Obs) (h : Heap) (hb : ObsBal base o) :
    ObsBal base (addObserver req sm tok o h).2.1 := by
  unfold addObserver
  split
  · exact hb
  · simp only
    have h1 : ObsBal base (replaceStep req o h).2.1 := by
      rcases replaceStep_obs req o h with he | ⟨t, h', he⟩
      · rw [he]; exact hb
      · rw [he]; exact deleteObserver_balanced base t o h' hb
    rcases createSub_obs req sm tok (replaceStep req o h).1 (replaceStep req o h).2.1 (replaceStep req o h).2.2 with
      ⟨_, he⟩ | ⟨s, _, _, he⟩
    · rw [he]; exact h1
    · rw [he]; unfold ObsBal at *; simp only [List.length_cons]; omega

/-- **add_observer_spec** — `coap_add_observer` for EVERY oracle (any pattern of failing requests: the cache key, the
subscription, the two blocks of the request copy, growing the copy for the token / the options / the payload, the key
again), when no subscription of the session is replaced (none has the request's cache key): exactly one of
  (found)   a subscription with this token exists: it is returned, nothing changes, no request is made;
  (NULL)    the subscriber list, the session's reference count AND the ledger are exactly what they were: no reference
            is kept (C18-5: the reference is taken after the last step that can fail), nothing leaks;
  (new)     a new subscription with this token at the head of the list, ONE more reference, and exactly four more live
            objects: the copy's buffer and header, the subscription, the cache key. -/
theorem add_observer_spec (req : OPdu) (sm : Nat) (tok : Bytes) (o : Obs) (h : Heap)
    (hfresh : ∀ i ∈ h.live, i < h.next)
    (hnokey : ∀ km, keyOf req = some km → o.subs.find? (fun x => x.key == km) = none) :
    (∃ s ∈ o.subs, s.tok = tok ∧ addObserver req sm tok o h = (some s.id, o, h)) ∨
    ((addObserver req sm tok o h).1 = none ∧ (addObserver req sm tok o h).2.1 = o ∧
      (addObserver req sm tok o h).2.2.live = h.live) ∨
    (∃ s : Sub, (addObserver req sm tok o h).1 = some s.id ∧ s.tok = tok ∧
      (addObserver req sm tok o h).2.1 = { ref := o.ref + 1, subs := s :: o.subs } ∧
      ((addObserver req sm tok o h).2.2.live = s.pdu.bufId :: s.pdu.id :: s.id :: s.keyId :: h.live ∨
       (addObserver req sm tok o h).2.2.live = s.keyId :: s.pdu.bufId :: s.pdu.id :: s.id :: h.live)) := by
  unfold addObserver
  split
  · rename_i s hs
    left
    have ht : s.tok = tok := by have := List.find?_some hs; simpa using this
    exact ⟨s, List.mem_of_find?_eq_some hs, ht, rfl⟩
  · right
    simp only
    -- the first half only derives the key
    have hdk := deriveKey_live req h
    have hrs : (replaceStep req o h).2.1 = o ∧ (replaceStep req o h).2.2 = (deriveKey req h).2 ∧
        (replaceStep req o h).1 = (deriveKey req h).1 := by
      unfold replaceStep
      simp only
      cases hk : (deriveKey req h).1 with
      | none => exact ⟨rfl, rfl, rfl⟩
      | some kk =>
        obtain ⟨k, km⟩ := kk
        simp only
        have := hnokey km (hdk.2 k km hk).2.2.2
        rw [this]
        exact ⟨rfl, rfl, rfl⟩
    have hheld : KeyHeld (replaceStep req o h).1 h.live (replaceStep req o h).2.2 := by
      rw [hrs.2.1, hrs.2.2]
      cases hk : (deriveKey req h).1 with
      | none =>
        have hl := hdk.1 hk
        refine ⟨hl, ?_⟩
        intro i hi
        rw [hl] at hi
        have : (deriveKey req h).2.next ≥ h.next := deriveKey_next_ge req h
        have := hfresh i hi
        omega
      | some kk =>
        obtain ⟨k, km⟩ := kk
        obtain ⟨hl, hkn, hnx, _⟩ := hdk.2 k km hk
        refine ⟨hl, ?_⟩
        intro i hi
        rw [hl] at hi
        rw [hnx]
        rcases List.mem_cons.mp hi with he | hm
        · omega
        · have := hfresh i hm; omega
    have := createSub_spec req sm tok (replaceStep req o h).1 (replaceStep req o h).2.1 (replaceStep req o h).2.2 h.live hheld
    rw [hrs.1] at this ⊢
    exact this

/-! ## with memory available a registration succeeds -/

theorem resize_orc (p : OPdu) (n : Nat) (h : Heap) (ho : AllTrue h.orc) : AllTrue (resize p n h).2.2.orc := by
  unfold resize
  split
  · split
    · exact ho
    · have := (realloc_allTrue h p.bufId ho).2
      cases hr : h.realloc p.bufId with
      | mk r h1 => rw [hr] at this; cases r <;> exact this
  · exact ho

theorem checkResize_orc (p : OPdu) (n : Nat) (h : Heap) (ho : AllTrue h.orc) : AllTrue (checkResize p n h).2.2.orc := by
  unfold checkResize
  split
  · simp only
    split
    · split
      · exact ho
      · exact resize_orc _ _ _ ho
    · exact resize_orc _ _ _ ho
  · exact ho

theorem checkResize_allTrue (p : OPdu) (n : Nat) (h : Heap) (ho : AllTrue h.orc) (hfit : p.maxSize = 0 ∨ n ≤ p.maxSize) :
    (checkResize p n h).1 = 1 := by
  unfold checkResize
  split
  · simp only
    split
    · rename_i hbig
      split
      · omega
      · exact resize_allTrue p p.maxSize h ho (Or.inr (Nat.le_refl _))
    · rename_i hsmall
      exact resize_allTrue p _ h ho (by omega)
  · rfl

/-- `coap_add_token` on a fresh PDU with memory available: succeeds when the token fits `max_size` -/
theorem addToken_allTrue (p : OPdu) (d : Bytes) (h : Heap) (ho : AllTrue h.orc) (b : Nat) (hemp : p.buf = [])
    (hb : M.tokBias d.length = some b) (hfit : p.maxSize = 0 ∨ d.length + b ≤ p.maxSize) :
    (addToken p d h).1 = 1 ∧ AllTrue (addToken p d h).2.2.orc ∧ (addToken p d h).2.1.maxSize = p.maxSize ∧
    (addToken p d h).2.1.tokLen = d.length ∧ (addToken p d h).2.1.data = none := by
  unfold addToken
  simp only [hemp, List.length_nil, ne_eq, not_true_eq_false, if_false, hb]
  have h1 := checkResize_allTrue p (d.length + b) h ho hfit
  have h2 := checkResize_orc p (d.length + b) h ho
  have h3 := (checkResize_spec p (d.length + b) h).2 (by omega)
  simp only [h1, Nat.succ_ne_zero, if_false]
  exact ⟨trivial, h2, h3.2.2.2.2.2.1, trivial, trivial⟩

theorem pduInit_allTrue (size : Nat) (h : Heap) (ho : AllTrue h.orc) (hs : size ≤ 8388864 - 6) :
    ∃ p, (pduInit size h).1 = some p ∧ AllTrue (pduInit size h).2.orc ∧ p.maxSize = size ∧ p.buf = [] := by
  unfold pduInit
  have ha := alloc_allTrue h ho
  cases hr : h.alloc with
  | mk r h1 =>
    rw [hr] at ha
    simp only at ha
    obtain ⟨ha1, ha2⟩ := ha
    subst ha1
    simp only
    have : ¬ size > 8388864 - 6 := by omega
    simp only [this, if_false]
    have hb := alloc_allTrue h1 ha2
    cases hr2 : h1.alloc with
    | mk r2 h2 =>
      rw [hr2] at hb
      simp only at hb
      rw [hb.1]
      exact ⟨_, rfl, hb.2, rfl, rfl⟩

theorem pduDuplicate_allTrue (old : OPdu) (sm : Nat) (tok : Bytes) (h : Heap) (ho : AllTrue h.orc) (b : Nat)
    (hsize : max old.maxSize sm ≤ 8388864 - 6) (hb : M.tokBias tok.length = some b)
    (hfit : (optRegion old).length + tok.length + b ≤ max old.maxSize sm) :
    ∃ p, (pduDuplicate old sm tok h).1 = some p ∧ AllTrue (pduDuplicate old sm tok h).2.orc ∧ p.data = none := by
  unfold pduDuplicate
  obtain ⟨p0, hp0, ho1, hmax, hemp⟩ := pduInit_allTrue (max old.maxSize sm) h ho hsize
  cases hpi : pduInit (max old.maxSize sm) h with
  | mk a h1 =>
    rw [hpi] at hp0 ho1
    simp only at hp0 ho1
    subst hp0
    simp only
    obtain ⟨t1, to, tmax, ttok, tdata⟩ := addToken_allTrue p0 tok h1 ho1 b hemp hb (by omega)
    simp only [t1, Nat.succ_ne_zero, if_false]
    have hetl : etl (addToken p0 tok h1).2.1 = tok.length + b := by
      unfold etl; rw [ttok, hb]
    have hr1 := resize_allTrue (addToken p0 tok h1).2.1 ((optRegion old).length + etl (addToken p0 tok h1).2.1)
      (addToken p0 tok h1).2.2 to (by rw [tmax, hmax, hetl]; omega)
    have hro := resize_orc (addToken p0 tok h1).2.1 ((optRegion old).length + etl (addToken p0 tok h1).2.1)
      (addToken p0 tok h1).2.2 to
    have hrs := (resize_spec (addToken p0 tok h1).2.1 ((optRegion old).length + etl (addToken p0 tok h1).2.1)
      (addToken p0 tok h1).2.2).2 (by omega)
    simp only [hr1, Nat.succ_ne_zero, if_false]
    exact ⟨_, rfl, hro, by simp only; rw [hrs.2.2.2.2.1, tdata]⟩

theorem addData_allTrue (p : OPdu) (d : Bytes) (h : Heap) (ho : AllTrue h.orc) (hmax : p.maxSize = 0) (hd : p.data = none) :
    (addData p d h).1 = 1 := by
  unfold addData
  split
  · rfl
  · split
    · rename_i hs; rw [hd] at hs; simp at hs
    · have hr := resize_allTrue p (p.buf.length + d.length + 1) h ho (Or.inl hmax)
      simp only [hr, Nat.succ_ne_zero, if_false]

theorem deleteObserver_orc (tok : Bytes) (o : Obs) (h : Heap) : (deleteObserver tok o h).2.2.orc = h.orc := by
  unfold deleteObserver
  split
  · rfl
  · simp only [deleteObserverInternal]
    split <;> rfl

theorem deriveKey_allTrue (p : OPdu) (h : Heap) (ho : AllTrue h.orc) (km : KeyMat) (hk : keyOf p = some km) :
    (deriveKey p h).1 = some (h.next, km) ∧ AllTrue (deriveKey p h).2.orc := by
  unfold deriveKey
  rw [hk]
  have ha := alloc_allTrue h ho
  cases hr : h.alloc with
  | mk r h1 => rw [hr] at ha; simp only at ha ⊢; rw [ha.1]; exact ⟨rfl, ha.2⟩

/-- **add_observer_succeeds_with_memory** — once memory is available again (an all-true oracle, the exhausted one in
particular) `coap_add_observer` returns a subscription, provided the request has something to derive a key from (at least
one option or a payload) and the token and the options fit the size limit of the copy.  With `observer_refs_balanced`:
the failed registration left nothing behind that makes the next one fail. -/
theorem add_observer_succeeds_with_memory (req : OPdu) (sm : Nat) (tok : Bytes) (o : Obs) (h : Heap) (ho : AllTrue h.orc)
    (km : KeyMat) (hkey : keyOf req = some km) (b : Nat) (hb : M.tokBias tok.length = some b)
    (hsize : max req.maxSize sm ≤ 8388864 - 6)
    (hfit : (optRegion req).length + tok.length + b ≤ max req.maxSize sm) :
    (addObserver req sm tok o h).1.isSome = true := by
  unfold addObserver
  split
  · rfl
  · simp only
    -- first half: the key is derived
    obtain ⟨hk1, hko⟩ := deriveKey_allTrue req h ho km hkey
    have hrs : (replaceStep req o h).1 = some (h.next, km) ∧ AllTrue (replaceStep req o h).2.2.orc := by
      unfold replaceStep
      simp only [hk1]
      split
      · exact ⟨rfl, by rw [deleteObserver_orc]; exact hko⟩
      · exact ⟨rfl, hko⟩
    generalize replaceStep req o h = r at hrs
    obtain ⟨hr1, hro⟩ := hrs
    unfold createSub
    have ha := alloc_allTrue r.2.2 hro
    cases hal : r.2.2.alloc with
    | mk a h2 =>
      rw [hal] at ha
      simp only at ha
      obtain ⟨ha1, ha2⟩ := ha
      subst ha1
      simp only
      obtain ⟨p, hp, hpo, hpd⟩ := pduDuplicate_allTrue req sm tok h2 ha2 b hsize hb hfit
      cases hdu : pduDuplicate req sm tok h2 with
      | mk d h3 =>
        rw [hdu] at hp hpo
        simp only at hp hpo
        subst hp
        simp only
        unfold finishSub
        have hcp : (copyPayload req p h3).1 = 1 := by
          unfold copyPayload
          split
          · exact addData_allTrue _ _ _ hpo rfl hpd
          · rfl
        simp only [hcp, Nat.succ_ne_zero, if_false, lateKey, hr1]
        rfl

/-! ## whole scripts -/

/-- non-vacuity and a concrete run: a script under the oracle that fails the 3rd request; the buffer cannot be
grown to 300 bytes (the realloc of the 256-byte buffer fails), everything else goes through, the trace is clean after clean-up -/
example :
    let st := (St.init (oracleFailing 3 0 3)).run [.init 1152, .token 4, .check 300, .option 11 3, .data 10, .send true]
    st.1 = [.num 1, .num 1, .num 0, .num 4, .num 1, .sent .queued] ∧ st.2.heap.reqs = 4 ∧
    ledgerOk st.2.cleanup.heap.trace = true := by decide

example : ledgerOk ((St.init []).run [.init 100, .olAdd 11 2, .olAdd 3 1, .olPdu, .str 5, .send false]).2.cleanup.heap.trace = true := by
  decide

/-- **script_ledger_ok** — stated for every oracle and every script over the ops whose clean-up is a single object
(PDU life cycle and the send path; the optlist / string loops are covered by `no_leak_on_failure` per call and by
the differential run's monitor verdict on M's own trace for every script):
the heap invariant `Replays` (the model's ledger IS the monitor's replay of the model's trace) holds in every
reachable state, so `ledgerOk` of the final trace is decided by `live = [] ∧ ok`. -/
theorem script_ledger_ok (st : St) (ops : List HOp) (hr : st.heap.Replays) :
    (st.run ops).2.heap.Replays := by
  induction ops generalizing st with
  | nil => exact hr
  | cons op r ih =>
    unfold St.run
    simp only
    apply ih
    -- one step preserves the invariant: every heap access goes through alloc / free / realloc
    have rp_del : ∀ (p : OPdu) (h : Heap), h.Replays → (pduDelete p h).Replays :=
      fun p h hh => replays_free _ _ (replays_free _ _ hh)
    have rp_resize : ∀ (p : OPdu) (n : Nat) (h : Heap), h.Replays → (resize p n h).2.2.Replays := by
      intro p n h hh
      unfold resize
      split
      · split
        · exact hh
        · have := replays_realloc h p.bufId hh
          cases hrr : h.realloc p.bufId with
          | mk a h1 => rw [hrr] at this; cases a <;> exact this
      · exact hh
    have rp_check : ∀ (p : OPdu) (n : Nat) (h : Heap), h.Replays → (checkResize p n h).2.2.Replays := by
      intro p n h hh
      unfold checkResize
      split
      · simp only
        split
        · split
          · exact hh
          · exact rp_resize _ _ _ hh
        · exact rp_resize _ _ _ hh
      · exact hh
    have rp_opt : ∀ (p : OPdu) (num : Nat) (v : Bytes) (h : Heap), h.Replays → (addOption p num v h).2.2.Replays := by
      intro p num v h hh
      unfold addOption
      simp only
      split
      · exact hh
      · split
        · exact hh
        · split
          · exact hh
          · split
            · exact hh
            · have := rp_check p (p.buf.length + M.optEncodeSize (num - p.maxOpt) v.length) h hh
              cases hcr : checkResize p (p.buf.length + M.optEncodeSize (num - p.maxOpt) v.length) h with
              | mk rc rest =>
                cases rest with
                | mk p1 h1 => rw [hcr] at this; cases rc <;> exact this
    have rp_opts : ∀ (l : List Opt) (p : OPdu) (h : Heap), h.Replays → (addOpts l p h).2.2.Replays := by
      intro l
      induction l with
      | nil => intro p h hh; exact hh
      | cons o r ihl =>
        intro p h hh
        unfold addOpts
        have := rp_opt p o.num o.val h hh
        cases hao : addOption p o.num o.val h with
        | mk rc rest =>
          cases rest with
          | mk p1 h1 =>
            rw [hao] at this
            cases rc with
            | unmodelled => exact this
            | val n =>
              cases n with
              | zero => exact this
              | succ k => exact ihl p1 h1 this
    have rp_oldel : ∀ (l : List Opt) (h : Heap), h.Replays → (optlistDelete l h).Replays := by
      intro l
      induction l with
      | nil => intro h hh; exact hh
      | cons o r ihl => intro h hh; exact ihl _ (replays_free _ _ hh)
    have rp_freeall : ∀ (l : List Nat) (h : Heap), h.Replays → (freeAll l h).Replays := by
      intro l
      induction l with
      | nil => intro h hh; exact hh
      | cons o r ihl => intro h hh; exact ihl _ (replays_free _ _ hh)
    have rp_init : ∀ (size : Nat) (hh0 : Heap), hh0.Replays → (pduInit size hh0).2.Replays := by
      intro size hh0 h0
      unfold pduInit
      have ha := replays_alloc hh0 h0
      cases hal : hh0.alloc with
      | mk a h1 =>
        rw [hal] at ha
        cases a with
        | none => exact ha
        | some pid =>
          simp only
          split
          · exact replays_free _ _ ha
          · have hb := replays_alloc h1 ha
            cases hbl : h1.alloc with
            | mk b h2 =>
              rw [hbl] at hb
              cases b with
              | none => exact replays_free _ _ hb
              | some bid => exact hb
    cases op with
    | init size =>
      unfold St.step
      simp only
      cases hp : st.pdu with
      | none =>
        simp only
        have := rp_init size _ hr
        split <;> (rename_i heq; rw [heq] at this; exact this)
      | some p =>
        simp only
        have := rp_init size _ (rp_del p _ hr)
        split <;> (rename_i heq; rw [heq] at this; exact this)
    | token len =>
      unfold St.step
      cases hp : st.pdu with
      | none => exact hr
      | some p =>
        simp only
        unfold addToken
        simp only
        split
        · exact hr
        · split
          · exact hr
          · rename_i bias _
            have := rp_check p ((pattern len).length + bias) st.heap hr
            cases hcr : checkResize p ((pattern len).length + bias) st.heap with
            | mk rc rest =>
              cases rest with
              | mk p1 h1 => rw [hcr] at this; cases rc <;> exact this
    | option num len =>
      unfold St.step
      cases hp : st.pdu with
      | none => exact hr
      | some p => exact rp_opt p num (pattern len) st.heap hr
    | data len =>
      unfold St.step
      cases hp : st.pdu with
      | none => exact hr
      | some p =>
        simp only
        unfold addData
        split
        · exact hr
        · split
          · exact hr
          · have := rp_resize p (p.buf.length + (pattern len).length + 1) st.heap hr
            cases hcr : resize p (p.buf.length + (pattern len).length + 1) st.heap with
            | mk rc rest =>
              cases rest with
              | mk p1 h1 => rw [hcr] at this; cases rc <;> exact this
    | resize n =>
      unfold St.step
      cases hp : st.pdu with
      | none => exact hr
      | some p =>
        simp only
        split
        · exact hr
        · exact rp_resize p n st.heap hr
    | check n =>
      unfold St.step
      cases hp : st.pdu with
      | none => exact hr
      | some p => exact rp_check p n st.heap hr
    | del =>
      unfold St.step
      cases hp : st.pdu with
      | none => exact hr
      | some p => exact rp_del p _ hr
    | olAdd num len =>
      unfold St.step optlistAdd
      have := replays_alloc st.heap hr
      cases hal : st.heap.alloc with
      | mk a h1 => rw [hal] at this; cases a <;> exact this
    | olPdu =>
      unfold St.step
      cases hp : st.pdu with
      | none => exact hr
      | some p =>
        simp only
        unfold addOptlistPdu
        split
        · exact hr
        · split
          · exact hr
          · exact rp_opts _ p st.heap hr
    | olDel => exact rp_oldel _ _ hr
    | str len =>
      unfold St.step newString
      have := replays_alloc st.heap hr
      cases hal : st.heap.alloc with
      | mk a h1 => rw [hal] at this; cases a <;> exact this
    | strFree => exact rp_freeall _ _ hr
    | send con =>
      unfold St.step
      cases hp : st.pdu with
      | none => exact hr
      | some p =>
        simp only
        unfold AllocOracle.send
        split
        · exact rp_del p _ hr
        · unfold sendInternal
          have ha := replays_alloc st.heap hr
          cases hal : st.heap.alloc with
          | mk a h1 =>
            rw [hal] at ha
            split
            · cases a with
              | none => exact rp_del p _ ha
              | some n => exact ha
            · split
              · exact rp_del p _ hr
              · split
                · exact rp_del p _ hr
                · cases a with
                  | none => exact rp_del p _ ha
                  | some n => exact ha
    | write ok => exact hr
    | estab up =>
      unfold St.step
      cases up with
      | false => exact hr
      | true => exact (drain_reqs_replays st.sess.delayq _ st.heap).2 hr
    | obsAdd toklen =>
      unfold St.step
      cases hp : st.pdu with
      | none => exact hr
      | some p => exact replays_addObserver p SESS_MAX_PDU (pattern toklen) st.obs st.heap hr
    | obsDel toklen => exact replays_deleteObserver (pattern toklen) st.obs st.heap hr

/-- **observer_refs_balanced** — for EVERY script and EVERY oracle: the server session's reference count is the number of
its other holders plus the number of subscriptions, in every reachable state.  Whatever request fails inside
coap_add_observer (or anywhere else), no reference is left without a subscription holding it (the session would never be
reclaimed as idle) and no subscription without its reference (use after free when the idle session is reclaimed). -/
theorem observer_refs_balanced (base : Nat) (st : St) (ops : List HOp) (hb : ObsBal base st.obs) :
    ObsBal base (st.run ops).2.obs := by
  induction ops generalizing st with
  | nil => exact hb
  | cons op r ih =>
    unfold St.run
    simp only
    apply ih
    cases op with
    | obsAdd toklen =>
      unfold St.step
      cases hp : st.pdu with
      | none => exact hb
      | some p => exact addObserver_balanced base p SESS_MAX_PDU (pattern toklen) st.obs st.heap hb
    | obsDel toklen => exact deleteObserver_balanced base (pattern toklen) st.obs st.heap hb
    | _ =>
      -- no other op touches the subscriber list or the reference count
      simp only [St.step]
      (repeat' split) <;> exact hb

/-- a script that starts with no subscription and an unreferenced session: `ref` IS the number of subscriptions -/
theorem observer_refs_count (orc : Oracle) (ops : List HOp) :
    ((St.init orc).run ops).2.obs.ref = ((St.init orc).run ops).2.obs.subs.length := by
  have := observer_refs_balanced 0 (St.init orc) ops (by simp [ObsBal, St.init])
  simpa [ObsBal] using this

/-- non-vacuity: registration of the request `GET Observe /123` under token 01 02 while request 5 (the header object of the
request copy) fails — NULL, no reference, nothing live beyond the script's PDU; again with memory available — registered,
one reference; the same request under token 01 02 03 replaces it (still one reference); deleted — none. -/
example :
    let st := (St.init (oracleFailing 5 0 5)).run
      [.init 1152, .token 4, .option 6 0, .option 11 3, .obsAdd 2, .obsAdd 2, .obsAdd 2, .obsAdd 3, .obsDel 2, .obsDel 3]
    st.1 = [.num 1, .num 1, .num 1, .num 4, .num 0, .num 1, .num 1, .num 1, .num 0, .num 1] ∧
    st.2.obs.ref = 0 ∧ st.2.obs.subs = [] ∧ ledgerOk st.2.cleanup.heap.trace = true := by decide

example :
    let st := (St.init (oracleFailing 5 0 5)).run [.init 1152, .token 4, .option 6 0, .option 11 3, .obsAdd 2]
    st.2.obs.ref = 0 ∧ st.2.heap.live.length = 2 ∧ st.2.heap.reqs = 5 := by decide

example :
    let st := (St.init []).run [.init 1152, .token 4, .option 6 0, .option 11 3, .data 5, .obsAdd 2, .obsAdd 3]
    st.2.obs.ref = 1 ∧ (st.2.obs.subs.map (·.tok.length)) = [3] ∧ st.2.heap.live.length = 6 := by decide

/-- non-vacuity of the hypotheses of `add_observer_spec` / `add_observer_succeeds_with_memory`: a state with live objects
whose serials are fresh, and a request whose cache key material is its Uri-Path (Observe is not part of the key) -/
example :
    let st := ((St.init (oracleFailing 5 0 5)).run [.init 1152, .token 4, .option 6 0, .option 11 3]).2
    (∀ i ∈ st.heap.live, i < st.heap.next) ∧ st.heap.live.length = 2 ∧
    st.pdu.bind keyOf = some [(11, [1, 2, 3])] ∧
    (st.pdu.map fun p => decide ((optRegion p).length + 2 ≤ max p.maxSize SESS_MAX_PDU)) = some true ∧
    M.tokBias 2 = some 0 := by decide

/-- consequence: the monitor's verdict on the trace of ANY script under ANY oracle is read off the model's ledger -/
theorem script_verdict (orc : Oracle) (ops : List HOp) :
    let h := ((St.init orc).run ops).2.heap
    ledgerOk h.trace = (h.ok && h.live.isEmpty) := by
  intro h
  have := script_ledger_ok (St.init orc) ops (replays_init orc)
  unfold Heap.Replays at this
  unfold ledgerOk
  show (match runLedger h.trace [] with | some [] => true | _ => false) = _
  rw [this]
  cases h.ok <;> cases h.live <;> simp

/-! ## Block-layer containers: the client's list of Observe tokens, the server's Block1 reassembly state -/

section BlockContainers
open Coap.AllocBlock

/-- **client, memory safety** — for EVERY sequence of calls (any block numbers, in any order: no discipline assumed) and
EVERY oracle: no call of the model reads or writes outside the list of Observe tokens (`COut.invalid` never occurs), the
lg_crcv that is left has `obs_token_cnt ≤` the allocated length of `obs_token` and a NULL list only with count 0, and the
tear-down (`coap_block_delete_lg_crcv`, which walks `obs_token[0 .. obs_token_cnt)`) stays inside the list.
(Seeded C18-7 falsifies exactly this: the count was raised before the realloc that can fail.) -/
theorem obs_token_cnt_within_list (orc : Oracle) (evs : List CEv) :
    let r := crcvRun none { orc := orc } evs
    (∀ o ∈ r.1, o ≠ COut.invalid) ∧ (∀ c, r.2.1 = some c → c.cnt ≤ c.tab.length ∧ (c.tabId = none → c.cnt = 0)) ∧
      (crcvCleanup r.2.1 r.2.2).isSome = true := by
  intro r
  obtain ⟨h1, h2⟩ := crcvRun_bound evs none { orc := orc } (fun c e => by simp at e)
  refine ⟨h1, ?_, ?_⟩
  · intro c e
    have hb := h2 c e
    refine ⟨hb.le, fun hn => ?_⟩
    have := hb.nul hn
    have := hb.le
    simp_all
  · cases e : r.2.1 with
    | none => simp [crcvCleanup]
    | some c =>
      obtain ⟨h', eh⟩ := deleteCrcv_some (h2 c e) r.2.2
      simp [crcvCleanup, eh]

/-- when the list of Observe tokens cannot be grown (the request of `track_fetch_observe` fails) the lg_crcv is exactly
as it was: same list, same count -/
theorem track_realloc_failure_atomic (c : Crcv) (bn tokLen : Nat) (h : Heap) (hg : c.cnt ≤ bn)
    (hf : (reallocOpt c.tabId h).1 = none) :
    trackEstablish c bn tokLen h = some (c, (reallocOpt c.tabId h).2) := by
  unfold trackEstablish
  rw [if_pos hg]
  rcases hr : reallocOpt c.tabId h with ⟨_ | t, h1⟩
  · rfl
  · rw [hr] at hf; simp at hf

/-- **client, ledger** — for every call sequence inside the callers' discipline (`feasible`: the block numbers registered
for one lg_crcv only go up, block 0 is repeated only while no later block is registered) and EVERY oracle: no object is
ever released twice or released without having been allocated (`ok`), the tear-down succeeds, and afterwards NOTHING the
lg_crcv ever allocated is live. -/
theorem lg_crcv_ledger_sound (orc : Oracle) (evs : List CEv) (hf : feasible 0 evs = true) :
    let r := crcvRun none { orc := orc } evs
    r.2.2.ok = true ∧ ∃ fin, crcvCleanup r.2.1 r.2.2 = some fin ∧ fin.ok = true ∧ fin.live = [] := by
  intro r
  obtain ⟨hi', hI⟩ := crcvRun_own evs 0 none [] { orc := orc } (Own.init_empty orc) hf
  have hok : r.2.2.ok = true := by
    cases e : r.2.1 with
    | none => have : SInvC hi' none [] r.2.2 := by rw [← e]; exact hI
              exact this.ok
    | some c => have : SInvC hi' (some c) [] r.2.2 := by rw [← e]; exact hI
                exact this.own.ok
  obtain ⟨fin, e1, e2⟩ := crcvCleanup_own hI
  refine ⟨hok, fin, e1, e2.ok, ?_⟩
  have := e2.mem
  cases hl : fin.live with
  | nil => rfl
  | cons a t => have := (this a).mp (by rw [hl]; exact List.mem_cons_self); simp at this

/-- the same from any sound heap: what was live before (`L`) is exactly what is live afterwards -/
theorem lg_crcv_ledger_sound_from (h : Heap) (hok : h.ok = true) (hn : h.live.Nodup) (hfr : ∀ i ∈ h.live, i < h.next)
    (evs : List CEv) (hf : feasible 0 evs = true) :
    ∃ fin, crcvCleanup (crcvRun none h evs).2.1 (crcvRun none h evs).2.2 = some fin ∧ fin.ok = true ∧
      ∀ i, i ∈ fin.live ↔ i ∈ h.live := by
  obtain ⟨hi', hI⟩ := crcvRun_own evs 0 none h.live h (Own.init h hok hn hfr) hf
  obtain ⟨fin, e1, e2⟩ := crcvCleanup_own hI
  exact ⟨fin, e1, e2.ok, fun i => by simpa using e2.mem i⟩

/-- **server, ledger** — for EVERY sequence of Block1 requests and drops (any order, repeated blocks, the final block
early and again before the gap is filled, short blocks, …) and EVERY oracle: no object is ever released twice or released
without having been allocated (`ok`), at any time the live objects are EXACTLY the lg_srcv, its body, its last_token and
(transfer to the unknown resource, `cfg.unk`) its copy of the URI path (pairwise distinct), and once the lg_srcv is deleted
nothing is live.
(Seeded C18-8 falsifies exactly this: last_token released and still referenced when the lg_srcv is deleted.) -/
theorem lg_srcv_ledger_sound (cfg : SCfg) (orc : Oracle) (evs : List SEv) :
    let r := srcvRun cfg none { orc := orc } evs
    r.2.2.ok = true ∧ (ownedSt r.2.1).Nodup ∧ (∀ i, i ∈ r.2.2.live ↔ i ∈ ownedSt r.2.1) ∧
      (srcvCleanup r.2.1 r.2.2).ok = true ∧ (srcvCleanup r.2.1 r.2.2).live = [] := by
  intro r
  have hO := srcvRun_own cfg evs none [] { orc := orc } (Own.init_empty orc)
  have hC := srcvCleanup_own hO
  refine ⟨hO.ok, hO.onodup, fun i => by simpa using hO.mem i, hC.ok, ?_⟩
  have := hC.mem
  cases hl : (srcvCleanup r.2.1 r.2.2).live with
  | nil => rfl
  | cons a t => have := (this a).mp (by rw [hl]; exact List.mem_cons_self); simp at this

/-- the same from any sound heap -/
theorem lg_srcv_ledger_sound_from (cfg : SCfg) (h : Heap) (hok : h.ok = true) (hn : h.live.Nodup)
    (hfr : ∀ i ∈ h.live, i < h.next) (evs : List SEv) :
    let r := srcvRun cfg none h evs
    (srcvCleanup r.2.1 r.2.2).ok = true ∧ ∀ i, i ∈ (srcvCleanup r.2.1 r.2.2).live ↔ i ∈ h.live := by
  intro r
  have hC := srcvCleanup_own (srcvRun_own cfg evs none h.live h (Own.init h hok hn hfr))
  exact ⟨hC.ok, fun i => by simpa using hC.mem i⟩

theorem srcvDecide_160 (lg : ASrcv) (m chunk tokLen : Nat) (h : Heap) :
    (srcvDecide lg m chunk tokLen h).1 = .code 160 → (srcvDecide lg m chunk tokLen h).2.1 = none := by
  unfold srcvDecide
  simp only
  repeat' split
  all_goals simp

theorem srcvUpdate_160 (lg : ASrcv) (rec' : Block.Ranges) (len offset m chunk tokLen : Nat) (h : Heap) :
    (srcvUpdate lg rec' len offset m chunk tokLen h).1 = .code 160 →
      (srcvUpdate lg rec' len offset m chunk tokLen h).2.1 = none := by
  unfold srcvUpdate
  simp only
  split
  · simp
  · exact srcvDecide_160 _ _ _ _ _

theorem srcvStore_160 (cap : Nat) (lg : ASrcv) (num m len chunk tokLen : Nat) (h : Heap) :
    (srcvStore cap lg num m len chunk tokLen h).1 = .code 160 → (srcvStore cap lg num m len chunk tokLen h).2.1 = none := by
  unfold srcvStore
  simp only
  split
  · simp
  · split
    · simp
    · split
      · exact srcvUpdate_160 _ _ _ _ _ _ _ _
      · exact srcvDecide_160 _ _ _ _ _

/-- **server, clean failure** — a Block1 request that is answered 5.00 (the only answer of this path for a failed
allocation) leaves NO transfer state: the lg_srcv with everything it owned is gone (by `lg_srcv_ledger_sound`: released
exactly once), so the client's next attempt starts from scratch -/
theorem lg_srcv_failure_drops_state (cap : Nat) (st : Option ASrcv) (num m szx plen tokLen : Nat) (size1 : Option Nat)
    (unk : Bool) (h : Heap) :
    (srcvStep cap st num m szx plen tokLen size1 unk h).1 = .code 160 →
      (srcvStep cap st num m szx plen tokLen size1 unk h).2.1 = none := by
  unfold srcvStep
  simp only
  split
  · simp
  split
  · simp
  split
  · simp
  · split
    · simp
    · exact srcvStore_160 _ _ _ _ _ _ _ _

/-- **server, the lg_srcv that cannot be set up** — no transfer state yet and the lg_srcv itself or (transfer to the unknown
resource) the copy of the URI path cannot be allocated: NO lg_srcv is left, nothing has been released that was not
allocated, and the live objects are exactly (as a list) what they were — the lg_srcv allocated first has been released
again with a plain coap_free_type, it was not yet in session->lg_srcv.  (Seeded C18-12 takes the path of the transfers
that ARE in the list, `goto free_lg_srcv`: LL_DELETE of an element that is not in an empty list dereferences NULL; the
unfixed code kept the lg_srcv with uri_path == NULL: NULL dereference in the next look-up for another resource.) -/
theorem lg_srcv_setup_failure_atomic (szx : Nat) (size1 : Option Nat) (unk : Bool) (h : Heap) (hok : h.ok = true) :
    (srcvLocate none szx size1 unk h).1 = none →
      (srcvLocate none szx size1 unk h).2.ok = true ∧ (srcvLocate none szx size1 unk h).2.live = h.live := by
  unfold srcvLocate
  simp only
  rcases hA : h.alloc with ⟨_ | i, h1⟩
  · obtain ⟨e1, _, e3⟩ := alloc_none_eq h (by rw [hA])
    rw [hA] at e1 e3
    intro _
    exact ⟨by simpa [hok] using e3, e1⟩
  · obtain ⟨e0, e1, _, e3⟩ := alloc_some_eq h i (by rw [hA])
    rw [hA] at e1 e3
    simp only at e1 e3
    cases unk with
    | false => simp
    | true =>
      simp only [if_true]
      rcases hB : h1.alloc with ⟨_ | p, h2⟩
      · obtain ⟨f1, _, f3⟩ := alloc_none_eq h1 (by rw [hB])
        rw [hB] at f1 f3
        simp only at f1 f3
        intro _
        simp [Heap.free, f1, f3, e1, e3, hok]
      · simp

/-- a transfer to the unknown resource whose URI path cannot be copied is answered 5.00 and leaves the ledger as it was -/
theorem lg_srcv_uri_path_failure (cap num m szx plen tokLen : Nat) (size1 : Option Nat) (h : Heap) (hok : h.ok = true)
    (hblk : ¬ (num = 0 ∧ m = 0))
    (hlen : ¬ (¬ plen > 2 ^ (szx + 4) ∧ m = 1 ∧ plen ≠ 2 ^ (szx + 4)))
    (hA : h.alloc.1.isSome = true) (hB : h.alloc.2.alloc.1 = none) :
    let r := srcvStep cap none num m szx plen tokLen size1 true h
    r.1 = .code 160 ∧ r.2.1 = none ∧ r.2.2.ok = true ∧ r.2.2.live = h.live := by
  intro r
  have hL : (srcvLocate none szx size1 true h).1 = none := by
    unfold srcvLocate
    rcases hA' : h.alloc with ⟨_ | i, h1⟩
    · simp [hA'] at hA
    · rw [hA'] at hB
      simp only at hB
      rcases hB' : h1.alloc with ⟨_ | p, h2⟩
      · simp [hB']
      · simp [hB'] at hB
  have hS := lg_srcv_setup_failure_atomic szx size1 true h hok hL
  have hr : r = (.code 160, none, (srcvLocate none szx size1 true h).2) := by
    show srcvStep cap none num m szx plen tokLen size1 true h = _
    unfold srcvStep
    simp only [hblk, hlen, if_false]
    rcases hl : srcvLocate none szx size1 true h with ⟨_ | lg, h1⟩
    · rfl
    · rw [hl] at hL; simp at hL
  rw [hr]
  exact ⟨rfl, rfl, hS.1, hS.2⟩

theorem two_chunks_div (c : Nat) (hc : 0 < c) : (c + c - 1) / c = 1 := by
  have h1 : c + c - 1 = c * 1 + (c - 1) := by omega
  rw [h1, Nat.mul_add_div hc]
  have : (c - 1) / c = 0 := Nat.div_eq_of_lt (by omega)
  omega

/-- **server, the next operation succeeds** — with memory available and no transfer state (as after a failure, see
`lg_srcv_failure_drops_state`) the first block of a body is accepted: 2.31, a new lg_srcv with the block recorded and stored -/
theorem lg_srcv_restart_succeeds (cap szx tokLen : Nat) (size1 : Option Nat) (unk : Bool) (h : Heap) (hc : 2 ≤ cap)
    (ho : AllTrue h.orc) :
    ∃ lg h', srcvStep cap none 0 1 szx (2 ^ (szx + 4)) tokLen size1 unk h = (.code 95, some lg, h') ∧
      lg.recv = [(0, 0)] ∧ lg.body.isSome = true ∧ lg.lastTok = none ∧ lg.uriPath.isSome = unk := by
  have hpos : 0 < 2 ^ (szx + 4) := Nat.pow_pos (by omega)
  obtain ⟨a1, a2⟩ := alloc_allTrue h ho
  obtain ⟨b1, b2⟩ := alloc_allTrue h.alloc.2 a2
  obtain ⟨c1, _⟩ := alloc_allTrue h.alloc.2.alloc.2 b2
  have hrl : Block.recvLoop cap 1 [] 0 false = some ([(0, 0)], true) := by
    have : ¬ (0 = cap - 1) := by omega
    simp [Block.recvLoop, Block.checkIfReceived, Block.updateReceived, Block.updateLoop, this]
  unfold srcvStep srcvLocate
  rcases hA : h.alloc with ⟨x, h1⟩
  rw [hA] at a1 a2 b1 b2 c1
  simp only at a1 a2 b1 b2 c1
  subst a1
  generalize hT : (if size1.getD 0 < 2 ^ (szx + 4) then 2 ^ (szx + 4) else size1.getD 0) = T
  have hT1 : 2 ^ (szx + 4) ≤ T := by rw [← hT]; split <;> omega
  have hT0 : T ≠ 0 := by omega
  rcases hB : h1.alloc with ⟨y, h2⟩
  rw [hB] at b1 b2 c1
  simp only at b1 b2 c1
  subst b1
  cases unk with
  | false =>
    simp only [Nat.lt_irrefl, not_false_eq_true, ne_eq, not_true_eq_false, and_false, if_false, if_true,
      srcvStore, Nat.mod_self, Nat.zero_mul, Nat.zero_add, two_chunks_div _ hpos, hrl, srcvUpdate, buildBody, hT, hB,
      Bool.false_eq_true]
    simp [hT0, hT1, srcvDecide]
  | true =>
    rcases hC : h2.alloc with ⟨z, h3⟩
    rw [hC] at c1
    simp only at c1
    subst c1
    simp only [Nat.lt_irrefl, not_false_eq_true, ne_eq, not_true_eq_false, and_false, if_false, if_true,
      srcvStore, Nat.mod_self, Nat.zero_mul, Nat.zero_add, two_chunks_div _ hpos, hrl, srcvUpdate, buildBody, hT, hB, hC]
    simp [hT0, hT1, srcvDecide]

/-- **client, the next operation succeeds** — with memory available coap_block_new_lg_crcv for a FETCH with Observe 0 gives
an lg_crcv whose list holds exactly the token of block 0 -/
theorem lg_crcv_new_succeeds_with_memory (tokLen : Nat) (h : Heap) (ho : AllTrue h.orc) :
    ∃ c h', newCrcv true (some 0) tokLen h = some (some c, h') ∧ c.cnt = 1 ∧ c.tab.map (Option.map (·.2)) = [some tokLen] ∧
      c.tabId.isSome = true := by
  obtain ⟨a1, a2⟩ := alloc_allTrue h ho
  rcases hA : h.alloc with ⟨x1, h1⟩
  rw [hA] at a1 a2; simp only at a1 a2; subst a1
  obtain ⟨b1, b2⟩ := alloc_allTrue h1 a2
  rcases hB : h1.alloc with ⟨x2, h2⟩
  rw [hB] at b1 b2; simp only at b1 b2; subst b1
  obtain ⟨c1, c2⟩ := alloc_allTrue h2 b2
  rcases hC : h2.alloc with ⟨x3, h3⟩
  rw [hC] at c1 c2; simp only at c1 c2; subst c1
  obtain ⟨d1, d2⟩ := alloc_allTrue h3 c2
  rcases hD : h3.alloc with ⟨x4, h4⟩
  rw [hD] at d1 d2; simp only at d1 d2; subst d1
  obtain ⟨e1, e2⟩ := alloc_allTrue h4 d2
  rcases hE : h4.alloc with ⟨x5, h5⟩
  rw [hE] at e1 e2; simp only at e1 e2; subst e1
  simp [newCrcv, hA, hB, hC, track, trackEstablish, reallocOpt, hD, storeToken, freeOpt, ser, hE]

/-! ### non-vacuity and witnesses (`decide` on concrete runs) -/

/-- the callers' discipline is satisfiable: new lg_crcv, blocks 1, 2, 5 registered, a cancel look-up, deleted, again -/
example : feasible 0 [.new true (some 0) 4, .track (some 0) 1 8, .track (some 0) 2 8, .track (some 0) 5 8, .track (some 1) 2 2,
    .del, .new true (some 0) 2, .track (some 0) 0 8] = true := by decide

/-- the list cannot be grown for the first block (request 4 of coap_block_new_lg_crcv fails): the lg_crcv is there with
count 0 and a NULL list; with memory available block 1 is then registered (entries: NULL, the token) -/
example :
    let r := crcvRun none { orc := oracleFailing 4 0 4 } [.new true (some 0) 4, .track (some 0) 1 8]
    r.1 = [.num 1, .null] ∧ (r.2.1.map fun c => (c.cnt, c.tab.map (Option.map (·.2)))) = some (2, [none, some 8]) ∧
      (crcvCleanup r.2.1 r.2.2).map (fun h => (h.ok, h.live)) = some (true, []) := by decide

/-- the state seeded C18-7 produces (count 1, list NULL) is outside the invariant: the tear-down reads outside the list -/
example : deleteCrcv { id := 1, cnt := 1 } { orc := [] } = none := by decide

/-- the discipline is needed for the LEDGER part (not for memory safety): registering block 0 again after block 2 lowers
the count to 1, the tokens of blocks 1 and 2 are never released (a leak of the real code WITHOUT any allocation failure,
reachable only through the Echo repeat of check_freshness in the middle of a block-wise FETCH; not C18's subject) -/
example :
    let r := crcvRun none { orc := [] } [.new true (some 0) 4, .track (some 0) 1 8, .track (some 0) 2 8, .track (some 0) 0 8]
    feasible 0 [.new true (some 0) 4, .track (some 0) 1 8, .track (some 0) 2 8, .track (some 0) 0 8] = false ∧
      (crcvCleanup r.2.1 r.2.2).map (fun h => (h.ok, h.live.length)) = some (true, 2) := by decide

/-- server: blocks 0, 4 (final, early), 4 again — the token copy of the repeat fails (request 5): 5.00, no state, nothing
live; the body sent again in order with memory available is handed over complete -/
example :
    let cfg : SCfg := { cap := 4, szx := 5, tokLen := 2, size1 := none }
    let r := srcvRun cfg none { orc := oracleFailing 5 0 5 }
      [.block 0 1 512, .block 4 0 452, .block 4 0 452, .block 0 1 512, .block 1 1 512, .block 2 1 512, .block 3 1 512, .block 4 0 452]
    r.1 = [.code 95, .code 0, .code 160, .code 95, .code 95, .code 95, .code 95, .deliver 2500] ∧ r.2.1 = none ∧
      r.2.2.ok = true ∧ r.2.2.live = [] := by decide

/-- server, transfer to the UNKNOWN resource (`unk`): the copy of the URI path (request 2) cannot be made — 5.00, no state,
nothing live (`lg_srcv_uri_path_failure` on a concrete heap); the body sent again with memory available, the final block
early: handed over complete, and the path copy is released with the lg_srcv (nothing live at the end) -/
example :
    let cfg : SCfg := { cap := 4, szx := 5, tokLen := 2, size1 := none, unk := true }
    let r := srcvRun cfg none { orc := oracleFailing 2 0 2 }
      [.block 0 1 512, .block 0 1 512, .block 2 0 100, .block 1 1 512]
    r.1 = [.code 160, .code 95, .code 0, .deliver 1124] ∧ r.2.1 = none ∧ r.2.2.ok = true ∧ r.2.2.live = [] ∧
      r.2.2.reqs = 9 := by decide

end BlockContainers

end Coap.C18
