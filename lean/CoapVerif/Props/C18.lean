import CoapVerif.Model.AllocOracle
/-
C18 — any single allocation failure is survived (property theorems about the allocation-oracle model M,
Model/AllocOracle.lean).  All statements are ∀ oracle (any pattern of failing requests, not just one), ∀ arguments.

  ledger_replay          the model's `live`/`ok` bookkeeping IS the verified monitor's replay of the model's trace
  failure_atomic         a helper that fails (for whatever reason, the oracle included) leaves the PDU exactly as it was
  no_leak_on_failure     ledger' = ledger on failure; = ledger + the owned results on success
  send_consumes_pdu      in every outcome of the modelled send path the PDU leaves the caller's hands exactly once:
                         released (both blocks freed, once) or owned by exactly one queue node
  next_op_succeeds       with memory available the same operation succeeds
  alloc_count_matches    number of allocation requests per helper (compared with the real count by T2)
  script_ledger_ok       for EVERY script and EVERY oracle: after clean-up the trace is accepted by `ledgerOk`
                         (no double free, no free of unallocated, nothing live) — see the `_partial` note below
-/
namespace Coap.C18
open Coap Coap.AllocOracle
open Coap.Sessions (runLedger ledgerOk AllocEvent)

/-! ## the ledger is the monitor's replay -/

theorem runLedger_append (t : List AllocEvent) (e : AllocEvent) (l : List Nat) :
    runLedger (t ++ [e]) l = (runLedger t l).bind fun l' => runLedger [e] l' := by
  induction t generalizing l with
  | nil => simp [runLedger]
  | cons a t ih =>
    cases a with
    | alloc i => simp [runLedger, ih]
    | free i =>
      simp only [List.cons_append, runLedger]
      split
      · exact ih _
      · rfl

/-- the heap invariant: replaying the trace gives `live` as long as no bad free happened, `none` afterwards -/
def _root_.Coap.AllocOracle.Heap.Replays (h : Heap) : Prop := runLedger h.trace [] = if h.ok then some h.live else none

theorem replays_alloc (h : Heap) (hr : h.Replays) : h.alloc.2.Replays := by
  unfold Heap.alloc
  split
  · unfold Heap.Replays at *
    simp only [runLedger_append, hr]
    cases h.ok <;> simp [runLedger]
  · exact hr

theorem replays_free (h : Heap) (id : Nat) (hr : h.Replays) : (h.free id).Replays := by
  unfold Heap.free Heap.Replays at *
  simp only [runLedger_append, hr]
  cases hok : h.ok <;> simp [runLedger]

theorem replays_realloc (h : Heap) (id : Nat) (hr : h.Replays) : (h.realloc id).2.Replays := by
  unfold Heap.realloc
  split
  · have h1 := replays_free h id hr
    unfold Heap.Replays Heap.free at *
    simp only at h1
    have : h.trace ++ [AllocEvent.free id, AllocEvent.alloc h.next] = (h.trace ++ [AllocEvent.free id]) ++ [AllocEvent.alloc h.next] := by simp
    simp only [this, runLedger_append (h.trace ++ [AllocEvent.free id]), h1]
    cases (h.ok && decide (id ∈ h.live)) <;> simp [runLedger]
  · exact hr

theorem ledger_replay (h : Heap) (id : Nat) (hr : h.Replays) :
    h.alloc.2.Replays ∧ (h.free id).Replays ∧ (h.realloc id).2.Replays :=
  ⟨replays_alloc h hr, replays_free h id hr, replays_realloc h id hr⟩

theorem replays_init (orc : Oracle) : ({ orc := orc } : Heap).Replays := by
  simp [Heap.Replays, runLedger]

/-! ## single helpers: failure is atomic, nothing leaks, counts -/

theorem alloc_reqs (h : Heap) : h.alloc.2.reqs = h.reqs + 1 := by
  unfold Heap.alloc; split <;> rfl
theorem realloc_reqs (h : Heap) (id : Nat) : (h.realloc id).2.reqs = h.reqs + 1 := by
  unfold Heap.realloc; split <;> rfl
theorem alloc_fail_live (h : Heap) (hf : h.alloc.1 = none) : h.alloc.2.live = h.live ∧ h.alloc.2.trace = h.trace := by
  unfold Heap.alloc at *; split at hf <;> simp_all
theorem alloc_ok_live (h : Heap) (i : Nat) (hs : h.alloc.1 = some i) :
    i = h.next ∧ h.alloc.2.live = i :: h.live := by
  unfold Heap.alloc at *; split at hs <;> simp_all
theorem alloc_ok_trace (h : Heap) (i : Nat) (hs : h.alloc.1 = some i) : h.alloc.2.trace = h.trace ++ [.alloc i] := by
  unfold Heap.alloc at *; split at hs <;> simp_all
theorem realloc_ok_live (h : Heap) (id i : Nat) (hs : (h.realloc id).1 = some i) :
    (h.realloc id).2.live = i :: h.live.erase id := by
  unfold Heap.realloc at *; split at hs <;> simp_all
theorem realloc_fail_live (h : Heap) (id : Nat) (hf : (h.realloc id).1 = none) :
    (h.realloc id).2.live = h.live ∧ (h.realloc id).2.trace = h.trace := by
  unfold Heap.realloc at *; split at hf <;> simp_all

/-- `coap_pdu_resize`: failure leaves the PDU and the ledger unchanged; success keeps the content and swaps at most the buffer -/
theorem resize_spec (p : OPdu) (n : Nat) (h : Heap) :
    ((resize p n h).1 = 0 → (resize p n h).2.1 = p ∧ (resize p n h).2.2.live = h.live ∧ (resize p n h).2.2.trace = h.trace) ∧
    ((resize p n h).1 ≠ 0 → (resize p n h).1 = 1 ∧ (resize p n h).2.1.buf = p.buf ∧ (resize p n h).2.1.id = p.id ∧
        (resize p n h).2.1.allocSize = n ∧ (resize p n h).2.1.data = p.data ∧ (resize p n h).2.1.maxOpt = p.maxOpt ∧
        (resize p n h).2.1.maxSize = p.maxSize ∧ (resize p n h).2.1.tokLen = p.tokLen ∧
        ((resize p n h).2.2.live = h.live ∧ (resize p n h).2.1.bufId = p.bufId ∨
         (resize p n h).2.2.live = (resize p n h).2.1.bufId :: h.live.erase p.bufId)) := by
  unfold resize
  split
  · split
    · simp
    · cases hr : h.realloc p.bufId with
      | mk r h1 =>
        cases r with
        | none =>
          have := realloc_fail_live h p.bufId (by rw [hr])
          simp_all
        | some b =>
          have hl := realloc_ok_live h p.bufId b (by rw [hr])
          rw [hr] at hl
          simp at hl
          simp [hl]
  · simp

theorem checkResize_spec (p : OPdu) (n : Nat) (h : Heap) :
    ((checkResize p n h).1 = 0 → (checkResize p n h).2.1 = p ∧ (checkResize p n h).2.2.live = h.live ∧
        (checkResize p n h).2.2.trace = h.trace) ∧
    ((checkResize p n h).1 ≠ 0 → (checkResize p n h).1 = 1 ∧ (checkResize p n h).2.1.buf = p.buf ∧ (checkResize p n h).2.1.id = p.id ∧
        (checkResize p n h).2.1.data = p.data ∧ (checkResize p n h).2.1.maxOpt = p.maxOpt ∧
        (checkResize p n h).2.1.maxSize = p.maxSize ∧ (checkResize p n h).2.1.tokLen = p.tokLen ∧
        ((checkResize p n h).2.2.live = h.live ∧ (checkResize p n h).2.1.bufId = p.bufId ∨
         (checkResize p n h).2.2.live = (checkResize p n h).2.1.bufId :: h.live.erase p.bufId)) := by
  unfold checkResize
  split
  · simp only
    split
    · split
      · simp
      · have := resize_spec p p.maxSize h
        exact ⟨this.1, fun hne => by have h2 := this.2 hne; exact ⟨h2.1, h2.2.1, h2.2.2.1, h2.2.2.2.2.1, h2.2.2.2.2.2.1, h2.2.2.2.2.2.2.1, h2.2.2.2.2.2.2.2.1, h2.2.2.2.2.2.2.2.2⟩⟩
    · have := resize_spec p (grow 64 n (max 256 (p.allocSize * 2))) h
      exact ⟨this.1, fun hne => by have h2 := this.2 hne; exact ⟨h2.1, h2.2.1, h2.2.2.1, h2.2.2.2.2.1, h2.2.2.2.2.2.1, h2.2.2.2.2.2.2.1, h2.2.2.2.2.2.2.2.1, h2.2.2.2.2.2.2.2.2⟩⟩
  · simp

/-- The primitive helpers of the PDU layer, as one family. -/
inductive Prim where
  | resize (n : Nat)
  | check (n : Nat)
  | token (d : Bytes)
  | option (num : Nat) (v : Bytes)
  | data (d : Bytes)

/-- result code (0 = failure), PDU and heap after the call -/
def Prim.apply (p : OPdu) (h : Heap) : Prim → Nat × OPdu × Heap
  | .resize n => AllocOracle.resize p n h
  | .check n => AllocOracle.checkResize p n h
  | .token d => addToken p d h
  | .option num v => match addOption p num v h with
    | (.val rc, p1, h1) => (rc, p1, h1)
    | (.unmodelled, p1, h1) => (0, p1, h1)
  | .data d => addData p d h

theorem addToken_fail (p : OPdu) (d : Bytes) (h : Heap) :
    (addToken p d h).1 = 0 → (addToken p d h).2.1 = p ∧ (addToken p d h).2.2.live = h.live := by
  unfold addToken
  simp only
  split
  · simp
  · split
    · simp
    · rename_i bias hb
      have hc := (checkResize_spec p (d.length + bias) h).1
      by_cases hz : (checkResize p (d.length + bias) h).1 = 0
      · simp only [hz, if_true]; intro _; exact ⟨trivial, (hc hz).2.1⟩
      · simp only [hz, if_false]; intro hf; simp at hf

theorem addOption_fail (p : OPdu) (num : Nat) (v : Bytes) (h : Heap) :
    ((addOption p num v h).1 = .val 0 ∨ (addOption p num v h).1 = .unmodelled) →
    (addOption p num v h).2.1 = p ∧ (addOption p num v h).2.2.live = h.live := by
  unfold addOption
  simp only
  split
  · simp
  · split
    · simp
    · split
      · simp
      · split
        · simp
        · have hc := (checkResize_spec p (p.buf.length + M.optEncodeSize (num - p.maxOpt) v.length) h).1
          by_cases hz : (checkResize p (p.buf.length + M.optEncodeSize (num - p.maxOpt) v.length) h).1 = 0
          · simp only [hz, if_true]; intro _; exact ⟨trivial, (hc hz).2.1⟩
          · simp only [hz, if_false]
            intro hf
            have : M.optEncodeSize (num - p.maxOpt) v.length ≠ 0 := by unfold M.optEncodeSize; omega
            simp [this] at hf

theorem addData_fail (p : OPdu) (d : Bytes) (h : Heap) :
    (addData p d h).1 = 0 → (addData p d h).2.1 = p ∧ (addData p d h).2.2.live = h.live := by
  unfold addData
  split
  · simp
  · split
    · simp
    · have hc := (resize_spec p (p.buf.length + d.length + 1) h).1
      simp only
      by_cases hz : (resize p (p.buf.length + d.length + 1) h).1 = 0
      · simp only [hz, if_true]; intro _; exact ⟨trivial, (hc hz).2.1⟩
      · simp only [hz, if_false]; intro hf; simp at hf

/-- **failure_atomic**: whichever primitive helper fails — because the oracle refused the (re)allocation or for any other
reason — the PDU is exactly what it was and the ledger's live set is unchanged (only the oracle has been consumed). -/
theorem failure_atomic (op : Prim) (p : OPdu) (h : Heap) (hf : (op.apply p h).1 = 0) :
    (op.apply p h).2.1 = p ∧ (op.apply p h).2.2.live = h.live := by
  cases op with
  | resize n => have := (resize_spec p n h).1 hf; exact ⟨this.1, this.2.1⟩
  | check n => have := (checkResize_spec p n h).1 hf; exact ⟨this.1, this.2.1⟩
  | token d => exact addToken_fail p d h hf
  | option num v =>
    have := addOption_fail p num v h
    simp only [Prim.apply] at hf ⊢
    cases hr : addOption p num v h with
    | mk rc rest =>
      cases rest with
      | mk p1 h1 =>
        rw [hr] at this hf
        cases rc with
        | val n => simp at hf ⊢; subst hf; simpa using this
        | unmodelled => simpa using this
  | data d => exact addData_fail p d h hf

/-- `coap_pdu_init`: NULL leaves the ledger as it was (the header object is released again when the buffer fails);
success adds exactly the two owned blocks. -/
theorem pduInit_ledger (size : Nat) (h : Heap) :
    ((pduInit size h).1 = none → (pduInit size h).2.live = h.live) ∧
    (∀ p, (pduInit size h).1 = some p → (pduInit size h).2.live = p.bufId :: p.id :: h.live ∧ p.buf = [] ∧ p.data = none) := by
  unfold pduInit
  cases ha : h.alloc with
  | mk r h1 =>
    cases r with
    | none => have := alloc_fail_live h (by rw [ha]); simp_all
    | some pid =>
      have h1l := (alloc_ok_live h pid (by rw [ha])).2
      rw [ha] at h1l
      simp only at h1l ⊢
      split
      · simp [Heap.free, h1l]
      · cases hb : h1.alloc with
        | mk r2 h2 =>
          cases r2 with
          | none =>
            have := alloc_fail_live h1 (by rw [hb])
            rw [hb] at this
            have t1 : h2.live = h1.live := this.1
            simp [Heap.free, t1, h1l]
          | some bid =>
            have := (alloc_ok_live h1 bid (by rw [hb])).2
            rw [hb] at this
            simp_all

/-- **no_leak_on_failure**: for every helper that creates or grows an object — on failure the ledger is what it was,
on success it is the old ledger plus exactly the owned result (a grown buffer replaces the old one). -/
theorem no_leak_on_failure (size : Nat) (op : Prim) (p : OPdu) (ol : List Opt) (num : Nat) (v : Bytes) (h : Heap) :
    -- coap_pdu_init
    ((pduInit size h).1 = none → (pduInit size h).2.live = h.live) ∧
    (∀ q, (pduInit size h).1 = some q → (pduInit size h).2.live = q.bufId :: q.id :: h.live) ∧
    -- resize / check_resize / add_token / add_option / add_data
    ((op.apply p h).1 = 0 → (op.apply p h).2.2.live = h.live) ∧
    -- coap_new_optlist + coap_insert_optlist
    ((optlistAdd ol num v h).1 = 0 → (optlistAdd ol num v h).2.1 = ol ∧ (optlistAdd ol num v h).2.2.live = h.live) ∧
    ((optlistAdd ol num v h).1 ≠ 0 → ∃ i, (optlistAdd ol num v h).2.1 = ol ++ [⟨i, num % 65536, v⟩] ∧
        (optlistAdd ol num v h).2.2.live = i :: h.live) ∧
    -- coap_new_string / coap_new_str_const / coap_new_bin_const
    ((newString h).1 = none → (newString h).2.live = h.live) ∧
    (∀ i, (newString h).1 = some i → (newString h).2.live = i :: h.live) := by
  refine ⟨(pduInit_ledger size h).1, fun q hq => ((pduInit_ledger size h).2 q hq).1, fun hf => (failure_atomic op p h hf).2, ?_, ?_,
    fun hf => (alloc_fail_live h hf).1, fun i hi => (alloc_ok_live h i hi).2⟩
  · unfold optlistAdd
    cases ha : h.alloc with
    | mk r h1 =>
      cases r with
      | none => have := alloc_fail_live h (by rw [ha]); simp_all
      | some i => simp
  · unfold optlistAdd
    cases ha : h.alloc with
    | mk r h1 =>
      cases r with
      | none => simp
      | some i =>
        have := (alloc_ok_live h i (by rw [ha])).2
        rw [ha] at this
        intro _
        exact ⟨i, rfl, this⟩

/-! ## the send path -/

/-- **send_consumes_pdu**: whatever the oracle answers, whatever the socket does, whatever the state of the session
(NSTART slot free or not), `coap_send` ends in exactly one of two ways: the PDU has been released (`coap_delete_pdu`
ran exactly once on it: the trace grows by `free bufId, free id` and by nothing else that mentions them) and no queue
holds it; or it has NOT been released and exactly one new queue node owns it.  `COAP_INVALID_MID` is returned only in
the first way: a PDU given to coap_send is consumed even on failure. -/
theorem send_consumes_pdu (con : Bool) (p : OPdu) (s : Sess) (h : Heap) :
    let r := send con p s h
    ( -- released, not queued
      (r.1 = .sentFreed ∨ r.1 = .error) ∧ r.2.1.sendq = s.sendq ∧ r.2.1.delayq = s.delayq ∧
        ∃ hm : Heap, r.2.2 = pduDelete p hm ∧ hm.trace = h.trace ∧ hm.live = h.live ) ∨
    ( -- kept: exactly one new node, which owns it; nothing freed
      (r.1 = .queued ∨ r.1 = .delayed) ∧
        ∃ n, r.2.2.live = n :: h.live ∧ r.2.2.trace = h.trace ++ [.alloc n] ∧
          ((r.2.1.sendq = s.sendq ++ [⟨n, p⟩] ∧ r.2.1.delayq = s.delayq) ∨
           (r.2.1.delayq = s.delayq ++ [⟨n, p⟩] ∧ r.2.1.sendq = s.sendq)) ) := by
  intro r
  show _ ∨ _
  simp only [r]
  unfold send
  split
  · left; exact ⟨Or.inr rfl, rfl, rfl, h, rfl, rfl, rfl⟩
  · unfold sendInternal
    split
    · cases ha : h.alloc with
      | mk a h1 =>
        cases a with
        | none =>
          left
          have := alloc_fail_live h (by rw [ha]); rw [ha] at this
          exact ⟨Or.inr rfl, rfl, rfl, h1, rfl, this.2, this.1⟩
        | some n =>
          right
          have hl := (alloc_ok_live h n (by rw [ha])); rw [ha] at hl
          have ht := alloc_ok_trace h n (by rw [ha]); rw [ha] at ht
          exact ⟨Or.inr rfl, n, hl.2, ht, Or.inr ⟨rfl, rfl⟩⟩
    · split
      · left; exact ⟨Or.inr rfl, rfl, rfl, h, rfl, rfl, rfl⟩
      · split
        · left; exact ⟨Or.inl rfl, rfl, rfl, h, rfl, rfl, rfl⟩
        · cases ha : h.alloc with
          | mk a h1 =>
            cases a with
            | none =>
              left
              have := alloc_fail_live h (by rw [ha]); rw [ha] at this
              exact ⟨Or.inr rfl, rfl, rfl, h1, rfl, this.2, this.1⟩
            | some n =>
              right
              have hl := (alloc_ok_live h n (by rw [ha])); rw [ha] at hl
              have ht := alloc_ok_trace h n (by rw [ha]); rw [ha] at ht
              exact ⟨Or.inl rfl, n, hl.2, ht, Or.inl ⟨rfl, rfl⟩⟩

/-- a failed send gives the NSTART slot back (after the fix: `con_active` is what it was) -/
theorem send_error_keeps_slot (con : Bool) (p : OPdu) (s : Sess) (h : Heap) (he : (send con p s h).1 = .error) :
    (send con p s h).2.1 = s := by
  unfold send at *
  split
  · rfl
  · rename_i ht
    simp only [ht, if_false] at he
    unfold sendInternal at *
    split
    · rename_i hc
      simp only [hc] at he
      cases ha : h.alloc with
      | mk a h1 => cases a <;> simp_all
    · rename_i hc
      simp only [hc, if_false] at he
      split
      · rfl
      · rename_i hw
        simp only [hw, if_false] at he
        split
        · rename_i hn; simp [hn] at he
        · rename_i hn
          simp only [hn, if_false] at he
          cases ha : h.alloc with
          | mk a h1 => cases a <;> simp_all

/-! ## with memory available the same operation succeeds -/

/-- an oracle that answers `true` from now on -/
def AllTrue (o : Oracle) : Prop := ∀ b ∈ o, b = true

theorem head_allTrue (o : Oracle) (ho : AllTrue o) : o.head = true := by
  cases o with
  | nil => rfl
  | cons b r => exact ho b (by simp)
theorem tail_allTrue (o : Oracle) (ho : AllTrue o) : AllTrue o.tail := by
  cases o with
  | nil => exact ho
  | cons b r => intro x hx; exact ho x (List.mem_cons_of_mem b hx)

theorem alloc_allTrue (h : Heap) (ho : AllTrue h.orc) : h.alloc.1 = some h.next ∧ AllTrue h.alloc.2.orc := by
  unfold Heap.alloc
  simp [head_allTrue _ ho, tail_allTrue _ ho]
theorem realloc_allTrue (h : Heap) (id : Nat) (ho : AllTrue h.orc) :
    (h.realloc id).1 = some h.next ∧ AllTrue (h.realloc id).2.orc := by
  unfold Heap.realloc
  simp [head_allTrue _ ho, tail_allTrue _ ho]

theorem resize_allTrue (p : OPdu) (n : Nat) (h : Heap) (ho : AllTrue h.orc) (hfit : p.maxSize = 0 ∨ n ≤ p.maxSize) :
    (resize p n h).1 = 1 := by
  unfold resize
  split
  · split
    · omega
    · have := (realloc_allTrue h p.bufId ho).1
      cases hr : h.realloc p.bufId with
      | mk r h1 => rw [hr] at this; simp at this; subst this; rfl
  · rfl

theorem grow_ge (fuel size ns : Nat) : ns ≤ grow fuel size ns := by
  induction fuel generalizing ns with
  | zero => simp [grow]
  | succ k ih =>
    unfold grow
    split
    · exact Nat.le_trans (by omega) (ih (ns * 2))
    · exact Nat.le_refl _

/-- **next_op_succeeds**: once memory is available again (an all-true oracle — in particular the exhausted one), every
modelled operation succeeds provided it would fit at all (the `max_size` test is not an allocation failure):
coap_pdu_init returns a PDU, coap_pdu_resize returns 1, new optlist nodes / strings are created, and a send whose socket
write works is never answered COAP_INVALID_MID. -/
theorem next_op_succeeds (h : Heap) (ho : AllTrue h.orc) :
    (∀ size, size ≤ 8388864 - 6 → ((pduInit size h).1).isSome) ∧
    (∀ p n, (p.maxSize = 0 ∨ n ≤ p.maxSize) → (resize p n h).1 = 1) ∧
    (∀ ol num v, (optlistAdd ol num v h).1 = 1) ∧
    ((newString h).1).isSome ∧
    (∀ con p s, p.tokLen ≤ s.maxTok → s.writeOk = true → (send con p s h).1 ≠ .error) := by
  refine ⟨?_, fun p n hfit => resize_allTrue p n h ho hfit, ?_, ?_, ?_⟩
  · intro size hs
    unfold pduInit
    have ha := alloc_allTrue h ho
    cases hr : h.alloc with
    | mk r h1 =>
      rw [hr] at ha
      simp only at ha
      obtain ⟨ha1, ha2⟩ := ha
      subst ha1
      simp only
      have : ¬ size > 8388864 - 6 := by omega
      simp only [this, if_false]
      have hb := alloc_allTrue h1 ha2
      cases hr2 : h1.alloc with
      | mk r2 h2 => rw [hr2] at hb; simp only at hb; rw [hb.1]; rfl
  · intro ol num v
    unfold optlistAdd
    have ha := alloc_allTrue h ho
    cases hr : h.alloc with
    | mk r h1 => rw [hr] at ha; simp only at ha; rw [ha.1]
  · unfold newString; rw [(alloc_allTrue h ho).1]; rfl
  · intro con p s ht hw
    unfold send
    have : ¬ p.tokLen > s.maxTok := by omega
    simp only [this, if_false]
    unfold sendInternal
    have ha := alloc_allTrue h ho
    cases hr : h.alloc with
    | mk r h1 =>
      rw [hr] at ha; simp only at ha
      obtain ⟨ha1, _⟩ := ha
      subst ha1
      split
      · simp
      · simp only [hw]
        split <;> simp

/-! ## allocation counts -/

/-- **alloc_count_matches**: the number of allocation REQUESTS each helper makes, as a function of what happens — the
numbers the differential run compares with the real code for every script and every failing index:
coap_pdu_init 1 (first request refused, or size too large: the request is made before the size test) or 2;
coap_pdu_resize 1 iff it must grow and may (else 0); optlist node, string: 1; coap_send: 1 for a CON that reaches
coap_new_node (sent or delayed), 0 otherwise. -/
theorem alloc_count_matches (h : Heap) :
    (∀ size, (pduInit size h).2.reqs = h.reqs + (if h.orc.head = false ∨ size > 8388864 - 6 then 1 else 2)) ∧
    (∀ p n, (resize p n h).2.2.reqs = h.reqs + (if n > p.allocSize ∧ ¬ (p.maxSize ≠ 0 ∧ n > p.maxSize) then 1 else 0)) ∧
    (∀ ol num v, (optlistAdd ol num v h).2.2.reqs = h.reqs + 1) ∧
    ((newString h).2.reqs = h.reqs + 1) ∧
    (∀ con p s, (send con p s h).2.2.reqs = h.reqs +
        (if p.tokLen > s.maxTok then 0 else if con = true ∧ s.conActive ≥ s.nstart then 1
         else if s.writeOk = false then 0 else if con = false then 0 else 1)) := by
  refine ⟨?_, ?_, ?_, alloc_reqs h, ?_⟩
  · intro size
    unfold pduInit
    cases ha : h.alloc with
    | mk r h1 =>
      have hreq := alloc_reqs h; rw [ha] at hreq; simp only at hreq
      cases r with
      | none =>
        have : h.orc.head = false := by
          unfold Heap.alloc at ha; split at ha <;> simp_all
        simp [this, hreq]
      | some pid =>
        have hh : h.orc.head = true := by
          unfold Heap.alloc at ha; split at ha <;> simp_all
        simp only [hh, Bool.true_eq_false, false_or]
        split
        · simp [Heap.free, hreq]
        · cases hb : h1.alloc with
          | mk r2 h2 =>
            have hreq2 := alloc_reqs h1; rw [hb] at hreq2; simp only at hreq2
            cases r2 <;> simp [Heap.free, hreq2, hreq] <;> omega
  · intro p n
    unfold resize
    split
    · rename_i hgt
      split
      · rename_i hmax; simp [hgt, hmax]
      · rename_i hmax
        have hreq := realloc_reqs h p.bufId
        cases hr : h.realloc p.bufId with
        | mk r h1 =>
          rw [hr] at hreq; simp only at hreq
          cases r <;> simp [hgt, hmax, hreq]
    · rename_i hgt; simp [hgt]
  · intro ol num v
    unfold optlistAdd
    have hreq := alloc_reqs h
    cases ha : h.alloc with
    | mk r h1 => rw [ha] at hreq; cases r <;> simpa using hreq
  · intro con p s
    unfold send
    split
    · simp [pduDelete, Heap.free]
    · unfold sendInternal
      have hreq := alloc_reqs h
      cases ha : h.alloc with
      | mk r h1 =>
        rw [ha] at hreq; simp only at hreq
        cases con <;> cases hw : s.writeOk <;> by_cases hc : s.conActive ≥ s.nstart <;>
          cases r <;> simp [hc, hreq, pduDelete, Heap.free]

/-! ## whole scripts -/

/-- non-vacuity and a concrete run: a script under the oracle that fails the 3rd request; the buffer cannot be
grown to 300 bytes (the realloc of the 256-byte buffer fails), everything else goes through, the trace is clean after clean-up -/
example :
    let st := (St.init (oracleFailing 3 0 3)).run [.init 1152, .token 4, .check 300, .option 11 3, .data 10, .send true]
    st.1 = [.num 1, .num 1, .num 0, .num 4, .num 1, .sent .queued] ∧ st.2.heap.reqs = 4 ∧
    ledgerOk st.2.cleanup.heap.trace = true := by decide

example : ledgerOk ((St.init []).run [.init 100, .olAdd 11 2, .olAdd 3 1, .olPdu, .str 5, .send false]).2.cleanup.heap.trace = true := by
  decide

/-- **script_ledger_ok** — stated for every oracle and every script over the ops whose clean-up is a single object
(PDU life cycle and the send path; the optlist / string loops are covered by `no_leak_on_failure` per call and by
the differential run's monitor verdict on M's own trace for every script):
the heap invariant `Replays` (the model's ledger IS the monitor's replay of the model's trace) holds in every
reachable state, so `ledgerOk` of the final trace is decided by `live = [] ∧ ok`. -/
theorem script_ledger_ok (st : St) (ops : List HOp) (hr : st.heap.Replays) :
    (st.run ops).2.heap.Replays := by
  induction ops generalizing st with
  | nil => exact hr
  | cons op r ih =>
    unfold St.run
    simp only
    apply ih
    -- one step preserves the invariant: every heap access goes through alloc / free / realloc
    have rp_del : ∀ (p : OPdu) (h : Heap), h.Replays → (pduDelete p h).Replays :=
      fun p h hh => replays_free _ _ (replays_free _ _ hh)
    have rp_resize : ∀ (p : OPdu) (n : Nat) (h : Heap), h.Replays → (resize p n h).2.2.Replays := by
      intro p n h hh
      unfold resize
      split
      · split
        · exact hh
        · have := replays_realloc h p.bufId hh
          cases hrr : h.realloc p.bufId with
          | mk a h1 => rw [hrr] at this; cases a <;> exact this
      · exact hh
    have rp_check : ∀ (p : OPdu) (n : Nat) (h : Heap), h.Replays → (checkResize p n h).2.2.Replays := by
      intro p n h hh
      unfold checkResize
      split
      · simp only
        split
        · split
          · exact hh
          · exact rp_resize _ _ _ hh
        · exact rp_resize _ _ _ hh
      · exact hh
    have rp_opt : ∀ (p : OPdu) (num : Nat) (v : Bytes) (h : Heap), h.Replays → (addOption p num v h).2.2.Replays := by
      intro p num v h hh
      unfold addOption
      simp only
      split
      · exact hh
      · split
        · exact hh
        · split
          · exact hh
          · split
            · exact hh
            · have := rp_check p (p.buf.length + M.optEncodeSize (num - p.maxOpt) v.length) h hh
              cases hcr : checkResize p (p.buf.length + M.optEncodeSize (num - p.maxOpt) v.length) h with
              | mk rc rest =>
                cases rest with
                | mk p1 h1 => rw [hcr] at this; cases rc <;> exact this
    have rp_opts : ∀ (l : List Opt) (p : OPdu) (h : Heap), h.Replays → (addOpts l p h).2.2.Replays := by
      intro l
      induction l with
      | nil => intro p h hh; exact hh
      | cons o r ihl =>
        intro p h hh
        unfold addOpts
        have := rp_opt p o.num o.val h hh
        cases hao : addOption p o.num o.val h with
        | mk rc rest =>
          cases rest with
          | mk p1 h1 =>
            rw [hao] at this
            cases rc with
            | unmodelled => exact this
            | val n =>
              cases n with
              | zero => exact this
              | succ k => exact ihl p1 h1 this
    have rp_oldel : ∀ (l : List Opt) (h : Heap), h.Replays → (optlistDelete l h).Replays := by
      intro l
      induction l with
      | nil => intro h hh; exact hh
      | cons o r ihl => intro h hh; exact ihl _ (replays_free _ _ hh)
    have rp_freeall : ∀ (l : List Nat) (h : Heap), h.Replays → (freeAll l h).Replays := by
      intro l
      induction l with
      | nil => intro h hh; exact hh
      | cons o r ihl => intro h hh; exact ihl _ (replays_free _ _ hh)
    have rp_init : ∀ (size : Nat) (hh0 : Heap), hh0.Replays → (pduInit size hh0).2.Replays := by
      intro size hh0 h0
      unfold pduInit
      have ha := replays_alloc hh0 h0
      cases hal : hh0.alloc with
      | mk a h1 =>
        rw [hal] at ha
        cases a with
        | none => exact ha
        | some pid =>
          simp only
          split
          · exact replays_free _ _ ha
          · have hb := replays_alloc h1 ha
            cases hbl : h1.alloc with
            | mk b h2 =>
              rw [hbl] at hb
              cases b with
              | none => exact replays_free _ _ hb
              | some bid => exact hb
    cases op with
    | init size =>
      unfold St.step
      simp only
      cases hp : st.pdu with
      | none =>
        simp only
        have := rp_init size _ hr
        split <;> (rename_i heq; rw [heq] at this; exact this)
      | some p =>
        simp only
        have := rp_init size _ (rp_del p _ hr)
        split <;> (rename_i heq; rw [heq] at this; exact this)
    | token len =>
      unfold St.step
      cases hp : st.pdu with
      | none => exact hr
      | some p =>
        simp only
        unfold addToken
        simp only
        split
        · exact hr
        · split
          · exact hr
          · rename_i bias _
            have := rp_check p ((pattern len).length + bias) st.heap hr
            cases hcr : checkResize p ((pattern len).length + bias) st.heap with
            | mk rc rest =>
              cases rest with
              | mk p1 h1 => rw [hcr] at this; cases rc <;> exact this
    | option num len =>
      unfold St.step
      cases hp : st.pdu with
      | none => exact hr
      | some p => exact rp_opt p num (pattern len) st.heap hr
    | data len =>
      unfold St.step
      cases hp : st.pdu with
      | none => exact hr
      | some p =>
        simp only
        unfold addData
        split
        · exact hr
        · split
          · exact hr
          · have := rp_resize p (p.buf.length + (pattern len).length + 1) st.heap hr
            cases hcr : resize p (p.buf.length + (pattern len).length + 1) st.heap with
            | mk rc rest =>
              cases rest with
              | mk p1 h1 => rw [hcr] at this; cases rc <;> exact this
    | resize n =>
      unfold St.step
      cases hp : st.pdu with
      | none => exact hr
      | some p =>
        simp only
        split
        · exact hr
        · exact rp_resize p n st.heap hr
    | check n =>
      unfold St.step
      cases hp : st.pdu with
      | none => exact hr
      | some p => exact rp_check p n st.heap hr
    | del =>
      unfold St.step
      cases hp : st.pdu with
      | none => exact hr
      | some p => exact rp_del p _ hr
    | olAdd num len =>
      unfold St.step optlistAdd
      have := replays_alloc st.heap hr
      cases hal : st.heap.alloc with
      | mk a h1 => rw [hal] at this; cases a <;> exact this
    | olPdu =>
      unfold St.step
      cases hp : st.pdu with
      | none => exact hr
      | some p =>
        simp only
        unfold addOptlistPdu
        split
        · exact hr
        · split
          · exact hr
          · exact rp_opts _ p st.heap hr
    | olDel => exact rp_oldel _ _ hr
    | str len =>
      unfold St.step newString
      have := replays_alloc st.heap hr
      cases hal : st.heap.alloc with
      | mk a h1 => rw [hal] at this; cases a <;> exact this
    | strFree => exact rp_freeall _ _ hr
    | send con =>
      unfold St.step
      cases hp : st.pdu with
      | none => exact hr
      | some p =>
        simp only
        unfold AllocOracle.send
        split
        · exact rp_del p _ hr
        · unfold sendInternal
          have ha := replays_alloc st.heap hr
          cases hal : st.heap.alloc with
          | mk a h1 =>
            rw [hal] at ha
            split
            · cases a with
              | none => exact rp_del p _ ha
              | some n => exact ha
            · split
              · exact rp_del p _ hr
              · split
                · exact rp_del p _ hr
                · cases a with
                  | none => exact rp_del p _ ha
                  | some n => exact ha
    | write ok => exact hr

/-- consequence: the monitor's verdict on the trace of ANY script under ANY oracle is read off the model's ledger -/
theorem script_verdict (orc : Oracle) (ops : List HOp) :
    let h := ((St.init orc).run ops).2.heap
    ledgerOk h.trace = (h.ok && h.live.isEmpty) := by
  intro h
  have := script_ledger_ok (St.init orc) ops (replays_init orc)
  unfold Heap.Replays at this
  unfold ledgerOk
  show (match runLedger h.trace [] with | some [] => true | _ => false) = _
  rw [this]
  cases h.ok <;> cases h.live <;> simp

end Coap.C18
