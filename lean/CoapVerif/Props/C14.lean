import CoapVerif.Lemmas.Oscore
/-
C14 — OSCORE protection round-trips, matches RFC 8613, and tampering is detected by the tag.

  S = Coap.Spec.Oscore (RFC 8613 written from the RFCs) over Coap.Spec.Crypto (CCM, AES, HKDF, SHA-256)
  M = Coap.M.Oscore    (transcription of src/oscore/*.c helpers and of the option split / merge)

NOT a theorem: "every modification is rejected" — that is unforgeability of the MAC, a cryptographic
assumption.  What is proved: the AEAD round-trips for every block function, decryption rejects
exactly when the recomputed tag differs (or the input is shorter than a tag), and the inputs of the
tag (AAD, nonce) determine kid / Partial IV / algorithm injectively.
-/
namespace Coap.C14
open Coap.Spec.Crypto Coap.Spec.Oscore

/-- CCM decryption undoes CCM encryption, for every block function `E` (AES-128 is one), every tag
length, nonce, associated data and message. -/
theorem ccm_roundtrip (E : Bytes → Bytes) (M : Nat) (n a p : Bytes) :
    ccmDecrypt E M n a (ccmEncrypt E M n a p) = some p := by
  have hl : (ccmEncrypt E M n a p).length = p.length + M := by
    simp [ccmEncrypt, ccmCtr_length, xorKs_length, ccmTag_length]
  have ht : (ccmEncrypt E M n a p).take p.length = ccmCtr E n p := by
    simp [ccmEncrypt, ← ccmCtr_length E n p]
  have hd : (ccmEncrypt E M n a p).drop p.length = xorKs (ccmTag E M n a p) (fit M (E (ccmCtrBlock n 0))) := by
    simp [ccmEncrypt, ← ccmCtr_length E n p]
  unfold ccmDecrypt
  have hlt : ¬ (ccmEncrypt E M n a p).length < M := by omega
  simp only [hlt, if_false]
  have hsub : (ccmEncrypt E M n a p).length - M = p.length := by omega
  rw [hsub, ht, hd, ccmCtr_ccmCtr, xorKs_xorKs]
  simp

/-- Rejection happens iff the datagram is shorter than a tag or the tag recomputed over the
recovered message differs from the transmitted one. -/
theorem tamper_detected_iff_tag_mismatch (E : Bytes → Bytes) (M : Nat) (n a c : Bytes) :
    ccmDecrypt E M n a c = none ↔
      (c.length < M ∨
       xorKs (c.drop (c.length - M)) (fit M (E (ccmCtrBlock n 0))) ≠
         ccmTag E M n a (ccmCtr E n (c.take (c.length - M)))) := by
  unfold ccmDecrypt
  by_cases h : c.length < M
  · simp [h]
  · by_cases h2 : xorKs (c.drop (c.length - M)) (fit M (E (ccmCtrBlock n 0))) =
        ccmTag E M n a (ccmCtr E n (c.take (c.length - M)))
    · simp [h, h2]
    · simp [h, h2]

/-- §6.1: decompressing a compressed COSE object gives it back, for every Partial IV of up to 5 bytes,
every kid and kid context (present or absent) whose encoding fits the option (255 bytes). -/
theorem option_value_roundtrip (v : OptVal) (hp : v.piv.length ≤ 5) (hl : (optEncode v).length ≤ 255) :
    optDecode (optEncode v) = some v := by
  obtain ⟨piv, kc, kid⟩ := v
  simp only at hp
  cases kc with
  | none =>
    cases kid with
    | none =>
      by_cases he : piv = []
      · subst he; simp [optEncode, optDecode]
      · have := decode_flags piv [] 0 0 hp (by omega) (by omega) (by simp [optEncode, he] at hl; simp; omega)
        simp [optEncode, he] at this ⊢
        exact this
    | some k =>
      have := decode_flags piv k 0 1 hp (by omega) (by omega) (by simp [optEncode] at hl; simp; omega)
      simp [optEncode] at this ⊢
      exact this
  | some c =>
    have hc : c.length < 256 := by
      simp [optEncode] at hl; omega
    have hcn : (UInt8.ofNat c.length).toNat = c.length := by
      rw [UInt8.toNat_ofNat']; omega
    cases kid with
    | none =>
      have := decode_flags piv (UInt8.ofNat c.length :: c) 1 0 hp (by omega) (by omega) (by simp [optEncode] at hl; simp; omega)
      simp [optEncode, hcn] at this ⊢
      exact this
    | some k =>
      have := decode_flags piv (UInt8.ofNat c.length :: (c ++ k)) 1 1 hp (by omega) (by omega) (by simp [optEncode] at hl; simp; omega)
      simp [optEncode, hcn] at this ⊢
      rw [this]; simp

/-- Inner and outer options recombine to the original list (requests; for responses see
`unprotect_protect`): the options that survive §8.2 step 1 of the outer message produced by
`protectRequest`, merged with the inner options, are the original options, for every list sorted
by option number that carries no OSCORE option, and every OSCORE option value. -/
theorem split_merge_inverse (os : List Opt) (ov : Bytes) (hs : os.Pairwise (fun a b => a.1 ≤ b.1))
    (hno : ∀ o ∈ os, o.1 ≠ optOscore) :
    mergeOpts (withOscore (outerOpts os) ov) (innerOpts true os) = os := by
  unfold mergeOpts
  rw [kept_outer_eq os ov hs]
  have hin : innerOpts true os = os.filter (fun o => !(classUOnly o.1 && decide (o.1 ≠ 9))) := by
    unfold innerOpts
    simp only [not_true_eq_false, and_false, if_false, List.map_id']
    apply List.filter_congr
    intro o ho
    have := hno o ho
    simp [this]
  rw [hin]
  exact merge_filter_sorted (fun n => classUOnly n && decide (n ≠ 9)) os hs

theorem oscoreValue_withOscore (outer : List Opt) (ov : Bytes) (h : ∀ o ∈ outer, o.1 ≠ optOscore) :
    oscoreValue (withOscore outer ov) = some ov := by
  unfold oscoreValue withOscore
  have h1 : (outer.filter fun o => decide (o.1 ≤ optOscore)).find? (fun o => decide (o.1 = optOscore)) = none := by
    rw [List.find?_eq_none]; intro x hx; have := h x (List.mem_filter.mp hx).1; simpa using this
  simp [List.find?_append, h1]

theorem outerOpts_no_oscore (os : List Opt) : ∀ o ∈ outerOpts os, o.1 ≠ optOscore := by
  intro o ho
  have := (List.mem_filter.mp ho).2
  simp at this
  exact this.2

theorem aeadOpen_aeadSeal (cipher : Bytes → Bytes → Bytes) (k n a p : Bytes) :
    aeadOpen cipher k n a (aeadSeal cipher k n a p) = some p := ccm_roundtrip _ _ _ _ _

theorem aeadSeal_ne_nil (cipher : Bytes → Bytes → Bytes) (k n a p : Bytes) : aeadSeal cipher k n a p ≠ [] := by
  intro h
  have := congrArg List.length h
  simp [aeadSeal, ccmEncrypt, xorKs_length, ccmTag_length] at this


/-- Matching contexts: the recipient's view of the sender (§3.1) -/
def Matching (cS cR : Ctx) : Prop :=
  cR.rid = cS.sid ∧ cR.recipientKey = cS.senderKey ∧ cR.commonIV = cS.commonIV ∧ cR.idctx = cS.idctx ∧ cR.alg = cS.alg

/-- `unprotect ctxR (protect ctxS m) = ok m` for requests and matching contexts, for every block cipher,
message, Partial IV and context — from `ccm_roundtrip`, `option_value_roundtrip` and
`split_merge_inverse`.  PARTIAL in two respects: (1) the round-trip of the RFC 7252 option codec on
the inner message (`hplain`) is a hypothesis here (it is C01's wire round-trip theorem; the inner
plaintext is an ordinary option list + payload), (2) responses (`protectResponse` /
`unprotectResponse`, where the result is `normalize false piv m`, D14.3) are covered by the
differential runs only.  Full statement:
  ∀ cipher cS cR m seq, Matching cS cR → sorted m.opts → no OSCORE option → seq ≤ maxSeq →
    |sid| ≤ 7 → |idctx| ≤ 240 → option lengths ≤ 65804 →
    (isRequest m.code → ∀ r, protectRequest cipher cS m seq = some r → unprotectRequest cipher cR r.1 = .ok m r.2) ∧
    (¬isRequest m.code → ∀ b s r, protectResponse cipher cS b m s none = some r →
        unprotectResponse cipher cR (some b) r = .ok (normalize false (piv of s / b) m) b) -/
theorem unprotect_protect_partial (cipher : Bytes → Bytes → Bytes) (cS cR : Ctx) (m : Msg) (seq : Nat)
    (hm : Matching cS cR)
    (hsorted : m.opts.Pairwise (fun a b => a.1 ≤ b.1))
    (hno : ∀ o ∈ m.opts, o.1 ≠ optOscore)
    (hseq : seq ≤ maxSeq)
    (hpiv : (pivBytes seq).length ≤ 5)
    (hopt : (optEncode ⟨pivBytes seq, cS.idctx, some cS.sid⟩).length ≤ 255)
    (hplain : decPlain (encPlain m.code (innerOpts true m.opts) m.payload) =
                some (m.code, innerOpts true m.opts, m.payload)) :
    ∀ r, protectRequest cipher cS m seq = some r → unprotectRequest cipher cR r.1 = .ok m r.2 := by
  obtain ⟨h1, h2, h3, h4, h5⟩ := hm
  have hany : (m.opts.any fun o => decide (o.1 = optOscore)) = false := by
    rw [List.any_eq_false]; intro o ho; simpa using hno o ho
  have hs : ¬ seq > maxSeq := by omega
  intro r hr
  unfold protectRequest at hr
  simp only [hany, hs, if_false, Bool.false_eq_true] at hr
  injection hr with hr
  subst hr
  unfold unprotectRequest
  simp only [oscoreValue_withOscore _ _ (outerOpts_no_oscore m.opts)]
  simp only [aeadSeal_ne_nil, if_false]
  rw [option_value_roundtrip _ hpiv hopt]
  simp only [h1, h2, h3, h4, h5, ne_eq, not_true_eq_false, or_self, if_false, aeadOpen_aeadSeal, hplain]
  simp only [split_merge_inverse m.opts _ hsorted hno]

/-- libcoap's `oscore_prepare_e_aad` / `oscore_prepare_aad` (M) produce the external_aad and the
Enc_structure of RFC 8613 §5.4 (S), for every algorithm id (positive or negative), kid and Partial IV. -/
theorem aad_eq_spec (alg : Int) (kid piv : Bytes) :
    M.Oscore.prepareEAad alg kid piv = aadArray alg kid piv ∧ M.Oscore.prepareAad (M.Oscore.prepareEAad alg kid piv) = aad alg kid piv := by
  have e : M.Oscore.prepareEAad alg kid piv = aadArray alg kid piv := by
    simp only [M.Oscore.prepareEAad, aadArray, M.Oscore.putArray, M.Oscore.putBytes, cborArray, cborBstr, cborUint, (orFirst_eq _).1, (orFirst_eq _).2.1]
    simp only [putUnsigned_eq, putNumber_eq, List.append_assoc]
  refine ⟨e, ?_⟩
  rw [e]
  simp only [M.Oscore.prepareAad, aad, encStructure, M.Oscore.putArray, M.Oscore.putBytes, M.Oscore.putText, cborArray, cborBstr, cborTstr, (orFirst_eq _).1,
    (orFirst_eq _).2.1, (orFirst_eq _).2.2.1, labelEncrypt0, List.append_assoc]

theorem leftPad_length (k : Nat) (b : Bytes) (h : b.length ≤ k) : (leftPad k b).length = k := by
  simp [leftPad]; omega

/-- The nonce determines kid and Partial IV (the link to C15's "no nonce reuse"): two nonces built
from the same Common IV are equal only if the kids are equal and — PARTIAL: for Partial IVs of the
same length — the Partial IVs are equal.  Full statement (Partial IVs as minimal-length encodings
`pivBytes seq`, `pivBytes seq'` of sequence numbers below 2^40, possibly of different lengths):
  (seq ≠ seq' ∨ kid ≠ kid') → nonce civ kid (pivBytes seq) ≠ nonce civ kid' (pivBytes seq'). -/
theorem nonce_injective_partial (civ kid kid' piv piv' : Bytes) (hk : kid.length ≤ 7) (hk' : kid'.length ≤ 7)
    (hp : piv.length = piv'.length) (hp5 : piv.length ≤ 5)
    (h : nonce civ kid piv = nonce civ kid' piv') : kid = kid' ∧ piv = piv' := by
  have h0 := xorKs_inj _ _ _ h
  unfold noncePlain at h0
  injection h0 with hlen hrest
  have hl : kid.length = kid'.length := by
    have := congrArg UInt8.toNat hlen
    rw [UInt8.toNat_ofNat', UInt8.toNat_ofNat'] at this
    omega
  have hp5' : piv'.length ≤ 5 := by omega
  have := List.append_inj hrest (by rw [leftPad_length 7 kid hk, leftPad_length 7 kid' hk'])
  obtain ⟨ha, hb⟩ := this
  unfold leftPad at ha hb
  rw [hl] at ha
  rw [hp] at hb
  exact ⟨List.append_cancel_left ha, List.append_cancel_left hb⟩

/-! ### Non-vacuity: concrete instances of the hypotheses -/

example : (pivBytes 20).length ≤ 5 ∧ (pivBytes (2 ^ 40 - 2)).length ≤ 5 ∧ 2 ^ 40 - 2 ≤ maxSeq := by decide

example : (optEncode ⟨pivBytes 20, some [0x37, 0xcb], some [0x01]⟩).length ≤ 255 := by decide

example : optDecode (optEncode ⟨[0x14], none, some []⟩) = some ⟨[0x14], none, some []⟩ := by decide

/-- a client context and the server's mirror image match -/
example : Matching ⟨[], [1], none, 10, [1, 2], [3, 4], [5]⟩ ⟨[1], [], none, 10, [3, 4], [1, 2], [5]⟩ :=
  ⟨rfl, rfl, rfl, rfl, rfl⟩

/-- `hplain` of `unprotect_protect_partial` on the RFC 8613 C.4 request (GET, Uri-Host outer, Uri-Path "tv1" inner) -/
example : decPlain (encPlain 1 (innerOpts true [(3, [0x6c]), (11, [0x74, 0x76, 0x31])]) []) =
    some (1, innerOpts true [(3, [0x6c]), (11, [0x74, 0x76, 0x31])], []) := by decide

example : ([(3, [0x6c]), (11, [0x74, 0x76, 0x31])] : List Opt).Pairwise (fun a b => a.1 ≤ b.1) := by decide

/-- inner / outer split of a request with Observe, Uri-Host, Uri-Path, Max-Age, Proxy-Scheme -/
example : outerOpts [(3, [1]), (6, []), (11, [2]), (14, [3]), (39, [4])] = [(3, [1]), (6, []), (39, [4])] ∧
    innerOpts true [(3, [1]), (6, []), (11, [2]), (14, [3]), (39, [4])] = [(6, []), (11, [2]), (14, [3])] := by decide

end Coap.C14
