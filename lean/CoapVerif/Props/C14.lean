import CoapVerif.Spec.Oscore
import CoapVerif.Model.Oscore
namespace Coap.C14
theorem placeholder : True := trivial
end Coap.C14
