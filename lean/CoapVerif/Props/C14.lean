import CoapVerif.Lemmas.OscorePlain
import CoapVerif.Lemmas.OscoreSeq
import CoapVerif.Lemmas.OscoreCtx
import CoapVerif.Lemmas.OscoreCtxSeq
import CoapVerif.Model.OscoreDispatch
/-
C14 — OSCORE protection round-trips, matches RFC 8613, and tampering is detected by the tag.

  S = Coap.Spec.Oscore (RFC 8613 written from the RFCs) over Coap.Spec.Crypto (CCM, AES, HKDF, SHA-256)
  M = Coap.M.Oscore    (transcription of src/oscore/*.c helpers and of the option split / merge)

NOT a theorem: "every modification is rejected" — that is unforgeability of the MAC, a cryptographic
assumption.  What is proved: the AEAD round-trips for every block function, decryption rejects
exactly when the recomputed tag differs (or the input is shorter than a tag), and the inputs of the
tag (AAD, nonce) determine kid / Partial IV / algorithm injectively (`aad_injective`, `nonce_injective`,
from `cbor_head_injective` / `cbor_bstr_injective`); libcoap's helpers (M) equal S (`aad_eq_spec`,
`nonce_eq_spec`, `option_value_eq_spec`, `split_eq_spec`, `info_eq_spec`); `unprotect ∘ protect` is the
identity for requests and, up to the recipient's Observe value (D14.3), for responses (`unprotect_protect`).
Helper lemmas: Lemmas/Oscore.lean, OscoreCbor.lean, OscoreNonce.lean, OscoreOpt.lean, OscorePlain.lean.
-/
namespace Coap.C14
open Coap.Spec.Crypto Coap.Spec.Oscore

/-- CCM decryption undoes CCM encryption, for every block function `E` (AES-128 is one), every tag
length, nonce, associated data and message. -/
theorem ccm_roundtrip (E : Bytes → Bytes) (M : Nat) (n a p : Bytes) :
    ccmDecrypt E M n a (ccmEncrypt E M n a p) = some p := by
  have hl : (ccmEncrypt E M n a p).length = p.length + M := by
    simp [ccmEncrypt, ccmCtr_length, xorKs_length, ccmTag_length]
  have ht : (ccmEncrypt E M n a p).take p.length = ccmCtr E n p := by
    simp [ccmEncrypt, ← ccmCtr_length E n p]
  have hd : (ccmEncrypt E M n a p).drop p.length = xorKs (ccmTag E M n a p) (fit M (E (ccmCtrBlock n 0))) := by
    simp [ccmEncrypt, ← ccmCtr_length E n p]
  unfold ccmDecrypt
  have hlt : ¬ (ccmEncrypt E M n a p).length < M := by omega
  simp only [hlt, if_false]
  have hsub : (ccmEncrypt E M n a p).length - M = p.length := by omega
  rw [hsub, ht, hd, ccmCtr_ccmCtr, xorKs_xorKs]
  simp

/-- Rejection happens iff the datagram is shorter than a tag or the tag recomputed over the
recovered message differs from the transmitted one. -/
theorem tamper_detected_iff_tag_mismatch (E : Bytes → Bytes) (M : Nat) (n a c : Bytes) :
    ccmDecrypt E M n a c = none ↔
      (c.length < M ∨
       xorKs (c.drop (c.length - M)) (fit M (E (ccmCtrBlock n 0))) ≠
         ccmTag E M n a (ccmCtr E n (c.take (c.length - M)))) := by
  unfold ccmDecrypt
  by_cases h : c.length < M
  · simp [h]
  · by_cases h2 : xorKs (c.drop (c.length - M)) (fit M (E (ccmCtrBlock n 0))) =
        ccmTag E M n a (ccmCtr E n (c.take (c.length - M)))
    · simp [h, h2]
    · simp [h, h2]

/-- §6.1: decompressing a compressed COSE object gives it back, for every Partial IV of up to 5 bytes,
every kid and kid context (present or absent) whose encoding fits the option (255 bytes). -/
theorem option_value_roundtrip (v : OptVal) (hp : v.piv.length ≤ 5) (hl : (optEncode v).length ≤ 255) :
    optDecode (optEncode v) = some v := by
  obtain ⟨piv, kc, kid⟩ := v
  simp only at hp
  cases kc with
  | none =>
    cases kid with
    | none =>
      by_cases he : piv = []
      · subst he; simp [optEncode, optDecode]
      · have := decode_flags piv [] 0 0 hp (by omega) (by omega) (by simp [optEncode, he] at hl; simp; omega)
        simp [optEncode, he] at this ⊢
        exact this
    | some k =>
      have := decode_flags piv k 0 1 hp (by omega) (by omega) (by simp [optEncode] at hl; simp; omega)
      simp [optEncode] at this ⊢
      exact this
  | some c =>
    have hc : c.length < 256 := by
      simp [optEncode] at hl; omega
    have hcn : (UInt8.ofNat c.length).toNat = c.length := by
      rw [UInt8.toNat_ofNat']; omega
    cases kid with
    | none =>
      have := decode_flags piv (UInt8.ofNat c.length :: c) 1 0 hp (by omega) (by omega) (by simp [optEncode] at hl; simp; omega)
      simp [optEncode, hcn] at this ⊢
      exact this
    | some k =>
      have := decode_flags piv (UInt8.ofNat c.length :: (c ++ k)) 1 1 hp (by omega) (by omega) (by simp [optEncode] at hl; simp; omega)
      simp [optEncode, hcn] at this ⊢
      rw [this]; simp

/-- Inner and outer options recombine to the original list (requests; for responses see
`unprotect_protect`): the options that survive §8.2 step 1 of the outer message produced by
`protectRequest`, merged with the inner options, are the original options, for every list sorted
by option number that carries no OSCORE option, and every OSCORE option value. -/
theorem split_merge_inverse (os : List Opt) (ov : Bytes) (hs : os.Pairwise (fun a b => a.1 ≤ b.1))
    (hno : ∀ o ∈ os, o.1 ≠ optOscore) :
    mergeOpts (withOscore (outerOpts os) ov) (innerOpts true os) = os := by
  unfold mergeOpts
  rw [kept_outer_eq os ov hs]
  have hin : innerOpts true os = os.filter (fun o => !(classUOnly o.1 && decide (o.1 ≠ 9))) := by
    unfold innerOpts
    simp only [not_true_eq_false, and_false, if_false, List.map_id']
    apply List.filter_congr
    intro o ho
    have := hno o ho
    simp [this]
  rw [hin]
  exact merge_filter_sorted (fun n => classUOnly n && decide (n ≠ 9)) os hs

theorem oscoreValue_withOscore (outer : List Opt) (ov : Bytes) (h : ∀ o ∈ outer, o.1 ≠ optOscore) :
    oscoreValue (withOscore outer ov) = some ov := by
  unfold oscoreValue withOscore
  have h1 : (outer.filter fun o => decide (o.1 ≤ optOscore)).find? (fun o => decide (o.1 = optOscore)) = none := by
    rw [List.find?_eq_none]; intro x hx; have := h x (List.mem_filter.mp hx).1; simpa using this
  simp [List.find?_append, h1]

theorem outerOpts_no_oscore (os : List Opt) : ∀ o ∈ outerOpts os, o.1 ≠ optOscore := by
  intro o ho
  have := (List.mem_filter.mp ho).2
  simp at this
  exact this.2

theorem aeadOpen_aeadSeal (cipher : Bytes → Bytes → Bytes) (k n a p : Bytes) :
    aeadOpen cipher k n a (aeadSeal cipher k n a p) = some p := ccm_roundtrip _ _ _ _ _

theorem aeadSeal_ne_nil (cipher : Bytes → Bytes → Bytes) (k n a p : Bytes) : aeadSeal cipher k n a p ≠ [] := by
  intro h
  have := congrArg List.length h
  simp [aeadSeal, ccmEncrypt, xorKs_length, ccmTag_length] at this


/-- Matching contexts: the recipient's view of the sender (§3.1) -/
def Matching (cS cR : Ctx) : Prop :=
  cR.rid = cS.sid ∧ cR.recipientKey = cS.senderKey ∧ cR.commonIV = cS.commonIV ∧ cR.idctx = cS.idctx ∧ cR.alg = cS.alg

/-- `unprotect ctxR (protect ctxS m) = ok m` for requests and matching contexts, for every block cipher,
message, Partial IV and context — from `ccm_roundtrip`, `option_value_roundtrip` and `split_merge_inverse`,
given that the plaintext codec round-trips on the inner message (`hplain`).  `hplain` is discharged in
`unprotect_protect_request` below (this is the cipher / option-value / option-split part of the argument). -/
theorem unprotect_protect_request_of_plain (cipher : Bytes → Bytes → Bytes) (cS cR : Ctx) (m : Msg) (seq : Nat)
    (hm : Matching cS cR)
    (hsorted : m.opts.Pairwise (fun a b => a.1 ≤ b.1))
    (hno : ∀ o ∈ m.opts, o.1 ≠ optOscore)
    (hseq : seq ≤ maxSeq)
    (hpiv : (pivBytes seq).length ≤ 5)
    (hopt : (optEncode ⟨pivBytes seq, cS.idctx, some cS.sid⟩).length ≤ 255)
    (hplain : decPlain (encPlain m.code (innerOpts true m.opts) m.payload) =
                some (m.code, innerOpts true m.opts, m.payload)) :
    ∀ r, protectRequest cipher cS m seq = some r → unprotectRequest cipher cR r.1 = .ok m r.2 := by
  obtain ⟨h1, h2, h3, h4, h5⟩ := hm
  have hany : (m.opts.any fun o => decide (o.1 = optOscore)) = false := by
    rw [List.any_eq_false]; intro o ho; simpa using hno o ho
  have hs : ¬ seq > maxSeq := by omega
  intro r hr
  unfold protectRequest at hr
  simp only [hany, hs, if_false, Bool.false_eq_true] at hr
  injection hr with hr
  subst hr
  unfold unprotectRequest
  simp only [oscoreValue_withOscore _ _ (outerOpts_no_oscore m.opts)]
  simp only [aeadSeal_ne_nil, if_false]
  rw [option_value_roundtrip _ hpiv hopt]
  simp only [h1, h2, h3, h4, h5, ne_eq, not_true_eq_false, or_self, if_false, aeadOpen_aeadSeal, hplain]
  simp only [split_merge_inverse m.opts _ hsorted hno]

/-- libcoap's `oscore_prepare_e_aad` / `oscore_prepare_aad` (M) produce the external_aad and the
Enc_structure of RFC 8613 §5.4 (S), for every algorithm id (positive or negative), kid and Partial IV. -/
theorem aad_eq_spec (alg : Int) (kid piv : Bytes) :
    M.Oscore.prepareEAad alg kid piv = aadArray alg kid piv ∧ M.Oscore.prepareAad (M.Oscore.prepareEAad alg kid piv) = aad alg kid piv := by
  have e : M.Oscore.prepareEAad alg kid piv = aadArray alg kid piv := by
    simp only [M.Oscore.prepareEAad, aadArray, M.Oscore.putArray, M.Oscore.putBytes, cborArray, cborBstr, cborUint, (orFirst_eq _).1, (orFirst_eq _).2.1]
    simp only [putUnsigned_eq, putNumber_eq, List.append_assoc]
  refine ⟨e, ?_⟩
  rw [e]
  simp only [M.Oscore.prepareAad, aad, encStructure, M.Oscore.putArray, M.Oscore.putBytes, M.Oscore.putText, cborArray, cborBstr, cborTstr, (orFirst_eq _).1,
    (orFirst_eq _).2.1, (orFirst_eq _).2.2.1, labelEncrypt0, List.append_assoc]

theorem leftPad_length (k : Nat) (b : Bytes) (h : b.length ≤ k) : (leftPad k b).length = k := by
  simp [leftPad]; omega

/-- Equal-length Partial IVs (minimal-length encoding or not): two nonces built from the same Common IV are equal only
if the kids are equal and the Partial IVs are equal.  For Partial IVs of different lengths see `nonce_injective`. -/
theorem nonce_injective_same_length (civ kid kid' piv piv' : Bytes) (hk : kid.length ≤ 7) (hk' : kid'.length ≤ 7)
    (hp : piv.length = piv'.length) (hp5 : piv.length ≤ 5)
    (h : nonce civ kid piv = nonce civ kid' piv') : kid = kid' ∧ piv = piv' := by
  have h0 := xorKs_inj _ _ _ h
  unfold noncePlain at h0
  injection h0 with hlen hrest
  have hl : kid.length = kid'.length := by
    have := congrArg UInt8.toNat hlen
    rw [UInt8.toNat_ofNat', UInt8.toNat_ofNat'] at this
    omega
  have hp5' : piv'.length ≤ 5 := by omega
  have := List.append_inj hrest (by rw [leftPad_length 7 kid hk, leftPad_length 7 kid' hk'])
  obtain ⟨ha, hb⟩ := this
  unfold leftPad at ha hb
  rw [hl] at ha
  rw [hp] at hb
  exact ⟨List.append_cancel_left ha, List.append_cancel_left hb⟩

/-! ### CBOR: the encodings that go into the AAD are injective and prefix-free -/

/-- A CBOR head (major type + argument, RFC 8949 §3) followed by anything equals a head followed by anything only if
major type, argument and continuation agree — injective and prefix-free, over the whole range of the encoding
(major types 0..7, arguments below 2^64).  `cborUint n = cborHead 0 n`, `cborArray n = cborHead 4 n`. -/
theorem cbor_head_injective (mt mt' a b : Nat) (x y : Bytes) (hmt : mt < 8) (hmt' : mt' < 8) (ha : a < 2 ^ 64)
    (hb : b < 2 ^ 64) : cborHead mt a ++ x = cborHead mt' b ++ y → mt = mt' ∧ a = b ∧ x = y :=
  cborHead_inj mt mt' a b x y hmt hmt' ha hb

/-- byte strings (head + bytes): injective and prefix-free -/
theorem cbor_bstr_injective (a b x y : Bytes) (ha : a.length < 2 ^ 64) (hb : b.length < 2 ^ 64) :
    cborBstr a ++ x = cborBstr b ++ y → a = b ∧ x = y := cborBstr_inj a b x y ha hb

/-- … and the other items used: unsigned integers, array heads, signed integers (−2^64 .. 2^64−1), text strings -/
theorem cbor_items_injective :
    (∀ (a b : Nat) (x y : Bytes), a < 2 ^ 64 → b < 2 ^ 64 → cborUint a ++ x = cborUint b ++ y → a = b ∧ x = y) ∧
    (∀ (a b : Nat) (x y : Bytes), a < 2 ^ 64 → b < 2 ^ 64 → cborArray a ++ x = cborArray b ++ y → a = b ∧ x = y) ∧
    (∀ (i j : Int) (x y : Bytes), (-(2 ^ 64) ≤ i ∧ i < 2 ^ 64) → (-(2 ^ 64) ≤ j ∧ j < 2 ^ 64) →
        cborInt i ++ x = cborInt j ++ y → i = j ∧ x = y) ∧
    (∀ (a b x y : Bytes), a.length < 2 ^ 64 → b.length < 2 ^ 64 → cborTstr a ++ x = cborTstr b ++ y → a = b ∧ x = y) :=
  ⟨fun a b x y ha hb h => cborUint_inj a b x y ha hb h, fun a b x y ha hb h => cborArray_inj a b x y ha hb h,
   fun i j x y hi hj h => cborInt_inj i j x y hi hj h, fun a b x y ha hb h => cborTstr_inj a b x y ha hb h⟩

/-- §5.4: the external_aad (`aadArray`) and the Enc_structure (`aad`) determine algorithm, request_kid and
request_piv: different (alg, kid, piv) never authenticate under the same associated data.  (Algorithm ids in the
CBOR integer range, lengths such that the structure stays below 2^64 bytes.) -/
theorem aad_injective (alg alg' : Int) (kid kid' piv piv' : Bytes)
    (ha : -(2 ^ 64) ≤ alg ∧ alg < 2 ^ 64) (ha' : -(2 ^ 64) ≤ alg' ∧ alg' < 2 ^ 64)
    (hl : kid.length + piv.length < 2 ^ 63) (hl' : kid'.length + piv'.length < 2 ^ 63) :
    (aadArray alg kid piv = aadArray alg' kid' piv' → alg = alg' ∧ kid = kid' ∧ piv = piv') ∧
    (aad alg kid piv = aad alg' kid' piv' → alg = alg' ∧ kid = kid' ∧ piv = piv') := by
  have h1 : aadArray alg kid piv = aadArray alg' kid' piv' → alg = alg' ∧ kid = kid' ∧ piv = piv' :=
    aadArray_inj alg alg' kid kid' piv piv' ha ha' (by omega) (by omega) (by omega) (by omega)
  refine ⟨h1, fun h => h1 ?_⟩
  have l1 := aadArray_length_le alg kid piv
  have l2 := aadArray_length_le alg' kid' piv'
  exact encStructure_inj _ _ (by omega) (by omega) h

/-- the same for what libcoap computes (M), through `aad_eq_spec` -/
theorem aad_injective_impl (alg alg' : Int) (kid kid' piv piv' : Bytes)
    (ha : -(2 ^ 64) ≤ alg ∧ alg < 2 ^ 64) (ha' : -(2 ^ 64) ≤ alg' ∧ alg' < 2 ^ 64)
    (hl : kid.length + piv.length < 2 ^ 63) (hl' : kid'.length + piv'.length < 2 ^ 63)
    (h : M.Oscore.prepareAad (M.Oscore.prepareEAad alg kid piv) = M.Oscore.prepareAad (M.Oscore.prepareEAad alg' kid' piv')) :
    alg = alg' ∧ kid = kid' ∧ piv = piv' := by
  rw [(aad_eq_spec alg kid piv).2, (aad_eq_spec alg' kid' piv').2] at h
  exact (aad_injective alg alg' kid kid' piv piv' ha ha' hl hl').2 h

/-! ### nonce -/

/-- libcoap's `oscore_generate_nonce` (M: two `memcpy`s into a zeroed 13-byte buffer, then xor) computes the §5.2
nonce (S), for every Sender ID of at most 7 bytes (nonce length − 6), every Partial IV of at most 5 bytes and every
Common IV of at least 13 bytes (13 in use). -/
theorem nonce_eq_spec (civ kid piv : Bytes) (hk : kid.length ≤ 7) (hp : piv.length ≤ 5) (hc : 13 ≤ civ.length) :
    M.Oscore.generateNonce civ kid piv = R.ok (nonce civ kid piv) := generateNonce_eq civ kid piv hk hp hc

/-- **The nonce determines Sender ID and Partial IV.**  For Partial IVs in minimal-length encoding (`pivMinimal`: not
empty, no leading zero byte except the single byte 0x00 for the value 0 — what every sender produces, D14.4), of any
lengths up to 5, and ids up to 7 bytes: different (kid, Partial IV) give different nonces under the same Common IV. -/
theorem nonce_injective (civ kid kid' piv piv' : Bytes) (hk : kid.length ≤ 7) (hk' : kid'.length ≤ 7)
    (hp : piv.length ≤ 5) (hp' : piv'.length ≤ 5) (mp : pivMinimal piv = true) (mp' : pivMinimal piv' = true)
    (hne : piv ≠ piv' ∨ kid ≠ kid') : nonce civ kid piv ≠ nonce civ kid' piv' := by
  intro h
  obtain ⟨h1, h2⟩ := nonce_inj civ kid kid' piv piv' hk hk' hp hp' mp mp' h
  rcases hne with hne | hne
  · exact hne h2
  · exact hne h1

/-- `pivBytes` (D14.4, libcoap's sender) is the minimal-length encoding, at most 5 bytes below 2^40, and one-to-one -/
theorem pivBytes_minimal_encoding (n : Nat) (h : n < 2 ^ 40) :
    pivMinimal (pivBytes n) = true ∧ (pivBytes n).length ≤ 5 ∧ ∀ m, m < 2 ^ 40 → pivBytes n = pivBytes m → n = m :=
  ⟨pivBytes_minimal n (by omega), pivBytes_length n h, fun m hm e => pivBytes_inj n m (by omega) (by omega) e⟩

/-- **The link for C15** ("distinct Partial IV ⇒ distinct nonce"): for sequence numbers below 2^40 encoded as the
sender encodes them, different sequence numbers or different Sender IDs give different nonces. -/
theorem distinct_piv_distinct_nonce (civ kid kid' : Bytes) (seq seq' : Nat) (hk : kid.length ≤ 7) (hk' : kid'.length ≤ 7)
    (hs : seq < 2 ^ 40) (hs' : seq' < 2 ^ 40) (hne : seq ≠ seq' ∨ kid ≠ kid') :
    nonce civ kid (pivBytes seq) ≠ nonce civ kid' (pivBytes seq') := by
  apply nonce_injective civ kid kid' _ _ hk hk' (pivBytes_length seq hs) (pivBytes_length seq' hs')
    (pivBytes_minimal seq (by omega)) (pivBytes_minimal seq' (by omega))
  rcases hne with hne | hne
  · exact Or.inl (fun e => hne (pivBytes_inj seq seq' (by omega) (by omega) e))
  · exact Or.inr hne

/-- … for a whole history: a sender context that never reuses a sequence number (C15's `piv_never_reused`) never
reuses a nonce. -/
theorem distinct_pivs_distinct_nonces (civ kid : Bytes) (seqs : List Nat) (hk : kid.length ≤ 7)
    (hs : ∀ s ∈ seqs, s < 2 ^ 40) (hd : seqs.Pairwise (· ≠ ·)) :
    (seqs.map fun s => nonce civ kid (pivBytes s)).Pairwise (· ≠ ·) := by
  rw [List.pairwise_map]
  induction seqs with
  | nil => exact List.Pairwise.nil
  | cons a l ih =>
    rw [List.pairwise_cons] at hd ⊢
    refine ⟨?_, ih (fun s h => hs s (by simp [h])) hd.2⟩
    intro b hb
    exact distinct_piv_distinct_nonce civ kid kid a b hk hk (hs a (by simp)) (hs b (by simp [hb])) (Or.inl (hd.1 b hb))

/-! ### M = S: option value, option split / merge -/

/-- libcoap's `oscore_encode_option_value` (M) is the §6.1 compression (S) whenever the value fits the buffer
(Partial IV ≤ 5 bytes; a kid context, if present, 1..255 bytes — D14.10), and `oscore_decode_option_value` (M) is
the §6.1 decompression (S) on every byte string: it rejects exactly when S does and returns the same fields. -/
theorem option_value_eq_spec :
    (∀ (bufLen : Nat) (piv : Bytes) (kidctx kid : Option Bytes), piv.length ≤ 5 →
        (∀ c, kidctx = some c → 0 < c.length ∧ c.length ≤ 255) →
        0 < bufLen → (optEncode ⟨piv, kidctx, kid⟩).length ≤ bufLen →
        M.Oscore.encodeOptionValue bufLen piv kidctx kid = R.ok (optEncode ⟨piv, kidctx, kid⟩)) ∧
    (∀ v : Bytes, M.Oscore.decodeOptionValue v =
        match optDecode v with
        | some o => R.ok ⟨o.piv, o.kidctx, o.kid⟩
        | none => R.rej) := by
  refine ⟨?_, decodeOptionValue_eq⟩
  intro bufLen piv kidctx kid hp hc hb hfit
  apply encodeOptionValue_eq bufLen piv kidctx kid hp hc
  unfold optEncode at hfit
  cases kidctx <;> cases kid <;> by_cases he : piv = [] <;> simp [he] at hfit ⊢ <;> omega

/-- libcoap's protect loop (M: `coap_insert_option` into the outer and the plain PDU, one option at a time) is the
class E / U filter of S, and its decrypt loop (M) is S's ordered merge — for every option list sorted by number
(every PDU is) without an OSCORE or Proxy-Uri option (D14.10), requests and responses. -/
theorem split_eq_spec :
    (∀ (req : Bool) (os : List Opt), os.Pairwise (fun a b => a.1 ≤ b.1) → (∀ o ∈ os, o.1 ≠ 9 ∧ o.1 ≠ 35) →
        M.Oscore.protectSplit req os = (outerOpts os, innerOpts req os)) ∧
    (∀ (piv : Bytes) (outer inner : List Opt), inner.Pairwise (fun a b => a.1 ≤ b.1) → (∀ o ∈ inner, o.1 ≠ 9) →
        M.Oscore.decryptMerge true piv outer inner = mergeOpts outer inner ∧
        M.Oscore.decryptMerge false piv outer inner =
          mergeOpts outer (inner.map fun o => if o.1 = optObserve then (o.1, last3 piv) else o)) := by
  refine ⟨protectSplit_eq, ?_⟩
  intro piv outer inner hs hno
  have hf : inner.filter (fun o => decide (o.1 ≠ 9)) = inner := by
    rw [List.filter_eq_self]; intro o ho; simpa using hno o ho
  constructor
  · rw [decryptMerge_eq true piv outer inner hs]
    unfold innerSeen
    rw [hf]
    simp
  · rw [decryptMerge_eq false piv outer inner hs]
    unfold innerSeen
    rw [hf]
    congr 1
    apply List.map_congr_left
    intro o _
    by_cases h6 : o.1 = 6 <;> simp [h6]

/-- libcoap's `compose_info` (M) builds the HKDF `info` structure of RFC 8613 §3.2.1 (S), for every id, ID Context
(absent or non-empty, D14.10), type string, length, and every algorithm id that fits libcoap's `uint8_t` -/
theorem info_eq_spec (alg : Nat) (id : Bytes) (idctx : Option Bytes) (type : Bytes) (L : Nat) (ha : alg < 256)
    (hc : idctx ≠ some []) : M.Oscore.composeInfo alg id idctx type L = info id idctx (alg : Int) type L := by
  have hm : alg % 256 = alg := Nat.mod_eq_of_lt ha
  have hi : cborInt (alg : Int) = cborHead 0 alg := by simp [cborInt]
  cases idctx with
  | none =>
    simp only [M.Oscore.composeInfo, info, M.Oscore.putArray, M.Oscore.putBytes, M.Oscore.putText, M.Oscore.putNil, cborArray, cborBstr,
      cborTstr, cborUint, cborNil, (orFirst_eq _).1, (orFirst_eq _).2.1, (orFirst_eq _).2.2.1, hm, hi]
    simp only [putUnsigned_eq]
  | some c =>
    have : c.length > 0 := by
      cases c with
      | nil => exact absurd rfl hc
      | cons _ _ => simp
    simp only [M.Oscore.composeInfo, info, M.Oscore.putArray, M.Oscore.putBytes, M.Oscore.putText, cborArray, cborBstr,
      cborTstr, cborUint, (orFirst_eq _).1, (orFirst_eq _).2.1, (orFirst_eq _).2.2.1, hm, hi, this, if_true]
    simp only [putUnsigned_eq]

/-- `split_merge_inverse` for responses: the outer options that survive §8.4 step 1, merged with the inner options
after the recipient has set the Observe value (`obs`; the sender blanked it, D14.3), are the original options with
that Observe value — for every sorted list without an OSCORE option. -/
theorem split_merge_inverse_response (os : List Opt) (ov obs : Bytes) (hs : os.Pairwise (fun a b => a.1 ≤ b.1))
    (hno : ∀ o ∈ os, o.1 ≠ optOscore) :
    mergeOpts (withOscore (outerOpts os) ov)
        ((innerOpts false os).map fun o => if o.1 = optObserve then (o.1, obs) else o) =
      os.map fun o => if o.1 = optObserve then (o.1, obs) else o :=
  split_merge_response os ov obs hs hno

/-! ### the round trip, requests and responses -/

/-- **Requests**: `unprotect ctxR (protect ctxS m) = ok m` with the sender's binding, for every block cipher, matching
contexts, every message with a code below 256 whose options are sorted by number, numbered ≤ 65535 and at most 65804
bytes long (what RFC 7252 §3.1 can carry), every sequence number, as long as the OSCORE option value fits its 255
bytes.  (That the message carries no OSCORE option and that `seq ≤ 2^40 − 2` follow from `protectRequest … = some r`.)
The inner option-codec round trip is `decPlain_encPlain` (from C01's 13/14-scheme lemmas). -/
theorem unprotect_protect_request (cipher : Bytes → Bytes → Bytes) (cS cR : Ctx) (m : Msg) (seq : Nat)
    (hm : Matching cS cR)
    (hsorted : m.opts.Pairwise (fun a b => a.1 ≤ b.1))
    (hcode : m.code < 256)
    (hwire : ∀ o ∈ m.opts, o.1 ≤ 65535 ∧ o.2.length ≤ 65804)
    (hopt : (optEncode ⟨pivBytes seq, cS.idctx, some cS.sid⟩).length ≤ 255) :
    ∀ r, protectRequest cipher cS m seq = some r → unprotectRequest cipher cR r.1 = .ok m r.2 := by
  intro r hr
  have hany : (m.opts.any fun o => decide (o.1 = optOscore)) = false := by
    cases h : (m.opts.any fun o => decide (o.1 = optOscore)) with
    | false => rfl
    | true => simp [protectRequest, h] at hr
  have hseq : seq ≤ maxSeq := by
    by_cases h : seq > maxSeq
    · simp [protectRequest, hany, h] at hr
    · omega
  have hno : ∀ o ∈ m.opts, o.1 ≠ optOscore := by
    intro o ho; have := List.any_eq_false.mp hany o ho; simpa using this
  have hpiv : (pivBytes seq).length ≤ 5 := pivBytes_length seq (by unfold maxSeq at hseq; omega)
  exact unprotect_protect_request_of_plain cipher cS cR m seq hm hsorted hno hseq hpiv hopt
    (decPlain_encPlain m.code _ m.payload hcode (innerOpts_wire true m.opts hsorted hwire)) r hr

/-- **Responses**: the recipient of `protectResponse … m` (same binding `b` on both sides: the request's kid, Partial
IV and nonce) recovers `m` with the Observe value the recipient derives from the Partial IV (`normalize`, D14.3) —
the response's own Partial IV if it carries one (`seq = some n`, fresh nonce), else the request's (request nonce
used) — BOTH forms RFC 8613 §8.3 allows, whichever the sender chose; which one it chooses is D14.5
(`unprotect_protect_response_for` below).  Type and message id are outside the protected content (D14.7: `sepMid`), they
are the outer message's.  For every cipher, matching contexts, binding, code < 256, encodable sorted options. -/
theorem unprotect_protect_response (cipher : Bytes → Bytes → Bytes) (cS cR : Ctx) (b : Binding) (m : Msg)
    (seq : Option Nat) (sepMid : Option Nat)
    (hm : Matching cS cR)
    (hsorted : m.opts.Pairwise (fun a b => a.1 ≤ b.1))
    (hcode : m.code < 256)
    (hwire : ∀ o ∈ m.opts, o.1 ≤ 65535 ∧ o.2.length ≤ 65804) :
    ∀ r, protectResponse cipher cS b m seq sepMid = some r →
      unprotectResponse cipher cR (some b) r =
        .ok { normalize false (match seq with | some n => pivBytes n | none => b.piv) m with type := r.type, mid := r.mid } b := by
  obtain ⟨h1, h2, h3, h4, h5⟩ := hm
  intro r hr
  have hany : (m.opts.any fun o => decide (o.1 = optOscore)) = false := by
    cases h : (m.opts.any fun o => decide (o.1 = optOscore)) with
    | false => rfl
    | true => simp [protectResponse, h] at hr
  have hno : ∀ o ∈ m.opts, o.1 ≠ optOscore := by
    intro o ho; have := List.any_eq_false.mp hany o ho; simpa using this
  have hplain := decPlain_encPlain m.code _ m.payload hcode (innerOpts_wire false m.opts hsorted hwire)
  cases seq with
  | none =>
    unfold protectResponse at hr
    simp only [hany, if_false, Bool.false_eq_true] at hr
    injection hr with hr
    subst hr
    unfold unprotectResponse
    simp only [oscoreValue_withOscore _ _ (outerOpts_no_oscore m.opts), aeadSeal_ne_nil, if_false]
    rw [option_value_roundtrip ⟨[], none, none⟩ (by simp) (by simp [optEncode])]
    simp only [h2, h5, if_true, aeadOpen_aeadSeal, hplain]
    simp only [obsSet_lambda, split_merge_response m.opts _ _ hsorted hno, normalize]
    rfl
  | some n =>
    have hseq : n ≤ maxSeq := by
      by_cases h : n > maxSeq
      · simp [protectResponse, hany, h] at hr
      · omega
    have hs : ¬ n > maxSeq := by omega
    have hlen : (pivBytes n).length ≤ 5 := pivBytes_length n (by unfold maxSeq at hseq; omega)
    have hne : pivBytes n ≠ [] := pivBytes_ne_nil n (by unfold maxSeq at hseq; omega)
    unfold protectResponse at hr
    simp only [hany, hs, decide_false, if_false, Bool.false_eq_true] at hr
    injection hr with hr
    subst hr
    unfold unprotectResponse
    simp only [oscoreValue_withOscore _ _ (outerOpts_no_oscore m.opts), aeadSeal_ne_nil, if_false]
    rw [option_value_roundtrip ⟨pivBytes n, none, none⟩ hlen (by simp [optEncode, hne]; omega)]
    simp only [h1, h2, h3, h5, hne, if_false, aeadOpen_aeadSeal, hplain]
    simp only [obsSet_lambda, split_merge_response m.opts _ _ hsorted hno, normalize]
    rfl

/-- **Responses under D14.5** (`protectResponseFor`: what the server really sends): the response carries its own Partial
IV iff the caller asks for it, or it carries Observe, or the request it answers carried Observe (`ownPiv`); the client
recovers the message either way — through the own-Partial-IV branch of §8.4 in the first case (Observe value = the low
bytes of the RESPONSE's Partial IV `pivBytes seq`), through the request-nonce branch in the second. -/
theorem unprotect_protect_response_for (cipher : Bytes → Bytes → Bytes) (cS cR : Ctx) (b : Binding) (reqObserve : Bool)
    (m : Msg) (ask : Bool) (seq : Nat) (sepMid : Option Nat)
    (hm : Matching cS cR)
    (hsorted : m.opts.Pairwise (fun a b => a.1 ≤ b.1))
    (hcode : m.code < 256)
    (hwire : ∀ o ∈ m.opts, o.1 ≤ 65535 ∧ o.2.length ≤ 65804) :
    ∀ r, protectResponseFor cipher cS b reqObserve m ask seq sepMid = some r →
      unprotectResponse cipher cR (some b) r =
        .ok { normalize false (if ownPiv ask reqObserve m then pivBytes seq else b.piv) m with type := r.type, mid := r.mid } b := by
  intro r hr
  unfold protectResponseFor at hr
  have := unprotect_protect_response cipher cS cR b m _ sepMid hm hsorted hcode hwire r hr
  rw [this]
  cases ownPiv ask reqObserve m <;> rfl

/-- **The nonce of an Observe request protects no response** (D14.5; RFC 8613 §5.2 / §8.3: the nonce of a request at most
once — and the binding of an Observe request stays, D14.16).  A response to a request that carried an Observe option —
notification or not, asked for a Partial IV or not, whatever its code — (1) is the §8.3 message with its OWN Partial IV
`pivBytes seq`, i.e. protected under the nonce of the server's Sender ID and ITS sequence number; (2) does not depend on the
nonce of the request at all (any other value in the binding gives the same bytes); (3) its OSCORE option carries that
Partial IV (not empty).  For every cipher, context, binding, message and sequence number. -/
theorem observe_request_response_own_piv (cipher : Bytes → Bytes → Bytes) (c : Ctx) (b : Binding) (m : Msg) (ask : Bool)
    (seq : Nat) (sepMid : Option Nat) :
    protectResponseFor cipher c b true m ask seq sepMid = protectResponse cipher c b m (some seq) sepMid ∧
    (∀ n', protectResponseFor cipher c { b with nonce := n' } true m ask seq sepMid =
      protectResponseFor cipher c b true m ask seq sepMid) ∧
    (∀ r, protectResponseFor cipher c b true m ask seq sepMid = some r →
      oscoreValue r.opts = some (optEncode ⟨pivBytes seq, none, none⟩) ∧ pivBytes seq ≠ [] ∧
      r.payload = aeadSeal cipher c.senderKey (nonce c.commonIV c.sid (pivBytes seq)) (aad c.alg b.kid b.piv)
        (encPlain m.code (innerOpts false m.opts) m.payload)) := by
  have h1 : protectResponseFor cipher c b true m ask seq sepMid = protectResponse cipher c b m (some seq) sepMid := by
    unfold protectResponseFor ownPiv
    simp
  refine ⟨h1, ?_, ?_⟩
  · intro n'
    have h2 : protectResponseFor cipher c { b with nonce := n' } true m ask seq sepMid =
        protectResponse cipher c { b with nonce := n' } m (some seq) sepMid := by
      unfold protectResponseFor ownPiv
      simp
    rw [h1, h2]
    unfold protectResponse
    rfl
  · intro r hr
    rw [h1] at hr
    have hany : (m.opts.any fun o => decide (o.1 = optOscore)) = false := by
      cases h : (m.opts.any fun o => decide (o.1 = optOscore)) with
      | false => rfl
      | true => simp [protectResponse, h] at hr
    have hseq : seq ≤ maxSeq := by
      by_cases h : seq > maxSeq
      · simp [protectResponse, hany, h] at hr
      · omega
    have hs : ¬ seq > maxSeq := by omega
    have hne : pivBytes seq ≠ [] := pivBytes_ne_nil seq (by unfold maxSeq at hseq; omega)
    unfold protectResponse at hr
    simp only [hany, hs, decide_false, if_false, Bool.false_eq_true] at hr
    injection hr with hr
    subst hr
    exact ⟨oscoreValue_withOscore _ _ (outerOpts_no_oscore m.opts), hne, rfl⟩

/-- the other half of D14.5: a response to a request WITHOUT Observe that carries no Observe itself and for which no Partial
IV is asked uses the nonce of the request (and no sequence number) — `request_nonce_at_most_once` below shows it is the
only one -/
theorem plain_response_request_nonce (cipher : Bytes → Bytes → Bytes) (c : Ctx) (b : Binding) (m : Msg) (seq : Nat)
    (sepMid : Option Nat) (h : hasObserve m.opts = false) :
    protectResponseFor cipher c b false m false seq sepMid = protectResponse cipher c b m none sepMid := by
  unfold protectResponseFor ownPiv
  simp [h]

/-- **`unprotect ∘ protect`, both directions**, for every block cipher, matching contexts (Sender ID + ID Context short
enough for the 255-byte OSCORE option: ≤ 248 bytes together), every message with code < 256 and encodable sorted
options: a protected request is recovered exactly, a protected response is recovered up to the Observe value the
recipient derives (D14.3) and the outer type / message id (D14.7) — in either §8.3 form, and in the form D14.5 selects
(own Partial IV whenever the request carried Observe). -/
theorem unprotect_protect (cipher : Bytes → Bytes → Bytes) (cS cR : Ctx) (m : Msg)
    (hm : Matching cS cR)
    (hsorted : m.opts.Pairwise (fun a b => a.1 ≤ b.1))
    (hcode : m.code < 256)
    (hwire : ∀ o ∈ m.opts, o.1 ≤ 65535 ∧ o.2.length ≤ 65804)
    (hid : cS.sid.length + (cS.idctx.getD []).length ≤ 248) :
    (∀ seq r, protectRequest cipher cS m seq = some r → unprotectRequest cipher cR r.1 = .ok m r.2) ∧
    (∀ b seq sepMid r, protectResponse cipher cS b m seq sepMid = some r →
      unprotectResponse cipher cR (some b) r =
        .ok { normalize false (match seq with | some n => pivBytes n | none => b.piv) m with type := r.type, mid := r.mid } b) ∧
    (∀ b reqObserve ask seq sepMid r, protectResponseFor cipher cS b reqObserve m ask seq sepMid = some r →
      unprotectResponse cipher cR (some b) r =
        .ok { normalize false (if ownPiv ask reqObserve m then pivBytes seq else b.piv) m with type := r.type, mid := r.mid } b) := by
  refine ⟨?_, fun b seq sepMid => unprotect_protect_response cipher cS cR b m seq sepMid hm hsorted hcode hwire,
    fun b o ask seq sepMid => unprotect_protect_response_for cipher cS cR b o m ask seq sepMid hm hsorted hcode hwire⟩
  intro seq r hr
  have hseq : seq ≤ maxSeq := by
    by_cases h : seq > maxSeq
    · by_cases h' : (m.opts.any fun o => decide (o.1 = optOscore)) = true <;> simp [protectRequest, h, h'] at hr
    · omega
  have hpiv : (pivBytes seq).length ≤ 5 := pivBytes_length seq (by unfold maxSeq at hseq; omega)
  refine unprotect_protect_request cipher cS cR m seq hm hsorted hcode hwire ?_ r hr
  unfold optEncode
  cases hc : cS.idctx with
  | none => simp [hc] at hid ⊢; omega
  | some c => simp [hc] at hid ⊢; omega

/-! ### sequences of exchanges on one client / server pair: the association of a token (D14.15 - D14.17) -/

/-- **The client's binding of a token is that of the latest request sent with it** — for every sequence of events at the
client (`send`: it protects a request, with a fresh or a re-used token; `recv`: any datagram arrives — the genuine response,
a late one to a superseded request, a duplicate, a forgery; a lost response is no event), by induction over the step list:
(1) whatever binding the store holds for a token `t` is the (kid, Partial IV, nonce) of the latest successfully protected
request with `t`; (2) right after protecting a request the store holds exactly that request's binding for its token,
whatever was there before (a re-used token is re-bound: RFC 8613 §8.3/§8.4, §4.1.3.5.1). -/
theorem association_tracks_latest_request (cipher : Bytes → Bytes → Bytes) (c : Ctx) (steps : List CStep) :
    (∀ t e, sFind (clientRun cipher c [] steps) t = some e → latestRequest cipher c steps t = some e.b) ∧
    (∀ m seq pm b, protectRequest cipher c m seq = some (pm, b) →
      sFind (clientRun cipher c [] (steps ++ [.send m seq])) m.token =
        some ⟨m.token, b, isRegistration m.opts, hasObserve m.opts⟩ ∧
      latestRequest cipher c (steps ++ [.send m seq]) m.token = some b) := by
  refine ⟨fun t e he => ((SInv_clientRun cipher c steps) t e he).1, ?_⟩
  intro m seq pm b hp
  constructor
  · unfold clientRun
    rw [List.foldl_append, List.foldl_cons, List.foldl_nil, clientStep_send_some cipher c _ m seq pm b hp, sFind_sSet]
    simp
  · unfold latestRequest
    rw [List.foldl_append, List.foldl_cons, List.foldl_nil, trackStep_send_some cipher c _ m seq pm b hp]
    simp

/-- **The same for libcoap's association list (M)**: for every sequence of `protect` (the tail of
`coap_oscore_new_pdu_encrypted_lkd` for a request: association found → refreshed, else created) and `decrypt` steps (the
association part of `coap_oscore_decrypt_pdu` for a response, verified or not), every association holds the `aad`, `nonce`
and `partial_iv` of the latest `protect` step with its token — in particular after a re-use of the token (all three fields
are replaced: with a stale `partial_iv` the AAD rebuilt for the response would be that of the superseded request). -/
theorem association_tracks_latest_request_impl (steps : List M.Oscore.AStep) :
    (∀ t a, M.Oscore.findAssoc (M.Oscore.assocRun [] steps) t = some a →
      M.Oscore.assocLatest steps t = some (a.aad, a.nonce, a.piv)) ∧
    (∀ t aad nonce piv o v, ∃ a,
      M.Oscore.findAssoc (M.Oscore.assocRun [] (steps ++ [.protect t aad nonce piv o v])) t = some a ∧
        a.aad = aad ∧ a.nonce = nonce ∧ a.piv = piv) := by
  constructor
  · have h0 : AInv [] (fun _ => none) := by
      intro t a ha
      simp [M.Oscore.findAssoc] at ha
    exact AInv_run steps [] (fun _ => none) h0
  · intro t aad nonce piv o v
    unfold M.Oscore.assocRun
    rw [List.foldl_append, List.foldl_cons, List.foldl_nil]
    exact (findAssoc_protect _ t aad nonce piv o v t).1 rfl

/-- what libcoap's client feeds the AEAD with for a response under association `a` (M: the stored nonce or one generated
from the response's Partial IV, and an AAD **rebuilt** from the Sender ID and the stored `partial_iv`) is what §8.4 says for
the binding ⟨Sender ID, `a.piv`, `a.nonce`⟩ (S, `unprotectResponse`) — ids ≤ 7 bytes, Partial IV ≤ 5 bytes, Common IV ≥ 13. -/
theorem response_inputs_eq_spec (alg : Int) (civ sid rid : Bytes) (a : M.Oscore.Assoc) (rpiv : Bytes)
    (hr : rid.length ≤ 7) (hp : rpiv.length ≤ 5) (hc : 13 ≤ civ.length) :
    M.Oscore.responseInputs alg civ sid rid a rpiv =
      R.ok (if rpiv = [] then a.nonce else nonce civ rid rpiv, aad alg sid a.piv) := by
  unfold M.Oscore.responseInputs
  rw [(aad_eq_spec alg sid a.piv).2]
  by_cases h : rpiv = []
  · simp [h]
  · have : ¬ rpiv.length = 0 := fun x => h (List.eq_nil_of_length_eq_zero x)
    simp only [this, h, if_false]
    rw [nonce_eq_spec civ rid rpiv hr hp hc]

/-- a response that does not verify changes nothing (D14.16, §8.4 "the client SHALL stop processing the response"): the
binding of its token is still there for the genuine response — in S, and in M (`coap_oscore_decrypt_pdu` after fix 7bc4d64) -/
theorem rejected_response_keeps_binding (cipher : Bytes → Bytes → Bytes) (c : Ctx) (st : Store) (r : Msg) :
    ((∀ m b, (clientRecv cipher c st r).1 ≠ .ok m b) → (clientRecv cipher c st r).2 = st) ∧
    (∀ (as : List M.Oscore.Assoc) (t : Bytes), M.Oscore.decryptAssoc as t false = as) := by
  constructor
  · intro h
    unfold clientRecv at h ⊢
    cases hf : sFind st r.token with
    | none => rfl
    | some e =>
      simp only [hf] at h ⊢
      cases hv : unprotectResponse cipher c (some e.b) r with
      | plain => rfl
      | rej => rfl
      | ok m b =>
        simp only [hv] at h
        exact absurd rfl (h m b)
  · intro as t
    unfold M.Oscore.decryptAssoc
    cases M.Oscore.findAssoc as t <;> simp

/-- **Round trip over sequences.**  For every sequence of events at the client (requests with fresh and re-used tokens,
responses lost, late, duplicated, forged — `steps` is arbitrary) and every token `t` the client holds a binding `e` for
afterwards: (1) `e.b` is the binding of the latest request sent with `t`, that request is in the sequence, and the server
that verifies it obtains the same message and the same binding (`unprotect_protect_request`); (2) every response the server
protects for that request — with or without its own Partial IV (both §8.3 forms: the client does not rely on D14.5),
whatever the message — is accepted by the client and yields the server's message (`unprotect_protect_response`), and the
binding is consumed unless the request was an Observe registration.  `sequence_roundtrip_server` below adds the server's
side: which form it sends (D14.5) and what that does to ITS binding.  Matching contexts in both directions; the requests sent are encodable (sorted options, code < 256, OSCORE
option ≤ 255 bytes). -/
theorem sequence_roundtrip (cipher : Bytes → Bytes → Bytes) (cC cS : Ctx) (hCS : Matching cC cS) (hSC : Matching cS cC)
    (steps : List CStep)
    (hwf : ∀ m seq, CStep.send m seq ∈ steps →
      m.opts.Pairwise (fun a b => a.1 ≤ b.1) ∧ m.code < 256 ∧ (∀ o ∈ m.opts, o.1 ≤ 65535 ∧ o.2.length ≤ 65804) ∧
      (optEncode ⟨pivBytes seq, cC.idctx, some cC.sid⟩).length ≤ 255)
    (t : Bytes) (e : Entry) (he : sFind (clientRun cipher cC [] steps) t = some e) :
    (∃ m seq pm, CStep.send m seq ∈ steps ∧ m.token = t ∧ protectRequest cipher cC m seq = some (pm, e.b) ∧
        latestRequest cipher cC steps t = some e.b ∧ e.keep = isRegistration m.opts ∧ e.observe = hasObserve m.opts ∧
        unprotectRequest cipher cS pm = .ok m e.b) ∧
    (∀ (rm : Msg) (rseq sepMid : Option Nat) (r : Msg), rm.token = t →
        rm.opts.Pairwise (fun a b => a.1 ≤ b.1) → rm.code < 256 → (∀ o ∈ rm.opts, o.1 ≤ 65535 ∧ o.2.length ≤ 65804) →
        protectResponse cipher cS e.b rm rseq sepMid = some r →
        clientRecv cipher cC (clientRun cipher cC [] steps) r =
          (.ok { normalize false (match rseq with | some n => pivBytes n | none => e.b.piv) rm with type := r.type, mid := r.mid } e.b,
           if e.keep then clientRun cipher cC [] steps else sDel (clientRun cipher cC [] steps) t)) := by
  obtain ⟨hl, m, seq, pm, hmem, htok, hp, hkeep⟩ := (SInv_clientRun cipher cC steps) t e he
  obtain ⟨h1, h2, h3, h4⟩ := hwf m seq hmem
  constructor
  · exact ⟨m, seq, pm, hmem, htok, hp, hl, hkeep.1, hkeep.2,
      unprotect_protect_request cipher cC cS m seq hCS h1 h2 h3 h4 (pm, e.b) hp⟩
  · intro rm rseq sepMid r hrt hs hc hw hr
    have htr : r.token = t := (protectResponse_token cipher cS e.b rm rseq sepMid r hr).trans hrt
    have hv := unprotect_protect_response cipher cS cC e.b rm rseq sepMid hSC hs hc hw r hr
    unfold clientRecv
    rw [htr, he]
    simp only [hv]

/-- **A request that does not verify changes nothing** (D14.15 / D14.16 / D14.19, §8.2 "stop processing the request"):
whatever is bound — to its token or to any other — stays bound as it was, so the response to an outstanding genuine request
is still protected with THAT request's nonce, AAD and context.  In S at a server with one context and with several, and in
M (`coap_oscore_decrypt_pdu` after fix b3c6528: the association is created / refreshed after the AEAD has accepted; the
old order replaced nonce, AAD, Partial IV and recipient context of the token's association by the forged request's). -/
theorem rejected_request_keeps_bindings (cipher : Bytes → Bytes → Bytes) (c : Ctx) (cs : List Ctx) :
    (∀ (st : Store) (pm : Msg), (∀ m b, (serverRecv cipher c st pm).1 ≠ .ok m b) → (serverRecv cipher c st pm).2 = st) ∧
    (∀ (st : CStore) (pm : Msg), (∀ m b, (serverRecvAny cipher cs st pm).1 ≠ .ok m b) → (serverRecvAny cipher cs st pm).2 = st) ∧
    (∀ (s : M.Oscore.Srv) (t : Bytes) (pos : M.Oscore.RPos) (aad nonce piv : Bytes) (o : Bool),
      (M.Oscore.srvDecrypt s t pos aad nonce piv false o).as = s.as) := by
  refine ⟨?_, ?_, fun s t pos aad nonce piv o => rfl⟩
  · intro st pm h
    unfold serverRecv at h ⊢
    cases hv : unprotectRequest cipher c pm with
    | plain => rfl
    | rej => rfl
    | ok m b =>
      simp only [hv] at h
      exact absurd rfl (h m b)
  · intro st pm h
    unfold serverRecvAny at h ⊢
    split
    · rename_i x b c0 hx hsel
      simp only [hx, hsel] at h
      exact absurd rfl (h x b)
    · rfl

/-- **The nonce of a request protects at most one response** (RFC 8613 §5.2 / §8.3 step 3; D14.5 + D14.16).  The server
verifies request `pm` and protects a response `rm` for its token; `o` = the `observe` mark of the binding (`sObs`: set when the
request carries Observe — `o_of_observe` —, inherited when it re-uses the token of a marked binding, otherwise — fresh token,
unmarked binding — exactly "the request carries Observe").  EITHER the response carries its own Partial IV (fresh nonce from
the server's Sender Sequence Number — always so for a marked binding), OR it is protected with the nonce of the request and
then the binding is gone: no further response can be protected for that token until a new request with it has been verified
(which brings its own nonce).  For every cipher, context, prior store, request and response. -/
theorem request_nonce_at_most_once (cipher : Bytes → Bytes → Bytes) (c : Ctx) (st : Store) (pm m : Msg) (b : Binding)
    (st1 : Store) (hrecv : serverRecv cipher c st pm = (.ok m b, st1))
    (rm : Msg) (ask : Bool) (seq : Nat) (sepMid : Option Nat) (r : Msg) (st2 : Store) (htok : rm.token = pm.token)
    (hsend : serverSend cipher c st1 rm ask seq sepMid = some (r, st2)) :
    (hasObserve m.opts = true → sObs st pm.token m.opts = true) ∧
    (sFind st pm.token = none → sObs st pm.token m.opts = hasObserve m.opts) ∧
    ((ownPiv ask (sObs st pm.token m.opts) rm = true ∧ protectResponse cipher c b rm (some seq) sepMid = some r) ∨
     (ownPiv ask (sObs st pm.token m.opts) rm = false ∧ hasObserve m.opts = false ∧
       protectResponse cipher c b rm none sepMid = some r ∧ sFind st2 pm.token = none ∧
       ∀ rm' ask' seq' sepMid', rm'.token = pm.token → serverSend cipher c st2 rm' ask' seq' sepMid' = none)) := by
  refine ⟨fun h => by simp [sObs, h], fun h => by simp [sObs, h], ?_⟩
  unfold serverRecv at hrecv
  cases hv : unprotectRequest cipher c pm with
  | plain => simp [hv] at hrecv
  | rej => simp [hv] at hrecv
  | ok m0 b0 =>
    simp only [hv, Prod.mk.injEq, Verdict.ok.injEq] at hrecv
    obtain ⟨⟨hm0, hb0⟩, hst⟩ := hrecv
    subst hm0 hb0 hst
    generalize hob : sObs st pm.token m0.opts = ob at *
    have hfind : sFind (sSet st ⟨pm.token, b0, ob, ob⟩) rm.token = some ⟨pm.token, b0, ob, ob⟩ := by
      rw [sFind_sSet]; simp [htok]
    unfold serverSend at hsend
    rw [hfind] at hsend
    simp only at hsend
    cases hp : protectResponseFor cipher c b0 ob rm ask seq sepMid with
    | none => simp [hp] at hsend
    | some r0 =>
      simp only [hp, Option.some.injEq, Prod.mk.injEq] at hsend
      obtain ⟨hr0, hst2⟩ := hsend
      subst hr0
      unfold protectResponseFor at hp
      cases hown : ownPiv ask ob rm with
      | true =>
        left
        simp only [hown, if_true] at hp
        exact ⟨rfl, hp⟩
      | false =>
        right
        simp only [hown, if_false, Bool.false_eq_true] at hp
        have hobf : ob = false := by
          unfold ownPiv at hown
          simp only [Bool.or_eq_false_iff] at hown
          exact hown.2
        have hobs : hasObserve m0.opts = false := by
          rw [hobf] at hob
          unfold sObs at hob
          simp only [Bool.or_eq_false_iff] at hob
          exact hob.1
        rw [hobf] at hst2
        simp only [Bool.false_eq_true, if_false] at hst2
        have hnone : sFind st2 pm.token = none := by
          rw [← hst2, htok, sFind_sDel]; simp
        refine ⟨rfl, hobs, hp, hnone, ?_⟩
        intro rm' ask' seq' sepMid' ht'
        unfold serverSend
        rw [ht', hnone]

/-- **Round trip over sequences, the server's side under D14.5.**  In the situation of `sequence_roundtrip` (any event
history at the client, `e` = what it holds for token `t` afterwards) the server — whatever ITS store `sst` held before —
verifies the latest request `pm` with `t`, and every response `rm` it then protects for `t` through `serverSend` (D14.5 decides
the form: own Partial IV iff asked for, or `rm` carries Observe, or the binding is marked `observe`: the REQUEST carried
Observe, or re-used the token of a marked binding) is accepted by the client and yields the server's message, with the Observe
value taken from the Partial IV D14.5 selects. -/
theorem sequence_roundtrip_server (cipher : Bytes → Bytes → Bytes) (cC cS : Ctx) (hCS : Matching cC cS) (hSC : Matching cS cC)
    (steps : List CStep)
    (hwf : ∀ m seq, CStep.send m seq ∈ steps →
      m.opts.Pairwise (fun a b => a.1 ≤ b.1) ∧ m.code < 256 ∧ (∀ o ∈ m.opts, o.1 ≤ 65535 ∧ o.2.length ≤ 65804) ∧
      (optEncode ⟨pivBytes seq, cC.idctx, some cC.sid⟩).length ≤ 255)
    (t : Bytes) (e : Entry) (he : sFind (clientRun cipher cC [] steps) t = some e) (sst : Store) :
    ∃ m seq pm, CStep.send m seq ∈ steps ∧ m.token = t ∧ protectRequest cipher cC m seq = some (pm, e.b) ∧
      (serverRecv cipher cS sst pm).1 = .ok m e.b ∧
      (hasObserve m.opts = true → sObs sst t m.opts = true) ∧ (sFind sst t = none → sObs sst t m.opts = hasObserve m.opts) ∧
      ∀ (rm : Msg) (ask : Bool) (sseq : Nat) (sepMid : Option Nat) (r : Msg) (sst2 : Store), rm.token = t →
        rm.opts.Pairwise (fun a b => a.1 ≤ b.1) → rm.code < 256 → (∀ o ∈ rm.opts, o.1 ≤ 65535 ∧ o.2.length ≤ 65804) →
        serverSend cipher cS (serverRecv cipher cS sst pm).2 rm ask sseq sepMid = some (r, sst2) →
        clientRecv cipher cC (clientRun cipher cC [] steps) r =
          (.ok { normalize false (if ownPiv ask (sObs sst t m.opts) rm then pivBytes sseq else e.b.piv) rm with
                   type := r.type, mid := r.mid } e.b,
           if e.keep then clientRun cipher cC [] steps else sDel (clientRun cipher cC [] steps) t) := by
  obtain ⟨⟨m, seq, pm, hmem, htok, hp, _, _, _, hu⟩, hresp⟩ := sequence_roundtrip cipher cC cS hCS hSC steps hwf t e he
  have hpt : pm.token = t := (protectRequest_token cipher cC m seq (pm, e.b) hp).trans htok
  have hrecv : serverRecv cipher cS sst pm =
      (.ok m e.b, sSet sst ⟨pm.token, e.b, sObs sst pm.token m.opts, sObs sst pm.token m.opts⟩) := by
    unfold serverRecv
    simp only [hu]
  refine ⟨m, seq, pm, hmem, htok, hp, by rw [hrecv], fun h => by simp [sObs, h], fun h => by simp [sObs, h], ?_⟩
  intro rm ask sseq sepMid r sst2 hrt hs hc hw hsend
  rw [hrecv, hpt] at hsend
  unfold serverSend at hsend
  have hfind : sFind (sSet sst ⟨t, e.b, sObs sst t m.opts, sObs sst t m.opts⟩) rm.token =
      some ⟨t, e.b, sObs sst t m.opts, sObs sst t m.opts⟩ := by
    rw [sFind_sSet]; simp [hrt]
  simp only [hfind] at hsend
  cases hpr : protectResponseFor cipher cS e.b (sObs sst t m.opts) rm ask sseq sepMid with
  | none => simp [hpr] at hsend
  | some r0 =>
    simp only [hpr, Option.some.injEq, Prod.mk.injEq] at hsend
    rw [← hsend.1]
    unfold protectResponseFor at hpr
    have := hresp rm _ sepMid r0 hrt hs hc hw hpr
    rw [this]
    cases ownPiv ask (sObs sst t m.opts) rm <;> rfl

/-! ### Several security contexts at the recipient of a request (D14.18; S: Spec/OscoreCtx.lean, M: Model/OscoreCtx.lean) -/

/-- **M = S for the context lookup.**  libcoap's `oscore_find_context` (two nested loops with the mismatch counter `ok`,
called by `coap_oscore_decrypt_pdu` with the request's kid and kid context — absent = empty) returns the position of the
FIRST (context, recipient) pair of the store, in list / chain order, that the request names in the sense of D14.18 —
for every store (any number of contexts, any recipient chains, ID Contexts present, empty or absent), every kid and kid
context; and the Appendix B.2 call without a kid context returns the first pair with that Recipient ID. -/
theorem find_context_eq_spec (cs : M.Oscore.CtxStore) (v : OptVal) (kid : Bytes) (hk : v.kid = some kid) :
    M.Oscore.findContext cs kid (some (v.kidctx.getD [])) none =
      ((positions cs).find? fun p => namesId v p.rid p.idctx).map (fun p => (p.i, p.j)) ∧
    M.Oscore.findContext cs kid none none =
      ((positions cs).find? fun p => decide (p.rid = kid)).map (fun p => (p.i, p.j)) := by
  constructor
  · unfold M.Oscore.findContext positions
    apply findFrom_eq
    intro p
    rw [mismatch_zero_iff]
    simp only [namesId, hk, Option.some.injEq, Bool.and_eq_true, decide_eq_true_eq]
    constructor
    · rintro ⟨h1, h2⟩; exact ⟨h1.symm, h2.symm⟩
    · rintro ⟨h1, h2⟩; exact ⟨h1.symm, h2.symm⟩
  · unfold M.Oscore.findContext positions
    apply findFrom_eq
    intro p
    rw [mismatch_zero_iff_nokc]
    simp

/-- S's retrieval (§8.2 step 2) over the derived contexts of libcoap's store, listed in store order, picks the context
of the very pair `find_context_eq_spec` says `oscore_find_context` returns (`mk p` = the context derived for the pair
`p`: any function that keeps Recipient ID and ID Context). -/
theorem select_ctx_eq_find_context (cs : M.Oscore.CtxStore) (v : OptVal) (mk : Pos → Ctx)
    (hmk : ∀ p, (mk p).rid = p.rid ∧ (mk p).idctx = p.idctx) :
    selectCtx ((positions cs).map mk) v = ((positions cs).find? fun p => namesId v p.rid p.idctx).map mk := by
  unfold selectCtx
  rw [List.find?_map]
  have hf : (names v ∘ mk) = fun p => namesId v p.rid p.idctx := by
    funext p; simp [names, (hmk p).1, (hmk p).2]
  rw [hf]

/-- **A context the request does not name is never selected** ("use of a different context"): what
`oscore_find_context` returns is a recipient whose id IS the kid, in a context whose ID Context IS the kid context. -/
theorem find_context_sound (cs : M.Oscore.CtxStore) (kid kc : Bytes) (i j : Nat)
    (h : M.Oscore.findContext cs kid (some kc) none = some (i, j)) :
    ∃ c, cs[i]? = some c ∧ c.rcps[j]? = some kid ∧ c.idctx.getD [] = kc := by
  have he := (find_context_eq_spec cs ⟨[], some kc, some kid⟩ kid rfl).1
  simp only [Option.getD_some] at he
  rw [he] at h
  cases hf : (positions cs).find? (fun p => namesId ⟨[], some kc, some kid⟩ p.rid p.idctx) with
  | none => simp [hf] at h
  | some p =>
    simp only [hf, Option.map_some, Option.some.injEq, Prod.mk.injEq] at h
    have hm := (mem_positions cs p).mp (List.mem_of_find?_eq_some hf)
    have hp := List.find?_some hf
    simp only [namesId, Option.some.injEq, Option.getD_some, Bool.and_eq_true, decide_eq_true_eq] at hp
    obtain ⟨c, h1, h2, h3⟩ := hm
    refine ⟨c, by rw [← h.1]; exact h1, by rw [← h.2, hp.1]; exact h3, by rw [← h2]; exact hp.2.symm⟩

/-- … and a request that names no pair of the store finds nothing (libcoap answers 4.01 "Security context not found"
and returns NULL: no handler runs). -/
theorem find_context_none_iff (cs : M.Oscore.CtxStore) (kid kc : Bytes) :
    M.Oscore.findContext cs kid (some kc) none = none ↔
      ∀ p ∈ positions cs, ¬ (p.rid = kid ∧ p.idctx.getD [] = kc) := by
  have he := (find_context_eq_spec cs ⟨[], some kc, some kid⟩ kid rfl).1
  simp only [Option.getD_some] at he
  rw [he, Option.map_eq_none_iff, List.find?_eq_none]
  constructor
  · intro h p hp hc
    apply h p hp
    simp [namesId, hc.1, hc.2]
  · intro h p hp hc
    apply h p hp
    simp only [namesId, Option.some.injEq, Option.getD_some, Bool.and_eq_true, decide_eq_true_eq] at hc
    exact ⟨hc.1.symm, hc.2.symm⟩

/-- **Every held context is found by the requests that name it.**  On an unambiguous store (D14.18) — any number of
contexts and recipients, equal Recipient IDs (also the empty one) under different ID Contexts, equal ID Contexts with
different Recipient IDs — the lookup for (kid, kid context) returns exactly the pair (i, j) whose Recipient ID is the kid
and whose ID Context is the kid context, wherever it is in the store and whatever was looked at before it.  (A
transcription in which the mismatch counter is not reset for every recipient does not satisfy this: example below.) -/
theorem find_context_complete (cs : M.Oscore.CtxStore) (hu : StoreUnambiguous cs) (kid kc : Bytes) (i j : Nat)
    (c : M.Oscore.OscCtx) (hc : cs[i]? = some c) (hj : c.rcps[j]? = some kid) (hid : c.idctx.getD [] = kc) :
    M.Oscore.findContext cs kid (some kc) none = some (i, j) := by
  have he := (find_context_eq_spec cs ⟨[], some kc, some kid⟩ kid rfl).1
  simp only [Option.getD_some] at he
  rw [he]
  have hmem : (⟨i, j, kid, c.idctx⟩ : Pos) ∈ positions cs := (mem_positions cs _).mpr ⟨c, hc, rfl, hj⟩
  rw [find?_of_pairwise _ _ (positions cs) ⟨i, j, kid, c.idctx⟩ hu hmem (by simp [namesId, hid])]
  · rfl
  · intro x y hx hy hr
    simp only [namesId, Option.some.injEq, Option.getD_some, Bool.and_eq_true, decide_eq_true_eq] at hx hy
    exact hr ⟨hx.1.symm.trans hy.1, hy.2.symm ▸ hx.2.symm ▸ rfl⟩

/-- On an unambiguous set of contexts, what the endpoint does with a request is what the one context the request names
does with it: if `c ∈ cs` accepts the request, so does the endpoint, with the same result. -/
theorem unprotect_any_eq (cipher : Bytes → Bytes → Bytes) (cs : List Ctx) (hu : Unambiguous cs) (c : Ctx) (hc : c ∈ cs)
    (m x : Msg) (b : Binding) (h : unprotectRequest cipher c m = .ok x b) :
    unprotectRequestAny cipher cs m = .ok x b := by
  obtain ⟨ov, v, h1, h2, h3, h4⟩ := unprotectRequest_ok_names cipher c m x b h
  unfold unprotectRequestAny
  simp only [h1, h2, if_false, h3, selectCtx_of_unambiguous cs v c hu hc h4]
  exact h

/-- **Round trip with several contexts at the server**: for every unambiguous set of contexts the server holds (D14.18),
every one of them `cR` and the matching sender context `cS`, every block cipher, encodable request and sequence number:
the server recovers the original request from `protectRequest cS m seq`, with the binding of that request —
wherever `cR` is in the set and whatever the other contexts are (same Recipient ID under another ID Context, …). -/
theorem unprotect_protect_request_any (cipher : Bytes → Bytes → Bytes) (cS cR : Ctx) (cs : List Ctx)
    (hu : Unambiguous cs) (hR : cR ∈ cs) (m : Msg) (seq : Nat)
    (hm : Matching cS cR)
    (hsorted : m.opts.Pairwise (fun a b => a.1 ≤ b.1))
    (hcode : m.code < 256)
    (hwire : ∀ o ∈ m.opts, o.1 ≤ 65535 ∧ o.2.length ≤ 65804)
    (hopt : (optEncode ⟨pivBytes seq, cS.idctx, some cS.sid⟩).length ≤ 255) :
    ∀ r, protectRequest cipher cS m seq = some r → unprotectRequestAny cipher cs r.1 = .ok m r.2 := by
  intro r hr
  exact unprotect_any_eq cipher cs hu cR hR r.1 m r.2
    (unprotect_protect_request cipher cS cR m seq hm hsorted hcode hwire hopt r hr)

/-- **Use of a different context**: a request is accepted by an endpoint only through a context it holds AND the request
names, and then with that context's verdict (key, nonce, AAD) — so a request protected for a context the endpoint does
not hold (other Recipient ID or other ID Context) is rejected before any key is tried; every block cipher, every
datagram (no unambiguity needed). -/
theorem request_for_unknown_context_rejected (cipher : Bytes → Bytes → Bytes) (cs : List Ctx) (m : Msg) :
    (∀ x b, unprotectRequestAny cipher cs m = .ok x b →
      ∃ c ∈ cs, ∃ ov v, oscoreValue m.opts = some ov ∧ optDecode ov = some v ∧ names v c = true ∧
        unprotectRequest cipher c m = .ok x b) ∧
    (∀ ov v, oscoreValue m.opts = some ov → optDecode ov = some v → (∀ c ∈ cs, names v c = false) →
      unprotectRequestAny cipher cs m = .rej) := by
  constructor
  · intro x b h
    unfold unprotectRequestAny at h
    cases hov : oscoreValue m.opts with
    | none => simp [hov] at h
    | some ov =>
      simp only [hov] at h
      by_cases hp : m.payload = []
      · simp [hp] at h
      · simp only [hp, if_false] at h
        cases hd : optDecode ov with
        | none => simp [hd] at h
        | some v =>
          simp only [hd] at h
          cases hs : selectCtx cs v with
          | none => simp [hs] at h
          | some c =>
            simp only [hs] at h
            obtain ⟨hmem, hn⟩ := selectCtx_some cs v c hs
            exact ⟨c, hmem, ov, v, rfl, hd, hn, h⟩
  · intro ov v hov hd hnone
    unfold unprotectRequestAny
    have hs : selectCtx cs v = none := by
      unfold selectCtx
      rw [List.find?_eq_none]
      intro c hc; simp [hnone c hc]
    simp only [hov, hd, hs]
    by_cases hp : m.payload = [] <;> simp [hp]

/-! ### Requests under SEVERAL contexts interleaved on ONE server session (D14.19; S: Spec/OscoreCtxSeq.lean, M: Model/OscoreSrv.lean) -/

/-- **A response is protected with the context of the request it answers (S).**  A server holds the unambiguous set `cs`
(D14.18); a client with the context `cC` matching `cR ∈ cs` protects request `m`; the server verifies it and then sees ANY
sequence `mid` of events that concern other tokens — requests for any of its other contexts (each re-directs "the context
used last"), responses to other requests — or that are requests, WITH WHATEVER TOKEN (also `m`'s own), which do not verify
(forged ones: they bind and re-bind nothing).  Then (1) the server recovered `m`, (2) the token of `m` is still
bound to `m`'s binding AND to `cR` (RFC 8613 §8.3 step 1: "the Security Context associated with the Token"), marked
`observe` iff `m` carried Observe or re-used the token of a marked binding (`cObs`; on a token not bound before: iff `m`
carried Observe), (3) every response the server protects for that token — in the form D14.5 selects: own Partial IV iff
asked for, or the response carries Observe, or the binding is marked — is unprotected by the client to the server's
message, and (4) a response that used the nonce of the request has consumed the binding (the nonce of a request at most
once).  For every block cipher, encodable messages. -/
theorem interleaved_contexts_roundtrip (cipher : Bytes → Bytes → Bytes) (cs : List Ctx) (hu : Unambiguous cs)
    (cC cR : Ctx) (hR : cR ∈ cs) (hCR : Matching cC cR) (hRC : Matching cR cC) (m : Msg) (seq : Nat)
    (hsorted : m.opts.Pairwise (fun a b => a.1 ≤ b.1))
    (hcode : m.code < 256)
    (hwire : ∀ o ∈ m.opts, o.1 ≤ 65535 ∧ o.2.length ≤ 65804)
    (hopt : (optEncode ⟨pivBytes seq, cC.idctx, some cC.sid⟩).length ≤ 255)
    (st : CStore) (mid : List XStep)
    (hmid : ∀ s ∈ mid, s.token ≠ m.token ∨ ∃ pm, s = .recv pm ∧ ∀ x b, unprotectRequestAny cipher cs pm ≠ .ok x b) :
    ∀ r, protectRequest cipher cC m seq = some r →
      (serverRecvAny cipher cs st r.1).1 = .ok m r.2 ∧
      cFind (serverRunAny cipher cs (serverRecvAny cipher cs st r.1).2 mid) m.token =
        some ⟨m.token, r.2, cObs st m.token m.opts, cR, cObs st m.token m.opts⟩ ∧
      (hasObserve m.opts = true → cObs st m.token m.opts = true) ∧
      (cFind st m.token = none → cObs st m.token m.opts = hasObserve m.opts) ∧
      ∀ (rm : Msg) (ask : Bool) (sseq : Nat) (sepMid : Option Nat) (pr : Msg) (st3 : CStore), rm.token = m.token →
        rm.opts.Pairwise (fun a b => a.1 ≤ b.1) → rm.code < 256 → (∀ o ∈ rm.opts, o.1 ≤ 65535 ∧ o.2.length ≤ 65804) →
        serverSendAny cipher (serverRunAny cipher cs (serverRecvAny cipher cs st r.1).2 mid) rm ask sseq sepMid = some (pr, st3) →
        unprotectResponse cipher cC (some r.2) pr =
          .ok { normalize false (if ownPiv ask (cObs st m.token m.opts) rm then pivBytes sseq else r.2.piv) rm with
                  type := pr.type, mid := pr.mid } r.2 ∧
        (ownPiv ask (cObs st m.token m.opts) rm = false → cFind st3 m.token = none) := by
  intro r hr
  have hone := unprotect_protect_request cipher cC cR m seq hCR hsorted hcode hwire hopt r hr
  have hany := unprotect_any_eq cipher cs hu cR hR r.1 m r.2 hone
  have hsel := selectFor_of_ok cipher cs hu cR hR r.1 m r.2 hone
  have htok := protectRequest_token cipher cC m seq r hr
  have hrecv : serverRecvAny cipher cs st r.1 =
      (.ok m r.2, cSet st ⟨m.token, r.2, cObs st m.token m.opts, cR, cObs st m.token m.opts⟩) := by
    unfold serverRecvAny
    simp only [hany, hsel, htok]
  have hfind : cFind (serverRunAny cipher cs (serverRecvAny cipher cs st r.1).2 mid) m.token =
      some ⟨m.token, r.2, cObs st m.token m.opts, cR, cObs st m.token m.opts⟩ := by
    rw [cFind_run_leaves cipher cs mid m.token hmid, hrecv]
    simp only
    rw [cFind_cSet]
    simp
  refine ⟨by rw [hrecv], hfind, fun h => by simp [cObs, h], fun h => by simp [cObs, h], ?_⟩
  intro rm ask sseq sepMid pr st3 hrt hs hc hw hsend
  unfold serverSendAny at hsend
  rw [hrt, hfind] at hsend
  simp only at hsend
  cases hp : protectResponseFor cipher cR r.2 (cObs st m.token m.opts) rm ask sseq sepMid with
  | none => simp [hp] at hsend
  | some pr0 =>
    simp only [hp, Option.some.injEq, Prod.mk.injEq] at hsend
    rw [← hsend.1]
    refine ⟨unprotect_protect_response_for cipher cR cC r.2 (cObs st m.token m.opts) rm ask sseq sepMid hRC hs hc hw pr0 hp, ?_⟩
    intro hown
    have hreg : cObs st m.token m.opts = false := by
      unfold ownPiv at hown
      simp only [Bool.or_eq_false_iff] at hown
      exact hown.2
    have h3 := hsend.2
    rw [hreg] at h3
    simp only [Bool.false_eq_true, if_false] at h3
    rw [← h3, cFind_cDel]
    simp

/-- **The same for libcoap's server session (M)**: for every sequence of `decrypt` steps (a request arrives for which
`oscore_find_context` returned the recipient context `pos`; verified or not, with or without Observe) and `protect` steps
(a response has been protected), the recipient context `coap_oscore_new_pdu_encrypted_lkd` takes the Sender Context of a
response from — `association->recipient_ctx` — is the one of the LATEST VERIFIED `decrypt` step with the response's token;
and after a verified `decrypt` step for `t` the association holds that step's context, nonce, AAD and Partial IV whatever
happens later to other tokens (in particular: whatever `session->recipient_ctx` has become) AND whatever requests that do
not verify arrive with the SAME token (fix b3c6528: before, such a request replaced all four).  A transcription that reads
`session->recipient_ctx` instead, or one that refreshes the association before the AEAD has run, does not satisfy it
(`example`s below). -/
theorem response_ctx_is_request_ctx_impl (steps : List M.Oscore.SrvStep) :
    (∀ t pos, M.Oscore.srvResponseCtx (M.Oscore.srvRun ⟨none, []⟩ steps) t = some pos →
      M.Oscore.srvLatest steps t = some pos) ∧
    (∀ t pos aad nonce piv o (later : List M.Oscore.SrvStep), (∀ x ∈ later, SrvStepLeaves t x) →
      M.Oscore.srvResponseCtx (M.Oscore.srvRun ⟨none, []⟩ (steps ++ [.decrypt t pos aad nonce piv true o] ++ later)) t = some pos ∧
      ∃ a, M.Oscore.findSAssoc (M.Oscore.srvRun ⟨none, []⟩ (steps ++ [.decrypt t pos aad nonce piv true o] ++ later)).as t = some a ∧
        a.rcp = pos ∧ a.piv = piv ∧ a.nonce = nonce ∧ a.aad = aad ∧ (o = true → a.isObserve = true) ∧ a.isClient = false) := by
  constructor
  · intro t pos h
    have h0 : SrvInvReq ⟨none, []⟩ (fun _ => none) := by
      intro t a ha
      simp [M.Oscore.findSAssoc] at ha
    have hinv := SrvInvReq_run steps ⟨none, []⟩ (fun _ => none) h0
    unfold M.Oscore.srvResponseCtx at h
    cases hf : M.Oscore.findSAssoc (M.Oscore.srvRun ⟨none, []⟩ steps).as t with
    | none => simp [hf] at h
    | some a =>
      simp only [hf] at h
      by_cases hcl : a.isClient = true
      · simp [hcl] at h
      · simp only [hcl, if_false, Bool.false_eq_true, Option.some.injEq] at h
        have := hinv t a hf (by simpa using hcl)
        rw [srvLatest_fst]
        unfold M.Oscore.srvLatestReq
        rw [this, ← h]
        rfl
  · intro t pos aad nonce piv o later hl
    have hrun : M.Oscore.findSAssoc (M.Oscore.srvRun ⟨none, []⟩ (steps ++ [.decrypt t pos aad nonce piv true o] ++ later)).as t =
        M.Oscore.findSAssoc (M.Oscore.srvDecrypt (List.foldl M.Oscore.srvStep ⟨none, []⟩ steps) t pos aad nonce piv true o).as t := by
      unfold M.Oscore.srvRun
      rw [List.foldl_append, List.foldl_append, List.foldl_cons, List.foldl_nil]
      have h1 := findSAssoc_run_leaves later t hl
        (M.Oscore.srvStep (List.foldl M.Oscore.srvStep ⟨none, []⟩ steps) (.decrypt t pos aad nonce piv true o))
      unfold M.Oscore.srvRun at h1
      rw [h1]
      rfl
    obtain ⟨a, ha, hr⟩ := (findSAssoc_decrypt (List.foldl M.Oscore.srvStep ⟨none, []⟩ steps) t pos aad nonce piv o t).1 rfl
    refine ⟨?_, a, by rw [hrun, ha], hr⟩
    unfold M.Oscore.srvResponseCtx
    rw [hrun, ha]
    simp [hr.1, hr.2.2.2.2.2]

/-- **A response is never protected with the nonce of a request sent from this end** (fix 48ee5dc; RFC 8613 §5.2: a nonce
at most once per key).  libcoap keeps ONE table `session->associations`, keyed by the token only, for the requests a
session sends AND the requests it receives.  For EVERY interleaving, on one session, of received requests (`decrypt`,
verified or not, any context, with or without Observe), responses protected (`protect`), requests sent from this end
(`request`: fresh token or ANY token in the table, also that of a received request not yet answered) and responses received
(`respIn`, verified or not):
(1) whenever `coap_oscore_new_pdu_encrypted_lkd` finds an association to protect a response with token `t` under
    (`srvResponseAssoc … = some a`: `a.nonce` is what a response without Partial IV is protected with, `a.aad` / `a.piv` what
    every response is bound to), that association does not belong to a request sent from this end and its recipient context,
    AAD, nonce and Partial IV are those of the latest VERIFIED RECEIVED request with `t` — and no request sent from this end
    has used `t` since (`srvLatestReq`, a function of the step list alone; `latest_received_request_spelled_out` below says
    what `some` means);
(2) after a request sent from this end with token `t` — and whatever follows except a verified received request with `t`
    (which takes the token over with ITS nonce) — no response with `t` can be protected at all: no association is handed to
    the response path, the Partial IV decision is not reached, no Sender Context is selected.  So the nonce of that request
    (and its AAD) never reaches the AEAD a second time.
A transcription without the `is_client` test (the code before 48ee5dc) violates (1) and (2): `example` below. -/
theorem response_never_under_own_request_nonce (steps : List M.Oscore.SrvStep) :
    (∀ t a, M.Oscore.srvResponseAssoc (M.Oscore.srvRun ⟨none, []⟩ steps) t = some a →
      a.isClient = false ∧ M.Oscore.srvLatestReq steps t = some (a.rcp, a.aad, a.nonce, a.piv)) ∧
    (∀ t pos aad nonce piv o v (later : List M.Oscore.SrvStep), (∀ x ∈ later, SrvStepKeepsClient t x) →
      let s := M.Oscore.srvRun ⟨none, []⟩ (steps ++ [.request t pos aad nonce piv o v] ++ later)
      M.Oscore.srvResponseAssoc s t = none ∧ M.Oscore.srvResponseCtx s t = none ∧
      (∀ d ask, M.Oscore.srvOwnPiv s t d ask = none) ∧ M.Oscore.srvProtect s t = s) := by
  constructor
  · intro t a h
    have h0 : SrvInvReq ⟨none, []⟩ (fun _ => none) := by
      intro t a ha
      simp [M.Oscore.findSAssoc] at ha
    have hinv := SrvInvReq_run steps ⟨none, []⟩ (fun _ => none) h0
    unfold M.Oscore.srvResponseAssoc at h
    cases hf : M.Oscore.findSAssoc (M.Oscore.srvRun ⟨none, []⟩ steps).as t with
    | none => simp [hf] at h
    | some a0 =>
      simp only [hf] at h
      by_cases hcl : a0.isClient = true
      · simp [hcl] at h
      · simp only [hcl, if_false, Bool.false_eq_true, Option.some.injEq] at h
        subst h
        have hc : a0.isClient = false := by simpa using hcl
        exact ⟨hc, hinv t a0 hf hc⟩
  · intro t pos aad nonce piv o v later hl s
    have hcl : ∀ a, M.Oscore.findSAssoc s.as t = some a → a.isClient = true := by
      have hs : s = M.Oscore.srvRun (M.Oscore.srvRequest (List.foldl M.Oscore.srvStep ⟨none, []⟩ steps) t pos aad nonce piv o v) later := by
        show M.Oscore.srvRun _ _ = _
        unfold M.Oscore.srvRun
        rw [List.foldl_append, List.foldl_append, List.foldl_cons, List.foldl_nil]
        rfl
      rw [hs]
      apply client_run_keeps later t hl
      intro a ha
      obtain ⟨a', h1, h2, _⟩ := (findSAssoc_request (List.foldl M.Oscore.srvStep ⟨none, []⟩ steps) t pos aad nonce piv o v t).1 rfl
      rw [h1] at ha
      injection ha with ha
      rw [← ha]; exact h2
    have hra : M.Oscore.srvResponseAssoc s t = none := by
      unfold M.Oscore.srvResponseAssoc
      cases hf : M.Oscore.findSAssoc s.as t with
      | none => rfl
      | some a => simp [hcl a hf]
    refine ⟨hra, ?_, ?_, ?_⟩
    · unfold M.Oscore.srvResponseCtx
      cases hf : M.Oscore.findSAssoc s.as t with
      | none => rfl
      | some a => simp [hcl a hf]
    · intro d ask
      unfold M.Oscore.srvOwnPiv
      rw [hra]; rfl
    · unfold M.Oscore.srvProtect
      cases hf : M.Oscore.findSAssoc s.as t with
      | none => rfl
      | some a => simp [hcl a hf]

/-- **libcoap (M) gives every response to an Observe request its own Partial IV** (fix 155f0b4), and agrees with D14.5 on
the others.  After a verified `decrypt` step for token `t` whose plaintext carried Observe — and whatever steps follow that
leave the association alone (other tokens, forged requests with `t`) — `coap_oscore_new_pdu_encrypted_lkd` takes the
Partial IV / `oscore_increment_sender_seq` branch for a response with token `t` whether or not the response carries Observe
and whether or not the caller asked (`srvOwnPiv … = some true`); protecting that response leaves the association (so the next
response is in the same situation: the request's nonce is never handed to the AEAD).  For an association whose
`is_observe` is 0 the decision is D14.5's `ask || response carries Observe`, and protecting the response deletes it. -/
theorem observe_request_own_piv_impl (steps : List M.Oscore.SrvStep) (t : Bytes) (pos : M.Oscore.RPos) (aad nonce piv : Bytes)
    (later : List M.Oscore.SrvStep) (hl : ∀ x ∈ later, SrvStepLeaves t x) :
    (∀ d ask, M.Oscore.srvOwnPiv (M.Oscore.srvRun ⟨none, []⟩ (steps ++ [.decrypt t pos aad nonce piv true true] ++ later)) t d ask =
        some true) ∧
    M.Oscore.srvProtect (M.Oscore.srvRun ⟨none, []⟩ (steps ++ [.decrypt t pos aad nonce piv true true] ++ later)) t =
      M.Oscore.srvRun ⟨none, []⟩ (steps ++ [.decrypt t pos aad nonce piv true true] ++ later) ∧
    (∀ (s : M.Oscore.Srv) (a : M.Oscore.SAssoc) (d ask : Bool), M.Oscore.findSAssoc s.as t = some a → a.isObserve = false →
      a.isClient = false →
      M.Oscore.srvOwnPiv s t d ask = some (ownPiv ask false ⟨0, 0, 0, [], if d then [(optObserve, [])] else [], []⟩) ∧
      M.Oscore.findSAssoc (M.Oscore.srvProtect s t).as t = none) := by
  obtain ⟨_, a, ha, _, _, _, _, hobs, hncl⟩ :=
    (response_ctx_is_request_ctx_impl steps).2 t pos aad nonce piv true later hl
  have hio : a.isObserve = true := hobs rfl
  refine ⟨?_, ?_, ?_⟩
  · intro d ask
    unfold M.Oscore.srvOwnPiv M.Oscore.srvResponseAssoc
    rw [ha]
    cases d <;> cases ask <;> simp [hio, hncl]
  · unfold M.Oscore.srvProtect
    rw [ha]
    simp [hio, hncl]
  · intro s a0 d ask hf hno hnc
    constructor
    · unfold M.Oscore.srvOwnPiv M.Oscore.srvResponseAssoc
      rw [hf]
      cases d <;> cases ask <;> simp [hno, hnc, ownPiv, hasObserve]
    · unfold M.Oscore.srvProtect
      rw [hf]
      simp only [hno, hnc, Bool.false_eq_true, if_false]
      rw [findSAssoc_filter]
      simp

/-! ### Non-vacuity: concrete instances of the hypotheses -/

example : (pivBytes 20).length ≤ 5 ∧ (pivBytes (2 ^ 40 - 2)).length ≤ 5 ∧ 2 ^ 40 - 2 ≤ maxSeq := by decide

example : (optEncode ⟨pivBytes 20, some [0x37, 0xcb], some [0x01]⟩).length ≤ 255 := by decide

example : optDecode (optEncode ⟨[0x14], none, some []⟩) = some ⟨[0x14], none, some []⟩ := by decide

/-- a client context and the server's mirror image match -/
example : Matching ⟨[], [1], none, 10, [1, 2], [3, 4], [5]⟩ ⟨[1], [], none, 10, [3, 4], [1, 2], [5]⟩ :=
  ⟨rfl, rfl, rfl, rfl, rfl⟩

/-- `hplain` of `unprotect_protect_request_of_plain` on the RFC 8613 C.4 request (GET, Uri-Host outer, Uri-Path "tv1" inner) -/
example : decPlain (encPlain 1 (innerOpts true [(3, [0x6c]), (11, [0x74, 0x76, 0x31])]) []) =
    some (1, innerOpts true [(3, [0x6c]), (11, [0x74, 0x76, 0x31])], []) := by decide

example : ([(3, [0x6c]), (11, [0x74, 0x76, 0x31])] : List Opt).Pairwise (fun a b => a.1 ≤ b.1) := by decide

/-- inner / outer split of a request with Observe, Uri-Host, Uri-Path, Max-Age, Proxy-Scheme -/
example : outerOpts [(3, [1]), (6, []), (11, [2]), (14, [3]), (39, [4])] = [(3, [1]), (6, []), (39, [4])] ∧
    innerOpts true [(3, [1]), (6, []), (11, [2]), (14, [3]), (39, [4])] = [(6, []), (11, [2]), (14, [3])] := by decide

/-! ### Non-vacuity of the injectivity / M = S / round-trip theorems -/

/-- heads of all five widths; a byte string is not a prefix of another; kid / piv boundaries in the AAD are not ambiguous -/
example : cborHead 2 23 = [0x57] ∧ cborHead 2 24 = [0x58, 24] ∧ cborHead 4 256 = [0x99, 1, 0] ∧
    cborHead 0 65536 = [0x1a, 0, 1, 0, 0] ∧ cborHead 0 4294967296 = [0x1b, 0, 0, 0, 1, 0, 0, 0, 0] := by decide
example : cborBstr [1] ++ [2] ≠ cborBstr [1, 2] ++ [] ∧ cborBstr [] ++ [0x41, 7] ≠ cborBstr [7] := by decide
example : aad 10 [1] [0x14] ≠ aad 10 [] [1, 0x14] ∧ aad 10 [1] [0x14] ≠ aad (-10) [1] [0x14] ∧
    aadArray 10 [] [0x14] = [0x85, 0x01, 0x81, 0x0a, 0x40, 0x41, 0x14, 0x40] := by decide

/-- RFC 8613 C.4 nonce through M; and the limits of `nonce_eq_spec` are sharp: 8 id bytes overwrite the length
byte (M ≠ S), 9 id bytes are out of bounds -/
example : M.Oscore.generateNonce [0x46, 0x22, 0xd4, 0xdd, 0x6d, 0x94, 0x41, 0x68, 0xee, 0xfb, 0x54, 0x98, 0x7c] [] [0x14] =
    R.ok [0x46, 0x22, 0xd4, 0xdd, 0x6d, 0x94, 0x41, 0x68, 0xee, 0xfb, 0x54, 0x98, 0x68] := by decide
example : M.Oscore.generateNonce (List.replicate 13 0) [1, 2, 3, 4, 5, 6, 7, 8] [9] ≠
    R.ok (nonce (List.replicate 13 0) [1, 2, 3, 4, 5, 6, 7, 8] [9]) ∧
    M.Oscore.generateNonce (List.replicate 13 0) (List.replicate 9 1) [9] = R.oob := by decide

/-- why `nonce_injective` needs minimal-length Partial IVs: a leading zero byte is invisible in the nonce -/
example : nonce (List.replicate 13 0) [] [0, 1] = nonce (List.replicate 13 0) [] [1] ∧ pivMinimal [0, 1] = false ∧
    pivMinimal [0] = true ∧ pivMinimal [1, 0] = true ∧ pivMinimal [] = false := by decide
example : pivBytes 0 = [0] ∧ pivBytes 255 = [0xff] ∧ pivBytes 256 = [1, 0] ∧ pivBytes (2 ^ 40 - 1) = [0xff, 0xff, 0xff, 0xff, 0xff] := by
  decide
example : nonce (List.replicate 13 0) [1] (pivBytes 255) ≠ nonce (List.replicate 13 0) [1] (pivBytes 256) := by decide
example : ([0, 1, 255, 256, 2 ^ 40 - 2] : List Nat).Pairwise (· ≠ ·) := by decide

/-- option value through M (RFC 8613 C.5 shape); an empty kid context is where M and S differ (excluded by D14.10);
a buffer that is too small is refused -/
example : M.Oscore.encodeOptionValue 48 [0x14] (some [0x37, 0xcb]) (some [1]) = R.ok (optEncode ⟨[0x14], some [0x37, 0xcb], some [1]⟩) ∧
    M.Oscore.encodeOptionValue 48 [0x14] (some []) none ≠ R.ok (optEncode ⟨[0x14], some [], none⟩) ∧
    M.Oscore.encodeOptionValue 4 [0x14] (some [0x37, 0xcb]) (some [1]) = R.rej := by decide
example : M.Oscore.decodeOptionValue [0x19, 0x14, 0x02, 0x37, 0xcb, 0x01] = R.ok ⟨[0x14], some [0x37, 0xcb], some [1]⟩ ∧
    M.Oscore.decodeOptionValue [0x0e] = R.rej ∧ optDecode [0x0e] = none := by decide

/-- the split through M; Proxy-Uri (35) is where M and S differ (excluded by D14.10); unsorted input is sorted by M -/
example : M.Oscore.protectSplit false [(3, [1]), (6, [5]), (11, [2]), (14, [3]), (39, [4])] =
    ([(3, [1]), (6, [5]), (39, [4])], [(6, []), (11, [2]), (14, [3])]) ∧
    M.Oscore.protectSplit true [(35, [1])] ≠ (outerOpts [(35, [1])], innerOpts true [(35, [1])]) ∧
    M.Oscore.protectSplit true [(11, [1]), (8, [2])] ≠ (outerOpts [(11, [1]), (8, [2])], innerOpts true [(11, [1]), (8, [2])]) := by
  decide
example : M.Oscore.decryptMerge false [0, 1, 2, 3] [(3, [1]), (9, [7]), (39, [4])] [(6, []), (11, [2])] =
    [(3, [1]), (6, [1, 2, 3]), (11, [2]), (39, [4])] := by decide

/-- the hypotheses of `unprotect_protect` on a notification-like message, and `protect` does produce something (toy cipher) -/
example : (∀ o ∈ ([(6, [1]), (11, [0x74, 0x76, 0x31]), (12, [])] : List Opt), o.1 ≤ 65535 ∧ o.2.length ≤ 65804) := by decide
example : (protectRequest (fun _ b => b) ⟨[], [1], none, 10, [1, 2], [3, 4], [5]⟩ ⟨0, 1, 7, [9], [(3, [0x6c]), (11, [0x74])], [1]⟩ 20).isSome = true ∧
    (protectResponse (fun _ b => b) ⟨[1], [], none, 10, [3, 4], [1, 2], [5]⟩ ⟨[], [0x14], [0]⟩ ⟨2, 69, 7, [9], [(6, [1]), (12, [])], [1]⟩
      (some 300) none).isSome = true ∧
    (protectResponse (fun _ b => b) ⟨[1], [], none, 10, [3, 4], [1, 2], [5]⟩ ⟨[], [0x14], [0]⟩ ⟨2, 69, 7, [9], [(12, [])], [1]⟩
      none (some 8)).isSome = true := by decide
/-- D14.3: what the recipient of a notification with Partial IV 0x012c sees -/
example : normalize false (pivBytes 300) ⟨2, 69, 7, [9], [(6, [1]), (12, [])], [1]⟩ = ⟨2, 69, 7, [9], [(6, [1, 0x2c]), (12, [])], [1]⟩ := by
  decide

/-! ### Non-vacuity of the sequence theorems -/

/-- token re-use: request (seq 20), a forged datagram with that token (rejected, nothing changes), request with the same
token (seq 21): the binding is that of request 21; `latestRequest` says the same -/
example :
    (sFind (clientRun (fun _ b => b) ⟨[], [1], none, 10, [1, 2], [3, 4], [5]⟩ []
      [.send ⟨0, 1, 7, [9], [(11, [0x74])], []⟩ 20, .recv ⟨2, 68, 7, [9], [(9, [])], [1, 2, 3]⟩,
       .send ⟨0, 1, 8, [9], [(11, [0x75])], []⟩ 21]) [9]).map (fun e => (e.b.piv, e.keep)) = some ([21], false) ∧
    (latestRequest (fun _ b => b) ⟨[], [1], none, 10, [1, 2], [3, 4], [5]⟩
      [.send ⟨0, 1, 7, [9], [(11, [0x74])], []⟩ 20, .send ⟨0, 1, 8, [9], [(11, [0x75])], []⟩ 21] [9]).map (·.piv) = some [21] := by
  decide

/-- the hypotheses of `sequence_roundtrip` on those requests -/
example : ([(11, [0x74])] : List Opt).Pairwise (fun a b => a.1 ≤ b.1) ∧ (1 : Nat) < 256 ∧
    (∀ o ∈ ([(11, [0x74])] : List Opt), o.1 ≤ 65535 ∧ o.2.length ≤ 65804) ∧
    (optEncode ⟨pivBytes 21, none, some []⟩).length ≤ 255 := by decide

/-- M: libcoap's update rule on re-use replaces aad, nonce and partial_iv and takes is_observe from the new request; a
response that is not verified leaves the association, a verified one deletes it unless is_observe -/
example :
    M.Oscore.assocRun [] [.protect [9] [1] [2] [3] false 0, .decrypt [9] false, .protect [9] [4] [5] [6] true 0] =
      [⟨[9], [4], [5], [6], true⟩] ∧
    M.Oscore.assocRun [] [.protect [9] [1] [2] [3] false 0, .decrypt [9] true] = [] ∧
    M.Oscore.assocRun [] [.protect [9] [1] [2] [3] true 0, .decrypt [9] true, .protect [9] [4] [5] [6] true 1] =
      [⟨[9], [4], [5], [6], false⟩] ∧
    M.Oscore.assocLatest [.protect [9] [1] [2] [3] false 0, .protect [8] [7] [7] [7] false 0, .protect [9] [4] [5] [6] true 0] [9] =
      some ([4], [5], [6]) := by decide

/-- D14.16: Observe 0 registers, Observe 1 (cancellation) and no Observe do not -/
example : isRegistration [(6, []), (11, [1])] = true ∧ isRegistration [(6, [0])] = true ∧ isRegistration [(6, [1])] = false ∧
    isRegistration [(11, [1])] = false := by decide


/-! ### Non-vacuity of the context-lookup theorems -/

/-- RFC 8613 C.6's client (empty Sender ID, ID Context 37cbf3210017a2d3) at a server that holds, before its context, one
with the same empty Recipient ID under another ID Context, one without ID Context and one with two recipients: the store
is unambiguous and the lookup returns the third context's only recipient; an unknown ID Context finds nothing. -/
example :
    let cs : M.Oscore.CtxStore :=
      [⟨some [0xa1, 0xa2], [[]]⟩, ⟨none, [[]]⟩, ⟨some [0x37, 0xcb, 0xf3, 0x21, 0x00, 0x17, 0xa2, 0xd3], [[]]⟩,
       ⟨some [0x37, 0xcb, 0xf3, 0x21, 0x00, 0x17, 0xa2, 0xd3], [[2], [1]]⟩]
    (positions cs).length = 5 ∧
    M.Oscore.findContext cs [] (some [0x37, 0xcb, 0xf3, 0x21, 0x00, 0x17, 0xa2, 0xd3]) none = some (2, 0) ∧
    M.Oscore.findContext cs [1] (some [0x37, 0xcb, 0xf3, 0x21, 0x00, 0x17, 0xa2, 0xd3]) none = some (3, 1) ∧
    M.Oscore.findContext cs [] (some []) none = some (1, 0) ∧
    M.Oscore.findContext cs [] (some [0x37]) none = none ∧
    M.Oscore.findContext cs [1] none none = some (3, 1) := by decide

example : StoreUnambiguous [⟨some [0xa1, 0xa2], [[]]⟩, ⟨none, [[]]⟩, ⟨some [0x37], [[]]⟩, ⟨some [0x37], [[2], [1]]⟩] := by
  unfold StoreUnambiguous; decide

/-- the mismatch counter carried over from recipient to recipient (not reset): the same lookup fails — such a
transcription does not satisfy `find_context_complete` -/
example :
    let walk : Nat → List (Bytes × Option Bytes) → Option Nat := fun ok0 l =>
      (l.foldl (fun (st : Nat × Nat × Option Nat) (p : Bytes × Option Bytes) =>
        match st.2.2 with
        | some _ => st
        | none =>
          let ok := if p.1 ≠ [] then 0 else st.1     -- empty kid: `ok` keeps its old value
          let ok' := ok + (if p.2.getD [] ≠ [0x37] then 1 else 0)
          (ok', st.2.1 + 1, if ok' = 0 then some st.2.1 else none)) (ok0, 0, none)).2.2
    walk 0 [([], some [0xa1]), ([], some [0x37])] = none ∧ walk 0 [([], some [0x37])] = some 0 := by decide

/-- S: two derived contexts with the same (empty) Recipient ID under different ID Contexts are an unambiguous set, and the
compressed COSE object of a request for the second names the second only -/
example :
    Unambiguous [⟨[1], [], some [0xa1], 10, [1], [2], [3]⟩, ⟨[1], [], some [0x37], 10, [4], [5], [6]⟩] ∧
    selectCtx [⟨[1], [], some [0xa1], 10, [1], [2], [3]⟩, ⟨[1], [], some [0x37], 10, [4], [5], [6]⟩] ⟨[0x14], some [0x37], some []⟩ =
      some ⟨[1], [], some [0x37], 10, [4], [5], [6]⟩ ∧
    selectCtx [⟨[1], [], some [0xa1], 10, [1], [2], [3]⟩] ⟨[0x14], some [0x37], some []⟩ = none := by
  refine ⟨?_, by decide, by decide⟩
  unfold Unambiguous; decide


/-- RFC 8613 C.1.1 `info` for the Common IV through M -/
example : M.Oscore.composeInfo 10 [] none labelIV 13 = [0x85, 0x40, 0xf6, 0x0a, 0x62, 0x49, 0x56, 0x0d] := by decide

-- several contexts on one server session: request 1 for context (0,0), request 2 for context (1,0), then the response to
-- request 1 — libcoap (M) protects it with (0,0); `session->recipient_ctx` is (1,0) by then (what seed C14-10 reads)
example :
    let s := M.Oscore.srvRun ⟨none, []⟩ [.decrypt [1] (0, 0) [] [] [0x14] true false, .decrypt [2] (1, 0) [] [] [0x15] true false]
    M.Oscore.srvResponseCtx s [1] = some (0, 0) ∧ s.rcp = some (1, 0) ∧
    M.Oscore.srvLatest [.decrypt [1] (0, 0) [] [] [0x14] true false, .decrypt [2] (1, 0) [] [] [0x15] true false] [1] = some (0, 0) ∧
    M.Oscore.srvResponseCtx (M.Oscore.srvProtect s [1]) [1] = none := by decide
example : (∀ s ∈ [XStep.recv ⟨0, 2, 7, [2], [(9, [9, 0x15, 0x0b])], [1, 2, 3]⟩, XStep.send ⟨1, 69, 9, [3], [], []⟩ false 7 none], s.token ≠ [1]) := by
  decide
example : Unambiguous [⟨[1], [0x0a], none, 10, [1], [2], [3]⟩, ⟨[2], [0x0b], none, 10, [4], [5], [6]⟩] := by
  unfold Unambiguous; decide
/-- the second arm of `hmid`: a request that names a held context (kid 0x0b) but does not verify (toy cipher: the tag does
not match) — with any token, also the one of the pending exchange -/
example : unprotectRequestAny (fun _ b => b) [⟨[1], [0x0a], none, 10, [1], [2], [3]⟩, ⟨[2], [0x0b], none, 10, [4], [5], [6]⟩]
    ⟨0, 2, 7, [1], [(9, [9, 0x15, 0x0b])], [1, 2, 3, 4, 5, 6, 7, 8, 9, 10]⟩ = .rej := by decide

/-! ### Non-vacuity of the D14.5 / verify-then-bind theorems (round Y15) -/

/-- D14.5: who gets a Partial IV — asked for; a notification; ANY response to a request that carried Observe (also a 4.04
without Observe option); not: a plain response to a plain request -/
example : ownPiv true false ⟨2, 69, 7, [9], [], []⟩ = true ∧ ownPiv false false ⟨2, 69, 7, [9], [(6, [1])], []⟩ = true ∧
    ownPiv false true ⟨2, 132, 7, [9], [], []⟩ = true ∧ ownPiv false false ⟨2, 69, 7, [9], [(12, [])], []⟩ = false := by decide

/-- a 4.04 without Observe answering an Observe request: OSCORE option 01 2a (own Partial IV 42), and another request nonce
in the binding gives the same message; answering a plain request: empty option, and the request nonce matters -/
example :
    ((protectResponseFor (fun _ b => b) ⟨[1], [], none, 10, [3, 4], [1, 2], [5]⟩ ⟨[], [0x14], [0]⟩ true ⟨2, 132, 7, [9], [], []⟩
      false 42 none).map fun r => oscoreValue r.opts) = some (some [1, 42]) ∧
    protectResponseFor (fun _ b => b) ⟨[1], [], none, 10, [3, 4], [1, 2], [5]⟩ ⟨[], [0x14], [0]⟩ true ⟨2, 132, 7, [9], [], []⟩ false 42 none =
      protectResponseFor (fun _ b => b) ⟨[1], [], none, 10, [3, 4], [1, 2], [5]⟩ ⟨[], [0x14], [77]⟩ true ⟨2, 132, 7, [9], [], []⟩ false 42 none ∧
    ((protectResponseFor (fun _ b => b) ⟨[1], [], none, 10, [3, 4], [1, 2], [5]⟩ ⟨[], [0x14], [0]⟩ false ⟨2, 132, 7, [9], [], []⟩
      false 42 none).map fun r => oscoreValue r.opts) = some (some []) := by decide

/-- M, fix b3c6528: genuine request (token 01, context (0,0), nonce 07), then a forged request with the SAME token for
context (1,0) that fails the AEAD: `session->recipient_ctx` moves, the association keeps context, nonce, AAD and Partial IV
of the genuine request (the order before the fix — refresh, then verify — gives nonce 09 / context (1,0) here); a forged
request with a new token leaves no association behind -/
example :
    let s := M.Oscore.srvRun ⟨none, []⟩ [.decrypt [1] (0, 0) [5] [7] [0x14] true false, .decrypt [1] (1, 0) [6] [9] [0x99] false false,
                                         .decrypt [2] (1, 0) [6] [9] [0x99] false true]
    s.as = [⟨[1], (0, 0), [5], [7], [0x14], false, false⟩] ∧ s.rcp = some (1, 0) ∧
    SrvStepLeaves [1] (.decrypt [1] (1, 0) [6] [9] [0x99] false false) ∧ SrvStepLeaves [1] (.decrypt [2] (1, 0) [6] [9] [0x99] false true) := by
  refine ⟨by decide, by decide, Or.inr rfl, Or.inl (by decide)⟩

/-- M, fix 155f0b4: the association of an Observe request forces the Partial IV for a response without Observe that did not
ask for one, and stays; the association of a plain request does not, and goes with the response -/
example :
    let s := M.Oscore.srvRun ⟨none, []⟩ [.decrypt [1] (0, 0) [5] [7] [0x14] true true, .decrypt [2] (0, 0) [5] [8] [0x15] true false]
    M.Oscore.srvOwnPiv s [1] false false = some true ∧ M.Oscore.srvOwnPiv s [2] false false = some false ∧
    M.Oscore.srvOwnPiv s [2] true false = some true ∧ M.Oscore.srvOwnPiv s [2] false true = some true ∧
    M.Oscore.srvOwnPiv s [3] false true = none ∧
    M.Oscore.srvOwnPiv (M.Oscore.srvProtect s [1]) [1] false false = some true ∧
    M.Oscore.srvOwnPiv (M.Oscore.srvProtect s [2]) [2] false false = none := by decide

/-- M, fix 48ee5dc, both orders on ONE session.  (a) request 01 received (nonce 07), then a request SENT with token 01 (own
nonce 0a): the association is the sent request's (`is_client`), no response with token 01 can be protected — the code before
the fix handed nonce 0a to the response (`findSAssoc` shows what it would have used).  (b) request SENT with token 01 first,
then request 01 received and verified: the received request takes the token over, the response is protected under nonce 07.
Hypotheses of `response_never_under_own_request_nonce` (2): every step but a verified received request with the token. -/
example :
    let a := M.Oscore.srvRun ⟨none, []⟩ [.decrypt [1] (0, 0) [5] [7] [0x14] true false, .request [1] (0, 0) [6] [0x0a] [0x02] false 0]
    let b := M.Oscore.srvRun ⟨none, []⟩ [.decrypt [9] (0, 0) [4] [6] [0x13] true false, .request [1] (0, 0) [6] [0x0a] [0x02] false 0,
                                         .decrypt [1] (0, 0) [5] [7] [0x14] true false]
    M.Oscore.srvResponseAssoc a [1] = none ∧ M.Oscore.srvResponseCtx a [1] = none ∧ M.Oscore.srvOwnPiv a [1] false false = none ∧
    (M.Oscore.findSAssoc a.as [1]).map (fun x => (x.nonce, x.isClient)) = some ([0x0a], true) ∧
    (M.Oscore.srvResponseAssoc b [1]).map (fun x => (x.nonce, x.aad, x.piv, x.isClient)) = some ([7], [5], [0x14], false) ∧
    M.Oscore.srvLatestReq [.decrypt [9] (0, 0) [4] [6] [0x13] true false, .request [1] (0, 0) [6] [0x0a] [0x02] false 0,
                           .decrypt [1] (0, 0) [5] [7] [0x14] true false] [1] = some ((0, 0), [5], [7], [0x14]) ∧
    M.Oscore.srvLatestReq [.decrypt [1] (0, 0) [5] [7] [0x14] true false, .request [1] (0, 0) [6] [0x0a] [0x02] false 0] [1] = none ∧
    SrvStepKeepsClient [1] (.decrypt [1] (1, 0) [6] [9] [0x99] false false) ∧ SrvStepKeepsClient [1] (.respIn [1] true) ∧
    SrvStepKeepsClient [1] (.protect [1]) ∧ SrvStepLeaves [1] (.request [2] (0, 0) [6] [0x0b] [0x03] true 0) := by
  refine ⟨by decide, by decide, by decide, by decide, by decide, by decide, by decide, Or.inr rfl, trivial, trivial, (by decide : ([2] : Bytes) ≠ [1])⟩

/-! ### Round R14c: outer class E options incl. RFC 9177, OSCORE option of more than 255 bytes, OSCORE only resources -/

/-- Q-Block1 (19) and Q-Block2 (31) are class E (RFC 9177 §4.1) in S's table and in the skip list of
`coap_oscore_decrypt_pdu` (after fix 44cf280); the sender protects them as inner options. -/
theorem qblock_is_class_e :
    classE 19 = true ∧ classE 31 = true ∧ M.Oscore.decryptSkips 19 = true ∧ M.Oscore.decryptSkips 31 = true ∧
    M.Oscore.protectClass 19 = 3 ∧ M.Oscore.protectClass 31 = 3 ∧ classUOnly 19 = false ∧ classUOnly 31 = false := by
  decide

/-- **No outer class E option reaches the unprotected message** (§8.2 / §8.4 step 1), for EVERY outer option list — whatever
was added on the path — and every inner list: an option of class E (now including Q-Block1 / Q-Block2) in the merged list is
one of the inner, protected options. -/
theorem outer_class_e_discarded (outer inner : List Opt) (o : Opt) (ho : o ∈ mergeOpts outer inner)
    (he : classE o.1 = true) : o ∈ inner := by
  unfold mergeOpts at ho
  rw [List.mem_merge] at ho
  rcases ho with h | h
  · rw [List.mem_filter] at h
    have := h.2
    simp [he] at this
  · exact h

example : ((19, [8]) : Opt) ∉ mergeOpts [(3, [1]), (9, []), (19, [8])] [(11, [2])] := fun h => by
  have := outer_class_e_discarded _ _ _ h (by decide)
  simp at this

/-- §2: an OSCORE option value of more than 255 bytes is no OSCORE option — S rejects the message (request and response,
every cipher, context and binding) and `oscore_decode_option_value` rejects it too.  (In libcoap `coap_pdu_parse()` already
refuses such an option, so the `uint8_t osc_size` of `coap_oscore_decrypt_pdu` never narrows anything: op `olen`.) -/
theorem oversized_oscore_option_rejected (cipher : Bytes → Bytes → Bytes) (c : Ctx) (m : Msg) (ov : Bytes)
    (hov : oscoreValue m.opts = some ov) (hl : 255 < ov.length) :
    unprotectRequest cipher c m = .rej ∧ (∀ b, unprotectResponse cipher c b m = .rej) ∧
    M.Oscore.decodeOptionValue ov = R.rej := by
  have hd : optDecode ov = none := by
    cases ov with
    | nil => simp at hl
    | cons f r =>
      have hr : r.length ≥ 255 := by simp at hl; omega
      simp [optDecode, hr]
  refine ⟨?_, ?_, ?_⟩
  · unfold unprotectRequest
    rw [hov]
    by_cases hp : m.payload = [] <;> simp [hp, hd]
  · intro b
    unfold unprotectResponse
    rw [hov]
    by_cases hp : m.payload = [] <;> simp [hp, hd]
  · rw [option_value_eq_spec.2 ov, hd]

example : oscoreValue ({ type := 0, code := 1, mid := 0, token := [], opts := [(9, List.replicate 256 0)], payload := [1] } : Msg).opts =
    some (List.replicate 256 0) ∧ 255 < (List.replicate 256 (0 : UInt8)).length :=
  ⟨rfl, by rw [List.length_replicate]; omega⟩

/-- **An unprotected request never reaches the handler of an OSCORE only resource**, whatever the session has seen before
(any list of protected requests — verified or not — and plain requests): it is answered 4.01 or not at all, never with a
protected response; and on any session the handler runs exactly for a VERIFIED protected request or a plain request to a
resource that is not OSCORE only.  (`session->oscore_encryption`, which stays set after the first verified request, decided
before fix a9dbe3e: `dispatchOld`, example below.) -/
theorem plain_request_never_reaches_oscore_only_handler (hc : Nat) (s : M.Oscore.DSess) (rs : List M.Oscore.DReq) :
    ((M.Oscore.dispatch hc (M.Oscore.dispatchRun hc s rs) (.plain true)).handler = false ∧
     ((M.Oscore.dispatch hc (M.Oscore.dispatchRun hc s rs) (.plain true)).out = .nothing ∨
      (M.Oscore.dispatch hc (M.Oscore.dispatchRun hc s rs) (.plain true)).out = .clear 129) ∧
     (M.Oscore.dispatch hc (M.Oscore.dispatchRun hc s rs) (.plain true)).sess = M.Oscore.dispatchRun hc s rs) ∧
    (∀ r, (M.Oscore.dispatch hc (M.Oscore.dispatchRun hc s rs) r).handler = true ↔
      ((∃ only, r = .osc true only) ∨ r = .plain false)) := by
  generalize M.Oscore.dispatchRun hc s rs = t
  refine ⟨⟨?_, ?_, ?_⟩, ?_⟩
  · simp [M.Oscore.dispatch]
  · cases h : t.enc <;> simp [M.Oscore.dispatch, h]
  · simp [M.Oscore.dispatch]
  · intro r
    cases r with
    | plain only => cases only <;> simp [M.Oscore.dispatch]
    | osc v only => cases v <;> simp [M.Oscore.dispatch]

/-- the witness: after ONE verified protected request the old test let a plain request to the OSCORE only resource through -/
example : (M.Oscore.dispatchOld 68 (M.Oscore.dispatch 68 ⟨false⟩ (.osc true true)).sess (.plain true)).handler = true ∧
    (M.Oscore.dispatch 68 (M.Oscore.dispatch 68 ⟨false⟩ (.osc true true)).sess (.plain true)).handler = false ∧
    (M.Oscore.dispatchOld 68 ⟨false⟩ (.plain true)).handler = false := by decide

end Coap.C14
