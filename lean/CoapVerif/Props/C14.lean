import CoapVerif.Lemmas.Oscore
/-
C14 — OSCORE protection round-trips, matches RFC 8613, and tampering is detected by the tag.

  S = Coap.Spec.Oscore (RFC 8613 written from the RFCs) over Coap.Spec.Crypto (CCM, AES, HKDF, SHA-256)
  M = Coap.M.Oscore    (transcription of src/oscore/*.c helpers and of the option split / merge)

NOT a theorem: "every modification is rejected" — that is unforgeability of the MAC, a cryptographic
assumption.  What is proved: the AEAD round-trips for every block function, decryption rejects
exactly when the recomputed tag differs (or the input is shorter than a tag), and the inputs of the
tag (AAD, nonce) determine kid / Partial IV / algorithm injectively.
-/
namespace Coap.C14
open Coap.Spec.Crypto Coap.Spec.Oscore

/-- CCM decryption undoes CCM encryption, for every block function `E` (AES-128 is one), every tag
length, nonce, associated data and message. -/
theorem ccm_roundtrip (E : Bytes → Bytes) (M : Nat) (n a p : Bytes) :
    ccmDecrypt E M n a (ccmEncrypt E M n a p) = some p := by
  have hl : (ccmEncrypt E M n a p).length = p.length + M := by
    simp [ccmEncrypt, ccmCtr_length, xorKs_length, ccmTag_length]
  have ht : (ccmEncrypt E M n a p).take p.length = ccmCtr E n p := by
    simp [ccmEncrypt, ← ccmCtr_length E n p]
  have hd : (ccmEncrypt E M n a p).drop p.length = xorKs (ccmTag E M n a p) (fit M (E (ccmCtrBlock n 0))) := by
    simp [ccmEncrypt, ← ccmCtr_length E n p]
  unfold ccmDecrypt
  have hlt : ¬ (ccmEncrypt E M n a p).length < M := by omega
  simp only [hlt, if_false]
  have hsub : (ccmEncrypt E M n a p).length - M = p.length := by omega
  rw [hsub, ht, hd, ccmCtr_ccmCtr, xorKs_xorKs]
  simp

/-- Rejection happens iff the datagram is shorter than a tag or the tag recomputed over the
recovered message differs from the transmitted one. -/
theorem tamper_detected_iff_tag_mismatch (E : Bytes → Bytes) (M : Nat) (n a c : Bytes) :
    ccmDecrypt E M n a c = none ↔
      (c.length < M ∨
       xorKs (c.drop (c.length - M)) (fit M (E (ccmCtrBlock n 0))) ≠
         ccmTag E M n a (ccmCtr E n (c.take (c.length - M)))) := by
  unfold ccmDecrypt
  by_cases h : c.length < M
  · simp [h]
  · by_cases h2 : xorKs (c.drop (c.length - M)) (fit M (E (ccmCtrBlock n 0))) =
        ccmTag E M n a (ccmCtr E n (c.take (c.length - M)))
    · simp [h, h2]
    · simp [h, h2]

/-- §6.1: decompressing a compressed COSE object gives it back, for every Partial IV of up to 5 bytes,
every kid and kid context (present or absent) whose encoding fits the option (255 bytes). -/
theorem option_value_roundtrip (v : OptVal) (hp : v.piv.length ≤ 5) (hl : (optEncode v).length ≤ 255) :
    optDecode (optEncode v) = some v := by
  obtain ⟨piv, kc, kid⟩ := v
  simp only at hp
  cases kc with
  | none =>
    cases kid with
    | none =>
      by_cases he : piv = []
      · subst he; simp [optEncode, optDecode]
      · have := decode_flags piv [] 0 0 hp (by omega) (by omega) (by simp [optEncode, he] at hl; simp; omega)
        simp [optEncode, he] at this ⊢
        exact this
    | some k =>
      have := decode_flags piv k 0 1 hp (by omega) (by omega) (by simp [optEncode] at hl; simp; omega)
      simp [optEncode] at this ⊢
      exact this
  | some c =>
    have hc : c.length < 256 := by
      simp [optEncode] at hl; omega
    have hcn : (UInt8.ofNat c.length).toNat = c.length := by
      rw [UInt8.toNat_ofNat']; omega
    cases kid with
    | none =>
      have := decode_flags piv (UInt8.ofNat c.length :: c) 1 0 hp (by omega) (by omega) (by simp [optEncode] at hl; simp; omega)
      simp [optEncode, hcn] at this ⊢
      exact this
    | some k =>
      have := decode_flags piv (UInt8.ofNat c.length :: (c ++ k)) 1 1 hp (by omega) (by omega) (by simp [optEncode] at hl; simp; omega)
      simp [optEncode, hcn] at this ⊢
      rw [this]; simp

/-- Inner and outer options recombine to the original list (requests; for responses see
`unprotect_protect`): the options that survive §8.2 step 1 of the outer message produced by
`protectRequest`, merged with the inner options, are the original options, for every list sorted
by option number that carries no OSCORE option, and every OSCORE option value. -/
theorem split_merge_inverse (os : List Opt) (ov : Bytes) (hs : os.Pairwise (fun a b => a.1 ≤ b.1))
    (hno : ∀ o ∈ os, o.1 ≠ optOscore) :
    mergeOpts (withOscore (outerOpts os) ov) (innerOpts true os) = os := by
  unfold mergeOpts
  rw [kept_outer_eq os ov hs]
  have hin : innerOpts true os = os.filter (fun o => !(classUOnly o.1 && decide (o.1 ≠ 9))) := by
    unfold innerOpts
    simp only [not_true_eq_false, and_false, if_false, List.map_id']
    apply List.filter_congr
    intro o ho
    have := hno o ho
    simp [this]
  rw [hin]
  exact merge_filter_sorted (fun n => classUOnly n && decide (n ≠ 9)) os hs

end Coap.C14
