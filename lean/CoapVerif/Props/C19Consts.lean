import CoapVerif.Model.TlsGate
import CoapVerif.Generated.Consts2
/-
C19 / T1 (workstream T1X) — the transmission parameters and the COAP_PDU_DELAYED code of the TLS-gate model are those
of the current tree (`Generated.C2.*`, rewritten from /repo's working tree on every check).
-/
namespace Coap.C19
open Coap Coap.Generated

theorem nstart_matches_code : TlsGate.NSTART = C2.COAP_DEFAULT_NSTART := by decide
theorem maxRetransmit_matches_code : TlsGate.MAX_RETRANSMIT = C2.COAP_DEFAULT_MAX_RETRANSMIT := by decide
/-- COAP_PDU_DELAYED (a negative `coap_mid_t`) -/
theorem delayed_matches_code : TlsGate.DELAYED = -(C2.COAP_PDU_DELAYED_NEG : Int) := by decide
/-- 4.01 Unauthorized, the response code `Ctx.lgResponse` looks for -/
theorem code401_matches_code : (129 : Nat) = C2.code401 := by decide

end Coap.C19
