import CoapVerif.Lemmas.Replay
import CoapVerif.Spec.Replay
/-
C15 — OSCORE never accepts a replay or reuses a nonce; forgeries leave no trace.

All theorems are about M (CoapVerif/Model/Replay.lean: `recv`, `validate`, `rollback`, `protect`, `restart`), for every
configuration (`cfg.window`, `cfg.b12` arbitrary), every recipient state where stated, and every history (a `List` of
events, by induction — no bound).  `accepted cfg r evs` are the Partial IVs of the requests accepted in the history
`evs` started in state `r`, `final cfg r evs` the state reached, `verdicts cfg r evs` what each request got.
-/
namespace Coap.C15
open Coap.Replay

/-- **A protected request is accepted by a recipient context at most once**, whatever the arrival order, window size
and Appendix B.1.2 setting: in every history of a fresh recipient context the accepted Partial IVs are pairwise
distinct. -/
theorem accept_at_most_once (cfg : Cfg) (evs : List Ev) : (accepted cfg Recip.fresh evs).Nodup :=
  (accepted_nodup_aux cfg evs Recip.fresh [] good_fresh).1

/-- The same from any state that is consistent with a set `A` of already accepted PIVs: nothing of `A` is accepted
again, and nothing is accepted twice. -/
theorem accept_at_most_once_from (cfg : Cfg) (r : Recip) (A : List Nat) (g : Good r.view A) (evs : List Ev) :
    (accepted cfg r evs).Nodup ∧ ∀ p ∈ accepted cfg r evs, p ∉ A :=
  ⟨(accepted_nodup_aux cfg evs r A g).1, (accepted_nodup_aux cfg evs r A g).2.1⟩

/-- Only requests that authenticate are accepted. -/
theorem forged_never_accepted (cfg : Cfg) (r : Recip) (ev : Ev) (h : ev.authentic = false) :
    (recv cfg r ev).2 ≠ .acc := by
  rw [recv_snd]
  rcases vrecv_cases cfg r.view ev with ⟨_, _, ha, _⟩ | ⟨_, h2, _⟩
  · rw [h] at ha; cases ha
  · exact h2

/-- **Messages that fail authentication leave the replay window and sequence state exactly as before** — in every
state (reachable or not), every configuration, any claimed Partial IV. -/
theorem forgery_no_trace (cfg : Cfg) (r : Recip) (ev : Ev) (h : ev.authentic = false) :
    (recv cfg r ev).1.view = r.view := by
  rw [recv_fst_view]
  rcases vrecv_cases cfg r.view ev with ⟨_, _, ha, _⟩ | ⟨h1, _, _⟩
  · rw [h] at ha; cases ha
  · exact h1

/-- The verdicts of a history depend on the view of the starting state only (the roll-back scratch fields never
matter). -/
theorem verdicts_view (cfg : Cfg) (evs : List Ev) : ∀ r r' : Recip, r.view = r'.view →
    verdicts cfg r evs = verdicts cfg r' evs := by
  induction evs with
  | nil => intro _ _ _; rfl
  | cons ev evs ih =>
    intro r r' h
    simp only [verdicts]
    have h1 : (recv cfg r ev).2 = (recv cfg r' ev).2 := by rw [recv_snd, recv_snd, h]
    have h2 : (recv cfg r ev).1.view = (recv cfg r' ev).1.view := by rw [recv_fst_view, recv_fst_view, h]
    rw [h1, ih _ _ h2]

/-- **… so later genuine messages are still accepted**: whatever follows a forged request gets exactly the verdicts
it would have got had the forged request never arrived. -/
theorem forgery_invisible (cfg : Cfg) (r : Recip) (ev : Ev) (h : ev.authentic = false) (evs : List Ev) :
    verdicts cfg (recv cfg r ev).1 evs = verdicts cfg r evs :=
  verdicts_view cfg evs _ _ (forgery_no_trace cfg r ev h)

/-- **No 64-bit shift by 64 or more** is executed by `oscore_validate_sender_seq` (the model exposes every shift
amount through `shl64`), in any state, for any Partial IV; hence none in `recv` either. -/
theorem no_ub_shift (cfg : Cfg) (r : Recip) (piv : Nat) : validate cfg r piv ≠ .ub := by
  rw [validate_eq]
  unfold validateC
  repeat' split
  all_goals (intro h; cases h)

theorem no_ub_recv (cfg : Cfg) (r : Recip) (ev : Ev) : (recv cfg r ev).2 ≠ .ub := by
  rw [recv_snd]
  rcases vrecv_cases cfg r.view ev with ⟨_, _, _, he⟩ | ⟨_, _, h3⟩
  · rw [he]; intro h; cases h
  · exact h3


/-- **Liveness: a genuine request inside the replay window is accepted.**  After any history of a fresh recipient
context, a request that authenticates, whose Partial IV was never accepted, is below the sequence number limit and
is less than `min window 64` below every accepted PIV (i.e. not older than the window), is accepted — provided the
Appendix B.1.2 exchange is not pending (B.1.2 off, or something was accepted already) or the request carries the
right Echo value. -/
theorem fresh_in_window_accepted (cfg : Cfg) (evs : List Ev) (ev : Ev)
    (ha : ev.authentic = true) (hp : ev.piv < SEQ_MAX)
    (hn : ev.piv ∉ accepted cfg Recip.fresh evs)
    (hw : ∀ q ∈ accepted cfg Recip.fresh evs, q < ev.piv + min cfg.window 64)
    (hs : cfg.b12 = false ∨ accepted cfg Recip.fresh evs ≠ [] ∨ ev.echo = .good) :
    (recv cfg (final cfg Recip.fresh evs) ev).2 = .acc := by
  have g := (accepted_nodup_aux cfg evs Recip.fresh [] good_fresh).2.2
  rw [List.append_nil] at g
  obtain ⟨v', hv⟩ := vvalidate_live (cfg := cfg) g hp (by simpa using hn) (by simpa using hw)
  rw [recv_snd]
  apply vrecv_acc ha hv
  rcases hs with hs | hs | hs
  · left; simp [hs]
  · left
    cases hi : (final cfg Recip.fresh evs).view.init with
    | false => simp
    | true =>
      have := g.fresh hi
      simp at this
      exact absurd this hs
  · right; exact hs

/-- **A sender context never protects two messages with the same Partial IV, also across restarts** that resume from
the value last handed to the save callback: for every `ssn_freq` (also changed at a restart), every start value a
save callback can have produced, and every sequence of protect / crash-and-restart operations (a crash may happen
between any two operations, i.e. anywhere between two save-callback invocations), the Partial IVs put on the wire
are strictly increasing.  (`ops.length < 2^63`: beyond that the `uint64_t` counter itself would wrap.) -/
theorem piv_strictly_increasing (f start : Nat) (ops : List SOp) (hs : start ≤ SEQ_MAX + 2 ^ 32)
    (hl : ops.length < 2 ^ 63) : (pivs (srun (SSys.start f start) ops)).Pairwise (· < ·) :=
  (srun_increasing ops _ [] 0 (sgood_start f start hs) (by omega)).2

theorem piv_never_reused (f start : Nat) (ops : List SOp) (hs : start ≤ SEQ_MAX + 2 ^ 32)
    (hl : ops.length < 2 ^ 63) : ReplaySpec.senderOk (pivs (srun (SSys.start f start) ops)) :=
  (piv_strictly_increasing f start ops hs hl).imp (fun h => Nat.ne_of_lt h)


/-- **P1: M refines S.**  The trace of every history of a fresh recipient context conforms to the specification
monitor (every outcome is one the monitor allows: forgeries rejected, accepted PIVs rejected, fresh in-window
requests accepted, Appendix B.1.2 outcomes). -/
theorem recv_conforms_spec (cfg : Cfg) (evs : List Ev) :
    ReplaySpec.conforms cfg.window (ReplaySpec.St.start cfg.b12) (strace cfg Recip.fresh evs) := by
  have := strace_conforms cfg evs Recip.fresh [] good_fresh
  simpa [ReplaySpec.St.start, Recip.fresh] using this

/-- **P2: S ⊨ at most once.**  Whatever implementation produced it, a trace that conforms to the monitor accepts
every Partial IV at most once. -/
theorem spec_accept_at_most_once (w : Nat) (b12 : Bool) (t : List (ReplaySpec.Req × ReplaySpec.Out))
    (h : ReplaySpec.conforms w (ReplaySpec.St.start b12) t) : (tracc t).Nodup :=
  (spec_nodup_aux w t _ (fun _ => rfl) h).1

/-- P2: a trace that conforms to the monitor rejects every request that does not authenticate. -/
theorem spec_forged_rejected (w : Nat) (s : ReplaySpec.St) (q : ReplaySpec.Req) (o : ReplaySpec.Out)
    (t : List (ReplaySpec.Req × ReplaySpec.Out)) (h : ReplaySpec.conforms w s ((q, o) :: t))
    (hq : q.authentic = false) : o = .reject := by
  have := h.1
  simpa [ReplaySpec.allowed, hq] using this

/-- P1 ∘ P2: `accept_at_most_once` again, this time through the specification. -/
theorem accepted_via_spec (cfg : Cfg) (evs : List Ev) : (accepted cfg Recip.fresh evs).Nodup := by
  rw [← tracc_strace]
  exact spec_accept_at_most_once cfg.window cfg.b12 _ (recv_conforms_spec cfg evs)

/-! ### Non-vacuity: concrete histories (the minimal witnesses of the defects fixed in libcoap, see design/C15.md) -/

private def a (p : Nat) : Ev := ⟨true, p, .none⟩
private def e (p : Nat) : Ev := ⟨true, p, .good⟩
private def x (p : Nat) : Ev := ⟨false, p, .none⟩

-- 10, 12, replay of 10, fresh 11, replay of 11 (pinned tree: replay of 10 accepted, 11 rejected)
example : verdicts ⟨32, true⟩ Recip.fresh [e 10, a 12, a 10, a 11, a 11] = [.acc, .acc, .rej401, .acc, .rej401] := by decide
-- without Appendix B.1.2 (pinned tree: everything accepted)
example : verdicts ⟨32, false⟩ Recip.fresh [a 10, a 10, x 5, a 5] = [.acc, .rej401, .rej400, .acc] := by decide
-- forged 50 after genuine 0 (pinned tree: last_seq stayed 50 and genuine 1 was rejected)
example : verdicts ⟨32, true⟩ Recip.fresh [e 0, x 50, a 1] = [.acc, .rej400, .acc] := by decide
example : (final ⟨32, true⟩ Recip.fresh [e 0, x 50]).view = (final ⟨32, true⟩ Recip.fresh [e 0]).view := by decide
-- 10, 12, 8, replay of 12 (pinned tree: last_seq lowered to 8, 12 accepted again)
example : verdicts ⟨32, true⟩ Recip.fresh [e 10, a 12, a 8, a 12] = [.acc, .acc, .acc, .rej401] := by decide
-- a jump of 95 (pinned tree: window << 95)
example : verdicts ⟨32, true⟩ Recip.fresh [e 5, a 100, a 5, a 101] = [.acc, .acc, .rej401, .acc] := by decide
-- Appendix B.1.2 exchange: challenge, then the Echo request, then the challenged request itself (never accepted before)
example : verdicts ⟨32, true⟩ Recip.fresh [a 4, e 5, e 5, a 4] = [.chal, .acc, .rej401, .acc] := by decide
-- the hypotheses of fresh_in_window_accepted are satisfiable with a non-trivial history
example : accepted ⟨3, false⟩ Recip.fresh [a 10, a 12, x 11] = [10, 12] := by decide
-- sender: ssn_freq 4, crash after PIV 5 (stored value 8), resume at 8
example : pivs (srun (SSys.start 4 0) [.protect, .protect, .protect, .protect, .protect, .protect, .crash 4, .protect])
    = [0, 1, 2, 3, 4, 5, 8] := by decide

end Coap.C15
