import CoapVerif.Lemmas.Replay
import CoapVerif.Lemmas.ReplayEndp
import CoapVerif.Lemmas.ReplayReqNonce
import CoapVerif.Model.ReplayB2
import CoapVerif.Spec.Replay
/-
C15 — OSCORE never accepts a replay or reuses a nonce; forgeries leave no trace.

All theorems are about M (CoapVerif/Model/Replay.lean: `step` = `recv` (request branch of coap_oscore_decrypt_pdu) /
`recvRsp` (response branch), `validate`, `rollback`, `protect`, `restart`), for every configuration (`cfg.window`,
`cfg.b12` arbitrary), every recipient state where stated, and every history — a `List Msg` in which protected requests
and protected responses (Observe notifications carrying the peer's sequence number as their own Partial IV, responses
without Partial IV, authentic or forged) of the same peer are interleaved in any order on ONE recipient context; by
induction, no bound.  `accepted cfg r ms` are the Partial IVs of the requests accepted in the history `ms` started in
state `r`, `recorded cfg r ms` those recorded in the replay window (accepted requests and validated accepted
responses), `final cfg r ms` the state reached, `verdicts cfg r ms` what each message got.
-/
namespace Coap.C15
open Coap.Replay

/-- Every Partial IV is recorded in the replay window at most once, by a request or by a response: in every history
of a fresh recipient context the recorded PIVs are pairwise distinct. -/
theorem recorded_at_most_once (cfg : Cfg) (ms : List Msg) : (recorded cfg Recip.fresh ms).Nodup :=
  (recorded_nodup_aux cfg ms Recip.fresh [] 0 (good_fresh 0)).1

/-- **A protected request is accepted by a recipient context at most once**, whatever the arrival order, window size
and Appendix B.1.2 setting, and whatever responses (with older or newer Partial IVs, authentic or forged) arrive in
between on the same context: in every history of a fresh recipient context the Partial IVs of the accepted requests
are pairwise distinct. -/
theorem accept_at_most_once (cfg : Cfg) (ms : List Msg) : (accepted cfg Recip.fresh ms).Nodup :=
  (recorded_at_most_once cfg ms).sublist (accepted_sublist cfg ms _)

/-- The same from any state that is consistent with a set `A` of already recorded PIVs: nothing of `A` is accepted
again, and nothing is accepted twice. -/
theorem accept_at_most_once_from (cfg : Cfg) (r : Recip) (A : List Nat) (F : Nat) (g : Good r.view A F) (ms : List Msg) :
    (accepted cfg r ms).Nodup ∧ ∀ p ∈ accepted cfg r ms, p ∉ A :=
  ⟨(recorded_nodup_aux cfg ms r A F g).1.sublist (accepted_sublist cfg ms _),
    fun p hp => (recorded_nodup_aux cfg ms r A F g).2.1 p ((accepted_sublist cfg ms r).subset hp)⟩

/-- **… also across restarts with Appendix B.1.2.**  A recipient context lives several lives (`ls`: the history of each
life, every life starts from a fresh context — the replay window is lost in the crash).  With B.1.2 enabled, and the
Echo exchange fresh (`EchoFresh`: a request that carries the current Echo value of a life was protected after that life
began, so its Partial IV is above every Partial IV accepted in earlier lives — the sender side is
`piv_strictly_increasing`), the Partial IVs of the requests accepted over ALL lives are pairwise distinct: a datagram
accepted before the crash is never accepted again, however close below the Partial IV of the Echo request it lies
(fix a6e248b: that Partial IV is the lower edge of the new window, RFC 8613 B.1.2). -/
theorem accept_at_most_once_across_restarts (cfg : Cfg) (hb : cfg.b12 = true) (ls : List (List Msg))
    (hf : EchoFresh cfg [] ls) : (acceptedLives cfg ls).Nodup :=
  (acceptedLives_nodup cfg hb ls [] hf).1

/-- After the Appendix B.1.2 exchange nothing below the Partial IV of the request that completed it is ever accepted. -/
theorem nothing_below_echo_request (cfg : Cfg) (hb : cfg.b12 = true) (ms : List Msg) (p : Nat)
    (hp : p ∈ accepted cfg Recip.fresh ms) : ∃ ev, Msg.req ev ∈ ms ∧ ev.echo = .good ∧ ev.piv ≤ p :=
  (accepted_above_floor cfg hb ms Recip.fresh [] 0 (good_fresh 0) p hp).2 rfl

/-- Only messages that authenticate are accepted (requests and responses, any state). -/
theorem forged_never_accepted (cfg : Cfg) (r : Recip) (m : Msg) (h : m.authentic = false) :
    (step cfg r m).2 ≠ .acc := by
  cases m with
  | req ev =>
    simp only [step]
    rw [recv_snd]
    rcases vrecv_cases cfg r.view ev with ⟨_, _, ha, _⟩ | ⟨_, h2, _⟩
    · have h' : ev.authentic = false := h
      rw [h'] at ha; cases ha
    · exact h2
  | rsp x =>
    simp only [step]
    rw [recvRsp_snd]
    exact vrecvRsp_forged_not_acc cfg r.view x h

/-- A request that fails authentication leaves the replay window and sequence state exactly as before — in every
state (reachable or not), every configuration, any claimed Partial IV. -/
theorem forged_request_no_trace (cfg : Cfg) (r : Recip) (ev : Ev) (h : ev.authentic = false) :
    (recv cfg r ev).1.view = r.view := by
  rw [recv_fst_view]
  rcases vrecv_cases cfg r.view ev with ⟨_, _, ha, _⟩ | ⟨h1, _, _⟩
  · rw [h] at ha; cases ha
  · exact h1

/-- **Messages that fail authentication leave the replay window and sequence state exactly as before** — requests
and responses, every configuration, any claimed Partial IV (or none), in every state in which `last_seq` is below
`OSCORE_SEQ_MAX` once the window is initialised (`Sane`; every reachable state is, `reachable_sane`). -/
theorem forgery_no_trace (cfg : Cfg) (r : Recip) (m : Msg) (h : m.authentic = false) (hs : Sane r.view) :
    (step cfg r m).1.view = r.view := by
  cases m with
  | req ev => exact forged_request_no_trace cfg r ev h
  | rsp x =>
    simp only [step]
    rw [recvRsp_fst_view, vrecvRsp_forged h hs]

/-- Every state reached from a fresh recipient context by any history of requests and responses is `Sane`. -/
theorem reachable_sane (cfg : Cfg) (ms : List Msg) : Sane (final cfg Recip.fresh ms).view :=
  (recorded_nodup_aux cfg ms Recip.fresh [] 0 (good_fresh 0)).2.2.lt

/-- `forgery_no_trace` for the states that occur: after any history, a message that fails authentication changes
nothing. -/
theorem forgery_no_trace_reachable (cfg : Cfg) (ms : List Msg) (m : Msg) (h : m.authentic = false) :
    (step cfg (final cfg Recip.fresh ms) m).1.view = (final cfg Recip.fresh ms).view :=
  forgery_no_trace cfg _ m h (reachable_sane cfg ms)

/-- The verdicts of a history depend on the view of the starting state only (the roll-back scratch fields never
matter). -/
theorem verdicts_view (cfg : Cfg) (ms : List Msg) : ∀ r r' : Recip, r.view = r'.view →
    verdicts cfg r ms = verdicts cfg r' ms := by
  induction ms with
  | nil => intro _ _ _; rfl
  | cons m ms ih =>
    intro r r' h
    simp only [verdicts]
    have h1 : (step cfg r m).2 = (step cfg r' m).2 := by rw [step_snd, step_snd, h]
    have h2 : (step cfg r m).1.view = (step cfg r' m).1.view := by rw [step_fst_view, step_fst_view, h]
    rw [h1, ih _ _ h2]

/-- **… so later genuine messages are still accepted**: whatever follows a message that failed authentication
(requests and responses) gets exactly the verdicts it would have got had the forged message never arrived. -/
theorem forgery_invisible (cfg : Cfg) (r : Recip) (m : Msg) (h : m.authentic = false) (hs : Sane r.view)
    (ms : List Msg) : verdicts cfg (step cfg r m).1 ms = verdicts cfg r ms :=
  verdicts_view cfg ms _ _ (forgery_no_trace cfg r m h hs)

/-- **No 64-bit shift by 64 or more** is executed by `oscore_validate_sender_seq` (the model exposes every shift
amount through `shl64`), in any state, for any Partial IV; hence none in `step` (request or response) either. -/
theorem no_ub_shift (cfg : Cfg) (r : Recip) (piv : Nat) : validate cfg r piv ≠ .ub := by
  rw [validate_eq]
  unfold validateC
  repeat' split
  all_goals (intro h; cases h)

theorem no_ub_recv (cfg : Cfg) (r : Recip) (m : Msg) : (step cfg r m).2 ≠ .ub := by
  cases m with
  | req ev =>
    simp only [step]
    rw [recv_snd]
    rcases vrecv_cases cfg r.view ev with ⟨_, _, _, ⟨he, _⟩ | ⟨_, _, _, he⟩⟩ | ⟨_, _, h3⟩
    · rw [he]; intro h; cases h
    · rw [he]; intro h; cases h
    · exact h3
  | rsp x =>
    simp only [step]
    rw [recvRsp_snd]
    exact vrecvRsp_not_ub cfg r.view x


/-- **Liveness: a genuine request inside the replay window is accepted.**  After any history of requests and
responses of a fresh recipient context, a request that authenticates, whose Partial IV was never recorded (accepted
in a request, or in a validated response), is below the sequence number limit and is less than `min window 64` below
every recorded PIV (i.e. not older than the window), is accepted — provided the Appendix B.1.2 exchange is not
pending (B.1.2 off, or something was recorded already) or the request carries the right Echo value. -/
theorem fresh_in_window_accepted (cfg : Cfg) (ms : List Msg) (ev : Ev)
    (ha : ev.authentic = true) (hp : ev.piv < SEQ_MAX)
    (hn : ev.piv ∉ recorded cfg Recip.fresh ms)
    (hw : ∀ q ∈ recorded cfg Recip.fresh ms, q < ev.piv + min cfg.window 64)
    (hs : cfg.b12 = false ∨ recorded cfg Recip.fresh ms ≠ [] ∨ ev.echo = .good)
    (hf : floorOf cfg Recip.fresh ms 0 ≤ ev.piv) :
    (step cfg (final cfg Recip.fresh ms) (.req ev)).2 = .acc := by
  have g := (recorded_nodup_aux cfg ms Recip.fresh [] 0 (good_fresh 0)).2.2
  rw [List.append_nil] at g
  obtain ⟨v', hv⟩ := vvalidate_live (cfg := cfg) g hp (by simpa using hn) (by simpa using hw) (fun _ => hf)
  simp only [step]
  rw [recv_snd]
  apply vrecv_acc ha hv
  rcases hs with hs | hs | hs
  · left; simp [hs]
  · left
    cases hi : (final cfg Recip.fresh ms).view.init with
    | false => simp
    | true =>
      have := g.fresh hi
      simp at this
      exact absurd this hs
  · right; exact hs

/-- Liveness for responses: a genuine response without Partial IV is accepted in every state; a genuine response
(notification) whose Partial IV is below the limit, was never recorded and is not older than the window is accepted
after any history (before the window is initialised: provided no Partial IV ≥ 2^40 − 1 was accepted, D15f). -/
theorem response_without_piv_accepted (cfg : Cfg) (r : Recip) :
    step cfg r (.rsp ⟨true, none⟩) = (r, .acc) := rfl

theorem fresh_response_accepted (cfg : Cfg) (ms : List Msg) (p : Nat) (hp : p < SEQ_MAX)
    (hn : p ∉ recorded cfg Recip.fresh ms)
    (hw : ∀ q ∈ recorded cfg Recip.fresh ms, q < p + min cfg.window 64)
    (hl : (final cfg Recip.fresh ms).init = true → (final cfg Recip.fresh ms).last < SEQ_MAX)
    (hf : floorOf cfg Recip.fresh ms 0 ≤ p) :
    (step cfg (final cfg Recip.fresh ms) (.rsp ⟨true, some p⟩)).2 = .acc := by
  have g := (recorded_nodup_aux cfg ms Recip.fresh [] 0 (good_fresh 0)).2.2
  rw [List.append_nil] at g
  simp only [step]
  rw [recvRsp_snd]
  cases hi : (final cfg Recip.fresh ms).init with
  | true =>
    have h1 := hl hi
    have hi' : (final cfg Recip.fresh ms).view.init = true := hi
    have hl' : (final cfg Recip.fresh ms).view.last = (final cfg Recip.fresh ms).last := rfl
    have h2 : ¬ (final cfg Recip.fresh ms).last ≥ SEQ_MAX := by omega
    unfold vrecvRsp
    simp [hi', hl', h2]
  | false =>
    have hi' : (final cfg Recip.fresh ms).view.init = false := hi
    obtain ⟨v', hv⟩ := vvalidate_live (cfg := cfg) g hp (by simpa using hn) (by simpa using hw) (fun _ => hf)
    have hlt := vvalidate_last_lt hv (g.lt : Sane _)
    have h2 : ¬ v'.last ≥ SEQ_MAX := by omega
    unfold vrecvRsp
    simp [hi', hv, h2]

/-- **A sender context never protects two messages with the same Partial IV, also across restarts** that resume from
the value last handed to the save callback: for every `ssn_freq` (also changed at a restart), every start value a
save callback can have produced, and every sequence of protect / crash-and-restart operations (a crash may happen
between any two operations, i.e. anywhere between two save-callback invocations), the Partial IVs put on the wire
are strictly increasing.  (`ops.length < 2^63`: beyond that the `uint64_t` counter itself would wrap.) -/
theorem piv_strictly_increasing (f start : Nat) (ops : List SOp) (hs : start ≤ SEQ_MAX + 2 ^ 32)
    (hl : ops.length < 2 ^ 63) : (pivs (srun (SSys.start f start) ops)).Pairwise (· < ·) :=
  (srun_increasing ops _ [] 0 (sgood_start f start hs) (by omega)).2

theorem piv_never_reused (f start : Nat) (ops : List SOp) (hs : start ≤ SEQ_MAX + 2 ^ 32)
    (hl : ops.length < 2 ^ 63) : ReplaySpec.senderOk (pivs (srun (SSys.start f start) ops)) :=
  (piv_strictly_increasing f start ops hs hl).imp (fun h => Nat.ne_of_lt h)


/-- **P1: M refines S.**  The trace of every history of requests and responses of a fresh recipient context conforms
to the specification monitor (every outcome is one the monitor allows: forgeries rejected, accepted request PIVs
rejected, fresh in-window requests and responses accepted, Appendix B.1.2 outcomes). -/
theorem recv_conforms_spec (cfg : Cfg) (ms : List Msg) :
    ReplaySpec.conforms cfg.window (ReplaySpec.St.start cfg.b12) (strace cfg Recip.fresh ms) :=
  strace_conforms cfg ms Recip.fresh [] _ (rel_start cfg)

/-- **P2: S ⊨ at most once.**  Whatever implementation produced it, a trace that conforms to the monitor accepts
every request Partial IV at most once, whatever responses are interleaved. -/
theorem spec_accept_at_most_once (w : Nat) (b12 : Bool) (t : List (ReplaySpec.Msg × ReplaySpec.Out))
    (h : ReplaySpec.conforms w (ReplaySpec.St.start b12) t) : (tracc t).Nodup :=
  (spec_nodup_aux w t _ (fun _ => rfl) h).1

/-- P2: a trace that conforms to the monitor rejects every message (request or response) that does not
authenticate, and the monitor state is then unchanged. -/
theorem spec_forged_rejected (w : Nat) (s : ReplaySpec.St) (m : ReplaySpec.Msg) (o : ReplaySpec.Out)
    (t : List (ReplaySpec.Msg × ReplaySpec.Out)) (h : ReplaySpec.conforms w s ((m, o) :: t))
    (hq : m.authentic = false) : o = .reject ∧ ReplaySpec.next s m o = s := by
  have := h.1
  have ho : o = .reject := by
    cases m with
    | req q =>
      have hq' : q.authentic = false := hq
      simpa [ReplaySpec.allowed, ReplaySpec.allowedReq, hq'] using this
    | rsp x =>
      have hq' : x.authentic = false := hq
      simpa [ReplaySpec.allowed, ReplaySpec.allowedRsp, hq'] using this
  exact ⟨ho, next_not_accept _ _ _ (by rw [ho]; intro h; cases h)⟩

/-- P1 ∘ P2: `accept_at_most_once` again, this time through the specification. -/
theorem accepted_via_spec (cfg : Cfg) (ms : List Msg) : (accepted cfg Recip.fresh ms).Nodup := by
  rw [← tracc_strace]
  exact spec_accept_at_most_once cfg.window cfg.b12 _ (recv_conforms_spec cfg ms)

/-! ### Datagrams: ciphertext absent or not longer than the AEAD tag (seed C15-11) -/

/-- A protected message without any payload is dropped before anything is looked at. -/
theorem no_payload_dropped (cfg : Cfg) (r : Recip) (m : Msg) : stepD cfg r ⟨m, 0⟩ = (r, .drop) := by
  simp [stepD]

theorem short_ciphertext_forged (d : Dgram) (hw : d.wf) (hl : d.clen ≤ TAG_LEN) : d.msg.authentic = false := by
  cases h : d.msg.authentic with
  | false => rfl
  | true => have := hw h; omega

/-- **A message whose ciphertext is not longer than the AEAD tag (0..8 bytes) is never accepted** … -/
theorem short_ciphertext_never_accepted (cfg : Cfg) (r : Recip) (d : Dgram) (hw : d.wf) (hl : d.clen ≤ TAG_LEN) :
    (stepD cfg r d).2 ≠ .acc := by
  unfold stepD
  split
  · intro h; cases h
  · exact forged_never_accepted cfg r d.msg (short_ciphertext_forged d hw hl)

/-- … **and leaves the replay window and sequence state exactly as before** (request or response, any claimed Partial
IV, every `Sane` state). -/
theorem short_ciphertext_no_trace (cfg : Cfg) (r : Recip) (d : Dgram) (hw : d.wf) (hl : d.clen ≤ TAG_LEN)
    (hs : Sane r.view) : (stepD cfg r d).1.view = r.view := by
  unfold stepD
  split
  · rfl
  · exact forgery_no_trace cfg r d.msg (short_ciphertext_forged d hw hl) hs

theorem short_ciphertext_no_trace_reachable (cfg : Cfg) (ds : List Dgram) (d : Dgram) (hw : d.wf)
    (hl : d.clen ≤ TAG_LEN) :
    (stepD cfg (finalD cfg Recip.fresh ds) d).1.view = (finalD cfg Recip.fresh ds).view := by
  apply short_ciphertext_no_trace cfg _ d hw hl
  rw [finalD_eq]
  exact reachable_sane cfg _

/-- `accept_at_most_once` over histories of datagrams of any ciphertext length. -/
theorem accept_at_most_once_dgram (cfg : Cfg) (ds : List Dgram) : (acceptedD cfg Recip.fresh ds).Nodup := by
  rw [acceptedD_eq]
  exact accept_at_most_once cfg _

/-! ### Which nonce a message is protected with (seed C15-12): step facts

Every notification, every response to an Observe request, every request takes the Sender Sequence Number (which then
increases), and a request that fails authentication never changes the nonce a response is protected with.  The history
theorems are in the section "Nonces over whole histories" below. -/

/-- the Partial IV taken from the Sender Sequence Number is the current one, and the counter moves on -/
theorem ownPiv_fresh (y : SSys) (h : y.s.seq < 2 ^ 64 - 1) :
    ((ownPiv y).2 = none ∨ (ownPiv y).2 = some y.s.seq) ∧ (ownPiv y).1.s.seq = y.s.seq + 1 := by
  have h1 : (y.s.seq + 1) % 2 ^ 64 = y.s.seq + 1 := Nat.mod_eq_of_lt (by omega)
  unfold ownPiv protect
  simp only [h1]
  repeat' split
  all_goals simp

/-- **A notification is always protected with a fresh Partial IV of its own** (never with the nonce of the request). -/
theorem notification_fresh_piv (cfg : Cfg) (e : Endp) (t : Nat) (sendPiv : Bool) (h : e.snd.seq < 2 ^ 64 - 1) :
    (nstep cfg e (.sendRsp t true sendPiv)).2 = .err ∨
    ((nstep cfg e (.sendRsp t true sendPiv)).2 = .sent (some e.snd.seq) (.own e.snd.seq) ∧
      (nstep cfg e (.sendRsp t true sendPiv)).1.snd.seq = e.snd.seq + 1) := by
  obtain ⟨h1, h2⟩ := ownPiv_fresh e.sys h
  cases ha : e.assocs t with
  | none => left; simp [nstep, respond, ha]
  | some a =>
    cases hc : a.client with
    | true => left; simp [nstep, respond, ha, hc]
    | false =>
      rcases h1 with h1 | h1
      · left; simp [nstep, respond, ha, hc, h1]
      · right; simp [nstep, respond, ha, hc, h1, Endp.snd, h2]

/-- So is every response (with or without Observe option) to an Observe request: its association is kept, the nonce of
the request could otherwise be used twice (fix 155f0b4). -/
theorem observe_response_fresh_piv (cfg : Cfg) (e : Endp) (t : Nat) (a : Assoc) (obsOpt sendPiv : Bool)
    (ha : e.assocs t = some a) (ho : a.observe = true) (h : e.snd.seq < 2 ^ 64 - 1) :
    (nstep cfg e (.sendRsp t obsOpt sendPiv)).2 = .err ∨
    ((nstep cfg e (.sendRsp t obsOpt sendPiv)).2 = .sent (some e.snd.seq) (.own e.snd.seq) ∧
      (nstep cfg e (.sendRsp t obsOpt sendPiv)).1.snd.seq = e.snd.seq + 1) := by
  obtain ⟨h1, h2⟩ := ownPiv_fresh e.sys h
  have hc : (obsOpt || (sendPiv || !obsOpt)) = true := by cases obsOpt <;> cases sendPiv <;> rfl
  cases hcl : a.client with
  | true => left; simp [nstep, respond, ha, hcl]
  | false =>
    rcases h1 with h1 | h1
    · left; simp [nstep, respond, ha, ho, hcl, hc, h1]
    · right; simp [nstep, respond, ha, ho, hcl, hc, h1, Endp.snd, h2]

/-- A request that fails authentication changes no association: the nonce a response is protected with is never one
an attacker chose (fix b3c6528). -/
theorem forged_request_no_association (cfg : Cfg) (e : Endp) (t : Nat) (ev : Ev) (obs : Bool) (h : ev.authentic = false) :
    (nstep cfg e (.reqIn t ev obs)).1.assocs = e.assocs := by
  have hd : decrypted cfg e.rcp ev = false := by
    unfold decrypted
    simp only [h]
    split <;> rfl
  have hacc : (recv cfg e.rcp ev).2 ≠ .acc := forged_never_accepted cfg e.rcp (.req ev) h
  have hch : (recv cfg e.rcp ev).2 ≠ .chal := by
    intro hc
    rw [recv_chal_decrypted hc] at hd
    cases hd
  simp [nstep, hd, hacc, hch]

/-- **An association that belongs to a request sent from this end never protects a response** (fix bba9d79: the table is
keyed by the token only and shared by both roles; the nonce it holds is the one that request was protected with). -/
theorem client_association_never_responds (cfg : Cfg) (e : Endp) (t : Nat) (a : Assoc) (obsOpt sendPiv : Bool)
    (ha : e.assocs t = some a) (hc : a.client = true) :
    nstep cfg e (.sendRsp t obsOpt sendPiv) = (e, .err) := by
  simp [nstep, respond, ha, hc]

/-! ### Nonces over whole histories of the sender side

`nrun cfg (Endp.start f start) ops`: every history of one endpoint that is client and server on one security context
and one session — protected requests of the peer arrive (authentic or forged, any token, any Partial IV, with / without /
with a wrong Echo value, Observe or not), the endpoint protects requests of its own (their tokens in the SAME table as
those of the requests it received), responses without Partial IV, with `OSCORE_SEND_PARTIAL_IV`, notifications and the
Appendix B.1.2 challenge, the save callback runs at the `ssn_freq` watermark (Appendix B.1.1), the process crashes
anywhere and restarts from the value last handed to the callback (also with another `ssn_freq`).  Every message is
protected with the Sender Key; `nonces` is the ghost log of the nonces handed to the AEAD. -/

/-- **The Partial IVs used with the endpoint's own Sender ID are strictly increasing along every history** — requests,
responses with their own Partial IV, notifications, Echo challenges; across save watermarks, crashes and restarts;
whatever arrives, whatever the tokens, Appendix B.1.2 on or off: no (Sender Key, own nonce) pair is used twice. -/
theorem own_piv_strictly_increasing (cfg : Cfg) (f start : Nat) (ops : List NOp) (hs : start ≤ SEQ_MAX + 2 ^ 32)
    (hl : ops.length < 2 ^ 63) : (ownsOf (nonces (nrun cfg (Endp.start f start) ops))).Pairwise (· < ·) :=
  (nrun_owns cfg ops _ [] 0 (ninv_start f start hs) (by omega)).2

theorem own_nonce_never_reused (cfg : Cfg) (f start : Nat) (ops : List NOp) (hs : start ≤ SEQ_MAX + 2 ^ 32)
    (hl : ops.length < 2 ^ 63) : (ownsOf (nonces (nrun cfg (Endp.start f start) ops))).Nodup :=
  (own_piv_strictly_increasing cfg f start ops hs hl).imp (fun h => Nat.ne_of_lt h)

/-- **A response is never protected with a nonce of the endpoint's own** other than the fresh one of its own Partial
IV: every message that goes out without a Partial IV uses the nonce of a request of the PEER (`Nonce.ofReq`) — in every
state reached by any history (fix bba9d79; before it an own request with the token of an unanswered received request
handed its nonce to the response). -/
theorem response_nonce_is_peers (cfg : Cfg) (f start : Nat) (ops : List NOp) (hs : start ≤ SEQ_MAX + 2 ^ 32)
    (hl : ops.length < 2 ^ 63) (op : NOp) (n : Nonce)
    (h : (nstep cfg (nfinal cfg (Endp.start f start) ops) op).2 = .sent none n) : ∃ q, n = .ofReq q := by
  obtain ⟨U, g⟩ := nfinal_inv cfg ops _ [] 0 (ninv_start f start hs) (by omega)
  exact sent_none_ofReq ⟨U, _, g, by omega⟩ op n h

/-- **A response that re-uses the nonce of the request it answers does so at most once per accepted request**: along
every sender-side history of an endpoint — requests of the peer arrive (authentic or forged, any token, any Partial IV,
with / without / with a wrong Echo value, Observe or not, replayed, the same datagram under another token), the endpoint
sends requests of its own (tokens in the same table), responses of every kind for ANY token (also for tokens it was
never given a request for, also twice), Echo challenges — with Appendix B.1.2 on or off, any window, any `ssn_freq` and
start value, as long as the process is not restarted, the request nonces handed to the AEAD (`Nonce.ofReq`, always with
the Sender Key) are pairwise distinct.  No hypothesis on the application.  Needs the R15c fix (a request caught by the
Appendix B.1.2 trap leaves no association): invariant `RInv` — every association that can protect a response holds
the nonce of a request whose Partial IV is recorded in the replay window and that no response has used yet. -/
theorem request_nonce_used_at_most_once (cfg : Cfg) (f start : Nat) (ops : List NOp)
    (hc : ∀ op ∈ ops, ∀ f', op ≠ .crash f') : (ofReqsOf (nonces (nrun cfg (Endp.start f start) ops))).Nodup :=
  (nrun_ofReqs cfg ops (Endp.start f start) [] 0 [] (rinv_start 0) hc).2

/-- the same for every life of the endpoint: after any history `ops1` (restarts included) and a restart, the request
nonces used until the next restart are pairwise distinct -/
theorem request_nonce_used_at_most_once_per_life (cfg : Cfg) (f start : Nat) (ops1 : List NOp) (f' : Nat) (ops2 : List NOp)
    (hc : ∀ op ∈ ops2, ∀ f'', op ≠ .crash f'') :
    (ofReqsOf (nonces (nrun cfg (nfinal cfg (Endp.start f start) (ops1 ++ [.crash f'])) ops2))).Nodup := by
  rw [nfinal_append]
  exact (nrun_ofReqs cfg ops2 _ [] 0 [] (rinv_start 0) hc).2

/-- **No (Sender Key, nonce) pair is used twice** in a life of the endpoint: the own nonces (`own_nonce_never_reused`)
and the request nonces (`request_nonce_used_at_most_once`) together — every nonce handed to the AEAD along a history
without a restart is different from every other one. -/
theorem nonce_never_reused (cfg : Cfg) (f start : Nat) (ops : List NOp) (hs : start ≤ SEQ_MAX + 2 ^ 32)
    (hl : ops.length < 2 ^ 63) (hc : ∀ op ∈ ops, ∀ f', op ≠ .crash f') :
    (nonces (nrun cfg (Endp.start f start) ops)).Nodup :=
  nodup_of_halves _ (own_nonce_never_reused cfg f start ops hs hl) (request_nonce_used_at_most_once cfg f start ops hc)

/- Why "without a restart": after a crash the replay window is fresh; with Appendix B.1.2 off the peer's old request is
accepted again and answered under the same nonce (RFC 8613 7.5.1 — a deployment that restarts needs B.1.2 or a persisted
window; witness below).  With B.1.2 on, `accept_at_most_once_across_restarts` (under `EchoFresh`) gives distinct accepted
Partial IVs over all lives; lifting `request_nonce_used_at_most_once` over restarts along it is not done. -/

/-! ### Appendix B.2, client side: a response that does not verify leaves the security context untouched

`ReplayB2.recvForged`: the response branch of `coap_oscore_decrypt_pdu` while `b_2_step != NONE` takes the kid context of
the OSCORE option — not authenticated — and re-derives the context (`oscore_update_ctx`) before the response is verified.
After fix 6ebee56 every error exit puts `b_2_step` and the ID Context (with it Sender Key, Recipient Key, Common IV)
back. -/

theorem b2Update_cases {s s1 : ReplayB2.B2} {kc : Option (List Nat)} (h : ReplayB2.b2Update s kc = some s1) :
    s1.step = 3 ∨ (s1.step = 5 ∧ s1.idctx = s.idctx) := by
  unfold ReplayB2.b2Update at h
  cases kc with
  | none => simp at h; subst h; right; exact ⟨rfl, rfl⟩
  | some w =>
    dsimp only at h
    cases hu : ReplayB2.unwrap w with
    | none => rw [hu] at h; cases h
    | some k =>
      rw [hu] at h
      dsimp only at h
      by_cases hk : k ≠ s.idctx
      · rw [if_pos hk] at h; injection h with h; subst h; left; rfl
      · rw [if_neg hk] at h; injection h with h; subst h; right; exact ⟨rfl, rfl⟩

/-- **A forged Appendix B.2 message leaves the context untouched**: whatever the step of the exchange (also `NONE`),
whatever the ID Context, whatever the kid context field of the OSCORE option (absent, empty, not a CBOR byte string, any
byte string, the current ID Context itself) — a response that does not verify is dropped and `b_2_step` and the ID
Context (hence every key derived from it) are exactly as before. -/
theorem forged_b2_response_no_trace (s : ReplayB2.B2) (kc : Option (List Nat)) :
    (ReplayB2.recvForged s kc).1 = s ∧ (ReplayB2.recvForged s kc).2 = .drop := by
  unfold ReplayB2.recvForged
  by_cases h0 : s.step = 0
  · rw [if_pos h0]; exact ⟨rfl, rfl⟩
  · rw [if_neg h0]
    dsimp only
    cases hu : ReplayB2.b2Update s kc with
    | none => exact ⟨rfl, rfl⟩
    | some s1 =>
      dsimp only
      refine ⟨?_, rfl⟩
      rcases b2Update_cases hu with h3 | ⟨h5, hid⟩
      · rw [if_pos h3]
      · have : ¬ s1.step = 3 := by rw [h5]; decide
        rw [if_neg this]
        dsimp only
        rw [hid]

/-- any number of forged responses, any interleaving of kid contexts: every one is dropped and the state never moves -/
theorem forged_b2_history_no_trace (kcs : List (Option (List Nat))) : ∀ s : ReplayB2.B2,
    ∀ x ∈ ReplayB2.run s kcs, x = (Verdict.drop, s) := by
  induction kcs with
  | nil => intro s x hx; cases hx
  | cons kc r ih =>
    intro s x hx
    obtain ⟨h1, h2⟩ := forged_b2_response_no_trace s kc
    simp only [ReplayB2.run, List.mem_cons] at hx
    rw [h1, h2] at hx
    rcases hx with rfl | hx
    · rfl
    · exact ih s x hx

theorem srvUpdate_cases {s s1 : ReplayB2.Srv} {w : List Nat} {b : Bool} (h : ReplayB2.srvUpdate s w = some (s1, b)) :
    s1.r2 = s.r2 ∧ (b = false → ReplayB2.findExact s.ctxs w ≠ none ∧ s1 = { s with step := 0 }) := by
  unfold ReplayB2.srvUpdate at h
  cases hf : ReplayB2.findExact s.ctxs w with
  | some i =>
    rw [hf] at h
    simp only [Option.some.injEq, Prod.mk.injEq] at h
    obtain ⟨h1, h2⟩ := h
    subst h1
    exact ⟨rfl, fun _ => ⟨by simp, rfl⟩⟩
  | none =>
    rw [hf] at h
    dsimp only at h
    split at h
    · split at h
      · cases h
      · split at h
        · cases h
        · split at h
          · simp only [Option.some.injEq, Prod.mk.injEq] at h
            obtain ⟨h1, h2⟩ := h
            subst h1; subst h2
            exact ⟨rfl, fun hb => by cases hb⟩
          · simp only [Option.some.injEq, Prod.mk.injEq] at h
            obtain ⟨h1, h2⟩ := h
            subst h1; subst h2
            exact ⟨rfl, fun hb => by cases hb⟩
    · cases h

/-- **Server side: a forged Appendix B.2 request leaves the context untouched.**  For every state of the server (any step,
`oscore_r2` set or not, any set of security contexts) and every kid context field: a request that does not verify is
answered 4.01 / 4.00 and `b_2_step`, `oscore_r2` and the security contexts (their number, the ID Context of each) are
exactly as before — no context is left behind at step 2, the ID Context of the exchange is not replaced at step 4.
Hypothesis: the kid context field is not literally the ID Context of an existing context, or no exchange is under way
(such a request takes the ordinary path, which ends the exchange: `b_2_step = NONE` — "server finished" — before the
verification; the genuine request #2 sets it again). -/
theorem forged_b2_request_no_trace (s : ReplayB2.Srv) (w : List Nat)
    (h : ReplayB2.findExact s.ctxs w = none ∨ s.step = 0) :
    (ReplayB2.recvForgedReq s w).1 = s ∧ (ReplayB2.recvForgedReq s w).2 ≠ .acc := by
  unfold ReplayB2.recvForgedReq
  cases hu : ReplayB2.srvUpdate s w with
  | none => exact ⟨rfl, by simp⟩
  | some x =>
    obtain ⟨s1, b⟩ := x
    obtain ⟨hr, hb⟩ := srvUpdate_cases hu
    cases b with
    | true =>
      refine ⟨?_, by simp⟩
      simp only [if_true]
      cases s1; cases s
      simp only at hr
      simp [hr]
    | false =>
      refine ⟨?_, by simp⟩
      obtain ⟨hne, hs1⟩ := hb rfl
      simp only [Bool.false_eq_true, if_false]
      rcases h with h | h
      · exact absurd h hne
      · rw [hs1]; cases s; simp only at h; simp [h]

/-- any number of forged requests in any order: the server never moves -/
theorem forged_b2_requests_no_trace (ws : List (List Nat)) : ∀ s : ReplayB2.Srv,
    (∀ w ∈ ws, ReplayB2.findExact s.ctxs w = none ∨ s.step = 0) → ∀ x ∈ ReplayB2.runSrv s ws, x.2 = s := by
  induction ws with
  | nil => intro s _ x hx; cases hx
  | cons w r ih =>
    intro s h x hx
    have h1 := (forged_b2_request_no_trace s w (h w List.mem_cons_self)).1
    simp only [ReplayB2.runSrv, List.mem_cons] at hx
    rw [h1] at hx
    rcases hx with rfl | hx
    · rfl
    · exact ih s (fun w' hw' => h w' (List.mem_cons_of_mem _ hw')) x hx

-- the server defect: before the fix every forged request #1 left a security context behind (step 2), and during an
-- exchange (R2 = 01 … 08 handed out) one forged request replaced the ID Context R2 || ID1 (step 4)
example : ReplayB2.recvForgedReqUnpatched ⟨0, none, [none]⟩ [0x42, 0xc0, 0xc1] = ⟨2, none, [none, some [0xc0, 0xc1]]⟩ := by decide
example : ReplayB2.recvForgedReqUnpatched ⟨0, some [1, 2, 3, 4, 5, 6, 7, 8], [some [1, 2, 3, 4, 5, 6, 7, 8, 0x11]]⟩ [0x41, 0xc0] =
    ⟨4, some [1, 2, 3, 4, 5, 6, 7, 8], [some [0xc0]]⟩ := by decide
example : ReplayB2.recvForgedReq ⟨0, none, [none]⟩ [0x42, 0xc0, 0xc1] = (⟨0, none, [none]⟩, .rej400) ∧
    ReplayB2.recvForgedReq ⟨0, none, [none]⟩ [0x5f, 1] = (⟨0, none, [none]⟩, .rej401) ∧
    ReplayB2.findExact [none] [0x42, 0xc0, 0xc1] = none := by decide

-- the defect: what the code did before the fix with ONE forged response carrying the kid context c0 … c7 (ID1 =
-- 11 22 … 88): ID Context c0 … c7 11 … 88, step 3 — and the next one prepends again
example : ReplayB2.recvForgedUnpatched ⟨1, [0x11, 0x22, 0x33, 0x44, 0x55, 0x66, 0x77, 0x88]⟩
    (some [0x48, 0xc0, 0xc1, 0xc2, 0xc3, 0xc4, 0xc5, 0xc6, 0xc7]) =
    ⟨3, [0xc0, 0xc1, 0xc2, 0xc3, 0xc4, 0xc5, 0xc6, 0xc7, 0x11, 0x22, 0x33, 0x44, 0x55, 0x66, 0x77, 0x88]⟩ := by decide
example : ReplayB2.run ⟨1, [0x11, 0x22]⟩ [some [0x42, 0xc0, 0xc1], none, some [0x5f, 0x01], some [], some [0x42, 0x11, 0x22]] =
    [(.drop, ⟨1, [0x11, 0x22]⟩), (.drop, ⟨1, [0x11, 0x22]⟩), (.drop, ⟨1, [0x11, 0x22]⟩), (.drop, ⟨1, [0x11, 0x22]⟩),
     (.drop, ⟨1, [0x11, 0x22]⟩)] := by decide
-- the CBOR unwrapping: short form, one-byte length form, truncated, not enough bytes
example : ReplayB2.unwrap [0x42, 7, 8] = some [7, 8] ∧ ReplayB2.unwrap [0x58, 2, 7, 8, 9] = some [7, 8] ∧
    ReplayB2.unwrap [0x5f, 1] = none ∧ ReplayB2.unwrap [0x43, 7, 8] = none ∧ ReplayB2.unwrap [] = none := by decide

/-! ### Non-vacuity: concrete histories (the minimal witnesses of the defects fixed in libcoap, see design/C15.md) -/

private def a (p : Nat) : Msg := .req ⟨true, p, .none⟩
private def e (p : Nat) : Msg := .req ⟨true, p, .good⟩
private def x (p : Nat) : Msg := .req ⟨false, p, .none⟩
private def n (p : Nat) : Msg := .rsp ⟨true, some p⟩      -- authentic notification with its own Partial IV
private def y (p : Nat) : Msg := .rsp ⟨false, some p⟩     -- forged response claiming a Partial IV
private def rr : Msg := .rsp ⟨true, none⟩                -- authentic response without Partial IV
private def z : Msg := .rsp ⟨false, none⟩                -- forged response without Partial IV

-- 10, 12, replay of 10, fresh 11, replay of 11 (pinned tree: replay of 10 accepted, 11 rejected)
example : verdicts ⟨32, true⟩ Recip.fresh [e 10, a 12, a 10, a 11, a 11] = [.acc, .acc, .rej401, .acc, .rej401] := by decide
-- without Appendix B.1.2 (pinned tree: everything accepted)
example : verdicts ⟨32, false⟩ Recip.fresh [a 10, a 10, x 5, a 5] = [.acc, .rej401, .rej400, .acc] := by decide
-- forged 50 after genuine 0 (pinned tree: last_seq stayed 50 and genuine 1 was rejected)
example : verdicts ⟨32, true⟩ Recip.fresh [e 0, x 50, a 1] = [.acc, .rej400, .acc] := by decide
example : (final ⟨32, true⟩ Recip.fresh [e 0, x 50]).view = (final ⟨32, true⟩ Recip.fresh [e 0]).view := by decide
-- 10, 12, 8, replay of 12 (pinned tree: last_seq lowered to 8, 12 accepted again)
example : verdicts ⟨32, false⟩ Recip.fresh [a 10, a 12, a 8, a 12] = [.acc, .acc, .acc, .rej401] := by decide
-- a jump of 95 (pinned tree: window << 95)
example : verdicts ⟨32, true⟩ Recip.fresh [e 5, a 100, a 5, a 101] = [.acc, .acc, .rej401, .acc] := by decide
-- Appendix B.1.2 exchange: challenge, then the Echo request, its replay, then the challenged request itself: below the
-- lower edge of the new window (it may have been accepted before the restart), refused; the next one is accepted
example : verdicts ⟨32, true⟩ Recip.fresh [a 4, e 5, e 5, a 4, a 6] = [.chal, .acc, .rej401, .rej401, .acc] := by decide
example : (final ⟨32, true⟩ Recip.fresh [a 4, e 5]).view = ⟨false, 5, 2 ^ 64 - 1⟩ ∧ floorOf ⟨32, true⟩ Recip.fresh [a 4, e 5] 0 = 5 := by
  decide
-- across a restart (defect 11): life 1 accepts 3, life 2 completes the Echo exchange with 8, the datagram with Partial IV
-- 3 arrives again while 8 - 3 < window: refused (before fix a6e248b: accepted a second time, `acceptedLives` = [3, 8, 3])
example : acceptedLives ⟨32, true⟩ [[e 3], [a 7, e 8, a 3, a 9]] = [3, 8, 9] ∧
    EchoFresh ⟨32, true⟩ [] [[e 3], [a 7, e 8, a 3, a 9]] := by
  refine ⟨by decide, ?_⟩
  simp only [EchoFresh, and_true]
  refine ⟨fun _ _ _ q hq => (by cases hq), ?_⟩
  intro ev hm he q hq
  have hq' : q = 3 := by
    have : accepted ⟨32, true⟩ Recip.fresh [e 3] = [3] := by decide
    rw [this] at hq; simpa using hq
  subst hq'
  simp only [a, e, List.mem_cons, Msg.req.injEq, List.not_mem_nil, or_false] at hm
  rcases hm with rfl | rfl | rfl | rfl <;> simp_all
-- `EchoFresh` is needed: a life-2 "Echo" request that is older than what life 1 accepted lets life-1 datagrams in again
example : acceptedLives ⟨32, true⟩ [[e 5, a 6], [e 4, a 6]] = [5, 6, 4, 6] := by decide
-- the hypotheses of fresh_in_window_accepted are satisfiable with a non-trivial history
example : accepted ⟨3, false⟩ Recip.fresh [a 10, a 12, x 11] = [10, 12] := by decide

/-! Requests and responses interleaved on one recipient context. -/
-- The reordered notification: the peer sent request 0, notification 1 (delayed), requests 2 and 3; the notification
-- arrives last.  It is accepted and recorded, last_seq stays 3 (guarded assignment), and the replays of requests 3
-- and 2 are rejected.  (With the assignment unconditional last_seq would drop to 1 under an unchanged bitmap and the
-- replay of request 3 would be accepted a second time: caught by the differential run, and `vrecvRsp_good` fails.)
example : verdicts ⟨32, false⟩ Recip.fresh [a 0, a 2, a 3, n 1, a 3, a 2] = [.acc, .acc, .acc, .acc, .rej401, .rej401] := by
  decide
example : (final ⟨32, false⟩ Recip.fresh [a 0, a 2, a 3, n 1]).view = ⟨false, 3, 15⟩ := by decide
example : recorded ⟨32, false⟩ Recip.fresh [a 0, a 2, a 3, n 1, a 3, a 2] = [0, 2, 3, 1] ∧
    accepted ⟨32, false⟩ Recip.fresh [a 0, a 2, a 3, n 1, a 3, a 2] = [0, 2, 3] := by decide
-- why the guard matters: the state an unconditional assignment would leave after that notification (last_seq 1 under
-- the bitmap 15 that is aligned to 3) is not `Good` for [0, 2, 3, 1] — it accepts request 3 a second time
example : (step ⟨32, false⟩ { Recip.fresh with init := false, last := 1, win := 15 } (a 3)).2 = .acc := by decide
-- a notification and a request can never share a sequence number; replays of notifications are rejected once validated
example : verdicts ⟨32, false⟩ Recip.fresh [a 0, n 1, a 1, n 1, a 2] = [.acc, .acc, .rej401, .drop, .acc] := by decide
-- forged response claiming 50 after genuine request 0 (pinned tree: no roll back in the response branch, last_seq stayed
-- 50 and the genuine request 1 was rejected); forged response claiming 3 (pinned tree: bit of 3 stayed set, genuine
-- request 3 rejected as a replay)
example : verdicts ⟨32, false⟩ Recip.fresh [a 0, y 50, a 1] = [.acc, .drop, .acc] := by decide
example : (final ⟨32, false⟩ Recip.fresh [a 0, y 50]).view = (final ⟨32, false⟩ Recip.fresh [a 0]).view := by decide
example : verdicts ⟨32, false⟩ Recip.fresh [a 5, z, rr, y 3, a 3, n 4, y 4] = [.acc, .drop, .acc, .drop, .acc, .acc, .drop] := by
  decide
-- before the window is initialised (pinned tree: the forged 2^40-1 stayed in last_seq and every later notification
-- failed the SEQ_MAX check)
example : verdicts ⟨32, true⟩ Recip.fresh [y SEQ_MAX, n 5, n 6] = [.drop, .acc, .acc] := by decide
example : (final ⟨32, true⟩ Recip.fresh [y SEQ_MAX]).view = Recip.fresh.view := by decide
-- `Sane` is needed in `forgery_no_trace`: in the unreachable state initial_state = 0, last_seq = SEQ_MAX the SEQ_MAX
-- exit of the response branch is taken after oscore_validate_sender_seq has recorded the claimed Partial IV
example : (step ⟨32, false⟩ { Recip.fresh with init := false, last := SEQ_MAX, win := 1 } (y (SEQ_MAX - 1))).1.view
    = ⟨false, SEQ_MAX, 3⟩ := by decide
-- the hypotheses of fresh_response_accepted / forgery_invisible are satisfiable
example : recorded ⟨3, false⟩ Recip.fresh [n 7, a 10, n 12, y 11] = [10, 12] ∧
    (final ⟨3, false⟩ Recip.fresh [n 7, a 10, n 12, y 11]).view = ⟨false, 12, 5⟩ := by decide
-- sender: ssn_freq 4, crash after PIV 5 (stored value 8), resume at 8
example : pivs (srun (SSys.start 4 0) [.protect, .protect, .protect, .protect, .protect, .protect, .crash 4, .protect])
    = [0, 1, 2, 3, 4, 5, 8] := by decide


/-! Datagram layer and nonces. -/
-- forged requests / responses without payload, with 3 and 8 bytes of ciphertext between genuine messages: no trace
example : (finalD ⟨32, false⟩ Recip.fresh [⟨a 0, 14⟩, ⟨x 50, 0⟩, ⟨x 50, 3⟩, ⟨y 51, 8⟩, ⟨a 1, 14⟩]).view = ⟨false, 1, 3⟩ ∧
    acceptedD ⟨32, false⟩ Recip.fresh [⟨a 0, 14⟩, ⟨x 50, 0⟩, ⟨x 50, 3⟩, ⟨y 51, 8⟩, ⟨a 1, 14⟩] = [0, 1] := by decide
example : (⟨x 50, 3⟩ : Dgram).wf ∧ ¬ (⟨a 50, 3⟩ : Dgram).wf := by
  constructor <;> simp [Dgram.wf, x, a, Msg.authentic, TAG_LEN]
-- request 5 (token 0), forged request re-using token 0 claiming 7, response; request 7 (token 1), response: nonces differ
-- (pinned tree: the first response was protected with the nonce of the forged request, 7, and so was the second)
example : nonces (nrun ⟨32, false⟩ Endp.fresh [.reqIn 0 ⟨true, 5, .none⟩ false, .reqIn 0 ⟨false, 7, .none⟩ false,
    .sendRsp 0 false false, .reqIn 1 ⟨true, 7, .none⟩ false, .sendRsp 1 false false]) = [.ofReq 5, .ofReq 7] := by decide
-- Observe registration, notification, two responses without Observe option, own request: all with the sequence number
example : nrun ⟨32, false⟩ Endp.fresh [.reqIn 1 ⟨true, 1, .none⟩ true, .sendRsp 1 true false, .sendRsp 1 false false,
    .sendRsp 1 false false, .sendReq 9 false false, .sendRsp 2 false false] =
    [.verdict .acc, .sent (some 0) (.own 0), .sent (some 1) (.own 1), .sent (some 2) (.own 2), .sent (some 3) (.own 3), .err] := by
  decide
-- the token collision (defect 10): request 5 with token 1 arrives, the endpoint sends a request of its own with token 1,
-- then answers: before fix bba9d79 the response went out under the nonce of the own request (`02.0` twice)
example : nrun ⟨32, false⟩ Endp.fresh [.reqIn 1 ⟨true, 5, .none⟩ false, .sendReq 1 false false, .sendRsp 1 false false] =
    [.verdict .acc, .sent (some 0) (.own 0), .err] := by decide
-- Appendix B.1.2 + crash: challenge (own Partial IV 0, watermark 3), Echo request, response, crash (resume at 3), the
-- challenge after the restart takes Partial IV 3
example : nrun ⟨32, true⟩ (Endp.start 3 0) [.reqIn 1 ⟨true, 5, .none⟩ false, .reqIn 1 ⟨true, 6, .good⟩ false,
    .sendRsp 1 false false, .crash 3, .reqIn 1 ⟨true, 7, .none⟩ false] =
    [.chal (some 0), .verdict .acc, .sent none (.ofReq 6), .resumed 3, .chal (some 3)] := by decide

-- own Partial IVs over a history with a token collision, an Echo challenge, a crash (hypotheses of
-- own_piv_strictly_increasing / response_nonce_is_peers on a non-trivial instance)
example : ownsOf (nonces (nrun ⟨32, true⟩ (Endp.start 3 0) [.reqIn 1 ⟨true, 5, .none⟩ false, .reqIn 1 ⟨true, 6, .good⟩ false,
    .sendReq 1 false false, .sendRsp 1 false false, .crash 2, .reqIn 1 ⟨true, 7, .none⟩ false, .sendReq 2 true false])) = [0, 1, 3, 4] := by
  decide
example : (nstep ⟨32, false⟩ (nfinal ⟨32, false⟩ (Endp.start 3 0) [.reqIn 1 ⟨true, 5, .none⟩ false]) (.sendRsp 1 false false)).2
    = .sent none (.ofReq 5) := by decide

-- request nonces: why "no restart" is needed (Appendix B.1.2 off: the old request is accepted again in the new life)
example : ofReqsOf (nonces (nrun ⟨32, false⟩ (Endp.start 1 0) [.reqIn 1 ⟨true, 5, .none⟩ false, .sendRsp 1 false false, .crash 1,
    .reqIn 1 ⟨true, 5, .none⟩ false, .sendRsp 1 false false])) = [5, 5] := by decide
-- the R15c defect history: request 5 (token 1) with a wrong Echo value is dropped by the Appendix B.1.2 trap, the Echo
-- exchange completes with 4, the datagram with Partial IV 5 arrives under token 3 and is answered, then a response goes
-- out for token 1: `err` (before the fix the association of the dropped request was still there: `ofReq 5` twice);
-- two dropped requests with one Partial IV under two tokens: nothing to answer them with
example : nrun ⟨32, true⟩ (Endp.start 1 0) [.reqIn 1 ⟨true, 5, .bad⟩ false, .reqIn 2 ⟨true, 4, .good⟩ false, .sendRsp 2 false false,
    .reqIn 3 ⟨true, 5, .none⟩ false, .sendRsp 3 false false, .sendRsp 1 false false] =
    [.verdict .drop, .verdict .acc, .sent none (.ofReq 4), .verdict .acc, .sent none (.ofReq 5), .err] := by decide
example : nrun ⟨32, true⟩ (Endp.start 1 0) [.reqIn 1 ⟨true, 5, .bad⟩ false, .reqIn 2 ⟨true, 5, .bad⟩ false, .sendRsp 1 false false,
    .sendRsp 2 false false] = [.verdict .drop, .verdict .drop, .err, .err] := by decide
-- the hypothesis of request_nonce_used_at_most_once / nonce_never_reused on a non-trivial history
example : (∀ op ∈ [NOp.reqIn 1 ⟨true, 5, .none⟩ false, .reqIn 2 ⟨true, 7, .none⟩ false, .sendRsp 2 false false, .sendRsp 1 false false],
    ∀ f', op ≠ .crash f') ∧
    nonces (nrun ⟨32, false⟩ (Endp.start 1 0) [.reqIn 1 ⟨true, 5, .none⟩ false, .reqIn 2 ⟨true, 7, .none⟩ false, .sendRsp 2 false false,
      .sendRsp 1 false false]) = [.ofReq 7, .ofReq 5] := by
  refine ⟨?_, by decide⟩
  intro op h f'
  simp only [List.mem_cons, List.not_mem_nil, or_false] at h
  rcases h with rfl | rfl | rfl | rfl <;> simp

end Coap.C15
