import CoapVerif.Model.Replay
import CoapVerif.Spec.Replay
namespace Coap.C15
open Coap.Replay
theorem stub : (1 : Nat) = 1 := rfl
end Coap.C15
