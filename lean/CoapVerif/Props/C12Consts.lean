import CoapVerif.Model.Sessions
import CoapVerif.Generated.Consts2
/-
C12 / T1 (workstream T1X) — the timing defaults, retransmission parameters and protocol numbers of the session-lifetime
model are those of the current tree (`Generated.C2.*`, rewritten from /repo's working tree on every check).
-/
namespace Coap.C12
open Coap Coap.Generated

theorem sessionTimeout_matches_code : Sessions.COAP_DEFAULT_SESSION_TIMEOUT = C2.COAP_DEFAULT_SESSION_TIMEOUT := by decide
theorem ticksPerSecond_matches_code : Sessions.TICKS_PER_SECOND = C2.COAP_TICKS_PER_SECOND := by decide
/-- `coap_calc_timeout(session, r = 0)` of the compiled code on a default session -/
theorem ackTimeoutTicks_matches_code : Sessions.ACK_TIMEOUT_TICKS = C2.calcTimeoutDefault.getD 0 0 := by decide
theorem maxRetransmit_matches_code : Sessions.MAX_RETRANSMIT = C2.COAP_DEFAULT_MAX_RETRANSMIT := by decide
theorem nstart_matches_code : Sessions.NSTART = C2.COAP_DEFAULT_NSTART := by decide
theorem protoUdp_matches_code : Sessions.COAP_PROTO_UDP = C2.COAP_PROTO_UDP := by decide
theorem protoTcp_matches_code : Sessions.COAP_PROTO_TCP = C2.COAP_PROTO_TCP := by decide

/-- `COAP_PROTO_RELIABLE(p)` is `p == TCP || p == TLS || p == WS || p == WSS`; the model tests `p ≥ COAP_PROTO_TCP`:
the two agree on every value of the enum because the reliable protocols are exactly the values from TCP up -/
theorem protoReliable_matches_code :
    ∀ p, p ≤ C2.COAP_PROTO_WSS →
      (decide (p ≥ Sessions.COAP_PROTO_TCP) =
        (p == C2.COAP_PROTO_TCP || p == C2.COAP_PROTO_TLS || p == C2.COAP_PROTO_WS || p == C2.COAP_PROTO_WSS)) := by
  decide

/-- the header part of the two-part stream request fits `session->read_header` -/
theorem partHdr_fits_matches_code : Sessions.PART_HDR ≤ C2.sizeofReadHeader := by decide

end Coap.C12
