import CoapVerif.Model.Gate
import CoapVerif.Lemmas.Parse
import CoapVerif.Props.C03
import CoapVerif.Lemmas.QBlock
import CoapVerif.Lemmas.QBlock2
/-
C02 — arbitrary network input never breaks memory safety, liveness or the endpoint.

What is *proved* here is the part of C02 that is logic (DESIGN.md §4 C02, §6): for every byte string
 * the transcribed readers use no index outside the bytes they were given (`*_never_oob`): an
   out-of-bounds access of the algorithm is an observable value (`R.oob`) of the model, and it never occurs;
 * they terminate: every model function is a total Lean function (structural recursion on fuel that is
   bounded by the input length) — accepted by the kernel, no `partial`, no `unsafe`;
 * input the decoder rejects is never handed to the protocol layer (and hence to a handler), and draws at
   most a Reset.
Memory safety, use-after-free, uninitialised reads and UB of the *compiled C* are observed (ASan, UBSan,
valgrind in the thorough tier) on the inputs run by the check, not proved.
Readers owned by other properties contribute their own no-overread theorems (C05 stream reader, C16 URI
splitters, C20 filter matching, C09 block structures, C14 OSCORE option decoding); the C02 check requires
them to be present (see props/C02.py REQUIRED_ELSEWHERE).
-/
namespace Coap.C02
open Coap Coap.M

/-- the decoder never indexes outside the received bytes, on any framing, for any byte string -/
theorem parse_never_oob (p : Proto) (bs : Bytes) : M.parse p bs ≠ R.oob := parse_ne_oob p bs

/-- nor does the option walk from any starting point (it is also what debug logging repeats) -/
theorem walk_never_oob (code fuel : Nat) (bs : Bytes) (maxOpt : Nat) : walk code fuel bs maxOpt ≠ R.oob :=
  walk_ne_oob code fuel bs maxOpt

theorem gate_dispatch_iff (p : Proto) (bs : Bytes) (m : Msg) :
    gate p bs = .dispatch m → M.parse p bs = R.ok m := by
  intro h
  cases p
  · simp only [gate] at h
    split at h
    · simp at h
    · rcases bs with _ | ⟨b0, r⟩
      · simp at h
      · simp only [] at h
        split at h
        · simp at h
        · cases hp : M.parse .udp (b0 :: r) with
          | ok m' => rw [hp] at h; simp at h; rw [h]
          | rej => rw [hp] at h; simp at h
          | oob => rw [hp] at h; simp at h
  · simp only [gate] at h
    cases hp : M.parse .tcp bs with
    | ok m' => rw [hp] at h; simp at h; rw [h]
    | rej => rw [hp] at h; simp at h
    | oob => rw [hp] at h; simp at h
  · simp only [gate] at h
    split at h
    · simp at h
    · cases hp : M.parse .ws bs with
      | ok m' => rw [hp] at h; simp at h; rw [h]
      | rej => rw [hp] at h; simp at h
      | oob => rw [hp] at h; simp at h

/-- input that is not a well-formed message is never handed to the protocol layer -/
theorem rejected_never_dispatched (p : Proto) (bs : Bytes) (h : Spec.decode p bs = none) (m : Msg) :
    gate p bs ≠ .dispatch m := by
  intro hd
  have := gate_dispatch_iff p bs m hd
  have h2 := C03.accepted_only_if_wellformed p bs m this
  rw [h] at h2; simp at h2

/-- whatever is handed to the protocol layer is the reference decoding of the bytes -/
theorem dispatched_is_reference_decoding (p : Proto) (bs : Bytes) (m : Msg) (h : gate p bs = .dispatch m) :
    Spec.decode p bs = some m :=
  C03.accepted_only_if_wellformed p bs m (gate_dispatch_iff p bs m h)

/-- malformed input draws at most one reply, and that reply is a Reset (datagram transports only) -/
theorem malformed_reply_at_most_reset (p : Proto) (bs : Bytes) (h : Spec.decode p bs = none) :
    gate p bs = .drop ∨ gate p bs = .bad ∨ ∃ mid, gate p bs = .rst mid := by
  cases hg : gate p bs with
  | drop => simp
  | bad => simp
  | rst mid => simp
  | dispatch m => exact absurd hg (rejected_never_dispatched p bs h m)

/-- a datagram with a wrong version, or shorter than a header, is silently ignored -/
theorem wrong_version_silently_ignored (b0 : UInt8) (r : Bytes) (h : b0.toNat / 64 ≠ 1) :
    gate .udp (b0 :: r) = .drop := by
  simp only [gate]
  split
  · rfl
  · simp [h]

/-- the same for the gate of a live session with any MTU: an over-long datagram is refused unparsed -/
theorem rejected_never_dispatched_session (mtu : Nat) (bs : Bytes) (h : Spec.decode .udp bs = none) (m : Msg) :
    gateMtu mtu bs ≠ .dispatch m := by
  intro hd
  simp only [gateMtu] at hd
  cases hg : gate .udp bs with
  | drop => rw [hg] at hd; simp at hd
  | bad => rw [hg] at hd; simp only [] at hd; split at hd <;> simp at hd
  | rst mid => rw [hg] at hd; simp only [] at hd; split at hd <;> simp at hd
  | dispatch m' => exact absurd hg (rejected_never_dispatched .udp bs h m')

theorem oversize_datagram_never_dispatched (mtu : Nat) (bs : Bytes) (h : bs.length > mtu) (m : Msg) :
    gateMtu mtu bs ≠ .dispatch m := by
  intro hd
  simp only [gateMtu] at hd
  cases hg : gate .udp bs with
  | drop => rw [hg] at hd; simp at hd
  | bad => rw [hg] at hd; simp [h] at hd
  | rst mid => rw [hg] at hd; simp [h] at hd
  | dispatch m' => rw [hg] at hd; simp [h] at hd

example : gate .udp [0x40, 0x01, 0x12, 0x34, 0xff] = .rst 0x1234 := by decide
example : gate .udp [0x40, 0x01, 0x12, 0x34, 0xb1, 0x61] = .dispatch ⟨0, 1, 0x1234, [], [(11, [0x61])], []⟩ := by decide
example : gate .udp [0x80, 0x01, 0x12, 0x34] = .drop := by decide
example : gate .ws [0x00, 0x01, 0xff] = .bad := by decide

/-! ## RFC 9177 (Q-Block): what a hostile peer can make the missing-blocks machinery do (Model/QBlock.lean)

The client in the middle of a Q-Block1 transfer is handed a 4.08 response: `QBlock.q408Branch` is the branch of
`coap_handle_response_send_block` from the Content-Format test on (payload = ANY byte string). -/
open Coap.QBlock Coap.Block Coap.Spec.Block

theorem q408Branch_cases (maxPay : Nat) (body : Bytes) (szx : Nat) (fmt : Option Nat) (isNon : Bool) (payload : Bytes) :
    q408Branch maxPay body szx fmt isNon payload = R.ok ⟨[], .failBody⟩ ∨
    q408Branch maxPay body szx fmt isNon payload = R.ok ⟨[], .done⟩ ∨
    q408Branch maxPay body szx fmt isNon payload = R.ok ⟨[], .failCbor⟩ ∨
    (payload ≠ [] ∧ q408Branch maxPay body szx fmt isNon payload = q408Loop body szx maxPay payload []) := by
  unfold q408Branch
  by_cases h1 : fmtOf fmt ≠ 272
  · left; rw [if_pos h1]
  · rw [if_neg h1]
    by_cases h2 : (!isNon) = true
    · right; left; rw [if_pos h2]
    · rw [if_neg h2]; unfold q408
      by_cases h3 : payload = []
      · right; right; left; rw [if_pos h3]
      · right; right; right; exact ⟨h3, by rw [if_neg h3]⟩

/-- For EVERY payload (malformed, truncated, huge CBOR), every body, block size, MAX_PAYLOADS, Content-Format and message
type: the parser never reads outside the payload (`R.oob` is what `*bp` behind the last byte would be), never fails
silently, and terminates (total function; the loop is structural recursion on the MAX_PAYLOADS countdown). -/
theorem q408_never_oob (maxPay : Nat) (body : Bytes) (szx : Nat) (fmt : Option Nat) (isNon : Bool) (payload : Bytes) :
    ∃ o, q408Branch maxPay body szx fmt isNon payload = R.ok o := by
  rcases q408Branch_cases maxPay body szx fmt isNon payload with h | h | h | ⟨_, h⟩
  · exact ⟨_, h⟩
  · exact ⟨_, h⟩
  · exact ⟨_, h⟩
  · obtain ⟨o, ho, _⟩ := q408Loop_spec body szx maxPay payload [] (by simp)
    exact ⟨o, by rw [h, ho]⟩

/-- Whatever the 4.08 says, every block the client sends again is a block OF ITS BODY: NUM below 2^20, its offset inside the
body (no block beyond the end is ever sent — `coap_add_block` refuses it and the transfer is given up), the payload is
exactly the non-empty slice of the body at that offset, the More bit is the one of that block. -/
theorem q408_only_blocks_of_body (maxPay : Nat) (body : Bytes) (szx : Nat) (fmt : Option Nat) (isNon : Bool)
    (payload : Bytes) (o : Q408Out) (h : q408Branch maxPay body szx fmt isNon payload = R.ok o) :
    ∀ t, t ∈ o.sent →
      t.num < 2 ^ 20 ∧ blockOffset t.num szx < body.length ∧
      t.payload = (body.drop (blockOffset t.num szx)).take (2 ^ (szx + 4)) ∧ t.payload ≠ [] ∧
      t.m = moreBit body.length t.num szx := by
  rcases q408Branch_cases maxPay body szx fmt isNon payload with h' | h' | h' | ⟨_, h'⟩
  · rw [h'] at h; cases h; simp
  · rw [h'] at h; cases h; simp
  · rw [h'] at h; cases h; simp
  · obtain ⟨o', ho', h1, _⟩ := q408Loop_spec body szx maxPay payload [] (by simp)
    rw [h', ho'] at h; cases h
    exact h1

/-- No amplification: one 4.08 makes the client send at most MAX_PAYLOADS messages, and at most one per payload byte. -/
theorem q408_bounded (maxPay : Nat) (body : Bytes) (szx : Nat) (fmt : Option Nat) (isNon : Bool)
    (payload : Bytes) (o : Q408Out) (h : q408Branch maxPay body szx fmt isNon payload = R.ok o) :
    o.sent.length ≤ maxPay ∧ o.sent.length ≤ payload.length := by
  rcases q408Branch_cases maxPay body szx fmt isNon payload with h' | h' | h' | ⟨_, h'⟩
  · rw [h'] at h; cases h; simp
  · rw [h'] at h; cases h; simp
  · rw [h'] at h; cases h; simp
  · obtain ⟨o', ho', _, h2, h3⟩ := q408Loop_spec body szx maxPay payload [] (by simp)
    rw [h', ho'] at h; cases h
    simp at h2 h3; exact ⟨h2, h3⟩

/-- The server's encoder (`add_408_block`, after fix 5bf13ec) and the client's parser agree: for EVERY list of at most
MAX_PAYLOADS blocks of the body the payload the server builds makes the client send exactly those blocks, in that
order, and carry on (`return 1`). -/
theorem q408_roundtrip (maxPay : Nat) (body : Bytes) (szx : Nat) (ns : List Nat) (bs : Bytes)
    (hne : ns ≠ []) (henc : encode408 ns = some bs) (hlen : ns.length ≤ maxPay)
    (hin : ∀ n, n ∈ ns → blockOffset n szx < body.length) :
    q408Branch maxPay body szx (some 272) true bs = R.ok ⟨ns.map (txOf body szx), .done⟩ := by
  have hbs : bs ≠ [] := by
    intro hb
    rcases ns with _ | ⟨n, rest⟩
    · exact hne rfl
    · unfold encode408 at henc
      cases hx : add408Block n with
      | none => rw [hx] at henc; simp at henc
      | some x =>
        cases hy : encode408 rest with
        | none => rw [hx, hy] at henc; simp at henc
        | some y =>
          rw [hx, hy] at henc
          obtain ⟨_, _, b0, t, hxe, _⟩ := derive_add408 n x y hx
          have : bs = x ++ y := by simpa using henc.symm
          rw [this, hxe] at hb; simp at hb
  have := q408Loop_encode body szx ns maxPay bs [] henc hlen hin
  have hf : fmtOf (some 272) = 272 := by decide
  simp only [q408Branch, q408, hbs, hf]
  simpa using this

/-- the encoder accepts exactly the block numbers a Block option can carry -/
theorem add408Block_some_iff (n : Nat) : (∃ x, add408Block n = some x) ↔ n < 2 ^ 20 := by
  unfold add408Block
  constructor
  · rintro ⟨x, h⟩
    by_cases h0 : n ≥ 2 ^ 20
    · rw [if_pos h0] at h; simp at h
    · omega
  · intro h
    rw [if_neg (by omega)]
    split
    · exact ⟨_, rfl⟩
    · split
      · exact ⟨_, rfl⟩
      · split <;> exact ⟨_, rfl⟩

/-- The received-blocks bookkeeping behind the missing-blocks requests (client: `coap_request_missing_q_block2`, server:
the Q-Block1 4.08 of `coap_block_check_lg_srcv_timeouts`; same shape as `C09.rblock_represents`): after ANY sequence of
insertions into `rec_blocks` (out of order, duplicates, refused ones) the walk over the ranges asks for a block number
exactly if it was NOT recorded and lies below a recorded one — never a recorded block, never one above the highest
recorded block; hence if every recorded block is a block of the body (below `total`), so is every block asked for; and the
running `block` ends as the highest recorded number. -/
theorem qblock_missing_represents (cap : Nat) (ns : List Nat) :
    let st := ns.foldl (insertStep cap) ([], [])
    (∀ g, g ∈ (gapLoop st.1 none []).2 ↔ (g ∉ st.2 ∧ ∃ k, k ∈ st.2 ∧ g < k)) ∧
    (∀ total, (∀ k, k ∈ st.2 → k < total) → ∀ g, g ∈ (gapLoop st.1 none []).2 → g < total) ∧
    (st.1 ≠ [] → ∃ r, st.1.getLast? = some r ∧ (gapLoop st.1 none []).1 = some r.2 ∧ r.2 ∈ st.2) := by
  intro st
  obtain ⟨w, _, c⟩ := insertAll_inv cap ns ([], []) trivial (Nat.zero_le _) (by intro k; simp [Covers])
  obtain ⟨g1, g2⟩ := gapLoop_spec st.1 0 none [] w (Nat.le_refl 0)
  have hmain : ∀ g, g ∈ (gapLoop st.1 none []).2 ↔ (g ∉ st.2 ∧ ∃ k, k ∈ st.2 ∧ g < k) := by
    intro g
    rw [g1 g]
    constructor
    · rintro (h | ⟨_, h2, r, hr, hlt⟩)
      · simp at h
      · refine ⟨fun hm => h2 ((c g).mpr hm), r.1, (c r.1).mp ⟨r, hr, Nat.le_refl _, ?_⟩, hlt⟩
        -- r.1 ≤ r.2 from well-formedness
        have : ∀ (rs : Ranges) (lo : Nat), WfFrom lo rs → ∀ r, r ∈ rs → r.1 ≤ r.2 := by
          intro rs
          induction rs with
          | nil => intro lo _ r hr; simp at hr
          | cons x xs ih =>
            intro lo hw r hr
            obtain ⟨_, hbe, hw'⟩ := hw
            rcases List.mem_cons.mp hr with h | h
            · subst h; exact hbe
            · exact ih _ hw' r h
        exact this st.1 0 w r hr
    · rintro ⟨hn, k, hk, hlt⟩
      obtain ⟨r, hr, h1, h2⟩ := (c k).mpr hk
      refine Or.inr ⟨Nat.zero_le _, fun hc => hn ((c g).mp hc), ?_⟩
      by_cases hgr : g < r.1
      · exact ⟨r, hr, hgr⟩
      · exact absurd ((c g).mp ⟨r, hr, by omega, by omega⟩) hn
  refine ⟨hmain, ?_, ?_⟩
  · intro total ht g hg
    obtain ⟨_, k, hk, hlt⟩ := (hmain g).mp hg
    have := ht k hk; omega
  · intro hne
    obtain ⟨r, hr1, hr2⟩ := g2 hne
    refine ⟨r, hr1, hr2, (c r.2).mp ⟨r, List.mem_of_getLast? hr1, ?_, Nat.le_refl _⟩⟩
    have : ∀ (rs : Ranges) (lo : Nat), WfFrom lo rs → ∀ r, r ∈ rs → r.1 ≤ r.2 := by
      intro rs
      induction rs with
      | nil => intro lo _ r hr; simp at hr
      | cons x xs ih =>
        intro lo hw r hr
        obtain ⟨_, hbe, hw'⟩ := hw
        rcases List.mem_cons.mp hr with h | h
        · subst h; exact hbe
        · exact ih _ hw' r h
    exact this st.1 0 w r (List.mem_of_getLast? hr1)

/-- non-vacuity of the hypotheses above and concrete witnesses -/
example : q408Branch 10 (List.replicate 100 7) 0 (some 272) true [0x01, 0x02] =
    R.ok ⟨[txOf (List.replicate 100 7) 0 1, txOf (List.replicate 100 7) 0 2], .done⟩ := by decide
example : encode408 [1, 2] = some [0x01, 0x02] ∧ [1, 2] ≠ [] ∧ [1, 2].length ≤ 10 ∧
    ∀ n, n ∈ [1, 2] → blockOffset n 0 < (List.replicate 100 (7 : UInt8)).length := by decide
/-- a block beyond the body: nothing is sent, the transfer is given up (5.00) -/
example : q408Branch 10 (List.replicate 100 7) 0 (some 272) true [0x07] = R.ok ⟨[], .failBody⟩ := by decide
/-- an initial byte announcing four bytes with three present: refused, not read (was a one-byte overread, fix f2fc9d2) -/
example : q408Branch 10 (List.replicate 100 7) 0 (some 272) true [0x1a, 0, 0, 0] = R.ok ⟨[], .failCbor⟩ := by decide
example : add408Block 65536 = some [26, 0, 1, 0, 0] := by decide
example : (gapLoop [(0, 2), (5, 6), (9, 9)] none []) = (some 9, [3, 4, 7, 8]) := by decide
example : missing408 [(3, 4)] (some 6) = [0, 1, 2, 5, 6] := by decide
example : allInForPayloadSet 10 [(0, 9), (12, 12)] 0 = true ∧ anyNextPayloadSet 10 [(0, 9), (12, 12)] 1 = true := by decide

/-! ## RFC 9177 payload-set arithmetic (round R02Qb) -/

/-- `coap_request_missing_q_block2`, for EVERY `rec_blocks` (no well-formedness assumed), block size, total length,
MAX_PAYLOADS ≥ 1, with and without `COAP_BLOCK_USE_M_Q_BLOCK`: the Q-Block2 options of the ONE request it sends are strictly
increasing (no duplicates), at most MAX_PAYLOADS, all of ONE payload set (which becomes `processing_payload_set`), M ≤ 1, and
each number lies below the begin of a recorded range or has its offset inside `total_len`. -/
theorem q2_recovery_request_bounded (mp : Nat) (hmp : 0 < mp) (useM : Bool) (rs : Ranges) (szx totalLen : Nat) :
    ((reqMissingQ2 mp useM rs szx totalLen).1.map Prod.fst).Pairwise (· < ·) ∧
    (reqMissingQ2 mp useM rs szx totalLen).1.length ≤ mp ∧
    (∀ q, q ∈ (reqMissingQ2 mp useM rs szx totalLen).1 →
      ((∃ r, r ∈ rs ∧ q.1 < r.1) ∨ q.1 * 2 ^ (szx + 4) < totalLen) ∧ q.2 ≤ 1) ∧
    ((reqMissingQ2 mp useM rs szx totalLen).1 ≠ [] →
      ∃ s, (reqMissingQ2 mp useM rs szx totalLen).2 = some s ∧ ∀ q, q ∈ (reqMissingQ2 mp useM rs szx totalLen).1 → q.1 / mp = s) :=
  reqMissingQ2_spec mp hmp useM rs szx totalLen

/-- The bookkeeping invariant (`Q2Inv`: `rec_blocks` sorted / disjoint / non-adjacent / within COAP_RBLOCK_CNT, every recorded
block < 2^20 with its offset inside `total_len`, in the block size the transfer is tracked in) is preserved by EVERY arriving
response (`q2Step` = the Q-Block2 path of `coap_handle_response_get_block`: any NUM < 2^20 — `coap_get_block_b` delivers no
other —, M, SZX, payload length, Size2, ETag, Content-Format), hence holds after ANY arrival sequence from any state that has
it (the state after `coap_block_new_lg_crcv` has it: `q2_initial_state_inv`). -/
theorem q2_bookkeeping_invariant (cap mp : Nat) (useM isNon : Bool) : ∀ (is : List Q2In) (st0 : Q2State),
    Q2Inv cap st0 → (∀ i, i ∈ is → i.num < 2 ^ 20) →
    Q2Inv cap (is.foldl (fun st i => (q2Step cap mp useM isNon st i).1) st0)
  | [], st0, h0, _ => h0
  | i :: rest, st0, h0, hn => by
    rw [List.foldl_cons]
    exact q2_bookkeeping_invariant cap mp useM isNon rest _ (q2Step_inv cap mp useM isNon st0 i (hn i (by simp)) h0)
      (fun j hj => hn j (by simp [hj]))

theorem q2_initial_state_inv (cap : Nat) (etag : Bytes) (a b c d e : Nat) (x y : Bool) :
    Q2Inv cap ⟨x, y, etag, a, b, c, [], d, e⟩ :=
  ⟨by simp [WfFrom], by simp, by intro k hk; simp [Covers] at hk⟩

/-- In every state with the invariant — so after ANY arrival sequence — a recovery request names only blocks whose offset
lies inside the body (`total_len`), never a block at or beyond its end, and only 20-bit numbers — for EVERY `total_len`
(whatever Size2 the peer announced: `coap_request_missing_q_block2` limits the length it works with to the 2^20 blocks a
Q-Block2 option can address, fix 00bcbc1; before it `total_len ≤ 2^20 blocks` was a hypothesis of the second claim). -/
theorem q2_recovery_inside_body (cap mp : Nat) (hmp : 0 < mp) (useM : Bool) (st : Q2State) (h : Q2Inv cap st) :
    ∀ q, q ∈ (reqMissingQ2 mp useM st.rs st.szx st.totalLen).1 →
      q.1 * 2 ^ (st.szx + 4) < st.totalLen ∧ q.1 < 2 ^ 20 := by
  intro q hq
  refine ⟨?_, inv_req_20bit cap mp hmp useM st h q hq⟩
  rcases ((reqMissingQ2_spec mp hmp useM st.rs st.szx st.totalLen).2.2.1 q hq).1 with ⟨r, hr, hlt⟩ | hlt
  · have hc := (h.2.2 r.1 (wf_begin_covered st.rs 0 r h.1 hr)).2
    have : q.1 * 2 ^ (st.szx + 4) ≤ r.1 * 2 ^ (st.szx + 4) := Nat.mul_le_mul_right _ (Nat.le_of_lt hlt)
    omega
  · exact hlt

/-- `coap_request_missing_q_block2` for EVERY `rec_blocks` (no invariant, no well-formedness), block size, `total_len`,
MAX_PAYLOADS ≥ 1, with and without the M variant: if the begins of the recorded ranges are 20-bit numbers (they are block
numbers `coap_get_block_b` delivered), every number the request names is a 20-bit number: the option always encodes. -/
theorem q2_recovery_numbers_20bit (mp : Nat) (hmp : 0 < mp) (useM : Bool) (rs : Ranges) (szx totalLen : Nat)
    (hr : ∀ r, r ∈ rs → r.1 < 2 ^ 20) :
    ∀ q, q ∈ (reqMissingQ2 mp useM rs szx totalLen).1 → q.1 < 2 ^ 20 := by
  intro q hq
  rcases reqMissingQ2_20bit mp hmp useM rs szx totalLen q hq with ⟨r, hr', hlt⟩ | hl
  · exact Nat.lt_trans hlt (hr r hr')
  · exact hl

/-- EVERY request the Q-Block2 path of `coap_handle_response_get_block` sends — the recovery requests in front of
`update_received_blocks` and behind a complete payload set, and the `continue` request for the next payload set (NUM =
range[0].end + 1) — names only 20-bit block numbers, for every response (any NUM < 2^20, M, SZX, payload length, Size2, ETag,
Content-Format) in every state with the invariant, hence along ANY arrival sequence from the state after
`coap_block_new_lg_crcv` (`q2_initial_state_inv`, `q2_bookkeeping_invariant`).  Closes finding c02-qblock2-num-2e20. -/
theorem q2_requests_20bit (cap mp : Nat) (hmp : 0 < mp) (useM isNon : Bool) : ∀ (is : List Q2In) (st0 : Q2State),
    Q2Inv cap st0 → (∀ i, i ∈ is → i.num < 2 ^ 20) →
    ∀ (pre : List Q2In) (i : Q2In) (post : List Q2In), is = pre ++ i :: post →
      ∀ rq, rq ∈ (q2Step cap mp useM isNon (pre.foldl (fun st j => (q2Step cap mp useM isNon st j).1) st0) i).2.1 →
        ∀ q, q ∈ rq → q.1 < 2 ^ 20 := by
  intro is st0 h0 hn pre i post e
  subst e
  have hpre := q2_bookkeeping_invariant cap mp useM isNon pre st0 h0 (fun j hj => hn j (by simp [hj]))
  exact q2Step_req cap mp hmp useM isNon _ i (hn i (by simp)) hpre

/-- `coap_send_q_blocks` (NON, datagram transport), for EVERY body length, block size, MAX_PAYLOADS ≥ 1, starting block and M:
the blocks that follow the caller's block are consecutive later numbers of ONE payload set (that of `num + 1`) — at most
MAX_PAYLOADS datagrams per burst —, each a block of the body (offset inside it, the body's M bit), and a 20-bit number as long
as the body has at most 2^20 blocks (coap_add_data_large_internal caps the length at MAX_BLK_LEN = (2^20 − 1)·1024 only). -/
theorem q2_burst_bounded (mp len szx num : Nat) (hmp : 0 < mp) (m : Bool) :
    ((sendQNon mp len szx num m).map Prod.fst).Pairwise (· < ·) ∧ (sendQNon mp len szx num m).length ≤ mp ∧
    ∀ x, x ∈ sendQNon mp len szx num m →
      num < x.1 ∧ x.1 * 2 ^ (szx + 4) < len ∧ x.2 = moreBit len x.1 szx ∧ x.1 / mp = (num + 1) / mp ∧
      (len ≤ 2 ^ 20 * 2 ^ (szx + 4) → x.1 < 2 ^ 20) := by
  unfold sendQNon
  by_cases hc : m = true ∧ (num + 1) % mp + 1 ≠ mp
  · rw [if_pos hc]
    obtain ⟨l, e1, e2, e3⟩ := sendQLoop_spec mp len szx hmp len num []
    rw [e1, List.nil_append]
    refine ⟨e2, ?_, ?_⟩
    · have := pairwise_one_set mp ((num + 1) / mp) hmp (l.map Prod.fst) e2 (fun x hx => by
        obtain ⟨y, hy, rfl⟩ := List.mem_map.mp hx
        exact (e3 y hy).2.2.2)
      simpa using this
    · intro x hx
      have := e3 x hx
      refine ⟨this.1, this.2.1, this.2.2.1, this.2.2.2, fun hle => ?_⟩
      have h1 : x.1 * 2 ^ (szx + 4) < 2 ^ 20 * 2 ^ (szx + 4) := Nat.lt_of_lt_of_le this.2.1 hle
      exact Nat.lt_of_mul_lt_mul_right h1
  · rw [if_neg hc]
    exact ⟨by simp, by simp, by intro x hx; cases hx⟩

-- non-vacuity / witnesses
example : reqMissingQ2 3 false [(0, 0), (5, 6)] 0 200 = ([(1, 0), (2, 0)], some 0) := by decide
example : reqMissingQ2 3 false [(0, 4)] 0 200 = ([(5, 0)], some 1) := by decide
example : reqMissingQ2 3 true [(0, 1)] 0 200 = ([(2, 1)], some 0) := by decide
example : sendQNon 3 100 0 0 true = [(1, 1), (2, 1)] ∧ sendQNon 3 100 0 2 true = [(3, 1), (4, 1), (5, 1)] ∧
    sendQNon 3 100 0 1 true = [] ∧ sendQNon 10 100 0 0 true = [(1, 1), (2, 1), (3, 1), (4, 1), (5, 1), (6, 0)] := by decide
example : Q2Inv 16 ⟨false, false, [], 100, 0, 0, [(0, 1), (4, 4)], 0, 0⟩ :=
  ⟨by simp [WfFrom], by simp, by
    intro k hk
    simp [Covers] at hk
    refine ⟨by omega, ?_⟩
    show k * 2 ^ (0 + 4) < 100
    omega⟩
/-- finding c02-qblock2-num-2e20 (fixed, 00bcbc1): with `total_len` > 2^20 blocks the M variant asked for block 2^20 (a 21-bit
number: `reqMissingQ2At` is the function without the clamp); now the length is limited and the gap in front is asked for -/
example : reqMissingQ2At 2 true [(1048575, 1048575)] 0 16777217 = ([(1048576, 1)], some 524288) := by decide
example : reqMissingQ2 2 true [(1048575, 1048575)] 0 16777217 = ([(0, 0), (1, 0)], some 0) := by decide
example : q2ClampLen 0 16777217 = 16777216 ∧ q2ClampLen 6 4294967295 = 1073741824 ∧ q2ClampLen 2 1000 = 1000 := by decide
/-- the same finding in the `continue` request: block 0xFFFFF (M=0) first, then 0xFFFFE (M=1): the payload set counts as complete,
NUM = range[0].end + 1 = 2^20 was asked for; now nothing is sent (the recovery request for blocks 0, 1, 2 in front stays) -/
example : (q2Step 16 3 false true (q2Step 16 3 false true ⟨true, false, [], 0, 0, 0, [], 0, 0⟩ ⟨1048575, 0, 0, 16, none, none, 0⟩).1
      ⟨1048574, 1, 0, 16, some 16777216, none, 0⟩).2 = ([[(0, 0), (1, 0), (2, 0)]], .skip) := by decide
/-- the one request that is NOT a recovery request — the `continue` for the next payload set, NUM = range[0].end + 1 — can name
a block BEYOND the body when a hostile server sends the last block first (documented behaviour, design/C02.md): body of 97
bytes = blocks 0..6; block 6 (M=0, 1 byte), then block 5 (M=1) → a recovery request for blocks 0, 1, 2 and a `continue` for block 7. -/
example : ((q2Step 16 3 false true ⟨true, false, [], 0, 0, 0, [], 0, 0⟩ ⟨6, 0, 0, 1, none, none, 0⟩).2.2 = .skip) ∧
    (q2Step 16 3 false true (q2Step 16 3 false true ⟨true, false, [], 0, 0, 0, [], 0, 0⟩ ⟨6, 0, 0, 1, none, none, 0⟩).1
      ⟨5, 1, 0, 16, some 97, none, 0⟩).2 = ([[(0, 0), (1, 0), (2, 0)], [(7, 1)]], .next) := by decide

end Coap.C02
