import CoapVerif.Model.Gate
import CoapVerif.Lemmas.Parse
import CoapVerif.Props.C03
/-
C02 — arbitrary network input never breaks memory safety, liveness or the endpoint.

What is *proved* here is the part of C02 that is logic (DESIGN.md §4 C02, §6): for every byte string
 * the transcribed readers use no index outside the bytes they were given (`*_never_oob`): an
   out-of-bounds access of the algorithm is an observable value (`R.oob`) of the model, and it never occurs;
 * they terminate: every model function is a total Lean function (structural recursion on fuel that is
   bounded by the input length) — accepted by the kernel, no `partial`, no `unsafe`;
 * input the decoder rejects is never handed to the protocol layer (and hence to a handler), and draws at
   most a Reset.
Memory safety, use-after-free, uninitialised reads and UB of the *compiled C* are observed (ASan, UBSan,
valgrind in the thorough tier) on the inputs run by the check, not proved.
Readers owned by other properties contribute their own no-overread theorems (C05 stream reader, C16 URI
splitters, C20 filter matching, C09 block structures, C14 OSCORE option decoding); the C02 check requires
them to be present (see props/C02.py REQUIRED_ELSEWHERE).
-/
namespace Coap.C02
open Coap Coap.M

/-- the decoder never indexes outside the received bytes, on any framing, for any byte string -/
theorem parse_never_oob (p : Proto) (bs : Bytes) : M.parse p bs ≠ R.oob := parse_ne_oob p bs

/-- nor does the option walk from any starting point (it is also what debug logging repeats) -/
theorem walk_never_oob (code fuel : Nat) (bs : Bytes) (maxOpt : Nat) : walk code fuel bs maxOpt ≠ R.oob :=
  walk_ne_oob code fuel bs maxOpt

theorem gate_dispatch_iff (p : Proto) (bs : Bytes) (m : Msg) :
    gate p bs = .dispatch m → M.parse p bs = R.ok m := by
  intro h
  cases p
  · simp only [gate] at h
    split at h
    · simp at h
    · rcases bs with _ | ⟨b0, r⟩
      · simp at h
      · simp only [] at h
        split at h
        · simp at h
        · cases hp : M.parse .udp (b0 :: r) with
          | ok m' => rw [hp] at h; simp at h; rw [h]
          | rej => rw [hp] at h; simp at h
          | oob => rw [hp] at h; simp at h
  · simp only [gate] at h
    cases hp : M.parse .tcp bs with
    | ok m' => rw [hp] at h; simp at h; rw [h]
    | rej => rw [hp] at h; simp at h
    | oob => rw [hp] at h; simp at h
  · simp only [gate] at h
    split at h
    · simp at h
    · cases hp : M.parse .ws bs with
      | ok m' => rw [hp] at h; simp at h; rw [h]
      | rej => rw [hp] at h; simp at h
      | oob => rw [hp] at h; simp at h

/-- input that is not a well-formed message is never handed to the protocol layer -/
theorem rejected_never_dispatched (p : Proto) (bs : Bytes) (h : Spec.decode p bs = none) (m : Msg) :
    gate p bs ≠ .dispatch m := by
  intro hd
  have := gate_dispatch_iff p bs m hd
  have h2 := C03.accepted_only_if_wellformed p bs m this
  rw [h] at h2; simp at h2

/-- whatever is handed to the protocol layer is the reference decoding of the bytes -/
theorem dispatched_is_reference_decoding (p : Proto) (bs : Bytes) (m : Msg) (h : gate p bs = .dispatch m) :
    Spec.decode p bs = some m :=
  C03.accepted_only_if_wellformed p bs m (gate_dispatch_iff p bs m h)

/-- malformed input draws at most one reply, and that reply is a Reset (datagram transports only) -/
theorem malformed_reply_at_most_reset (p : Proto) (bs : Bytes) (h : Spec.decode p bs = none) :
    gate p bs = .drop ∨ gate p bs = .bad ∨ ∃ mid, gate p bs = .rst mid := by
  cases hg : gate p bs with
  | drop => simp
  | bad => simp
  | rst mid => simp
  | dispatch m => exact absurd hg (rejected_never_dispatched p bs h m)

/-- a datagram with a wrong version, or shorter than a header, is silently ignored -/
theorem wrong_version_silently_ignored (b0 : UInt8) (r : Bytes) (h : b0.toNat / 64 ≠ 1) :
    gate .udp (b0 :: r) = .drop := by
  simp only [gate]
  split
  · rfl
  · simp [h]

/-- the same for the gate of a live session with any MTU: an over-long datagram is refused unparsed -/
theorem rejected_never_dispatched_session (mtu : Nat) (bs : Bytes) (h : Spec.decode .udp bs = none) (m : Msg) :
    gateMtu mtu bs ≠ .dispatch m := by
  intro hd
  simp only [gateMtu] at hd
  cases hg : gate .udp bs with
  | drop => rw [hg] at hd; simp at hd
  | bad => rw [hg] at hd; simp only [] at hd; split at hd <;> simp at hd
  | rst mid => rw [hg] at hd; simp only [] at hd; split at hd <;> simp at hd
  | dispatch m' => exact absurd hg (rejected_never_dispatched .udp bs h m')

theorem oversize_datagram_never_dispatched (mtu : Nat) (bs : Bytes) (h : bs.length > mtu) (m : Msg) :
    gateMtu mtu bs ≠ .dispatch m := by
  intro hd
  simp only [gateMtu] at hd
  cases hg : gate .udp bs with
  | drop => rw [hg] at hd; simp at hd
  | bad => rw [hg] at hd; simp [h] at hd
  | rst mid => rw [hg] at hd; simp [h] at hd
  | dispatch m' => rw [hg] at hd; simp [h] at hd

example : gate .udp [0x40, 0x01, 0x12, 0x34, 0xff] = .rst 0x1234 := by decide
example : gate .udp [0x40, 0x01, 0x12, 0x34, 0xb1, 0x61] = .dispatch ⟨0, 1, 0x1234, [], [(11, [0x61])], []⟩ := by decide
example : gate .udp [0x80, 0x01, 0x12, 0x34] = .drop := by decide
example : gate .ws [0x00, 0x01, 0xff] = .bad := by decide

end Coap.C02
