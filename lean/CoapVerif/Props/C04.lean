import CoapVerif.Lemmas.Edit
/-
C04 — in-place message edits change only what they name.

  S = Spec.applyEdit on (token, ordered option list, payload)     (Spec/Encode.lean)
  M = M.insertOption / M.updateOption / M.removeOption / M.updateToken   (Model/Build.lean)

STATUS.
 * proved in full: the frame theorems about S (`edit_frame`, `edits_keep_order`, `edit_sequence_keeps_order`);
   `update_token_refines` (coap_update_token, all three memmove directions, any token length 0..65804);
   `roundtrip_of_refined` (whatever PDU represents a well-formed abstract message serialises and re-parses to it).
 * NOT proved: `insert_refines`, `update_refines`, `remove_refines` (the six next-header rewrite cases of
   coap_insert_option / coap_remove_option and the splice of coap_update_option) and therefore
   `edits_then_roundtrip` for sequences containing those edits.  Their intended statements are at the end of this
   file.  For these three editors the correspondence M = I is measured by T2 only, and "M refines S" is observed
   (I vs S on every generated case), not proved.
-/
namespace Coap.C04
open Coap Coap.M

/-- Frame theorem: an abstract edit changes only what it names.  Header fields and payload never
change; the token changes only through `setToken`; and the option list changes exactly by one element
at one position — every other option keeps its number, its value and its position relative to the
others (`pre` and `post` are carried over unchanged).  (`base` accounts for D13: an insertion of
Proxy-Uri / Proxy-Scheme may be accompanied by Hop-Limit.) -/
theorem edit_frame (hop : Bool) (m : Msg) (e : Spec.Edit) :
    (Spec.applyEdit hop m e).type = m.type ∧ (Spec.applyEdit hop m e).code = m.code ∧
    (Spec.applyEdit hop m e).mid = m.mid ∧ (Spec.applyEdit hop m e).payload = m.payload ∧
    (match e with
     | .setToken t => (Spec.applyEdit hop m e).token = t ∧ (Spec.applyEdit hop m e).opts = m.opts
     | .remove n =>
        (Spec.applyEdit hop m e).token = m.token ∧
        (Spec.hasOpt n m.opts = false → (Spec.applyEdit hop m e).opts = m.opts) ∧
        (Spec.hasOpt n m.opts = true → ∃ pre v post, m.opts = pre ++ (n, v) :: post ∧
            (Spec.applyEdit hop m e).opts = pre ++ post ∧ ∀ o ∈ pre, o.1 ≠ n)
     | .insert n v =>
        (Spec.applyEdit hop m e).token = m.token ∧
        ∃ base, (base = m.opts ∨ (hop = true ∧ base = Spec.insertStable 16 [16] m.opts)) ∧
          ∃ pre post, base = pre ++ post ∧ (Spec.applyEdit hop m e).opts = pre ++ (n, v) :: post ∧
            (∀ o ∈ pre, o.1 ≤ n) ∧ (∀ o, post.head? = some o → n < o.1)
     | .update n v =>
        (Spec.applyEdit hop m e).token = m.token ∧
        (Spec.hasOpt n m.opts = true → ∃ pre w post, m.opts = pre ++ (n, w) :: post ∧
            (Spec.applyEdit hop m e).opts = pre ++ (n, v) :: post ∧ ∀ o ∈ pre, o.1 ≠ n) ∧
        (Spec.hasOpt n m.opts = false →
          ∃ base, (base = m.opts ∨ (hop = true ∧ base = Spec.insertStable 16 [16] m.opts)) ∧
            ∃ pre post, base = pre ++ post ∧ (Spec.applyEdit hop m e).opts = pre ++ (n, v) :: post ∧
              (∀ o ∈ pre, o.1 ≤ n) ∧ (∀ o, post.head? = some o → n < o.1))) := by
  refine ⟨?_, ?_, ?_, ?_, ?_⟩
  · cases e <;> rfl
  · cases e <;> rfl
  · cases e <;> rfl
  · cases e <;> rfl
  · cases e with
    | setToken t => exact ⟨rfl, rfl⟩
    | remove n =>
      refine ⟨rfl, ?_, ?_⟩
      · intro h; exact removeFirst_absent n m.opts h
      · intro h; exact removeFirst_split n m.opts h
    | insert n v =>
      refine ⟨rfl, ?_⟩
      cases hop with
      | false =>
        refine ⟨m.opts, Or.inl rfl, ?_⟩
        simpa [Spec.applyEdit, Spec.addSem] using insertStable_split n v m.opts
      | true =>
        refine ⟨Spec.insertStable 16 [16] m.opts, Or.inr ⟨rfl, rfl⟩, ?_⟩
        simpa [Spec.applyEdit, Spec.addSem] using insertStable_split n v (Spec.insertStable 16 [16] m.opts)
    | update n v =>
      refine ⟨rfl, ?_, ?_⟩
      · intro h
        simpa [Spec.applyEdit, h] using replaceFirst_split n v m.opts h
      · intro h
        cases hop with
        | false =>
          refine ⟨m.opts, Or.inl rfl, ?_⟩
          simpa [Spec.applyEdit, Spec.addSem, h] using insertStable_split n v m.opts
        | true =>
          refine ⟨Spec.insertStable 16 [16] m.opts, Or.inr ⟨rfl, rfl⟩, ?_⟩
          simpa [Spec.applyEdit, Spec.addSem, h] using insertStable_split n v (Spec.insertStable 16 [16] m.opts)

/-- every abstract edit keeps the options in ascending number order -/
theorem edits_keep_order (hop : Bool) (m : Msg) (e : Spec.Edit) (h : m.opts.Pairwise (fun a b => a.1 ≤ b.1)) :
    (Spec.applyEdit hop m e).opts.Pairwise (fun a b => a.1 ≤ b.1) := by
  have hop16 : (if hop then Spec.insertStable 16 [16] m.opts else m.opts).Pairwise (fun a b => a.1 ≤ b.1) := by
    cases hop
    · simpa using h
    · simpa using insertStable_sorted 16 [16] m.opts h
  cases e with
  | setToken t => exact h
  | remove n => exact removeFirst_sorted n m.opts h
  | insert n v => exact insertStable_sorted n v _ hop16
  | update n v =>
    by_cases ho : Spec.hasOpt n m.opts = true
    · simpa [Spec.applyEdit, ho] using replaceFirst_sorted n v m.opts h
    · have ho' : Spec.hasOpt n m.opts = false := by simpa using ho
      simpa [Spec.applyEdit, ho', Spec.addSem] using insertStable_sorted n v _ hop16

/-- … so after any sequence of edits of a message whose options are in order, they still are -/
theorem edit_sequence_keeps_order (es : List (Bool × Spec.Edit)) (m : Msg) (h : m.opts.Pairwise (fun a b => a.1 ≤ b.1)) :
    (es.foldl (fun m e => Spec.applyEdit e.1 m e.2) m).opts.Pairwise (fun a b => a.1 ≤ b.1) := by
  induction es generalizing m with
  | nil => exact h
  | cons e es ih => exact ih _ (edits_keep_order e.1 m e.2 h)

/-! ### M refines S -/

/-- coap_update_token changes the token and nothing else: on the PDU that represents `a` it yields the PDU that
represents `a` with the new token — option bytes, payload bytes, `max_opt` and the payload offset follow the move —
for every token length 0..65804 in both directions; capacity is needed only when the token field grows. -/
theorem update_token_refines (ms : Nat) (a : Msg) (t : Bytes) (ht : t.length ≤ 65804) (hne : (conc ms a).buf ≠ [])
    (hfit : (Spec.encToken t).length ≤ (Spec.encToken a.token).length ∨ ms = 0 ∨
            (conc ms { a with token := t }).buf.length ≤ ms) :
    updateToken (conc ms a) t = R.ok (1, conc ms (Spec.applyEdit false a (.setToken t))) :=
  updateToken_conc ms a t ht hne hfit

/-- the second half of `edits_then_roundtrip`: once the edited PDU is known to represent the abstract message `a`
(which is what each `*_refines` theorem establishes, edit by edit), its serialisation decodes to exactly `a` -/
theorem roundtrip_of_refined (p : Proto) (ms : Nat) (a : Msg) (h : Spec.WF p a) :
    ∃ bytes, serialise p (conc ms a) = some bytes ∧ Spec.decode p bytes = some (Spec.onWire p a) := by
  obtain ⟨hty, hcode, hmid, ht, _, _, hlen⟩ := h
  exact ⟨Spec.encode p a, serialise_conc p ms a hty hcode hmid ht hlen,
         Coap.decode_encode p a ⟨hty, hcode, hmid, ht, by assumption, by assumption, hlen⟩⟩

/-- non-vacuity: a 1-byte token replaced by a 14-byte one (the token field gains an extension byte and everything
behind it moves up); the 300-byte replacement that used to corrupt the options is corpus/C04 line 1 on the real code -/
example : updateToken (conc 0 ⟨0, 1, 1, [1], [(11, [0x61]), (2000, [0x62])], [9]⟩) [1,2,3,4,5,6,7,8,9,10,11,12,13,14]
    = R.ok (1, conc 0 ⟨0, 1, 1, [1,2,3,4,5,6,7,8,9,10,11,12,13,14], [(11, [0x61]), (2000, [0x62])], [9]⟩) := by decide

/-! non-vacuity -/
example : Spec.applyEdit false ⟨0, 1, 7, [1], [(3, [0x68]), (11, [0x61]), (300, [1])], [9]⟩ (.insert 11 [0x62]) =
    ⟨0, 1, 7, [1], [(3, [0x68]), (11, [0x61]), (11, [0x62]), (300, [1])], [9]⟩ := by decide
example : Spec.applyEdit false ⟨0, 1, 7, [1], [(3, [0x68]), (11, [0x61]), (300, [1])], [9]⟩ (.remove 11) =
    ⟨0, 1, 7, [1], [(3, [0x68]), (300, [1])], [9]⟩ := by decide
example : Spec.applyEdit true ⟨0, 1, 7, [], [(11, [0x61])], []⟩ (.insert 35 [0x78]) =
    ⟨0, 1, 7, [], [(11, [0x61]), (16, [16]), (35, [0x78])], []⟩ := by decide

/-
INTENDED, NOT PROVED (with `conc`, `Shape` from Lemmas/BuildDefs.lean):

  insert_refines       : Shape a → n < lastNum a.opts → v.length ≤ 65804 → fits ms a (encOpt …).length →
                         M.insertOption (conc ms a) n v = R.ok (shift, conc ms (Spec.applyEdit false a (.insert n v)))
  update_refines       : Shape a → hasOpt n a.opts → … →
                         M.updateOption (conc ms a) n v = R.ok (1, conc ms (Spec.applyEdit false a (.update n v)))
  remove_refines       : Shape a → M.removeOption (conc ms a) n = R.ok (rc, conc ms (if rc = 0 then a else Spec.applyEdit false a (.remove n)))
  edits_then_roundtrip : after any accepted edit sequence Spec.decode p (bytes) = some (onWire p (fold of the abstract edits))
-/
end Coap.C04
