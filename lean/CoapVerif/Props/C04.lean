import CoapVerif.Lemmas.EditDup
import CoapVerif.Lemmas.EditRc
/-
C04 — in-place message edits change only what they name.

  S = Spec.applyEdit on (token, ordered option list, payload)     (Spec/Encode.lean)
  M = M.insertOption / M.updateOption / M.removeOption / M.updateToken   (Model/Build.lean)

STATUS: proved in full.
 * S side: the frame theorems (`edit_frame`, `edits_keep_order`, `edit_sequence_keeps_order`).
 * M refines S, per editor, for EVERY abstract message the API can produce (`Shape`), every argument, every capacity,
   refusals included: `insert_refines` (+ closed form `insert_refines_middle`), `update_refines` (+ `update_refines_present`),
   `remove_refines`, `update_token_refines`.  Helper lemmas: Lemmas/EditItems.lean (iterator over the canonical buffer =
   abstract option list), Lemmas/EditPatch.lean (the byte-level key lemma: next-option header rewrite = canonical header
   with the new delta, all size classes), Lemmas/EditRefine.lean, Lemmas/EditApi.lean, Lemmas/EditTrace.lean.
 * whole sequences + round trip: `edits_then_roundtrip` (`roundtrip_of_refined` is its second half).
 * return codes of removals (SPEC DECISION D17, added for seed C04-12): S prescribes that coap_remove_option returns 1
   exactly when the message holds the option, and that on a message without it nothing changes
   (`remove_absent_changes_nothing`); M does so, per call (`remove_rc_prescribed`) and along every edit sequence, the
   presence being that in the abstract message REACHED SO FAR (`edits_rc_prescribed`, `EditTraceRc` in Lemmas/EditRc.lean).
   The oracle of the check (Driver/Build.lean `absRunRc`, Driver/EditSpec.lean) applies the same prescription to the
   return codes the implementation reports.
 * coap_pdu_duplicate_lkd (the copy the library edits further: block-wise transfer, proxy, OSCORE, async): read as the
   edit sequence "replace the token, remove the named options" on a copy (D16, `duplicate_is_edit_sequence`,
   `duplicate_frame`); both branches of M refine it for every abstract message, token, filter and capacity
   (`duplicate_memcpy_refines` closed form, `duplicate_filter_refines`), after any edit sequence and with the round
   trip (`edits_then_duplicate`).  Lemmas/EditDup.lean.  M is transcribed from the code after fix 56eb60f (a token that
   cannot be added makes the duplication fail instead of yielding a copy without token).
 * The former open finding hop-limit-left-by-refused-proxy is FIXED in libcoap (coap_add_option_internal removes the
   implicit Hop-Limit again when the Proxy-Uri / Proxy-Scheme option is refused); M is transcribed from the fixed code,
   and the third alternative of `EditOutcome` / the `leftover` constructor of `EditTrace` that described it are gone:
   a refused edit leaves the abstract message unchanged, full stop (example at the end of this file).
-/
namespace Coap.C04
open Coap Coap.M

/-- Frame theorem: an abstract edit changes only what it names.  Header fields and payload never
change; the token changes only through `setToken`; and the option list changes exactly by one element
at one position — every other option keeps its number, its value and its position relative to the
others (`pre` and `post` are carried over unchanged).  (`base` accounts for D13: an insertion of
Proxy-Uri / Proxy-Scheme may be accompanied by Hop-Limit.) -/
theorem edit_frame (hop : Bool) (m : Msg) (e : Spec.Edit) :
    (Spec.applyEdit hop m e).type = m.type ∧ (Spec.applyEdit hop m e).code = m.code ∧
    (Spec.applyEdit hop m e).mid = m.mid ∧ (Spec.applyEdit hop m e).payload = m.payload ∧
    (match e with
     | .setToken t => (Spec.applyEdit hop m e).token = t ∧ (Spec.applyEdit hop m e).opts = m.opts
     | .remove n =>
        (Spec.applyEdit hop m e).token = m.token ∧
        (Spec.hasOpt n m.opts = false → (Spec.applyEdit hop m e).opts = m.opts) ∧
        (Spec.hasOpt n m.opts = true → ∃ pre v post, m.opts = pre ++ (n, v) :: post ∧
            (Spec.applyEdit hop m e).opts = pre ++ post ∧ ∀ o ∈ pre, o.1 ≠ n)
     | .insert n v =>
        (Spec.applyEdit hop m e).token = m.token ∧
        ∃ base, (base = m.opts ∨ (hop = true ∧ base = Spec.insertStable 16 [16] m.opts)) ∧
          ∃ pre post, base = pre ++ post ∧ (Spec.applyEdit hop m e).opts = pre ++ (n, v) :: post ∧
            (∀ o ∈ pre, o.1 ≤ n) ∧ (∀ o, post.head? = some o → n < o.1)
     | .update n v =>
        (Spec.applyEdit hop m e).token = m.token ∧
        (Spec.hasOpt n m.opts = true → ∃ pre w post, m.opts = pre ++ (n, w) :: post ∧
            (Spec.applyEdit hop m e).opts = pre ++ (n, v) :: post ∧ ∀ o ∈ pre, o.1 ≠ n) ∧
        (Spec.hasOpt n m.opts = false →
          ∃ base, (base = m.opts ∨ (hop = true ∧ base = Spec.insertStable 16 [16] m.opts)) ∧
            ∃ pre post, base = pre ++ post ∧ (Spec.applyEdit hop m e).opts = pre ++ (n, v) :: post ∧
              (∀ o ∈ pre, o.1 ≤ n) ∧ (∀ o, post.head? = some o → n < o.1))) := by
  refine ⟨?_, ?_, ?_, ?_, ?_⟩
  · cases e <;> rfl
  · cases e <;> rfl
  · cases e <;> rfl
  · cases e <;> rfl
  · cases e with
    | setToken t => exact ⟨rfl, rfl⟩
    | remove n =>
      refine ⟨rfl, ?_, ?_⟩
      · intro h; exact removeFirst_absent n m.opts h
      · intro h; exact removeFirst_split n m.opts h
    | insert n v =>
      refine ⟨rfl, ?_⟩
      cases hop with
      | false =>
        refine ⟨m.opts, Or.inl rfl, ?_⟩
        simpa [Spec.applyEdit, Spec.addSem] using insertStable_split n v m.opts
      | true =>
        refine ⟨Spec.insertStable 16 [16] m.opts, Or.inr ⟨rfl, rfl⟩, ?_⟩
        simpa [Spec.applyEdit, Spec.addSem] using insertStable_split n v (Spec.insertStable 16 [16] m.opts)
    | update n v =>
      refine ⟨rfl, ?_, ?_⟩
      · intro h
        simpa [Spec.applyEdit, h] using replaceFirst_split n v m.opts h
      · intro h
        cases hop with
        | false =>
          refine ⟨m.opts, Or.inl rfl, ?_⟩
          simpa [Spec.applyEdit, Spec.addSem, h] using insertStable_split n v m.opts
        | true =>
          refine ⟨Spec.insertStable 16 [16] m.opts, Or.inr ⟨rfl, rfl⟩, ?_⟩
          simpa [Spec.applyEdit, Spec.addSem, h] using insertStable_split n v (Spec.insertStable 16 [16] m.opts)

/-- every abstract edit keeps the options in ascending number order -/
theorem edits_keep_order (hop : Bool) (m : Msg) (e : Spec.Edit) (h : m.opts.Pairwise (fun a b => a.1 ≤ b.1)) :
    (Spec.applyEdit hop m e).opts.Pairwise (fun a b => a.1 ≤ b.1) := by
  have hop16 : (if hop then Spec.insertStable 16 [16] m.opts else m.opts).Pairwise (fun a b => a.1 ≤ b.1) := by
    cases hop
    · simpa using h
    · simpa using insertStable_sorted 16 [16] m.opts h
  cases e with
  | setToken t => exact h
  | remove n => exact removeFirst_sorted n m.opts h
  | insert n v => exact insertStable_sorted n v _ hop16
  | update n v =>
    by_cases ho : Spec.hasOpt n m.opts = true
    · simpa [Spec.applyEdit, ho] using replaceFirst_sorted n v m.opts h
    · have ho' : Spec.hasOpt n m.opts = false := by simpa using ho
      simpa [Spec.applyEdit, ho', Spec.addSem] using insertStable_sorted n v _ hop16

/-- … so after any sequence of edits of a message whose options are in order, they still are -/
theorem edit_sequence_keeps_order (es : List (Bool × Spec.Edit)) (m : Msg) (h : m.opts.Pairwise (fun a b => a.1 ≤ b.1)) :
    (es.foldl (fun m e => Spec.applyEdit e.1 m e.2) m).opts.Pairwise (fun a b => a.1 ≤ b.1) := by
  induction es generalizing m with
  | nil => exact h
  | cons e es ih => exact ih _ (edits_keep_order e.1 m e.2 h)

/-! ### M refines S -/

/-- coap_update_token changes the token and nothing else: on the PDU that represents `a` it yields the PDU that
represents `a` with the new token — option bytes, payload bytes, `max_opt` and the payload offset follow the move —
for every token length 0..65804 in both directions; capacity is needed only when the token field grows. -/
theorem update_token_refines (ms : Nat) (a : Msg) (t : Bytes) (ht : t.length ≤ 65804) (hne : (conc ms a).buf ≠ [])
    (hfit : (Spec.encToken t).length ≤ (Spec.encToken a.token).length ∨ ms = 0 ∨
            (conc ms { a with token := t }).buf.length ≤ ms) :
    updateToken (conc ms a) t = R.ok (1, conc ms (Spec.applyEdit false a (.setToken t))) :=
  updateToken_conc ms a t ht hne hfit

/-- the second half of `edits_then_roundtrip`: once the edited PDU is known to represent the abstract message `a`
(which is what each `*_refines` theorem establishes, edit by edit), its serialisation decodes to exactly `a` -/
theorem roundtrip_of_refined (p : Proto) (ms : Nat) (a : Msg) (h : Spec.WF p a) :
    ∃ bytes, serialise p (conc ms a) = some bytes ∧ Spec.decode p bytes = some (Spec.onWire p a) := by
  obtain ⟨hty, hcode, hmid, ht, _, _, hlen⟩ := h
  exact ⟨Spec.encode p a, serialise_conc p ms a hty hcode hmid ht hlen,
         Coap.decode_encode p a ⟨hty, hcode, hmid, ht, by assumption, by assumption, hlen⟩⟩

/-- non-vacuity: a 1-byte token replaced by a 14-byte one (the token field gains an extension byte and everything
behind it moves up); the 300-byte replacement that used to corrupt the options is corpus/C04 line 1 on the real code -/
example : updateToken (conc 0 ⟨0, 1, 1, [1], [(11, [0x61]), (2000, [0x62])], [9]⟩) [1,2,3,4,5,6,7,8,9,10,11,12,13,14]
    = R.ok (1, conc 0 ⟨0, 1, 1, [1,2,3,4,5,6,7,8,9,10,11,12,13,14], [(11, [0x61]), (2000, [0x62])], [9]⟩) := by decide

/-! non-vacuity -/
example : Spec.applyEdit false ⟨0, 1, 7, [1], [(3, [0x68]), (11, [0x61]), (300, [1])], [9]⟩ (.insert 11 [0x62]) =
    ⟨0, 1, 7, [1], [(3, [0x68]), (11, [0x61]), (11, [0x62]), (300, [1])], [9]⟩ := by decide
example : Spec.applyEdit false ⟨0, 1, 7, [1], [(3, [0x68]), (11, [0x61]), (300, [1])], [9]⟩ (.remove 11) =
    ⟨0, 1, 7, [1], [(3, [0x68]), (300, [1])], [9]⟩ := by decide
example : Spec.applyEdit true ⟨0, 1, 7, [], [(11, [0x61])], []⟩ (.insert 35 [0x78]) =
    ⟨0, 1, 7, [], [(11, [0x61]), (16, [16]), (35, [0x78])], []⟩ := by decide

/-- the possible outcomes of an option-adding edit `e` of option `n` (an insertion, or an update of an absent option):
accepted = the abstract edit of S, with D13's implicit Hop-Limit only where D13 allows it; refused = nothing changes
(D14).  (Before the fix of hop-limit-left-by-refused-proxy there was a third alternative:
 `rc = 0 ∧ Spec.hopApplies a.code n a.opts = true ∧ a' = { a with opts := Spec.insertStable 16 [16] a.opts }`.) -/
def EditOutcome (a : Msg) (n : Nat) (e : Spec.Edit) (rc : Nat) (a' : Msg) : Prop :=
  (rc ≠ 0 ∧ ∃ hop : Bool, (hop = true → Spec.hopApplies a.code n a.opts = true) ∧ a' = Spec.applyEdit hop a e) ∨
  (rc = 0 ∧ a' = a)

/-- **coap_insert_option refines the abstract insertion**, for every abstract message the builders/editors can
produce (`Shape`), every option number, every value (too long included), every capacity: the result is again a
representing PDU (never out of bounds), accepted ⇒ it represents `Spec.applyEdit … (.insert n v)` (append path, the six
next-header rewrite cases of the middle path, implicit Hop-Limit), refused ⇒ see `EditOutcome`; and a call is refused
only for a value the wire format cannot carry, an illegal repetition, or lack of space. -/
theorem insert_refines (ms : Nat) (a : Msg) (n : Nat) (v : Bytes) (hs : Shape a) (hn : n ≤ 65535) :
    ∃ rc a', insertOption (conc ms a) n v = R.ok (rc, conc ms a') ∧ Shape a' ∧
      EditOutcome a n (.insert n v) rc a' ∧
      (rc = 0 → v.length > 65804 ∨ (n = lastNum a.opts ∧ ¬ repeatable n = true) ∨ ms ≠ 0) := by
  refine ⟨_, _, insertOption_conc ms a n v hs hn, absInsert_shape ms a n v hs hn, ?_, ?_⟩
  · rcases absInsert_cases ms a n v with ⟨k1, hop, k2, k3⟩ | ⟨k1, k2, _⟩
    · exact Or.inl ⟨k1, hop, k2, k3⟩
    · exact Or.inr ⟨k1, k2⟩
  · intro h0
    rcases absInsert_cases ms a n v with ⟨k1, _⟩ | ⟨_, _, k3⟩
    · exact absurd h0 k1
    · exact k3

/-- the middle path in closed form (the statement announced in design/C04.md): an insertion below the highest option
number that fits is accepted, returns the encoded size, never adds anything else, and yields exactly the stable
insertion — whichever of the six header-rewrite cases the following option needs -/
theorem insert_refines_middle (ms : Nat) (a : Msg) (n : Nat) (v : Bytes) (hs : Shape a) (hn : n < lastNum a.opts)
    (hv : v.length ≤ 65804) (hfit : fits ms a (Spec.encOpt (n - prevNum n a.opts) v).length) :
    insertOption (conc ms a) n v =
      R.ok ((Spec.encOpt (n - prevNum n a.opts) v).length, conc ms (Spec.applyEdit false a (.insert n v))) := by
  have hn2 : n ≤ 65535 := by
    have hB := optsB_of_shape hs
    rcases lastD_le_of_optsB hB with h | h
    · have : lastNum a.opts = lastD 0 a.opts := rfl
      omega
    · rw [h] at hn; simp [lastNum] at hn
  rw [insertOption_conc ms a n v hs hn2]
  unfold absInsert
  rw [if_neg (by omega), if_neg (by omega)]
  unfold absPlace
  have hfit' : ms = 0 ∨ (conc ms a).buf.length + (Spec.encOpt (n - prevNum n a.opts) v).length ≤ ms := hfit
  rw [if_pos hfit']
  rfl

/-- **coap_remove_option refines the abstract removal**, unconditionally: the first option with that number goes (the
following option's delta absorbs its delta — six header-growth cases — or `max_opt` falls back when it was the last),
everything else stays; return value 1 iff there was such an option -/
theorem remove_refines (ms : Nat) (a : Msg) (n : Nat) (hs : Shape a) :
    removeOption (conc ms a) n =
      R.ok ((if Spec.hasOpt n a.opts = true then 1 else 0), conc ms (Spec.applyEdit false a (.remove n))) ∧
    Shape (Spec.applyEdit false a (.remove n)) := by
  refine ⟨?_, Shape_remove a n hs⟩
  rw [removeOption_conc ms a n hs]
  cases hh : Spec.hasOpt n a.opts with
  | true => rfl
  | false =>
    have : Spec.applyEdit false a (.remove n) = a := by
      show ({ a with opts := Spec.removeFirst n a.opts } : Msg) = a
      rw [removeFirst_absent n a.opts hh]
    rw [this]; rfl

/-- **coap_update_option refines the abstract update**: present ⇒ the first option with that number gets the new value
in place (any length change, capacity needed only for growth), absent ⇒ it is an insertion (`insert_refines`) -/
theorem update_refines (ms : Nat) (a : Msg) (n : Nat) (v : Bytes) (hs : Shape a) (hn : n ≤ 65535) :
    ∃ rc a', updateOption (conc ms a) n v = R.ok (rc, conc ms a') ∧ Shape a' ∧
      (Spec.hasOpt n a.opts = true →
        (rc ≠ 0 ∧ a' = Spec.applyEdit false a (.update n v)) ∨ (rc = 0 ∧ a' = a ∧ (v.length > 65804 ∨ ms ≠ 0))) ∧
      (Spec.hasOpt n a.opts = false → EditOutcome a n (.update n v) rc a' ∧
        (rc = 0 → v.length > 65804 ∨ (n = lastNum a.opts ∧ ¬ repeatable n = true) ∨ ms ≠ 0)) := by
  refine ⟨_, _, updateOption_conc ms a n v hs hn, absCall_shape ms a (.updateOption n v) hs hn, ?_, ?_⟩
  · intro hh
    unfold absUpdate
    by_cases hv : v.length > 65804
    · rw [if_pos hv]; exact Or.inr ⟨rfl, rfl, Or.inl hv⟩
    · rw [if_neg hv, if_pos hh]
      split
      · left; refine ⟨by simp, ?_⟩
        simp [Spec.applyEdit, hh]
      · rename_i hnf
        exact Or.inr ⟨rfl, rfl, Or.inr (fun h0 => hnf (Or.inr (Or.inl h0)))⟩
  · intro hh
    have hu : absUpdate ms a n v = absInsert ms a n v := by
      unfold absUpdate absInsert
      by_cases hv : v.length > 65804
      · rw [if_pos hv, if_pos hv]
      · rw [if_neg hv, if_neg hv, hh]; simp
    have hsem : ∀ hop, Spec.applyEdit hop a (.update n v) = { a with opts := Spec.addSem hop n v a.opts } := by
      intro hop; simp [Spec.applyEdit, hh]
    rw [hu]
    constructor
    · rcases absInsert_cases ms a n v with ⟨k1, hop, k2, k3⟩ | ⟨k1, k2, _⟩
      · exact Or.inl ⟨k1, hop, k2, by rw [hsem]; exact k3⟩
      · exact Or.inr ⟨k1, k2⟩
    · intro h0
      rcases absInsert_cases ms a n v with ⟨k1, _⟩ | ⟨_, _, k3⟩
      · exact absurd h0 k1
      · exact k3

/-- the replacement path in closed form: a present option whose new encoding fits (always, when it does not grow) is
replaced, return value 1 -/
theorem update_refines_present (ms : Nat) (a : Msg) (n : Nat) (v : Bytes) (hs : Shape a) (hv : v.length ≤ 65804)
    (hh : Spec.hasOpt n a.opts = true)
    (hfit : (conc ms (Spec.applyEdit false a (.update n v))).buf.length ≤ (conc ms a).buf.length ∨ ms = 0 ∨
            (conc ms (Spec.applyEdit false a (.update n v))).buf.length ≤ ms) :
    updateOption (conc ms a) n v = R.ok (1, conc ms (Spec.applyEdit false a (.update n v))) := by
  have he : Spec.applyEdit false a (.update n v) = { a with opts := Spec.replaceFirst n v a.opts } := by
    simp [Spec.applyEdit, hh]
  rw [he] at hfit ⊢
  rw [updateOption_found ms a n v hs hv hh, if_pos hfit]

/- `callOf` (the API call performing an abstract edit), `editNumOk` (option numbers are 16 bits wide) and `EditTrace`
(the same edits applied to the abstract model, with M's return codes: `accepted` = `Spec.applyEdit`, `refused` = nothing
changes) are defined in Lemmas/EditTrace.lean. -/

/-- **C04, M side, whole sequences**: any sequence of option insertions, updates, removals and token replacements,
performed by M on the PDU representing `a` (any capacity — refusals included), never leaves the buffer and ends on the
PDU that represents the same edits applied to the abstract (token, ordered option list, payload) model; and whenever that
abstract result is well-formed for a framing (the caller kept the RFC's per-option length limits), the edited PDU
serialises and the bytes decode to exactly that model (`onWire`: D3). -/
theorem edits_then_roundtrip (ms : Nat) (a : Msg) (es : List Spec.Edit) (hs : Shape a) (hn : ∀ e ∈ es, editNumOk e) :
    ∃ rcs a', run (conc ms a) (es.map callOf) = R.ok (rcs, conc ms a') ∧ EditTrace a es rcs a' ∧ Shape a' ∧
      ∀ p, Spec.WF p a' →
        ∃ bytes, serialise p (conc ms a') = some bytes ∧ Spec.decode p bytes = some (Spec.onWire p a') := by
  have hc : ∀ c ∈ es.map callOf, callNumOk c := by
    intro c hc
    obtain ⟨e, he, rfl⟩ := List.mem_map.mp hc
    have := hn e he
    cases e <;> exact this
  obtain ⟨rcs, a', h1, h2, h3⟩ := run_refines ms a (es.map callOf) hs hc
  refine ⟨rcs, a', h1, editTrace_of_trace es a a' rcs h2, h3, ?_⟩
  intro p hwf
  obtain ⟨hty, hcode, hmid, ht, _, _, hlen⟩ := hwf
  exact ⟨Spec.encode p a', serialise_conc p ms a' hty hcode hmid ht hlen,
         Coap.decode_encode p a' ⟨hty, hcode, hmid, ht, by assumption, by assumption, hlen⟩⟩

/-- S, D17: removing an option number the message does not hold changes NOTHING — whatever options follow -/
theorem remove_absent_changes_nothing (hop : Bool) (m : Msg) (n : Nat) (h : Spec.hasOpt n m.opts = false) :
    Spec.applyEdit hop m (.remove n) = m := by
  show ({ m with opts := Spec.removeFirst n m.opts } : Msg) = m
  rw [removeFirst_absent n m.opts h]

/-- **the return code of coap_remove_option is the one S prescribes (D17)**, every abstract message the API can produce,
every number, every capacity: on a message WITHOUT option `n` the call returns 0 and the PDU is the one it was — byte for
byte, `max_opt` and `data` included, whichever higher-numbered options follow; on a message WITH it the call returns 1
and the PDU represents the abstract removal -/
theorem remove_rc_prescribed (ms : Nat) (a : Msg) (n : Nat) (hs : Shape a) :
    (Spec.hasOpt n a.opts = false → removeOption (conc ms a) n = R.ok (0, conc ms a)) ∧
    (Spec.hasOpt n a.opts = true →
      removeOption (conc ms a) n = R.ok (1, conc ms (Spec.applyEdit false a (.remove n)))) := by
  have h := (remove_refines ms a n hs).1
  constructor
  · intro hh
    rw [h, remove_absent_changes_nothing false a n hh]
    simp [hh]
  · intro hh
    rw [h]
    simp [hh]

/-- **C04 with prescribed return codes, whole sequences**: `edits_then_roundtrip`'s trace is one in which, in addition,
every removal returned 1 exactly when the abstract message REACHED SO FAR held the option and 0 exactly when it did not
(`EditTraceRc`, D17) — so the return codes M reports for removals are a function of the abstract run alone, and the
oracle may demand them of the implementation -/
theorem edits_rc_prescribed (ms : Nat) (a : Msg) (es : List Spec.Edit) (hs : Shape a) (hn : ∀ e ∈ es, editNumOk e) :
    ∃ rcs a', run (conc ms a) (es.map callOf) = R.ok (rcs, conc ms a') ∧ EditTraceRc a es rcs a' ∧ Shape a' := by
  have hc : ∀ c ∈ es.map callOf, callNumOk c := by
    intro c hc
    obtain ⟨e, he, rfl⟩ := List.mem_map.mp hc
    have := hn e he
    cases e <;> exact this
  obtain ⟨rcs, a', h1, h2, h3⟩ := run_refines_rc ms a (es.map callOf) hs hc
  exact ⟨rcs, a', h1, editTraceRc_of_traceRc es a a' rcs h2, h3⟩

/-- non-vacuity, the witness of seed C04-12: options 11, 12, 14, 60 and a payload; removing the absent 27 (Block1 — what
libcoap does on every 4.xx / 5.xx response), 13 or 1 returns 0 and leaves everything in place, 60 / 14 / 11 included -/
example : removeOption (conc 0 ⟨0, 1, 7, [1, 2], [(11, [0x61]), (12, [0]), (14, [0x3c]), (60, [0x10])], [9]⟩) 27 =
    R.ok (0, conc 0 ⟨0, 1, 7, [1, 2], [(11, [0x61]), (12, [0]), (14, [0x3c]), (60, [0x10])], [9]⟩) := by decide
example : removeOption (conc 0 ⟨0, 1, 7, [1, 2], [(11, [0x61]), (12, [0]), (14, [0x3c]), (60, [0x10])], [9]⟩) 27 =
    R.ok (0, conc 0 ⟨0, 1, 7, [1, 2], [(11, [0x61]), (12, [0]), (14, [0x3c]), (60, [0x10])], [9]⟩) :=
  (remove_rc_prescribed 0 ⟨0, 1, 7, [1, 2], [(11, [0x61]), (12, [0]), (14, [0x3c]), (60, [0x10])], [9]⟩ 27
    (by unfold Shape; decide)).1 (by decide)
example : run (conc 0 ⟨0, 1, 7, [1, 2], [(11, [0x61]), (12, [0]), (14, [0x3c]), (60, [0x10])], [9]⟩)
    ([.remove 13, .remove 1, .remove 12, .remove 12, .remove 61].map callOf) =
    R.ok ([0, 0, 1, 0, 0], conc 0 ⟨0, 1, 7, [1, 2], [(11, [0x61]), (14, [0x3c]), (60, [0x10])], [9]⟩) := by decide
example : EditTraceRc ⟨0, 1, 7, [1, 2], [(11, [0x61]), (12, [0]), (60, [0x10])], [9]⟩
    [.remove 27, .remove 12, .remove 12] [0, 1, 0] ⟨0, 1, 7, [1, 2], [(11, [0x61]), (60, [0x10])], [9]⟩ :=
  EditTraceRc.refused (by unfold EditRc; decide) (EditTraceRc.accepted false (by decide) (by decide)
    (by unfold EditRc; decide) (EditTraceRc.refused (by unfold EditRc; decide) (EditTraceRc.nil _)))
/-- … and the prescription has teeth: "returned 1" for the absent 27 is NOT a trace of S, whatever message it ends on -/
example : ¬ ∃ a', EditTraceRc ⟨0, 1, 7, [], [(11, [0x61]), (60, [0x10])], []⟩ [.remove 27] [1] a' := by
  rintro ⟨a', h⟩
  cases h with
  | accepted hop _ _ hrc _ => unfold EditRc at hrc; revert hrc; decide

/-- edits of RECEIVED messages start from a representing PDU too: what `coap_pdu_parse` leaves behind for an accepted
message (`M.ofParsed`: the received bytes behind the fixed header, `max_opt` = last option number, `data` = offset
behind the marker) is `conc ms m` for the decoded `m`, on every framing, and `m` satisfies `Shape` -/
theorem parsed_start_is_refined (ms : Nat) (p : Proto) (wire : Bytes) (m : Msg) (h : Spec.decode p wire = some m) :
    ofParsed ms m (wire.drop (headerSize p (wire.headD 0).toNat)) = conc ms m ∧ Shape m :=
  parsed_start ms p wire m h

/-- well-formedness is kept: if the message was well-formed and every inserted / updated value respects the RFC length
limit of its option (`editLenOk`), the edited abstract message is well-formed again (on tcp: as long as it still fits
the 32-bit extended length) — including D13's implicit Hop-Limit -/
theorem edits_keep_wellformed (p : Proto) (a a' : Msg) (es : List Spec.Edit) (rcs : List Nat) (h : EditTrace a es rcs a')
    (hs : Shape a') (hwf : Spec.WF p a) (hc : a.code ≠ 0) (he : ∀ e ∈ es, editLenOk a.code e)
    (htcp : p = .tcp → (Spec.encRest a').length < 65805 + 4294967296) : Spec.WF p a' :=
  editTrace_wf p h hs hwf hc he htcp

/-- **C04 end to end** (hypotheses on the inputs only): a well-formed non-Empty message, any sequence of edits whose
values respect the RFC length limits, any capacity ⇒ M ends on the PDU representing the same edits applied to the
abstract model, and its serialisation decodes to exactly that model -/
theorem edits_then_roundtrip_wf (p : Proto) (ms : Nat) (a : Msg) (es : List Spec.Edit) (hwf : Spec.WF p a) (hc : a.code ≠ 0)
    (hn : ∀ e ∈ es, editNumOk e) (he : ∀ e ∈ es, editLenOk a.code e) :
    ∃ rcs a', run (conc ms a) (es.map callOf) = R.ok (rcs, conc ms a') ∧ EditTrace a es rcs a' ∧
      ((p = .tcp → (Spec.encRest a').length < 65805 + 4294967296) →
        Spec.WF p a' ∧
        ∃ bytes, serialise p (conc ms a') = some bytes ∧ Spec.decode p bytes = some (Spec.onWire p a')) := by
  have hs : Shape a := Shape_of_optsOk a hwf.2.2.2.1 hwf.2.2.2.2.1
  obtain ⟨rcs, a', h1, h2, h3, h4⟩ := edits_then_roundtrip ms a es hs hn
  refine ⟨rcs, a', h1, h2, ?_⟩
  intro htcp
  have hwf' := edits_keep_wellformed p a a' es rcs h2 h3 hwf hc he htcp
  exact ⟨hwf', h4 p hwf'⟩

/-! ### non-vacuity of the M-side theorems: concrete instances (by evaluation of M) -/

/-- the message used below: 9 bytes behind the header; option 300 is encoded with a two-byte delta extension (297) -/
example : Shape ⟨0, 1, 7, [1], [(3, [0x68]), (300, [1])], [9]⟩ ∧
    (conc 0 ⟨0, 1, 7, [1], [(3, [0x68]), (300, [1])], [9]⟩).buf = [1, 0x31, 0x68, 0xe1, 0x00, 0x1c, 1, 0xff, 9] := by
  unfold Shape; decide

/-- insertion in the middle: the following option's header shrinks by two bytes (delta 297 → 10) … -/
example : insertOption (conc 0 ⟨0, 1, 7, [1], [(3, [0x68]), (300, [1])], [9]⟩) 290 [0x62] =
    R.ok (4, conc 0 ⟨0, 1, 7, [1], [(3, [0x68]), (290, [0x62]), (300, [1])], [9]⟩) := by decide
/-- … by one byte (delta 297 → 200) -/
example : insertOption (conc 0 ⟨0, 1, 7, [1], [(3, [0x68]), (300, [1])], [9]⟩) 100 [0x62] =
    R.ok (3, conc 0 ⟨0, 1, 7, [1], [(3, [0x68]), (100, [0x62]), (300, [1])], [9]⟩) := by decide
/-- refused for lack of space (capacity 11: 9 + 3 > 11 — the later shrink by one is not counted by the code), unchanged -/
example : insertOption (conc 11 ⟨0, 1, 7, [1], [(3, [0x68]), (300, [1])], [9]⟩) 100 [0x62] =
    R.ok (0, conc 11 ⟨0, 1, 7, [1], [(3, [0x68]), (300, [1])], [9]⟩) := by decide
/-- the instance of `insert_refines` for that call (hypotheses discharged by evaluation) -/
example : ∃ rc a', insertOption (conc 11 ⟨0, 1, 7, [1], [(3, [0x68]), (300, [1])], [9]⟩) 100 [0x62] = R.ok (rc, conc 11 a') ∧
    Shape a' ∧ EditOutcome ⟨0, 1, 7, [1], [(3, [0x68]), (300, [1])], [9]⟩ 100 (.insert 100 [0x62]) rc a' ∧
    (rc = 0 → ([0x62] : Bytes).length > 65804 ∨
      (100 = lastNum [(3, [0x68]), (300, [(1 : UInt8)])] ∧ ¬ repeatable 100 = true) ∨ 11 ≠ 0) :=
  insert_refines 11 ⟨0, 1, 7, [1], [(3, [0x68]), (300, [1])], [9]⟩ 100 [0x62] (by unfold Shape; decide) (by decide)
example : insertOption (conc 12 ⟨0, 1, 7, [1], [(3, [0x68]), (300, [1])], [9]⟩) 100 [0x62] =
    R.ok ((Spec.encOpt (100 - prevNum 100 [(3, [0x68]), (300, [(1 : UInt8)])]) [0x62]).length,
          conc 12 (Spec.applyEdit false ⟨0, 1, 7, [1], [(3, [0x68]), (300, [1])], [9]⟩ (.insert 100 [0x62]))) :=
  insert_refines_middle 12 ⟨0, 1, 7, [1], [(3, [0x68]), (300, [1])], [9]⟩ 100 [0x62] (by unfold Shape; decide)
    (by decide) (by decide) (by unfold fits; decide)
/-- removal: the following option's header grows by two bytes (delta 10 → 297) -/
example : removeOption (conc 0 ⟨0, 1, 7, [1], [(3, [0x68]), (290, [0x62]), (300, [1])], [9]⟩) 290 =
    R.ok (1, conc 0 ⟨0, 1, 7, [1], [(3, [0x68]), (300, [1])], [9]⟩) := by decide
example : removeOption (conc 0 ⟨0, 1, 7, [1], [(3, [0x68]), (290, [0x62]), (300, [1])], [9]⟩) 290 =
      R.ok ((if Spec.hasOpt 290 [(3, [0x68]), (290, [0x62]), (300, [(1 : UInt8)])] = true then 1 else 0),
        conc 0 (Spec.applyEdit false ⟨0, 1, 7, [1], [(3, [0x68]), (290, [0x62]), (300, [1])], [9]⟩ (.remove 290))) :=
  (remove_refines 0 ⟨0, 1, 7, [1], [(3, [0x68]), (290, [0x62]), (300, [1])], [9]⟩ 290 (by unfold Shape; decide)).1
/-- update in place: the value grows from 1 to 13 bytes (its length field gains an extension byte) -/
example : updateOption (conc 0 ⟨0, 1, 7, [1], [(3, [0x68]), (290, [0x62]), (300, [1])], [9]⟩) 290 [1,2,3,4,5,6,7,8,9,10,11,12,13] =
    R.ok (1, conc 0 ⟨0, 1, 7, [1], [(3, [0x68]), (290, [1,2,3,4,5,6,7,8,9,10,11,12,13]), (300, [1])], [9]⟩) := by decide
example : updateOption (conc 0 ⟨0, 1, 7, [1], [(3, [0x68]), (290, [0x62]), (300, [1])], [9]⟩) 290 [] =
    R.ok (1, conc 0 (Spec.applyEdit false ⟨0, 1, 7, [1], [(3, [0x68]), (290, [0x62]), (300, [1])], [9]⟩ (.update 290 []))) :=
  update_refines_present 0 ⟨0, 1, 7, [1], [(3, [0x68]), (290, [0x62]), (300, [1])], [9]⟩ 290 [] (by unfold Shape; decide)
    (by decide) (by decide) (by decide)
/-- a sequence of all four kinds of edit, ending with a Proxy-Uri that brings its implicit Hop-Limit (D13) -/
example : run (conc 0 ⟨0, 1, 7, [1], [(3, [0x68]), (300, [1])], [9]⟩)
    ([.insert 290 [0x62], .update 3 [0x69], .remove 300, .setToken [5, 6], .remove 290, .insert 35 [0x78]].map callOf) =
    R.ok ([4, 1, 1, 1, 1, 3], conc 0 ⟨0, 1, 7, [5, 6], [(3, [0x69]), (16, [16]), (35, [0x78])], [9]⟩) := by decide
example : Spec.WF .tcp ⟨0, 1, 7, [5, 6], [(3, [0x69]), (16, [16]), (35, [0x78])], [9]⟩ := by decide
example : EditTrace ⟨0, 1, 7, [1], [(3, [0x68]), (300, [1])], [9]⟩
    [.insert 290 [0x62], .remove 300, .insert 35 [0x78]] [4, 1, 3]
    ⟨0, 1, 7, [1], [(3, [0x68]), (35, [0x78]), (290, [0x62])], [9]⟩ :=
  EditTrace.accepted false (by decide) (by decide) (EditTrace.accepted false (by decide) (by decide)
    (EditTrace.accepted false (by decide) (by decide) (EditTrace.nil _)))
/-- a received datagram (GET, token 01, Uri-Path "a", option 300, payload 09) and the PDU the parser leaves behind -/
example : Spec.decode .udp [0x41, 0x01, 0x00, 0x07, 1, 0xb1, 0x61, 0xe1, 0x00, 0x14, 1, 0xff, 9] =
    some ⟨0, 1, 7, [1], [(11, [0x61]), (300, [1])], [9]⟩ := by decide
example : ofParsed 0 ⟨0, 1, 7, [1], [(11, [0x61]), (300, [1])], [9]⟩ [1, 0xb1, 0x61, 0xe1, 0x00, 0x14, 1, 0xff, 9] =
    conc 0 ⟨0, 1, 7, [1], [(11, [0x61]), (300, [1])], [9]⟩ := by decide
/-- hypotheses of `edits_then_roundtrip_wf` on a concrete instance -/
example : Spec.WF .tcp ⟨0, 1, 7, [1], [(11, [0x61]), (300, [1])], [9]⟩ ∧
    (∀ e ∈ [Spec.Edit.insert 290 [0x62], .update 11 [0x69], .remove 300, .setToken [5, 6]], editNumOk e) ∧
    (∀ e ∈ [Spec.Edit.insert 290 [0x62], .update 11 [0x69], .remove 300, .setToken [5, 6]], editLenOk 1 e) := by
  refine ⟨by decide, ?_, ?_⟩ <;> (intro e he; simp at he; rcases he with rfl | rfl | rfl | rfl <;> simp [editNumOk, editLenOk] <;> decide)
/-- the former open finding inside an edit sequence: the refused Proxy-Uri (capacity 12: Hop-Limit fits, the 20-byte
Proxy-Uri does not) now leaves nothing behind.  Before the fix the result was
`R.ok ([0], conc 12 ⟨0, 1, 1, [], [(16, [16])], []⟩)` (the `leftover` step). -/
example : run (conc 12 ⟨0, 1, 1, [], [], []⟩) ([.insert 35 (List.replicate 20 0x61)].map callOf) =
    R.ok ([0], conc 12 ⟨0, 1, 1, [], [], []⟩) := by decide
example : EditTrace ⟨0, 1, 1, [], [], []⟩ [.insert 35 (List.replicate 20 0x61)] [0] ⟨0, 1, 1, [], [], []⟩ :=
  EditTrace.refused (EditTrace.nil _)
/-- … also through the middle path (Proxy-Uri below max_opt: Hop-Limit inserted before option 300, Proxy-Uri refused,
Hop-Limit removed again — insertion and removal rewrite the header of option 300 there and back) -/
example : run (conc 14 ⟨0, 1, 1, [], [(300, [1])], []⟩) [.addOption 35 (List.replicate 20 0x61)] =
    R.ok ([0], conc 14 ⟨0, 1, 1, [], [(300, [1])], []⟩) := by decide

/-! ### coap_pdu_duplicate: a copy with a new token and without the named options (D16) -/

/-- S: the abstract copy IS the C04 edit sequence "token replacement, then one removal per occurrence of a named
option", applied to the original without its payload and with the new message id -/
theorem duplicate_is_edit_sequence (m : Msg) (mid : Nat) (tok : Bytes) (drop : Nat → Bool) :
    Spec.duplicate false m mid tok drop =
      (Spec.dupEdits m tok drop).foldl (Spec.applyEdit false) { m with mid := mid, payload := [] } := by
  unfold Spec.dupEdits
  rw [List.foldl_cons]
  have h1 : Spec.applyEdit false { m with mid := mid, payload := [] } (.setToken tok) =
      ⟨m.type, m.code, mid, tok, m.opts, []⟩ := rfl
  rw [h1, foldl_applyEdit_removes]
  simp only []
  rw [foldl_remove_keep]
  rfl

/-- S, frame: the copy has the new token, no payload, the original's type and code; its options are a sublist of
the original's (numbers, values and relative order kept), namely exactly those the filter does not name -/
theorem duplicate_frame (m : Msg) (mid : Nat) (tok : Bytes) (drop : Nat → Bool) :
    (Spec.duplicate false m mid tok drop).type = m.type ∧ (Spec.duplicate false m mid tok drop).code = m.code ∧
    (Spec.duplicate false m mid tok drop).mid = mid ∧ (Spec.duplicate false m mid tok drop).token = tok ∧
    (Spec.duplicate false m mid tok drop).payload = [] ∧
    (Spec.duplicate false m mid tok drop).opts.Sublist m.opts ∧
    (∀ o, o ∈ (Spec.duplicate false m mid tok drop).opts ↔ o ∈ m.opts ∧ drop o.1 = false) ∧
    ((∀ o ∈ m.opts, drop o.1 = false) → (Spec.duplicate false m mid tok drop).opts = m.opts) := by
  refine ⟨rfl, rfl, rfl, rfl, rfl, ?_, ?_, ?_⟩
  · exact List.filter_sublist
  · intro o
    show o ∈ Spec.keep drop m.opts ↔ _
    simp [Spec.keep]
  · intro h
    show Spec.keep drop m.opts = m.opts
    unfold Spec.keep
    rw [List.filter_eq_self]
    intro o ho
    simp [h o ho]

/-- **coap_pdu_duplicate_lkd, `drop_options == NULL` (one memcpy of the option area), closed form**: on the PDU
representing ANY abstract message `a` (any token, options, payload), for every new token, message id, session size and
capacity: NULL exactly when the capacity `max ms smax` is above what coap_pdu_init accepts, the token is longer than
65804 bytes, or token field + option area do not fit; otherwise the PDU representing the abstract copy — new id, new
token (whatever the two token lengths are), all options with their numbers, values and order, no payload -/
theorem duplicate_memcpy_refines (ms : Nat) (a : Msg) (mid smax : Nat) (t : Bytes) :
    duplicate (conc ms a) mid smax t none =
      R.ok (if max ms smax ≤ 8388858 ∧ t.length ≤ 65804 ∧
               (max ms smax = 0 ∨ (Spec.encToken t).length + (Spec.encOpts 0 a.opts).length ≤ max ms smax)
            then some (conc (max ms smax) (Spec.duplicate false a mid t (fun _ => false))) else none) :=
  duplicate_fast_conc ms a mid smax t

/-- **coap_pdu_duplicate_lkd with a drop filter** (options re-added one by one through coap_add_option_internal): on the
PDU representing any `a` with `Shape`, for every filter, token, id and capacity the result is NULL — and then the
capacity is limited or above coap_pdu_init's maximum, or the token is too long, or `a` carries a non-repeatable option
(the only candidates for a refused repetition) — or the PDU representing the abstract copy: exactly the options the
filter does not name, numbers / values / order kept; D13: Hop-Limit = 16 added only where `dupHopOk` (a request copy
left with Proxy-Uri / Proxy-Scheme and without Hop-Limit).  Never out of bounds, never a partial copy. -/
theorem duplicate_filter_refines (ms : Nat) (a : Msg) (mid smax : Nat) (t : Bytes) (drop : Nat → Bool) (hs : Shape a) :
    ∃ r, duplicate (conc ms a) mid smax t (some drop) = R.ok r ∧
      ((r = none ∧ (¬ (max ms smax ≤ 8388858) ∨ t.length > 65804 ∨ max ms smax ≠ 0 ∨
                     ∃ o ∈ a.opts, ¬ repeatable o.1 = true)) ∨
       ∃ hop : Bool, (hop = true → Spec.dupHopOk a.code (Spec.keep drop a.opts) = true) ∧
         r = some (conc (max ms smax) (Spec.duplicate hop a mid t drop)) ∧ Shape (Spec.duplicate hop a mid t drop)) :=
  duplicate_filter_conc ms a mid smax t drop hs

/-- **C04 with a duplication at the end of the edit sequence**: any edits on the PDU representing `a` (any capacity),
then coap_pdu_duplicate_lkd with or without a filter: the edits end on the PDU representing the abstract edits
(`EditTrace`), the original is that PDU still (the function is pure in `old`), and the copy is NULL or the PDU —
with capacity `max ms smax` — representing the abstract copy `c` of the EDITED message; `c` satisfies `Shape`, so
`edits_then_roundtrip` applies to any further edits of the copy; and whenever `c` is well-formed for a framing its
serialisation decodes to exactly `c` -/
theorem edits_then_duplicate (ms : Nat) (a : Msg) (es : List Spec.Edit) (mid smax : Nat) (t : Bytes)
    (drop : Option (Nat → Bool)) (hs : Shape a) (hn : ∀ e ∈ es, editNumOk e) :
    ∃ rcs a', run (conc ms a) (es.map callOf) = R.ok (rcs, conc ms a') ∧ EditTrace a es rcs a' ∧
      ∃ r, duplicate (conc ms a') mid smax t drop = R.ok r ∧
        (r = none ∨
         ∃ (hop : Bool) (c : Msg),
           (hop = true → ∃ f, drop = some f ∧ Spec.dupHopOk a'.code (Spec.keep f a'.opts) = true) ∧
           c = Spec.duplicate hop a' mid t (drop.getD fun _ => false) ∧
           r = some (conc (max ms smax) c) ∧ Shape c ∧
           ∀ p, Spec.WF p c →
             ∃ bytes, serialise p (conc (max ms smax) c) = some bytes ∧ Spec.decode p bytes = some (Spec.onWire p c)) := by
  obtain ⟨rcs, a', h1, h2, h3, _⟩ := edits_then_roundtrip ms a es hs hn
  refine ⟨rcs, a', h1, h2, ?_⟩
  have hrt : ∀ (c : Msg) (p : Proto), Spec.WF p c →
      ∃ bytes, serialise p (conc (max ms smax) c) = some bytes ∧ Spec.decode p bytes = some (Spec.onWire p c) :=
    fun c p hwf => roundtrip_of_refined p (max ms smax) c hwf
  cases drop with
  | none =>
    refine ⟨_, duplicate_fast_conc ms a' mid smax t, ?_⟩
    by_cases hc : max ms smax ≤ 8388858 ∧ t.length ≤ 65804 ∧
        (max ms smax = 0 ∨ (Spec.encToken t).length + (Spec.encOpts 0 a'.opts).length ≤ max ms smax)
    · rw [if_pos hc]
      right
      refine ⟨false, _, (fun h => by cases h), rfl, rfl, ?_, hrt _⟩
      have hk : Spec.duplicate false a' mid t (fun _ => false) = ⟨a'.type, a'.code, mid, t, a'.opts, []⟩ := by
        simp [Spec.duplicate, keep_none]
      show Shape (Spec.duplicate false a' mid t (fun _ => false))
      rw [hk]
      exact ⟨hc.2.1, h3.2.1, h3.2.2⟩
    · rw [if_neg hc]; exact Or.inl rfl
  | some f =>
    obtain ⟨r, e1, e2⟩ := duplicate_filter_conc ms a' mid smax t f h3
    refine ⟨r, e1, ?_⟩
    rcases e2 with ⟨j, _⟩ | ⟨hop, j1, j2, j3⟩
    · exact Or.inl j
    · right
      exact ⟨hop, _, (fun h => ⟨f, rfl, j1 h⟩), rfl, j2, j3, hrt _⟩

/-! non-vacuity of the duplication theorems (by evaluation of M): the message of the examples below, copied … -/

/-- … by memcpy with a LONGER token (1 → 3 bytes): all options arrive, the payload does not -/
example : duplicate (conc 0 ⟨0, 1, 7, [1], [(3, [0x68]), (300, [1])], [9]⟩) 8 1152 [5, 6, 7] none =
    R.ok (some (conc 1152 ⟨0, 1, 8, [5, 6, 7], [(3, [0x68]), (300, [1])], []⟩)) := by decide
/-- … with a SHORTER token (empty) and an exactly fitting capacity (7 option bytes), one byte less: NULL -/
example : duplicate (conc 0 ⟨0, 1, 7, [1], [(3, [0x68]), (300, [1])], [9]⟩) 8 6 [] none =
    R.ok (some (conc 6 ⟨0, 1, 8, [], [(3, [0x68]), (300, [1])], []⟩)) := by decide
example : duplicate (conc 0 ⟨0, 1, 7, [1], [(3, [0x68]), (300, [1])], [9]⟩) 8 5 [] none = R.ok none := by decide
/-- … through a filter naming option 3: the header of option 300 is re-encoded for the new delta -/
example : duplicate (conc 0 ⟨0, 1, 7, [1], [(3, [0x68]), (300, [1])], [9]⟩) 8 1152 [5, 6, 7] (some fun n => n == 3) =
    R.ok (some (conc 1152 ⟨0, 1, 8, [5, 6, 7], [(300, [1])], []⟩)) := by decide
example : Spec.duplicate false ⟨0, 1, 7, [1], [(3, [0x68]), (300, [1])], [9]⟩ 8 [5, 6, 7] (fun n => n == 3) =
    ⟨0, 1, 8, [5, 6, 7], [(300, [1])], []⟩ := by decide
example : Spec.dupEdits ⟨0, 1, 7, [1], [(3, [0x68]), (11, [1]), (3, [2])], [9]⟩ [5] (fun n => n == 3) =
    [.setToken [5], .remove 3, .remove 3] := by decide
/-- D13 on a copy: the filter names Hop-Limit of a request carrying Proxy-Uri; the copy gets Hop-Limit = 16 -/
example : duplicate (conc 0 ⟨0, 1, 7, [], [(16, [5]), (35, [0x78])], []⟩) 8 1152 [] (some fun n => n == 16) =
    R.ok (some (conc 1152 (Spec.duplicate true ⟨0, 1, 7, [], [(16, [5]), (35, [0x78])], []⟩ 8 [] (fun n => n == 16)))) ∧
    Spec.dupHopOk 1 (Spec.keep (fun n => n == 16) [(16, [5]), (35, [0x78])]) = true := by decide
/-- a token that does not fit the copy's capacity: NULL (before fix 56eb60f: a copy WITHOUT token, options 3 and 11) -/
example : duplicate (conc 0 ⟨0, 1, 7, [1], [(3, [0x68]), (11, [0x61])], []⟩) 8 10 [1,2,3,4,5,6,7,8,9,10,11,12] none = R.ok none ∧
    duplicate (conc 0 ⟨0, 1, 7, [1], [(3, [0x68]), (11, [0x61])], []⟩) 8 10 [1,2,3,4,5,6,7,8,9,10,11,12] (some fun _ => false) =
      R.ok none := by decide
/-- the option filter: 6 slots for numbers ≤ 255, 2 above; a held number is set again without a slot -/
example : filterOf [] [11, 300, 1, 2, 3, 4, 5, 6, 7, 301, 302, 11] =
    ([1, 1, 1, 1, 1, 1, 1, 0, 0, 1, 0, 1], [11, 300, 1, 2, 3, 4, 5, 301]) := by decide

end Coap.C04
