import CoapVerif.Lemmas.ServerSeq
import CoapVerif.Lemmas.Async
import CoapVerif.Lemmas.AsyncRefs
import CoapVerif.Lemmas.AsyncPass
/-
C10 — server answers each request datagram once, with the protocol-prescribed code.

P1  `decision_eq_spec`: M (transcription of coap_dispatch / handle_request, Model/Server.lean) = S (Spec/Server.lean)
    up to the diagnostic content of library-generated replies (SPEC DECISION D4), for all configurations, tables, requests.
P2  the clauses of the property as theorems about S (and, through P1, about M): reply count, token echo, message id,
    NON never ACKed, 4.02/Reset, 4.04/2.02, 4.05, 4.12, 4.15, 5.05, 5.08/4.00, the handler call and its request view,
    No-Response / multicast suppression.
T1  tables regenerated from the code are proved equal to the RFC tables of S; the handlers the resource constructors
    register by themselves are proved to be the documented ones.
SEQ sequences of datagrams from several peers at one context (deferred responses, duplicate proxied requests):
    `sequence_eq_spec` (M = S on every sequence from every history), `pending_of_others_irrelevant` (a request is decided
    as on a fresh context unless the SAME peer has a deferred request with the SAME token / sent the same message id to the
    proxy handler before), `deferred_retransmission_acked`, reply shape and count for every history.
-/
namespace Coap.C10
open Coap Coap.Server Coap.Server.L Coap.Generated.Server

/-! ### T1 tables against S -/
/-- the built-in list of coap_option_check_critical is RFC 7252's critical options + Block1/Block2 -/
theorem critical_table_matches_rfc : criticalBuiltin = S.recognisedCritical := critical_eq
/-- coap_option_check_repeatable rejects exactly the options the RFCs define as non-repeatable -/
theorem repeatable_table_matches_rfc : nonRepeatable = S.nonRepeatable := nonrep_eq
/-- coap_check_code_class on UDP accepts exactly classes 0, 2, 3, 4, 5 -/
theorem code_class_table_matches_rfc : ∀ c, inIvs codeOk c = S.validCode c := codeOk_eq
/-- what coap_get_uri_path / coap_get_query leave unescaped is allowed unescaped by RFC 3986 -/
theorem escape_tables_legal : S.Esc.legal E := esc_legal

example : fits ⟨true, 8, [65001, 21, 2049]⟩ := by decide

/-- P1: the transcription M of coap_dispatch()/handle_request() prescribes, up to the diagnostic content of
library-generated replies (SPEC DECISION D4), exactly the outcome S prescribes — for every configuration whose option
registrations fit, every resource table and every request. -/
theorem decision_eq_spec (cfg : Cfg) (tbl : Table) (rq : Request) (hfit : fits cfg) :
    (M.serverDecision cfg tbl rq).erase = S.serverSpec E cfg tbl rq := by
  unfold M.serverDecision S.serverSpec
  simp only [codeOk_eq]
  by_cases h1 : S.validCode rq.msg.code = true
  · simp only [h1, not_true_eq_false, if_false]
    by_cases h2 : isRequestCode rq.msg.code = true
    · simp only [h2, not_true_eq_false, if_false]
      by_cases h3 : rq.verdict.code = 168
      · simp [h3, Outcome.erase, Outcome.outOfScope]
      · simp only [h3, if_false]
        have hfwd : decide (tbl.prx.isSome = true ∧ (hasOpt rq.msg.opts 35 = true ∨ hasOpt rq.msg.opts 39 = true)) =
            (tbl.prx.isSome && (hasOpt rq.msg.opts 35 || hasOpt rq.msg.opts 39)) := by
          cases tbl.prx.isSome <;> cases hasOpt rq.msg.opts 35 <;> cases hasOpt rq.msg.opts 39 <;> rfl
        rw [hfwd]
        generalize (tbl.prx.isSome && (hasOpt rq.msg.opts 35 || hasOpt rq.msg.opts 39)) = fwd
        obtain ⟨hok, hcrit⟩ := critCheck_spec hfit fwd rq.msg.opts
        cases hbad : S.badOption cfg fwd rq.msg.opts with
        | true =>
          have hok' : (M.critCheck (M.knownFilter cfg) fwd rq.msg.opts).ok = false := by rw [hok, hbad]; rfl
          simp only [hok', Bool.false_eq_true, not_false_eq_true, if_true]
          by_cases hn : rq.msg.type = NON
          · simp only [hn, if_true]
            cases rq.mcast <;> simp [Outcome.erase, erase_emptyMsg]
          · simp only [hn, if_false]
            by_cases hc : rq.msg.type = CON
            · simp only [hc, if_true, erase_outcome, List.map_cons, List.map_nil, erase_errReply]
            · simp [hc, Outcome.erase, Outcome.nothing]
        | false =>
          have hok' : (M.critCheck (M.knownFilter cfg) fwd rq.msg.opts).ok = true := by rw [hok, hbad]; rfl
          simp only [hok', not_true_eq_false, if_false, Bool.false_eq_true]
          by_cases h9 : hasOpt rq.msg.opts 9 = true
          · simp [h9, Outcome.erase, Outcome.outOfScope]
          · simp only [h9, if_false, Bool.false_eq_true]
            by_cases ha : rq.msg.type = ACK
            · simp [ha, Outcome.erase, Outcome.nothing]
            · by_cases hr : rq.msg.type = RST
              · simp [ha, hr, Outcome.erase, Outcome.nothing]
              · simp only [ha, hr, or_self, if_false]
                by_cases htok : rq.msg.token.length > cfg.mts
                · simp only [htok, if_true]
                  by_cases hm : cfg.mts > 8
                  · simp only [hm, if_true, erase_outcome, List.map_cons, List.map_nil, erase_errReply]
                  · simp only [hm, if_false]
                    split <;> simp [Outcome.erase, erase_emptyMsg]
                · simp only [htok, if_false]
                  rw [hcrit hok']
                  exact handle_eq cfg tbl rq _ h3
    · simp [h2, Outcome.erase, Outcome.outOfScope]
  · simp only [h1]
    by_cases ht : rq.msg.type = CON <;> simp [ht, Outcome.erase, erase_emptyMsg]

example : (M.serverDecision ⟨false, 8, []⟩ ⟨none, none, [⟨[97], 1, 0, false⟩]⟩
    ⟨false, ⟨0, 1, 7, [1], [(11, [97])], []⟩, ⟨69, [104, 105]⟩, .absent⟩).erase =
    ⟨true, [⟨.app, ACK, 69, 7, [1], [], .bytes [104, 105]⟩], some ⟨.res 0, 1, [97], [], [(11, [97])], []⟩⟩ := by decide

/-! ### reply count and shape -/
theorem erase_fields (x : Reply) : x.erase.type = x.type ∧ x.erase.code = x.code ∧ x.erase.mid = x.mid ∧ x.erase.token = x.token := by
  unfold Reply.erase; cases x.src <;> simp

theorem model_reply_ok (cfg : Cfg) (tbl : Table) (rq : Request) (hfit : fits cfg) :
    ∀ x ∈ (M.serverDecision cfg tbl rq).replies, replyOk rq x := by
  intro x hx
  have h := (outcome_ok E cfg tbl rq).1 x.erase (by
    rw [← decision_eq_spec cfg tbl rq hfit]; exact List.mem_map_of_mem hx)
  obtain ⟨t, c, m, k⟩ := erase_fields x
  unfold replyOk at h ⊢
  rw [t, c, m, k] at h
  exact h

/-- "it emits at most one direct reply": at most one message — or, for a proxied Confirmable request, the Empty ACK
followed by the separate Confirmable response of the proxy handler (SPEC DECISION D8) -/
theorem at_most_one_reply (cfg : Cfg) (tbl : Table) (rq : Request) (hfit : fits cfg) :
    (M.serverDecision cfg tbl rq).replies.length ≤ 1 ∨
    ∃ a x, (M.serverDecision cfg tbl rq).replies = [a, x] ∧ a.type = ACK ∧ a.code = 0 ∧ a.mid = rq.msg.mid ∧
      x.type = CON ∧ ∃ c, (M.serverDecision cfg tbl rq).call = some c ∧ c.who = .prx := by
  have h := (outcome_ok E cfg tbl rq).2
  rw [← decision_eq_spec cfg tbl rq hfit] at h
  unfold countOk Outcome.erase at h
  simp only [List.length_map] at h
  rcases h with h | ⟨x, h1, h2, c, h3, h4⟩
  · exact Or.inl h
  · right
    match hr : (M.serverDecision cfg tbl rq).replies, h1 with
    | [a, b], h1 =>
      simp only [List.map_cons, List.map_nil, List.cons.injEq, and_true] at h1
      obtain ⟨ha, hb⟩ := h1
      obtain ⟨t, cd, m, _⟩ := erase_fields a
      obtain ⟨t', _, _, _⟩ := erase_fields b
      refine ⟨a, b, rfl, ?_, ?_, ?_, ?_, c, h3, h4⟩
      · rw [← t, ha]; rfl
      · rw [← cd, ha]; rfl
      · rw [← m, ha]; rfl
      · rw [← t', hb]; exact h2
    | [], h1 => simp at h1
    | [_], h1 => simp at h1
    | _ :: _ :: _ :: _, h1 => simp at h1

example : (M.serverDecision ⟨false, 8, []⟩ ⟨none, some ⟨127, 0, [112]⟩, []⟩
    ⟨false, ⟨0, 1, 7, [1], [(3, [104]), (39, [99])], []⟩, ⟨69, []⟩, .absent⟩).replies.length = 2 := by decide

/-- "which, unless it is an Empty ACK, echoes the request's token" -/
theorem reply_echoes_token (cfg : Cfg) (tbl : Table) (rq : Request) (hfit : fits cfg) :
    ∀ x ∈ (M.serverDecision cfg tbl rq).replies, x.code ≠ 0 → x.token = rq.msg.token :=
  fun x hx => (model_reply_ok cfg tbl rq hfit x hx).2.1

/-- "and, for a Confirmable request, acknowledges its message id": every message carries the request's message id, an
ACK only answers a Confirmable request, and a Reset is empty -/
theorem con_reply_acks_mid (cfg : Cfg) (tbl : Table) (rq : Request) (hfit : fits cfg) :
    ∀ x ∈ (M.serverDecision cfg tbl rq).replies,
      x.mid = rq.msg.mid ∧ (x.type = RST → x.code = 0) ∧ (x.type = CON → rq.msg.type = CON) :=
  fun x hx => let h := model_reply_ok cfg tbl rq hfit x hx; ⟨h.1, h.2.2.2.1, h.2.2.2.2⟩

/-- "Non-confirmable requests are never answered with ACK" -/
theorem non_never_acked (cfg : Cfg) (tbl : Table) (rq : Request) (hfit : fits cfg) (hn : rq.msg.type ≠ CON) :
    ∀ x ∈ (M.serverDecision cfg tbl rq).replies, x.type ≠ ACK :=
  fun x hx ha => hn ((model_reply_ok cfg tbl rq hfit x hx).2.2.1 ha)

example : (M.serverDecision ⟨false, 8, []⟩ ⟨none, none, []⟩
    ⟨false, ⟨1, 1, 7, [1], [(11, [97])], []⟩, ⟨69, []⟩, .absent⟩).replies.map (·.type) = [NON] := by decide

/-! ### clause theorems (P2): each clause of the property as a theorem about S -/

/-- "unknown critical or illegally repeated option gives 4.02 (Reset for NON)": CON → 4.02 ACK echoing the token,
NON → Reset (nothing when the request came by multicast, RFC 7252 §8.1), ACK/RST → ignored; no handler runs. -/
theorem unknown_critical_402_or_rst (e : S.Esc) (cfg : Cfg) (tbl : Table) (rq : Request)
    (hc : isRequestCode rq.msg.code = true) (hv : rq.verdict.code ≠ 168)
    (hbad : S.badOption cfg (fwdOf tbl rq) rq.msg.opts = true) :
    S.serverSpec e cfg tbl rq =
      if rq.msg.type = NON then ⟨true, if rq.mcast then [] else [S.lib RST 0 rq.msg.mid []], none⟩
      else if rq.msg.type = CON then ⟨true, [S.lib ACK 130 rq.msg.mid rq.msg.token], none⟩
      else Outcome.nothing := by
  unfold fwdOf at hbad
  unfold S.serverSpec
  simp only [validCode_of_request hc, hc, hv, hbad, not_true_eq_false, if_false, if_true]
  by_cases h1 : rq.msg.type = NON
  · simp [h1]
  · by_cases h2 : rq.msg.type = CON
    · simp [h1, h2, S.errReply, S.respType]
    · simp [h1, h2]

example : S.serverSpec E ⟨false, 8, []⟩ ⟨none, none, []⟩ ⟨false, ⟨0, 1, 7, [1], [(65001, [1])], []⟩, ⟨69, []⟩, .absent⟩ =
    ⟨true, [S.lib ACK 130 7 [1]], none⟩ := by decide

/-- "no matching resource gives 4.04 (2.02 for DELETE) unless an unknown-resource handler exists" — subject to the
No-Response / multicast rules (`S.deliver`) -/
theorem no_resource_404_or_202 (e : S.Esc) (cfg : Cfg) (tbl : Table) (rq : Request) (h : Admitted cfg tbl rq)
    (os : Opts) (path : Bytes)
    (hpre : S.pre e tbl rq (tolOf cfg tbl rq) (clearBlock2M rq.msg.opts) = .go false os path)
    (hfind : findRes tbl.res path 0 = none)
    (hunk : ∀ u, tbl.unk = some u → handlerBit u.mask rq.msg.code = false)
    (hwk : path ≠ wellKnownCore) :
    S.serverSpec e cfg tbl rq =
      ⟨true, S.deliver cfg rq none false (S.errReply rq.msg (if rq.msg.code = 4 then 66 else 132)), none⟩ := by
  rw [spec_admitted e h]
  have hsel : S.select tbl rq.msg.code false path = .inl (if rq.msg.code = 4 then 66 else 132) := by
    unfold S.select
    simp only [Bool.false_eq_true, if_false, hfind]
    cases hu : tbl.unk with
    | none => simp [hwk]; split <;> rfl
    | some u => simp [hunk u hu, hwk]; split <;> rfl
  simp only [S.stages, hpre, hsel]

/-- "missing method handler 4.05" -/
theorem no_handler_405 (e : S.Esc) (cfg : Cfg) (tbl : Table) (rq : Request) (h : Admitted cfg tbl rq)
    (ip : Bool) (os : Opts) (path : Bytes) (sel : Sel)
    (hpre : S.pre e tbl rq (tolOf cfg tbl rq) (clearBlock2M rq.msg.opts) = .go ip os path)
    (hsel : S.select tbl rq.msg.code ip path = .inr sel)
    (hosc : flag sel.flags F_OSCORE_ONLY = false) (hinm : ¬ (sel.exists_ = true ∧ hasOpt os 5 = true))
    (hh : handlerBit sel.mask rq.msg.code = false) :
    S.serverSpec e cfg tbl rq = ⟨true, S.deliver cfg rq (some sel.flags) false (S.errReply rq.msg 133), none⟩ := by
  rw [spec_admitted e h]
  have hck : S.precond cfg rq os sel = some 133 := by simp [S.precond, hosc, hinm, hh]
  simp only [S.stages, hpre, hsel, hck]

/-- "If-None-Match on an existing resource 4.12" -/
theorem inm_existing_412 (e : S.Esc) (cfg : Cfg) (tbl : Table) (rq : Request) (h : Admitted cfg tbl rq)
    (ip : Bool) (os : Opts) (path : Bytes) (sel : Sel)
    (hpre : S.pre e tbl rq (tolOf cfg tbl rq) (clearBlock2M rq.msg.opts) = .go ip os path)
    (hsel : S.select tbl rq.msg.code ip path = .inr sel)
    (hosc : flag sel.flags F_OSCORE_ONLY = false) (hex : sel.exists_ = true) (hinm : hasOpt os 5 = true) :
    S.serverSpec e cfg tbl rq = ⟨true, S.deliver cfg rq (some sel.flags) false (S.errReply rq.msg 140), none⟩ := by
  rw [spec_admitted e h]
  have hck : S.precond cfg rq os sel = some 140 := by simp [S.precond, hosc, hex, hinm]
  simp only [S.stages, hpre, hsel, hck]

/-- "FETCH without Content-Format 4.15" -/
theorem fetch_no_cf_415 (e : S.Esc) (cfg : Cfg) (tbl : Table) (rq : Request) (h : Admitted cfg tbl rq)
    (ip : Bool) (os : Opts) (path : Bytes) (sel : Sel)
    (hpre : S.pre e tbl rq (tolOf cfg tbl rq) (clearBlock2M rq.msg.opts) = .go ip os path)
    (hsel : S.select tbl rq.msg.code ip path = .inr sel)
    (hosc : flag sel.flags F_OSCORE_ONLY = false) (hinm : ¬ (sel.exists_ = true ∧ hasOpt os 5 = true))
    (hh : handlerBit sel.mask rq.msg.code = true) (hf : rq.msg.code = 5) (hcf : hasOpt os 12 = false) :
    S.serverSpec e cfg tbl rq = ⟨true, S.deliver cfg rq (some sel.flags) false (S.errReply rq.msg 143), none⟩ := by
  rw [spec_admitted e h]
  have hck : S.precond cfg rq os sel = some 143 := by rw [hf] at hh; simp [S.precond, hosc, hinm, hh, hf, hcf]
  simp only [S.stages, hpre, hsel, hck]

/-- "proxy options without proxy support 5.05" (no proxy resource, or none for this method); a Proxy-Scheme without
Uri-Host is 4.02 instead (`proxy_scheme_needs_host`) -/
theorem proxy_505 (e : S.Esc) (cfg : Cfg) (tbl : Table) (rq : Request) (h : Admitted cfg tbl rq)
    (hp : hasOpt rq.msg.opts 39 = true ∨ hasOpt rq.msg.opts 35 = true)
    (hps : ¬ (hasOpt rq.msg.opts 39 = true ∧ ¬ hasOpt rq.msg.opts 3 = true))
    (hno : tbl.prx = none ∨ ∃ p, tbl.prx = some p ∧ 1 ≤ rq.msg.code ∧ rq.msg.code ≤ 7 ∧ handlerBit p.mask rq.msg.code = false) :
    S.serverSpec e cfg tbl rq = ⟨true, S.deliver cfg rq none false (S.errReply rq.msg 165), none⟩ := by
  rw [spec_admitted e h]
  have hpre : S.pre e tbl rq (tolOf cfg tbl rq) (clearBlock2M rq.msg.opts) = .fail 165 none := by
    unfold S.pre
    simp only [hasOpt_clear, hps, hp, if_false, if_true]
    rcases hno with hn | ⟨p, hn, h1, h2, h3⟩
    · simp [hn]
    · simp [hn, h1, h2, h3]
  simp only [S.stages, hpre]

theorem proxy_scheme_needs_host (e : S.Esc) (cfg : Cfg) (tbl : Table) (rq : Request) (h : Admitted cfg tbl rq)
    (hps : hasOpt rq.msg.opts 39 = true ∧ hasOpt rq.msg.opts 3 = false) :
    S.serverSpec e cfg tbl rq = ⟨true, S.deliver cfg rq none false (S.errReply rq.msg 130), none⟩ := by
  rw [spec_admitted e h]
  have hpre : S.pre e tbl rq (tolOf cfg tbl rq) (clearBlock2M rq.msg.opts) = .fail 130 none := by
    unfold S.pre
    simp [hasOpt_clear, hps.1, hps.2]
  simp only [S.stages, hpre]

/-- "Hop-Limit exhaustion 5.08/4.00": a request without proxy options whose Hop-Limit is 1 gets 5.08, 0 gets 4.00 -/
theorem hop_limit_508_400 (e : S.Esc) (cfg : Cfg) (tbl : Table) (rq : Request) (h : Admitted cfg tbl rq)
    (hnp : hasOpt rq.msg.opts 39 = false ∧ hasOpt rq.msg.opts 35 = false) (v : Bytes)
    (hv : firstOpt rq.msg.opts 16 = some v) (hex : uintOf v % 4294967296 ≤ 1 ∨ uintOf v % 4294967296 > 255) :
    S.serverSpec e cfg tbl rq =
      ⟨true, S.deliver cfg rq none false (S.errReply rq.msg (if uintOf v % 4294967296 = 1 then 168 else 128)), none⟩ := by
  rw [spec_admitted e h]
  have hpre : S.pre e tbl rq (tolOf cfg tbl rq) (clearBlock2M rq.msg.opts) =
      .fail (if uintOf v % 4294967296 = 1 then 168 else 128) none := by
    unfold S.pre
    simp only [hasOpt_clear, hnp.1, hnp.2, Bool.false_eq_true, false_and, or_self, if_false]
    unfold S.hopLimit
    simp only [firstOpt_clear _ 16 (by decide), hv, Bool.false_eq_true, if_false]
    by_cases h1 : uintOf v % 4294967296 = 1
    · simp [h1]
    · have : uintOf v % 4294967296 < 1 ∨ uintOf v % 4294967296 > 255 := by omega
      simp only [h1, if_false]
      rw [if_pos this]
  simp only [S.stages, hpre]


/-- "otherwise exactly the handler registered for that path and method runs once with the request's path, query,
options and payload": when no earlier clause applies and the request is not a refused Observe registration, the one
handler call is for the selected resource — which has a handler for the method — and sees the reconstructed Uri-Path,
the query, the request view `os` and the payload.  (`Outcome.call` is an `Option`: there is never a second call.) -/
theorem handler_runs_once_with_request_view (e : S.Esc) (cfg : Cfg) (tbl : Table) (rq : Request) (h : Admitted cfg tbl rq)
    (ip : Bool) (os : Opts) (path : Bytes) (sel : Sel) (who : Who)
    (hpre : S.pre e tbl rq (tolOf cfg tbl rq) (clearBlock2M rq.msg.opts) = .go ip os path)
    (hsel : S.select tbl rq.msg.code ip path = .inr sel)
    (hck : S.precond cfg rq os sel = none) (hwho : sel.who = some who)
    (hblk : (sel.observable && (rq.msg.code == 1 || rq.msg.code == 5) && hasOpt os 6 &&
              (uintOf ((firstOpt os 6).getD []) % 4294967296 == 0) && S.blockNonZero os) = false) :
    (S.serverSpec e cfg tbl rq).call = some ⟨who, rq.msg.code, path, S.uriQuery e os, os, rq.msg.payload⟩ ∧
    handlerBit sel.mask rq.msg.code = true := by
  refine ⟨?_, precond_none_handler hck⟩
  rw [spec_admitted e h]
  simp only [S.stages, hpre, hsel, hck, S.run]
  rw [if_neg (by simpa using hblk), finish_call, hwho]
  rfl

/-- the request view handed to the handler is the request's option list except for the value of Hop-Limit
(decremented, RFC 8768) and of Block2 (M bit cleared, RFC 7959 §2.2) — SPEC DECISION D7 -/
theorem request_view_is_request (e : S.Esc) (cfg : Cfg) (tbl : Table) (rq : Request) (ip : Bool) (os : Opts) (path : Bytes)
    (hpre : S.pre e tbl rq (tolOf cfg tbl rq) (clearBlock2M rq.msg.opts) = .go ip os path) :
    os.filter keep = rq.msg.opts.filter keep := by
  have h := pre_view e tbl rq (tolOf cfg tbl rq) (clearBlock2M rq.msg.opts)
  rw [hpre] at h
  simpa [viewOk, clear_keep] using h

/-- "subject to the No-Response … suppression rules" (RFC 7967): for a response of class ≥ 2 to a request carrying
No-Response, the class bit decides — set: nothing for a Non-confirmable request, the Empty ACK for a Confirmable one;
clear: the response is sent (also to a multicast request, RFC 7967 §2.1) -/
theorem no_response_suppression (cfg : Cfg) (rq : Request) (fl : Option Nat) (obs : Bool) (r : Reply) (v : Bytes)
    (hc : codeClass r.code ≠ 0) (hv : firstOpt rq.msg.opts 258 = some v) :
    S.deliver cfg rq fl obs r =
      if (2 ^ (codeClass r.code - 1)) &&& (uintOf v % 4294967296) > 0 then (if r.type = ACK then [emptied r] else [])
      else [stripObserve obs r] := by
  unfold S.deliver S.noResponseSays
  simp only [hc, if_false, hv, Option.map]
  by_cases hb : (2 ^ (codeClass r.code - 1)) &&& (uintOf v % 4294967296) > 0 <;> simp [hb]

/-- "… and multicast suppression rules": without a No-Response option and without per-resource multicast
configuration, a response of class 4.xx / 5.xx to a multicast request is not sent, a 2.xx one is -/
theorem multicast_suppression (cfg : Cfg) (rq : Request) (fl : Option Nat) (obs : Bool) (r : Reply)
    (hc : codeClass r.code ≠ 0) (hv : firstOpt rq.msg.opts 258 = none) (hm : rq.mcast = true) (hp : cfg.mpr = false) :
    S.deliver cfg rq fl obs r = if codeClass r.code > 2 then [] else [stripObserve obs r] := by
  unfold S.deliver S.noResponseSays S.mcastSuppressed
  simp only [hc, if_false, hv, Option.map, hm, hp, Bool.true_and]
  cases fl <;> by_cases h2 : codeClass r.code > 2 <;> simp [h2]


/-- a handler only ever runs as the handler registered, for the request's method, on the resource the request was mapped
to, with the request's payload — in every other clause (all error replies, Reset, ignored messages) none runs -/
theorem handler_only_when_registered (e : S.Esc) (cfg : Cfg) (tbl : Table) (rq : Request) (c : Call)
    (h : (S.serverSpec e cfg tbl rq).call = some c) :
    ∃ sel : Sel, sel.who = some c.who ∧ handlerBit sel.mask rq.msg.code = true ∧ c.code = rq.msg.code ∧
      c.payload = rq.msg.payload := by
  unfold S.serverSpec at h
  simp only at h
  repeat' split at h
  all_goals try (simp [Outcome.outOfScope, Outcome.nothing] at h; done)
  unfold S.handle at h
  split at h
  · simp [Outcome.nothing] at h
  · unfold S.stages at h
    simp only at h
    split at h
    · simp at h
    · simp [Outcome.nothing] at h
    · split at h
      · simp at h
      · split at h
        · simp at h
        · rename_i sel _ _ hck
          unfold S.run at h
          simp only at h
          split at h
          · simp at h
          · rw [finish_call] at h
            cases hw : sel.who with
            | none => rw [hw] at h; simp at h
            | some who =>
              rw [hw] at h
              simp only [Option.map, Option.some.injEq] at h
              subst h
              exact ⟨sel, hw, precond_none_handler hck, rfl, rfl⟩


example : (S.serverSpec E ⟨false, 8, []⟩ ⟨none, none, [⟨[97], 1, 0, false⟩]⟩
    ⟨false, ⟨0, 1, 7, [1], [(11, [97])], []⟩, ⟨69, []⟩, .absent⟩).call = some ⟨.res 0, 1, [97], [], [(11, [97])], []⟩ := by decide

/-! ### non-vacuity: concrete requests meeting the hypotheses of the clause theorems -/
def exCfg : Cfg := ⟨false, 8, []⟩
/-- /a with GET and FETCH handlers -/
def exTbl : Table := ⟨none, none, [⟨[97], 17, 0, false⟩]⟩
def exReq (code : Nat) (opts : Opts) : Request := ⟨false, ⟨0, code, 7, [1], opts, []⟩, ⟨69, [104, 105]⟩, .absent⟩
theorem exAdmitted (code : Nat) (opts : Opts) (h1 : isRequestCode code = true)
    (h2 : S.badOption exCfg (fwdOf exTbl (exReq code opts)) opts = false) (h3 : hasOpt opts 9 = false) :
    Admitted exCfg exTbl (exReq code opts) :=
  ⟨h1, by simp [exReq], h2, h3, Or.inl rfl, by simp [exReq, exCfg], by intro h; cases h⟩

-- GET /c : 4.04
example := no_resource_404_or_202 E exCfg exTbl (exReq 1 [(11, [99])]) (exAdmitted _ _ (by decide) (by decide) (by decide))
  [(11, [99])] [99] (by decide) (by decide) (by intro u hu; cases hu) (by decide)
-- PUT /a : 4.05
example := no_handler_405 E exCfg exTbl (exReq 3 [(11, [97])]) (exAdmitted _ _ (by decide) (by decide) (by decide))
  false [(11, [97])] [97] (.res 0 ⟨[97], 17, 0, false⟩) (by decide) (by decide) (by decide) (by decide) (by decide)
-- GET /a with If-None-Match : 4.12
example := inm_existing_412 E exCfg exTbl (exReq 1 [(5, []), (11, [97])]) (exAdmitted _ _ (by decide) (by decide) (by decide))
  false [(5, []), (11, [97])] [97] (.res 0 ⟨[97], 17, 0, false⟩) (by decide) (by decide) (by decide) (by decide) (by decide)
-- FETCH /a without Content-Format : 4.15
example := fetch_no_cf_415 E exCfg exTbl (exReq 5 [(11, [97])]) (exAdmitted _ _ (by decide) (by decide) (by decide))
  false [(11, [97])] [97] (.res 0 ⟨[97], 17, 0, false⟩) (by decide) (by decide) (by decide) (by decide) (by decide)
  (by decide) (by decide)
-- GET with Proxy-Uri, no proxy resource : 5.05
example := proxy_505 E exCfg exTbl (exReq 1 [(35, [99])]) (exAdmitted _ _ (by decide) (by decide) (by decide))
  (Or.inr (by decide)) (by decide) (Or.inl rfl)
-- Proxy-Scheme without Uri-Host : 4.02
example := proxy_scheme_needs_host E exCfg exTbl (exReq 1 [(39, [99])]) (exAdmitted _ _ (by decide) (by decide) (by decide))
  ⟨by decide, by decide⟩
-- GET /a with Hop-Limit 1 : 5.08
example := hop_limit_508_400 E exCfg exTbl (exReq 1 [(11, [97]), (16, [1])]) (exAdmitted _ _ (by decide) (by decide) (by decide))
  ⟨by decide, by decide⟩ [1] (by decide) (Or.inl (by decide))
-- GET /a?x with Hop-Limit 5: the GET handler of /a runs once and sees Hop-Limit 4
example := handler_runs_once_with_request_view E exCfg exTbl (exReq 1 [(11, [97]), (15, [120]), (16, [5])])
  (exAdmitted _ _ (by decide) (by decide) (by decide))
  false [(11, [97]), (15, [120]), (16, [4])] [97] (.res 0 ⟨[97], 17, 0, false⟩) (.res 0) (by decide) (by decide) (by decide)
  (by decide) (by decide)
-- No-Response 2 (not interested in 2.xx) on a NON request: a 2.05 is not sent
example : S.deliver exCfg ⟨false, ⟨1, 1, 7, [1], [(258, [2])], []⟩, ⟨69, []⟩, .absent⟩ none false
    ⟨.app, NON, 69, 7, [1], [], .bytes []⟩ = [] := by
  rw [no_response_suppression _ _ _ _ _ [2] (by decide) (by decide)]; decide
-- 4.04 to a multicast request: suppressed
example : S.deliver exCfg ⟨true, ⟨1, 1, 7, [1], [], []⟩, ⟨69, []⟩, .absent⟩ none false
    ⟨.lib, NON, 132, 7, [1], [], .bytes []⟩ = [] := by
  rw [multicast_suppression _ _ _ _ _ (by decide) (by decide) rfl rfl]; decide

/-! ### T1: constructor presets and the legal part of the escape choice -/
/-- coap_resource_init registers no handler, coap_resource_unknown_init2 the PUT handler, coap_resource_proxy_uri_init2
a handler for every method 0.01–0.07 — as coap_resource(3) documents -/
theorem constructor_presets_match_api :
    presetRes = S.docPresetRes ∧ presetUnk = S.docPresetUnk ∧ presetPrx = S.docPresetPrx := by decide

/-- hence the handler table of a real resource is exactly what the application asked for -/
theorem handlers_as_registered : ∀ mask, mask < 128 →
    M.effMask S.docPresetRes presetRes mask = mask ∧ M.effMask S.docPresetUnk presetUnk mask = mask ∧
    M.effMask S.docPresetPrx presetPrx mask = mask := by decide

def Table.small (t : Table) : Prop :=
  (∀ u, t.unk = some u → u.mask < 128) ∧ (∀ p, t.prx = some p → p.mask < 128) ∧ ∀ r ∈ t.res, r.mask < 128

/-- the table M is run on in the differential test (constructor presets + registrations) is the table S is run on -/
theorem impl_table_eq (t : Table) (h : Table.small t) : M.implTable t = t := by
  obtain ⟨hu, hp, hr⟩ := h
  obtain ⟨unk, prx, res⟩ := t
  unfold M.implTable
  simp only at hu hp hr ⊢
  congr 1
  · cases unk with
    | none => rfl
    | some u => simp only [Option.map]; rw [(handlers_as_registered u.mask (hu u rfl)).2.1]
  · cases prx with
    | none => rfl
    | some p => simp only [Option.map]; rw [(handlers_as_registered p.mask (hp p rfl)).2.2]
  · induction res with
    | nil => rfl
    | cons r rs ih =>
      simp only [List.map_cons]
      rw [(handlers_as_registered r.mask (hr r List.mem_cons_self)).1, ih (fun x hx => hr x (List.mem_cons_of_mem _ hx))]

example : Table.small ⟨some ⟨4, 0⟩, some ⟨127, 0, [112]⟩, [⟨[97], 17, 0, false⟩]⟩ := by
  refine ⟨?_, ?_, ?_⟩
  · intro u hu; cases hu; decide
  · intro p hp; cases hp; decide
  · intro r hr; simp at hr; subst hr; decide

/-- the executable S of the differential run uses the legal part of the implementation's escape choice: it is the
choice itself (this is `escape_tables_legal` once more, in the form the driver uses) -/
theorem escape_restrict_id : S.Esc.restrict E = E := by decide

set_option maxRecDepth 100000 in
theorem restricted_tables_legal : S.Esc.legal (S.Esc.restrict E) := by
  rw [escape_restrict_id]; exact esc_legal

/-! ### sequences of datagrams at one context: deferred responses, duplicates (D11, D12) -/

/-- P1 for a request that finds state left by earlier datagrams: for every configuration, table, request and whatever
it finds (`hit`, `dup`), M = S up to D4 -/
theorem decisionA_eq_specA (hit dup : Bool) (cfg : Cfg) (tbl : Table) (rq : Request) (hfit : fits cfg) :
    (M.serverDecisionA hit dup cfg tbl rq).erase = S.serverSpecA E hit dup cfg tbl rq := by
  unfold M.serverDecisionA S.serverSpecA
  simp only [codeOk_eq]
  by_cases h1 : S.validCode rq.msg.code = true
  · simp only [h1, not_true_eq_false, if_false]
    by_cases h2 : isRequestCode rq.msg.code = true
    · simp only [h2, not_true_eq_false, if_false]
      by_cases h3 : rq.verdict.code = 168
      · simp [h3, Outcome.erase, Outcome.outOfScope]
      · simp only [h3, if_false]
        have hfwd : decide (tbl.prx.isSome = true ∧ (hasOpt rq.msg.opts 35 = true ∨ hasOpt rq.msg.opts 39 = true)) =
            (tbl.prx.isSome && (hasOpt rq.msg.opts 35 || hasOpt rq.msg.opts 39)) := by
          cases tbl.prx.isSome <;> cases hasOpt rq.msg.opts 35 <;> cases hasOpt rq.msg.opts 39 <;> rfl
        rw [hfwd]
        generalize (tbl.prx.isSome && (hasOpt rq.msg.opts 35 || hasOpt rq.msg.opts 39)) = fwd
        obtain ⟨hok, hcrit⟩ := critCheck_spec hfit fwd rq.msg.opts
        cases hbad : S.badOption cfg fwd rq.msg.opts with
        | true =>
          have hok' : (M.critCheck (M.knownFilter cfg) fwd rq.msg.opts).ok = false := by rw [hok, hbad]; rfl
          simp only [hok', Bool.false_eq_true, not_false_eq_true, if_true]
          by_cases hn : rq.msg.type = NON
          · simp only [hn, if_true]
            cases rq.mcast <;> simp [Outcome.erase, erase_emptyMsg]
          · simp only [hn, if_false]
            by_cases hc : rq.msg.type = CON
            · simp only [hc, if_true, erase_outcome, List.map_cons, List.map_nil, erase_errReply]
            · simp [hc, Outcome.erase, Outcome.nothing]
        | false =>
          have hok' : (M.critCheck (M.knownFilter cfg) fwd rq.msg.opts).ok = true := by rw [hok, hbad]; rfl
          simp only [hok', not_true_eq_false, if_false, Bool.false_eq_true]
          by_cases h9 : hasOpt rq.msg.opts 9 = true
          · simp [h9, Outcome.erase, Outcome.outOfScope]
          · simp only [h9, if_false, Bool.false_eq_true]
            by_cases ha : rq.msg.type = ACK
            · simp [ha, Outcome.erase, Outcome.nothing]
            · by_cases hr : rq.msg.type = RST
              · simp [hr, Outcome.erase, Outcome.nothing]
              · simp only [ha, hr, or_self, if_false]
                by_cases htok : rq.msg.token.length > cfg.mts
                · simp only [htok, if_true]
                  by_cases hm : cfg.mts > 8
                  · simp only [hm, if_true, erase_outcome, List.map_cons, List.map_nil, erase_errReply]
                  · simp only [hm, if_false]
                    split <;> simp [Outcome.erase, erase_emptyMsg]
                · simp only [htok, if_false]
                  rw [hcrit hok']
                  exact handleA_eq hit dup cfg tbl rq _ h3
    · simp [h2, Outcome.erase, Outcome.outOfScope]
  · simp only [h1]
    by_cases ht : rq.msg.type = CON <;> simp [ht, Outcome.erase, erase_emptyMsg]

/-- a request that finds nothing is decided by the single-datagram functions (to which all theorems above apply) -/
theorem nothing_found_is_fresh (cfg : Cfg) (tbl : Table) (rq : Request) :
    M.serverDecisionA false false cfg tbl rq = M.serverDecision cfg tbl rq ∧
    ∀ e, S.serverSpecA e false false cfg tbl rq = S.serverSpec e cfg tbl rq :=
  ⟨serverDecisionA_fresh cfg tbl rq, fun e => serverSpecA_fresh e cfg tbl rq⟩

/-- M = S (up to D4) on EVERY sequence of datagrams from any peers, starting from any history -/
theorem sequence_eq_spec (cfg : Cfg) (tbl : Table) (hfit : fits cfg) (h : Hist) (evs : List Ev) :
    (M.serverSeq cfg tbl h evs).map Outcome.erase = S.seqSpec E cfg tbl h evs :=
  seq_eq cfg tbl hfit (fun hit dup rq => decisionA_eq_specA hit dup cfg tbl rq hfit) evs h

/-- "For each request datagram …": after ANY sequence `pre` of datagrams from any peers at a fresh context, a datagram
is decided exactly as on a fresh context — unless the SAME peer sent, earlier, a request with the SAME token whose
response was deferred (D11), or a Confirmable request with the SAME message id (D12).  In particular deferred requests
of OTHER peers, whatever their tokens, never change what a request gets. -/
theorem pending_of_others_irrelevant (cfg : Cfg) (tbl : Table) (pre : List Ev) (ev : Ev)
    (htok : ∀ p ∈ pre, p.peer = ev.peer → p.defer = true → p.rq.msg.token ≠ ev.rq.msg.token)
    (hmid : ∀ p ∈ pre, p.peer = ev.peer → p.rq.msg.type = CON → p.rq.msg.mid ≠ ev.rq.msg.mid) :
    M.serverSeq cfg tbl Hist.empty (pre ++ [ev]) = M.serverSeq cfg tbl Hist.empty pre ++ [M.serverDecision cfg tbl ev.rq] ∧
    ∀ e, S.seqSpec e cfg tbl Hist.empty (pre ++ [ev]) = S.seqSpec e cfg tbl Hist.empty pre ++ [S.serverSpec e cfg tbl ev.rq] := by
  refine ⟨?_, fun e => ?_⟩
  · unfold M.serverSeq
    rw [seq_last_fresh _ pre ev htok hmid, serverDecisionA_fresh]
  · unfold S.seqSpec
    rw [seq_last_fresh _ pre ev htok hmid, serverSpecA_fresh]

/-- a request of a peer whose request with the same token is pending (deferred), once past the message-level checks:
a Confirmable one is acknowledged again (Empty ACK with its message id), nothing else is sent, no handler runs -/
theorem deferred_retransmission_acked (e : S.Esc) (dup : Bool) (cfg : Cfg) (tbl : Table) (rq : Request)
    (h : Admitted cfg tbl rq) :
    S.serverSpecA e true dup cfg tbl rq =
      ⟨true, if rq.msg.type = CON then [S.lib ACK 0 rq.msg.mid []] else [], none⟩ :=
  specA_hit e dup h

/-- whatever a request finds of its predecessors: the fresh-context outcome, or the repeated Empty ACK of D11 / D12 -/
theorem history_changes_only_by_ack_again (e : S.Esc) (hit dup : Bool) (cfg : Cfg) (tbl : Table) (rq : Request) :
    S.serverSpecA e hit dup cfg tbl rq = S.serverSpec e cfg tbl rq ∨
    (S.serverSpecA e hit dup cfg tbl rq = ⟨true, if rq.msg.type = CON then [S.lib ACK 0 rq.msg.mid []] else [], none⟩ ∧
      hit = true) ∨
    (S.serverSpecA e hit dup cfg tbl rq = ⟨true, [S.lib ACK 0 rq.msg.mid []], none⟩ ∧ rq.msg.type = CON ∧ dup = true) :=
  specA_cases e hit dup cfg tbl rq

/-- reply count and shape (at most one reply or the proxied pair; message id, token echo, NON never ACKed, Reset empty)
for every datagram of every sequence: stated for whatever the datagram finds -/
theorem reply_shape_any_history (hit dup : Bool) (cfg : Cfg) (tbl : Table) (rq : Request) (hfit : fits cfg) :
    (∀ x ∈ (M.serverDecisionA hit dup cfg tbl rq).replies, replyOk rq x) ∧
    ((M.serverDecisionA hit dup cfg tbl rq).replies.length ≤ 1 ∨
      ∃ a x, (M.serverDecisionA hit dup cfg tbl rq).replies = [a, x] ∧ a.type = ACK ∧ a.code = 0 ∧ x.type = CON ∧
        ∃ c, (M.serverDecisionA hit dup cfg tbl rq).call = some c ∧ c.who = .prx) := by
  have hs := outcomeA_ok E hit dup cfg tbl rq
  rw [← decisionA_eq_specA hit dup cfg tbl rq hfit] at hs
  constructor
  · intro x hx
    have h := hs.1 x.erase (List.mem_map_of_mem hx)
    obtain ⟨t, c, m, k⟩ := erase_fields x
    unfold replyOk at h ⊢
    rw [t, c, m, k] at h
    exact h
  · have h := hs.2
    unfold countOk Outcome.erase at h
    simp only [List.length_map] at h
    rcases h with h | ⟨x, h1, h2, c, h3, h4⟩
    · exact Or.inl h
    · right
      match hr : (M.serverDecisionA hit dup cfg tbl rq).replies, h1 with
      | [a, b], h1 =>
        simp only [List.map_cons, List.map_nil, List.cons.injEq, and_true] at h1
        obtain ⟨ha, hb⟩ := h1
        obtain ⟨t, cd, _, _⟩ := erase_fields a
        obtain ⟨t', _, _, _⟩ := erase_fields b
        refine ⟨a, b, rfl, ?_, ?_, ?_, c, h3, h4⟩
        · rw [← t, ha]; rfl
        · rw [← cd, ha]; rfl
        · rw [← t', hb]; exact h2
      | [], h1 => simp at h1
      | [_], h1 => simp at h1
      | _ :: _ :: _ :: _, h1 => simp at h1

/-! non-vacuity: peer 1's GET /a (token 01) is deferred; peer 2's GET /a with the same token runs the handler and gets its
2.05; peer 1's retransmission only gets the Empty ACK -/
def exDefer : Ev := ⟨1, true, ⟨false, ⟨0, 1, 7, [1], [(11, [97])], []⟩, ⟨0, []⟩, .absent⟩⟩
def exOther : Ev := ⟨2, false, ⟨false, ⟨0, 1, 9, [1], [(11, [97])], []⟩, ⟨69, [104, 105]⟩, .absent⟩⟩
def exAgain : Ev := ⟨1, false, ⟨false, ⟨0, 1, 7, [1], [(11, [97])], []⟩, ⟨69, [104, 105]⟩, .absent⟩⟩
example : (M.serverSeq exCfg exTbl Hist.empty [exDefer, exOther, exAgain]).map (fun o => (o.replies.map (·.code), o.call.isSome)) =
    [([0], true), ([69], true), ([0], false)] := by decide
example := (pending_of_others_irrelevant exCfg exTbl [exDefer] exOther (by decide) (by decide)).1
example : Admitted exCfg exTbl exAgain.rq := exAdmitted _ _ (by decide) (by decide) (by decide)

/-! ## ASYNC — deferred responses: the delayed invocation (coap_async.c, coap_check_async), Model/Async.lean
All statements hold for every pair of decision procedures `dec` of handle_request (in particular for
`Async.serverDec cfg tbl`, the C10 model), every configuration, every state / every event sequence. -/
section Async
open Coap.Async

/-- coap_check_async hands to the application exactly the entries whose time has come (`delay ≠ 0 ∧ delay ≤ now`), each
exactly once, in list order, each with exactly its stored request (`dec.again entry.req v`), and exactly these are
removed; an entry whose time has not come (or that waits for a trigger: delay 0) is never handed over -/
theorem async_fires_exactly_the_due (c : Async.Cfg) (dec : Dec) (v : Verdict) (st : St) :
    (prepare c dec v st).2.fired.map (·.entry) = st.async.filter (L.due st.now) ∧
    (prepare c dec v st).1.async = st.async.filter (fun e => !L.due st.now e) ∧
    (∀ f ∈ (prepare c dec v st).2.fired, f.out = dec.again f.entry.req v) ∧
    (∀ f ∈ (prepare c dec v st).2.fired, f.entry ∈ st.async ∧ f.entry.delay ≠ 0 ∧ f.entry.delay ≤ st.now) := by
  have h := L.prepare_fired c dec v st
  refine ⟨h.1, h.2.1, h.2.2.1, ?_⟩
  intro f hf
  have hm : f.entry ∈ (prepare c dec v st).2.fired.map (·.entry) := List.mem_map_of_mem hf
  rw [h.1, List.mem_filter] at hm
  refine ⟨hm.1, ?_⟩
  have := hm.2
  unfold L.due at this
  exact of_decide_eq_true this

/-- every event: whatever is handed to the application by a delayed invocation was registered (in the list before the
event, or registered by this very datagram) and its time has come; an entry that was freed or has fired is in no later
list (`async_fires_exactly_the_due`: the list afterwards has no due entry), so it is never handed over again -/
theorem async_fired_were_registered (c : Async.Cfg) (dec : Dec) (st : St) (ev : Async.Ev) :
    ∀ f ∈ (step c dec st ev).2.fired,
      (f.entry ∈ st.async ∨ (step c dec st ev).2.registered = some f.entry) ∧ f.entry.delay ≠ 0 ∧
      f.entry.delay ≤ (step c dec st ev).1.now ∧ f.out = dec.again f.entry.req
        (match ev with | .rx _ _ rq => rq.verdict | .io _ v => v | _ => ⟨0, []⟩) := by
  intro f hf
  cases ev with
  | rx p defer rq =>
    simp only [step] at hf ⊢
    have h := async_fires_exactly_the_due c dec rq.verdict (rxOwn c dec st p defer rq).1.1
    have h4 := h.2.2.2 f hf
    have h3 := h.2.2.1 f hf
    have hnow := (L.prepare_fired c dec rq.verdict (rxOwn c dec st p defer rq).1.1).2.2.2
    have hr := L.rxOwn_async c dec st p defer rq
    refine ⟨?_, h4.2.1, by rw [hnow]; exact h4.2.2, h3⟩
    rcases hr.2 with hr | ⟨e, he1, he2⟩
    · rw [hr.1] at h4; exact Or.inl h4.1
    · rw [he2] at h4
      rcases List.mem_cons.mp h4.1 with hm | hm
      · exact Or.inr (by rw [he1, hm])
      · exact Or.inl hm
  | io dt v =>
    simp only [step] at hf ⊢
    have h := async_fires_exactly_the_due c dec v { st with now := (st.now + dt) % W }
    have h4 := h.2.2.2 f hf
    exact ⟨Or.inl h4.1, h4.2.1, h4.2.2, h.2.2.1 f hf⟩
  | trigger k => simp [step] at hf
  | setDelay k d => simp [step] at hf
  | free k =>
    simp only [step] at hf
    split at hf <;> simp at hf

/-- the wait coap_check_async reports is not 0 and not later than the earliest deadline among the entries that stay
(clock not 0, delays below 2^64: what coap_async_set_delay / coap_async_trigger store) -/
theorem async_wait_le_earliest_deadline (c : Async.Cfg) (dec : Dec) (v : Verdict) (st : St)
    (hnow : 0 < st.now ∧ st.now < W) (hl : ∀ e ∈ st.async, e.delay < W) :
    ∀ e ∈ (prepare c dec v st).1.async, e.delay ≠ 0 →
      ∃ w, (prepare c dec v st).2.wait = some w ∧ 0 < w ∧ st.now < e.delay ∧ w ≤ e.delay - st.now := by
  intro e he h0
  rw [(L.prepare_fired c dec v st).2.1, List.mem_filter] at he
  have hd : L.due st.now e = false := by simpa using he.2
  have hlt : st.now < e.delay := by
    apply Nat.lt_of_not_le
    intro hle
    have : L.due st.now e = true := L.due_pos ⟨h0, hle⟩
    rw [hd] at this; exact absurd this (by decide)
  have hw := (L.check_wait dec v st.now hnow st.async st.sess 0 hl).2 e he.1 hd
  rw [L.dist_eq hnow.2 (hl e he.1) hlt] at hw
  exact ⟨_, rfl, Nat.pos_of_ne_zero hw.1, hlt, hw.2⟩

/-- after EVERY event sequence at a fresh context there is at most one entry per (session, token) -/
theorem async_one_entry_per_session_token (c : Async.Cfg) (dec : Dec) (evs : List Async.Ev) :
    ((final c dec (St.init c) evs).async.map L.key).Nodup :=
  L.final_uniq c dec evs (St.init c) List.nodup_nil

/-- a request of a session that has an entry with the request's token (a retransmission of the deferred request, D11):
handle_request is told so (`hit = true`), nothing is registered — no second entry —, and the list only loses what the
I/O step that follows hands to the application -/
theorem async_retransmission_no_second_entry (c : Async.Cfg) (dec : Dec) (st : St) (p : Nat) (defer : Option Nat) (rq : Request)
    (e : Entry) (h : find st.async p rq.msg.token = some e) :
    (step c dec st (.rx p defer rq)).2.registered = none ∧
    (step c dec st (.rx p defer rq)).2.first =
      some (dec.first true (if defer.isSome then { rq with verdict := ⟨0, []⟩ } else rq)) ∧
    (step c dec st (.rx p defer rq)).1.async = st.async.filter (fun e => !L.due st.now e) := by
  have hh := L.rxOwn_hit c dec st p defer rq e h
  simp only [step]
  refine ⟨by rw [hh.1], by rw [hh.2], ?_⟩
  rw [(L.prepare_fired ..).2.1, hh.1]

/-- … and with the C10 model of handle_request that retransmission is answered by an Empty ACK only (Confirmable) or
not at all (Non-confirmable), no handler runs -/
theorem async_retransmission_acked_only (cfg : Server.Cfg) (tbl : Table) (rq : Request) (hfit : fits cfg)
    (h : Admitted cfg tbl rq) (hobs : hasOpt rq.msg.opts 6 = false) :
    ((serverDec cfg tbl).first true rq).erase =
      ⟨true, if rq.msg.type = CON then [S.lib ACK 0 rq.msg.mid []] else [], none⟩ := by
  simp only [serverDec, hobs, Bool.false_eq_true, if_false]
  rw [decisionA_eq_specA true false cfg tbl rq hfit]
  exact deferred_retransmission_acked E false cfg tbl rq h

/-! ### the session reference of an entry (coap_session_reference_lkd in coap_register_async, coap_session_release_lkd in
coap_free_async_sub) and the idle reaper — for EVERY event sequence from the fresh context (requests that defer,
retransmissions, time, trigger, set_delay, free, the reaper at the end of every I/O step).  The machine has one holder
kind (the `coap_async_t`); C12's `ref_eq_holders` is the same balance over all holder kinds of a session (its
`HKind.async / asyncD` is this one) and covers coap_session_release by the application / session close. -/

/-- after EVERY event sequence: `session->ref` of every session = the number of entries of `context->async_state` whose
`session` it is (each entry holds exactly one reference from coap_register_async to coap_free_async / its delayed
invocation), and there is one session per peer address -/
theorem async_refs_balanced (c : Async.Cfg) (dec : Dec) (evs : List Async.Ev) :
    (∀ s ∈ (final c dec (St.init c) evs).sess, s.ref = L.cnt (final c dec (St.init c) evs).async s.peer) ∧
    ((final c dec (St.init c) evs).sess.map (·.peer)).Nodup :=
  ⟨(L.final_bal c dec evs _ (L.init_bal c)).refs, (L.final_bal c dec evs _ (L.init_bal c)).nodup⟩

/-- after EVERY event sequence every entry names a session that is in the endpoint's table, and that session's
reference count is not 0; and whatever event comes next, no entry of the list afterwards names a session the event's
reaper pass freed -/
theorem async_no_entry_of_freed_session (c : Async.Cfg) (dec : Dec) (evs : List Async.Ev) :
    (∀ e ∈ (final c dec (St.init c) evs).async, ∃ s ∈ (final c dec (St.init c) evs).sess, s.peer = e.sess ∧ 0 < s.ref) ∧
    (∀ ev, ∀ e ∈ (step c dec (final c dec (St.init c) evs) ev).1.async,
      e.sess ∉ (step c dec (final c dec (St.init c) evs) ev).2.reaped) := by
  have hb := L.final_bal c dec evs _ (L.init_bal c)
  constructor
  · intro e he
    rcases List.mem_map.mp (hb.live _ (List.mem_map_of_mem he)) with ⟨s, hs, hse⟩
    refine ⟨s, hs, hse, ?_⟩
    rw [hb.refs s hs, hse]
    exact L.cnt_pos_of_mem he
  · intro ev e he hr
    have := (L.step_bal c dec _ ev hb).2 _ hr
    have h2 := L.cnt_pos_of_mem he
    omega

/-- the idle reaper (`ref == 0 && last_rx_tx + session_timeout <= now`) never reclaims a session with a pending entry:
in every reachable state a session that an entry names is not idle however long nothing was received from the peer, and
the sessions an event reclaims have no entry left (an entry that fired in the same coap_io_prepare_io call released its
reference before the reaper looked) -/
theorem async_pending_session_not_reclaimed (c : Async.Cfg) (dec : Dec) (evs : List Async.Ev) :
    (∀ now, ∀ s ∈ (final c dec (St.init c) evs).sess, (∃ e ∈ (final c dec (St.init c) evs).async, e.sess = s.peer) →
      idle c now s = false) ∧
    (∀ ev, ∀ p ∈ (step c dec (final c dec (St.init c) evs) ev).2.reaped,
      L.cnt (step c dec (final c dec (St.init c) evs) ev).1.async p = 0 ∧
      ∀ e ∈ (step c dec (final c dec (St.init c) evs) ev).1.async, e.sess ≠ p) := by
  have hb := L.final_bal c dec evs _ (L.init_bal c)
  constructor
  · intro now s hs ⟨e, he, hes⟩
    have h1 := hb.refs s hs
    have h2 := L.cnt_pos_of_mem he
    rw [hes] at h2
    have : s.ref ≠ 0 := by omega
    simp [idle, this]
  · intro ev p hp
    have h0 := (L.step_bal c dec _ ev hb).2 p hp
    refine ⟨h0, ?_⟩
    intro e he hep
    have h2 := L.cnt_pos_of_mem he
    rw [hep] at h2
    omega

/-- the invariant is inductive: it holds in the fresh state and every event preserves it from ANY state that has it -/
theorem async_balance_inductive (c : Async.Cfg) (dec : Dec) :
    L.Bal (St.init c) ∧ ∀ st ev, L.Bal st → L.Bal (step c dec st ev).1 :=
  ⟨L.init_bal c, fun st ev h => (L.step_bal c dec st ev h).1⟩

/-! ### the second pass: handle_request(context, async->session, async->pdu) from coap_check_async.
libcoap keeps no pointer to the resource (or the handler) in the `coap_async_t`: the second pass selects the resource
again from the Uri-Path of the stored copy, in the resource table as it is THEN. -/

/-- configuration and resource table unchanged in between: the second pass calls the same handler of the same resource
as the first pass did, with exactly the first call's request view (method, path, query, options, payload) — whatever
message id the copy got, whatever the handler answers this time.  (Scope of the machine: no proxy options — a stored
request for the proxy-URI resource is `oos` —, no Observe; a handler that sets no code / 5.08 in the second pass is
D13 / D8.) -/
theorem async_second_pass_same_handler (cfg : Server.Cfg) (tbl : Table) (rq : Request) (call : Call) (mid : Nat)
    (v : Verdict) (hprx : hasOpt rq.msg.opts 35 = false ∧ hasOpt rq.msg.opts 39 = false)
    (hv : v.code ≠ 0 ∧ v.code ≠ 168)
    (h1 : ((serverDec cfg tbl).first false rq).call = some call) :
    ((serverDec cfg tbl).again ⟨rq.msg.type, call.code, mid, rq.msg.token, call.opts, call.payload⟩ v).call =
      some call := by
  simp only [serverDec] at h1 ⊢
  by_cases h6 : hasOpt rq.msg.opts 6 = true
  · rw [if_pos h6] at h1; cases h1
  · rw [if_neg h6] at h1
    have h6' : hasOpt rq.msg.opts 6 = false := by simpa using h6
    obtain ⟨crit, hA⟩ := L.decisionA_call cfg tbl rq call h1
    obtain ⟨os', sel, hopt, hs, hc, hw, hcall⟩ := L.handleA_call cfg tbl rq crit _ call
      (by rw [hasOpt_clear]; exact hprx.1) (by rw [hasOpt_clear]; exact hprx.2) (by rw [hasOpt_clear]; exact h6') hA
    have hcode : call.code = rq.msg.code := congrArg Call.code hcall
    have hopts : call.opts = os' := congrArg Call.opts hcall
    have hpl : call.payload = rq.msg.payload := congrArg Call.payload hcall
    have ho : ∀ n, hasOpt call.opts n = hasOpt rq.msg.opts n := by
      intro n; rw [hopts, hopt, hasOpt_clear]
    rw [L.handleD_call cfg tbl _ v hv (by dsimp only; rw [ho]; exact hprx.1) (by dsimp only; rw [ho]; exact hprx.2)
      (by dsimp only; rw [ho]; exact h6')]
    dsimp only
    rw [hcode, hopts, hs]
    dsimp only
    rw [L.checkStage_again cfg rq ⟨false, ⟨rq.msg.type, rq.msg.code, mid, rq.msg.token, os', call.payload⟩, v, .absent⟩ os' sel rfl rfl hc]
    dsimp only
    rw [hw, Option.map_some, hpl]
    exact congrArg some hcall.symm

/-- the table may have CHANGED in between (coap_delete_resource, coap_add_resource, handlers re-registered): whatever
the table `tbl'` is when the stored copy `m` is handed over, a handler that runs is the handler registered THEN for the
stored method — of the resource that has the stored Uri-Path in `tbl'` (at the index reported), or the
unknown-resource handler of `tbl'` —, and it is given exactly the stored options, payload and method -/
theorem async_second_pass_handler_of_current_table (cfg : Server.Cfg) (tbl' : Table) (m : Msg) (v : Verdict) (call : Call)
    (hprx : hasOpt m.opts 35 = false ∧ hasOpt m.opts 39 = false) (h6 : hasOpt m.opts 6 = false)
    (h : ((serverDec cfg tbl').again m v).call = some call) :
    call.code = m.code ∧ call.path = M.uriPath m.opts ∧ call.query = M.query m.opts ∧ call.opts = m.opts ∧
    call.payload = m.payload ∧
    (match call.who with
     | .res i => ∃ r, tbl'.res[i]? = some r ∧ r.path = M.uriPath m.opts ∧ handlerBit r.mask m.code = true
     | .unk => ∃ u, tbl'.unk = some u ∧ handlerBit u.mask m.code = true
     | .prx => False) := by
  simp only [serverDec] at h
  by_cases hv : v.code ≠ 0 ∧ v.code ≠ 168
  · rw [L.handleD_call cfg tbl' m v hv hprx.1 hprx.2 h6] at h
    cases hs : M.selectStage tbl' m.code false (M.uriPath m.opts) with
    | inl r => rw [hs] at h; cases h
    | inr sel =>
      rw [hs] at h
      dsimp only at h
      cases hc : M.checkStage cfg ⟨false, m, v, .absent⟩ m.opts sel with
      | some r => rw [hc] at h; cases h
      | none =>
        rw [hc] at h
        dsimp only at h
        have hb := L.checkStage_none_handler _ _ _ _ hc
        have ht := L.select_in_table tbl' m.code _ sel hs
        cases sel with
        | res i r =>
          simp only [Sel.who, Option.map_some, Option.some.injEq] at h
          subst h
          exact ⟨rfl, rfl, rfl, rfl, rfl, r, ht.1, ht.2, hb⟩
        | unk u =>
          simp only [Sel.who, Option.map_some, Option.some.injEq] at h
          subst h
          exact ⟨rfl, rfl, rfl, rfl, rfl, u, ht.1, hb⟩
        | prx p => exact absurd ht (by simp [L.InTable])
        | wk => simp [Sel.who] at h
  · unfold handleRequestD at h
    by_cases h168 : v.code = 168
    · simp [h168, Outcome.outOfScope] at h
    · have h0 : v.code = 0 := by
        apply Decidable.byContradiction
        intro hn
        exact hv ⟨hn, h168⟩
      simp [h0, Outcome.outOfScope] at h

/-- … in particular: the resource was deleted in between (no resource of the current table has the stored Uri-Path):
no handler of an ordinary resource runs — the stored request goes to the unknown-resource handler if the current table
has one for the method, else it is answered 4.04 (2.02 for DELETE) / by `.well-known/core` like a received request
(as a separate response: Confirmable for a Confirmable request, see `async_second_pass_error_is_separate_response`) -/
theorem async_deleted_resource_handler_never_runs (cfg : Server.Cfg) (tbl' : Table) (m : Msg) (v : Verdict) (call : Call)
    (hprx : hasOpt m.opts 35 = false ∧ hasOpt m.opts 39 = false) (h6 : hasOpt m.opts 6 = false)
    (hdel : ∀ r ∈ tbl'.res, r.path ≠ M.uriPath m.opts)
    (h : ((serverDec cfg tbl').again m v).call = some call) :
    call.who = .unk ∧ ∃ u, tbl'.unk = some u ∧ handlerBit u.mask m.code = true := by
  have := (async_second_pass_handler_of_current_table cfg tbl' m v call hprx h6 h).2.2.2.2.2
  cases hw : call.who with
  | res i =>
    rw [hw] at this
    obtain ⟨r, hr, hp, _⟩ := this
    exact absurd hp (hdel r (List.mem_of_getElem? hr))
  | unk => rw [hw] at this; exact ⟨rfl, this⟩
  | prx => rw [hw] at this; exact absurd this id

/-- an error response of the second pass (only possible when the table changed in between) is a separate response too:
never an ACK — its message id is the stored copy's, which acknowledges nothing the client sent -/
theorem async_second_pass_error_is_separate_response (cfg : Server.Cfg) (rq : Request) (os : Opts) (resp : Nat)
    (res : Option Nat) : ∀ r ∈ (failResponseD cfg rq os resp res).replies, r.type ≠ ACK := by
  have key : ∀ x : Reply, x.type ≠ ACK → (M.noResponse cfg rq res x).2.type ≠ ACK := by
    intro x hx
    unfold M.noResponse
    dsimp only
    repeat' split
    all_goals first | exact hx | (rename_i h; exact absurd h hx)
  have h2 : ∀ x : Reply, x.type ≠ ACK → (ackStrip (stripObserve false x)).type ≠ ACK := by
    intro x hx
    have : stripObserve false x = x := by simp [stripObserve]
    rw [this]
    unfold ackStrip
    rw [if_neg (fun h => hx h.1)]
    exact hx
  have h4 : ∀ x : Reply, x.type ≠ ACK → (M.sendFix rq.mcast x).type ≠ ACK := by
    intro x hx
    unfold M.sendFix
    split
    · exact hx
    · exact hx
  have h0 : (if (M.errReply rq.msg os resp M.Filter.empty).type = ACK then
      { M.errReply rq.msg os resp M.Filter.empty with type := CON } else M.errReply rq.msg os resp M.Filter.empty).type ≠ ACK := by
    split
    · show CON ≠ ACK
      decide
    · assumption
  intro r hr
  unfold failResponseD M.deliver M.post at hr
  dsimp only at hr
  by_cases hd : (M.noResponse cfg rq res (if (M.errReply rq.msg os resp M.Filter.empty).type = ACK then
      { M.errReply rq.msg os resp M.Filter.empty with type := CON } else M.errReply rq.msg os resp M.Filter.empty)).1 = .drop
  · rw [if_pos hd] at hr; simp at hr
  · rw [if_neg hd, List.mem_singleton] at hr
    rw [hr]
    split
    · exact h4 _ (h2 _ (key _ h0))
    · exact h2 _ (key _ h0)

/-- the machine with a changing table (`stepT`): the balance is untouched by coap_delete_resource, and whatever the
events before (deletions included) a delayed invocation is decided by the table as it is at that moment — so
`async_second_pass_handler_of_current_table` / `async_deleted_resource_handler_never_runs` apply to everything that
fires with `tbl' := x.tbl` -/
theorem async_changing_table (c : Async.Cfg) (cfg : Server.Cfg) (x : StT) (ev : EvT) (hb : L.Bal x.st) :
    L.Bal (stepT c cfg x ev).1.st ∧
    (∀ f ∈ (stepT c cfg x ev).2.fired, ∃ v, f.out = (serverDec cfg x.tbl).again f.entry.req v) ∧
    (∀ k, ev = .delRes k → (stepT c cfg x ev).1.st = x.st ∧ (stepT c cfg x ev).2.fired = []) := by
  cases ev with
  | ev e =>
    refine ⟨(L.step_bal c _ x.st e hb).1, ?_, by intro k hk; cases hk⟩
    intro f hf
    exact ⟨_, (async_fired_were_registered c (serverDec cfg x.tbl) x.st e f hf).2.2.2⟩
  | delRes k =>
    exact ⟨hb, by intro f hf; simp [stepT] at hf, fun _ _ => ⟨rfl, rfl⟩⟩

/-- the machine: the entry a deferring datagram registered, when it is handed over under the unchanged table, reaches
the handler call the datagram itself reached -/
theorem async_registered_entry_second_pass (c : Async.Cfg) (cfg : Server.Cfg) (tbl : Table) (st : St) (p : Nat)
    (defer : Option Nat) (rq : Request) (e : Entry) (v : Verdict)
    (hprx : hasOpt rq.msg.opts 35 = false ∧ hasOpt rq.msg.opts 39 = false) (hv : v.code ≠ 0 ∧ v.code ≠ 168)
    (hreg : (rxOwn c (serverDec cfg tbl) st p defer rq).1.2 = some e) :
    ∃ call, (rxOwn c (serverDec cfg tbl) st p defer rq).2.call = some call ∧
      ((serverDec cfg tbl).again e.req v).call = some call := by
  unfold rxOwn at hreg ⊢
  dsimp only at hreg ⊢
  split at hreg
  · rename_i d call hcall
    obtain ⟨hf, mid, he⟩ := L.register_some _ _ _ _ _ _ _ hreg
    dsimp only at hf
    refine ⟨call, hcall, ?_⟩
    rw [hf] at hcall
    rw [he]
    simp only [Option.isSome_none, Option.isSome_some, if_true] at hcall
    exact async_second_pass_same_handler cfg tbl { rq with verdict := ⟨0, []⟩ } call mid v hprx hv hcall
  · cases hreg

/-! non-vacuity: GET /a from peer 1 deferred for 500 ticks, retransmitted, 499 ticks pass (nothing), 1 more tick (the
delayed invocation: the handler is given the stored request and its 2.05 goes out as a separate Confirmable response) -/
def exACfg : Async.Cfg := ⟨1000, 2000, 32896⟩
def exARun : List Async.Ev :=
  [.rx 1 (some 500) exAgain.rq, .rx 1 none exAgain.rq, .io 499 ⟨69, [104, 105]⟩, .io 1 ⟨69, [104, 105]⟩]
example : (run exACfg (serverDec exCfg exTbl) (St.init exACfg) exARun).map
      (fun o => [(o.first.map (fun x => x.replies.map (·.code))).getD [], (o.first.map (fun x => x.replies.map (·.type))).getD [],
                 [(o.registered.map (·.delay)).getD 0, o.wait.getD 0],
                 o.fired.map (·.entry.id), (o.fired.map (fun f => f.out.replies.map (·.code))).flatten,
                 (o.fired.map (fun f => f.out.replies.map (·.type))).flatten,
                 (o.fired.map (fun f => f.out.replies.map (·.mid))).flatten,
                 (o.fired.map (fun f => (f.out.call.map (fun c => c.opts.map (·.1))).getD [])).flatten]) =
    [[[0], [2], [1500, 500], [], [], [], [], []], [[0], [2], [0, 500], [], [], [], [], []],
     [[], [], [0, 1], [], [], [], [], []], [[], [], [0, 0], [0], [69], [0], [32897], [11]]] := by decide
def exASt : St := (step exACfg (serverDec exCfg exTbl) (St.init exACfg) (.rx 1 (some 500) exAgain.rq)).1
example : (find exASt.async 1 exAgain.rq.msg.token).isSome = true := by decide
example : (0 < exASt.now ∧ exASt.now < W) ∧ (∀ e ∈ exASt.async, e.delay < W) ∧ exASt.async ≠ [] := by decide
example : fits exCfg ∧ hasOpt exAgain.rq.msg.opts 6 = false := by decide

/-! non-vacuity of the balance: deferred for 5000 ticks; 3000 ticks later the session has long been silent (timeout 2000)
but holds a reference: not reclaimed; at 6000 the entry fires (reference dropped, response sent); 2000 ticks later the
session is reclaimed -/
def exBRun : List Async.Ev :=
  [.rx 1 (some 5000) exAgain.rq, .io 3000 ⟨69, [104, 105]⟩, .io 2000 ⟨69, [104, 105]⟩, .io 2000 ⟨69, [104, 105]⟩]
example : (run exACfg (serverDec exCfg exTbl) (St.init exACfg) exBRun).map (fun o => (o.fired.length, o.reaped)) =
    [(0, []), (0, []), (1, []), (0, [1])] := by decide
example : ((final exACfg (serverDec exCfg exTbl) (St.init exACfg) (exBRun.take 2)).sess.map (fun s => (s.peer, s.ref, s.last)),
           (final exACfg (serverDec exCfg exTbl) (St.init exACfg) (exBRun.take 2)).now) = ([(1, 1, 1000)], 4000) := by decide

/-! non-vacuity of the second-pass theorems: GET /a with Hop-Limit 5 and a query (the handler's view has Hop-Limit 4:
the stored copy; the second pass must not decrement again), unchanged table ⇒ the same call; table without /a ⇒ 4.04 in
an ACK with the copy's message id and no handler; table without /a but with an unknown-resource handler ⇒ that one -/
def exHop : Request := ⟨false, ⟨0, 1, 7, [1], [(11, [97]), (15, [120]), (16, [5])], []⟩, ⟨0, []⟩, .absent⟩
def exHopCall : Call := ⟨.res 0, 1, [97], [120], [(11, [97]), (15, [120]), (16, [4])], []⟩
def exStored : Msg := ⟨0, 1, 32897, [1], exHopCall.opts, []⟩
example : ((serverDec exCfg exTbl).first false exHop).call = some exHopCall ∧
    (hasOpt exHop.msg.opts 35 = false ∧ hasOpt exHop.msg.opts 39 = false) := by decide
example : ((serverDec exCfg exTbl).again exStored ⟨69, [104, 105]⟩).call = some exHopCall :=
  async_second_pass_same_handler exCfg exTbl exHop exHopCall 32897 ⟨69, [104, 105]⟩ (by decide) (by decide) (by decide)
def exTblDel : Table := ⟨none, none, []⟩
def exTblDelUnk : Table := ⟨some ⟨1, 0⟩, none, []⟩
example : (∀ r ∈ exTblDel.res, r.path ≠ M.uriPath exStored.opts) ∧
    (((serverDec exCfg exTblDel).again exStored ⟨69, [104, 105]⟩).call = none) ∧
    (((serverDec exCfg exTblDel).again exStored ⟨69, [104, 105]⟩).replies.map (fun r => (r.type, r.code, r.mid))) =
      [(CON, 132, 32897)] := by decide
example : (∀ r ∈ exTblDelUnk.res, r.path ≠ M.uriPath exStored.opts) ∧
    (((serverDec exCfg exTblDelUnk).again exStored ⟨69, [104, 105]⟩).call.map (·.who)) = some .unk := by decide
example : (rxOwn exACfg (serverDec exCfg exTbl) (St.init exACfg) 1 (some 500) exHop).1.2.map (·.req) = some exStored := by
  decide

/-! observation (a): an entry waiting for a trigger (`delay == 0`) is not skipped by the `next_due` computation of
coap_check_async: it contributes `0 - now` (uint64_t).  With only such entries the function returns 2^64 − now — not a
deadline of anything.  No property is contradicted: C10 does not speak about waits, `async_wait_le_earliest_deadline`
(the returned wait is never LATER than the earliest real deadline) holds regardless because 2^64 − now only loses
against real distances, and C06's wait statement is about retransmission deadlines; the effect is a wake-up of the
application's I/O loop that finds nothing to do (coap_io_prepare_io truncates the value to its timeout type). -/
theorem async_wait_of_untriggered_entry_witness :
    (prepare exACfg (serverDec exCfg exTbl) ⟨69, [104, 105]⟩
      (step exACfg (serverDec exCfg exTbl) (St.init exACfg) (.rx 1 (some 0) exAgain.rq)).1).2.wait =
      some (W - 1000) ∧
    (step exACfg (serverDec exCfg exTbl) (St.init exACfg) (.rx 1 (some 0) exAgain.rq)).1.async.map (·.delay) = [0] := by
  decide

end Async

end Coap.C10
